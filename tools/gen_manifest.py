#!/usr/bin/env python3
"""Generates /verif/MANIFEST.json from the table below (kept in one place so the
file stays valid while checks are added). Run: python3 tools/gen_manifest.py"""
import json, os, subprocess

ROOT = os.path.dirname(os.path.dirname(os.path.abspath(__file__)))

HOOK_COMMITS = subprocess.run(
    ["git", "-C", "/repo", "log", "--format=%h %s", "--grep=^verif hook"],
    capture_output=True, text=True).stdout.strip().splitlines()

# id -> (category, technique, level text, level note, design ref)
CHECKS = {}

def check(pid, category, technique, text, note, ref):
    CHECKS[pid] = dict(category=category, technique=technique, text=text, note=note, ref=ref)

exec(open(os.path.join(ROOT, "tools", "checks_table.py")).read())

NOT_APPLICABLE = {}
exec(open(os.path.join(ROOT, "tools", "not_applicable.py")).read())

props = [json.loads(l)["id"] for l in open(os.path.join(ROOT, "properties.jsonl"))]
checks = []
for pid in props:
    if pid not in CHECKS:
        continue
    c = CHECKS[pid]
    checks.append({
        "property_id": pid,
        "quick_cmd": f"./check {pid} quick",
        "thorough_cmd": f"./check {pid} thorough",
        "evidence_file": f"/verif/evidence/{pid}.json",
        "replay_cmd_template": f"./check {pid} --replay {{path}}",
        "engine": "harness",
        "level_claimed": {"category": c["category"], "text": c["text"], "design_ref": c["ref"]},
        "level_note": c["note"],
        "technique": c["technique"],
    })
na = []
for pid in props:
    if pid not in CHECKS:
        na.append({"property_id": pid, "reason": NOT_APPLICABLE.get(pid, "no check built yet in this round; see DESIGN.md")})

manifest = {
    "version": 1,
    "setup_cmd": "./check build",
    "hooks": {
        "guard": "verif",
        "enable": "go build -tags verif (harness module with replace com.tuntun.rangers/node => /repo); hook files carry //go:build verif, call sites use verif_on.go/verif_off.go pairs",
        "baseline_off_cmd": "cd /repo && GOFLAGS=-mod=mod GOPROXY=off GOSUMDB=off GOTOOLCHAIN=local go test -mod=mod -json -vet=off -count=1 -timeout 25m ./...",
        "source_commits": [l.split()[0] for l in HOOK_COMMITS],
        "add_only": True,
    },
    "engines": [{
        "name": "harness", "path": "/verif/harness",
        "serves_properties": [c["property_id"] for c in checks],
        "kind_free_text": "Go drivers executing the real go-rangers packages (build tag verif) under monitors: reference-model oracles, invariant walkers, differential twins, recorded-history checkers (porcupine), crash-point injection at the store write hook, Go race detector",
    }],
    "checks": checks,
    "not_applicable": na,
    "notes": "Runtime monitoring only: every check observes executions of the real code built from /repo's working tree. Exit 0 held / KNOWN-FINDING only, 1 VIOLATION, 2 machinery problem. known_findings.json lists recorded and fixed defects.",
}
json.dump(manifest, open(os.path.join(ROOT, "MANIFEST.json"), "w"), indent=1)
print("wrote MANIFEST.json:", len(checks), "checks,", len(na), "not_applicable")
