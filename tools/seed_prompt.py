#!/usr/bin/env python3
"""seed_prompt.py <Cxx> <suffix>: print the seeding prompt for one property (round 5+ form: whole property record,
nothing about the checks). Worktree /tmp/seed-<cxx><suffix>, output /tmp/seedout-<cxx><suffix>."""
import json, sys
pid, suf = sys.argv[1], sys.argv[2]
extra = sys.argv[3] if len(sys.argv) > 3 else ''
p = [json.loads(l) for l in open('/verif/properties.jsonl') if json.loads(l)['id'] == pid][0]
a = p['anchors']
blk = f"Property {pid} — {p['title']}\n\nStatement: {p['statement']}\n\nQuantifier: {p['quantifier']['text']}\n\nWhere it lives (anchors of the property):\n"
blk += "  files: " + ", ".join(a['files']) + "\n"
blk += "  state: " + "; ".join(f"{s['name']} ({s['meaning']}; {s['where']})" for s in a.get('state', [])) + "\n"
blk += "  mechanisms: " + "; ".join(f"{s['name']} ({s['where']})" for s in a.get('mechanism', [])) + "\n"
blk += "  observable at: " + "; ".join(a.get('observe_at', [])) + "\n\n"
blk += ("Spread your two changes over DIFFERENT anchored files / mechanisms from the list above, and prefer sites that are easy to "
        "overlook (helpers, entry points in front of the main check, rarely used branches, fork-gated code paths, error paths, "
        "interaction with another subsystem) over the most obvious function." + (" " + extra if extra else ""))
t = open('/verif/tools/seed_prompt_template.txt').read()
w = f"/tmp/seed-{pid.lower()}{suf}"; o = f"seedout-{pid.lower()}{suf}"
t = t.replace('PROPERTY', blk).replace('WORKTREE/../OUTDIR', '/tmp/' + o).replace('WORKTREE', w).replace('OUTDIR', '/tmp/' + o)
t = t.replace("restore the worktree with `git checkout -- .` between them;", "restore the worktree with `git checkout -- .` between them — never use `git stash`, the stash is shared between worktrees;")
print(t)
