#!/usr/bin/env python3
"""seed_keep.py <seed id e.g. C19-1> <src dir> <property> <needs> <caught_by> <ran...>: copy a confirmed seeded change into /verif/seeded/<id>/ with meta.json"""
import sys, os, shutil, json
sid, src, prop, needs, caught = sys.argv[1:6]
ran = sys.argv[6:]
dst = os.path.join('/verif/seeded', sid)
os.makedirs(dst, exist_ok=True)
for f in os.listdir(src):
    if f.endswith('.txt') and 'core_tests' in f: continue
    shutil.copy(os.path.join(src, f), os.path.join(dst, f))
meta = {"id": sid, "property": prop, "needs_to_manifest": needs, "caught_by": caught, "confirmed": ran,
        "origin": "independent sub-agent given only the property text and a scratch worktree"}
json.dump(meta, open(os.path.join(dst, 'meta.json'), 'w'), indent=1)
print("kept", dst, os.listdir(dst))
