#!/usr/bin/env bash
# seed_try.sh <patch.diff> <Cxx> [tier]: run a check against the scratch worktree /tmp/seedrun with the patch applied
set -u
P="$1"; ID="$2"; TIER="${3:-quick}"
W="${SEEDRUN:-/tmp/seedrun}"
[ -d "$W" ] || git -C /repo worktree add -q --detach "$W" HEAD
git -C "$W" checkout -q --detach "$(git -C /repo rev-parse HEAD)" 2>/dev/null
cd "$W" && git checkout -q -- . && git clean -fdq src >/dev/null 2>&1
git apply "$P" || { echo "PATCH DOES NOT APPLY"; exit 2; }
cd /verif && VERIF_REPO="$W" ./check "$ID" "$TIER" 2>&1 | grep -v "sqlite\|^ *[0-9]* |\|^ *|" | grep "VIOLATION\|signature:\|$ID $TIER\|MACHINERY\|KNOWN" | sed 's/replay=.*//' | sort | uniq -c | sort -rn | head -12
cd "$W" && git checkout -q -- . && git clean -fdq src >/dev/null 2>&1
