#!/usr/bin/env bash
# seed_regress.sh [ids...]: run every kept seeded change (or the given ids) against the check that is
# recorded as catching it, in the scratch worktree $SEEDRUN (default /tmp/seedreg); prints one line per seed.
set -u
export SEEDRUN="${SEEDRUN:-/tmp/seedreg}"
cd /verif
ids=("$@"); [ ${#ids[@]} -eq 0 ] && ids=($(ls seeded | grep -v REGR | sort -V))
for id in "${ids[@]}"; do
  chk=$(python3 -c "
import json,re,sys
m=json.load(open('seeded/$id/meta.json'))
c=re.match(r'(C\d\d) ', m['caught_by']); print(c.group(1) if c else m['property'])")
  out=$(tools/seed_try.sh /verif/seeded/$id/patch.diff "$chk" 2>&1)
  if echo "$out" | grep -q "PATCH DOES NOT APPLY"; then echo "$id $chk PATCH-DOES-NOT-APPLY";
  elif echo "$out" | grep -q "VIOLATION property=$chk"; then echo "$id $chk caught $(echo "$out" | grep -c 'signature:') signatures";
  else echo "$id $chk MISSED"; fi
done
git -C /repo worktree remove --force "$SEEDRUN" 2>/dev/null
