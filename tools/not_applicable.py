# property id -> reason (only for properties that are NOT claimed)
