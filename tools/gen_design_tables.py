#!/usr/bin/env python3
"""Regenerates the generated tables of DESIGN.md (between <!-- BEGIN x --> / <!-- END x --> markers)
from known_findings.json and seeded/*/meta.json."""
import json, glob, os, re
ROOT='/verif'
f=json.load(open(ROOT+'/known_findings.json'))['findings']
rows=[]
for e in f:
    what=e['what'].split(' — root cause')[0].replace('|','/')
    if len(what)>260: what=what[:257]+'...'
    rows.append("| %s | `%s` | %s | %s |"%(e['property'],e['signature'],what,("`fix:` "+e['commit']) if e['status']=='fixed' else "**known finding**"))
findings="| property | signature | what | handling |\n|---|---|---|---|\n"+"\n".join(rows)
rows=[]
for m in sorted(glob.glob(ROOT+'/seeded/*/meta.json')):
    d=json.load(open(m))
    rows.append("| %s | %s | %s | %s |"%(d['id'],d['property'],d['needs_to_manifest'].replace('|','/'),d['caught_by'].replace('|','/')))
seeds="| seeded change | property | what it needs to manifest | caught by |\n|---|---|---|---|\n"+"\n".join(rows)
p=ROOT+'/DESIGN.md'
s=open(p).read()
def put(name,body):
    global s
    b,e='<!-- BEGIN %s -->'%name,'<!-- END %s -->'%name
    if b in s:
        s=s[:s.index(b)+len(b)]+"\n"+body+"\n"+s[s.index(e):]
    else:
        print("marker missing:",name)
put('findings',findings); put('seeds',seeds)
open(p,'w').write(s)
print("tables regenerated:",len(f),"findings,",len(rows),"seeds")
