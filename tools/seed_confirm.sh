#!/usr/bin/env bash
# seed_confirm.sh <src dir with patch.diff + demo> <demo file> <intended path in repo> <go test pkg> <-run pattern> [tags]
# Confirms in the scratch worktree $SEEDRUN (default /tmp/seedrun): builds with the patch, demo passes without and fails with the patch.
set -u
SRC="$1"; DEMO="$2"; DEST="$3"; PKG="$4"; PAT="$5"; TAGS="${6:-verif}"
W="${SEEDRUN:-/tmp/seedrun}"
[ -d "$W" ] || git -C /repo worktree add -q --detach "$W" HEAD
export GOFLAGS=-mod=mod GOPROXY=off GOSUMDB=off GOTOOLCHAIN=local
cd "$W" && git checkout -q -- . && git clean -fdq src >/dev/null 2>&1
cp "$SRC/$DEMO" "$W/$DEST"
echo "== without patch"; timeout 900 go test -mod=mod -vet=off -count=1 -tags "$TAGS" "$PKG" -run "$PAT" 2>&1 | grep -v "sqlite\|^ *[0-9]* |\|^ *|" | tail -4; R0=${PIPESTATUS[0]}
git apply "$SRC/patch.diff" || { echo "PATCH DOES NOT APPLY"; exit 2; }
echo "== build with patch"; go build ./... 2>&1 | grep -v "sqlite\|^ *[0-9]* |\|^ *|" | tail -3; B=${PIPESTATUS[0]}
echo "== with patch"; timeout 900 go test -mod=mod -vet=off -count=1 -tags "$TAGS" "$PKG" -run "$PAT" 2>&1 | grep -v "sqlite\|^ *[0-9]* |\|^ *|" | tail -6; R1=${PIPESTATUS[0]}
rm -f "$W/$DEST"; git checkout -q -- .; git clean -fdq src >/dev/null 2>&1
echo "RESULT without=$R0 build=$B with=$R1"
