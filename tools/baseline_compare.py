#!/usr/bin/env python3
"""Compare a `go test -json` log with BASELINE.json's stable_pass list."""
import json, sys
base = json.load(open('/root/.vp/BASELINE.json'))
stable = set(base['stable_pass'])
status = {}
for line in open(sys.argv[1]):
    try: e = json.loads(line)
    except Exception: continue
    if e.get('Test') and e.get('Action') in ('pass', 'fail', 'skip'):
        status[e['Package'] + '::' + e['Test']] = e['Action']
missing = [t for t in sorted(stable) if status.get(t) != 'pass']
print('stable tests:', len(stable), 'passing now:', len(stable) - len(missing))
for t in missing: print('  NOT PASSING:', t, status.get(t))
sys.exit(1 if missing else 0)
