#!/usr/bin/env python3
import json, jsonschema, glob, sys
m=json.load(open('/verif/MANIFEST.json')); s=json.load(open('/root/.vp/MANIFEST.schema.json'))
jsonschema.validate(m,s); print("manifest ok")
s=json.load(open('/root/.vp/EVIDENCE.schema.json'))
for f in sorted(glob.glob('/verif/evidence/*.json')):
    try:
        jsonschema.validate(json.load(open(f)),s); print("evidence ok", f)
    except Exception as e:
        print("EVIDENCE INVALID", f, str(e)[:300]); sys.exit(1)
