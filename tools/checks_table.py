check("C18", "exploration", "runtime monitor: exact big-integer/digit-string oracle around the real converters on boundary grids + seeded random values; wrapped-ETH value observed at the executor boundary",
      "Held on every value explored: ~10^6 (quick) integers/strings incl. all 2^k±1, 10^k±1, digit patterns of every length and all token decimals 0..18; an exact oracle, so any lossy conversion of an explored value is reported. Sampling, not proof, over the 2^256 domain.",
      "math/big is exact; services booted offline with tag verif (NTP hook H1) for the ETH path", "DESIGN.md §4 C18")
