// Package env boots the go-rangers services inside the harness process
// (offline, build tag verif) following the recipe verified in DESIGN.md §3.
package env

import (
	"encoding/json"
	"fmt"
	"io/ioutil"
	"math"
	"math/big"
	"os"
	"path/filepath"
	"time"

	"com.tuntun.rangers/node/src/common"
	"com.tuntun.rangers/node/src/consensus/logical/group_create"
	"com.tuntun.rangers/node/src/consensus/model"
	"com.tuntun.rangers/node/src/core"
	"com.tuntun.rangers/node/src/executor"
	"com.tuntun.rangers/node/src/middleware"
	"com.tuntun.rangers/node/src/middleware/types"
	"com.tuntun.rangers/node/src/service"
	"com.tuntun.rangers/node/src/vm"
)

// Helper is the stub ConsensusHelper: accepts every block and group (the
// block-store / group-chain properties are about storage, not signatures).
type Helper struct {
	// RejectGroup, when set, makes CheckGroup fail for matching groups.
	RejectGroup func(g *types.Group) bool
}

func (h *Helper) GenerateGenesisInfo() []*types.GenesisInfo { return group_create.GetGenesisInfo() }
func (h *Helper) VRFProve2Value(prove *big.Int) *big.Int {
	// same as the real helper: first 32 bytes of the proof
	b := prove.Bytes()
	if len(b) > 32 {
		b = b[:32]
	}
	return new(big.Int).SetBytes(b)
}
func (h *Helper) ProposalBonus() *big.Int               { return big.NewInt(0) }
func (h *Helper) PackBonus() *big.Int                   { return big.NewInt(0) }
func (h *Helper) VerifyHash(b *types.Block) common.Hash { return common.Hash{} }
func (h *Helper) CheckProveRoot(bh *types.BlockHeader) (bool, error) {
	return true, nil
}
func (h *Helper) VerifyNewBlock(bh *types.BlockHeader, preBH *types.BlockHeader) (bool, error) {
	return true, nil
}
func (h *Helper) VerifyBlockHeader(bh *types.BlockHeader) (bool, error) { return true, nil }
func (h *Helper) VerifyGroupSign(groupPubkey []byte, blockHash common.Hash, sign []byte) (bool, error) {
	return true, nil
}
func (h *Helper) CheckGroup(g *types.Group) (bool, error) {
	if h.RejectGroup != nil && h.RejectGroup(g) {
		return false, fmt.Errorf("stub: group rejected")
	}
	return true, nil
}
func (h *Helper) VerifyMemberInfo(bh *types.BlockHeader, preBH *types.BlockHeader) (bool, error) {
	return true, nil
}
func (h *Helper) VerifyGroupForFork(g *types.Group, preGroup *types.Group, parentGroup *types.Group, baseBlock *types.Block) (bool, error) {
	return true, nil
}

// Forks describes the fork schedule the harness sets explicitly.
type Forks struct {
	// AllFrom is the height from which every proposal is active (>= 1:
	// with Proposal026Block = 0 the dev genesis cannot deploy its own contract).
	P025 uint64 // difficulty proposal; default far away
	// Overrides by proposal number (1..27) -> block height.
	Override map[int]uint64
}

// SetForks installs "all proposals active from height 1 (026 from 1)", P025 far
// away, plus overrides.
func SetForks(f Forks) {
	c := &common.LocalChainConfig
	c.Proposal001Block, c.Proposal002Block, c.Proposal003Block, c.Proposal004Block = 0, 0, 0, 0
	c.Proposal005Block, c.Proposal006Block, c.Proposal007Block, c.Proposal008Block = 0, 0, 0, 0
	c.Proposal009Block, c.Proposal010Block, c.Proposal011Block, c.Proposal012Block = 0, math.MaxUint64, math.MaxUint64, 0
	c.Proposal013Block, c.Proposal014Block, c.Proposal015Block, c.Proposal016Block = 0, 0, 0, 0
	c.Proposal017Block, c.Proposal018Block, c.Proposal019Block, c.Proposal020Block = 0, 0, math.MaxUint64, 0
	c.Proposal021Block, c.Proposal022Block, c.Proposal023Block, c.Proposal024Block = 0, 0, 0, 0
	c.Proposal025Block = 1000000000
	if f.P025 != 0 {
		c.Proposal025Block = f.P025
	}
	c.Proposal026Block, c.Proposal027Block = 1, 1
	for k, v := range f.Override {
		switch k {
		case 1:
			c.Proposal001Block = v
		case 2:
			c.Proposal002Block = v
		case 3:
			c.Proposal003Block = v
		case 4:
			c.Proposal004Block = v
		case 5:
			c.Proposal005Block = v
		case 6:
			c.Proposal006Block = v
		case 7:
			c.Proposal007Block = v
		case 8:
			c.Proposal008Block = v
		case 9:
			c.Proposal009Block = v
		case 10:
			c.Proposal010Block = v
		case 11:
			c.Proposal011Block = v
		case 12:
			c.Proposal012Block = v
		case 13:
			c.Proposal013Block = v
		case 14:
			c.Proposal014Block = v
		case 15:
			c.Proposal015Block = v
		case 16:
			c.Proposal016Block = v
		case 17:
			c.Proposal017Block = v
		case 18:
			c.Proposal018Block = v
		case 19:
			c.Proposal019Block = v
		case 20:
			c.Proposal020Block = v
		case 21:
			c.Proposal021Block = v
		case 22:
			c.Proposal022Block = v
		case 23:
			c.Proposal023Block = v
		case 24:
			c.Proposal024Block = v
		case 25:
			c.Proposal025Block = v
		case 26:
			c.Proposal026Block = v
		case 27:
			c.Proposal027Block = v
		}
	}
}

var booted bool

// BootServices runs common.Init + middleware + service + vm + executors in the
// current working directory (which must be a scratch dir: the node writes
// storage0/, logs/, conf.ini relative to cwd). No chain is created.
func BootServices(f Forks) {
	if booted {
		return
	}
	booted = true
	quietLogs()
	common.Init(0, "conf.ini", "dev")
	SetForks(f)
	model.InitParam(common.GlobalConf.GetSectionManager("consensus"))
	middleware.InitMiddleware()
	service.InitService()
	vm.InitVM()
	executor.InitExecutors()
}

// BootCore additionally runs core.InitCore with the stub helper (creates or
// reopens the chain stores under cwd).
func BootCore(f Forks, h *Helper) {
	BootServices(f)
	if h == nil {
		h = &Helper{}
	}
	key := common.GenerateKey("")
	if err := core.InitCore(h, key, "verif-node"); err != nil {
		panic(err)
	}
}

// quietLogs writes a seelog-free environment: the node creates ./logs itself;
// nothing to do besides making sure cwd is writable.
func quietLogs() {
	os.MkdirAll("logs", 0755)
}

// ScratchDir creates and chdirs into a fresh directory; returns it.
func ScratchDir(prefix string) string {
	base := os.Getenv("VERIF_WORK")
	if base == "" {
		base = os.TempDir()
	}
	d, err := ioutil.TempDir(base, prefix)
	if err != nil {
		panic(err)
	}
	if err := os.Chdir(d); err != nil {
		panic(err)
	}
	return d
}

// Header builds a block header for executor-level runs.
func Header(height uint64, castor []byte, t time.Time) *types.BlockHeader {
	return &types.BlockHeader{Height: height, Castor: castor, CurTime: t,
		ProveValue: big.NewInt(1), Transactions: make([]common.Hashes, 0), EvictedTxs: make([]common.Hash, 0),
		RequestIds: map[string]uint64{}}
}

// Dev-genesis constants used by several drivers.
const (
	DevProposerID = "0x7f88b4f2d36a83640ce5d782a0a20cc2b233de3df2d8a358bf0e7b29e9586a12"
)

// RichAccounts hold 10^9 tokens each in the dev genesis state.
var RichAccounts = []string{
	"0x2f4f09b722a6e5b77be17c9a99c785fa7035a09f",
	"0x42c8c9b13fc0573d18028b3398a887c4297ff646",
	"0x8744c51069589296fcb7faa2f891b1f513a0310c",
	"0x25716527aad0ae1dd24bd247af9232dae78595b0",
}

// TransferTx builds an (unsigned) operator transfer transaction; block
// verification does not check transaction signatures (admission does, C07).
func TransferTx(source string, targets map[string]string, nonce uint64, tag string) *types.Transaction {
	m := map[string]types.TransferData{}
	for a, v := range targets {
		m[a] = types.TransferData{Balance: v}
	}
	b, _ := jsonMarshal(m)
	tx := &types.Transaction{Source: source, Type: types.TransactionTypeOperatorEvent, Time: tag,
		ExtraData: string(b), Nonce: nonce, ChainId: common.ChainId(1)}
	tx.Hash = tx.GenHash()
	return tx
}

// CopyDir copies a directory tree (used to clone a dead node's stores).
func CopyDir(src, dst string) error {
	return filepath.Walk(src, func(p string, info os.FileInfo, err error) error {
		if err != nil {
			return err
		}
		rel, _ := filepath.Rel(src, p)
		t := filepath.Join(dst, rel)
		if info.IsDir() {
			return os.MkdirAll(t, 0755)
		}
		if !info.Mode().IsRegular() {
			return nil
		}
		b, err := ioutil.ReadFile(p)
		if err != nil {
			return err
		}
		return ioutil.WriteFile(t, b, 0644)
	})
}

func jsonMarshal(v interface{}) ([]byte, error) { return json.Marshal(v) }
