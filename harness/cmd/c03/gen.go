package main

import (
	"crypto/sha256"
	"encoding/binary"
	"fmt"
	"math/big"
	"math/rand"
	"sort"

	"com.tuntun.rangers/node/src/common"
)

// ---------------------------------------------------------------------------
// Reference state: what the workload wrote, kept in plain maps. It never
// touches the trie / account packages.

type refAcct struct {
	Nonce    uint64
	Code     []byte // nil: none
	HasCode  bool   // SetCode was called (possibly with empty code)
	Storage  map[string][]byte
	Suicided bool // deleted at the end of the block
}

func (a *refAcct) clone() *refAcct {
	c := &refAcct{Nonce: a.Nonce, Code: a.Code, HasCode: a.HasCode, Suicided: a.Suicided, Storage: make(map[string][]byte, len(a.Storage))}
	for k, v := range a.Storage {
		c.Storage[k] = v // values are never mutated in place
	}
	return c
}

type refState struct {
	Accts map[common.Address]*refAcct
	Bal   map[common.Address]*big.Int
}

func newRefState() *refState {
	return &refState{Accts: map[common.Address]*refAcct{}, Bal: map[common.Address]*big.Int{}}
}

func (s *refState) clone() *refState {
	c := newRefState()
	for a, v := range s.Accts {
		c.Accts[a] = v.clone()
	}
	for a, v := range s.Bal {
		c.Bal[a] = new(big.Int).Set(v)
	}
	return c
}

func (s *refState) bal(a common.Address) *big.Int {
	if v, ok := s.Bal[a]; ok {
		return v
	}
	return new(big.Int)
}

// endBlock applies the end-of-block rule: self-destructed accounts disappear.
func (s *refState) endBlock() {
	for a, v := range s.Accts {
		if v.Suicided {
			delete(s.Accts, a)
		}
	}
}

func (s *refState) sortedAddrs() []common.Address {
	out := make([]common.Address, 0, len(s.Accts))
	for a := range s.Accts {
		out = append(out, a)
	}
	sort.Slice(out, func(i, j int) bool { return string(out[i][:]) < string(out[j][:]) })
	return out
}

// ---------------------------------------------------------------------------
// Operations (applied to the real AccountDB by applyOps in main.go)

type Op struct {
	K    string // create inc set del del0 code suicide bal addbal subbal snap revert
	Addr common.Address
	Key  []byte
	Val  []byte
	N    uint64
	Amt  *big.Int
}

type blockPlan struct {
	Kind   string // genesis small medium big
	Ops    []Op
	Parent int // index into the committed-roots list (-1: empty state)
}

// gen generates the blocks of one sequence. All choices come from rng; the
// reference state is advanced as operations are emitted.
type gen struct {
	rng      *rand.Rand
	salt     string
	nAddr    int
	codes    [][]byte
	everKeys map[common.Address]map[string]struct{}
	everAddr map[common.Address]struct{}
	ref      *refState
	ops      []Op
	snaps    []*refState
	// protected accounts are never chosen as the target of a random mutation
	// (the bound balance token contract: deleting it deletes every balance)
	protected map[common.Address]bool
	// dead: self-destructed accounts that a mid-block IntermediateRoot/Finalise
	// already removed; the same AccountDB silently ignores writes to them for the
	// rest of the block, so the generator leaves them alone until the next block
	dead map[common.Address]bool
	// keepEmpty: never pass deleteEmptyObjects=true mid-block (unbound variant:
	// the zero-address balance holder can be a dirty, still empty object)
	keepEmpty bool
}

func newGen(rng *rand.Rand, salt string) *gen {
	return &gen{rng: rng, salt: salt, nAddr: 24 + rng.Intn(200),
		everKeys: map[common.Address]map[string]struct{}{}, everAddr: map[common.Address]struct{}{}, protected: map[common.Address]bool{}}
}

// addrOf: addresses come in groups of 8 sharing the first 19 bytes, and groups
// in super-groups of 4 sharing the first 9 bytes, so the account trie has deep
// branches and extension nodes, not only a flat first level.
func (g *gen) addrOf(i int) common.Address {
	grp, sup := i/8, i/32
	hs := sha256.Sum256([]byte(fmt.Sprintf("%s|sup|%d", g.salt, sup)))
	hg := sha256.Sum256([]byte(fmt.Sprintf("%s|grp|%d", g.salt, grp)))
	var a common.Address
	copy(a[:9], hs[:9])
	copy(a[9:19], hg[:10])
	a[19] = byte(i%8) * 0x11
	if a == (common.Address{}) {
		a[0] = 1
	}
	return a
}

func (g *gen) randAddr() common.Address {
	for i := 0; ; i++ {
		a := g.addrOf(g.rng.Intn(g.nAddr))
		if !g.dead[a] || i > 50 {
			return a
		}
	}
}

func (g *gen) existing() (common.Address, bool) {
	if len(g.ref.Accts) == 0 {
		return common.Address{}, false
	}
	as := g.ref.sortedAddrs()
	a := as[g.rng.Intn(len(as))]
	if g.protected[a] {
		return common.Address{}, false
	}
	return a, true
}

func (g *gen) emit(o Op) { g.ops = append(g.ops, o) }

func (g *gen) noteKey(a common.Address, k []byte) {
	m := g.everKeys[a]
	if m == nil {
		m = map[string]struct{}{}
		g.everKeys[a] = m
	}
	m[string(k)] = struct{}{}
	g.everAddr[a] = struct{}{}
}

// ensure makes sure the account exists in the reference (creating it with a
// nonce >= 1 so that "empty account" pruning never applies to it).
func (g *gen) ensure(a common.Address) *refAcct {
	g.everAddr[a] = struct{}{}
	if acc, ok := g.ref.Accts[a]; ok {
		return acc
	}
	n := uint64(1 + g.rng.Intn(1000))
	g.emit(Op{K: "create", Addr: a, N: n})
	acc := &refAcct{Nonce: n, Storage: map[string][]byte{}}
	g.ref.Accts[a] = acc
	return acc
}

func (g *gen) randKey() []byte {
	switch g.rng.Intn(10) {
	case 0, 1, 2: // short keys over a tiny alphabet: keys that are prefixes of other keys
		l := 1 + g.rng.Intn(4)
		k := make([]byte, l)
		for i := range k {
			k[i] = "abc"[g.rng.Intn(3)]
		}
		return k
	case 3, 4: // slot-index style
		k := make([]byte, 32)
		binary.BigEndian.PutUint16(k[30:], uint16(g.rng.Intn(600)))
		return k
	case 5: // odd lengths
		k := make([]byte, 1+g.rng.Intn(40))
		g.rng.Read(k)
		return k
	default:
		k := make([]byte, 32)
		g.rng.Read(k)
		return k
	}
}

func (g *gen) randVal(min, max int) []byte {
	v := make([]byte, min+g.rng.Intn(max-min+1))
	g.rng.Read(v)
	return v
}

func (g *gen) setSlot(a common.Address, k, v []byte) {
	if g.dead[a] {
		return
	}
	acc := g.ensure(a)
	g.noteKey(a, k)
	g.emit(Op{K: "set", Addr: a, Key: k, Val: v})
	acc.Storage[string(k)] = v
}

func (g *gen) delSlot(a common.Address, k []byte, viaEmpty bool) {
	if g.dead[a] {
		return
	}
	acc := g.ensure(a)
	g.noteKey(a, k)
	if viaEmpty {
		g.emit(Op{K: "del0", Addr: a, Key: k})
	} else {
		g.emit(Op{K: "del", Addr: a, Key: k})
	}
	delete(acc.Storage, string(k))
}

func (g *gen) someKey(acc *refAcct) ([]byte, bool) {
	if len(acc.Storage) == 0 {
		return nil, false
	}
	ks := make([]string, 0, len(acc.Storage))
	for k := range acc.Storage {
		ks = append(ks, k)
	}
	sort.Strings(ks)
	return []byte(ks[g.rng.Intn(len(ks))]), true
}

func (g *gen) randCode(maxLen int) []byte {
	if len(g.codes) > 0 && g.rng.Intn(2) == 0 {
		return g.codes[g.rng.Intn(len(g.codes))] // shared between accounts
	}
	var l int
	switch g.rng.Intn(6) {
	case 0:
		l = 1 + g.rng.Intn(31)
	case 1:
		l = 32 + g.rng.Intn(200)
	case 2, 3:
		l = 200 + g.rng.Intn(4000)
	default:
		l = 4000 + g.rng.Intn(20577) // up to 24 KB
	}
	if l > maxLen {
		l = maxLen
	}
	c := make([]byte, l)
	g.rng.Read(c)
	g.codes = append(g.codes, c)
	return c
}

func (g *gen) setCode(a common.Address, code []byte) {
	if g.dead[a] {
		return
	}
	acc := g.ensure(a)
	g.emit(Op{K: "code", Addr: a, Val: code})
	acc.Code, acc.HasCode = code, true
}

// makeStorageEqual rewrites dst's storage to be exactly want (shared storage
// tries between accounts / between roots).
func (g *gen) makeStorageEqual(dst common.Address, want map[string][]byte) {
	if g.dead[dst] {
		return
	}
	acc := g.ensure(dst)
	var del []string
	for k := range acc.Storage {
		if _, ok := want[k]; !ok {
			del = append(del, k)
		}
	}
	sort.Strings(del)
	for _, k := range del {
		g.delSlot(dst, []byte(k), false)
	}
	ks := make([]string, 0, len(want))
	for k := range want {
		ks = append(ks, k)
	}
	sort.Strings(ks)
	for _, k := range ks {
		if cur, ok := acc.Storage[k]; !ok || string(cur) != string(want[k]) {
			g.setSlot(dst, []byte(k), want[k])
		}
	}
}

func (g *gen) randAmt() *big.Int {
	b := make([]byte, 1+g.rng.Intn(12))
	g.rng.Read(b)
	return new(big.Int).SetBytes(b)
}

// oneOp emits one random small mutation.
func (g *gen) oneOp(older []*refState) {
	r := g.rng.Intn(112)
	switch {
	case r >= 100 && r < 103:
		g.iroot()
		return
	case r >= 103 && r < 109:
		g.restorePattern()
		return
	case r >= 109:
		g.scalarRestorePattern()
		return
	}
	switch {
	case r < 10:
		if a := g.randAddr(); !g.dead[a] {
			g.ensure(a)
		}
	case r < 16:
		a := g.randAddr()
		if g.dead[a] {
			return
		}
		g.everAddr[a] = struct{}{}
		if acc, ok := g.ref.Accts[a]; ok {
			g.emit(Op{K: "inc", Addr: a})
			acc.Nonce++
		} else {
			g.ensure(a)
		}
	case r < 50: // storage writes, 1..12 slots
		a := g.randAddr()
		if g.rng.Intn(3) > 0 {
			if e, ok := g.existing(); ok {
				a = e
			}
		}
		n := 1 + g.rng.Intn(12)
		for i := 0; i < n; i++ {
			acc := g.ensure(a)
			if k, ok := g.someKey(acc); ok && g.rng.Intn(4) == 0 {
				g.setSlot(a, k, g.randVal(1, 200)) // overwrite
			} else {
				g.setSlot(a, g.randKey(), g.randVal(1, 200))
			}
		}
	case r < 62: // deletes
		if a, ok := g.existing(); ok {
			acc := g.ref.Accts[a]
			n := 1 + g.rng.Intn(6)
			for i := 0; i < n; i++ {
				if k, ok := g.someKey(acc); ok {
					g.delSlot(a, k, g.rng.Intn(4) == 0)
				} else {
					g.delSlot(a, g.randKey(), false) // delete of an absent key
				}
			}
		}
	case r < 72:
		g.setCode(g.randAddr(), g.randCode(24*1024))
	case r < 77:
		if a, ok := g.existing(); ok {
			g.emit(Op{K: "suicide", Addr: a})
			g.ref.Accts[a].Suicided = true
			g.ref.Bal[a] = new(big.Int)
		}
	case r < 83: // balances
		a := g.randAddr()
		g.everAddr[a] = struct{}{}
		amt := g.randAmt()
		switch g.rng.Intn(4) {
		case 0:
			g.emit(Op{K: "bal", Addr: a, Amt: amt})
			g.ref.Bal[a] = new(big.Int).Set(amt)
		case 1, 2:
			g.emit(Op{K: "addbal", Addr: a, Amt: amt})
			g.ref.Bal[a] = new(big.Int).Add(g.ref.bal(a), amt)
		default:
			cur := g.ref.bal(a)
			if cur.Sign() > 0 && g.rng.Intn(2) == 0 {
				amt = new(big.Int).Rsh(cur, uint(g.rng.Intn(3))) // affordable
			}
			g.emit(Op{K: "subbal", Addr: a, Amt: amt})
			if cur.Cmp(amt) >= 0 {
				g.ref.Bal[a] = new(big.Int).Sub(cur, amt)
			}
		}
	case r < 89: // make one account's storage equal to another's (shared storage trie)
		src, ok1 := g.existing()
		if ok1 && len(g.ref.Accts[src].Storage) > 0 && len(g.ref.Accts[src].Storage) <= 60 {
			dst := g.randAddr()
			if dst != src {
				want := map[string][]byte{}
				for k, v := range g.ref.Accts[src].Storage {
					want[k] = v
				}
				g.makeStorageEqual(dst, want)
			}
		}
	case r < 94: // bring an account's storage back to what it was under an older root
		if len(older) > 0 {
			old := older[g.rng.Intn(len(older))]
			as := old.sortedAddrs()
			if len(as) > 0 {
				a := as[g.rng.Intn(len(as))]
				if len(old.Accts[a].Storage) <= 80 && !g.protected[a] {
					want := map[string][]byte{}
					for k, v := range old.Accts[a].Storage {
						want[k] = v
					}
					g.makeStorageEqual(a, want)
				}
			}
		}
	case r < 97:
		if len(g.snaps) < 3 {
			g.emit(Op{K: "snap"})
			g.snaps = append(g.snaps, g.ref.clone())
		}
	default:
		if n := len(g.snaps); n > 0 {
			g.emit(Op{K: "revert"})
			g.ref = g.snaps[n-1]
			g.snaps = g.snaps[:n-1]
		}
	}
}

// bulk emits enough new trie data that the commit is split over several
// batches of db.IdealBatchSize (100 KB): wide storage writes and large codes.
func (g *gen) bulk(targetBytes int) {
	total := 0
	for total < targetBytes {
		if g.rng.Intn(5) == 0 {
			c := make([]byte, 8000+g.rng.Intn(16577))
			g.rng.Read(c)
			g.codes = append(g.codes, c)
			g.setCode(g.randAddr(), c)
			total += len(c)
			continue
		}
		a := g.randAddr()
		n := 100 + g.rng.Intn(301)
		for i := 0; i < n; i++ {
			v := g.randVal(60, 200)
			g.setSlot(a, g.randKey(), v)
			total += len(v) + 40
		}
	}
}

// block generates the operations of one block on top of ref (which it takes
// over and advances to the expected post-state).
func (g *gen) block(kind string, ref *refState, older []*refState) ([]Op, *refState) {
	g.ref, g.ops, g.snaps, g.dead = ref, nil, nil, map[common.Address]bool{}
	switch kind {
	case "small":
		n := 1 + g.rng.Intn(30)
		for i := 0; i < n; i++ {
			g.oneOp(older)
		}
	case "medium":
		n := 30 + g.rng.Intn(171)
		for i := 0; i < n; i++ {
			g.oneOp(older)
		}
	case "big":
		n := g.rng.Intn(40)
		for i := 0; i < n; i++ {
			g.oneOp(older)
		}
		g.bulk((3 + g.rng.Intn(5)) * 100 * 1024)
		n = g.rng.Intn(20)
		for i := 0; i < n; i++ {
			g.oneOp(older)
		}
	case "empty":
	}
	g.ref.endBlock()
	return g.ops, g.ref
}

// collideBlock: one account gets a storage trie of 40 fresh slots (its root is a
// branch node with hashed children) and several other accounts get, as contract
// code, exactly the encoded root node of that storage trie (nodeOf computes it
// with the real code on a scratch store). Code blobs are stored under
// keccak(code) in the same key space as trie nodes, so blob and node collide.
func (g *gen) collideBlock(ref *refState, nodeOf func(map[string][]byte) []byte) ([]Op, *refState) {
	g.ref, g.ops, g.snaps, g.dead = ref, nil, nil, map[common.Address]bool{}
	a := g.randAddr()
	slots := map[string][]byte{}
	for i := 0; i < 40; i++ {
		k := make([]byte, 32)
		g.rng.Read(k)
		slots[string(k)] = g.randVal(40, 80)
	}
	blob := nodeOf(slots)
	// deploy first, write the storage afterwards (the order inside the block does
	// not decide which of the two reaches the node cache first: Commit ranges a map)
	n := 3 + g.rng.Intn(6)
	for i := 0; i < n; i++ {
		b := g.randAddr()
		if b != a {
			g.setCode(b, blob)
		}
	}
	if acc, ok := g.ref.Accts[a]; ok && acc.Suicided {
		acc.Suicided = false // not reachable: block() ended the previous block
	}
	g.makeStorageEqual(a, slots)
	g.ref.endBlock()
	return g.ops, g.ref
}

// ---------------------------------------------------------------------------
// mid-block roots and write patterns that return to earlier values

// iroot emits a mid-block IntermediateRoot / Finalise (what the node does
// between transactions): pending storage writes go into the storage tries,
// self-destructed accounts disappear now, the journal (snapshots) is dropped.
func (g *gen) iroot() {
	n := uint64(g.rng.Intn(4)) // 0: IntermediateRoot(true) 1: IntermediateRoot(false) 2: Finalise(false) 3: Finalise(true)
	if g.keepEmpty && (n == 0 || n == 3) {
		n = 1
	}
	g.emit(Op{K: "iroot", N: n})
	for a, v := range g.ref.Accts {
		if v.Suicided {
			delete(g.ref.Accts, a)
			g.dead[a] = true
		}
	}
	g.snaps = nil
}

func (g *gen) maybeIroot(force bool) bool {
	if force || g.rng.Intn(3) > 0 {
		g.iroot()
		return true
	}
	return false
}

// writeSlot writes v (nil: remove) to slot k of a through one of the storage
// entry points.
func (g *gen) writeSlot(a common.Address, k, v []byte, via int) {
	acc := g.ensure(a)
	g.noteKey(a, k)
	switch {
	case v == nil && via == 2:
		g.emit(Op{K: "del0", Addr: a, Key: k})
	case v == nil:
		g.emit(Op{K: "del", Addr: a, Key: k})
	case via == 1 && len(k) == 32 && len(v) == 32:
		g.emit(Op{K: "setstate", Addr: a, Key: k, Val: v})
	default:
		g.emit(Op{K: "set", Addr: a, Key: k, Val: v})
	}
	if v == nil {
		delete(acc.Storage, string(k))
	} else {
		acc.Storage[string(k)] = v
	}
}

// restorePattern: over 1-3 slots of one account (loaded from the committed
// parent, or created in this block) write A->B->A, A->nil->A, nil->A->nil or
// A->B->C->A with 1-3 intermediate roots between the steps.
func (g *gen) restorePattern() {
	kind := []string{"A-B-A", "A-nil-A", "nil-A-nil", "A-B-C-A"}[g.rng.Intn(4)]
	var a common.Address
	if e, ok := g.existing(); ok && g.rng.Intn(10) < 7 {
		a = e
	} else {
		a = g.randAddr()
	}
	if g.dead[a] || g.protected[a] {
		return
	}
	acc := g.ensure(a)
	via := g.rng.Intn(3)
	val := func() []byte {
		if via == 1 {
			return g.randVal(32, 32)
		}
		return g.randVal(1, 120)
	}
	nk := 1 + g.rng.Intn(3)
	type slot struct {
		k     []byte
		steps [][]byte
	}
	var slots []slot
	used := map[string]bool{}
	for i := 0; i < nk; i++ {
		var k, start []byte
		if kind != "nil-A-nil" {
			if ek, ok := g.someKey(acc); ok && !used[string(ek)] && g.rng.Intn(4) > 0 {
				k, start = ek, acc.Storage[string(ek)] // value the block started with (or wrote earlier)
			}
		}
		if k == nil {
			k = g.randKey()
			if via == 1 {
				k = g.randVal(32, 32)
			}
			if _, exists := acc.Storage[string(k)]; exists || used[string(k)] {
				continue
			}
			if kind != "nil-A-nil" {
				start = val()
				g.writeSlot(a, k, start, via) // A is created in this block
			}
		}
		used[string(k)] = true
		var steps [][]byte
		switch kind {
		case "A-B-A":
			steps = [][]byte{val(), start}
		case "A-nil-A":
			steps = [][]byte{nil, start}
		case "nil-A-nil":
			steps = [][]byte{val(), nil}
		case "A-B-C-A":
			steps = [][]byte{val(), val(), start}
		}
		slots = append(slots, slot{k, steps})
	}
	if len(slots) == 0 {
		return
	}
	g.emit(Op{K: "mark", Val: []byte(kind)})
	if g.rng.Intn(2) == 0 {
		g.iroot() // A itself goes through a root first (matters when A was created in this block)
	}
	nsteps := len(slots[0].steps)
	forced := g.rng.Intn(nsteps - 1) // the gap that certainly gets a root
	for st := 0; st < nsteps; st++ {
		for _, sl := range slots {
			if g.dead[a] {
				return
			}
			g.writeSlot(a, sl.k, sl.steps[st], via)
		}
		if st < nsteps-1 {
			g.maybeIroot(st == forced)
		}
	}
	if g.rng.Intn(3) == 0 {
		g.iroot()
	}
}

// scalarRestorePattern: the same shape for balance, nonce and code.
func (g *gen) scalarRestorePattern() {
	a := g.randAddr()
	if e, ok := g.existing(); ok && g.rng.Intn(2) == 0 {
		a = e
	}
	if g.dead[a] || g.protected[a] {
		return
	}
	g.everAddr[a] = struct{}{}
	switch g.rng.Intn(3) {
	case 0: // balance X -> Y -> X (X may be zero: the slot is removed again)
		cur := new(big.Int).Set(g.ref.bal(a))
		delta := g.randAmt()
		g.emit(Op{K: "mark", Val: []byte("balance")})
		if g.rng.Intn(2) == 0 {
			g.emit(Op{K: "addbal", Addr: a, Amt: delta})
			g.ref.Bal[a] = new(big.Int).Add(cur, delta)
			g.iroot()
			g.emit(Op{K: "subbal", Addr: a, Amt: delta})
		} else {
			g.emit(Op{K: "bal", Addr: a, Amt: new(big.Int).Add(cur, delta)})
			g.ref.Bal[a] = new(big.Int).Add(cur, delta)
			g.iroot()
			g.emit(Op{K: "bal", Addr: a, Amt: cur})
		}
		g.ref.Bal[a] = cur
	case 1: // nonce n -> m -> n
		acc := g.ensure(a)
		n := acc.Nonce
		g.emit(Op{K: "mark", Val: []byte("nonce")})
		g.emit(Op{K: "create", Addr: a, N: n + 1 + uint64(g.rng.Intn(50))})
		g.iroot()
		if g.dead[a] {
			return
		}
		g.emit(Op{K: "create", Addr: a, N: n})
		acc.Nonce = n
	default: // code c1 -> c2 -> c1
		acc := g.ensure(a)
		if !acc.HasCode || len(acc.Code) == 0 {
			g.setCode(a, g.randCode(4000))
		}
		c1 := acc.Code
		g.emit(Op{K: "mark", Val: []byte("code")})
		g.setCode(a, g.randVal(1, 3000))
		g.iroot()
		g.setCode(a, c1)
	}
}
