// C03 — a committed state root is durable, complete and never invalidates
// older roots, including a process death at any prefix of the physical writes
// of a commit.
//
// The harness owns the disk: recDB (store.go) implements the public interface
// db.Database over a MemDatabase and records every physical write unit (direct
// Put/Delete, Batch.Write) in order. Seeded block sequences are executed through
// the real account.AccountDB / trie.NodeDatabase; a plain-map reference state
// (gen.go) says what every root must contain.
//
// Oracles:
//  1. durability — after AccountDB.Commit + TrieDB().Commit returned nil, a store
//     holding exactly the recorded units, opened cold, answers GetNonce / GetData /
//     GetCode / GetCodeHash / GetBalance as the reference says, and the account trie,
//     every storage trie and the whole-state node iterator run to the end without
//     missing-node errors and yield exactly the reference content. Repeated for
//     every root at the end of the sequence (older roots are never invalidated).
//  2. crash points (exhaustive) — for every prefix of the unit sequence of every
//     commit, every root (committed so far, or the one being committed) whose top
//     node is in the prefix store is fully walkable (account trie, storage tries,
//     code blobs), through the real trie.NodeIterator and through an independent
//     structural walker (ref/mptwalk); roots durable before the commit stay present
//     and walkable.
//
// Store write errors the process survives (a Batch.Write returning an error) are
// injected as well: the failed commit is retried or abandoned, and everything
// reported durable afterwards is judged the same way.
//
// Thorough tier: the same sequences against the real LevelDB in a child process
// that db.VerifWriteHook ends at physical write N; a fresh process reopens the
// directory and judges it with the same walkers.
package main

import (
	"bytes"
	"encoding/json"
	"fmt"
	"math/big"
	"math/rand"
	"os"
	"reflect"
	"runtime"
	"sort"
	"strings"
	"time"
	"unsafe"

	"com.tuntun.rangers/node/src/common"
	"com.tuntun.rangers/node/src/middleware/db"
	"com.tuntun.rangers/node/src/storage/account"
	"com.tuntun.rangers/node/src/storage/rlp"
	"com.tuntun.rangers/node/src/storage/trie"
	"github.com/VictoriaMetrics/fastcache"
	"golang.org/x/crypto/sha3"

	"verifharness/env"
	"verifharness/mon"
	"verifharness/ref/mptwalk"
)

var (
	emptyCodeNIST = sha3.Sum256(nil) // what account_object.go calls emptyCodeHash
	holderAddr    = common.HexToAddress("0x00000000000000000000000000000000c03b0001")
	holderCode    = []byte{0x60, 0x80, 0x60, 0x40, 0x52, 0xc0, 0x3b}
)

func keccak(b []byte) common.Hash {
	h := sha3.NewLegacyKeccak256()
	h.Write(b)
	var out common.Hash
	copy(out[:], h.Sum(nil))
	return out
}

// Witness identifies a case: the sequence is a pure function of (seed, variant, seq).
type Witness struct {
	Variant string `json:"variant"` // bound | unbound
	Seq     int    `json:"seq"`
	Commit  int    `json:"commit,omitempty"`
	Prefix  int    `json:"prefix,omitempty"`
	Kill    int    `json:"kill,omitempty"` // real-LevelDB variant: process death before physical write Kill
	Units   int    `json:"units,omitempty"`
	Root    string `json:"root,omitempty"`
	Detail  string `json:"detail,omitempty"`
}

type rootInfo struct {
	Root   common.Hash
	Ref    *refState
	Commit int
	Adb    *account.AccountDB // the state object that executed and committed the block ("readable before the commit")
}

type seqRun struct {
	r       *mon.Run
	variant string
	idx     int
	rng     *rand.Rand
	rec     *recDB
	sdb     account.AccountDatabase
	replica *db.MemDatabase // holds exactly the recorded units applied so far
	crash   db.Database     // the store the walks / cold reads look at (the replica; the reopened LevelDB in the restart judge)
	g       *gen
	onOK    func(ri rootInfo) // called when a commit reported success (before it is judged)

	committed   []rootInfo
	attempted   []common.Hash // every root a TrieDB commit was attempted for
	ranges      [][2]int      // per TrieDB commit: [first unit index, end)
	commitNo    int
	destructive int // write units that removed or changed an existing key

	// "verified complete in the replica" memos; valid while the replica only grows
	stateDone, storDone, codeDone          map[common.Hash]bool
	iStateDone, iAcctNode, iStorNode, iCod map[string]bool

	opaque map[common.Address]bool
	holder common.Address
	tag    string
	ns     string // signature namespace of the real-LevelDB restart judge
}

func (s *seqRun) wit(extra Witness) Witness {
	extra.Variant, extra.Seq = s.variant, s.idx
	return extra
}

// vio reports a violation; scenarios that deliberately build a hostile shape
// carry a tag so that their findings get their own signature class.
func (s *seqRun) vio(sig, what string, w Witness) {
	if s.tag != "" {
		// one signature for the whole scenario: its consequences (partial root,
		// unreadable slots, iterator errors ...) are one finding, not several
		what = "[" + strings.TrimPrefix(sig, "C03:") + "] " + what
		sig = "C03:" + s.tag
	}
	if s.ns != "" {
		sig = strings.Replace(sig, "C03:", "C03:"+s.ns+":", 1)
	}
	s.r.Violation(sig, what, w)
}

func (s *seqRun) resetMemos() {
	s.stateDone, s.storDone, s.codeDone = map[common.Hash]bool{}, map[common.Hash]bool{}, map[common.Hash]bool{}
	s.iStateDone, s.iAcctNode, s.iStorNode, s.iCod = map[string]bool{}, map[string]bool{}, map[string]bool{}, map[string]bool{}
}

// releaseCodeCache returns the off-heap chunks of a storageDB's fastcache (64 KB
// each, never freed otherwise) — memory hygiene of the harness only.
func releaseCodeCache(sdb account.AccountDatabase) {
	defer func() { recover() }()
	f := reflect.ValueOf(sdb).Elem().FieldByName("codeCache")
	if !f.IsValid() || f.Kind() != reflect.Ptr || f.IsNil() {
		return
	}
	(*fastcache.Cache)(unsafe.Pointer(f.Pointer())).Reset()
}

// ---------------------------------------------------------------------------
// applying operations to the real AccountDB

func applyOps(r *mon.Run, adb *account.AccountDB, ops []Op) {
	var snaps []int
	for _, o := range ops {
		switch o.K {
		case "bind":
			adb.AddERC20Binding(common.BLANCE_NAME, o.Addr, 3, 18)
		case "create":
			adb.SetNonce(o.Addr, o.N)
		case "inc":
			adb.IncreaseNonce(o.Addr)
		case "set":
			adb.SetData(o.Addr, o.Key, o.Val)
		case "del":
			adb.RemoveData(o.Addr, o.Key)
		case "del0":
			adb.SetData(o.Addr, o.Key, []byte{})
		case "code":
			adb.SetCode(o.Addr, o.Val)
		case "suicide":
			adb.Suicide(o.Addr)
		case "bal":
			adb.SetBalance(o.Addr, o.Amt)
		case "addbal":
			adb.AddBalance(o.Addr, o.Amt)
		case "subbal":
			adb.SubBalance(o.Addr, o.Amt)
		case "setstate":
			adb.SetState(o.Addr, common.BytesToHash(o.Key), common.BytesToHash(o.Val))
		case "iroot":
			switch o.N {
			case 0:
				adb.IntermediateRoot(true)
			case 1:
				adb.IntermediateRoot(false)
			case 2:
				adb.Finalise(false)
			default:
				adb.Finalise(true)
			}
			snaps = nil // the journal is gone
			r.Count("intermediate_roots_midblock", 1)
		case "mark":
			r.Count("restore_patterns", 1)
			r.Count("restore_pattern_"+string(o.Val), 1)
			continue
		case "snap":
			snaps = append(snaps, adb.Snapshot())
		case "revert":
			adb.RevertToSnapshot(snaps[len(snaps)-1])
			snaps = snaps[:len(snaps)-1]
		default:
			panic("unknown op " + o.K)
		}
		r.Count("op_"+o.K, 1)
	}
}

// ---------------------------------------------------------------------------
// walks over the replica store

func safely(f func() error) (err error) {
	defer func() {
		if e := recover(); e != nil {
			err = fmt.Errorf("panic while walking: %v", e)
		}
	}()
	return f()
}

// walkReal resolves every node of the state under root through the real trie
// code on a cold trie database over the replica.
func (s *seqRun) walkReal(root common.Hash) error {
	if s.stateDone[root] {
		return nil
	}
	err := safely(func() error {
		tdb := trie.NewDatabase(s.crash)
		t, err := trie.NewTrie(root, tdb)
		if err != nil {
			return err
		}
		it := t.NodeIterator(nil)
		for it.Next(true) {
			if !it.Leaf() {
				continue
			}
			var acc account.Account
			if err := rlp.DecodeBytes(it.LeafBlob(), &acc); err != nil {
				return fmt.Errorf("account leaf %x does not decode: %v", it.LeafKey(), err)
			}
			if !s.storDone[acc.Root] {
				st, err := trie.NewTrie(acc.Root, tdb)
				if err != nil {
					return fmt.Errorf("storage root of %x: %v", it.LeafKey(), err)
				}
				sit := st.NodeIterator(nil)
				for sit.Next(true) {
				}
				if sit.Error() != nil {
					return fmt.Errorf("storage trie of %x: %v", it.LeafKey(), sit.Error())
				}
				s.storDone[acc.Root] = true
				s.r.Count("storage_tries_walked", 1)
			}
			if !bytes.Equal(acc.NFTSetDefinitionHash, emptyCodeNIST[:]) {
				h := common.BytesToHash(acc.NFTSetDefinitionHash)
				if !s.codeDone[h] {
					blob, err := s.crash.Get(h[:])
					if err != nil {
						return fmt.Errorf("code blob %x of %x is not in the store", h[:], it.LeafKey())
					}
					if keccak(blob) != h {
						return fmt.Errorf("code blob %x of %x has different content", h[:], it.LeafKey())
					}
					s.codeDone[h] = true
					s.r.Count("code_blobs_checked", 1)
				}
			}
		}
		return it.Error()
	})
	if err == nil {
		s.stateDone[root] = true
		s.r.Count("roots_walked_real", 1)
	}
	return err
}

// walkIndep does the same with the independent structural walker.
func (s *seqRun) walkIndep(root common.Hash) error {
	if s.iStateDone[string(root[:])] {
		return nil
	}
	get := func(k []byte) ([]byte, bool) {
		v, err := s.crash.Get(k)
		return v, err == nil
	}
	stor := &mptwalk.Walker{Get: get,
		SkipSubtree: func(h []byte) bool { return s.iStorNode[string(h)] },
		MarkDone:    func(h []byte) { s.iStorNode[string(h)] = true }}
	acct := &mptwalk.Walker{Get: get,
		SkipSubtree: func(h []byte) bool { return s.iAcctNode[string(h)] },
		MarkDone:    func(h []byte) { s.iAcctNode[string(h)] = true }}
	err := acct.Walk(root[:], func(nib, val []byte) error {
		items, err := mptwalk.List(val)
		if err != nil || len(items) != 3 || len(items[1].Payload) != 32 {
			return fmt.Errorf("account leaf at %x is not [nonce, root, codehash]", nib)
		}
		if err := stor.Walk(items[1].Payload, nil); err != nil {
			return fmt.Errorf("storage trie of account %x: %v", nib, err)
		}
		ch := items[2].Payload
		if !bytes.Equal(ch, emptyCodeNIST[:]) && !s.iCod[string(ch)] {
			blob, ok := get(ch)
			if !ok {
				return fmt.Errorf("code blob %x of account %x is not in the store", ch, nib)
			}
			if h := keccak(blob); !bytes.Equal(h[:], ch) {
				return fmt.Errorf("code blob %x of account %x has different content", ch, nib)
			}
			s.iCod[string(ch)] = true
		}
		return nil
	})
	if err == nil {
		s.iStateDone[string(root[:])] = true
		s.r.Count("roots_walked_indep", 1)
		s.r.Count("indep_nodes_visited", int64(acct.Stats.HashedNodes+stor.Stats.HashedNodes))
	}
	return err
}

func isEmptyRoot(root common.Hash) bool {
	return root == (common.Hash{}) || bytes.Equal(root[:], mptwalk.EmptyRoot)
}

// judgePrefix: the replica now holds a prefix of the physical writes. Every
// candidate root whose top node is present must be fully walkable; every root
// that was durable before must be present and walkable.
func (s *seqRun) judgePrefix(cands []common.Hash, durable map[common.Hash]bool, w Witness) {
	where := fmt.Sprintf("process death after %d of %d physical writes of commit %d", w.Prefix, w.Units, w.Commit)
	if w.Kill > 0 {
		where = fmt.Sprintf("real LevelDB, process death immediately before physical write %d of the sequence, directory reopened by a fresh process", w.Kill)
	}
	for _, root := range cands {
		present := isEmptyRoot(root)
		if !present {
			present, _ = s.crash.Has(root[:])
		}
		w.Root = root.Hex()
		if !present {
			if durable[root] {
				w.Detail = "top node gone"
				s.vio("C03:crash:durable-root-lost", fmt.Sprintf("%s: root %s was reported durable before, its top node is not in the store", where, root.Hex()), s.wit(w))
			}
			continue
		}
		s.r.Count("root_judgements", 1)
		sig := "C03:crash:partial-root-visible"
		what := "%s: root %s has its top node on disk but is not fully resolvable: %v"
		if durable[root] {
			sig = "C03:crash:older-root-broken"
			what = "%s: the previously durable root %s is no longer fully resolvable: %v"
		}
		if err := s.walkReal(root); err != nil {
			w.Detail = err.Error()
			s.vio(sig, fmt.Sprintf(what, where, root.Hex(), err), s.wit(w))
			continue
		}
		if err := s.walkIndep(root); err != nil {
			w.Detail = err.Error()
			s.vio(sig+":indep", fmt.Sprintf(what, where, root.Hex(), err), s.wit(w))
		}
	}
}

// ---------------------------------------------------------------------------
// durability oracle (accessors on a cold AccountDB over the replica)

func norm(b []byte) []byte {
	if len(b) == 0 {
		return nil
	}
	return b
}

type durCtx struct {
	s    *seqRun
	ri   rootInfo
	cold *account.AccountDB
	warm *account.AccountDB
	w    Witness
	bad  int
}

// mismatch: cold differs from the reference. The property compares with what was
// readable before the commit, i.e. with the state object that executed the block:
// if that object (still alive, read again now) agrees with the cold read, the
// executing process itself never saw the reference value — the reference model is
// off, which is not a durability matter (reported as inconclusive so that it is
// seen, never as a C03 violation).
func (d *durCtx) mismatch(kind, what string, coldV, refV []byte, warmV func() []byte) {
	d.bad++
	if d.bad > 5 {
		return
	}
	w := d.w
	w.Detail = what
	var wv []byte
	warmOK := d.warm != nil
	if warmOK {
		d.s.r.Guard("C03:warm-read", d.s.wit(w), func() { wv = norm(warmV()) })
	}
	if warmOK && bytes.Equal(wv, norm(coldV)) {
		d.s.r.Count("model_divergence", 1)
		if d.s.r.Get("model_divergence") > 8 {
			return
		}
		d.s.r.Inconclusive("reference model and root %s disagree on %s (%s): root has %x, reference %x; the committing state object reads the same as the cold store, so this is not a durability failure [variant=%s seq=%d commit=%d]",
			d.ri.Root.Hex(), kind, what, trunc(coldV), trunc(refV), d.s.variant, d.s.idx, d.w.Commit)
		return
	}
	d.s.vio("C03:durability:"+kind, fmt.Sprintf("root %s reported committed; cold reopen from the written units: %s reads %x, written value %x (the committing state object reads %x)",
		d.ri.Root.Hex(), what, trunc(coldV), trunc(refV), trunc(wv)), d.s.wit(w))
}

func trunc(b []byte) []byte {
	if len(b) > 40 {
		return b[:40]
	}
	return b
}

func u64b(v uint64) []byte { return new(big.Int).SetUint64(v).Bytes() }

func (s *seqRun) universe(ref *refState) []common.Address {
	set := map[common.Address]struct{}{}
	for a := range s.g.everAddr {
		set[a] = struct{}{}
	}
	for a := range ref.Accts {
		set[a] = struct{}{}
	}
	for a := range ref.Bal {
		set[a] = struct{}{}
	}
	out := make([]common.Address, 0, len(set))
	for a := range set {
		out = append(out, a)
	}
	sort.Slice(out, func(i, j int) bool { return string(out[i][:]) < string(out[j][:]) })
	return out
}

func (s *seqRun) checkDurable(ri rootInfo, phase string) {
	r := s.r
	w := Witness{Commit: ri.Commit, Root: ri.Root.Hex(), Detail: phase}
	r.Count("durability_checks", 1)
	if ok, _ := s.crash.Has(ri.Root[:]); !ok && !isEmptyRoot(ri.Root) {
		s.vio("C03:durability:root-missing", fmt.Sprintf("commit %d reported success for root %s but the written units do not contain its top node (%s)", ri.Commit, ri.Root.Hex(), phase), s.wit(w))
		return
	}
	sdbCold := account.NewDatabase(s.crash)
	defer releaseCodeCache(sdbCold)
	cold, err := account.NewAccountDB(ri.Root, sdbCold)
	if err != nil {
		w.Detail = err.Error()
		s.vio("C03:durability:root-not-openable", fmt.Sprintf("commit %d reported success for root %s; cold open fails: %v (%s)", ri.Commit, ri.Root.Hex(), err, phase), s.wit(w))
		return
	}
	warm := ri.Adb
	if warm == nil && s.sdb != nil {
		warm, _ = account.NewAccountDB(ri.Root, s.sdb)
	}
	d := &durCtx{s: s, ri: ri, cold: cold, warm: warm, w: w}
	ref := ri.Ref
	reads := int64(0)

	for _, a := range s.universe(ref) {
		a := a
		exp := ref.Accts[a]
		if s.opaque[a] {
			continue
		}
		var wantNonce uint64
		var wantCode []byte
		if exp != nil {
			wantNonce, wantCode = exp.Nonce, exp.Code
		}
		if got := cold.GetNonce(a); got != wantNonce {
			d.mismatch("nonce", fmt.Sprintf("GetNonce(%s)", a.GetHexString()), u64b(got), u64b(wantNonce), func() []byte { return u64b(warm.GetNonce(a)) })
		}
		if got := cold.GetCode(a); !bytes.Equal(norm(got), norm(wantCode)) {
			d.mismatch("code", fmt.Sprintf("GetCode(%s)", a.GetHexString()), got, wantCode, func() []byte { return warm.GetCode(a) })
		}
		if len(wantCode) > 0 {
			if got, want := cold.GetCodeHash(a), keccak(wantCode); got != want {
				d.mismatch("codehash", fmt.Sprintf("GetCodeHash(%s)", a.GetHexString()), got[:], want[:], func() []byte { h := warm.GetCodeHash(a); return h[:] })
			}
			if got := cold.GetCodeSize(a); got != len(wantCode) {
				d.mismatch("codesize", fmt.Sprintf("GetCodeSize(%s)", a.GetHexString()), u64b(uint64(got)), u64b(uint64(len(wantCode))), func() []byte { return u64b(uint64(warm.GetCodeSize(a))) })
			}
		}
		reads += 3
		keys := make([]string, 0, len(s.g.everKeys[a]))
		for k := range s.g.everKeys[a] {
			keys = append(keys, k)
		}
		sort.Strings(keys)
		for _, k := range keys {
			k := k
			var want []byte
			if exp != nil {
				want = exp.Storage[k]
			}
			got := cold.GetData(a, []byte(k))
			reads++
			if !bytes.Equal(norm(got), norm(want)) {
				d.mismatch("slot", fmt.Sprintf("GetData(%s, %x)", a.GetHexString(), k), got, want, func() []byte { return warm.GetData(a, []byte(k)) })
			}
		}
		wantBal := ref.bal(a)
		if got := cold.GetBalance(a); got == nil || got.Cmp(wantBal) != 0 {
			var gb []byte
			if got != nil {
				gb = got.Bytes()
			}
			d.mismatch("balance", fmt.Sprintf("GetBalance(%s)", a.GetHexString()), gb, wantBal.Bytes(), func() []byte { return warm.GetBalance(a).Bytes() })
		}
		reads++
	}
	r.Count("accessor_reads", reads)
	if err := cold.Error(); err != nil {
		w.Detail = err.Error()
		s.vio("C03:durability:read-error", fmt.Sprintf("cold reads of committed root %s memoized a database error: %v", ri.Root.Hex(), err), s.wit(w))
	}

	// completeness: iterate the account trie and every storage trie to the end
	_, holder, position, _ := cold.GetERC20Binding(common.BLANCE_NAME)
	balSlots := map[string][]byte{}
	for a, b := range ref.Bal {
		if b.Sign() > 0 {
			balSlots[string(cold.GetERC20Key(a, position))] = b.Bytes()
		}
	}
	tr, err := sdbCold.OpenTrie(ri.Root)
	if err != nil {
		s.vio("C03:durability:root-not-openable", fmt.Sprintf("OpenTrie(%s) on the cold store: %v", ri.Root.Hex(), err), s.wit(w))
		return
	}
	seen := map[common.Address]bool{}
	it := trie.NewIterator(tr.NodeIterator(nil))
	leaves := int64(0)
	for it.Next() {
		if len(it.Key) != common.AddressLength {
			d.mismatch("account-key", fmt.Sprintf("account trie key %x", it.Key), it.Key, nil, func() []byte { return nil })
			continue
		}
		a := common.BytesToAddress(it.Key)
		seen[a] = true
		di := cold.DataIterator(a, nil)
		if di == nil {
			d.mismatch("account-unreadable", fmt.Sprintf("account %s is in the trie but has no readable object", a.GetHexString()), nil, []byte{1}, func() []byte { return nil })
			continue
		}
		got := map[string][]byte{}
		for di.Next() {
			got[string(di.Key)] = cp(di.Value)
			leaves++
		}
		if di.Err != nil {
			w2 := w
			w2.Detail = di.Err.Error()
			s.vio("C03:durability:storage-iteration", fmt.Sprintf("committed root %s: iterating the storage of %s on the cold store stops with: %v", ri.Root.Hex(), a.GetHexString(), di.Err), s.wit(w2))
			continue
		}
		if s.opaque[a] {
			continue
		}
		want := map[string][]byte{}
		if exp := ref.Accts[a]; exp != nil {
			for k, v := range exp.Storage {
				want[k] = v
			}
		}
		if a == holder {
			for k, v := range balSlots {
				want[k] = v
			}
		}
		for k, v := range want {
			if !bytes.Equal(got[k], v) {
				k := k
				d.mismatch("iter-slot", fmt.Sprintf("storage iteration of %s at key %x", a.GetHexString(), k), got[k], v, func() []byte { return warm.GetData(a, []byte(k)) })
			}
		}
		for k, v := range got {
			if _, ok := want[k]; !ok {
				k := k
				d.mismatch("iter-extra-slot", fmt.Sprintf("storage iteration of %s yields unexpected key %x", a.GetHexString(), k), v, nil, func() []byte { return warm.GetData(a, []byte(k)) })
			}
		}
	}
	if it.Err != nil {
		w2 := w
		w2.Detail = it.Err.Error()
		s.vio("C03:durability:account-iteration", fmt.Sprintf("committed root %s: iterating the account trie on the cold store stops with: %v", ri.Root.Hex(), it.Err), s.wit(w2))
	}
	r.Count("leaves_iterated", leaves+int64(len(seen)))
	for a := range ref.Accts {
		if !seen[a] {
			a := a
			d.mismatch("account-missing", fmt.Sprintf("account %s is not in the account trie", a.GetHexString()), nil, []byte{1}, func() []byte {
				if warm.Exist(a) {
					return []byte{1}
				}
				return nil
			})
		}
	}
	for a := range seen {
		if ref.Accts[a] == nil && !s.opaque[a] && a != holder {
			a := a
			d.mismatch("account-extra", fmt.Sprintf("account %s is in the account trie but was deleted or never written", a.GetHexString()), []byte{1}, nil, func() []byte {
				if warm.Exist(a) {
					return []byte{1}
				}
				return nil
			})
		}
	}

	// the node's own whole-state iterator (account trie nodes, storage nodes, code)
	nit := account.NewNodeIterator(cold)
	n := int64(0)
	for nit.Next() {
		n++
	}
	r.Count("state_iterator_entries", n)
	if nit.Error != nil {
		w2 := w
		w2.Detail = nit.Error.Error()
		s.vio("C03:durability:state-iteration", fmt.Sprintf("committed root %s: account.NodeIterator on the cold store stops with: %v", ri.Root.Hex(), nit.Error), s.wit(w2))
	}
}

// ---------------------------------------------------------------------------
// one sequence

type blockSpec struct {
	Kind   string
	Mode   string // normal | fail-retry | fail-abandon | orphan-replay | orphan-abandon
	FailAt int
	Parent int // -2: latest; otherwise index into committed (clamped)
}

func planSequence(rng *rand.Rand) []blockSpec {
	n := 3 + rng.Intn(10)
	specs := make([]blockSpec, n)
	for i := range specs {
		k := rng.Intn(100)
		switch {
		case k < 48:
			specs[i].Kind = "small"
		case k < 80:
			specs[i].Kind = "medium"
		case k < 93:
			specs[i].Kind = "big"
		default:
			specs[i].Kind = "empty"
		}
		specs[i].Parent = -2
		if rng.Intn(100) < 15 {
			specs[i].Parent = rng.Intn(12)
		}
		m := rng.Intn(100)
		switch {
		case m < 74:
			specs[i].Mode = "normal"
		case m < 80:
			specs[i].Mode = "fail-retry"
		case m < 88:
			specs[i].Mode = "fail-retry-same"
		case m < 92:
			specs[i].Mode = "fail-abandon"
		case m < 97:
			specs[i].Mode = "orphan-replay"
		default:
			specs[i].Mode = "orphan-abandon"
		}
		specs[i].FailAt = []int{1, 1, 1, 2, 2, 3, 4, 5}[rng.Intn(8)]
	}
	// at least one commit that is split over several batches
	specs[rng.Intn(n)].Kind = "big"
	return specs
}

// runSequence executes sequence idx of a variant. inner is the physical store
// under the recorder (nil: a MemDatabase). The variants "bound" and "ldb" start
// with a block that binds the balance token contract; "unbound" does not.
func runSequence(r *mon.Run, variant string, idx int, inner db.Database, onOK func(rootInfo)) *seqRun {
	s := &seqRun{r: r, variant: variant, idx: idx, rng: r.Rand("c03-seq", variant, idx), rec: newRecDB(inner), opaque: map[common.Address]bool{}, onOK: onOK}
	s.sdb = account.NewDatabase(s.rec)
	defer releaseCodeCache(s.sdb)
	s.replica, _ = db.NewMemDatabase()
	s.crash = s.replica
	s.resetMemos()
	s.g = newGen(s.rng, fmt.Sprintf("%d|%s|%d", r.Seed, variant, idx))
	s.g.keepEmpty = variant == "unbound"
	r.Count("sequences", 1)

	if variant != "unbound" {
		s.holder = holderAddr
		binding := common.GenerateERC20Binding(common.BLANCE_NAME)
		s.opaque[binding] = true
		ref := newRefState()
		ref.Accts[holderAddr] = &refAcct{Nonce: 1, Code: holderCode, HasCode: true, Storage: map[string][]byte{}}
		s.g.everAddr[holderAddr] = struct{}{}
		s.g.protected[holderAddr] = true
		ops := []Op{{K: "bind", Addr: holderAddr}, {K: "create", Addr: holderAddr, N: 1}, {K: "code", Addr: holderAddr, Val: holderCode}}
		s.commitBlock(common.Hash{}, ops, ref, "genesis", "normal", 0)
	}

	specs := planSequence(s.rng)
	if variant == "collide" {
		// hostile shape: contract code whose bytes are the RLP of a trie node that
		// the same block creates (code blobs and trie nodes share one key space)
		s.tag = "code-is-trie-node"
		specs = []blockSpec{{Kind: "small", Mode: "normal", Parent: -2}, {Kind: "collide", Mode: "normal", Parent: -2},
			{Kind: "small", Mode: "normal", Parent: -2}, {Kind: "medium", Mode: "normal", Parent: -2}}
	}
	for _, spec := range specs {
		parentRoot := common.Hash{}
		base := newRefState()
		var older []*refState
		if len(s.committed) > 0 {
			pi := len(s.committed) - 1
			if spec.Parent >= 0 {
				pi = spec.Parent % len(s.committed)
				if pi != len(s.committed)-1 {
					r.Count("fork_blocks", 1)
				}
			}
			parentRoot, base = s.committed[pi].Root, s.committed[pi].Ref.clone()
			for _, c := range s.committed {
				older = append(older, c.Ref)
			}
		}
		var ops []Op
		var post *refState
		if spec.Kind == "collide" {
			ops, post = s.g.collideBlock(base, storageRootNode)
			r.Count("code_is_trie_node_blocks", 1)
		} else {
			ops, post = s.g.block(spec.Kind, base, older)
		}
		s.commitBlock(parentRoot, ops, post, spec.Kind, spec.Mode, spec.FailAt)
	}

	// older roots are never invalidated. Every committed root was kept under the
	// walk check at every later crash point; the full accessor check is repeated
	// at the end for all roots if any write unit removed or changed a key, else
	// (the store only grew, so no read of an old root can have changed) for the
	// oldest root and one seeded pick.
	if n := len(s.committed); n > 0 {
		if s.destructive > 0 {
			for _, ri := range s.committed {
				s.checkDurable(ri, "end of sequence")
			}
		} else {
			s.checkDurable(s.committed[0], "end of sequence")
			if n > 2 {
				s.checkDurable(s.committed[1+s.rng.Intn(n-2)], "end of sequence")
			}
		}
	}
	r.Count("direct_puts", int64(s.rec.directPuts))
	r.Count("direct_deletes", int64(s.rec.directDels))
	r.Count("empty_batch_writes", int64(s.rec.emptyBatches))
	return s
}

// commitBlock executes one block on parentRoot and judges its commit(s).
func (s *seqRun) commitBlock(parentRoot common.Hash, ops []Op, post *refState, kind, mode string, failAt int) {
	r := s.r
	// attempt executes the block (or, with reuse != nil, commits the same
	// AccountDB object again — what happens when a block whose state object is
	// still cached is re-added after a failed store write) and judges the commit.
	var lastAdb *account.AccountDB
	attempt := func(doTrieCommit bool, inject int, reuse *account.AccountDB) (root common.Hash, ok bool) {
		s.commitNo++
		cn := s.commitNo
		adb := reuse
		var err error
		if adb == nil {
			adb, err = account.NewAccountDB(parentRoot, s.sdb)
			if err != nil {
				s.vio("C03:live:parent-not-openable", fmt.Sprintf("committed root %s cannot be opened in the live process: %v", parentRoot.Hex(), err), s.wit(Witness{Commit: cn, Root: parentRoot.Hex()}))
				return common.Hash{}, false
			}
			applyOps(r, adb, ops)
		}
		lastAdb = adb
		u0 := s.rec.unitCount()
		root, err = adb.Commit(true)
		r.Count("account_commits", 1)
		if err != nil {
			r.Count("account_commit_errors", 1)
			r.Note("AccountDB.Commit error (block skipped): %v [variant=%s seq=%d commit=%d]", err, s.variant, s.idx, cn)
			return root, false
		}
		if !doTrieCommit {
			r.Count("orphan_account_commits", 1)
			if s.rec.unitCount() != u0 {
				r.Count("writes_during_account_commit", int64(s.rec.unitCount()-u0))
			}
			return root, false
		}
		failedBefore := s.rec.failed
		s.rec.failNext = inject
		err = s.sdb.TrieDB().Commit(root, false)
		s.rec.failNext = 0
		injected := s.rec.failed > failedBefore
		if injected {
			r.Count("injected_write_errors", 1)
		}
		r.Count("trie_commits", 1)
		units := s.rec.units[u0:]
		s.attempted = append(s.attempted, root)
		s.ranges = append(s.ranges, [2]int{u0, u0 + len(units)})
		r.Count("physical_units", int64(len(units)))
		if len(units) >= 2 {
			r.Count("commits_2plus_units", 1)
		}
		if len(units) >= 3 {
			r.Count("multi_batch_commits", 1)
		}
		r.Max("max_units_in_commit", int64(len(units)))
		for _, u := range units {
			r.Max("max_unit_bytes", int64(u.Bytes))
		}

		// crash points: every prefix of this commit's physical writes
		durable := map[common.Hash]bool{}
		cands := []common.Hash{}
		for _, c := range s.committed {
			if !durable[c.Root] {
				durable[c.Root] = true
				cands = append(cands, c.Root)
			}
		}
		if !durable[root] {
			cands = append(cands, root)
		}
		for p := 1; p <= len(units); p++ {
			if applyUnit(s.replica, units[p-1]) {
				r.Count("destructive_units", 1)
				s.destructive++
				s.resetMemos()
			}
			s.judgePrefix(cands, durable, Witness{Commit: cn, Prefix: p, Units: len(units)})
			r.Count("crash_points", 1)
			if len(units) >= 2 {
				r.Distinct("crashpoint", []byte(fmt.Sprintf("%s|%d|%d|%d", s.variant, s.idx, cn, p)))
			}
		}
		if err != nil {
			r.Count("trie_commit_errors", 1)
			if !injected {
				r.Note("TrieDB.Commit error without injection: %v [variant=%s seq=%d commit=%d]", err, s.variant, s.idx, cn)
			}
			return root, false
		}
		if injected {
			r.Count("commit_ok_despite_write_error", 1)
		}
		r.Count("commits_reported_ok", 1)
		r.Count("commit_kind_"+kind, 1)
		ri := rootInfo{Root: root, Ref: post, Commit: cn, Adb: adb}
		s.committed = append(s.committed, ri)
		if s.onOK != nil {
			s.onOK(ri)
		}
		s.checkDurable(ri, "right after the commit")
		return root, true
	}

	switch mode {
	case "normal":
		attempt(true, 0, nil)
	case "fail-retry", "fail-retry-same", "fail-abandon":
		_, ok := attempt(true, failAt, nil)
		if !ok && mode == "fail-retry" {
			r.Count("retried_commits", 1)
			attempt(true, 0, nil)
		}
		if !ok && mode == "fail-retry-same" && lastAdb != nil {
			r.Count("retried_commits_same_state_object", 1)
			attempt(true, 0, lastAdb)
		}
	case "orphan-replay":
		attempt(false, 0, nil)
		attempt(true, 0, nil)
	case "orphan-abandon":
		attempt(false, 0, nil)
	}
}

// ---------------------------------------------------------------------------

// storageRootNode returns the encoded root node of the storage trie holding
// exactly slots, as the real code writes it (scratch state on its own store).
func storageRootNode(slots map[string][]byte) []byte {
	mem, _ := db.NewMemDatabase()
	sdb := account.NewDatabase(mem)
	defer releaseCodeCache(sdb)
	adb, err := account.NewAccountDB(common.Hash{}, sdb)
	if err != nil {
		panic(err)
	}
	a := common.HexToAddress("0x00000000000000000000000000000000000000aa")
	adb.SetNonce(a, 1)
	for k, v := range slots {
		adb.SetData(a, []byte(k), v)
	}
	root, err := adb.Commit(true)
	if err != nil {
		panic(err)
	}
	if err := sdb.TrieDB().Commit(root, false); err != nil {
		panic(err)
	}
	cold, err := account.NewAccountDB(root, account.NewDatabase(mem))
	if err != nil {
		panic(err)
	}
	sr := cold.StorageTrie(a).Hash()
	blob, err := mem.Get(sr[:])
	if err != nil {
		panic("scratch storage root not on the scratch store")
	}
	return blob
}

// warmBinding loads the process-global balance-contract cache once, before any
// goroutine uses it (bound variant).
func warmBinding() {
	mem, _ := db.NewMemDatabase()
	adb, err := account.NewAccountDB(common.Hash{}, account.NewDatabase(mem))
	if err != nil {
		panic(err)
	}
	adb.AddERC20Binding(common.BLANCE_NAME, holderAddr, 3, 18)
	adb.GetBalance(common.HexToAddress("0x01"))
	_, c, _, _ := adb.GetERC20Binding(common.BLANCE_NAME)
	if c != holderAddr {
		panic(fmt.Sprintf("balance binding resolves to %s", c.GetHexString()))
	}
}

func boot() string {
	d := env.ScratchDir("verif-c03-")
	env.BootServices(env.Forks{})
	account.Init()
	common.SetBlockHeight(10)
	return d
}

func cleanup(d string) {
	if strings.Contains(d, "verif-c03-") {
		os.Chdir("/")
		os.RemoveAll(d)
	}
}

const rule = "seeded sequences of 3-12 blocks (1-200 account mutations each: creates, nonce bumps, storage writes/overwrites/deletes with 1-40 byte keys incl. prefix-related keys and 1-200 byte values, " +
	"code deploys 1 B-24 KB shared between accounts, self-destructs, balance set/add/sub through the bound token contract, storage made equal to another account's / to an older root's, snapshot+revert, IntermediateRoot/Finalise at random points inside a block with write patterns that return to earlier values (A-B-A, A-nil-A, nil-A-nil, A-B-C-A over 1-3 slots via SetData/RemoveData/SetState; balance, nonce, code) across 1-3 intermediate roots, forks from older roots, " +
	"orphan AccountDB commits, injected Batch.Write errors with retry (fresh state / same state object) or abandon, contract code equal to the encoded root node of a storage trie of the same block; >= 1 block per sequence writes 300-700 KB so its commit spans several 100 KB batches) executed through the real AccountDB/NodeDatabase over a recording db.Database; " +
	"every prefix of every commit's physical write units is a crash point (exhaustive over the recorded sequence). Non-trivial: crash points of commits with >= 2 physical units, distinct by (variant, sequence, commit, prefix length)"

func finish(r *mon.Run) {
	evals := r.Get("crash_points") + r.Get("durability_checks") + r.Get("ldb_kill_runs")
	r.Finish(mon.Coverage{
		Evaluations:        evals,
		DistinctNontrivial: int64(r.DistinctCount("crashpoint") + r.DistinctCount("ldbkill")),
		Rule:               rule,
		Exhaustive:         true,
		Assumptions: []string{
			"a Batch.Write is atomic (LevelDB batch) and direct Put/Delete are atomic: the unit of a crash is one physical write",
			"process death, not power loss: what LevelDB acknowledged is on disk",
			"exhaustive means: every prefix of the recorded write sequence of every executed commit; the sequences themselves are sampled",
			"the reference state is plain maps advanced by the generator; a root on which warm and cold reads agree but differ from the reference is reported inconclusive, not as a durability violation",
		},
		MustObserve: []string{"sequences", "commits_reported_ok", "physical_units", "crash_points", "multi_batch_commits", "roots_walked_real", "roots_walked_indep",
			"storage_tries_walked", "code_blobs_checked", "durability_checks", "accessor_reads", "leaves_iterated", "state_iterator_entries",
			"injected_write_errors", "retried_commits_same_state_object", "intermediate_roots_midblock", "restore_patterns", "fork_blocks", "orphan_account_commits", "ldb_kill_runs", "ldb_roots_present_after_restart"},
	})
}

func main() {
	r := mon.Start("C03")
	r.Level = "fault_enumeration"

	if args, ok := mon.IsChildInvocation(); ok {
		childMain(r, args)
		return
	}

	if p := mon.ReplayArg(); p != "" {
		v, err := mon.LoadReplay(p)
		if err != nil {
			fmt.Println("MACHINERY:", err)
			os.Exit(2)
		}
		var w struct {
			Witness
			Case *Witness `json:"case"`
			Args []string `json:"args"`
		}
		json.Unmarshal(v.Witness, &w)
		wit := w.Witness
		if w.Case != nil {
			wit = *w.Case
		}
		r.Seed, r.Tier = v.Seed, v.Tier
		if wit.Variant == "" {
			fmt.Println("MACHINERY: replay file has no sequence witness")
			os.Exit(2)
		}
		if wit.Variant == "ldb" && wit.Kill > 0 {
			ldbKillAndVerify(r, wit.Seq, wit.Kill)
			mon.CleanWork()
		} else if wit.Variant == "unbound" || wit.Variant == "ldb" {
			res := r.RunChild(mon.ChildSpec{Label: "replay", Args: []string{"replay", wit.Variant, fmt.Sprint(wit.Seq)}})
			r.Absorb(res, "C03:replay")
			mon.CleanWork()
		} else {
			d := boot()
			warmBinding()
			r.Guard("C03:sequence", wit, func() { runSequence(r, wit.Variant, wit.Seq, nil, nil) })
			cleanup(d)
		}
		r.Distinct("crashpoint", []byte("replay-a"))
		r.Distinct("crashpoint", []byte("replay-b"))
		r.Finish(mon.Coverage{Evaluations: r.Get("crash_points") + r.Get("durability_checks") + 1, DistinctNontrivial: int64(r.DistinctCount("crashpoint")), Rule: "replay of one recorded sequence"})
	}

	d := boot()
	warmBinding()
	nBound := r.Pick(96, 1600)
	nUnbound := r.Pick(24, 320)
	workers := runtime.NumCPU()
	if workers > 16 {
		workers = 16
	}

	// unbound variant: the balance binding is a process-global cache, so the
	// sequences without a binding run in their own process
	done := make(chan mon.ChildResult, 1)
	go func() {
		done <- r.RunChild(mon.ChildSpec{Label: "unbound", Args: []string{"unbound", "0", fmt.Sprint(nUnbound)}, Timeout: time.Duration(r.Pick(600, 3600)) * time.Second})
	}()

	t0 := time.Now()
	mon.Parallel(nBound, workers, func(i int) {
		w := Witness{Variant: "bound", Seq: i}
		r.Guard("C03:sequence", w, func() { runSequence(r, "bound", i, nil, nil) })
	})
	// hostile shape: code bytes equal to a trie node of the same block
	nCollide := r.Pick(3, 12)
	mon.Parallel(nCollide, workers, func(i int) {
		w := Witness{Variant: "collide", Seq: i}
		r.Guard("C03:sequence", w, func() { runSequence(r, "collide", i, nil, nil) })
	})
	r.Note("phase bound sequences: %.1fs", time.Since(t0).Seconds())
	res := <-done
	r.Absorb(res, "C03:unbound")
	r.Note("phase unbound child done at %.1fs (child wall %.1fs)", time.Since(t0).Seconds(), res.Wall.Seconds())

	t1 := time.Now()
	ldbCampaign(r)
	r.Note("phase real-LevelDB campaign: %.1fs", time.Since(t1).Seconds())

	r.Sample(Witness{Variant: "bound", Seq: 0})
	r.Sample(Witness{Variant: "bound", Seq: nBound - 1})
	r.Sample(Witness{Variant: "unbound", Seq: 0})
	r.Sample(Witness{Variant: "collide", Seq: 0, Detail: "contract code = encoded root node of a storage trie written in the same block"})
	r.Sample(map[string]interface{}{"what": "largest commit", "physical_units": r.Get("max_units_in_commit"), "largest_unit_bytes": r.Get("max_unit_bytes"), "ideal_batch_size": db.IdealBatchSize})
	cleanup(d)
	mon.CleanWork()
	finish(r)
}
