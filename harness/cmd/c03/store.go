package main

import (
	"bytes"
	"errors"
	"sync"

	"com.tuntun.rangers/node/src/middleware/db"
	"github.com/syndtr/goleveldb/leveldb/iterator"
)

// kvOp is one key write inside a physical write unit.
type kvOp struct {
	Key, Val []byte
	Del      bool
}

// unit is one atomic physical write: a direct Put/Delete, or one Batch.Write().
type unit struct {
	Kind  string // "put" | "delete" | "batch"
	Ops   []kvOp
	Bytes int
}

var errInjected = errors.New("verif: injected write failure")

// recDB is the harness-owned disk: a db.Database (public interface) over a
// MemDatabase that records every physical write unit in order. failNext > 0
// makes the failNext-th following batch write fail (nothing applied, error
// returned) once — a store error the process survives.
type recDB struct {
	mu           sync.Mutex
	mem          db.Database // the physical store underneath (MemDatabase, or the real LevelDB)
	units        []unit
	emptyBatches int
	directPuts   int
	directDels   int
	failNext     int
	failed       int
}

func newRecDB(inner db.Database) *recDB {
	if inner == nil {
		m, _ := db.NewMemDatabase()
		inner = m
	}
	return &recDB{mem: inner}
}

func cp(b []byte) []byte { return append([]byte{}, b...) }

func (d *recDB) Put(key, value []byte) error {
	if err := d.mem.Put(key, value); err != nil {
		return err
	}
	d.mu.Lock()
	d.units = append(d.units, unit{Kind: "put", Ops: []kvOp{{Key: cp(key), Val: cp(value)}}, Bytes: len(value)})
	d.directPuts++
	d.mu.Unlock()
	return nil
}

func (d *recDB) Delete(key []byte) error {
	if err := d.mem.Delete(key); err != nil {
		return err
	}
	d.mu.Lock()
	d.units = append(d.units, unit{Kind: "delete", Ops: []kvOp{{Key: cp(key), Del: true}}})
	d.directDels++
	d.mu.Unlock()
	return nil
}

func (d *recDB) Get(key []byte) ([]byte, error) { return d.mem.Get(key) }
func (d *recDB) Has(key []byte) (bool, error)   { return d.mem.Has(key) }
func (d *recDB) Close()                         {}
func (d *recDB) NewBatch() db.Batch             { return &recBatch{d: d} }
func (d *recDB) NewIterator() iterator.Iterator { panic("recDB: iterator not supported") }
func (d *recDB) NewIteratorWithPrefix(prefix []byte) iterator.Iterator {
	panic("recDB: iterator not supported")
}

func (d *recDB) unitCount() int {
	d.mu.Lock()
	defer d.mu.Unlock()
	return len(d.units)
}

type recBatch struct {
	d    *recDB
	ops  []kvOp
	size int
}

func (b *recBatch) Put(key, value []byte) error {
	b.ops = append(b.ops, kvOp{Key: cp(key), Val: cp(value)})
	b.size += len(value)
	return nil
}

func (b *recBatch) ValueSize() int { return b.size }

func (b *recBatch) Reset() {
	b.ops = nil
	b.size = 0
}

func (b *recBatch) Write() error {
	d := b.d
	d.mu.Lock()
	if len(b.ops) == 0 {
		d.emptyBatches++
		d.mu.Unlock()
		return nil
	}
	if d.failNext > 0 {
		d.failNext--
		if d.failNext == 0 {
			d.failed++
			d.mu.Unlock()
			return errInjected
		}
	}
	d.mu.Unlock()
	// one physical, atomic write of the underlying store
	ib := d.mem.NewBatch()
	for _, o := range b.ops {
		ib.Put(o.Key, o.Val)
	}
	if err := ib.Write(); err != nil {
		return err
	}
	u := unit{Kind: "batch", Ops: append([]kvOp{}, b.ops...), Bytes: b.size}
	d.mu.Lock()
	d.units = append(d.units, u)
	d.mu.Unlock()
	return nil
}

// applyUnit applies a recorded unit to a replica store. It reports whether the
// unit removed or changed an existing key (which invalidates "verified
// complete" memos; pure additions cannot make a complete trie incomplete).
func applyUnit(m *db.MemDatabase, u unit) (destructive bool) {
	for _, o := range u.Ops {
		if o.Del {
			if ok, _ := m.Has(o.Key); ok {
				destructive = true
			}
			m.Delete(o.Key)
			continue
		}
		if old, err := m.Get(o.Key); err == nil && !bytes.Equal(old, o.Val) {
			destructive = true
		}
		m.Put(o.Key, o.Val)
	}
	return
}
