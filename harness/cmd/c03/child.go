package main

import (
	"bytes"
	"encoding/json"
	"fmt"
	"io/ioutil"
	"os"
	"path/filepath"
	"runtime"
	"sort"
	"strconv"
	"strings"
	"sync"
	"time"

	"com.tuntun.rangers/node/src/common"
	"com.tuntun.rangers/node/src/middleware/db"
	"com.tuntun.rangers/node/src/storage/account"

	"verifharness/env"
	"verifharness/mon"
)

const ldbPrefix = "c03"

func atoi(s string) int {
	v, err := strconv.Atoi(s)
	if err != nil {
		panic("bad child argument " + s)
	}
	return v
}

// bootInPlace boots in the current directory (the LevelDB children share one
// directory between the killed process and the one that reopens it).
func bootInPlace() {
	env.BootServices(env.Forks{})
	account.Init()
	common.SetBlockHeight(10)
}

func childFinish(r *mon.Run) {
	r.Finish(mon.Coverage{Evaluations: r.Get("crash_points") + r.Get("durability_checks")})
}

func childMain(r *mon.Run, args []string) {
	if len(args) == 0 {
		fmt.Println("MACHINERY: child without mode")
		os.Exit(2)
	}
	workers := runtime.NumCPU()
	if workers > 16 {
		workers = 16
	}
	switch args[0] {
	case "unbound": // <start> <count>
		d := boot()
		start, n := atoi(args[1]), atoi(args[2])
		mon.Parallel(n, workers, func(i int) {
			w := Witness{Variant: "unbound", Seq: start + i}
			b, _ := json.Marshal(w)
			r.CaseBegin(b)
			r.Guard("C03:sequence", w, func() { runSequence(r, "unbound", start+i, nil, nil) })
		})
		cleanup(d)
		childFinish(r)

	case "replay": // <variant> <seq>  (in-memory re-run of one sequence)
		d := boot()
		if args[1] != "unbound" {
			warmBinding()
		}
		w := Witness{Variant: args[1], Seq: atoi(args[2])}
		r.Guard("C03:sequence", w, func() { runSequence(r, w.Variant, w.Seq, nil, nil) })
		cleanup(d)
		childFinish(r)

	case "ldb-run": // <seq> <killAt>   (killAt 0: run to the end and write writes.json)
		seq, killAt := atoi(args[1]), atoi(args[2])
		bootInPlace()
		warmBinding()
		store, err := db.NewDatabase(ldbPrefix)
		if err != nil {
			fmt.Println("MACHINERY: cannot open LevelDB:", err)
			os.Exit(2)
		}
		prog, err := os.OpenFile("progress.txt", os.O_CREATE|os.O_WRONLY|os.O_APPEND, 0644)
		if err != nil {
			fmt.Println("MACHINERY:", err)
			os.Exit(2)
		}
		var mu sync.Mutex
		writes := 0
		db.VerifWriteHook = func(kind string, key []byte) {
			if !bytes.HasPrefix(key, []byte(ldbPrefix)) {
				return // some other store of the booted services
			}
			mu.Lock()
			writes++
			n := writes
			mu.Unlock()
			if killAt > 0 && n == killAt {
				os.Exit(77) // process death immediately before physical write N
			}
		}
		w := Witness{Variant: "ldb", Seq: seq, Kill: killAt}
		var s *seqRun
		r.Guard("C03:sequence", w, func() {
			s = runSequence(r, "ldb", seq, store, func(ri rootInfo) {
				prog.WriteString(ri.Root.Hex() + "\n")
				prog.Sync()
			})
		})
		db.VerifWriteHook = nil
		r.Count("ldb_physical_writes", int64(writes))
		if s != nil {
			if writes != len(s.rec.units) {
				r.Note("LevelDB write hook saw %d writes, recorder %d units", writes, len(s.rec.units))
				r.Count("ldb_hook_recorder_mismatch", 1)
			}
			b, _ := json.Marshal(map[string]interface{}{"total": writes, "commits": s.ranges})
			ioutil.WriteFile("writes.json", b, 0644)
		}
		childFinish(r)

	case "ldb-verify": // <seq> <killAt>   fresh process over the directory of a killed ldb-run
		seq, killAt := atoi(args[1]), atoi(args[2])
		bootInPlace()
		warmBinding()
		store, err := db.NewDatabase(ldbPrefix)
		if err != nil {
			fmt.Println("MACHINERY: cannot reopen LevelDB:", err)
			os.Exit(2)
		}
		var durableRoots []string
		if b, err := ioutil.ReadFile("progress.txt"); err == nil {
			for _, l := range strings.Split(string(b), "\n") {
				if l = strings.TrimSpace(l); l != "" {
					durableRoots = append(durableRoots, l)
				}
			}
		}
		// the same sequence on an in-memory store gives the roots and what they must contain
		quiet := mon.Start("C03")
		twin := runSequence(quiet, "ldb", seq, nil, nil)
		if len(durableRoots) > len(twin.committed) {
			r.Inconclusive("ldb seq %d kill %d: killed run reported %d commits, twin run %d", seq, killAt, len(durableRoots), len(twin.committed))
			childFinish(r)
		}
		for k, h := range durableRoots {
			if twin.committed[k].Root.Hex() != h {
				r.Inconclusive("ldb seq %d kill %d: commit %d root %s differs from the twin run's %s", seq, killAt, k, h, twin.committed[k].Root.Hex())
				childFinish(r)
			}
		}
		v := &seqRun{r: r, variant: "ldb", idx: seq, crash: store, g: twin.g, opaque: twin.opaque, holder: twin.holder, ns: "ldb-restart"}
		v.resetMemos()
		durable := map[common.Hash]bool{}
		for k := range durableRoots {
			durable[twin.committed[k].Root] = true
		}
		seen := map[common.Hash]bool{}
		var cands []common.Hash
		for _, h := range twin.attempted {
			if !seen[h] {
				seen[h] = true
				cands = append(cands, h)
			}
		}
		present := 0
		for _, h := range cands {
			if ok, _ := store.Has(h[:]); ok {
				present++
			}
		}
		r.Count("ldb_roots_present_after_restart", int64(present))
		r.Count("ldb_roots_durable_at_kill", int64(len(durableRoots)))
		v.judgePrefix(cands, durable, Witness{Kill: killAt, Prefix: killAt - 1, Detail: "real LevelDB, fresh process"})
		for k := range durableRoots {
			ri := twin.committed[k]
			v.checkDurable(ri, fmt.Sprintf("real LevelDB reopened by a fresh process after death before write %d", killAt))
		}
		r.Count("ldb_kill_runs", 1)
		r.Distinct("ldbkill", []byte(fmt.Sprintf("%d|%d", seq, killAt)))
		r.Finish(mon.Coverage{Evaluations: 1})

	default:
		fmt.Println("MACHINERY: unknown child mode", args[0])
		os.Exit(2)
	}
}

// ldbKillAndVerify runs sequence seq on the real LevelDB in a child that dies
// before physical write killAt, then judges the directory from a fresh process.
func ldbKillAndVerify(r *mon.Run, seq, killAt int) {
	dir := filepath.Join(mon.WorkDir(), fmt.Sprintf("ldb-%d-kill-%d", seq, killAt))
	defer os.RemoveAll(dir)
	to := time.Duration(r.Pick(300, 900)) * time.Second
	res := r.RunChild(mon.ChildSpec{Label: "ldb-run", Args: []string{"ldb-run", fmt.Sprint(seq), fmt.Sprint(killAt)}, Dir: dir, Timeout: to})
	if !r.Absorb(res, "C03:ldb-run", 77) {
		return
	}
	if res.Exit != 77 {
		r.Count("ldb_kill_not_reached", 1)
		return
	}
	res = r.RunChild(mon.ChildSpec{Label: "ldb-verify", Args: []string{"ldb-verify", fmt.Sprint(seq), fmt.Sprint(killAt)}, Dir: dir, Timeout: to})
	r.Absorb(res, "C03:ldb-verify")
}

// ldbCampaign: real-LevelDB variant. Per sequence: one complete run that counts
// the physical writes per commit, then kill runs at chosen write numbers (all
// writes of multi-write commits first, then others).
func ldbCampaign(r *mon.Run) {
	nSeq := r.Pick(1, 6)
	killsPer := r.Pick(6, 16)
	par := r.Pick(6, 8)
	var wg sync.WaitGroup
	sem := make(chan struct{}, par)
	// sequences whose plan has a multi-batch block that is committed normally
	var seqs []int
	for i := 0; len(seqs) < nSeq && i < 50*nSeq; i++ {
		rng := r.Rand("c03-seq", "ldb", i)
		newGen(rng, "")
		for _, sp := range planSequence(rng) {
			if sp.Kind == "big" && sp.Mode == "normal" && sp.Parent == -2 {
				seqs = append(seqs, i)
				break
			}
		}
	}
	for _, seq := range seqs {
		seq := seq
		dir := filepath.Join(mon.WorkDir(), fmt.Sprintf("ldb-%d-count", seq))
		res := r.RunChild(mon.ChildSpec{Label: "ldb-count", Args: []string{"ldb-run", fmt.Sprint(seq), "0"}, Dir: dir, Timeout: time.Duration(r.Pick(300, 900)) * time.Second})
		ok := r.Absorb(res, "C03:ldb-run")
		var info struct {
			Total   int      `json:"total"`
			Commits [][2]int `json:"commits"`
		}
		b, err := ioutil.ReadFile(filepath.Join(dir, "writes.json"))
		os.RemoveAll(dir)
		if !ok || err != nil || json.Unmarshal(b, &info) != nil || info.Total == 0 {
			r.Note("ldb count run of sequence %d gave no write profile (exit %d)", seq, res.Exit)
			continue
		}
		rng := r.Rand("c03-ldbkill", seq)
		var inMulti, others []int
		for _, c := range info.Commits { // c = [first unit index, end) of a commit, 0-based
			for w := c[0] + 1; w <= c[1]; w++ {
				if c[1]-c[0] >= 2 {
					inMulti = append(inMulti, w)
				} else {
					others = append(others, w)
				}
			}
		}
		rng.Shuffle(len(inMulti), func(i, j int) { inMulti[i], inMulti[j] = inMulti[j], inMulti[i] })
		rng.Shuffle(len(others), func(i, j int) { others[i], others[j] = others[j], others[i] })
		nm := killsPer - 2
		if nm > len(inMulti) {
			nm = len(inMulti)
		}
		kills := append([]int{}, inMulti[:nm]...)
		for _, w := range others {
			if len(kills) >= killsPer {
				break
			}
			kills = append(kills, w)
		}
		sort.Ints(kills)
		for _, k := range kills {
			k := k
			wg.Add(1)
			sem <- struct{}{}
			go func() {
				defer wg.Done()
				defer func() { <-sem }()
				ldbKillAndVerify(r, seq, k)
			}()
		}
	}
	wg.Wait()
}
