// C13, concurrent arrival at the node's share collector (model.GroupSignGenerator).
// In the node every consensus message is handled in its own goroutine, so the shares of a
// group arrive concurrently: late shares (AddWitnessSign -> SignRecovered) overlap with the
// goroutine that delivered the threshold-th share and with everybody reading the recovered
// signature. Per trial: a fresh generator, one goroutine per member leaving a barrier
// (AddWitnessSign, then SignRecovered / GetGroupSign / VerifySig reads) plus polling readers.
// Oracle: every signature obtained after SignRecovered()==true is byte-equal to the unique
// group signature (known from the harness: Sign(sum of dealer constant terms, msg)) and
// verifies under the group public key; the final value too; never recovered below k shares.
package main

import (
	"encoding/hex"
	"fmt"
	"runtime"
	"sync"
	"sync/atomic"

	"com.tuntun.rangers/node/src/consensus/groupsig"
	"com.tuntun.rangers/node/src/consensus/model"

	"verifharness/mon"
)

const concPath = "generator-concurrent"

func concurrentTrial(r *mon.Run, p *prepared, mi, trial, readers int) {
	gc := &p.gc
	n, k := gc.N, p.k
	msg := p.msgs[mi]
	want := p.expect[mi]
	w := SubsetWitness{Group: *gc, Msg: gc.Msgs[mi], Mask: (1 << uint(n)) - 1, Path: concPath, Want: hex.EncodeToString(want)}
	// private copies: nothing is shared between goroutines except the generator
	sigs := make([]groupsig.Signature, n)
	for i := range sigs {
		sigs[i].Deserialize(p.shares[mi][i])
	}
	gpks := make([]groupsig.Pubkey, n+readers+1)
	for i := range gpks {
		if err := gpks[i].Deserialize(p.gpk); err != nil {
			panic(err)
		}
	}
	gen := model.NewGroupSignGenerator(k)
	var started, finished int32
	var differs, vfail, below int32
	var firstBad atomic.Value
	start := make(chan struct{})
	var wg sync.WaitGroup

	// read: called by a goroutine that has just seen SignRecovered()==true (or generated==true)
	read := func(gpk groupsig.Pubkey) {
		if int(atomic.LoadInt32(&started)) < k {
			atomic.AddInt32(&below, 1)
		}
		overl := int(atomic.LoadInt32(&finished)) < n
		s := gen.GetGroupSign()
		b := s.Serialize()
		if string(b) != string(want) {
			if atomic.AddInt32(&differs, 1) == 1 {
				firstBad.Store(hex.EncodeToString(b))
			}
		}
		if !groupsig.VerifySig(gpk, msg, gen.GetGroupSign()) {
			atomic.AddInt32(&vfail, 1)
		}
		r.Count("concurrent_reads_after_recovered", 1)
		if overl {
			r.Count("concurrent_reads_overlapping_arrivals", 1)
		}
	}
	for i := 0; i < n; i++ {
		wg.Add(1)
		go func(i int) {
			defer wg.Done()
			defer atomic.AddInt32(&finished, 1)
			r.Guard("C13:generator:concurrent", w, func() {
				<-start
				atomic.AddInt32(&started, 1)
				_, generated := gen.AddWitnessSign(p.ids[i], sigs[i])
				if generated || gen.SignRecovered() {
					if int(atomic.LoadInt32(&finished)) < n-1 {
						r.Count("concurrent_late_or_threshold_arrivals_overlapping", 1)
					}
					read(gpks[i])
				}
			})
		}(i)
	}
	for j := 0; j < readers; j++ {
		wg.Add(1)
		go func(j int) {
			defer wg.Done()
			r.Guard("C13:generator:concurrent", w, func() {
				<-start
				for {
					if gen.SignRecovered() {
						read(gpks[n+j])
						return
					}
					if int(atomic.LoadInt32(&finished)) >= n {
						return
					}
					runtime.Gosched()
				}
			})
		}(j)
	}
	close(start)
	wg.Wait()
	r.Count("concurrent_trials", 1)

	if below > 0 {
		r.Violation("C13:generator:concurrent:recovered-below-threshold", fmt.Sprintf("n=%d k=%d: SignRecovered()==true observed before k shares had been handed to AddWitnessSign", n, k), w)
	}
	if !gen.SignRecovered() {
		r.Violation("C13:generator:concurrent:not-recovered", fmt.Sprintf("n=%d k=%d: all %d members' shares delivered concurrently, SignRecovered() is false afterwards", n, k, n), w)
		return
	}
	fs := gen.GetGroupSign()
	final := fs.Serialize()
	if differs > 0 || string(final) != string(want) {
		ww := w
		if string(final) != string(want) {
			ww.Got = hex.EncodeToString(final)
		} else if v, ok := firstBad.Load().(string); ok {
			ww.Got = v
		}
		r.Count("concurrent_trials_with_wrong_signature", 1)
		r.Violation("C13:generator:concurrent:recovered-signature-differs",
			fmt.Sprintf("n=%d k=%d kind=%s: shares delivered by %d concurrent goroutines (+%d readers): %d reads after SignRecovered()==true returned a signature different from the group signature; final GetGroupSign() %s", n, k, gc.Kind, n, readers, differs,
				map[bool]string{true: "equals it", false: "differs too"}[string(final) == string(want)]), ww)
	}
	if vfail > 0 || !gen.VerifyGroupSign(gpks[n+readers], msg) {
		r.Violation("C13:generator:concurrent:verify-fail",
			fmt.Sprintf("n=%d k=%d kind=%s: %d reads after SignRecovered()==true returned a signature that does not verify under the group public key (final VerifyGroupSign: %v)", n, k, gc.Kind, vfail, gen.VerifyGroupSign(gpks[n+readers], msg)), w)
	}
}

// concurrentPhase: trials over the prepared (non-degenerate) groups, larger groups preferred.
func concurrentPhase(r *mon.Run, preps []*prepared, trials int) {
	var el []*prepared
	for _, p := range preps {
		if p != nil && p.ok && p.gc.sigSuffix() == "" && len(p.msgs) > 0 && p.congMask == 0 {
			el = append(el, p)
		}
	}
	if len(el) == 0 {
		return
	}
	var big []*prepared
	for _, p := range el {
		if p.gc.N >= 7 {
			big = append(big, p)
		}
	}
	rng := r.Rand("concurrent")
	for t := 0; t < trials; t++ {
		pool := el
		if len(big) > 0 && t%4 != 0 {
			pool = big
		}
		p := pool[rng.Intn(len(pool))]
		mi := rng.Intn(len(p.msgs))
		readers := 2 + rng.Intn(5)
		r.CaseBegin([]byte(fmt.Sprintf("concurrent %s msg=%d trial=%d", p.gc.key(), mi, t)))
		concurrentTrial(r, p, mi, t, readers)
		r.Distinct("concurrent_group_msg", []byte(p.gc.key()), []byte{byte(mi)})
	}
}
