// C13 — any threshold subset of group members yields the same valid group signature.
//
// Monitor: the node's own distributed key generation (group_create.VerifDKG drives
// NewGroupNodeInfo / genSharePiece / handleSharePiece / aggregateKeys for n in-memory
// members) produces member signing keys, public shares and the group public key.
// Oracle (uniqueness of BLS signatures): every recovery from every subset of at least
// threshold members, in every order and through every recovery entry point, must be
// byte-equal to Sign(sum of the dealers' constant terms mod r, msg) and must verify
// under AggregatePubkeys(dealer seed public keys); every member share must verify
// under that member's public share; all members must agree on the group public key.
package main

import (
	"encoding/hex"
	"encoding/json"
	"fmt"
	"math/big"
	"math/bits"
	"os"
	"runtime"
	"strings"
	"sync"

	"com.tuntun.rangers/node/src/common"
	"com.tuntun.rangers/node/src/consensus/groupsig"
	bn "com.tuntun.rangers/node/src/consensus/groupsig/bn256"
	"com.tuntun.rangers/node/src/consensus/logical/group_create"
	"com.tuntun.rangers/node/src/consensus/model"

	"verifharness/env"
	"verifharness/mon"
)

// order of G1/G2 of the bn256 curve used by groupsig (checked against the package at start)
var curveR, _ = new(big.Int).SetString("65000549695646603732796438742359905742570406053903786389881062969044166799969", 10)
var two256 = new(big.Int).Lsh(big.NewInt(1), 256)

// GroupCase is a fully explicit group: replaying it needs nothing but this value.
type GroupCase struct {
	N         int      `json:"n"`
	Kind      string   `json:"kind"` // fresh | small | topbit | georder | mixed | zeroid | congruent
	Index     int      `json:"index"`
	Keys      []string `json:"keys"`            // member account secret keys (0x hex) -> SelfMinerInfo
	IDs       []string `json:"ids"`             // member ids as hex integers; "" = id the node derives from the key
	GroupHash string   `json:"group_hash"`      // hex, 32 bytes
	Order     [][]int  `json:"order,omitempty"` // dealer delivery order per member (nil = natural)
	// Rebuild[j] = r in 1..n-1: dealer j's group-init context is rebuilt (restart / cache
	// eviction mid key exchange) before it serves members r..n-1; 0 = no rebuild; nil = none
	Rebuild []int    `json:"rebuild,omitempty"`
	Msgs    []string `json:"msgs"` // hex messages
}

// SubsetWitness identifies one failing recovery inside a group.
type SubsetWitness struct {
	Group GroupCase `json:"group"`
	Msg   string    `json:"msg"`
	Mask  int       `json:"mask"`           // bit i = member i answered
	Path  string    `json:"path"`           // recover-k | recover-all | generator | dkg | share
	Perm  []int     `json:"perm,omitempty"` // insertion / arrival order (member indexes)
	Got   string    `json:"got,omitempty"`
	Want  string    `json:"want,omitempty"`
}

// mixed reports whether the subset holds members served before and after the rebuild of some dealer.
func (g *GroupCase) mixed(mask int) bool {
	for _, rb := range g.Rebuild {
		if rb >= 1 && rb < g.N {
			lo := mask & ((1 << uint(rb)) - 1)
			if lo != 0 && lo != mask {
				return true
			}
		}
	}
	return false
}

// runDKG drives the node's DKG for the group; with a rebuild vector it also runs the
// uninterrupted exchange and reports whether the rebuilt dealers dealt the same pieces
// (every member's aggregated signing key is the sum of the pieces it was dealt).
func runDKG(r *mon.Run, gc *GroupCase, members []*model.SelfMinerInfo) *group_create.VerifDKGResult {
	gh := common.BytesToHash(mustHex(gc.GroupHash))
	if gc.Rebuild == nil {
		return group_create.VerifDKG(members, gh, gc.Order)
	}
	res := group_create.VerifDKGWithRebuild(members, gh, gc.Order, gc.Rebuild)
	plain := group_create.VerifDKG(members, gh, gc.Order)
	r.Count("groups_with_rebuild", 1)
	nd := 0
	for j, rb := range gc.Rebuild {
		if rb >= 1 && rb < gc.N {
			nd++
			r.Distinct("rebuild_split", []byte{byte(gc.N), byte(rb)})
			r.Distinct("rebuild_dealer_split", []byte{byte(gc.N), byte(j), byte(rb)})
		}
	}
	switch {
	case nd == 1:
		r.Count("groups_rebuild_one_dealer", 1)
	case nd == gc.N:
		r.Count("groups_rebuild_all_dealers", 1)
	default:
		r.Count("groups_rebuild_several_dealers", 1)
	}
	if len(plain.SignSKs) == len(res.SignSKs) {
		for i := range res.SignSKs {
			r.Count("rebuild_piece_sum_comparisons", 1)
			if res.SignSKs[i].GetBigInt().Cmp(plain.SignSKs[i].GetBigInt()) != 0 {
				r.Violation("C13:dkg:rebuilt-dealer-deals-different-pieces"+gc.sigSuffix(),
					fmt.Sprintf("n=%d kind=%s rebuild=%v: member %d is dealt different pieces when dealer contexts are rebuilt mid-exchange than in the uninterrupted exchange (dealing is not a function of miner secret and group hash)", gc.N, gc.Kind, gc.Rebuild, i),
					SubsetWitness{Group: *gc, Path: "dkg", Mask: 1 << uint(i)})
				break
			}
		}
	}
	return res
}

func (g *GroupCase) key() string {
	return fmt.Sprintf("%d/%s/%d/%s", g.N, g.Kind, g.Index, g.GroupHash)
}

// sigSuffix: degenerate id configurations get their own signature class.
func (g *GroupCase) sigSuffix() string {
	switch g.Kind {
	case "congruent":
		return ":congruent-ids"
	case "zeroid":
		return ":id-multiple-of-order"
	}
	return ""
}

type prepared struct {
	gc       GroupCase
	k        int
	idHex    []string // map keys as the node builds them (ID.GetHexString)
	ids      []groupsig.ID
	gpk      []byte
	msgs     [][]byte
	shares   [][][]byte // [msg][member] serialized signature shares
	expect   [][]byte   // [msg] Sign(sum of dealer constant terms, msg)
	ok       bool
	sigSets  []map[string]struct{} // [msg] distinct recovered byte strings
	congMask int                   // members whose id is congruent mod r to another member's id
	mu       sync.Mutex
}

func mkMember(keyHex, idHex string) *model.SelfMinerInfo {
	sk := common.HexStringToSecKey(keyHex)
	if sk == nil {
		panic("bad key hex " + keyHex)
	}
	mi := model.NewSelfMinerInfo(*sk)
	if idHex != "" {
		b, ok := new(big.Int).SetString(idHex, 16)
		if !ok {
			panic("bad id hex " + idHex)
		}
		mi.ID.SetBigInt(b)
	}
	return &mi
}

// prepare runs the DKG for one group and judges everything that does not depend on a subset.
func prepare(r *mon.Run, gc GroupCase) *prepared {
	p := &prepared{gc: gc}
	suf := gc.sigSuffix()
	w := SubsetWitness{Group: gc, Path: "dkg"}
	r.Guard("C13:dkg"+suf, w, func() {
		n := gc.N
		k := model.Param.GetGroupK(n)
		p.k = k
		members := make([]*model.SelfMinerInfo, n)
		for i := 0; i < n; i++ {
			members[i] = mkMember(gc.Keys[i], gc.IDs[i])
		}
		res := runDKG(r, &gc, members)
		r.Count("dkg_runs", 1)
		r.Count(fmt.Sprintf("groups_n%02d", n), 1)
		r.Count("groups_kind_"+gc.Kind, 1)
		if len(res.SignSKs) != n || len(res.SignPKs) != n || len(res.GroupPKs) != n || len(res.SeedSKs) != n || len(res.SeedPKs) != n {
			r.Violation("C13:dkg:incomplete"+suf, "DKG driver returned fewer keys than members", w)
			return
		}
		if res.K != k {
			r.Violation("C13:dkg:threshold-mismatch"+suf, fmt.Sprintf("dealing threshold %d != GetGroupK(%d)=%d", res.K, n, k), w)
			return
		}
		for i, rc := range res.Results {
			if rc != 1 {
				r.Violation("C13:dkg:not-aggregated"+suf, fmt.Sprintf("member %d: handleSharePiece returned %d after the last share (want 1)", i, rc), w)
				return
			}
		}
		// group public key: all members agree, and it is the sum of the dealers' public keys
		agg := groupsig.AggregatePubkeys(res.SeedPKs)
		for i := 1; i < n; i++ {
			r.Count("gpk_checks", 1)
			if !res.GroupPKs[i].IsEqual(res.GroupPKs[0]) {
				r.Violation("C13:gpk-disagreement"+suf, fmt.Sprintf("member %d and member 0 computed different group public keys: %s vs %s", i, res.GroupPKs[i].GetHexString(), res.GroupPKs[0].GetHexString()), w)
				return
			}
		}
		r.Count("gpk_checks", 1)
		if agg == nil || !res.GroupPKs[0].IsEqual(*agg) {
			r.Violation("C13:gpk-not-aggregate"+suf, "group public key computed by the members differs from AggregatePubkeys(dealer seed public keys)", w)
			return
		}
		// group secret = sum of the dealers' constant terms (harness arithmetic, math/big)
		sum := new(big.Int)
		for i := 0; i < n; i++ {
			sum.Add(sum, res.SeedSKs[i].GetBigInt())
		}
		sum.Mod(sum, curveR)
		gsk := groupsig.NewSeckeyFromBigInt(new(big.Int).Set(sum))
		if a := groupsig.AggregateSeckeys(res.SeedSKs); a == nil || a.GetBigInt().Cmp(sum) != 0 {
			r.Violation("C13:aggregate-seckeys"+suf, "AggregateSeckeys(dealer constant terms) differs from their sum mod r", w)
			return
		}
		if !groupsig.GeneratePubkey(*gsk).IsEqual(*agg) {
			r.Violation("C13:gpk-secret-mismatch"+suf, "group public key is not the public key of the sum of the dealers' constant terms", w)
			return
		}
		// observation only (not part of C13): a member whose id is a multiple of the group
		// order is dealt f(0), i.e. the group secret itself
		for i := 0; i < n; i++ {
			if res.SignSKs[i].GetBigInt().Cmp(sum) == 0 {
				r.Count("observed_member_key_equals_group_secret", 1)
				r.Note("group %s: member %d (id %s) holds the group secret as its signing key", gc.key(), i, res.IDs[i].GetHexString())
			}
		}
		p.gpk = agg.Serialize()
		p.ids = res.IDs
		p.idHex = make([]string, n)
		for i := range res.IDs {
			p.idHex[i] = res.IDs[i].GetHexString()
			if res.IDs[i].GetBigInt().Cmp(curveR) >= 0 {
				r.Count("member_ids_ge_group_order", 1)
			} else {
				r.Count("member_ids_lt_group_order", 1)
			}
		}
		for _, mh := range gc.Msgs {
			msg := mustHex(mh)
			p.msgs = append(p.msgs, msg)
			exp := groupsig.Sign(*gsk, msg)
			r.Count("group_sign_verifications", 1)
			if !groupsig.VerifySig(*agg, msg, exp) {
				wm := w
				wm.Msg = mh
				r.Violation("C13:group-sign-verify"+suf, "Sign(group secret, msg) does not verify under the group public key", wm)
				return
			}
			p.expect = append(p.expect, exp.Serialize())
			row := make([][]byte, n)
			for i := 0; i < n; i++ {
				s := groupsig.Sign(res.SignSKs[i], msg)
				r.Count("share_verifications", 1)
				if !groupsig.VerifySig(res.SignPKs[i], msg, s) {
					wm := w
					wm.Msg, wm.Mask, wm.Path = mh, 1<<uint(i), "share"
					r.Violation("C13:share-verify"+suf, fmt.Sprintf("share of member %d does not verify under its public share", i), wm)
					return
				}
				row[i] = s.Serialize()
			}
			p.shares = append(p.shares, row)
			p.sigSets = append(p.sigSets, map[string]struct{}{})
		}
		for i := 0; i < n; i++ {
			for j := i + 1; j < n; j++ {
				d := new(big.Int).Sub(res.IDs[i].GetBigInt(), res.IDs[j].GetBigInt())
				if d.Mod(d, curveR).Sign() == 0 {
					p.congMask |= 1<<uint(i) | 1<<uint(j)
				}
			}
		}
		p.ok = true
	})
	return p
}

// subsetSuffix: a subset holding two members whose ids are congruent modulo the
// group order is a degenerate interpolation problem; it gets its own signature class.
func (p *prepared) subsetSuffix(mask int) string {
	if p.gc.Kind == "congruent" {
		if bits.OnesCount(uint(mask&p.congMask)) >= 2 {
			return ":congruent-ids"
		}
		return ""
	}
	return p.gc.sigSuffix()
}

func mustHex(s string) []byte {
	b, err := hex.DecodeString(strings.TrimPrefix(s, "0x"))
	if err != nil {
		panic(err)
	}
	return b
}

func masksFor(n, k int) []int {
	var out []int
	for m := 0; m < 1<<uint(n); m++ {
		if bits.OnesCount(uint(m)) >= k {
			out = append(out, m)
		}
	}
	return out
}

func membersOf(mask, n int) []int {
	var out []int
	for i := 0; i < n; i++ {
		if mask&(1<<uint(i)) != 0 {
			out = append(out, i)
		}
	}
	return out
}

type task struct {
	p     *prepared
	mi    int
	masks []int
}

// runTask: every recovery path for a chunk of subsets of one (group, message).
// Shares and keys are deserialized afresh so goroutines share no curve points
// (G1.Marshal normalises its receiver in place).
func runTask(r *mon.Run, t task, orders int, verifyAll bool) {
	p := t.p
	gc := &p.gc
	n, k := gc.N, p.k
	msg := p.msgs[t.mi]
	mh := gc.Msgs[t.mi]
	want := p.expect[t.mi]
	var gpk groupsig.Pubkey
	if err := gpk.Deserialize(p.gpk); err != nil {
		panic(err)
	}
	sigs := make([]groupsig.Signature, n)
	for i := 0; i < n; i++ {
		sigs[i].Deserialize(p.shares[t.mi][i])
	}
	local := map[string]struct{}{}
	congReported := map[int]bool{}
	judge := func(path string, mask int, perm []int, sig *groupsig.Signature, verify bool) {
		suf := p.subsetSuffix(mask)
		if suf == ":congruent-ids" {
			// one class for the whole degenerate configuration, whatever the entry point
			if sig == nil || string(sig.Serialize()) != string(want) {
				got := ""
				if sig != nil {
					got = hex.EncodeToString(sig.Serialize())
					local[string(sig.Serialize())] = struct{}{}
				}
				r.Count("congruent_subset_recoveries_wrong", 1)
				if congReported[mask] {
					return
				}
				congReported[mask] = true
				r.Violation("C13:recover:subset-disagreement:congruent-ids",
					fmt.Sprintf("n=%d k=%d subset=%b (%s) holds two members whose ids are congruent mod the group order: recovered signature differs from Sign(sum of dealer constant terms, msg)", n, k, mask, path),
					SubsetWitness{Group: *gc, Msg: mh, Mask: mask, Path: path, Perm: perm, Want: hex.EncodeToString(want), Got: got})
			} else {
				local[string(want)] = struct{}{}
				r.Count("congruent_subset_recoveries_right", 1)
			}
			return
		}
		w := SubsetWitness{Group: *gc, Msg: mh, Mask: mask, Path: path, Perm: perm, Want: hex.EncodeToString(want)}
		if sig == nil {
			r.Violation("C13:"+path+":nil"+suf, "recovery returned nil", w)
			return
		}
		got := sig.Serialize()
		local[string(got)] = struct{}{}
		if string(got) != string(want) {
			w.Got = hex.EncodeToString(got)
			r.Violation("C13:"+path+":subset-disagreement"+suf,
				fmt.Sprintf("n=%d k=%d kind=%s subset=%b: recovered signature differs from Sign(sum of dealer constant terms, msg)", n, k, gc.Kind, mask), w)
			if !groupsig.VerifySig(gpk, msg, *sig) {
				r.Violation("C13:"+path+":verify-fail"+suf,
					fmt.Sprintf("n=%d k=%d kind=%s subset=%b: recovered signature does not verify under the group public key", n, k, gc.Kind, mask), w)
			}
			return
		}
		if verify {
			r.Count("recovered_verifications", 1)
			if !groupsig.VerifySig(gpk, msg, *sig) {
				r.Violation("C13:"+path+":verify-fail"+suf,
					fmt.Sprintf("n=%d k=%d kind=%s subset=%b: recovered signature does not verify under the group public key", n, k, gc.Kind, mask), w)
			}
		}
	}
	for _, mask := range t.masks {
		mem := membersOf(mask, n)
		r.CaseBegin([]byte(fmt.Sprintf("%s msg=%d mask=%d", gc.key(), t.mi, mask)))
		rng := r.Rand("subset", gc.key(), t.mi, mask)
		suf := p.subsetSuffix(mask)
		shuffled := func() []int {
			q := append([]int(nil), mem...)
			rng.Shuffle(len(q), func(a, b int) { q[a], q[b] = q[b], q[a] })
			return q
		}
		r.Guard("C13:recover"+suf, SubsetWitness{Group: *gc, Msg: mh, Mask: mask}, func() {
			// 1. RecoverGroupSignature with the node's threshold, several insertion orders
			for o := 0; o < orders; o++ {
				perm := shuffled()
				m := make(map[string]groupsig.Signature, len(perm))
				for _, i := range perm {
					m[p.idHex[i]] = sigs[i]
				}
				sig := groupsig.RecoverGroupSignature(m, k)
				r.Count("recoveries_threshold", 1)
				if len(mem) > k {
					r.Count("recoveries_random_k_subset", 1)
				}
				judge("recover", mask, perm, sig, verifyAll || o == 0)
			}
			// 2. all shares of the subset combined (threshold argument = subset size)
			if len(mem) > k {
				perm := shuffled()
				m := make(map[string]groupsig.Signature, len(perm))
				for _, i := range perm {
					m[p.idHex[i]] = sigs[i]
				}
				sig := groupsig.RecoverGroupSignature(m, len(mem))
				r.Count("recoveries_all_shares", 1)
				judge("recover-all", mask, perm, sig, verifyAll)
			}
			// 3. the node's share collector, random arrival order
			perm := shuffled()
			gen := model.NewGroupSignGenerator(k)
			for t1, i := range perm {
				_, generated := gen.AddWitnessSign(p.ids[i], sigs[i])
				if t1+1 < k && generated {
					r.Violation("C13:generator:early"+suf, fmt.Sprintf("generator reports a group signature after %d < k=%d shares", t1+1, k),
						SubsetWitness{Group: *gc, Msg: mh, Mask: mask, Path: "generator", Perm: perm})
				}
				if t1+1 == k && !generated && suf != ":congruent-ids" {
					r.Violation("C13:generator:not-generated"+suf, fmt.Sprintf("generator did not produce a group signature from k=%d shares", k),
						SubsetWitness{Group: *gc, Msg: mh, Mask: mask, Path: "generator", Perm: perm})
				}
			}
			r.Count("generator_runs", 1)
			gs := gen.GetGroupSign()
			judge("generator", mask, perm, &gs, false)
			if suf != ":congruent-ids" && (verifyAll || len(mem) == k) {
				r.Count("recovered_verifications", 1)
				if string(gs.Serialize()) == string(want) && !gen.VerifyGroupSign(gpk, msg) {
					r.Violation("C13:generator:verify-fail"+suf, "GroupSignGenerator.VerifyGroupSign rejects the recovered signature",
						SubsetWitness{Group: *gc, Msg: mh, Mask: mask, Path: "generator", Perm: perm})
				}
			}
		})
		r.Count("subsets_enumerated", 1)
		if gc.mixed(mask) {
			r.Count("subsets_mixed_rebuild", 1)
		}
		if k >= 2 {
			r.Distinct("subset", []byte(gc.key()), []byte{byte(mask), byte(mask >> 8)})
		}
	}
	p.mu.Lock()
	for s := range local {
		p.sigSets[t.mi][s] = struct{}{}
	}
	p.mu.Unlock()
}

// ---------------------------------------------------------------------------
// generation

func randKey(rng interface{ Read([]byte) (int, error) }) string {
	b := make([]byte, 32)
	for {
		rng.Read(b)
		b[0] &= 0x7f // below the secp256k1 order
		if new(big.Int).SetBytes(b).Sign() != 0 {
			return "0x" + hex.EncodeToString(b)
		}
	}
}

func genGroup(r *mon.Run, n int, kind string, index int, nmsg int) GroupCase {
	rng := r.Rand("group", n, kind, index)
	gc := GroupCase{N: n, Kind: kind, Index: index, Keys: make([]string, n), IDs: make([]string, n)}
	for i := range gc.Keys {
		gc.Keys[i] = randKey(rng)
	}
	gh := make([]byte, 32)
	rng.Read(gh)
	gc.GroupHash = hex.EncodeToString(gh)
	rnd := func(max *big.Int) *big.Int { // uniform in [0,max)
		b := make([]byte, 40)
		rng.Read(b)
		return new(big.Int).Mod(new(big.Int).SetBytes(b), max)
	}
	room := new(big.Int).Sub(two256, curveR) // number of ids in [r, 2^256)
	ids := make([]*big.Int, n)
	switch kind {
	case "fresh":
	case "small":
		perm := rng.Perm(n)
		for i := range ids {
			ids[i] = big.NewInt(int64(perm[i] + 1))
		}
	case "topbit":
		top := new(big.Int).Lsh(big.NewInt(1), 255)
		for i := 0; i < n; i += 2 {
			x := rnd(top)
			if x.Sign() == 0 {
				x.SetInt64(5)
			}
			ids[i] = x
			if i+1 < n {
				ids[i+1] = new(big.Int).Or(x, top)
			}
		}
	case "georder":
		for i := range ids {
			switch i {
			case 0:
				ids[i] = new(big.Int).Add(curveR, big.NewInt(1))
			case 1:
				ids[i] = new(big.Int).Sub(two256, big.NewInt(1))
			default:
				ids[i] = new(big.Int).Add(curveR, rnd(room))
			}
		}
	case "mixed":
		for i := range ids {
			switch i % 3 {
			case 0:
				ids[i] = big.NewInt(int64(i + 1))
			case 1:
				ids[i] = new(big.Int).Add(curveR, big.NewInt(int64(1000+7*i)))
			}
		}
	case "zeroid":
		ids[rng.Intn(n)] = new(big.Int).Set(curveR)
	case "congruent":
		x := rnd(room)
		if x.Sign() == 0 {
			x.SetInt64(9)
		}
		a, b := rng.Intn(n), rng.Intn(n-1)
		if b >= a {
			b++
		}
		ids[a] = x
		ids[b] = new(big.Int).Add(x, curveR)
	default:
		panic("kind " + kind)
	}
	for i, x := range ids {
		if x != nil {
			gc.IDs[i] = x.Text(16)
		}
	}
	if index%2 == 1 || kind != "fresh" {
		gc.Order = make([][]int, n)
		for i := range gc.Order {
			gc.Order[i] = rng.Perm(n)
		}
	}
	if kind != "congruent" && kind != "zeroid" && (index+n)%2 == 1 {
		rb := r.Rand("rebuild", n, kind, index)
		gc.Rebuild = make([]int, n)
		split := func() int { return 1 + rb.Intn(n-1) }
		switch (index/2 + n + len(kind)) % 3 {
		case 0: // one dealer
			gc.Rebuild[rb.Intn(n)] = split()
		case 1: // several dealers
			cnt := 2 + rb.Intn(n-1)
			for _, j := range rb.Perm(n)[:cnt] {
				gc.Rebuild[j] = split()
			}
		default: // every dealer
			for j := range gc.Rebuild {
				gc.Rebuild[j] = split()
			}
		}
	}
	for j := 0; j < nmsg; j++ {
		l := 32
		switch (j + index) % 4 {
		case 1:
			l = 1 + rng.Intn(8)
		case 3:
			l = 33 + rng.Intn(100)
		}
		m := make([]byte, l)
		rng.Read(m)
		gc.Msgs = append(gc.Msgs, hex.EncodeToString(m))
	}
	return gc
}

// distinctModR reports whether the ids of the prepared group are pairwise distinct modulo the group order.
func distinctModR(ids []groupsig.ID) bool {
	seen := map[string]bool{}
	for _, id := range ids {
		k := new(big.Int).Mod(id.GetBigInt(), curveR).String()
		if seen[k] {
			return false
		}
		seen[k] = true
	}
	return true
}

func setup() string {
	d := env.ScratchDir("verif-c13-")
	os.MkdirAll("logs", 0755)
	common.Init(0, "conf.ini", "dev")
	model.InitParam(common.GlobalConf.GetSectionManager("consensus"))
	if bn.Order.Cmp(curveR) != 0 {
		fmt.Println("MACHINERY: bn256.Order is not the constant the oracle uses")
		os.Exit(2)
	}
	return d
}

func cleanup(d string) {
	mon.CleanWork()
	if strings.Contains(d, "verif-c13-") {
		os.Chdir("/")
		os.RemoveAll(d)
	}
}

func runGroups(r *mon.Run, groups []GroupCase, orders int, verifyAll bool) []*prepared {
	workers := runtime.NumCPU()
	preps := make([]*prepared, len(groups))
	if len(groups) > 0 { // first DKG alone: it initialises the package loggers
		preps[0] = prepare(r, groups[0])
	}
	mon.Parallel(len(groups)-1, workers, func(i int) { preps[i+1] = prepare(r, groups[i+1]) })
	var tasks []task
	const chunk = 24
	for _, p := range preps {
		if p == nil || !p.ok {
			continue
		}
		if p.gc.Kind != "congruent" && !distinctModR(p.ids) {
			r.Note("group %s: ids not distinct mod r, skipped", p.gc.key())
			continue
		}
		masks := masksFor(p.gc.N, p.k)
		r.Count("groups_subsets_exhaustive", 1)
		for mi := range p.msgs {
			for s := 0; s < len(masks); s += chunk {
				e := s + chunk
				if e > len(masks) {
					e = len(masks)
				}
				tasks = append(tasks, task{p: p, mi: mi, masks: masks[s:e]})
			}
		}
	}
	mon.Parallel(len(tasks), workers, func(i int) { runTask(r, tasks[i], orders, verifyAll) })
	for _, p := range preps {
		if p == nil || !p.ok {
			continue
		}
		for mi := range p.sigSets {
			if len(p.sigSets[mi]) == 0 {
				continue
			}
			r.Count("group_msg_pairs", 1)
			if p.gc.sigSuffix() == "" {
				r.Max("max_distinct_signatures_per_group_msg", int64(len(p.sigSets[mi])))
			} else {
				r.Max("max_distinct_signatures_per_group_msg_degenerate_ids", int64(len(p.sigSets[mi])))
			}
		}
	}
	return preps
}

func main() {
	if args, ok := mon.IsChildInvocation(); ok && len(args) >= 4 && args[0] == "round1" {
		round1Child(args)
		return
	}
	r := mon.Start("C13")
	if p := mon.ReplayArg(); p != "" {
		v, err := mon.LoadReplay(p)
		if err != nil {
			fmt.Println("MACHINERY:", err)
			os.Exit(2)
		}
		var w SubsetWitness
		var wrap struct {
			Case *SubsetWitness `json:"case"`
		}
		json.Unmarshal(v.Witness, &wrap)
		if wrap.Case != nil {
			w = *wrap.Case
		} else if err := json.Unmarshal(v.Witness, &w); err != nil {
			fmt.Println("MACHINERY: witness:", err)
			os.Exit(2)
		}
		if w.Group.N == 0 {
			fmt.Println("MACHINERY: witness has no group")
			os.Exit(2)
		}
		r.Seed = v.Seed
		if w.Path == concPath {
			d := setup()
			concurrentPhase(r, []*prepared{prepare(r, w.Group)}, 400)
			cleanup(d)
			r.Finish(mon.Coverage{Evaluations: r.Get("concurrent_trials") + 1, DistinctNontrivial: 2, Rule: "replay: 400 concurrent-arrival trials on the recorded group (interleavings are not controlled)"})
		}
		if w.Path == "round1" {
			var rw Round1Witness
			var rwrap struct {
				Case *Round1Witness `json:"case"`
			}
			json.Unmarshal(v.Witness, &rwrap)
			if rwrap.Case != nil {
				rw = *rwrap.Case
			} else {
				json.Unmarshal(v.Witness, &rw)
			}
			round1Replay(r, rw)
		}
		if w.Msg != "" {
			w.Group.Msgs = []string{w.Msg}
		}
		d := setup()
		runGroups(r, []GroupCase{w.Group}, 3, true)
		cleanup(d)
		ev := r.Get("subsets_enumerated")
		if ev < 2 {
			ev = 2
		}
		r.Finish(mon.Coverage{Evaluations: ev, DistinctNontrivial: ev, Rule: "replay of one recorded group (all subsets of size >= k for the recorded message)"})
	}

	// production collector (round-1 handler) in child processes, alongside the in-process phase
	r1done := make(chan []mon.ChildResult, 1)
	go func() { r1done <- r.RunChildren(round1Specs(r), r.Pick(8, 6)) }()

	d := setup()
	fresh := r.Pick(3, 100)
	other := r.Pick(1, 16)
	nmsg := 3
	orders := 3
	var groups []GroupCase
	for n := 3; n <= 10; n++ {
		for g := 0; g < fresh; g++ {
			groups = append(groups, genGroup(r, n, "fresh", g, nmsg))
		}
		for _, kind := range []string{"small", "topbit", "georder", "mixed", "zeroid", "congruent"} {
			cnt := other
			if kind == "congruent" || kind == "zeroid" {
				cnt = r.Pick(1, 2)
			}
			for g := 0; g < cnt; g++ {
				groups = append(groups, genGroup(r, n, kind, g, nmsg))
			}
		}
	}
	preps := runGroups(r, groups, orders, r.Thorough())
	concurrentPhase(r, preps, r.Pick(500, 8000))

	// samples
	seenKind := map[string]bool{}
	for _, p := range preps {
		if p == nil || !p.ok || seenKind[p.gc.Kind] || (p.gc.N != 5 && p.gc.N != 10) {
			continue
		}
		seenKind[p.gc.Kind] = true
		ids := append([]string(nil), p.idHex...)
		if len(ids) > 3 {
			ids = ids[:3]
		}
		r.Sample(map[string]interface{}{"n": p.gc.N, "k": p.k, "kind": p.gc.Kind, "first_ids": ids, "msg": p.gc.Msgs[0],
			"group_signature": hex.EncodeToString(p.expect[0]), "subsets": len(masksFor(p.gc.N, p.k))})
	}
	for _, res := range <-r1done {
		r.Absorb(res, "C13:round1")
	}
	cleanup(d)

	evals := r.Get("recoveries_threshold") + r.Get("recoveries_all_shares") + r.Get("generator_runs") + r.Get("round1_sequences") + r.Get("concurrent_trials")
	r.Finish(mon.Coverage{
		Evaluations:        evals,
		DistinctNontrivial: int64(r.DistinctCount("subset") + r.DistinctCount("round1_subset")),
		Rule: "for n=3..10, k=GetGroupK(n): groups run through the node's DKG (VerifDKG) with seeded fresh member keys (ids derived by the node, most >= curve order) " +
			"and adversarial ids (1..n; pairs differing only in bit 255; ids in [r,2^256) incl. r+1 and 2^256-1; mixtures; one id = r; two ids congruent mod r), random dealer delivery orders; " +
			"per group and 3 messages (32-byte, short, long) ALL subsets of size >= k: RecoverGroupSignature(threshold k) in 3 insertion orders, RecoverGroupSignature(threshold |S|), " +
			"model.GroupSignGenerator.AddWitnessSign in a random arrival order; each result byte-compared with Sign(sum of dealer constant terms mod r, msg) and verified under AggregatePubkeys(dealer pubkeys). " +
			"Non-trivial: subset of size >= k with k >= 2; distinct by (group, subset). Subsets are exhaustive per group; groups and messages are sampled. " +
			"Dealer restarts: in about half of the groups (VerifDKGWithRebuild) one, several or all dealers rebuild their group-init context at a random split point of the member list and deal again; the same oracles apply (esp. to subsets mixing members served before and after), plus: every member's aggregated key equals the one from the uninterrupted exchange. " +
			"Concurrent arrival: trials on the same groups with a fresh model.GroupSignGenerator, one goroutine per member leaving a barrier (AddWitnessSign then SignRecovered/GetGroupSign/VerifySig) plus 2-6 polling readers; every signature read after SignRecovered()==true and the final one must equal the group signature and verify; interleavings are uncontrolled. " +
			"Production collector: for further DKG groups (fresh/small/georder/topbit/mixed ids) the members' honest ConsensusVerifyMessages of sampled subsets (sizes k, k+1, .., n; all or many of size k) are fed to the real round-1 handler " +
			"(logical.round1.Update via VerifNewRound1, public shares looked up through GroupCreateProcessor/JoinedGroupStorage) in random arrival orders; after exactly k shares the round must have recovered and " +
			"Header().Signature / Header().Random must equal Sign(sum, block hash) / Sign(sum, previous beacon); round2.checkSignature must accept",
		Assumptions: []string{"BLS signatures are unique: the only valid group signature is Sign(sum of constant terms, msg)",
			"crypto-random k-subset choice and Go map order inside RecoverGroupSignature are uncontrolled extra diversity",
			"logical.groupSignGenerator is driven through round1.Update only (honest messages; Byzantine senders are C15's subject)"},
		MustObserve: []string{"dkg_runs", "share_verifications", "gpk_checks", "recoveries_threshold", "recoveries_random_k_subset", "recoveries_all_shares", "generator_runs", "recovered_verifications", "groups_subsets_exhaustive",
			"round1_groups", "round1_sequences", "round1_messages", "round1_recoveries_checked",
			"concurrent_trials", "concurrent_reads_after_recovered", "concurrent_reads_overlapping_arrivals",
			"groups_with_rebuild", "subsets_mixed_rebuild", "rebuild_piece_sum_comparisons", "round1_sequences_mixed_rebuild"},
	})
}
