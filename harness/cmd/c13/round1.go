// C13, production collector: the round-1 share handler (logical.round1.Update, which owns
// the unexported logical.groupSignGenerator used for the block signature and the beacon).
// For groups keyed by the node's own DKG the members' honest verify messages of a subset
// are delivered in random orders; after exactly k distinct valid shares the round must have
// recovered, and Header().Signature / Header().Random must be byte-equal to
// Sign(sum of dealer constant terms, bh.Hash) / Sign(sum, preBH.Random) whatever the
// subset and order. GroupCreateProcessor is process-global: this runs single-threaded in
// child processes (one batch of groups each).
package main

import (
	"encoding/hex"
	"encoding/json"
	"fmt"
	"math/big"
	"math/bits"
	"os"
	"strconv"
	"strings"
	"time"

	"com.tuntun.rangers/node/src/common"
	"com.tuntun.rangers/node/src/consensus/access"
	"com.tuntun.rangers/node/src/consensus/groupsig"
	"com.tuntun.rangers/node/src/consensus/logical"
	"com.tuntun.rangers/node/src/consensus/logical/group_create"
	"com.tuntun.rangers/node/src/consensus/model"
	"com.tuntun.rangers/node/src/consensus/net"
	"com.tuntun.rangers/node/src/core"
	"com.tuntun.rangers/node/src/middleware/types"

	"verifharness/env"
	"verifharness/mon"
)

type jgChain struct {
	core.GroupChain
	m map[string][]byte
}

func (c *jgChain) SaveJoinedGroup(id []byte, value []byte) bool {
	c.m[string(id)] = append([]byte{}, value...)
	return true
}
func (c *jgChain) GetJoinedGroup(id []byte) ([]byte, error) {
	if v, ok := c.m[string(id)]; ok {
		return v, nil
	}
	return nil, fmt.Errorf("not found")
}
func (c *jgChain) DeleteJoinedGroup(id []byte) bool { delete(c.m, string(id)); return true }

type blockChainStub struct{ core.BlockChain }

func (b *blockChainStub) HasBlockByHash(hash common.Hash) bool { return false }

type netStub struct{ net.NetworkServer }

func (n *netStub) AskSignPkMessage(msg *model.SignPubkeyReqMessage, receiver groupsig.ID) {}

// Round1Witness: one delivery sequence (Path is always "round1").
type Round1Witness struct {
	Group     GroupCase `json:"group"`
	Path      string    `json:"path"`
	BlockHash string    `json:"block_hash"`
	PreRandom string    `json:"pre_random"`
	Mask      int       `json:"mask"`
	Perm      []int     `json:"perm"` // member indexes in arrival order
	Got       string    `json:"got,omitempty"`
	Want      string    `json:"want,omitempty"`
}

type r1env struct {
	store  *access.JoinedGroupStorage
	ns     *netStub
	setup  bool
	joined int
}

type r1group struct {
	gc   GroupCase
	k    int
	dkg  *group_create.VerifDKGResult
	gsk  *groupsig.Seckey
	gid  groupsig.ID
	info *model.GroupInfo
}

func bootRound1() (*r1env, string) {
	d := env.ScratchDir("verif-c13-")
	env.BootServices(env.Forks{})
	return &r1env{store: access.VerifNewJoinedGroupStorage(&jgChain{m: map[string][]byte{}}), ns: &netStub{}}, d
}

func (e *r1env) newGroup(r *mon.Run, gc GroupCase) *r1group {
	g := &r1group{gc: gc}
	n := gc.N
	members := make([]*model.SelfMinerInfo, n)
	for i := 0; i < n; i++ {
		members[i] = mkMember(gc.Keys[i], gc.IDs[i])
	}
	gh := common.BytesToHash(mustHex(gc.GroupHash))
	g.dkg = runDKG(r, &gc, members)
	g.k = model.Param.GetGroupK(n)
	for _, rc := range g.dkg.Results {
		if rc != 1 {
			return nil // judged by the in-process phase (C13:dkg:not-aggregated)
		}
	}
	sum := new(big.Int)
	for i := 0; i < n; i++ {
		sum.Add(sum, g.dkg.SeedSKs[i].GetBigInt())
	}
	sum.Mod(sum, curveR)
	g.gsk = groupsig.NewSeckeyFromBigInt(sum)
	gpk := g.dkg.GroupPKs[0]
	g.gid = *groupsig.NewIDFromPubkey(gpk)
	jg := model.NewJoindGroupInfo(g.dkg.SignSKs[0], gpk, gh)
	for i := 0; i < n; i++ {
		jg.AddMemberSignPK(g.dkg.IDs[i], g.dkg.SignPKs[i])
	}
	e.store.JoinGroup(jg, g.dkg.IDs[0])
	if !e.setup {
		group_create.VerifSetup(*members[0], e.store, e.ns)
		e.setup = true
	}
	e.joined++
	g.info = &model.GroupInfo{GroupID: g.gid, GroupPK: gpk, GroupInitInfo: &model.GroupInitInfo{GroupHeader: &types.GroupHeader{Hash: gh}, GroupMembers: g.dkg.IDs}}
	g.info.BuildMemberIndex()
	r.Count("round1_groups", 1)
	return g
}

// deliver runs one sequence against a fresh round1 and judges it.
func (g *r1group) deliver(r *mon.Run, w Round1Witness) {
	n, k := g.gc.N, g.k
	var bhHash common.Hash
	copy(bhHash[:], mustHex(w.BlockHash))
	preRandom := mustHex(w.PreRandom)
	bh := &types.BlockHeader{Hash: bhHash, Height: 10, GroupId: g.gid.Serialize()}
	preBH := &types.BlockHeader{Height: 9, Random: preRandom}
	wantSig := groupsig.Sign(*g.gsk, bhHash.Bytes()).Serialize()
	wantRnd := groupsig.Sign(*g.gsk, preRandom).Serialize()
	r.Guard("C13:round1", w, func() {
		round := logical.VerifNewRound1(g.info, preBH, bh, &blockChainStub{}, g.dkg.IDs[0], nil)
		if err := round.Start(); err != nil {
			r.Count("round1_start_errors", 1)
		}
		reported := false
		for t, i := range w.Perm {
			sk := g.dkg.SignSKs[i]
			cvm := &model.ConsensusVerifyMessage{BlockHash: bhHash, Id: fmt.Sprintf("c13-%d-%d", w.Mask, t)}
			cvm.SignInfo = model.MakeSignInfo(bhHash, groupsig.Sign(sk, bhHash.Bytes()), g.dkg.IDs[i], common.ConsensusVersion)
			cvm.RandomSign = groupsig.Sign(sk, preRandom)
			if err := round.Update(cvm); err != nil {
				r.Count("round1_update_errors", 1)
			}
			r.Count("round1_messages", 1)
			got := t + 1
			if !round.CanProceed() {
				if got >= k && !reported {
					reported = true
					sig := "C13:round1:not-recovered-at-threshold"
					if got > k {
						sig = "C13:round1:not-recovered-above-threshold"
					}
					r.Violation(sig, fmt.Sprintf("n=%d k=%d kind=%s: %d distinct valid shares delivered (arrival order %v) but the round has not recovered the group signature", n, k, g.gc.Kind, got, w.Perm[:got]), w)
				}
				continue
			}
			if got == k || t == len(w.Perm)-1 {
				r.Count("round1_recoveries_checked", 1)
				h := round.Header()
				if string(h.Signature) != string(wantSig) {
					ww := w
					ww.Got, ww.Want = hex.EncodeToString(h.Signature), hex.EncodeToString(wantSig)
					r.Violation("C13:round1:subset-disagreement", fmt.Sprintf("n=%d k=%d kind=%s subset=%b: block signature recovered by the round differs from Sign(sum of dealer constant terms, block hash)", n, k, g.gc.Kind, w.Mask), ww)
				}
				if string(h.Random) != string(wantRnd) {
					ww := w
					ww.Got, ww.Want = hex.EncodeToString(h.Random), hex.EncodeToString(wantRnd)
					r.Violation("C13:round1:beacon-subset-disagreement", fmt.Sprintf("n=%d k=%d kind=%s subset=%b: beacon value recovered by the round differs from Sign(sum of dealer constant terms, previous beacon)", n, k, g.gc.Kind, w.Mask), ww)
				}
				if got == k {
					if err := round.CheckSignature(); err != nil {
						r.Violation("C13:round1:verify-fail", fmt.Sprintf("n=%d k=%d kind=%s subset=%b: round2.checkSignature rejects the recovered header: %v", n, k, g.gc.Kind, w.Mask, err), w)
					}
				}
			}
		}
	})
	r.Count("round1_sequences", 1)
	if g.gc.mixed(w.Mask) {
		r.Count("round1_sequences_mixed_rebuild", 1)
	}
	r.Distinct("round1_subset", []byte(g.gc.key()), []byte{byte(w.Mask), byte(w.Mask >> 8)})
}

// round1Plan: subsets (always sizes k, k+1, n; some in between) x arrival orders for one group.
func round1Plan(r *mon.Run, g *r1group) []Round1Witness {
	n, k := g.gc.N, g.k
	rng := r.Rand("round1-plan", g.gc.key())
	bySize := map[int][]int{}
	for _, m := range masksFor(n, k) {
		s := bits.OnesCount(uint(m))
		bySize[s] = append(bySize[s], m)
	}
	pick := func(size, max int) []int {
		l := append([]int(nil), bySize[size]...)
		rng.Shuffle(len(l), func(a, b int) { l[a], l[b] = l[b], l[a] })
		if len(l) > max {
			l = l[:max]
		}
		return l
	}
	var masks []int
	masks = append(masks, pick(k, r.Pick(16, 1000))...)
	if k+1 < n {
		masks = append(masks, pick(k+1, r.Pick(4, 40))...)
	}
	for s := k + 2; s < n; s++ {
		masks = append(masks, pick(s, r.Pick(1, 6))...)
	}
	masks = append(masks, (1<<uint(n))-1)
	orders := r.Pick(2, 3)
	var out []Round1Witness
	for _, m := range masks {
		for o := 0; o < orders; o++ {
			perm := membersOf(m, n)
			rng.Shuffle(len(perm), func(a, b int) { perm[a], perm[b] = perm[b], perm[a] })
			bh := make([]byte, 32)
			rng.Read(bh)
			pr := make([]byte, 32)
			rng.Read(pr)
			out = append(out, Round1Witness{Group: g.gc, Path: "round1", BlockHash: hex.EncodeToString(bh), PreRandom: hex.EncodeToString(pr), Mask: m, Perm: perm})
		}
	}
	return out
}

var round1Kinds = []string{"fresh", "small", "fresh", "georder", "topbit", "mixed"}

// round1Child: args = round1 <n> <from> <to>: groups with indexes from..to-1.
func round1Child(args []string) {
	r := mon.Start("C13")
	n, _ := strconv.Atoi(args[1])
	from, _ := strconv.Atoi(args[2])
	to, _ := strconv.Atoi(args[3])
	e, d := bootRound1()
	for gi := from; gi < to; gi++ {
		kind := round1Kinds[(gi+n)%len(round1Kinds)]
		gc := genGroup(r, n, kind, 1000+gi, 0)
		var g *r1group
		r.Guard("C13:round1:dkg", Round1Witness{Group: gc, Path: "round1"}, func() { g = e.newGroup(r, gc) })
		if g == nil {
			continue
		}
		r.Count("round1_groups_kind_"+kind, 1)
		plan := round1Plan(r, g)
		for i, w := range plan {
			b, _ := json.Marshal(w)
			r.CaseBegin(b)
			g.deliver(r, w)
			if i == 0 && gi == from && (n == 5 || n == 10) {
				r.Sample(map[string]interface{}{"round1": true, "n": n, "k": g.k, "kind": kind, "block_hash": w.BlockHash, "arrival_order": w.Perm})
			}
		}
	}
	if strings.Contains(d, "verif-c13-") {
		os.Chdir("/")
		os.RemoveAll(d)
	}
	r.Finish(mon.Coverage{Evaluations: r.Get("round1_sequences")})
}

func round1Specs(r *mon.Run) []mon.ChildSpec {
	groupsPerN := r.Pick(3, 24)
	batch := r.Pick(1, 4)
	var specs []mon.ChildSpec
	for n := 10; n >= 3; n-- { // big groups first
		for g := 0; g < groupsPerN; g += batch {
			specs = append(specs, mon.ChildSpec{Label: fmt.Sprintf("round1-n%d-g%d", n, g),
				Args: []string{"round1", strconv.Itoa(n), strconv.Itoa(g), strconv.Itoa(g + batch)}, Timeout: time.Duration(r.Pick(10, 60)) * time.Minute})
		}
	}
	return specs
}

// round1Replay re-runs one recorded delivery sequence in this process.
func round1Replay(r *mon.Run, w Round1Witness) {
	e, d := bootRound1()
	g := e.newGroup(r, w.Group)
	if g == nil {
		fmt.Println("MACHINERY: DKG of the recorded group did not complete")
		os.Exit(2)
	}
	if len(w.Perm) == 0 {
		for _, pw := range round1Plan(r, g) {
			g.deliver(r, pw)
		}
	} else {
		g.deliver(r, w)
	}
	if strings.Contains(d, "verif-c13-") {
		os.Chdir("/")
		os.RemoveAll(d)
	}
	r.Finish(mon.Coverage{Evaluations: 2, DistinctNontrivial: 2, Rule: "replay of one recorded round-1 delivery sequence"})
}
