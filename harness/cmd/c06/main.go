// C06 — the native token is conserved by every transaction; balances never go
// negative.
//
// Conservation monitor over a closed universe of addresses (DESIGN.md "### C06").
// Every transaction is executed by the real block executor
// (core.VerifExecuteBlock, one transaction per block on one AccountDB; the second
// configuration drives executor.GetTxExecutor(...).BeforeExecute/Execute with the
// same loop), the sum of GetBalance over the universe is taken before and after
// and compared with the change first principles allow for the kind of
// transaction; registered stake and refund escrow are observed alongside so that
// "locked as stake" and "refunded" are exact amounts. At the end of every
// sequence the state is committed and the balance storage trie is iterated
// completely to prove that no value left the universe.
package main

import (
	"encoding/hex"
	"encoding/json"
	"fmt"
	"math/big"
	"os"
	"strconv"
	"strings"
	"time"

	"com.tuntun.rangers/node/src/common"
	"com.tuntun.rangers/node/src/core"
	crypto "com.tuntun.rangers/node/src/eth_crypto"
	"com.tuntun.rangers/node/src/middleware"
	"com.tuntun.rangers/node/src/middleware/db"
	"com.tuntun.rangers/node/src/middleware/types"
	"com.tuntun.rangers/node/src/service"
	"com.tuntun.rangers/node/src/storage/account"

	"verifharness/env"
	"verifharness/mon"
)

const fixtureSeq = -1
const nDust = 12

func newMonitor(r *mon.Run, cfg string) *monitor {
	m := &monitor{r: r, cfg: cfg, uni: map[common.Address]string{}, named: map[string]common.Address{}, contracts: map[string]common.Address{},
		newAddrs: map[int]common.Address{}, pending: map[uint64]bool{}}
	name := func(ref string, a common.Address) { m.named[ref] = a }
	for i, a := range env.RichAccounts {
		name(fmt.Sprintf("rich:%d", i), common.HexToAddress(a))
	}
	for i := 0; i < 6; i++ {
		name(fmt.Sprintf("eoa:%d", i), common.BytesToAddress(keccak([]byte(fmt.Sprintf("c06-eoa-%d", i)))[12:]))
		name(fmt.Sprintf("fresh:%d", i), common.BytesToAddress(keccak([]byte(fmt.Sprintf("c06-fresh-%d", i)))[12:]))
	}
	for i := 0; i < 3; i++ {
		k, err := crypto.ToECDSA(keccak([]byte(fmt.Sprintf("c06-key-%d", i))))
		if err != nil {
			panic(err)
		}
		m.keys = append(m.keys, k)
		name(fmt.Sprintf("key:%d", i), crypto.PubkeyToAddress(k.PublicKey))
	}
	// dust senders: keyed accounts that hold nothing until a sequence fills one of
	// them to an exact threshold balance (see gen.dust)
	for i := 0; i < nDust; i++ {
		k, err := crypto.ToECDSA(keccak([]byte(fmt.Sprintf("c06-dust-%d", i))))
		if err != nil {
			panic(err)
		}
		m.keys = append(m.keys, k)
		name(fmt.Sprintf("dust:%d", i), crypto.PubkeyToAddress(k.PublicKey))
	}
	for i := 0; i < 4; i++ { // AUTH authorities
		k, err := crypto.ToECDSA(keccak([]byte(fmt.Sprintf("c06-authority-%d", i))))
		if err != nil {
			panic(err)
		}
		m.keys = append(m.keys, k)
		name(fmt.Sprintf("auth:%d", i), crypto.PubkeyToAddress(k.PublicKey))
	}
	for i := 1; i <= 18; i++ {
		name(fmt.Sprintf("pre:%d", i), common.BytesToAddress([]byte{byte(i)}))
	}
	name("zero", common.Address{})
	name("fee", common.FeeAccount)
	name("g:holder", common.HexToAddress("0x7edd0ef9da9cec334a7887966cc8dd71d590eeb7"))
	name("g:proposer", common.HexToAddress("0xa9e11ce87c646ca4b0c8eb66f28a86232734d74a"))
	for i, a := range []string{"0x56b1fc865ad0c87f46f804145a861b38fcbafb99", "0x0ef90c9cc936c2e3117d76c1ffb28391f8cebbca", "0x22b00137e24a708609fdb88ee156dabe041b158b"} {
		name(fmt.Sprintf("g:validator%d", i), common.HexToAddress(a))
	}
	for i := 0; i < 6; i++ {
		m.minerIDs = append(m.minerIDs, common.Sha256([]byte(fmt.Sprintf("c06-miner-%d", i))))
	}
	return m
}

// boot brings up the configuration and leaves m.adb at the start state.
func (m *monitor) boot() {
	env.ScratchDir("verif-c06-")
	switch m.cfg {
	case "genesis":
		h := &env.Helper{}
		env.BootCore(env.Forks{}, h)
		top := core.GetBlockChain().TopBlock()
		adb, err := middleware.AccountDBManagerInstance.GetAccountDBByHash(top.StateTree)
		if err != nil {
			panic(err)
		}
		m.adb = adb
		m.exec = func(adb *account.AccountDB, block *types.Block, situation string) ([]*types.Receipt, []common.Hash) {
			_, evicted, _, receipts := core.VerifExecuteBlock(adb, block, situation)
			return receipts, evicted
		}
		gi := h.GenerateGenesisInfo()
		m.groupID = gi[0].Group.Id
		for _, mem := range gi[0].Group.Members {
			m.genesisMiners = append(m.genesisMiners, mem)
		}
		m.castor = common.FromHex(env.DevProposerID)
		m.genesisMiners = append(m.genesisMiners, m.castor, common.FromHex("0xb26612d2742ab4edd016b354725d045d6627de9b1b2d7c40ae26d2c97af21abd"))
	case "empty":
		env.BootServices(env.Forks{})
		service.InitRefundManager(nil, nil)
		mem, _ := db.NewMemDatabase()
		adb, err := account.NewAccountDB(common.Hash{}, account.NewDatabase(mem))
		if err != nil {
			panic(err)
		}
		m.adb = adb
		m.exec = replicaExecute
		common.SetBlockHeight(1)
		for i := 0; i < 4; i++ {
			adb.SetBalance(m.named[fmt.Sprintf("rich:%d", i)], tokens(1000000000))
		}
		adb.IntermediateRoot(true)
	default:
		panic("config " + m.cfg)
	}
	common.SetBlockHeight(1)
	found, contract, pos, _ := m.adb.GetERC20Binding(common.BLANCE_NAME)
	if !found {
		panic("no balance binding")
	}
	m.tokenAddr, m.tokenPos = contract, pos
	m.named["tok"] = contract
	if m.cfg == "genesis" {
		if contract == (common.Address{}) {
			panic("genesis state without a bound token contract")
		}
		m.named["proxy"] = common.HexToAddress("0x9c1cbfe5328dfb1733d59a7652d0a49228c7e12c")
	} else {
		if contract != (common.Address{}) {
			panic("empty state with a bound token contract")
		}
		m.named["proxy"] = common.BytesToAddress(keccak([]byte("c06-proxy"))[12:])
	}
	m.installHooks()
	m.height = 10
	for ref, a := range m.named {
		m.addUni(a, ref)
	}
	// deterministic order of the universe
	m.uniOrder = m.uniOrder[:0]
	refs := make([]string, 0, len(m.named))
	for ref := range m.named {
		refs = append(refs, ref)
	}
	sortStrings(refs)
	seen := map[common.Address]bool{}
	for _, ref := range refs {
		if a := m.named[ref]; !seen[a] {
			seen[a] = true
			m.uniOrder = append(m.uniOrder, a)
		}
	}
	m.total = new(big.Int)
	for _, a := range m.uniOrder {
		m.total.Add(m.total, m.adb.GetBalance(a))
	}
	m.ceil = new(big.Int).Set(m.total)
	m.baseline = map[string]string{}
}

func sortStrings(s []string) {
	for i := 1; i < len(s); i++ {
		for j := i; j > 0 && s[j] < s[j-1]; j-- {
			s[j], s[j-1] = s[j-1], s[j]
		}
	}
}

func (m *monitor) fixtureSpecs() []*TxSpec {
	var out []*TxSpec
	fund := &TxSpec{Kind: "transfer", Src: "rich:0", Template: "transfer-multi"}
	for i := 0; i < 6; i++ {
		fund.Targets = append(fund.Targets, TA{fmt.Sprintf("eoa:%d", i), "5000"})
	}
	for i := 0; i < 3; i++ {
		fund.Targets = append(fund.Targets, TA{fmt.Sprintf("key:%d", i), "5000"})
	}
	out = append(out, fund)
	for _, c := range fixtureContracts() {
		out = append(out, &TxSpec{Kind: "create", Src: "rich:1", Value: "0", GasLimit: "100000000", Template: "fixture-deploy:" + c.Name,
			Prog: []Action{{Op: "returnraw", Raw: hex.EncodeToString(c.Code)}}})
	}
	out = append(out, &TxSpec{Kind: "transfer", Src: "rich:0", Template: "transfer-multi", Targets: []TA{{"c:StakeHub", "10000"}, {"c:StakeHub2", "5000"}, {"c:SDSelf0", "3"}}})
	out = append(out,
		&TxSpec{Kind: "miner-apply", Src: "rich:2", Miner: &MinerSpec{Id: 0, Type: common.MinerTypeValidator, Stake: 1000, Account: "c:StakeHub"}},
		&TxSpec{Kind: "miner-apply", Src: "rich:2", Miner: &MinerSpec{Id: 1, Type: common.MinerTypeProposer, Stake: 4000, Account: "c:StakeHub2"}},
		&TxSpec{Kind: "miner-apply", Src: "rich:3", Miner: &MinerSpec{Id: 2, Type: common.MinerTypeValidator, Stake: 800}},
	)
	return out
}

// runFixture executes the fixture transaction by transaction (monitored like
// any other sequence), commits, and records the baseline of the balance trie.
func (m *monitor) runFixture() bool {
	specs := m.fixtureSpecs()
	m.wit = &Witness{Config: m.cfg, Seq: fixtureSeq, Specs: specs, Note: "fixture"}
	nContracts := 0
	for i, s := range specs {
		m.runBlock(i, i+1)
		if strings.HasPrefix(s.Template, "fixture-deploy:") {
			a := m.newAddrs[i]
			if len(m.adb.GetCode(a)) == 0 {
				m.r.Note("fixture: %s was not deployed", s.Template)
				return false
			}
			m.contracts[strings.TrimPrefix(s.Template, "fixture-deploy:")] = a
			m.uni[a] = "c:" + strings.TrimPrefix(s.Template, "fixture-deploy:")
			nContracts++
		}
	}
	for i := 0; i < 3; i++ {
		if service.MinerManagerImpl.GetMiner(m.minerIDs[i], m.adb) == nil {
			m.r.Note("fixture: miner %d was not registered", i)
			return false
		}
	}
	m.checkClosureFixture()
	return true
}

// checkClosureFixture commits the fixture state and takes the baseline: every
// slot of the balance trie that is not a universe balance slot (token name,
// symbol, …) must stay exactly as it is for the rest of the run.
func (m *monitor) checkClosureFixture() {
	slots, err := m.trieSlots()
	if err != nil {
		panic(err)
	}
	keys := map[string]bool{}
	for _, a := range m.uniOrder {
		keys[balanceKey(a, m.tokenPos)] = true
	}
	trieTotal := new(big.Int)
	for k, v := range slots {
		if keys[k] {
			trieTotal.Add(trieTotal, v)
		} else {
			m.baseline[k] = v.String()
		}
	}
	m.r.Count("baseline_foreign_slots", int64(len(m.baseline)))
	api := new(big.Int)
	for _, a := range m.uniOrder {
		api.Add(api, m.adb.GetBalance(a))
	}
	if trieTotal.Cmp(api) != 0 || api.Cmp(m.total) != 0 {
		m.fail("C06:universe:trie-total-differs-from-tracked-total", fmt.Sprintf("fixture: committed trie total %s, GetBalance total %s, tracked total %s", trieTotal, api, m.total))
	}
	root, err := m.adb.Commit(true)
	if err != nil {
		panic(err)
	}
	m.fixtureRoot = root
}

type snapshotState struct {
	uni      map[common.Address]string
	uniOrder []common.Address
	total    *big.Int
	ceil     *big.Int
	height   uint64
}

func (m *monitor) save() *snapshotState {
	s := &snapshotState{uni: map[common.Address]string{}, uniOrder: append([]common.Address{}, m.uniOrder...), total: new(big.Int).Set(m.total),
		ceil: new(big.Int).Set(m.ceil), height: m.height}
	for k, v := range m.uni {
		s.uni[k] = v
	}
	return s
}

func (m *monitor) restore(s *snapshotState) {
	m.uni = map[common.Address]string{}
	for k, v := range s.uni {
		m.uni[k] = v
	}
	m.uniOrder = append([]common.Address{}, s.uniOrder...)
	m.total = new(big.Int).Set(s.total)
	m.ceil = new(big.Int).Set(s.ceil)
	m.height = s.height
	m.newAddrs = map[int]common.Address{}
	m.pending = map[uint64]bool{}
	m.aborted = false
	adb, err := account.NewAccountDB(m.fixtureRoot, m.adb.Database())
	if err != nil {
		panic(err)
	}
	m.adb = adb
}

// runSequence executes one sequence from the fixture state: transaction by
// transaction (blockMode=false) or with maximal runs of transactions grouped
// into one block (blockMode=true).
func (m *monitor) runSequence(fix *snapshotState, seq int, specs []*TxSpec, blockMode bool) {
	m.restore(fix)
	m.wit = &Witness{Config: m.cfg, Seq: seq, Block: blockMode, Specs: specs}
	js, _ := json.Marshal(m.wit)
	m.r.CaseBegin(js)
	m.r.Count("sequences", 1)
	i := 0
	for i < len(specs) {
		j := i + 1
		if blockMode && !splits(specs[i]) {
			for j < len(specs) && !splits(specs[j]) && j-i < 12 {
				j++
			}
		}
		m.runBlock(i, j)
		i = j
		if m.aborted {
			m.r.Count("sequences_cut_short_by_commit_error", 1)
			return
		}
	}
	m.wit.At = len(specs)
	m.checkClosure()
}

func splits(s *TxSpec) bool { return s.Kind == "mature" || s.Kind == "reward" || s.Kind == "barrier" }

func childMain(r *mon.Run, args []string) {
	cfg := args[0]
	shard, _ := strconv.Atoi(args[1])
	nshards, _ := strconv.Atoi(args[2])
	nseq, _ := strconv.Atoi(args[3])
	m := newMonitor(r, cfg)
	dir := ""
	defer func() {
		if dir != "" {
			os.RemoveAll(dir)
		}
	}()
	m.boot()
	dir, _ = os.Getwd()
	if !m.runFixture() {
		r.Note("fixture failed in config %s", cfg)
		r.Count("fixture_failed", 1)
		finishChild(r, dir)
	}
	r.Count("fixture_ok", 1)
	fix := m.save()
	for seq := shard; seq < nseq; seq += nshards {
		specs, special, blockToo := sequence(r.Rand("seq", cfg, seq), cfg, seq)
		m.runSequence(fix, seq, specs, false)
		if blockToo || (!special && seq%3 == 0) {
			m.runSequence(fix, seq, specs, true)
		}
		if seq < 2 && shard == seq {
			r.Sample(map[string]interface{}{"config": cfg, "seq": seq, "specs": specs})
		}
	}
	finishChild(r, dir)
}

func finishChild(r *mon.Run, dir string) {
	if strings.Contains(dir, "verif-c06-") {
		os.RemoveAll(dir)
	}
	r.Finish(mon.Coverage{Evaluations: r.Get("txs_executed")})
}

func replayMain(r *mon.Run, path string) {
	v, err := mon.LoadReplay(path)
	if err != nil {
		fmt.Println("MACHINERY:", err)
		os.Exit(2)
	}
	var w Witness
	var wrapped struct {
		Case     *Witness `json:"case"`
		LastCase mon.Hex  `json:"last_case"`
	}
	json.Unmarshal(v.Witness, &wrapped)
	switch {
	case wrapped.Case != nil:
		w = *wrapped.Case
	case len(wrapped.LastCase) > 0:
		json.Unmarshal(wrapped.LastCase, &w)
	default:
		json.Unmarshal(v.Witness, &w)
	}
	if w.Config == "" {
		fmt.Println("MACHINERY: replay file carries no C06 witness")
		os.Exit(2)
	}
	m := newMonitor(r, w.Config)
	m.boot()
	dir, _ := os.Getwd()
	if !m.runFixture() {
		fmt.Println("MACHINERY: fixture failed")
		os.Exit(2)
	}
	if w.Seq != fixtureSeq {
		fix := m.save()
		m.runSequence(fix, w.Seq, w.Specs, w.Block)
	}
	if strings.Contains(dir, "verif-c06-") {
		os.RemoveAll(dir)
	}
	r.Finish(mon.Coverage{Evaluations: r.Get("txs_executed") + 1, DistinctNontrivial: int64(r.DistinctCount("nontrivial")) + 2, Rule: "replay of one recorded sequence"})
}

func main() {
	r := mon.Start("C06")
	if args, ok := mon.IsChildInvocation(); ok {
		childMain(r, args)
		return
	}
	if p := mon.ReplayArg(); p != "" {
		replayMain(r, p)
		return
	}
	nseq := r.Pick(1200, 30000)
	shards := 8
	var specs []mon.ChildSpec
	for _, cfg := range []string{"genesis", "empty"} {
		for s := 0; s < shards; s++ {
			specs = append(specs, mon.ChildSpec{Label: fmt.Sprintf("%s-%d", cfg, s), Args: []string{cfg, strconv.Itoa(s), strconv.Itoa(shards), strconv.Itoa(nseq)},
				Timeout: time.Duration(r.Pick(4, 45)) * time.Minute})
		}
	}
	for _, res := range r.RunChildren(specs, 16) {
		r.Absorb(res, "C06:"+strings.Split(res.Spec.Label, "-")[0])
	}
	mon.CleanWork()
	r.Finish(mon.Coverage{
		Evaluations:        r.Get("txs_executed"),
		DistinctNontrivial: int64(r.DistinctCount("nontrivial")),
		Rule: "seeded sequences of 1-20 transactions from the fixture state in two configurations (dev genesis with the bound token contract through core.VerifExecuteBlock; " +
			"empty state with balances in the zero account through the same loop over executor.GetTxExecutor): operator transfers with boundary amount strings and multi-target failures, " +
			"contract/ETH transactions running hand-assembled EVM programs (CALL/CALLCODE/DELEGATECALL/STATICCALL with value to EOAs, contracts, precompiles, self, through reverting/OOG relays; " +
			"CREATE/CREATE2 with endowment; SELFDESTRUCT to self/fresh/caller incl. reverted frames), miner apply/add/refund/change-account, refund maturity and block reward blocks, " +
			"STAKE/UNSTAKE/UNSTAKEALL opcodes; dust senders of every fee-paying kind filled to exact threshold balances (0, 1 wei, both flat fees -1/0/+1, fee+gas*price+value -1/0/+1, fee+stake -1/0/+1); every third regular sequence again with transactions grouped into blocks. Non-trivial: a transaction that changed a universe balance or failed after being given value; distinct by spec",
		Assumptions: []string{
			"registered stake is read with MinerManager.GetMiner and escrow with AccountDB.GetAllRefund (observations of the node's own state, not a model)",
			"the universe is closed by construction of the generators; closure is proven per sequence by iterating the committed balance trie",
			"configuration 'empty' replicates VMExecutor.Execute in the harness (core cannot run without a chain); deductGasFee of core is only exercised in configuration 'genesis'",
		},
		MustObserve: []string{"fixture_ok", "conservation_checks", "closure_checks", "sums_checked", "tx:transfer:ok", "tx:transfer:failed", "tx:create:ok", "tx:create:failed",
			"tx:call:ok", "tx:miner-apply:ok", "dust_sender_txs", "template:authcall", "authcall_value_moved", "template:stale-gas:early-fail", "template:stale-gas:heavy", "dust_sender_fee_refused", "dust_sender_fee_paid", "selfdestruct_ops", "value_moving_frames", "frames_failed", "stake_opcodes", "matured_wei_nonzero", "block_mode_blocks", "trie_slots_iterated"},
	})
}
