package main

// Second configuration ("empty"): no chain is created (so that no token
// contract is ever bound: balances live in the zero account's storage), hence
// core.VerifExecuteBlock is not available (core's loggers are nil without
// InitCore). The block loop below calls executor.GetTxExecutor(type).
// BeforeExecute / Execute exactly as core.VMExecutor.Execute does (same order:
// Prepare, BeforeExecute, eviction, Snapshot, Execute, revert + gas fee of the
// failed contract tx, nonce bump, receipt), and the parts of after() that
// touch balances (escrow of refund infos, CheckAndMove).

import (
	"math/big"
	"sort"

	"com.tuntun.rangers/node/src/common"
	"com.tuntun.rangers/node/src/executor"
	"com.tuntun.rangers/node/src/middleware/types"
	"com.tuntun.rangers/node/src/service"
	"com.tuntun.rangers/node/src/storage/account"
)

type stubChain struct{}

func (stubChain) GetBlockHash(height uint64) common.Hash { return common.Hash{} }

func replicaExecute(adb *account.AccountDB, block *types.Block, situation string) ([]*types.Receipt, []common.Hash) {
	context := map[string]interface{}{}
	context["chain"] = stubChain{}
	context["situation"] = situation
	context["refund"] = make(map[uint64]types.RefundInfoList)

	receipts := make([]*types.Receipt, 0)
	evictedTxs := make([]common.Hash, 0)
	txs := types.Transactions(block.Transactions)
	if 0 != len(txs) && situation != "casting" {
		sort.Sort(txs)
	}
	i := 0
	for _, transaction := range txs {
		if 0 == transaction.Type {
			continue
		}
		if common.IsProposal013() {
			adb.Prepare(transaction.Hash, common.Hash{}, i)
		}
		if common.IsProposal006() && !common.IsProposal007() {
			adb.IncreaseNonce(common.HexToAddress(transaction.Source))
		}
		txExecutor := executor.GetTxExecutor(transaction.Type)
		success := false
		addAble := true
		msg := ""
		if txExecutor != nil {
			success, addAble, msg = txExecutor.BeforeExecute(transaction, block.Header, adb, context)
			if common.IsProposal018() && !addAble {
				evictedTxs = append(evictedTxs, transaction.Hash)
				continue
			}
			if success {
				snapshot := adb.Snapshot()
				success, msg = txExecutor.Execute(transaction, block.Header, adb, context)
				if !success {
					if !common.IsProposal018() {
						evictedTxs = append(evictedTxs, transaction.Hash)
					}
					adb.RevertToSnapshot(snapshot)
					if common.IsProposal027() && types.IsContractTx(transaction.Type) {
						if gasUsed := context["gasUsed"]; gasUsed != nil {
							replicaDeductGasFee(gasUsed.(uint64), transaction.Source, adb)
						}
					}
				} else if transaction.Source != "" && !common.IsProposal006() {
					adb.IncreaseNonce(common.HexToAddress(transaction.Source))
				}
			}
			if common.IsProposal007() {
				if !(types.IsContractTx(transaction.Type) && success) {
					nonce := adb.GetNonce(common.HexToAddress(transaction.Source))
					adb.SetNonce(common.HexToAddress(transaction.Source), nonce+1)
				}
			}
		}
		receipt := types.NewReceipt(nil, !success, 0, block.Header.Height, msg, transaction.Source, "")
		if context["logs"] != nil {
			delete(context, "logs")
		}
		if ca := context["contractAddress"]; ca != nil {
			delete(context, "contractAddress")
			receipt.ContractAddress = ca.(common.Address)
		}
		if gasUsed := context["gasUsed"]; gasUsed != nil && common.IsProposal015() {
			receipt.GasUsed = gasUsed.(uint64)
		}
		receipt.TxHash = transaction.Hash
		receipts = append(receipts, receipt)
		i++
	}
	if situation != "testing" {
		service.RefundManagerImpl.Add(types.GetRefundInfo(context), adb)
		service.RefundManagerImpl.CheckAndMove(block.Header.Height, adb)
	}
	adb.IntermediateRoot(true)
	return receipts, evictedTxs
}

func replicaDeductGasFee(gasUsed uint64, source string, adb *account.AccountDB) {
	fee := new(big.Int).Mul(new(big.Int).SetUint64(gasUsed), big.NewInt(1000000000))
	balance := adb.GetBalance(common.HexToAddress(source))
	if balance.Cmp(fee) < 0 {
		fee = balance
	}
	adb.SubBalance(common.HexToAddress(source), fee)
	adb.AddBalance(common.FeeAccount, fee)
}
