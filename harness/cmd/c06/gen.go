package main

// Sequence generator: a pure function of (seed, config, sequence index).

import (
	"fmt"

	"com.tuntun.rangers/node/src/common"
	"math/big"
	"math/rand"
	"strings"
)

var amountStrings = []string{
	"", "0", "0.000000000000000001", "0.0000000000000000001", "1.0000000000000000009", "0.9999999999999999999",
	"-1", "-0.000000000000000001", "-1000000000", "1e30", "1e-18", "1E2", "1e-19", "1.5", "3", "250.25", ".5", "5.", "+3",
	"115792089237316195423570985008687907853269984665640564039457584007913129639935",
	"340282366920938463463374607431768211456", "1000000000", "999999999.999999999999999999", "1000000000.000000000000000001",
	"Inf", "-Inf", "+Inf", "NaN", "0x10", "0X1p3", "0b11", "1_000", " 1", "1 ", "abc", "1,5", "１", "--1", "1e", "0.0.1", "00012.50",
	"@bal", "@bal+1", "@bal-1", "@all", "@half",
}

var plainValues = []string{"0", "0", "1", "0.5", "2", "17.25", "0.000000000000000001", "123.000000000000000001", "100"}
var hostileValues = []string{"1e2", "Inf", "abc", " 1", "0x10", "1.0000000000000000001", "1e30", "NaN", "@bal", "@bal+1"}
var gasLimits = []string{"", "", "30000000", "30000000", "100000000", "6000000", "2500000", "1000000", "900000000", "12000000"}

func weiStr(tok float64) string {
	f := new(big.Float).SetFloat64(tok)
	f.Mul(f, new(big.Float).SetInt(e18))
	i, _ := f.Int(nil)
	return i.String()
}

type gen struct {
	rng     *rand.Rand
	cfg     string
	created []int // indexes of earlier create txs that deployed a runtime
	plain   bool  // targets restricted to addresses whose code cannot call back
	dustN   int   // dust senders used so far in this sequence
}

// dust returns a pair of steps: fill an (as yet empty) dust sender to an exact
// threshold balance, then let it send one fee-paying transaction of some kind.
// Thresholds sit at and around every amount some code path compares a balance
// with before debiting it: both flat fees (0.0001 before Proposal026, 0.001
// after), fee + gasLimit*gasPrice + value of contract transactions, fee + stake
// of miner transactions, fee + 10 RPG of the operator-node transaction. A debit
// that silently does nothing on insufficient funds while its credit still runs
// shows up as a sum increase of exactly the credited amount.
func (g *gen) dust() []*TxSpec {
	d := fmt.Sprintf("dust:%d", g.dustN%nDust)
	g.dustN++
	fee026 := new(big.Int).Set(feeWei)              // 1e15
	fee := new(big.Int).Quo(feeWei, big.NewInt(10)) // 1e14
	around := func(x *big.Int) []*big.Int {
		return []*big.Int{new(big.Int).Sub(x, big.NewInt(1)), new(big.Int).Set(x), new(big.Int).Add(x, big.NewInt(1))}
	}
	flat := []*big.Int{big.NewInt(0), big.NewInt(1), big.NewInt(5e13), big.NewInt(5e14), big.NewInt(15e14), big.NewInt(2e15), big.NewInt(1e16)}
	flat = append(flat, around(fee)...)
	flat = append(flat, around(fee026)...)
	flat = append(flat, around(new(big.Int).Mul(fee026, big.NewInt(2)))...)
	var s *TxSpec
	var th []*big.Int
	switch g.rng.Intn(10) {
	case 0, 1:
		s = &TxSpec{Kind: "transfer", Src: d, Template: "dust-transfer", Targets: []TA{{To: g.eoa(), Amt: g.pick([]string{"0", "0.000000000000000001", "@bal", "@bal+1", "0.0001", "0.001", "0.0009"})}}}
		th = flat
	case 2, 3, 4, 5:
		gas := g.pick([]string{"2500000", "2500000", "1000000", "30000000", ""})
		gl := uint64(30000000)
		if gas != "" {
			fmt.Sscanf(gas, "%d", &gl)
		}
		val := g.pick([]string{"0", "0.000000000000000001", "0.001", "0.0001", "1"})
		vw, _ := parseTokens(val)
		need := new(big.Int).Mul(new(big.Int).SetUint64(gl), gasPrice)
		need.Add(need, vw)
		via := g.pick([]string{"contract", "contract", "eth"})
		if g.rng.Intn(3) == 0 {
			s = &TxSpec{Kind: "create", Via: via, Src: d, Value: val, GasLimit: gas, Prog: []Action{{Op: g.pick([]string{"stop", "revert", "loop"})}}, Template: "dust-create"}
		} else {
			s = &TxSpec{Kind: "call", Via: via, Src: d, To: g.pick([]string{"eoa:1", "c:Sink", "c:Reverter", "c:Looper", "fee", "fresh:2"}), Value: val, GasLimit: gas, Template: "dust-call"}
		}
		th = append(append([]*big.Int{}, flat...), around(need)...)
		th = append(th, around(new(big.Int).Add(need, fee026))...)
		th = append(th, around(new(big.Int).Add(need, fee))...)
		th = append(th, around(new(big.Int).Sub(need, vw))...)
		// weight the transaction-specific thresholds
		th = append(th, around(need)...)
		th = append(th, around(new(big.Int).Add(need, fee026))...)
	case 6, 7:
		id := 3 + g.rng.Intn(3)
		stake := g.pick64([]uint64{400, 2000, 401})
		ty := byte(common.MinerTypeValidator)
		if stake == 2000 {
			ty = common.MinerTypeProposer
		}
		if g.rng.Intn(2) == 0 {
			s = &TxSpec{Kind: "miner-apply", Src: d, Miner: &MinerSpec{Id: id, Type: ty, Stake: stake}}
		} else {
			s = &TxSpec{Kind: "miner-add", Src: d, Miner: &MinerSpec{Id: g.rng.Intn(3), Stake: stake}}
		}
		sw := new(big.Int).Mul(new(big.Int).SetUint64(stake), e18)
		th = append(append([]*big.Int{}, flat...), around(sw)...)
		th = append(th, around(new(big.Int).Add(sw, fee026))...)
		th = append(th, around(new(big.Int).Add(sw, fee))...)
		th = append(th, around(new(big.Int).Add(sw, fee026))...)
	case 8:
		if g.rng.Intn(2) == 0 {
			s = &TxSpec{Kind: "miner-refund", Src: d, Miner: &MinerSpec{Id: g.rng.Intn(3), Refund: "1"}}
		} else {
			s = &TxSpec{Kind: "miner-change", Src: d, Miner: &MinerSpec{Id: g.rng.Intn(3), Account: "eoa:5"}}
		}
		th = flat
	default:
		s = &TxSpec{Kind: "op-node", Src: d}
		ten := tokens(10)
		th = append(append([]*big.Int{}, flat...), around(ten)...)
		th = append(th, around(new(big.Int).Add(ten, fee026))...)
	}
	t := th[g.rng.Intn(len(th))]
	if t.Sign() <= 0 {
		return []*TxSpec{s}
	}
	fill := &TxSpec{Kind: "transfer", Src: "rich:0", Template: "dust-fill", Targets: []TA{{To: d, Amt: "@fill:" + t.String()}}}
	return []*TxSpec{fill, s}
}

var _ = rand.Int

func (g *gen) pick(xs []string) string { return xs[g.rng.Intn(len(xs))] }

func (g *gen) eoa() string {
	switch g.rng.Intn(4) {
	case 0:
		return fmt.Sprintf("rich:%d", g.rng.Intn(4))
	case 1:
		return fmt.Sprintf("key:%d", g.rng.Intn(3))
	default:
		return fmt.Sprintf("eoa:%d", g.rng.Intn(6))
	}
}

// target: any address a program / transaction may send value to (never one
// whose code self-destructs to itself, never the stake hubs, never the token).
func (g *gen) target(allowSelf bool) string {
	for {
		switch g.rng.Intn(12) {
		case 0, 1:
			return g.eoa()
		case 2:
			return fmt.Sprintf("fresh:%d", g.rng.Intn(6))
		case 3:
			return fmt.Sprintf("pre:%d", 1+g.rng.Intn(9))
		case 4:
			return g.pick([]string{"zero", "fee", "proxy", "g:holder"})
		case 5, 6:
			return g.pick([]string{"c:Sink", "c:Reverter", "c:Invalid", "c:Looper", "c:SDCaller", "c:SDArg"})
		case 7:
			if allowSelf && !g.plain {
				return g.pick([]string{"self", "caller", "origin"})
			}
		case 8:
			if len(g.created) > 0 && !g.plain {
				return fmt.Sprintf("new:%d", g.created[g.rng.Intn(len(g.created))])
			}
		default:
			return g.eoa()
		}
	}
}

func (g *gen) wei() string {
	switch g.rng.Intn(9) {
	case 0:
		return "0"
	case 1:
		return "1"
	case 2:
		return weiStr(1)
	case 3:
		return weiStr(0.5)
	case 4:
		return "123456789123456789"
	case 5:
		return new(big.Int).Lsh(big.NewInt(1), 255).String() // more than anyone has
	case 6:
		return weiStr(1000000) // more than the program has
	default:
		return weiStr(float64(1+g.rng.Intn(40)) / 4)
	}
}

// callAction: one value-moving call, directly or through relays.
func (g *gen) callAction(allowSelf bool) Action {
	op := g.pick([]string{"call", "call", "call", "call", "callcode", "delegatecall", "staticcall"})
	a := Action{Op: op, Value: g.wei()}
	if g.rng.Intn(6) == 0 {
		a.Gas = uint64(g.pick64([]uint64{0, 2300 * 30, 100000, 700000, 3000000}))
	}
	switch g.rng.Intn(3) {
	case 0: // through one or two relays
		relay := g.pick([]string{"c:RelayOK", "c:RelayRevert", "c:RelayOOG", "c:RelayInvalid", "c:RelayCC", "c:RelayDC", "c:RelayDCRevert"})
		a.To = relay
		if g.rng.Intn(3) == 0 {
			a.Args = []string{g.pick([]string{"c:RelayOK", "c:RelayRevert", "c:RelayInvalid"}), g.target(false)}
		} else {
			a.Args = []string{g.target(false)}
		}
		if op != "call" {
			a.Op = "call"
		}
	default:
		a.To = g.target(allowSelf)
		if g.rng.Intn(4) == 0 {
			a.Args = []string{g.target(false)}
		}
	}
	// CALLCODE makes CALLER == ADDRESS inside the callee: code that self-destructs
	// "to the caller" would then legitimately destroy value; keep such code out of
	// the conserving templates (the sd-self templates cover destruction).
	safe := []string{"c:Sink", "c:Reverter", "c:Invalid", "eoa:1", "eoa:2", "fresh:0", "pre:2", "pre:4", "rich:1"}
	if a.Op == "callcode" {
		a.To = g.pick(safe)
	}
	if a.To == "c:RelayCC" {
		a.Args = []string{g.pick(safe)}
	}
	if len(a.Args) > 0 && a.Args[0] == a.To {
		a.Args[0] = "fresh:0"
	}
	return a
}

// sanitize: a deployed runtime that can call itself must not self-destruct to
// its caller (the caller would be itself: a legitimate self-destruct-to-self).
func sanitize(prog []Action) {
	callsSelf := false
	for _, ac := range prog {
		if ac.To == "self" && ac.Op != "selfdestruct" {
			callsSelf = true
		}
	}
	for i := range prog {
		if prog[i].Op == "selfdestruct" && prog[i].To == "caller" && callsSelf {
			prog[i].To = "origin"
		}
		if prog[i].Op == "return" {
			sanitize(prog[i].Runtime)
		}
	}
}

func (g *gen) pick64(xs []uint64) uint64 { return xs[g.rng.Intn(len(xs))] }

func (g *gen) terminal(allowReturn bool) (Action, string) {
	switch g.rng.Intn(8) {
	case 0:
		return Action{Op: "revert"}, "revert"
	case 1:
		return Action{Op: "invalid"}, "invalid"
	case 2:
		return Action{Op: "loop"}, "oog"
	case 3:
		return Action{Op: "selfdestruct", To: g.pick([]string{"caller", "origin", "fresh:1", "fresh:2", "eoa:3", "zero", "c:Sink", "fee"})}, "sd-other"
	case 4, 5:
		if allowReturn {
			rt := []Action{}
			for i := g.rng.Intn(3); i >= 0; i-- {
				rt = append(rt, g.callAction(true))
			}
			// a deployed runtime creates only if it cannot be re-entered through its own
			// calls (self / caller / origin / other deployed code): recursion would make
			// the number of CREATEs, and so the set of child addresses, unbounded
			reentrant := false
			for _, ac := range rt {
				for _, ref := range append([]string{ac.To}, ac.Args...) {
					if ref == "self" || ref == "caller" || ref == "origin" || strings.HasPrefix(ref, "new:") {
						reentrant = true
					}
				}
			}
			if g.rng.Intn(3) == 0 && !reentrant {
				g.plain = true // nor may what it creates call back into it
				rt = append(rt, g.nestedCreate())
				g.plain = false
			}
			t, _ := g.terminal(false)
			rt = append(rt, t)
			return Action{Op: "return", Runtime: rt}, "deploy"
		}
	}
	return Action{Op: "stop"}, "stop"
}

func (g *gen) nestedCreate() Action {
	op := g.pick([]string{"create", "create", "create2"})
	child := []Action{}
	for i := g.rng.Intn(3); i > 0; i-- {
		child = append(child, g.callAction(true))
	}
	t, _ := g.terminal(false)
	child = append(child, t)
	a := Action{Op: op, Value: g.wei(), Init: child, Salt: uint64(g.rng.Intn(3))}
	if g.rng.Intn(3) == 0 {
		a.ThenCall = g.wei()
		// give the child a runtime so that the follow-up call runs code (a contract
		// left with EMPTY code makes AccountDB.Commit fail once its code is looked
		// up: code hash keccak("") is not the account package's empty hash; that
		// defect is outside C06 and only sampled rarely)
		if g.rng.Intn(40) != 0 {
			rt := []Action{g.callAction(true), {Op: "stop"}}
			a.Init[len(a.Init)-1] = Action{Op: "return", Runtime: rt}
		}
	}
	return a
}

func (g *gen) evmSrc() (src, via string) {
	src = g.eoa()
	via = "contract"
	if len(src) > 4 && src[:4] == "key:" && g.rng.Intn(3) != 0 {
		via = "eth"
	}
	return
}

func (g *gen) value() string {
	if g.rng.Intn(8) == 0 {
		return g.pick(hostileValues)
	}
	return g.pick(plainValues)
}

func (g *gen) transfer() *TxSpec {
	s := &TxSpec{Kind: "transfer", Src: g.eoa(), Template: "transfer"}
	n := 1
	if g.rng.Intn(3) == 0 {
		n = 2 + g.rng.Intn(3)
	}
	seen := map[string]bool{}
	for i := 0; i < n; i++ {
		to := g.target(false)
		if g.rng.Intn(10) == 0 {
			to = s.Src
		}
		if g.rng.Intn(25) == 0 {
			to = "tok"
		}
		if seen[to] {
			continue
		}
		seen[to] = true
		amt := g.pick(amountStrings)
		if n > 1 && g.rng.Intn(2) == 0 {
			amt = g.pick(plainValues)
		}
		s.Targets = append(s.Targets, TA{To: to, Amt: amt})
	}
	if n > 1 {
		s.Template = "transfer-multi"
	}
	if g.rng.Intn(60) == 0 {
		s.NoPrefix = true
	}
	return s
}

func (g *gen) prog(idx int) *TxSpec {
	src, via := g.evmSrc()
	s := &TxSpec{Kind: "create", Via: via, Src: src, Value: g.value(), GasLimit: g.pick(gasLimits)}
	n := 1 + g.rng.Intn(4)
	nested := false
	for i := 0; i < n; i++ {
		if g.rng.Intn(5) == 0 {
			s.Prog = append(s.Prog, g.nestedCreate())
			nested = true
			if g.rng.Intn(4) == 0 { // the same CREATE2 twice: address collision
				last := s.Prog[len(s.Prog)-1]
				if last.Op == "create2" {
					s.Prog = append(s.Prog, last)
				}
			}
		} else {
			s.Prog = append(s.Prog, g.callAction(true))
		}
	}
	t, name := g.terminal(true)
	s.Prog = append(s.Prog, t)
	sanitize(s.Prog)
	if nested {
		s.Template = "nested:" + name
	} else {
		s.Template = "prog:" + name
	}
	if name == "deploy" {
		g.created = append(g.created, idx)
	}
	return s
}

func (g *gen) callValue() *TxSpec {
	src, via := g.evmSrc()
	s := &TxSpec{Kind: "call", Via: via, Src: src, To: g.target(false), Value: g.value(), GasLimit: g.pick(gasLimits), Template: "call-value"}
	if len(g.created) > 0 && g.rng.Intn(2) == 0 {
		s.To = fmt.Sprintf("new:%d", g.created[g.rng.Intn(len(g.created))])
		s.Template = "call-new"
	}
	if g.rng.Intn(3) == 0 {
		s.To = g.pick([]string{"c:RelayOK", "c:RelayRevert", "c:RelayOOG", "c:RelayCC", "c:RelayDC"})
		s.Data = []string{g.target(false)}
		if s.To == "c:RelayCC" { // CALLCODE: keep code that self-destructs to its caller out (see callAction)
			s.Data = []string{g.pick([]string{"c:Sink", "c:Reverter", "eoa:2", "fresh:1", "pre:3"})}
		}
		s.Template = "call-relay"
	}
	return s
}

func (g *gen) destroy() *TxSpec {
	src, via := g.evmSrc()
	sd := fmt.Sprintf("c:SDSelf%d", g.rng.Intn(3))
	v := float64(1+g.rng.Intn(20)) / 2
	vw := weiStr(v)
	vt := weiToTokens(bigDec(vw))
	endow := weiToTokens(bigDec(weiStr(v * 3)))
	mk := func(tmpl string, prog []Action, d []DestroySpec) *TxSpec {
		return &TxSpec{Kind: "create", Via: via, Src: src, Value: endow, GasLimit: g.pick([]string{"", "30000000", "100000000"}), Prog: prog, Template: tmpl, Destroy: d}
	}
	switch g.rng.Intn(11) {
	case 0:
		return &TxSpec{Kind: "call", Via: via, Src: src, To: sd, Value: vt, Template: "sd-self:direct", Destroy: []DestroySpec{{sd, []string{vw}}}}
	case 1:
		return mk("sd-self:nested", []Action{{Op: "call", To: sd, Value: vw}, {Op: "stop"}}, []DestroySpec{{sd, []string{vw}}})
	case 2:
		v2 := weiStr(v / 2)
		return mk("sd-self:twice", []Action{{Op: "call", To: sd, Value: vw}, {Op: "call", To: sd, Value: v2}, {Op: "stop"}}, []DestroySpec{{sd, []string{vw, v2}}})
	case 3:
		return mk("sd-self:reverted-frame", []Action{{Op: "call", To: "c:RelayRevert", Value: vw, Args: []string{sd}}, {Op: "stop"}}, nil)
	case 4:
		return mk("sd-self:outer-revert", []Action{{Op: "call", To: sd, Value: vw}, {Op: "revert"}}, nil)
	case 5:
		return mk("sd-self:oog", []Action{{Op: "call", To: sd, Value: vw}, {Op: "loop"}}, nil)
	case 6:
		return mk("sd-self:initcode", []Action{{Op: "selfdestruct", To: "self"}}, []DestroySpec{{"created", []string{bigDec(weiStr(v * 3)).String()}}})
	case 7:
		return &TxSpec{Kind: "call", Via: via, Src: src, To: "c:SDArgD", Value: vt, Data: []string{"c:SDArgD"}, Template: "sd-self:arg", Destroy: []DestroySpec{{"c:SDArgD", []string{vw}}}}
	case 8:
		return mk("sd-self:delegate", []Action{{Op: "delegatecall", To: "c:SDSelf0"}, {Op: "stop"}}, []DestroySpec{{"created", []string{bigDec(weiStr(v * 3)).String()}}})
	case 9:
		return &TxSpec{Kind: "call", Via: via, Src: src, To: "c:RelayCCD", Value: vt, Data: []string{"c:SDSelf0"}, Template: "sd-self:callcode-relay", Destroy: []DestroySpec{{"c:RelayCCD", []string{vw}}}}
	default:
		return mk("sd-self:nested-create", []Action{{Op: "create", Value: vw, Init: []Action{{Op: "selfdestruct", To: "self"}}}, {Op: "stop"}}, []DestroySpec{{"child0", []string{vw}}})
	}
}

func (g *gen) miner() *TxSpec {
	id := g.rng.Intn(6)
	if g.rng.Intn(3) == 0 {
		id = g.rng.Intn(3) // the fixture miners
	}
	switch g.rng.Intn(7) {
	case 0, 1:
		ms := &MinerSpec{Id: id, Type: byte(g.rng.Intn(2)), Stake: g.pick64([]uint64{0, 399, 400, 401, 1999, 2000, 2500, 5000, 1000000000000, 999999000})}
		if g.rng.Intn(12) == 0 {
			ms.Type = 2
		}
		if g.rng.Intn(12) == 0 {
			ms.EmptyKeys = true
		}
		if g.rng.Intn(2) == 0 {
			ms.Account = g.pick([]string{"eoa:4", "eoa:5", "fresh:4", "rich:3", "c:StakeHub", "c:Sink", "key:2"})
		}
		return &TxSpec{Kind: "miner-apply", Src: g.pick([]string{"rich:2", "rich:3", "eoa:4", "eoa:5", "key:2"}), Miner: ms}
	case 2, 3:
		return &TxSpec{Kind: "miner-add", Src: g.pick([]string{"rich:2", "rich:3", "eoa:4", "eoa:0"}), Miner: &MinerSpec{Id: id, Stake: g.pick64([]uint64{0, 1, 50, 400, 3000, 1000000000000})}}
	case 4, 5:
		if g.rng.Intn(2) == 0 { // the fixture miner owned by rich:3 (stake 800)
			return &TxSpec{Kind: "miner-refund", Src: "rich:3", Miner: &MinerSpec{Id: 2, Refund: g.pick([]string{"1", "100", "399", "400", "401", "800", "18446744073709551615"})}}
		}
		return &TxSpec{Kind: "miner-refund", Src: g.pick([]string{"rich:3", "rich:3", "rich:2", "eoa:4", "eoa:5", "key:2"}),
			Miner: &MinerSpec{Id: id, Refund: g.pick([]string{"1", "100", "400", "401", "800", "2000", "5000", "18446744073709551615", "0", "-1", "1.5", ""})}}
	default:
		return &TxSpec{Kind: "miner-change", Src: g.pick([]string{"rich:3", "rich:2", "eoa:4"}), Miner: &MinerSpec{Id: id, Account: g.pick([]string{"eoa:5", "fresh:5", "rich:3", "c:Sink"})}}
	}
}

// sequence returns the specs of sequence idx and whether it is a "special"
// sequence (flagged sub-classes; executed transaction by transaction only).
func sequence(rng *rand.Rand, cfg string, idx int) (specs []*TxSpec, special bool, blockToo bool) {
	g := &gen{rng: rng, cfg: cfg}
	var out []*TxSpec
	if idx%5 == 4 {
		switch (idx / 5) % 3 {
		case 0:
			return g.stakeSeq(), true, false
		case 1:
			return g.tokenSeq(), true, false
		default:
			return g.negSeq(), true, false
		}
	}
	if idx%10 == 2 {
		return g.staleGasSeq(), true, true
	}
	if idx%10 == 7 {
		return g.authSeq(), true, true
	}
	n := 1 + rng.Intn(20)
	escrow := false
	for i := 0; i < n; i++ {
		var s *TxSpec
		if rng.Intn(7) == 0 {
			out = append(out, g.dust()...)
			continue
		}
		switch k := rng.Intn(100); {
		case k < 24:
			s = g.transfer()
		case k < 34:
			s = g.callValue()
		case k < 64:
			s = g.prog(len(out))
		case k < 78:
			s = g.destroy()
		case k < 92:
			s = g.miner()
			if s.Kind == "miner-refund" {
				escrow = true
			}
		case k < 93:
			s = &TxSpec{Kind: "op-node", Src: g.pick([]string{"rich:3", "eoa:1"})}
		case k < 97 && cfg == "genesis":
			s = &TxSpec{Kind: "reward"}
			escrow = true
		default:
			if !escrow {
				s = g.transfer()
			} else {
				s = &TxSpec{Kind: "mature"}
			}
		}
		out = append(out, s)
	}
	if escrow {
		out = append(out, &TxSpec{Kind: "mature"}, &TxSpec{Kind: "mature"})
	}
	return out, false, false
}

// staleGasSeq: blocks of several contract / wrapped-ETH transactions of
// different senders in which gas-heavy ones (successful, reverting, looping)
// are mixed with ones that fail at each early exit of the contract executor
// (gas limit below the intrinsic gas, insufficient funds for gasLimit*price +
// value, undecodable data, wrong ETH nonce) sent by dust senders whose balance
// is around what an earlier transaction of the block paid for gas. The block
// executor keeps per-block context (gas used, logs, contract address) between
// transactions, so a transaction that fails before its own gas accounting can
// be charged with a predecessor's. Filled in an earlier block, judged by the
// block identity (and transaction by transaction in the first pass).
func (g *gen) staleGasSeq() []*TxSpec {
	var out []*TxSpec
	nBlocks := 1 + g.rng.Intn(2)
	dustUsed := 0
	for b := 0; b < nBlocks; b++ {
		var fills []TA
		var blk []*TxSpec
		heavyGas := []uint64{}
		nHeavy := 2 + g.rng.Intn(3)
		senders := []string{"rich:0", "rich:1", "rich:2", "rich:3", "eoa:0", "eoa:1", "eoa:2", "eoa:3", "eoa:4", "eoa:5", "key:0", "key:1", "key:2"}
		g.rng.Shuffle(len(senders), func(i, j int) { senders[i], senders[j] = senders[j], senders[i] })
		for i := 0; i < nHeavy; i++ {
			src := senders[i]
			via := "contract"
			if strings.HasPrefix(src, "key:") && g.rng.Intn(2) == 0 {
				via = "eth"
			}
			gl := g.pick64([]uint64{2500000, 6000000, 12000000, 30000000})
			heavyGas = append(heavyGas, gl)
			var s *TxSpec
			switch g.rng.Intn(4) {
			case 0: // burns all its gas and fails
				s = &TxSpec{Kind: "call", Via: via, Src: src, To: "c:Looper", Value: "0", GasLimit: fmt.Sprint(gl)}
			case 1: // burns all its gas inside a relay, succeeds
				s = &TxSpec{Kind: "call", Via: via, Src: src, To: "c:RelayOK", Value: g.pick([]string{"0", "0.5"}), GasLimit: fmt.Sprint(gl), Data: []string{"c:Looper"}}
			case 2:
				s = &TxSpec{Kind: "create", Via: via, Src: src, Value: "1", GasLimit: fmt.Sprint(gl), Prog: []Action{{Op: "call", To: "eoa:3", Value: weiStr(0.5)}, {Op: g.pick([]string{"stop", "revert", "loop"})}}}
			default:
				s = &TxSpec{Kind: "call", Via: via, Src: src, To: g.pick([]string{"eoa:2", "c:Sink", "c:Reverter"}), Value: "0.25", GasLimit: fmt.Sprint(gl)}
			}
			s.Template = "stale-gas:heavy"
			blk = append(blk, s)
		}
		nFail := 2 + g.rng.Intn(4)
		for i := 0; i < nFail && dustUsed < nDust; i++ {
			d := fmt.Sprintf("dust:%d", dustUsed)
			dustUsed++
			via := g.pick([]string{"contract", "contract", "eth"})
			val := g.pick([]string{"0", "0", "0.000000000000000001", "0.0001"})
			vw, _ := parseTokens(val)
			s := &TxSpec{Kind: "call", Via: via, Src: d, To: g.pick([]string{"eoa:1", "c:Sink", "fresh:2"}), Value: val, Template: "stale-gas:early-fail"}
			if g.rng.Intn(4) == 0 {
				s.Kind, s.To, s.Prog = "create", "", []Action{{Op: "stop"}}
			}
			// what the sender must hold to pass BeforeExecute with gas limit gl
			need := func(gl uint64) *big.Int {
				n := new(big.Int).Mul(new(big.Int).SetUint64(gl), gasPrice)
				return n.Add(n, vw).Add(n, feeWei)
			}
			var bal *big.Int
			switch g.rng.Intn(8) {
			case 0, 1, 2, 3: // gas limit below the intrinsic gas: fails inside Execute before any gas accounting
				gl := g.pick64([]uint64{1, 1000, 100000, 600000})
				s.GasLimit = fmt.Sprint(gl)
				bal = need(gl)
			case 4: // cannot afford gasLimit*price + value: rejected by BeforeExecute after the flat fee
				s.GasLimit = "30000000"
				bal = new(big.Int).Sub(need(30000000), big.NewInt(1+int64(g.rng.Intn(2))*1e15))
			case 5: // undecodable contract data (only the native tx type can carry it)
				s.Via, s.GasLimit = "contract", "abc"
				bal = need(100000)
			case 6:
				s.Via, s.Value, s.GasLimit = "contract", "abc", "100000"
				bal = need(100000)
			default: // runs normally on a small gas limit
				s.GasLimit = "2500000"
				bal = need(2500000)
			}
			// on top of the bare minimum: nothing, a wei, or something around the gas bill of a heavy tx
			switch g.rng.Intn(5) {
			case 0:
			case 1:
				bal.Add(bal, big.NewInt(1))
			case 2:
				bal.Add(bal, big.NewInt(1e13))
			default:
				h := new(big.Int).Mul(new(big.Int).SetUint64(heavyGas[g.rng.Intn(len(heavyGas))]), gasPrice)
				h.Add(h, big.NewInt(int64(g.rng.Intn(3))-1))
				if g.rng.Intn(2) == 0 {
					h.Rsh(h, 1)
				}
				bal.Add(bal, h)
			}
			fills = append(fills, TA{To: d, Amt: "@fill:" + bal.String()})
			blk = append(blk, s)
		}
		g.rng.Shuffle(len(blk), func(i, j int) { blk[i], blk[j] = blk[j], blk[i] })
		if len(blk) > 11 {
			blk = blk[:11]
		}
		out = append(out, &TxSpec{Kind: "transfer", Src: "rich:0", Template: "dust-fill", Targets: fills}, &TxSpec{Kind: "barrier"})
		out = append(out, blk...)
		out = append(out, &TxSpec{Kind: "barrier"})
	}
	return out
}

// authSeq: an invoker contract (the init code of a creation transaction) does
// AUTH with a valid signature of an authority and AUTHCALLs value to a target.
// AUTHCALL value is paid by the SPONSOR (the transaction origin), the call is
// made in the authority's name. Balances of sponsor / invoker / authority are
// set rich or poor relative to the value, with the value at, just below and
// just above what the sponsor holds at that moment (its balance minus flat fee
// and endowment; the gas is only charged at the end).
func (g *gen) authSeq() []*TxSpec {
	var out []*TxSpec
	n := 1 + g.rng.Intn(4)
	for i := 0; i < n && i < nDust; i++ {
		au := fmt.Sprintf("auth:%d", g.rng.Intn(4))
		gl := g.pick64([]uint64{6000000, 12000000, 30000000})
		gasBill := new(big.Int).Mul(new(big.Int).SetUint64(gl), gasPrice)
		x := g.pick64([]uint64{0, 1, 1000, 1e15, 1e18})
		endow := []*big.Int{big.NewInt(0), big.NewInt(1), tokens(1), tokens(3)}[g.rng.Intn(4)]
		atCall := new(big.Int).Add(gasBill, new(big.Int).SetUint64(x)) // what the sponsor holds when AUTHCALL runs
		var v *big.Int
		switch g.rng.Intn(8) {
		case 0:
			v = new(big.Int).Sub(atCall, big.NewInt(1))
		case 1, 2:
			v = new(big.Int).Set(atCall) // drains the sponsor completely before the gas is charged
		case 3, 4:
			v = new(big.Int).Add(atCall, big.NewInt(1)) // one wei more than the sponsor has
		case 5:
			v = new(big.Int).Add(atCall, tokens(1))
		case 6:
			v = new(big.Int).Rsh(atCall, 1)
		default:
			v = big.NewInt(int64(g.rng.Intn(3)))
		}
		sponsor := fmt.Sprintf("dust:%d", i)
		fills := []TA{}
		if g.rng.Intn(5) == 0 {
			sponsor = g.pick([]string{"rich:1", "eoa:2", "key:1"}) // rich sponsor
		} else {
			s := new(big.Int).Add(atCall, endow)
			s.Add(s, feeWei)
			fills = append(fills, TA{To: sponsor, Amt: "@fill:" + s.String()})
		}
		// authority: empty, just below / at / above the value, or rich
		switch g.rng.Intn(5) {
		case 0:
		case 1:
			if v.Sign() > 0 {
				fills = append(fills, TA{To: au, Amt: "@fill:" + new(big.Int).Sub(v, big.NewInt(1)).String()})
			}
		case 2:
			fills = append(fills, TA{To: au, Amt: "@fill:" + v.String()})
		default:
			fills = append(fills, TA{To: au, Amt: "@fill:" + new(big.Int).Add(v, tokens(5)).String()})
		}
		via := "contract"
		if g.rng.Intn(3) == 0 {
			via = "eth"
		}
		ac := Action{Op: "authcall", Auth: au, To: g.pick([]string{"eoa:1", "fresh:3", "c:Sink", "c:Reverter", "fee", "self", "origin"}), Value: v.String()}
		switch g.rng.Intn(10) {
		case 0:
			ac.BadSig = true
		case 1:
			ac.NonceOff = 1
		}
		prog := []Action{ac}
		if g.rng.Intn(4) == 0 { // a second AUTHCALL in the same program (authority nonce + 1)
			prog = append(prog, Action{Op: "authcall", Auth: au, To: "eoa:4", Value: g.pick([]string{"1", "0", v.String()})})
		}
		prog = append(prog, Action{Op: g.pick([]string{"stop", "stop", "stop", "revert", "loop"})})
		if len(fills) > 0 {
			out = append(out, &TxSpec{Kind: "transfer", Src: "rich:0", Template: "dust-fill", Targets: fills}, &TxSpec{Kind: "barrier"})
		}
		out = append(out, &TxSpec{Kind: "create", Via: via, Src: sponsor, Value: weiToTokens(endow), GasLimit: fmt.Sprint(gl), Prog: prog, Template: "authcall"})
		if g.rng.Intn(2) == 0 { // another contract tx of somebody else in the same block
			out = append(out, &TxSpec{Kind: "call", Src: g.pick([]string{"eoa:0", "rich:3"}), To: "c:Sink", Value: "0.5", GasLimit: "2500000", Template: "call-value"})
		}
		out = append(out, &TxSpec{Kind: "barrier"})
	}
	return out
}

func (g *gen) stakeSeq() []*TxSpec {
	var out []*TxSpec
	hub := g.pick([]string{"c:StakeHub", "c:StakeHub", "c:StakeHub2"})
	call := func(tmpl, opc string, amt *big.Int) *TxSpec {
		s := &TxSpec{Kind: "call", Src: g.eoa(), To: hub, Value: "0", GasLimit: "100000000", Template: tmpl, Class: "evm-stake", Data: []string{opc}}
		if amt != nil {
			s.Data = append(s.Data, "w:"+amt.String())
		}
		return s
	}
	amounts := []*big.Int{tokens(1), tokens(5), tokens(100), bigDec(weiStr(1.5)), bigDec(weiStr(0.5)), big.NewInt(1), new(big.Int).Lsh(big.NewInt(1), 200),
		new(big.Int).Lsh(big.NewInt(1), 255), tokens(1000), tokens(1001), tokens(600), tokens(4000), tokens(10000), tokens(10001), tokens(5000), tokens(5001), new(big.Int).Add(tokens(2), big.NewInt(1))}
	n := 2 + g.rng.Intn(6)
	for i := 0; i < n; i++ {
		switch g.rng.Intn(7) {
		case 0, 1:
			out = append(out, call("stake", "c:StakeOp", amounts[g.rng.Intn(len(amounts))]))
		case 2, 3, 4:
			out = append(out, call("unstake", "c:UnstakeOp", amounts[g.rng.Intn(len(amounts))]))
		case 5:
			out = append(out, call("unstakeall", "c:UnstakeAllOp", nil))
		default:
			out = append(out, &TxSpec{Kind: "mature"})
		}
	}
	out = append(out, &TxSpec{Kind: "mature"}, &TxSpec{Kind: "mature"})
	return out
}

func (g *gen) tokenSeq() []*TxSpec {
	var out []*TxSpec
	n := 1 + g.rng.Intn(5)
	word32 := func(b []byte) string { return fmt.Sprintf("%064x", b) }
	for i := 0; i < n; i++ {
		src, via := g.evmSrc()
		v := weiToTokens(bigDec(weiStr(float64(1+g.rng.Intn(9)) / 2)))
		switch g.rng.Intn(4) {
		case 0:
			out = append(out, &TxSpec{Kind: "call", Via: via, Src: src, To: "tok", Value: v, RawData: "0xd0e30db0", Template: "token-deposit", Class: "token"})
		case 1:
			out = append(out, &TxSpec{Kind: "call", Via: via, Src: src, To: "tok", Value: v, Template: "token-fallback", Class: "token"})
		case 2:
			out = append(out, &TxSpec{Kind: "call", Via: via, Src: src, To: "tok", Value: "0", RawData: "0x2e1a7d4d" + word32(bigDec(weiStr(1)).Bytes()), Template: "token-withdraw", Class: "token"})
		default:
			out = append(out, &TxSpec{Kind: "call", Via: via, Src: src, To: "tok", Value: "0", RawData: "0xa9059cbb", Data: []string{g.eoa(), "w:" + weiStr(2)}, Template: "token-transfer", Class: "token"})
		}
	}
	return out
}

func (g *gen) negSeq() []*TxSpec {
	var out []*TxSpec
	n := 1 + g.rng.Intn(4)
	for i := 0; i < n; i++ {
		v := g.pick([]string{"-1", "-0.000000000000000001", "-1000", "-1000000000", "-0.5", "-1e3"})
		if g.rng.Intn(3) == 0 {
			out = append(out, &TxSpec{Kind: "create", Src: g.eoa(), Value: v, Prog: []Action{{Op: "stop"}}, Template: "neg-transfer-value", Class: "neg-value"})
		} else {
			out = append(out, &TxSpec{Kind: "call", Src: g.eoa(), To: g.pick([]string{"eoa:1", "fresh:3", "c:Sink", "fee", "rich:0"}), Value: v, Template: "neg-transfer-value", Class: "neg-value"})
		}
	}
	return out
}
