package main

// The conservation monitor: closed universe of addresses, per-block
// observation of balances / registered stake / escrow, first-principles
// expectations per transaction kind, closure proof over the balance trie.

import (
	"crypto/ecdsa"
	"encoding/hex"
	"encoding/json"
	"fmt"
	"math/big"
	"os"
	"sort"
	"strings"
	"time"

	"golang.org/x/crypto/sha3"

	"com.tuntun.rangers/node/src/common"
	crypto "com.tuntun.rangers/node/src/eth_crypto"
	"com.tuntun.rangers/node/src/eth_tx"
	"com.tuntun.rangers/node/src/middleware/types"
	"com.tuntun.rangers/node/src/service"
	"com.tuntun.rangers/node/src/storage/account"
	"com.tuntun.rangers/node/src/storage/rlp"
	"com.tuntun.rangers/node/src/vm"

	"verifharness/env"
	"verifharness/mon"
)

var debugOn = os.Getenv("VERIF_C06_DEBUG") != ""

var (
	e18       = new(big.Int).Exp(big.NewInt(10), big.NewInt(18), nil)
	feeWei    = new(big.Int).Exp(big.NewInt(10), big.NewInt(15), nil) // 0.001 (Proposal026)
	gasPrice  = big.NewInt(1000000000)
	refundLag = uint64(36000)
)

// TA is one target of an operator transfer. Amt is a literal amount string or
// symbolic: "@bal" (everything left after the fee), "@bal+1", "@bal-1" (one wei
// more / less), "@all" (balance before the fee), "@half".
type TA struct {
	To  string `json:"to"`
	Amt string `json:"amt"`
}

type DestroySpec struct {
	Contract string   `json:"contract"` // ref, or "created" = the contract this tx creates
	Values   []string `json:"values"`   // wei sent to it by each self-destructing call
}

type MinerSpec struct {
	Id        int    `json:"id"` // index into the miner id pool
	Type      byte   `json:"type"`
	Stake     uint64 `json:"stake"`
	Account   string `json:"account,omitempty"` // ref; "" = source
	EmptyKeys bool   `json:"empty_keys,omitempty"`
	Refund    string `json:"refund,omitempty"` // amount string of a refund tx
}

// TxSpec is one step of a sequence.
type TxSpec struct {
	Kind     string        `json:"kind"` // transfer create call miner-apply miner-add miner-refund miner-change op-node mature reward
	Via      string        `json:"via,omitempty"`
	Src      string        `json:"src,omitempty"`
	Targets  []TA          `json:"targets,omitempty"`
	To       string        `json:"to,omitempty"`
	Value    string        `json:"value,omitempty"` // token string of ContractData.TransferValue (may be hostile)
	GasLimit string        `json:"gas_limit,omitempty"`
	Prog     []Action      `json:"prog,omitempty"`
	Data     []string      `json:"data,omitempty"` // payload words of a call
	RawData  string        `json:"raw_data,omitempty"`
	Template string        `json:"template,omitempty"`
	Class    string        `json:"class,omitempty"` // "", "evm-stake", "token", "neg-value"
	Destroy  []DestroySpec `json:"destroy,omitempty"`
	Miner    *MinerSpec    `json:"miner,omitempty"`
	NoPrefix bool          `json:"no_prefix,omitempty"` // source written without 0x
}

type Witness struct {
	Config string    `json:"config"`
	Seq    int       `json:"seq"`
	Block  bool      `json:"block_mode"`
	At     int       `json:"at"`
	Specs  []*TxSpec `json:"specs"`
	Note   string    `json:"note,omitempty"`
}

type execFunc func(adb *account.AccountDB, block *types.Block, situation string) (receipts []*types.Receipt, evicted []common.Hash)

type monitor struct {
	r   *mon.Run
	cfg string

	adb    *account.AccountDB
	height uint64
	exec   execFunc

	uni      map[common.Address]string
	uniOrder []common.Address

	named         map[string]common.Address // fixed refs
	contracts     map[string]common.Address // fixture contracts by name
	newAddrs      map[int]common.Address    // contract created by tx k of the current sequence
	keys          []*ecdsa.PrivateKey
	minerIDs      [][]byte
	genesisMiners [][]byte
	groupID       []byte
	castor        []byte

	tokenAddr   common.Address
	tokenPos    uint64
	baseline    map[string]string // slot key -> value (hex) at the fixture root
	fixtureRoot common.Hash

	total *big.Int // tracked total over the universe
	ceil  *big.Int // upper bound for any single balance

	pending map[uint64]bool // heights with escrow seen

	// hook counters of the current block
	sdOps, callOps, createOps, stakeOps, frames, failedFrames int64

	wit     *Witness
	nontriv int64
	aborted bool
}

// ---------------------------------------------------------------------------
// helpers

func keccak(b ...[]byte) []byte {
	h := sha3.NewLegacyKeccak256()
	for _, x := range b {
		h.Write(x)
	}
	return h.Sum(nil)
}

func balanceKey(a common.Address, pos uint64) string {
	var d [64]byte
	copy(d[12:], a.Bytes())
	pb := new(big.Int).SetUint64(pos).Bytes()
	copy(d[64-len(pb):], pb)
	return string(keccak(d[:]))
}

func refundAddr(h uint64) common.Address {
	return common.BytesToAddress(common.Sha256([]byte(fmt.Sprintf("refund%d", h))))
}

func weiToTokens(w *big.Int) string {
	neg := ""
	v := new(big.Int).Set(w)
	if v.Sign() < 0 {
		neg = "-"
		v.Neg(v)
	}
	q, m := new(big.Int).QuoRem(v, e18, new(big.Int))
	if m.Sign() == 0 {
		return neg + q.String()
	}
	return fmt.Sprintf("%s%s.%018s", neg, q.String(), m.String())
}

func tokens(n int64) *big.Int { return new(big.Int).Mul(big.NewInt(n), e18) }

func hexAddr(a common.Address) string { return "0x" + hex.EncodeToString(a.Bytes()) }

func (m *monitor) addUni(a common.Address, label string) {
	if _, ok := m.uni[a]; ok {
		return
	}
	m.uni[a] = label
	m.uniOrder = append(m.uniOrder, a)
	if m.adb != nil && m.total != nil {
		b := m.adb.GetBalance(a)
		m.total.Add(m.total, b)
		m.ceil.Add(m.ceil, b)
	}
}

func (m *monitor) resolve(ref string) common.Address {
	if a, ok := m.named[ref]; ok {
		return a
	}
	switch {
	case strings.HasPrefix(ref, "c:"):
		if a, ok := m.contracts[ref[2:]]; ok {
			return a
		}
	case strings.HasPrefix(ref, "new:"):
		var k int
		fmt.Sscanf(ref[4:], "%d", &k)
		if a, ok := m.newAddrs[k]; ok {
			return a
		}
		return m.named["fresh:0"] // the creating tx was never built: any universe address will do
	case strings.HasPrefix(ref, "hex:"):
		return common.HexToAddress(ref[4:])
	}
	panic("unresolved ref " + ref)
}

func (m *monitor) fail(sig, what string) {
	w := *m.wit
	m.r.Violation(sig, what, w)
}

// ---------------------------------------------------------------------------
// observation

type obs struct {
	bal      map[common.Address]*big.Int
	total    *big.Int
	stake    *big.Int // registered stake of all known miners, wei
	stakeBy  map[string]uint64
	escrow   *big.Int
	escrowAt map[uint64]*big.Int
}

func (m *monitor) observe(heights []uint64) *obs {
	o := &obs{bal: map[common.Address]*big.Int{}, total: new(big.Int), stake: new(big.Int), stakeBy: map[string]uint64{},
		escrow: new(big.Int), escrowAt: map[uint64]*big.Int{}}
	for _, a := range m.uniOrder {
		b := m.adb.GetBalance(a)
		o.bal[a] = b
		o.total.Add(o.total, b)
	}
	ids := append(append([][]byte{}, m.minerIDs...), m.genesisMiners...)
	for _, id := range ids {
		var st uint64
		if mi := service.MinerManagerImpl.GetMiner(id, m.adb); mi != nil {
			st = mi.Stake
		}
		o.stakeBy[hex.EncodeToString(id)] = st
		o.stake.Add(o.stake, new(big.Int).Mul(new(big.Int).SetUint64(st), e18))
	}
	for _, h := range heights {
		t := new(big.Int)
		// read the escrow account's storage trie directly: GetAllRefund would create
		// (and cache) the account object, which is a write the node itself does not do here
		if it := m.adb.DataIterator(refundAddr(h), nil); it != nil {
			for it.Next() {
				v := new(big.Int).SetBytes(it.Value)
				if v.Sign() == 0 {
					continue
				}
				t.Add(t, v)
				a := common.BytesToAddress(it.Key)
				if _, ok := m.uni[a]; !ok {
					// an escrow recipient outside the universe would be paid unobserved
					m.addUni(a, "escrow-recipient")
				}
			}
		}
		o.escrowAt[h] = t
		o.escrow.Add(o.escrow, t)
	}
	m.r.Count("sums_checked", 1)
	return o
}

func (m *monitor) installHooks() {
	vm.VerifStepHook = func(depth int, pc uint64, op byte, gas uint64, stackLen int, memLen int, readOnly bool) {
		switch op {
		case opSELFDESTRUCT:
			m.sdOps++
		case opCALL, opCALLCODE, opDELEGATECALL, opSTATICCALL:
			m.callOps++
		case opCREATE, opCREATE2:
			m.createOps++
		case opSTAKE, opUNSTAKE, opUNSTAKEALL:
			m.stakeOps++
		}
	}
	vm.VerifFrameHook = func(enter bool, depth int, gas uint64, memLen int, err error) {
		if enter {
			m.frames++
		} else if err != nil {
			m.failedFrames++
		}
	}
}

// ---------------------------------------------------------------------------
// building transactions

type built struct {
	spec    *TxSpec
	tx      *types.Transaction
	created common.Address // predicted address of the contract a creation tx creates
	hasNew  bool
	value   *big.Int // intended transfer value in wei (0 if unparsable)
}

func (m *monitor) srcString(s *TxSpec) string {
	a := hexAddr(m.resolve(s.Src))
	if s.NoPrefix {
		return a[2:]
	}
	return a
}

func (m *monitor) resolveAmt(src common.Address, amt string) string {
	if !strings.HasPrefix(amt, "@") {
		return amt
	}
	bal := m.adb.GetBalance(src)
	left := new(big.Int).Sub(bal, feeWei)
	if left.Sign() < 0 {
		left.SetInt64(0)
	}
	switch amt {
	case "@bal":
		return weiToTokens(left)
	case "@bal+1":
		return weiToTokens(new(big.Int).Add(left, big.NewInt(1)))
	case "@bal-1":
		if left.Sign() > 0 {
			return weiToTokens(new(big.Int).Sub(left, big.NewInt(1)))
		}
		return "0"
	case "@all":
		return weiToTokens(bal)
	case "@half":
		return weiToTokens(new(big.Int).Rsh(left, 1))
	}
	return "0"
}

// build turns a spec into a transaction, extending the universe with every
// address the transaction can name or create. nonceAhead is the number of
// earlier transactions of the same source in the same block.
func (m *monitor) build(idx int, s *TxSpec, nonceAhead map[common.Address]uint64) *built {
	b := &built{spec: s, value: new(big.Int)}
	tag := fmt.Sprintf("c06-%s-%d-%d", m.cfg, m.wit.Seq, idx)
	if s.Kind == "mature" || s.Kind == "reward" || s.Kind == "barrier" {
		return b
	}
	src := m.resolve(s.Src)
	m.addUni(src, s.Src)
	nonce := m.adb.GetNonce(src) + nonceAhead[src]
	switch s.Kind {
	case "transfer":
		targets := map[string]string{}
		for _, t := range s.Targets {
			ta := m.resolve(t.To)
			m.addUni(ta, t.To)
			if strings.HasPrefix(t.Amt, "@fill:") {
				// raise the target's balance to exactly the given number of wei
				want, cur := bigDec(t.Amt[6:]), m.adb.GetBalance(ta)
				amt := "0"
				if cur.Cmp(want) < 0 {
					amt = weiToTokens(new(big.Int).Sub(want, cur))
				}
				targets[hexAddr(ta)] = amt
				continue
			}
			targets[hexAddr(ta)] = m.resolveAmt(src, t.Amt)
		}
		b.tx = env.TransferTx(m.srcString(s), targets, nonce, tag)
	case "create", "call":
		refs := map[string]bool{}
		refsOf(s.Prog, refs)
		for _, w := range s.Data {
			if !strings.HasPrefix(w, "w:") {
				refs[w] = true
			}
		}
		for ref := range refs {
			m.addUni(m.resolve(ref), ref)
		}
		var input []byte
		target := ""
		if s.Kind == "create" {
			b.created = crypto.CreateAddress(src, nonce)
			b.hasNew = true
			m.newAddrs[idx] = b.created
			m.addUni(b.created, fmt.Sprintf("new:%d", idx))
			// the nonce the executor sees may differ by one when earlier txs of the block were evicted
			m.addUni(crypto.CreateAddress(src, nonce+1), "new-alt")
			if nonce > 0 {
				m.addUni(crypto.CreateAddress(src, nonce-1), "new-alt")
			}
			authEnv.invoker, authEnv.chainID, authEnv.used = b.created, common.GetChainId(m.height), map[common.Address]uint64{}
			authEnv.nonceOf = m.adb.GetNonce
			authEnv.sign = func(au common.Address, digest []byte) []byte {
				sig, err := crypto.Sign(digest, m.keyOf(au))
				if err != nil {
					panic(err)
				}
				return sig
			}
			input = compile(s.Prog, m.resolve)
			m.predict(s.Prog, b.created, 1, 0, 0)
		} else {
			ta := m.resolve(s.To)
			m.addUni(ta, s.To)
			target = hexAddr(ta)
			if s.RawData != "" {
				input = common.FromHex(s.RawData)
			}
			for _, w := range s.Data {
				input = append(input, word(w, m.resolve)...)
			}
			// code deployed earlier in the sequence can create as well, in its own
			// context or (through a delegating relay) in the relay's
			call := Action{Op: "call", To: s.To, Args: s.Data}
			m.predict([]Action{call}, src, nonce, 0, 0)
		}
		val := m.resolveAmt(src, s.Value)
		if v, ok := parseTokens(val); ok {
			b.value = v
		}
		if s.Via == "eth" && m.hasKey(src) {
			key := m.keyOf(src)
			gas := uint64(30000000)
			if s.GasLimit != "" {
				fmt.Sscanf(s.GasLimit, "%d", &gas)
			}
			v := new(big.Int).Set(b.value)
			if v.Sign() < 0 {
				v.SetInt64(0)
			}
			var raw *eth_tx.Transaction
			if s.Kind == "create" {
				raw = eth_tx.NewContractCreation(nonce, v, gas, gasPrice, input)
			} else {
				raw = eth_tx.NewTransaction(nonce, m.resolve(s.To), v, gas, gasPrice, input)
			}
			signer := eth_tx.NewEIP155Signer(common.GetChainId(m.height))
			signed, err := eth_tx.SignTx(raw, signer, key)
			if err != nil {
				panic(err)
			}
			enc, err := rlp.EncodeToBytes(signed)
			if err != nil {
				panic(err)
			}
			b.tx = eth_tx.ConvertTx(signed, src, enc)
		} else {
			cd := types.ContractData{GasLimit: s.GasLimit, TransferValue: val, AbiData: "0x" + hex.EncodeToString(input)}
			if len(input) == 0 {
				cd.AbiData = ""
			}
			js, _ := json.Marshal(cd)
			b.tx = &types.Transaction{Source: m.srcString(s), Target: target, Type: types.TransactionTypeContract, Data: string(js),
				Time: tag, Nonce: nonce, ChainId: common.ChainId(m.height)}
			b.tx.Hash = b.tx.GenHash()
		}
	case "miner-apply", "miner-add", "miner-change":
		ms := s.Miner
		mi := types.Miner{Id: m.minerIDs[ms.Id], Type: ms.Type, Stake: ms.Stake}
		if !ms.EmptyKeys {
			mi.PublicKey = []byte{1, 2, 3, byte(ms.Id)}
			mi.VrfPublicKey = []byte{4, 5, 6, byte(ms.Id)}
		}
		if ms.Account != "" {
			a := m.resolve(ms.Account)
			m.addUni(a, ms.Account)
			mi.Account = a.Bytes()
		}
		js, _ := json.Marshal(mi)
		ty := map[string]int32{"miner-apply": types.TransactionTypeMinerApply, "miner-add": types.TransactionTypeMinerAdd, "miner-change": types.TransactionTypeMinerChangeAccount}[s.Kind]
		b.tx = &types.Transaction{Source: m.srcString(s), Type: ty, Data: string(js), Time: tag, Nonce: nonce, ChainId: common.ChainId(m.height)}
		b.tx.Hash = b.tx.GenHash()
	case "miner-refund":
		js, _ := json.Marshal(map[string]string{"Amount": s.Miner.Refund, "MinerId": "0x" + hex.EncodeToString(m.minerIDs[s.Miner.Id])})
		sig := make([]byte, 65)
		for i := range sig {
			sig[i] = 1
		}
		b.tx = &types.Transaction{Source: m.srcString(s), Type: types.TransactionTypeMinerRefund, Data: string(js), Time: tag, Nonce: nonce,
			ChainId: common.ChainId(m.height), Sign: common.BytesToSign(sig)}
		b.tx.Hash = b.tx.GenHash()
	case "op-node":
		b.tx = &types.Transaction{Source: m.srcString(s), Type: types.TransactionTypeOperatorNode, Time: tag, Nonce: nonce, ChainId: common.ChainId(m.height)}
		b.tx.Hash = b.tx.GenHash()
	default:
		panic("kind " + s.Kind)
	}
	nonceAhead[src]++
	return b
}

func (m *monitor) hasKey(a common.Address) bool {
	for _, k := range m.keys {
		if crypto.PubkeyToAddress(k.PublicKey) == a {
			return true
		}
	}
	return false
}

func (m *monitor) keyOf(a common.Address) *ecdsa.PrivateKey {
	for _, k := range m.keys {
		if crypto.PubkeyToAddress(k.PublicKey) == a {
			return k
		}
	}
	panic("no key for " + hexAddr(a))
}

// parseTokens: exact value of a plain decimal token string ("" = 0); ok=false for anything else.
func parseTokens(s string) (*big.Int, bool) {
	if s == "" {
		return new(big.Int), true
	}
	neg := false
	t := s
	if strings.HasPrefix(t, "-") {
		neg, t = true, t[1:]
	}
	ip, fp := t, ""
	if i := strings.Index(t, "."); i >= 0 {
		ip, fp = t[:i], t[i+1:]
	}
	if len(fp) > 18 || ip == "" {
		return nil, false
	}
	for _, c := range ip + fp {
		if c < '0' || c > '9' {
			return nil, false
		}
	}
	v, _ := new(big.Int).SetString(ip+fp+strings.Repeat("0", 18-len(fp)), 10)
	if neg {
		v.Neg(v)
	}
	return v, true
}

// runtimeOf returns the runtime program deployed by spec k of the current sequence.
func (m *monitor) runtimeOf(ref string) ([]Action, bool) {
	if !strings.HasPrefix(ref, "new:") {
		return nil, false
	}
	var k int
	fmt.Sscanf(ref[4:], "%d", &k)
	if k < 0 || k >= len(m.wit.Specs) {
		return nil, false
	}
	p := m.wit.Specs[k].Prog
	if len(p) > 0 && p[len(p)-1].Op == "return" {
		return p[len(p)-1].Runtime, true
	}
	return nil, false
}

var delegatingRelays = map[string]bool{"c:RelayDC": true, "c:RelayDCRevert": true, "c:RelayCC": true, "c:RelayCCD": true, "c:StakeHub": true, "c:StakeHub2": true}

// predict adds to the universe every address the program can create when it
// runs in context ctx (whose nonce is nonce at that moment): its own CREATE /
// CREATE2 children (recursively), and the children of every piece of code
// deployed earlier in the sequence that it can reach — run in that code's own
// context (CALL), in ctx (CALLCODE/DELEGATECALL) or in a delegating relay's.
func (m *monitor) predict(prog []Action, ctx common.Address, nonce uint64, depth int, slack uint64) {
	if depth > 5 {
		return
	}
	n := nonce
	for _, ac := range prog {
		switch ac.Op {
		case "create":
			// a failed CREATE may or may not have consumed the nonce: cover the neighbours
			// a CREATE/CREATE2 that fails early (insufficient balance, depth) does not
			// consume the nonce, one that fails late does: every nonce from the start
			// value to the running estimate is possible
			lo := nonce
			if lo > 0 {
				lo--
			}
			for k := lo; k <= n+1+slack; k++ {
				ch := crypto.CreateAddress(ctx, k)
				m.addUni(ch, "child")
				m.predict(ac.Init, ch, 1, depth+1, 0)
			}
			n++
		case "create2":
			init := compile(ac.Init, m.resolve)
			var salt [32]byte
			sb := new(big.Int).SetUint64(ac.Salt).Bytes()
			copy(salt[32-len(sb):], sb)
			ch := crypto.CreateAddress2(ctx, salt, crypto.Keccak256(init))
			m.addUni(ch, "child")
			m.predict(ac.Init, ch, 1, depth+1, 0)
			n++
		case "return":
			// the deployed runtime can be called later in the same transaction (then_call)
			m.predict(ac.Runtime, ctx, n, depth+1, slack)
		case "call", "callcode", "delegatecall", "staticcall":
			refs := append([]string{ac.To}, ac.Args...)
			for i, ref := range refs {
				rt, ok := m.runtimeOf(ref)
				if !ok {
					continue
				}
				own := m.resolve(ref)
				// code deployed earlier may be entered several times in one transaction
				m.predict(rt, own, m.adb.GetNonce(own), depth+1, 8)
				if i == 0 && (ac.Op == "callcode" || ac.Op == "delegatecall") {
					m.predict(rt, ctx, n, depth+1, slack+2)
				}
				if i > 0 && delegatingRelays[refs[i-1]] {
					relay := m.resolve(refs[i-1])
					m.predict(rt, relay, m.adb.GetNonce(relay), depth+1, 8)
				}
			}
		}
	}
}

// ---------------------------------------------------------------------------
// expectations

// destroySet: the sums a transaction may legitimately destroy (as positive
// amounts), from the balance of each self-destructing contract before the tx.
func (m *monitor) destroySet(b *built, pre *obs) []*big.Int {
	set := []*big.Int{new(big.Int)}
	for _, d := range b.spec.Destroy {
		var c common.Address
		if d.Contract == "created" {
			c = b.created
		} else if d.Contract == "child0" {
			c = crypto.CreateAddress(b.created, 1)
		} else {
			c = m.resolve(d.Contract)
		}
		preBal := pre.bal[c]
		if preBal == nil {
			preBal = new(big.Int)
		}
		var opts []*big.Int
		n := len(d.Values)
		for mask := 1; mask < 1<<uint(n); mask++ {
			s := new(big.Int).Set(preBal)
			for i := 0; i < n; i++ {
				if mask&(1<<uint(i)) != 0 {
					s.Add(s, bigDec(d.Values[i]))
				}
			}
			opts = append(opts, s)
		}
		var next []*big.Int
		for _, x := range set {
			next = append(next, x)
			for _, o := range opts {
				next = append(next, new(big.Int).Add(x, o))
			}
		}
		set = next
	}
	return set
}

func inSet(x *big.Int, set []*big.Int) bool {
	for _, s := range set {
		if s.Cmp(x) == 0 {
			return true
		}
	}
	return false
}

func maxOf(set []*big.Int) *big.Int {
	mx := new(big.Int)
	for _, s := range set {
		if s.Cmp(mx) > 0 {
			mx = s
		}
	}
	return mx
}

func entryOf(s *TxSpec) string {
	switch s.Kind {
	case "create", "call":
		if s.Class == "evm-stake" {
			return "evm-stake"
		}
		if s.Class == "token" {
			return "evm-token"
		}
		return "evm"
	}
	return s.Kind
}

// unpaidGas: gasUsed*gasPrice of a successful contract transaction whose sender
// ended with less than that bill (the shape of "fee account credited, debit of the
// sender silently refused"); zero otherwise.
func (m *monitor) unpaidGas(b *built, rc *types.Receipt, post *obs) *big.Int {
	z := new(big.Int)
	if b.tx == nil || rc == nil || rc.Status != types.ReceiptStatusSuccessful || rc.GasUsed == 0 || !types.IsContractTx(b.tx.Type) {
		return z
	}
	bill := new(big.Int).Mul(new(big.Int).SetUint64(rc.GasUsed), gasPrice)
	if sb := post.bal[m.resolve(b.spec.Src)]; sb == nil || sb.Cmp(bill) >= 0 {
		return z
	}
	return bill
}

// runBlock executes the specs [lo,hi) of the current sequence as ONE block at
// the next height and judges it. Single-spec blocks get the per-kind rules;
// multi-spec blocks the conservation identity.
func (m *monitor) runBlock(lo, hi int) {
	specs := m.wit.Specs[lo:hi]
	m.wit.At = lo
	first := specs[0]
	if first.Kind == "barrier" { // only separates blocks in block mode
		return
	}
	situation := "testing"
	after := false
	hdrGroup, hdrCastor := []byte(nil), []byte{1}
	switch first.Kind {
	case "mature":
		// jump to the earliest height with pending escrow
		var hs []uint64
		for h := range m.pending {
			if h > m.height {
				hs = append(hs, h)
			}
		}
		if len(hs) == 0 {
			m.r.Count("mature_without_escrow", 1)
			return
		}
		sort.Slice(hs, func(i, j int) bool { return hs[i] < hs[j] })
		m.height = hs[0] - 1
		after = true
	case "reward":
		after = true
		hdrGroup, hdrCastor = m.groupID, m.castor
	}
	for _, s := range specs {
		if s.Kind == "miner-refund" {
			after = true
		}
	}
	if after {
		situation = "verifying"
	}
	m.height++
	if first.Kind == "reward" && m.cfg == "genesis" && service.RewardCalculatorImpl.NextRewardHeight(m.height) == m.height {
		m.height++ // keep scheduling and payout in different blocks
	}
	common.SetBlockHeight(m.height)

	nonceAhead := map[common.Address]uint64{}
	var bs []*built
	var txs []*types.Transaction
	for i, s := range specs {
		b := m.build(lo+i, s, nonceAhead)
		bs = append(bs, b)
		if b.tx != nil {
			txs = append(txs, b.tx)
		}
	}
	heights := []uint64{m.height, m.height + refundLag}
	rewardAt := uint64(0)
	if first.Kind == "reward" && m.cfg == "genesis" {
		rewardAt = service.RewardCalculatorImpl.NextRewardHeight(m.height)
		heights = append(heights, rewardAt)
	}
	for h := range m.pending {
		if h != m.height && h != m.height+refundLag && h != rewardAt {
			heights = append(heights, h)
		}
	}
	sort.Slice(heights, func(i, j int) bool { return heights[i] < heights[j] })

	pre := m.observe(heights)
	// the universe may have grown while observing escrow: re-read so that pre and post cover the same set
	if len(pre.bal) != len(m.uniOrder) {
		pre = m.observe(heights)
	}
	m.sdOps, m.callOps, m.createOps, m.stakeOps, m.frames, m.failedFrames = 0, 0, 0, 0, 0, 0

	hdr := env.Header(m.height, hdrCastor, time.Unix(1700000000+int64(m.height), 0).UTC())
	hdr.GroupId = hdrGroup
	block := &types.Block{Header: hdr, Transactions: txs}
	var receipts []*types.Receipt
	var evicted []common.Hash
	if m.r.Guard("C06:"+entryOf(first), *m.wit, func() { receipts, evicted = m.exec(m.adb, block, situation) }) {
		return
	}
	post := m.observe(heights)
	m.reopen() // the node executes every block on a fresh AccountDB opened at the parent's root
	if len(post.bal) != len(pre.bal) {
		m.fail("C06:universe:leak-to-unwatched-address", fmt.Sprintf("an escrow recipient outside the universe appeared during block %d", m.height))
		return
	}
	for _, h := range heights {
		if post.escrowAt[h].Sign() > 0 {
			m.pending[h] = true
		} else {
			delete(m.pending, h)
		}
	}

	status := map[common.Hash]*types.Receipt{}
	for _, rc := range receipts {
		status[rc.TxHash] = rc
	}
	evict := map[common.Hash]bool{}
	for _, h := range evicted {
		evict[h] = true
	}

	dBal := new(big.Int).Sub(post.total, pre.total)
	dStake := new(big.Int).Sub(post.stake, pre.stake)
	dEsc := new(big.Int).Sub(post.escrow, pre.escrow)
	matured := new(big.Int)
	if after {
		matured.Set(pre.escrowAt[m.height])
	}

	// evidence
	m.r.Count("blocks_executed", 1)
	m.r.Count("value_moving_frames", m.callOps+m.createOps+m.sdOps)
	m.r.Count("frames_entered", m.frames)
	m.r.Count("frames_failed", m.failedFrames)
	m.r.Count("selfdestruct_ops", m.sdOps)
	m.r.Count("stake_opcodes", m.stakeOps)
	m.r.Max("max_universe", int64(len(m.uniOrder)))
	moved := false
	for a, v := range post.bal {
		if v.Cmp(pre.bal[a]) != 0 {
			moved = true
			break
		}
	}
	for _, b := range bs {
		if b.tx == nil {
			m.r.Count("step:"+b.spec.Kind, 1)
			continue
		}
		out := "failed"
		rc := status[b.tx.Hash]
		switch {
		case evict[b.tx.Hash] && rc == nil:
			out = "evicted"
		case rc == nil:
			out = "no-receipt"
		case rc.Status == types.ReceiptStatusSuccessful:
			out = "ok"
		}
		if strings.HasPrefix(b.spec.Src, "dust:") {
			m.r.Count("dust_sender_txs", 1)
			src := m.resolve(b.spec.Src)
			if fa := m.named["fee"]; post.bal[fa].Cmp(pre.bal[fa]) > 0 {
				m.r.Count("dust_sender_fee_paid", 1)
			} else {
				m.r.Count("dust_sender_fee_refused", 1)
			}
			m.r.Distinct("dust_balance", []byte(b.spec.Kind), pre.bal[src].Bytes())
		}
		k := b.spec.Kind
		if b.spec.Via == "eth" {
			k += "-eth"
		}
		m.r.Count("tx:"+k+":"+out, 1)
		if b.spec.Template != "" {
			m.r.Count("template:"+b.spec.Template, 1)
		}
		if b.spec.Template == "authcall" && out == "ok" {
			for _, ac := range b.spec.Prog {
				if ac.Op != "authcall" || ac.To == "self" || ac.To == "origin" {
					continue
				}
				if t := m.resolve(ac.To); post.bal[t] != nil && pre.bal[t] != nil && post.bal[t].Cmp(pre.bal[t]) > 0 {
					m.r.Count("authcall_value_moved", 1)
				}
			}
		}
		if moved || (out == "failed" && b.value.Sign() > 0) {
			js, _ := json.Marshal(b.spec)
			m.r.Distinct("nontrivial", []byte(m.cfg), js)
			m.nontriv++
		}
	}
	m.r.Count("txs_executed", int64(len(txs)))

	// balances within [0, ceiling]
	ceil := new(big.Int).Add(m.ceil, matured)
	for _, a := range m.uniOrder {
		if post.bal[a].Sign() < 0 || post.bal[a].Cmp(ceil) > 0 {
			m.fail("C06:balance:negative-or-wrapped", fmt.Sprintf("balance of %s (%s) is %s after block %d; nothing above %s can exist", hexAddr(a), m.uni[a], post.bal[a], m.height, ceil))
			break
		}
	}

	desc := func() string {
		return fmt.Sprintf("config %s height %d: Δbalances=%s Δstake=%s Δescrow=%s matured=%s", m.cfg, m.height, dBal, dStake, dEsc, matured)
	}
	zero := new(big.Int)
	neg := func(x *big.Int) *big.Int { return new(big.Int).Neg(x) }
	if debugOn {
		for _, b := range bs {
			st := "-"
			if b.tx != nil {
				if rc := status[b.tx.Hash]; rc != nil {
					st = fmt.Sprintf("status=%d msg=%.80s", rc.Status, rc.Msg)
				} else if evict[b.tx.Hash] {
					st = "evicted"
				}
			}
			js, _ := json.Marshal(b.spec)
			fmt.Printf("DBG seq=%d at=%d %s sd=%d calls=%d %s\n    %s\n    %.300s\n", m.wit.Seq, m.wit.At, b.spec.Kind, m.sdOps, m.callOps, st, desc(), js)
		}
	}

	if len(specs) > 1 {
		// conservation identity over the block
		lhs := new(big.Int).Add(new(big.Int).Add(dBal, dStake), dEsc)
		// what the block may legitimately destroy: at most the pre-block balance of
		// every contract a destroy template of the block names plus everything those
		// templates send to it (inside a block a contract can self-destruct again
		// and again, so only the bound is exact, not the set of sums)
		dmax := new(big.Int)
		seenC := map[common.Address]bool{}
		for _, b := range bs {
			for _, d := range b.spec.Destroy {
				var c common.Address
				switch d.Contract {
				case "created":
					c = b.created
				case "child0":
					c = crypto.CreateAddress(b.created, 1)
				default:
					c = m.resolve(d.Contract)
				}
				if !seenC[c] {
					seenC[c] = true
					if pb := pre.bal[c]; pb != nil {
						dmax.Add(dmax, pb)
					}
				}
				for _, v := range d.Values {
					dmax.Add(dmax, bigDec(v))
				}
			}
		}
		if m.sdOps == 0 {
			dmax.SetInt64(0)
		}
		m.r.Count("block_mode_blocks", 1)
		unpaid := new(big.Int)
		for _, b := range bs {
			if b.tx != nil {
				unpaid.Add(unpaid, m.unpaidGas(b, status[b.tx.Hash], post))
			}
		}
		switch {
		case lhs.Sign() > 0 && lhs.Cmp(unpaid) == 0:
			m.fail("C06:block:gas-fee-credited-without-debit", "the sum grew by exactly gasUsed*gasPrice of successful contract transactions whose sender ended with less than that: the fee account was credited, the sender not debited; "+desc())
		case lhs.Sign() > 0:
			m.fail("C06:block:sum-increased", "balances + registered stake + escrow grew over a multi-transaction block; "+desc())
		case neg(lhs).Cmp(dmax) > 0:
			m.fail("C06:block:sum-decreased-unexplained", fmt.Sprintf("balances + registered stake + escrow shrank by more than the self-destructs-to-self of the block can explain (at most %s); %s", dmax, desc()))
		}
		m.total.Add(m.total, dBal)
		return
	}

	b := bs[0]
	s := first
	ok := false
	var rc *types.Receipt
	if b.tx != nil {
		rc = status[b.tx.Hash]
		ok = rc != nil && rc.Status == types.ReceiptStatusSuccessful
		if rc != nil && b.hasNew && ok && rc.ContractAddress != b.created {
			m.addUni(rc.ContractAddress, "created-unpredicted")
			m.fail("C06:harness:created-address-mispredicted", fmt.Sprintf("predicted %s, receipt says %s", hexAddr(b.created), hexAddr(rc.ContractAddress)))
		}
	}
	entry := entryOf(s)
	tmpl := s.Template
	if tmpl == "" {
		tmpl = s.Kind
	}
	m.r.Count("conservation_checks", 1)

	wantBal := []*big.Int{zero}
	wantStakeSign := 0 // -1: may only fall, +1: may only rise, 0: unchanged
	wantEsc := zero
	switch s.Kind {
	case "transfer", "miner-change", "op-node":
	case "create", "call":
		switch {
		case s.Class == "evm-stake" && (tmpl == "unstake" || tmpl == "unstakeall"):
			wantStakeSign = -1
			wantEsc = neg(dStake)
		case s.Class == "evm-stake":
			wantStakeSign = 1
			wantBal = []*big.Int{neg(dStake)}
		default:
			if ok && m.sdOps > 0 {
				wantBal = nil
				for _, d := range m.destroySet(b, pre) {
					wantBal = append(wantBal, neg(d))
				}
			}
		}
	case "miner-apply", "miner-add":
		wantStakeSign = 1
		wantBal = []*big.Int{neg(dStake)}
		declared := new(big.Int).Mul(new(big.Int).SetUint64(s.Miner.Stake), e18)
		if !ok {
			declared = zero
		}
		if dStake.Cmp(declared) != 0 {
			m.fail("C06:"+entry+":registered-stake-differs-from-declared", fmt.Sprintf("tx ok=%v declared stake %s wei, registry changed by %s; %s", ok, declared, dStake, desc()))
		}
	case "miner-refund":
		wantStakeSign = -1
		wantBal = []*big.Int{matured}
		wantEsc = new(big.Int).Sub(neg(dStake), matured)
	case "mature":
		wantBal = []*big.Int{matured}
		wantEsc = neg(matured)
		m.r.Count("matured_wei_nonzero", int64(matured.Sign()))
	case "reward":
		wantBal = []*big.Int{matured}
		sched := new(big.Int).Add(dEsc, matured)
		wantEsc = dEsc // judged separately below
		if m.cfg == "genesis" {
			capF := new(big.Float).SetPrec(200).SetFloat64(service.GetTotalReward(m.height))
			capF.Mul(capF, new(big.Float).SetInt(e18))
			capF.Mul(capF, new(big.Float).SetFloat64(1.000000001))
			capI, _ := capF.Int(nil)
			m.r.Count("reward_blocks", 1)
			if sched.Sign() > 0 {
				m.r.Count("reward_scheduled_nonzero", 1)
			}
			if sched.Cmp(capI) > 0 || sched.Sign() < 0 {
				m.fail("C06:reward:scheduled-more-than-block-reward", fmt.Sprintf("scheduled %s wei for height %d, block reward is %s; %s", sched, m.height, capI, desc()))
			}
		}
	}

	// stake direction
	switch {
	case wantStakeSign == 0 && dStake.Sign() != 0:
		m.fail("C06:"+entry+":registered-stake-changed", "a transaction of this kind must not change registered stake; "+desc())
	case wantStakeSign > 0 && dStake.Sign() < 0, wantStakeSign < 0 && dStake.Sign() > 0:
		m.fail("C06:"+entry+":registered-stake-moved-the-wrong-way", desc())
	}
	// escrow
	if dEsc.Cmp(wantEsc) != 0 {
		cls := "escrow-differs-from-released-stake"
		if dEsc.Cmp(wantEsc) > 0 {
			cls = "escrow-exceeds-released-stake"
		}
		if s.Class == "evm-stake" {
			cls = tmpl + ":" + cls
		}
		m.fail("C06:"+entry+":"+cls, fmt.Sprintf("escrow changed by %s, released stake explains %s; %s", dEsc, wantEsc, desc()))
	}
	// balances
	if !inSet(dBal, wantBal) {
		lo, hi := wantBal[0], wantBal[0]
		for _, w := range wantBal {
			if w.Cmp(lo) < 0 {
				lo = w
			}
			if w.Cmp(hi) > 0 {
				hi = w
			}
		}
		var sig string
		switch {
		case dBal.Cmp(hi) > 0 && entry == "evm" && hi.Sign() == 0 && dBal.Cmp(m.unpaidGas(b, rc, post)) == 0:
			// exactly the gas bill appeared from nowhere and the sender holds less than it
			sig = "C06:evm:gas-fee-credited-without-debit:" + tmpl
		case dBal.Cmp(hi) > 0 && entry == "evm":
			sig = "C06:evm:value-created:" + tmpl
		case dBal.Cmp(hi) > 0 && entry == "mature":
			sig = "C06:mature:paid-more-than-escrowed"
		case dBal.Cmp(hi) > 0 && entry == "evm-stake":
			sig = "C06:evm-stake:" + tmpl + ":sum-increased"
		case dBal.Cmp(hi) > 0 && entry == "evm-token":
			sig = "C06:evm-token:value-created-by-call-into-bound-token-contract"
		case dBal.Cmp(lo) < 0 && entry == "evm-token":
			sig = "C06:evm-token:value-destroyed-by-call-into-bound-token-contract"
		case dBal.Cmp(hi) > 0:
			sig = "C06:" + entry + ":sum-increased"
		case dBal.Cmp(lo) < 0 && entry == "evm":
			sig = "C06:evm:value-destroyed:" + tmpl
		case dBal.Cmp(lo) < 0 && entry == "evm-stake":
			sig = "C06:evm-stake:" + tmpl + ":sum-decreased-unexplained"
		case dBal.Cmp(lo) < 0:
			sig = "C06:" + entry + ":sum-decreased-unexplained"
		case entry == "evm":
			sig = "C06:evm:delta-not-explained:" + tmpl
		default:
			sig = "C06:" + entry + ":delta-not-explained"
		}
		ws := []string{}
		for _, w := range wantBal {
			ws = append(ws, w.String())
		}
		m.fail(sig, fmt.Sprintf("tx ok=%v: sum of balances over %d addresses changed by %s wei, first principles allow %v; %s", ok, len(m.uniOrder), dBal, ws, desc()))
	}
	m.total.Add(m.total, dBal)
	if dBal.Sign() > 0 {
		m.ceil.Add(m.ceil, dBal)
	}
}

// reopen commits the state and continues on a fresh AccountDB at the new root,
// as the node does between blocks.
func (m *monitor) reopen() {
	root, err := m.adb.Commit(true)
	if err != nil {
		// the node could not commit this block either (blockchain_add.go rejects it):
		// nothing after it can be observed on a faithful state
		m.aborted = true
		m.r.Count("commit_failed_blocks", 1)
		if strings.Contains(err.Error(), "can't load code hash c5d2460186f7") {
			m.r.Count("commit_failed_empty_code_contract", 1)
		} else {
			m.r.Note("commit failed: %v", err)
		}
		return
	}
	adb, err := account.NewAccountDB(root, m.adb.Database())
	if err != nil {
		panic(err)
	}
	m.adb = adb
}

// ---------------------------------------------------------------------------
// closure proof

// trieSlots commits the state and returns every slot of the balance trie.
func (m *monitor) trieSlots() (map[string]*big.Int, error) {
	if _, err := m.adb.Commit(true); err != nil {
		return nil, err
	}
	out := map[string]*big.Int{}
	it := m.adb.DataIterator(m.tokenAddr, nil)
	if it == nil {
		return out, nil
	}
	for it.Next() {
		out[string(it.Key)] = new(big.Int).SetBytes(it.Value)
	}
	if it.Err != nil {
		return nil, it.Err
	}
	return out, nil
}

// checkClosure proves that the universe was closed: every slot of the balance
// trie that differs from the fixture baseline belongs to a universe address,
// and the trie total of the universe equals the API total.
func (m *monitor) checkClosure() {
	api := new(big.Int)
	keys := map[string]common.Address{}
	for _, a := range m.uniOrder {
		api.Add(api, m.adb.GetBalance(a))
		keys[balanceKey(a, m.tokenPos)] = a
	}
	slots, err := m.trieSlots()
	if err != nil {
		m.r.Note("closure: commit/iterate failed: %v", err)
		m.r.Count("closure_errors", 1)
		return
	}
	m.r.Count("closure_checks", 1)
	m.r.Count("trie_slots_iterated", int64(len(slots)))
	trieTotal := new(big.Int)
	for k, v := range slots {
		if _, ok := keys[k]; ok {
			trieTotal.Add(trieTotal, v)
			continue
		}
		base, had := m.baseline[k]
		if !had || base != v.String() {
			m.fail("C06:universe:leak-to-unwatched-address", fmt.Sprintf("slot %x of the balance trie (account %s) holds %s (fixture baseline %q) and is not the balance slot of any of the %d watched addresses",
				k, hexAddr(m.tokenAddr), v, base, len(m.uniOrder)))
			return
		}
	}
	for k, base := range m.baseline {
		if _, ok := keys[k]; ok {
			continue
		}
		if v, ok := slots[k]; !ok || v.String() != base {
			m.fail("C06:universe:leak-to-unwatched-address", fmt.Sprintf("slot %x outside the universe changed from %s", k, base))
			return
		}
	}
	if trieTotal.Cmp(api) != 0 || api.Cmp(m.total) != 0 {
		m.fail("C06:universe:trie-total-differs-from-tracked-total", fmt.Sprintf("committed trie total %s, GetBalance total %s, tracked total %s", trieTotal, api, m.total))
	}
}
