package main

// Tiny EVM assembler and the program compiler of the C06 template family.
// Programs are straight-line lists of Actions; everything that needs a
// decision at run time is delegated to small calldata-driven relay contracts
// deployed by the fixture (see fixtureContracts).

import (
	"math/big"

	"com.tuntun.rangers/node/src/common"
)

const (
	opSTOP         = 0x00
	opSUB          = 0x03
	opADDRESS      = 0x30
	opORIGIN       = 0x32
	opCALLER       = 0x33
	opCALLVALUE    = 0x34
	opCALLDATALOAD = 0x35
	opCALLDATASIZE = 0x36
	opCALLDATACOPY = 0x37
	opPOP          = 0x50
	opMLOAD        = 0x51
	opMSTORE       = 0x52
	opJUMP         = 0x56
	opGAS          = 0x5a
	opJUMPDEST     = 0x5b
	opPUSH1        = 0x60
	opDUP1         = 0x80
	opCREATE       = 0xf0
	opCALL         = 0xf1
	opCALLCODE     = 0xf2
	opRETURN       = 0xf3
	opDELEGATECALL = 0xf4
	opCREATE2      = 0xf5
	opSTATICCALL   = 0xfa
	opREVERT       = 0xfd
	opINVALID      = 0xfe
	opSELFDESTRUCT = 0xff
	opAUTH         = 0xf6
	opAUTHCALL     = 0xf7
	opSTAKE        = 0xee
	opUNSTAKE      = 0xef
	opUNSTAKEALL   = 0xeb
)

type asm struct{ b []byte }

func (a *asm) op(ops ...byte) *asm { a.b = append(a.b, ops...); return a }

// pushBytes emits the minimal PUSHn for the big-endian value (PUSH1 0 for zero).
func (a *asm) pushBytes(v []byte) *asm {
	for len(v) > 1 && v[0] == 0 {
		v = v[1:]
	}
	if len(v) == 0 {
		v = []byte{0}
	}
	if len(v) > 32 {
		panic("push > 32 bytes")
	}
	a.b = append(a.b, byte(opPUSH1+len(v)-1))
	a.b = append(a.b, v...)
	return a
}
func (a *asm) pushInt(n uint64) *asm   { return a.pushBytes(new(big.Int).SetUint64(n).Bytes()) }
func (a *asm) pushBig(n *big.Int) *asm { return a.pushBytes(n.Bytes()) }
func (a *asm) push20(ad common.Address) *asm {
	a.b = append(a.b, byte(opPUSH1+19))
	a.b = append(a.b, ad.Bytes()...)
	return a
}

// mstoreBytes writes data to memory[off:] in 32-byte chunks (last chunk right padded).
func (a *asm) mstoreBytes(off int, data []byte) *asm {
	for i := 0; i < len(data); i += 32 {
		chunk := make([]byte, 32)
		copy(chunk, data[i:])
		a.b = append(a.b, byte(opPUSH1+31))
		a.b = append(a.b, chunk...)
		a.pushInt(uint64(off + i))
		a.op(opMSTORE)
	}
	return a
}

// initReturning is init code that deploys the given runtime.
func initReturning(runtime []byte) []byte {
	a := &asm{}
	a.mstoreBytes(0, runtime)
	a.pushInt(uint64(len(runtime))).pushInt(0).op(opRETURN)
	return a.b
}

// ---------------------------------------------------------------------------
// fixture contracts (runtime code); all straight-line.

// relay: copy calldata to memory, <callop> mem[0] with CALLVALUE (if the op
// takes one) and calldata[32:] as input, then the terminal.
func relayCode(callop byte, terminal string) []byte {
	a := &asm{}
	a.op(opCALLDATASIZE).pushInt(0).pushInt(0).op(opCALLDATACOPY)
	a.pushInt(0).pushInt(0)                    // retSize retOff
	a.pushInt(32).op(opCALLDATASIZE).op(opSUB) // inSize = size-32
	a.pushInt(32)                              // inOff
	if callop == opCALL || callop == opCALLCODE {
		a.op(opCALLVALUE)
	}
	a.pushInt(0).op(opMLOAD) // target
	a.op(opGAS).op(callop).op(opPOP)
	terminalCode(a, terminal)
	return a.b
}

func terminalCode(a *asm, t string) {
	switch t {
	case "stop":
		a.op(opSTOP)
	case "revert":
		a.pushInt(0).pushInt(0).op(opREVERT)
	case "invalid":
		a.op(opINVALID)
	case "loop":
		pos := len(a.b)
		a.op(opJUMPDEST)
		a.b = append(a.b, byte(opPUSH1+1), byte(pos>>8), byte(pos))
		a.op(opJUMP)
	default:
		panic("terminal " + t)
	}
}

// stakeOpCode: helper executed by DELEGATECALL in the miner-account contract:
// pointer = ADDRESS, amount = calldata[0]; returns the opcode's result word.
func stakeOpCode(op byte) []byte {
	a := &asm{}
	a.op(opADDRESS)
	if op != opUNSTAKEALL {
		a.pushInt(0).op(opCALLDATALOAD)
	}
	a.op(op)
	a.pushInt(0).op(opMSTORE).pushInt(32).pushInt(0).op(opRETURN)
	return a.b
}

type fixtureContract struct {
	Name string
	Code []byte
}

func fixtureContracts() []fixtureContract {
	t := func(s string) []byte { a := &asm{}; terminalCode(a, s); return a.b }
	sdSelf := (&asm{}).op(opADDRESS, opSELFDESTRUCT).b
	sdArg := (&asm{}).pushInt(0).op(opCALLDATALOAD, opSELFDESTRUCT).b
	sdCaller := (&asm{}).op(opCALLER, opSELFDESTRUCT).b
	return []fixtureContract{
		{"Sink", t("stop")}, {"Reverter", t("revert")}, {"Invalid", t("invalid")}, {"Looper", t("loop")},
		{"SDSelf0", sdSelf}, {"SDSelf1", sdSelf}, {"SDSelf2", sdSelf}, {"SDArg", sdArg}, {"SDArgD", sdArg}, {"SDCaller", sdCaller},
		{"RelayOK", relayCode(opCALL, "stop")}, {"RelayRevert", relayCode(opCALL, "revert")},
		{"RelayOOG", relayCode(opCALL, "loop")}, {"RelayInvalid", relayCode(opCALL, "invalid")},
		{"RelayCC", relayCode(opCALLCODE, "stop")}, {"RelayCCD", relayCode(opCALLCODE, "stop")}, {"RelayDC", relayCode(opDELEGATECALL, "stop")},
		{"RelayDCRevert", relayCode(opDELEGATECALL, "revert")},
		{"StakeHub", relayCode(opDELEGATECALL, "stop")}, {"StakeHub2", relayCode(opDELEGATECALL, "stop")},
		{"StakeOp", stakeOpCode(opSTAKE)}, {"UnstakeOp", stakeOpCode(opUNSTAKE)}, {"UnstakeAllOp", stakeOpCode(opUNSTAKEALL)},
	}
}

// ---------------------------------------------------------------------------
// Actions

// Action is one step of a straight-line EVM program.
//
//	call|callcode|delegatecall|staticcall: To, Value (wei, decimal), Args (payload words), Gas (0 = all)
//	create|create2: Value, Init (program of the child), Salt, ThenCall (wei sent to the new address afterwards, "" = none)
//	selfdestruct: To (beneficiary)
//	stop|revert|invalid|loop: terminals; return: terminal that deploys Runtime
//	stake|unstake|unstakeall: To (pointer), Value (amount word)
type Action struct {
	Op       string   `json:"op"`
	To       string   `json:"to,omitempty"`
	Value    string   `json:"value,omitempty"`
	Args     []string `json:"args,omitempty"`
	Gas      uint64   `json:"gas,omitempty"`
	Init     []Action `json:"init,omitempty"`
	Runtime  []Action `json:"runtime,omitempty"`
	Salt     uint64   `json:"salt,omitempty"`
	ThenCall string   `json:"then_call,omitempty"`
	Raw      string   `json:"raw,omitempty"` // returnraw: hex runtime code
	// authcall: AUTH (signature of authority Auth over this invoker) then AUTHCALL
	// of Value wei to To; BadSig corrupts the signature, NonceOff shifts the
	// authorized nonce pushed for AUTHCALL
	Auth     string `json:"auth,omitempty"`
	BadSig   bool   `json:"bad_sig,omitempty"`
	NonceOff int    `json:"nonce_off,omitempty"`
}

// authEnv is what compiling an authcall action needs beyond address
// resolution: the invoker (the contract whose code is being compiled), the
// chain id the interpreter will use, the authority's current nonce and key.
// Set by monitor.build before compiling the top-level program of a creation tx.
var authEnv struct {
	invoker common.Address
	chainID *big.Int
	nonceOf func(common.Address) uint64
	sign    func(authority common.Address, digest []byte) []byte // 65-byte r||s||v(0/1)
	used    map[common.Address]uint64
}

// authWords: v, r, s, commit of the EIP-3074 style message opAuth verifies:
// keccak256(0x03 || chainId(32) || invoker(32) || commit(32)).
func authWords(authority common.Address, bad bool) [4][32]byte {
	var commit [32]byte
	copy(commit[:], keccak([]byte("c06-commit")))
	msg := make([]byte, 97)
	msg[0] = 0x03
	cb := authEnv.chainID.Bytes()
	copy(msg[33-len(cb):33], cb)
	copy(msg[65-20:65], authEnv.invoker.Bytes())
	copy(msg[65:], commit[:])
	sig := authEnv.sign(authority, keccak(msg))
	var w [4][32]byte
	w[0][31] = sig[64] + 27
	copy(w[1][:], sig[0:32])
	copy(w[2][:], sig[32:64])
	if bad {
		w[1][5] ^= 0x40
	}
	w[3] = commit
	return w
}

type resolver func(ref string) common.Address

func bigDec(s string) *big.Int {
	if s == "" {
		return new(big.Int)
	}
	v, ok := new(big.Int).SetString(s, 10)
	if !ok {
		panic("bad decimal " + s)
	}
	return v
}

func pushRef(a *asm, ref string, res resolver) {
	switch ref {
	case "self":
		a.op(opADDRESS)
	case "caller":
		a.op(opCALLER)
	case "origin":
		a.op(opORIGIN)
	default:
		a.push20(res(ref))
	}
}

// word encodes a payload word: "w:<decimal>" is a number, anything else an address ref
// ("self"/"caller"/"origin" are not available inside payloads).
func word(ref string, res resolver) []byte {
	w := make([]byte, 32)
	if len(ref) > 2 && ref[:2] == "w:" {
		b := bigDec(ref[2:]).Bytes()
		copy(w[32-len(b):], b)
		return w
	}
	copy(w[12:], res(ref).Bytes())
	return w
}

func compile(prog []Action, res resolver) []byte {
	a := &asm{}
	compileInto(a, prog, res)
	return a.b
}

func compileInto(a *asm, prog []Action, res resolver) {
	for _, ac := range prog {
		switch ac.Op {
		case "call", "callcode", "delegatecall", "staticcall":
			var payload []byte
			for _, w := range ac.Args {
				payload = append(payload, word(w, res)...)
			}
			a.mstoreBytes(0, payload)
			a.pushInt(0).pushInt(0).pushInt(uint64(len(payload))).pushInt(0)
			if ac.Op == "call" || ac.Op == "callcode" {
				a.pushBig(bigDec(ac.Value))
			}
			pushRef(a, ac.To, res)
			if ac.Gas == 0 {
				a.op(opGAS)
			} else {
				a.pushInt(ac.Gas)
			}
			a.op(map[string]byte{"call": opCALL, "callcode": opCALLCODE, "delegatecall": opDELEGATECALL, "staticcall": opSTATICCALL}[ac.Op])
			a.op(opPOP)
		case "create", "create2":
			init := compile(ac.Init, res)
			a.mstoreBytes(0, init)
			if ac.Op == "create2" {
				a.pushInt(ac.Salt)
			}
			a.pushInt(uint64(len(init))).pushInt(0).pushBig(bigDec(ac.Value))
			if ac.Op == "create" {
				a.op(opCREATE)
			} else {
				a.op(opCREATE2)
			}
			if ac.ThenCall != "" {
				// stack: addr ; CALL(gas, addr, value, 0,0,0,0)
				a.pushInt(0).pushInt(0).pushInt(0).pushInt(0).pushBig(bigDec(ac.ThenCall))
				a.op(opDUP1 + 5).op(opGAS).op(opCALL).op(opPOP)
			}
			a.op(opPOP)
		case "selfdestruct":
			pushRef(a, ac.To, res)
			a.op(opSELFDESTRUCT)
		case "stop", "revert", "invalid", "loop":
			terminalCode(a, ac.Op)
		case "return":
			rt := compile(ac.Runtime, res)
			a.mstoreBytes(0, rt)
			a.pushInt(uint64(len(rt))).pushInt(0).op(opRETURN)
		case "authcall":
			au := res(ac.Auth)
			w := authWords(au, ac.BadSig)
			var blob []byte
			for i := 0; i < 4; i++ {
				blob = append(blob, w[i][:]...)
			}
			a.mstoreBytes(0, blob)
			a.pushInt(128).pushInt(0).push20(au).op(opAUTH).op(opPOP)
			n := authEnv.nonceOf(au) + authEnv.used[au]
			authEnv.used[au]++                                       // AUTHCALL bumps the authority's nonce whether or not the call succeeds
			a.pushInt(0).pushInt(0).pushInt(0).pushInt(0).pushInt(0) // retLength retOffset argsLength argsOffset valueExt
			a.pushBig(bigDec(ac.Value))
			pushRef(a, ac.To, res)
			a.pushInt(ac.Gas) // 0 = everything available
			a.pushInt(uint64(int64(n) + int64(ac.NonceOff)))
			a.op(opAUTHCALL).op(opPOP)
		case "returnraw":
			rt := common.FromHex(ac.Raw)
			a.mstoreBytes(0, rt)
			a.pushInt(uint64(len(rt))).pushInt(0).op(opRETURN)
		case "stake", "unstake":
			pushRef(a, ac.To, res)
			a.pushBig(bigDec(ac.Value))
			if ac.Op == "stake" {
				a.op(opSTAKE)
			} else {
				a.op(opUNSTAKE)
			}
			a.op(opPOP)
		case "unstakeall":
			pushRef(a, ac.To, res)
			a.op(opUNSTAKEALL).op(opPOP)
		default:
			panic("action " + ac.Op)
		}
	}
}

// refsOf lists every address reference a program mentions (for the universe).
func refsOf(prog []Action, out map[string]bool) {
	for _, ac := range prog {
		if ac.To != "" && ac.To != "self" && ac.To != "caller" && ac.To != "origin" {
			out[ac.To] = true
		}
		if ac.Auth != "" {
			out[ac.Auth] = true
		}
		for _, w := range ac.Args {
			if !(len(w) > 2 && w[:2] == "w:") {
				out[w] = true
			}
		}
		refsOf(ac.Init, out)
		refsOf(ac.Runtime, out)
	}
}
