package main

import (
	"encoding/hex"
	"encoding/json"
	"fmt"
	"io/ioutil"
	"math/big"
	"math/rand"
	"os"
	"path/filepath"
	"sort"

	"com.tuntun.rangers/node/src/common"
	crypto "com.tuntun.rangers/node/src/eth_crypto"
	"com.tuntun.rangers/node/src/vm"

	"verifharness/mon"
)

var gasSet = []uint64{0, 1, 20999, 21000, 100000, 2000000}

const deepGas = uint64(10000000000000000) // 1e16: enough to reach call depth 1025 under the 63/64 rule even with x30 prices

// pickGas: mostly the two useful limits, sometimes the starving ones.
func pickGas(rng *rand.Rand) uint64 {
	switch k := rng.Intn(10); {
	case k < 4:
		return 2000000
	case k < 8:
		return 100000
	}
	return gasSet[rng.Intn(len(gasSet))]
}

// operand grid of the design
var extremes = []*big.Int{
	bigU(0), bigU(1), bigU(31), bigU(32), bigU(33), bigU(0xffff), bigU(0xffffffff), bigU(1 << 32),
	bigU(0x1fffffffe0), bigU(0x1fffffffe1), pow2m1(63), pow2(63), pow2m1(64), pow2(64), pow2(255), pow2m1(256),
}

type role int

const (
	rAny role = iota
	rOff
	rLen
	rAddr
	rGas
	rVal
	rDest
	rCond
	rKey
	rAmt
)

type opInfo struct {
	op     byte
	name   string
	args   []role // in pop order: args[0] is the top of the stack
	pushes int
}

func ops(op byte, name string, pushes int, args ...role) opInfo {
	return opInfo{op: op, name: name, args: args, pushes: pushes}
}

var opTable = buildOpTable()

func buildOpTable() map[byte]opInfo {
	m := map[byte]opInfo{}
	add := func(o opInfo) { m[o.op] = o }
	add(ops(0x00, "STOP", 0))
	for i, n := range []string{"ADD", "MUL", "SUB", "DIV", "SDIV", "MOD", "SMOD"} {
		add(ops(byte(1+i), n, 1, rAny, rAny))
	}
	add(ops(0x08, "ADDMOD", 1, rAny, rAny, rAny))
	add(ops(0x09, "MULMOD", 1, rAny, rAny, rAny))
	add(ops(0x0a, "EXP", 1, rAny, rAny))
	add(ops(0x0b, "SIGNEXTEND", 1, rAny, rAny))
	for i, n := range []string{"LT", "GT", "SLT", "SGT", "EQ"} {
		add(ops(byte(0x10+i), n, 1, rAny, rAny))
	}
	add(ops(0x15, "ISZERO", 1, rAny))
	add(ops(0x16, "AND", 1, rAny, rAny))
	add(ops(0x17, "OR", 1, rAny, rAny))
	add(ops(0x18, "XOR", 1, rAny, rAny))
	add(ops(0x19, "NOT", 1, rAny))
	add(ops(0x1a, "BYTE", 1, rAny, rAny))
	add(ops(0x1b, "SHL", 1, rAny, rAny))
	add(ops(0x1c, "SHR", 1, rAny, rAny))
	add(ops(0x1d, "SAR", 1, rAny, rAny))
	add(ops(0x20, "KECCAK256", 1, rOff, rLen))
	add(ops(0x30, "ADDRESS", 1))
	add(ops(0x31, "BALANCE", 1, rAddr))
	add(ops(0x32, "ORIGIN", 1))
	add(ops(0x33, "CALLER", 1))
	add(ops(0x34, "CALLVALUE", 1))
	add(ops(0x35, "CALLDATALOAD", 1, rOff))
	add(ops(0x36, "CALLDATASIZE", 1))
	add(ops(0x37, "CALLDATACOPY", 0, rOff, rOff, rLen))
	add(ops(0x38, "CODESIZE", 1))
	add(ops(0x39, "CODECOPY", 0, rOff, rOff, rLen))
	add(ops(0x3a, "GASPRICE", 1))
	add(ops(0x3b, "EXTCODESIZE", 1, rAddr))
	add(ops(0x3c, "EXTCODECOPY", 0, rAddr, rOff, rOff, rLen))
	add(ops(0x3d, "RETURNDATASIZE", 1))
	add(ops(0x3e, "RETURNDATACOPY", 0, rOff, rOff, rLen))
	add(ops(0x3f, "EXTCODEHASH", 1, rAddr))
	add(ops(0x40, "BLOCKHASH", 1, rAny))
	for i, n := range []string{"COINBASE", "TIMESTAMP", "NUMBER", "DIFFICULTY", "GASLIMIT", "CHAINID", "SELFBALANCE", "BASEFEE"} {
		add(ops(byte(0x41+i), n, 1))
	}
	add(ops(0x49, "BLOBHASH", 1, rAny))
	add(ops(0x4a, "BLOBBASEFEE", 1))
	add(ops(0x50, "POP", 0, rAny))
	add(ops(0x51, "MLOAD", 1, rOff))
	add(ops(0x52, "MSTORE", 0, rOff, rAny))
	add(ops(0x53, "MSTORE8", 0, rOff, rAny))
	add(ops(0x54, "SLOAD", 1, rKey))
	add(ops(0x55, "SSTORE", 0, rKey, rAny))
	add(ops(0x56, "JUMP", 0, rDest))
	add(ops(0x57, "JUMPI", 0, rDest, rCond))
	add(ops(0x58, "PC", 1))
	add(ops(0x59, "MSIZE", 1))
	add(ops(0x5a, "GAS", 1))
	add(ops(0x5b, "JUMPDEST", 0))
	add(ops(0x5c, "TLOAD", 1, rKey))
	add(ops(0x5d, "TSTORE", 0, rKey, rAny))
	add(ops(0x5e, "MCOPY", 0, rOff, rOff, rLen))
	add(ops(0x5f, "PUSH0", 1))
	for i := 0; i < 32; i++ {
		add(ops(byte(0x60+i), fmt.Sprintf("PUSH%d", i+1), 1))
	}
	for i := 0; i < 16; i++ {
		a := make([]role, i+1)
		add(opInfo{op: byte(0x80 + i), name: fmt.Sprintf("DUP%d", i+1), args: a, pushes: i + 2})
		b := make([]role, i+2)
		add(opInfo{op: byte(0x90 + i), name: fmt.Sprintf("SWAP%d", i+1), args: b, pushes: i + 2})
	}
	for i := 0; i < 5; i++ {
		a := []role{rOff, rLen}
		for j := 0; j < i; j++ {
			a = append(a, rAny)
		}
		add(opInfo{op: byte(0xa0 + i), name: fmt.Sprintf("LOG%d", i), args: a})
	}
	add(ops(0xea, "STAKENUM", 1, rAddr))
	add(ops(0xeb, "UNSTAKEALL", 1, rAddr))
	add(ops(0xec, "GETSTAKE", 1, rAddr))
	add(ops(0xed, "PRINTF", 0))
	add(ops(0xee, "STAKE", 1, rAmt, rAddr))
	add(ops(0xef, "UNSTAKE", 1, rAmt, rAddr))
	add(ops(0xf0, "CREATE", 1, rVal, rOff, rLen))
	add(ops(0xf1, "CALL", 1, rGas, rAddr, rVal, rOff, rLen, rOff, rLen))
	add(ops(0xf2, "CALLCODE", 1, rGas, rAddr, rVal, rOff, rLen, rOff, rLen))
	add(ops(0xf3, "RETURN", 0, rOff, rLen))
	add(ops(0xf4, "DELEGATECALL", 1, rGas, rAddr, rOff, rLen, rOff, rLen))
	add(ops(0xf5, "CREATE2", 1, rVal, rOff, rLen, rAny))
	add(ops(0xf6, "AUTH", 1, rAddr, rOff, rLen))
	add(ops(0xf7, "AUTHCALL", 1, rAny, rGas, rAddr, rVal, rVal, rOff, rLen, rOff, rLen))
	add(ops(0xfa, "STATICCALL", 1, rGas, rAddr, rOff, rLen, rOff, rLen))
	add(ops(0xfd, "REVERT", 0, rOff, rLen))
	add(ops(0xfe, "INVALID", 0))
	add(ops(0xff, "SELFDESTRUCT", 0, rAddr))
	return m
}

func opName(op byte) string {
	if o, ok := opTable[op]; ok {
		return o.name
	}
	return fmt.Sprintf("0x%02x", op)
}

var customOps = []byte{opSTAKENUM, opUNSTAKEALL, opGETSTAKE, opPRINTF, opSTAKE, opUNSTAKE, opAUTH, opAUTHCALL, opTLOAD, opTSTORE, opBLOBHASH, opBASEFEE, opBLOBBASEFEE, opMCOPY, opPUSH0}

var memOps = []byte{opKECCAK, opCALLDATALOAD, opCALLDATACOPY, opCODECOPY, opEXTCODECOPY, opRETURNDATACOPY, opMLOAD, opMSTORE, opMSTORE8, opMCOPY,
	0xa0, 0xa1, 0xa2, 0xa3, 0xa4, opCREATE, opCALL, opCALLCODE, opRETURN, opDELEGATECALL, opCREATE2, opAUTH, opAUTHCALL, opSTATICCALL, opREVERT}

// ---------------------------------------------------------------------------
// operand choice

type gen struct {
	rng *rand.Rand
	cfg string
}

func (g *gen) addr() *big.Int {
	switch k := g.rng.Intn(20); {
	case k < 5:
		return new(big.Int).SetBytes(targetAddr.Bytes())
	case k < 8:
		return new(big.Int).SetBytes(auxAAddr.Bytes())
	case k < 10:
		return new(big.Int).SetBytes(auxBAddr.Bytes())
	case k < 11:
		return new(big.Int).SetBytes(originAddr.Bytes())
	case k < 17:
		return bigU(uint64(g.rng.Intn(20))) // precompiles 1..18, 0 and 19
	case k < 18:
		return pow2m1(256)
	}
	b := make([]byte, 20)
	g.rng.Read(b)
	return new(big.Int).SetBytes(b)
}

func (g *gen) small() *big.Int {
	switch k := g.rng.Intn(20); {
	case k < 8:
		return bigU(uint64(g.rng.Intn(9)) * 32)
	case k < 14:
		return bigU(uint64(g.rng.Intn(300)))
	case k < 17:
		return bigU(uint64(g.rng.Intn(5000)))
	case k < 18:
		return bigU(uint64(g.rng.Intn(1 << 20)))
	}
	return extremes[g.rng.Intn(len(extremes))]
}

func (g *gen) anyWord() *big.Int {
	switch k := g.rng.Intn(10); {
	case k < 3:
		return extremes[g.rng.Intn(len(extremes))]
	case k < 6:
		return bigU(uint64(g.rng.Intn(1024)))
	case k < 7:
		return g.addr()
	}
	b := make([]byte, 1+g.rng.Intn(32))
	g.rng.Read(b)
	return new(big.Int).SetBytes(b)
}

var amounts = []*big.Int{bigU(0), bigU(1), oneToken, new(big.Int).Mul(oneToken, bigU(400)), new(big.Int).Mul(oneToken, bigU(1000)), new(big.Int).Mul(oneToken, bigU(5000)),
	new(big.Int).Add(oneToken, bigU(1)), new(big.Int).Mul(oneToken, bigU(1<<40)), pow2m1(64), new(big.Int).Mul(oneToken, pow2m1(64)), pow2(255), pow2m1(256)}

func (g *gen) operand(r role, jumpdests []int) *big.Int {
	switch r {
	case rOff, rLen:
		return g.small()
	case rAddr:
		return g.addr()
	case rGas:
		switch k := g.rng.Intn(10); {
		case k < 3:
			return pow2m1(256)
		case k < 5:
			return bigU(0)
		case k < 8:
			return bigU([]uint64{1, 700, 2300, 10000, 50000, 100000, 1000000}[g.rng.Intn(7)])
		}
		return extremes[g.rng.Intn(len(extremes))]
	case rVal:
		switch k := g.rng.Intn(20); {
		case k < 15:
			return bigU(0)
		case k < 18:
			return bigU(1)
		case k < 19:
			return oneToken
		}
		return pow2m1(256)
	case rDest:
		if len(jumpdests) > 0 && g.rng.Intn(10) < 7 {
			return bigU(uint64(jumpdests[g.rng.Intn(len(jumpdests))]))
		}
		return g.small()
	case rCond:
		return bigU(uint64(g.rng.Intn(2)))
	case rKey:
		return bigU(uint64(g.rng.Intn(4)))
	case rAmt:
		return amounts[g.rng.Intn(len(amounts))]
	}
	return g.anyWord()
}

// ---------------------------------------------------------------------------
// random programs

type weighted struct {
	ops []byte
	w   int
}

var opClasses = []weighted{
	{[]byte{0x01, 0x02, 0x03, 0x04, 0x05, 0x06, 0x07, 0x08, 0x09, 0x0a, 0x0b, 0x10, 0x11, 0x12, 0x13, 0x14, 0x15, 0x16, 0x17, 0x18, 0x19, 0x1a, 0x1b, 0x1c, 0x1d}, 18},
	{[]byte{0x30, 0x31, 0x32, 0x33, 0x34, 0x35, 0x36, 0x38, 0x3a, 0x3b, 0x3d, 0x3f, 0x40, 0x41, 0x42, 0x43, 0x44, 0x45, 0x46, 0x47, 0x48, 0x49, 0x4a}, 10},
	{[]byte{0x51, 0x52, 0x53, 0x59, 0x5e, 0x20}, 14},
	{[]byte{0x37, 0x39, 0x3c, 0x3e}, 8},
	{[]byte{0x54, 0x55, 0x5c, 0x5d}, 6},
	{[]byte{0x56, 0x57, 0x58, 0x5a, 0x5b, 0x5b}, 7},
	{[]byte{0x50, 0x80, 0x81, 0x82, 0x83, 0x8f, 0x90, 0x91, 0x92, 0x9f, 0x5f}, 8},
	{[]byte{0xa0, 0xa1, 0xa2, 0xa3, 0xa4}, 4},
	{[]byte{0xf0, 0xf1, 0xf2, 0xf4, 0xf5, 0xfa, 0xf1, 0xfa}, 9},
	{[]byte{0xea, 0xeb, 0xec, 0xed, 0xee, 0xef, 0xf6, 0xf7}, 7},
	{[]byte{0x00, 0xf3, 0xfd, 0xfe, 0xff}, 2},
}

func (g *gen) pickOp() byte {
	tot := 0
	for _, c := range opClasses {
		tot += c.w
	}
	k := g.rng.Intn(tot + 1)
	if k == tot {
		return byte(g.rng.Intn(256)) // any byte, defined or not
	}
	for _, c := range opClasses {
		if k < c.w {
			return c.ops[g.rng.Intn(len(c.ops))]
		}
		k -= c.w
	}
	return 0
}

// program builds an opcode-weighted random program that mostly passes stack validation.
func (g *gen) program(nops int) []byte {
	a := &asm{}
	depth := 0
	var jds []int
	if g.rng.Intn(3) == 0 {
		// start from a memory image
		data := make([]byte, 32*(1+g.rng.Intn(6)))
		g.rng.Read(data)
		a.fillMem(data)
	}
	for i := 0; i < nops; i++ {
		op := g.pickOp()
		info, known := opTable[op]
		if !known {
			a.op(op)
			continue
		}
		if op >= 0x60 && op <= 0x7f {
			a.push(g.anyWord())
			depth++
			continue
		}
		need := len(info.args)
		if op >= 0x80 && op <= 0x9f { // DUP/SWAP: need items, supply arbitrary ones
			for depth < need && g.rng.Intn(10) < 9 {
				a.push(g.anyWord())
				depth++
			}
			a.op(op)
			if op < 0x90 && depth >= need {
				depth++
			}
			continue
		}
		if g.rng.Intn(10) < 9 {
			// push fresh, role-aware operands (the old stack content stays below)
			for j := need - 1; j >= 0; j-- {
				a.push(g.operand(info.args[j], jds))
			}
			depth += need
		}
		if op == opJUMPDEST {
			jds = append(jds, a.pc())
		}
		a.op(op)
		depth += info.pushes - need
		if depth < 0 {
			depth = 0
		}
		if depth > 900 {
			a.op(opPOP)
			depth--
		}
	}
	return a.bytes()
}

func randBytes(rng *rand.Rand, n int) []byte {
	b := make([]byte, n)
	rng.Read(b)
	return b
}

func rawLen(rng *rand.Rand) int {
	switch k := rng.Intn(10); {
	case k < 4:
		return 1 + rng.Intn(32)
	case k < 8:
		return 1 + rng.Intn(512)
	}
	return 1 + rng.Intn(4096)
}

// opcode-biased "raw" bytes: random bytes where a share is replaced by PUSH1s
// so that more than the first opcode gets executed
func rawCode(rng *rand.Rand) []byte {
	b := randBytes(rng, rawLen(rng))
	if rng.Intn(2) == 0 {
		return b
	}
	for i := 0; i+1 < len(b); i += 1 + rng.Intn(4) {
		if rng.Intn(3) == 0 {
			b[i] = opPUSH1
		}
	}
	return b
}

func helperCode(g *gen) []Acct {
	// helper contracts random programs may call into
	return []Acct{
		{Addr: auxAAddr.GetHexString(), Code: (&asm{}).pushU(0x2a).pushU(0).op(opMSTORE).pushU(32).pushU(0).op(opRETURN).bytes()},
		{Addr: auxBAddr.GetHexString(), Code: g.program(5 + g.rng.Intn(20))},
	}
}

// ---------------------------------------------------------------------------
// templates

// callArgs pushes the operands of a call-type op (args in pop order).
func callSelf(op byte, value uint64, gasAll bool) []byte {
	a := &asm{}
	a.pushU(0).pushU(0).pushU(0).pushU(0)
	if op == opCALL || op == opCALLCODE {
		a.pushU(value)
	}
	a.op(opADDRESS)
	if gasAll {
		a.op(opGAS)
	} else {
		a.pushU(0xffffffff)
	}
	a.op(op)
	return a.bytes()
}

// returnTop: store the top of the stack at 0 and return it as one word.
func (a *asm) returnTop() *asm {
	return a.pushU(0).op(opMSTORE).pushU(32).pushU(0).op(opRETURN)
}

// wrapper that forwards its call data to `to` with the given call op and
// returns the success flag as one word.
func forwarder(op byte, to *big.Int, value uint64) []byte {
	a := &asm{}
	a.calldataToMem()
	a.pushU(0).pushU(0).op(opCALLDATASIZE).pushU(0)
	if op == opCALL || op == opCALLCODE {
		a.pushU(value)
	}
	a.push(to).op(opGAS).op(op)
	return a.returnTop().bytes()
}

var authKey, _ = crypto.HexToECDSA("b71c71a67e1177ad4e901695e1b4b9ee17ae16c6668d313eac2f96dbcda3f291")

// authBlob returns the 128-byte (v,r,s,commit) memory image of a valid AUTH for
// the invoker contract, and the authority address.
func authBlob(invoker common.Address, commit [32]byte, eip191 bool, vPlus27 bool) ([]byte, common.Address) {
	chainID := common.GetChainId(blockNum)
	msg := make([]byte, 97)
	msg[0] = 0x03
	copy(msg[1:33], leftPad(chainID.Bytes(), 32))
	copy(msg[33:65], leftPad(invoker.Bytes(), 32))
	copy(msg[65:], commit[:])
	h := crypto.Keccak256(msg)
	if eip191 {
		h = crypto.Keccak256([]byte("\x19Ethereum Signed Message:\n32"), h)
	}
	sig, err := crypto.Sign(h, authKey)
	if err != nil {
		panic(err)
	}
	blob := make([]byte, 128)
	blob[31] = sig[64]
	if vPlus27 {
		blob[31] += 27
	}
	copy(blob[32:64], sig[0:32])
	copy(blob[64:96], sig[32:64])
	copy(blob[96:128], commit[:])
	return blob, crypto.PubkeyToAddress(authKey.PublicKey)
}

func leftPad(b []byte, n int) []byte {
	if len(b) >= n {
		return b[len(b)-n:]
	}
	out := make([]byte, n)
	copy(out[n-len(b):], b)
	return out
}

// charge-wrap seeker: memory size (in words) and data length for which
// 30*(30*C(w) + k*ceil(len/32) + base + perByte*len) lands just above 2^64.
func wrapParams(k, base, perByte uint64) (w uint64, length uint64, ok bool) {
	two64 := pow2(64)
	x0 := new(big.Int).Div(new(big.Int).Add(two64, bigU(29)), bigU(30)) // ceil(2^64/30)
	c := func(w uint64) *big.Int {
		b := new(big.Int).SetUint64(w)
		q := new(big.Int).Div(new(big.Int).Mul(b, b), bigU(512))
		q.Add(q, new(big.Int).Mul(b, bigU(3)))
		return q.Mul(q, bigU(30))
	}
	lo, hi := uint64(1), uint64(0xffffffff)
	if c(hi).Cmp(x0) < 0 {
		return 0, 0, false
	}
	for lo < hi { // largest w with 30*C(w) <= x0
		mid := (lo + hi + 1) / 2
		if c(mid).Cmp(x0) <= 0 {
			lo = mid
		} else {
			hi = mid - 1
		}
	}
	w = lo
	rem := new(big.Int).Sub(x0, c(w))
	rem.Sub(rem, bigU(base))
	if rem.Sign() < 0 || !rem.IsUint64() {
		return 0, 0, false
	}
	r := rem.Uint64()
	if perByte > 0 {
		length = (r + perByte - 1) / perByte
	} else {
		words := (r + k - 1) / k
		length = words * 32
	}
	if length > w*32 {
		return 0, 0, false
	}
	return w, length, true
}

// ---------------------------------------------------------------------------
// precompile vectors

type pcVector struct {
	Input, Expected string
	Gas             uint64
	Name            string
}

var vectorFiles = map[string]int{"ecRecover": 1, "modexp": 5, "bn256Add": 6, "bn256ScalarMul": 7, "bn256Pairing": 8, "blake2F": 9,
	"blsG1Add": 10, "blsG1Mul": 11, "blsG1MultiExp": 12, "blsG2Add": 13, "blsG2Mul": 14, "blsG2MultiExp": 15, "blsPairing": 16, "blsMapG1": 17, "blsMapG2": 18,
	"fail-blake2f": 9, "fail-blsG1Add": 10, "fail-blsG1Mul": 11, "fail-blsG1MultiExp": 12, "fail-blsG2Add": 13, "fail-blsG2Mul": 14, "fail-blsG2MultiExp": 15,
	"fail-blsPairing": 16, "fail-blsMapG1": 17, "fail-blsMapG2": 18}

func repoDir() string {
	if v := os.Getenv("VERIF_REPO"); v != "" {
		return v
	}
	return "/repo"
}

func loadVectors() (valid map[int][]pcVector, fail map[int][]pcVector) {
	valid, fail = map[int][]pcVector{}, map[int][]pcVector{}
	names := make([]string, 0, len(vectorFiles))
	for n := range vectorFiles {
		names = append(names, n)
	}
	sort.Strings(names)
	for _, n := range names {
		b, err := ioutil.ReadFile(filepath.Join(repoDir(), "src/vm/testdata/precompiles", n+".json"))
		if err != nil {
			continue
		}
		var vs []pcVector
		if json.Unmarshal(b, &vs) != nil {
			continue
		}
		if len(n) > 5 && n[:5] == "fail-" {
			fail[vectorFiles[n]] = append(fail[vectorFiles[n]], vs...)
		} else {
			valid[vectorFiles[n]] = append(valid[vectorFiles[n]], vs...)
		}
	}
	return
}

// ---------------------------------------------------------------------------
// the case list of one configuration: a pure function of (seed, tier, cfg)

// (streamed: emit is called once per case, in list order)
func generate(r *mon.Run, cfg string, emit func(*Case)) {
	add := func(c Case) {
		c.Cfg = cfg
		if c.Kind == "" {
			c.Kind = "call"
		}
		emit(&c)
	}
	scale := r.Pick(1, 120)

	// (a) raw random byte strings as code and as init code
	{
		rng := r.Rand("rawcode", cfg)
		for i := 0; i < 3000*scale; i++ {
			add(Case{Fam: "rawcode", Code: rawCode(rng), Input: randBytes(rng, rng.Intn(68)), Gas: pickGas(rng), Value: []string{"", "", "", "1", "1000000000000000000"}[rng.Intn(5)]})
		}
		rng = r.Rand("rawinit", cfg)
		for i := 0; i < 1500*scale; i++ {
			add(Case{Fam: "rawinit", Kind: "create", Code: rawCode(rng), Gas: pickGas(rng), Value: []string{"", "", "", "1"}[rng.Intn(4)]})
		}
		for i := 0; i < 1000*scale; i++ {
			op := []byte{opCREATE, opCREATE2}[rng.Intn(2)]
			a := (&asm{}).calldataToMem()
			if op == opCREATE2 {
				a.pushU(uint64(rng.Intn(3)))
			}
			a.op(opCALLDATASIZE).pushU(0).pushU(uint64(rng.Intn(2))).op(op)
			add(Case{Fam: "rawinit", Tag: opName(op), Code: a.returnTop().bytes(), Input: rawCode(rng), Gas: pickGas(rng)})
		}
	}

	// (b) opcode-weighted random programs
	{
		rng := r.Rand("weighted", cfg)
		g := &gen{rng: rng, cfg: cfg}
		for i := 0; i < 7000*scale; i++ {
			c := Case{Fam: "weighted", Code: g.program(3 + rng.Intn(60)), Input: randBytes(rng, rng.Intn(100)), Gas: pickGas(rng), Miner: []int{0, 0, 1, 2}[rng.Intn(4)]}
			if rng.Intn(2) == 0 {
				c.Aux = helperCode(g)
			}
			if rng.Intn(8) == 0 {
				c.Kind = "create"
				c.Miner = 0
			}
			add(c)
		}
	}

	// (c) adversarial templates
	genTruncatedPush(add)
	genRecursion(r, cfg, add)
	genCreateLoops(r, cfg, add)
	genSubcalls(cfg, add)
	genMemExtremes(r, cfg, add)
	genSweeps(r, cfg, add)
	genCustom(r, cfg, add)
	genStackFill(cfg, add)
	genFaults(add)
	genStaticChains(r, add)
	genBigCreate(add)
	genPushTail(r, add)

	// (d) precompiles
	genPrecompiles(r, cfg, add)

	// charge-wrap seekers last within their shard: each may kill its child
	genGasWrap(add)
}

func genTruncatedPush(add func(Case)) {
	for n := 1; n <= 32; n++ {
		for _, k := range []int{0, n / 2, n - 1} {
			if k >= n {
				continue
			}
			a := (&asm{}).pushU(1).pushU(2).op(opADD)
			a.op(byte(0x5f + n))
			for j := 0; j < k; j++ {
				a.op(0xff)
			}
			add(Case{Fam: "truncpush", Tag: fmt.Sprintf("PUSH%d", n), Code: a.bytes(), Gas: 100000, Expect: "top:ok"})
			add(Case{Fam: "truncpush", Tag: fmt.Sprintf("PUSH%d", n), Kind: "create", Code: a.bytes(), Gas: 2000000})
		}
	}
}

func genRecursion(r *mon.Run, cfg string, add func(Case)) {
	rng := r.Rand("recursion", cfg)
	gases := append(append([]uint64{}, gasSet...), deepGas)
	for _, op := range []byte{opCALL, opCALLCODE, opDELEGATECALL, opSTATICCALL} {
		for _, gas := range gases {
			for _, tail := range []int{0, 1, 2} {
				code := callSelf(op, 0, true)
				switch tail {
				case 1:
					code = append(code, (&asm{}).returnTop().bytes()...)
				case 2: // call again after the first one came back (bounded by gas)
					if gas == deepGas {
						continue
					}
					code = append(code, opPOP)
					code = append(code, callSelf(op, 0, false)...)
				}
				c := Case{Fam: "recursion", Tag: opName(op), Code: code, Gas: gas}
				if gas == deepGas {
					c.Expect = "depth-limit"
				}
				add(c)
			}
		}
		if op == opCALL || op == opCALLCODE {
			add(Case{Fam: "recursion", Tag: opName(op) + "+value", Code: callSelf(op, 1, true), Gas: deepGas, Expect: "depth-limit"})
			add(Case{Fam: "recursion", Tag: opName(op) + "+value", Code: callSelf(op, 1, true), Gas: 2000000})
		}
	}
	// mutual recursion target <-> helper through mixed call kinds
	for i := 0; i < 12; i++ {
		o1 := []byte{opCALL, opCALLCODE, opDELEGATECALL, opSTATICCALL}[rng.Intn(4)]
		o2 := []byte{opCALL, opCALLCODE, opDELEGATECALL, opSTATICCALL}[rng.Intn(4)]
		mk := func(op byte, to common.Address) []byte {
			a := (&asm{}).pushU(0).pushU(0).pushU(0).pushU(0)
			if op == opCALL || op == opCALLCODE {
				a.pushU(0)
			}
			return a.pushAddr(to).op(opGAS).op(op).bytes()
		}
		gas := gases[rng.Intn(len(gases))]
		c := Case{Fam: "recursion", Tag: "mutual", Code: mk(o1, auxAAddr), Aux: []Acct{{Addr: auxAAddr.GetHexString(), Code: mk(o2, targetAddr)}}, Gas: gas}
		add(c)
	}
	// recursion through creation: init code that deploys itself again
	for _, op := range []byte{opCREATE, opCREATE2} {
		a := (&asm{}).op(opCODESIZE).pushU(0).pushU(0).op(opCODECOPY)
		if op == opCREATE2 {
			a.pushU(7)
		}
		a.op(opCODESIZE).pushU(0).pushU(0).op(op)
		for _, gas := range gases {
			c := Case{Fam: "recursion", Tag: opName(op), Kind: "create", Code: a.bytes(), Gas: gas}
			if gas == deepGas {
				c.Expect = "depth-limit"
			}
			add(c)
			c.Kind = "call"
			add(c)
		}
	}
	// AUTH + AUTHCALL to self; the authorised account's nonce is passed down in the call data
	for _, gas := range gases {
		var commit [32]byte
		commit[31] = 9
		blob, authority := authBlob(targetAddr, commit, false, true)
		a := (&asm{}).fillMem(blob)
		a.pushU(128).pushU(0).pushAddr(authority).op(opAUTH, opPOP)
		a.pushU(1).pushU(0).op(opCALLDATALOAD, opADD).pushU(128).op(opMSTORE)
		a.pushU(0).pushU(0).pushU(32).pushU(128).pushU(0).pushU(0).op(opADDRESS).pushU(0).pushU(0).op(opCALLDATALOAD).op(opAUTHCALL)
		c := Case{Fam: "recursion", Tag: "AUTHCALL", Code: a.bytes(), Input: make([]byte, 32), Gas: gas}
		if gas == deepGas && (cfg != "none") {
			c.Expect = "depth-limit"
		}
		add(c)
	}
}

// every call-type op x every way a callee can end x how much gas it was given;
// the caller keeps stepping afterwards so that its gas after the call is observed
func genSubcalls(cfg string, add func(Case)) {
	outcomes := []struct {
		name string
		code []byte
	}{
		{"stop", []byte{opSTOP}},
		{"return32", (&asm{}).pushU(7).pushU(0).op(opMSTORE).pushU(32).pushU(0).op(opRETURN).bytes()},
		{"revert0", (&asm{}).pushU(0).pushU(0).op(opREVERT).bytes()},
		{"revert32", (&asm{}).pushU(7).pushU(0).op(opMSTORE).pushU(32).pushU(0).op(opREVERT).bytes()},
		{"invalid", []byte{opINVALID}},
		{"underflow", []byte{opADD}},
		{"loop", []byte{opJUMPDEST, opPUSH1, 0, opJUMP}},
		{"selfdestruct", (&asm{}).pushU(0).op(opSELFDESTRUCT).bytes()},
		{"sstore-revert", (&asm{}).pushU(1).pushU(1).op(opSSTORE).pushU(0).pushU(0).op(opREVERT).bytes()},
		{"nested-revert", append(forwarder(opCALL, new(big.Int).SetBytes(auxBAddr.Bytes()), 0)[:0:0], (&asm{}).pushU(0).pushU(0).pushU(0).pushU(0).pushU(0).pushAddr(auxBAddr).op(opGAS, opCALL).pushU(0).pushU(0).op(opREVERT).bytes()...)},
	}
	var commit [32]byte
	commit[0] = 0x5c
	blob, authority := authBlob(targetAddr, commit, true, false)
	for _, op := range []byte{opCALL, opCALLCODE, opDELEGATECALL, opSTATICCALL, opAUTHCALL} {
		for _, oc := range outcomes {
			for gi, garg := range []*big.Int{nil, bigU(50000), bigU(0), pow2m1(256)} {
				for _, value := range []uint64{0, 1} {
					if value == 1 && (op == opDELEGATECALL || op == opSTATICCALL) {
						continue
					}
					a := &asm{}
					if op == opAUTHCALL {
						a.fillMem(blob).pushU(128).pushU(0).pushAddr(authority).op(opAUTH, opPOP)
						a.pushU(32).pushU(0).pushU(0).pushU(0).pushU(0).pushU(value).pushAddr(auxAAddr)
					} else {
						a.pushU(32).pushU(0).pushU(0).pushU(0)
						if op == opCALL || op == opCALLCODE {
							a.pushU(value)
						}
						a.pushAddr(auxAAddr)
					}
					if garg == nil {
						a.op(opGAS)
					} else {
						a.push(garg)
					}
					if op == opAUTHCALL {
						a.pushU(0) // the authority's nonce in the fresh state
					}
					a.op(op)
					a.pushU(1).op(opADD, opGAS, opPOP, opRETURNDATASIZE, opPOP).returnTop()
					for _, gas := range []uint64{100000, 2000000} {
						if gi > 1 && gas == 100000 {
							continue
						}
						add(Case{Fam: "subcall", Tag: fmt.Sprintf("%s/%s", opName(op), oc.name), Code: a.bytes(), Gas: gas,
							Aux: []Acct{{Addr: auxAAddr.GetHexString(), Code: oc.code}, {Addr: auxBAddr.GetHexString(), Code: outcomes[2].code}}})
					}
				}
			}
		}
	}
	_ = cfg
}

func genCreateLoops(r *mon.Run, cfg string, add func(Case)) {
	inits := [][]byte{
		{opSTOP},
		(&asm{}).pushU(1).pushU(0).op(opRETURN).bytes(),
		(&asm{}).pushU(4096).pushU(0).op(opRETURN).bytes(),
		(&asm{}).pushU(0x40000).pushU(0).op(opRETURN).bytes(), // > MaxCodeSize
		{opINVALID},
		{opJUMPDEST, opPUSH1, 0, opJUMP},
		(&asm{}).pushU(0).pushU(0).op(opREVERT).bytes(),
		(&asm{}).pushU(1).pushU(1).op(opSSTORE).op(opADDRESS, opSELFDESTRUCT).bytes(),
	}
	for _, op := range []byte{opCREATE, opCREATE2} {
		for ii, init := range inits {
			a := (&asm{}).fillMem(init)
			loop := a.pc()
			a.op(opJUMPDEST)
			if op == opCREATE2 {
				a.op(opGAS) // a fresh salt every round
			}
			a.pushU(uint64(len(init))).pushU(0).pushU(0).op(op).op(opPOP)
			a.push2(loop).op(opJUMP)
			for _, gas := range []uint64{20999, 100000, 2000000} {
				add(Case{Fam: "createloop", Tag: fmt.Sprintf("%s/init%d", opName(op), ii), Code: a.bytes(), Gas: gas, Expect: "top:oog"})
			}
			// the same init code as a top-level creation
			for _, gas := range gasSet {
				add(Case{Fam: "createloop", Tag: fmt.Sprintf("top/init%d", ii), Kind: "create", Code: init, Gas: gas})
			}
		}
	}
	// collision: CREATE2 twice with the same salt
	a := (&asm{}).fillMem([]byte{opSTOP})
	for i := 0; i < 2; i++ {
		a.pushU(5).pushU(1).pushU(0).pushU(0).op(opCREATE2, opPOP)
	}
	add(Case{Fam: "createloop", Tag: "CREATE2/collision", Code: a.bytes(), Gas: 2000000})
	_ = r
	_ = cfg
}

// probe builds "memory image; operands; op; STOP".
func probe(op byte, args []*big.Int, mem []byte, below []*big.Int) []byte {
	a := (&asm{}).fillMem(mem)
	a.pushArgs(below)
	a.pushArgs(args)
	a.op(op).op(opSTOP)
	return a.bytes()
}

func defaultArg(r role) *big.Int {
	switch r {
	case rOff:
		return bigU(0)
	case rLen:
		return bigU(32)
	case rAddr:
		return new(big.Int).SetBytes(auxAAddr.Bytes())
	case rGas:
		return bigU(50000)
	}
	return bigU(0)
}

func genMemExtremes(r *mon.Run, cfg string, add func(Case)) {
	rng := r.Rand("memext", cfg)
	aux := []Acct{{Addr: auxAAddr.GetHexString(), Code: (&asm{}).pushU(64).pushU(0).op(opRETURN).bytes()}}
	mems := [][]byte{nil, randBytes(rng, 32), randBytes(rng, 96)}
	emit := func(info opInfo, args []*big.Int) {
		mem := mems[rng.Intn(len(mems))]
		code := probe(info.op, args, mem, nil)
		if info.op == opRETURNDATACOPY && rng.Intn(2) == 0 {
			// have 64 bytes of return data first
			pre := (&asm{}).pushU(0).pushU(0).pushU(0).pushU(0).pushAddr(auxAAddr).op(opGAS, opSTATICCALL, opPOP).bytes()
			code = append(pre, code...)
		}
		add(Case{Fam: "memext", Tag: info.name, Code: code, Input: randBytes(rng, 40), Gas: []uint64{100000, 2000000, 2000000, 21000}[rng.Intn(4)], Aux: aux})
	}
	for _, op := range memOps {
		info := opTable[op]
		var pos []int
		for i, ro := range info.args {
			if ro == rOff || ro == rLen {
				pos = append(pos, i)
			}
		}
		base := func() []*big.Int {
			args := make([]*big.Int, len(info.args))
			for i, ro := range info.args {
				args[i] = defaultArg(ro)
			}
			if op == opAUTH {
				args[2] = bigU(128)
			}
			return args
		}
		for _, p := range pos {
			for _, v := range extremes {
				args := base()
				args[p] = v
				emit(info, args)
			}
		}
		for i := 0; i < len(pos); i++ {
			for j := i + 1; j < len(pos); j++ {
				for _, v1 := range extremes {
					for _, v2 := range extremes {
						args := base()
						args[pos[i]], args[pos[j]] = v1, v2
						emit(info, args)
					}
				}
			}
		}
	}
}

func genSweeps(r *mon.Run, cfg string, add func(Case)) {
	rng := r.Rand("sweeps", cfg)
	// EXP: exponent byte lengths 1..32, bases from the grid
	for k := uint(8); k <= 256; k += 8 {
		for _, base := range []*big.Int{bigU(0), bigU(2), bigU(3), pow2m1(256), pow2(255)} {
			for _, e := range []*big.Int{pow2m1(k), pow2(k - 1)} {
				a := (&asm{}).push(e).push(base).op(opEXP).returnTop()
				add(Case{Fam: "sweep", Tag: "EXP", Code: a.bytes(), Gas: []uint64{21000, 100000, 2000000}[rng.Intn(3)]})
			}
		}
	}
	// KECCAK256 / LOGn / RETURN / CALLDATACOPY over growing ranges up to what 2e6 gas can and cannot buy
	sizes := []uint64{0, 1, 31, 32, 33, 1024, 4096, 32768, 65536, 131072, 262144, 524288, 1 << 20, 1 << 22, 1 << 24, 1 << 28}
	for _, sz := range sizes {
		for _, off := range []uint64{0, 1, 32, 4095} {
			add(Case{Fam: "sweep", Tag: "KECCAK256", Code: (&asm{}).pushU(sz).pushU(off).op(opKECCAK).returnTop().bytes(), Gas: 2000000})
			for n := 0; n <= 4; n++ {
				a := &asm{}
				for j := 0; j < n; j++ {
					a.pushU(uint64(j))
				}
				a.pushU(sz).pushU(off).op(byte(0xa0 + n))
				add(Case{Fam: "sweep", Tag: fmt.Sprintf("LOG%d", n), Code: a.bytes(), Gas: 2000000})
			}
			add(Case{Fam: "sweep", Tag: "RETURN", Code: (&asm{}).pushU(sz).pushU(off).op(opRETURN).bytes(), Gas: 2000000})
			add(Case{Fam: "sweep", Tag: "CALLDATACOPY", Code: (&asm{}).pushU(sz).pushU(off).pushU(off).op(opCALLDATACOPY).op(opMSIZE).returnTop().bytes(), Input: randBytes(rng, 64), Gas: 2000000})
			add(Case{Fam: "sweep", Tag: "MSTORE", Code: (&asm{}).pushU(1).pushU(sz + off).op(opMSTORE).op(opMSIZE).returnTop().bytes(), Gas: []uint64{100000, 2000000}[rng.Intn(2)]})
		}
	}
	// memory grown in many small steps, then in one big one
	a := &asm{}
	loop := a.pc()
	a.op(opJUMPDEST).pushU(1).op(opMSIZE, opMSTORE).push2(loop).op(opJUMP)
	for _, gas := range []uint64{21000, 100000, 2000000} {
		add(Case{Fam: "sweep", Tag: "grow-loop", Code: a.bytes(), Gas: gas, Expect: "top:oog"})
	}
}

func genCustom(r *mon.Run, cfg string, add func(Case)) {
	rng := r.Rand("custom", cfg)
	g := &gen{rng: rng, cfg: cfg}
	n := r.Pick(260, 20000)
	for _, op := range customOps {
		info := opTable[op]
		for i := 0; i < n; i++ {
			var mem []byte
			if words := []int{0, 0, 1, 2, 3, 4, 4, 5, 8}[rng.Intn(9)]; words > 0 {
				mem = randBytes(rng, 32*words)
				if rng.Intn(3) == 0 {
					for j := range mem {
						mem[j] = 0
					}
					mem[len(mem)-1] = 1
				}
			}
			args := make([]*big.Int, len(info.args))
			arbitrary := rng.Intn(2) == 0
			for j, ro := range info.args {
				if arbitrary {
					args[j] = g.anyWord()
				} else {
					args[j] = g.operand(ro, nil)
				}
			}
			if op == opAUTH && rng.Intn(4) != 0 {
				// get past the length guard; offsets around the end of memory and the int64 boundary
				args[2] = []*big.Int{bigU(128), bigU(129), bigU(1 << 20), pow2m1(64), pow2m1(256)}[rng.Intn(5)]
				ml := uint64(len(mem))
				offs := []*big.Int{bigU(0), bigU(1), bigU(16), bigU(31), bigU(32), bigU(ml), pow2m1(63), pow2(63), pow2m1(64), pow2(64)}
				if ml >= 128 {
					offs = append(offs, bigU(ml-128), bigU(ml-127), bigU(ml-96), bigU(ml-33), bigU(ml-32), bigU(ml-1))
				} else if ml > 0 {
					offs = append(offs, bigU(ml-32), bigU(ml-1))
				}
				args[1] = offs[rng.Intn(len(offs))]
			}
			if (op == opSTAKE || op == opUNSTAKE || op == opUNSTAKEALL || op == opGETSTAKE || op == opSTAKENUM) && rng.Intn(3) != 0 {
				args[len(args)-1] = new(big.Int).SetBytes(targetAddr.Bytes())
			}
			var below []*big.Int
			for j := rng.Intn(4); j > 0; j-- {
				below = append(below, g.anyWord())
			}
			code := probe(op, args, mem, below)
			if rng.Intn(3) == 0 { // use the result afterwards
				code = append(code[:len(code)-1], (&asm{}).op(opMSIZE, opPOP).returnTop().bytes()...)
			}
			c := Case{Fam: "custom", Tag: info.name, Code: code, Input: randBytes(rng, rng.Intn(40)), Gas: pickGas(rng), Miner: rng.Intn(3)}
			if rng.Intn(5) == 0 {
				// the same probe in a static frame
				c.Aux = []Acct{{Addr: auxAAddr.GetHexString(), Code: code}}
				c.Code = forwarder(opSTATICCALL, new(big.Int).SetBytes(auxAAddr.Bytes()), 0)
				c.Tag += "/static"
			}
			add(c)
		}
	}
	// AUTH with a valid signature, followed by AUTHCALLs
	for i := 0; i < r.Pick(60, 4000); i++ {
		var commit [32]byte
		rng.Read(commit[:])
		inv := targetAddr
		blob, authority := authBlob(inv, commit, rng.Intn(2) == 0, rng.Intn(2) == 0)
		if rng.Intn(6) == 0 {
			blob[32+rng.Intn(96)] ^= 1 << uint(rng.Intn(8)) // spoiled signature
		}
		pad := 32 * rng.Intn(3)
		a := (&asm{}).fillMem(append(make([]byte, pad), blob...))
		a.pushU(128).pushU(uint64(pad)).pushAddr(authority).op(opAUTH)
		if rng.Intn(2) == 0 {
			a.op(opPOP)
		}
		for k := rng.Intn(3); k >= 0; k-- {
			args := []*big.Int{bigU(uint64(rng.Intn(2))), g.operand(rGas, nil), g.addr(), g.operand(rVal, nil), bigU(uint64(rng.Intn(8) / 7)), g.small(), g.small(), g.small(), g.small()}
			a.pushArgs(args).op(opAUTHCALL)
		}
		a.returnTop()
		add(Case{Fam: "custom", Tag: "AUTH+AUTHCALL", Code: a.bytes(), Gas: []uint64{100000, 2000000, 2000000}[rng.Intn(3)], Aux: helperCode(g)})
	}
}

// stack fills: every stack-growing opcode repeated past the limit
func genStackFill(cfg string, add func(Case)) {
	grow := []byte{0x30, 0x32, 0x33, 0x34, 0x36, 0x38, 0x3a, 0x3d, 0x41, 0x42, 0x43, 0x44, 0x45, 0x46, 0x47, 0x48, 0x4a, 0x58, 0x59, 0x5a, 0x5f}
	for _, op := range grow {
		code := make([]byte, 1030)
		for i := range code {
			code[i] = op
		}
		exp := "top:stack-overflow"
		if (op == 0x48 || op == 0x4a || op == 0x5f) && (cfg == "none" || cfg == "p014") {
			exp = "top:invalid-opcode"
		}
		add(Case{Fam: "stackfill", Tag: opName(op), Code: code, Gas: 2000000, Expect: exp})
	}
	for n := 1; n <= 32; n++ {
		a := &asm{}
		for i := 0; i < 1030; i++ {
			a.pushRaw(make([]byte, n))
		}
		add(Case{Fam: "stackfill", Tag: fmt.Sprintf("PUSH%d", n), Code: a.bytes(), Gas: 2000000, Expect: "top:stack-overflow"})
	}
	for n := 1; n <= 16; n++ {
		a := &asm{}
		for i := 0; i < n; i++ {
			a.pushU(uint64(i))
		}
		for i := 0; i < 1030; i++ {
			a.op(byte(0x7f + n))
		}
		add(Case{Fam: "stackfill", Tag: fmt.Sprintf("DUP%d", n), Code: a.bytes(), Gas: 2000000, Expect: "top:stack-overflow"})
	}
	// ops that pop and push at a full stack must still work: 1024 items then SWAP16 / ADD
	a := &asm{}
	for i := 0; i < 1024; i++ {
		a.pushU(1)
	}
	a.op(0x9f, opADD, opDUP1)
	add(Case{Fam: "stackfill", Tag: "full+DUP1", Code: a.bytes(), Gas: 2000000, Expect: "top:ok"})
	// a callee starts with an empty stack even when the caller's is full
	b := &asm{}
	for i := 0; i < 1017; i++ {
		b.pushU(1)
	}
	b.pushU(0).pushU(0).pushU(0).pushU(0).pushU(0).op(opADDRESS, opGAS, opCALL)
	add(Case{Fam: "stackfill", Tag: "full+CALL", Code: b.bytes(), Gas: 2000000})
}

// Structured byte strings for the jump-destination analysis: total length L,
// last opcode PUSHn followed by t of its n data bytes, a prefix that performs a
// taken JUMP / a taken JUMPI to a real JUMPDEST (the analysis is lazy: it runs on
// the first jump whose target byte is 0x5b) or a jump to a 0x5b that is PUSH data
// (must be an invalid jump), JUMPDEST filler in between so that the truncated
// PUSH is executed too. Quick: a selection of lengths covering every residue
// mod 8 and several multiples of 8, one run mode per program (rotating);
// thorough: every L in 1..80 in all six run modes.
func genPushTail(r *mon.Run, add func(Case)) {
	var lengths []int
	if r.Thorough() {
		for l := 1; l <= 80; l++ {
			lengths = append(lengths, l)
		}
	} else {
		for l := 1; l <= 25; l++ {
			lengths = append(lengths, l)
		}
		lengths = append(lengths, 31, 32, 33, 40, 47, 48, 49, 56, 63, 64, 65, 72, 79, 80)
	}
	prefixes := []struct {
		name string
		code []byte
		ok   bool
	}{
		{"jump", []byte{opPUSH1, 3, opJUMP, opJUMPDEST}, true},
		{"jumpi", []byte{opPUSH1, 1, opPUSH1, 5, opJUMPI, opJUMPDEST}, true},
		{"pushdata", []byte{opPUSH1, 4, opJUMP, opPUSH1, opJUMPDEST}, false},
	}
	modes := []string{"call", "delegatecall", "staticcall", "create", "CREATE", "CREATE2"}
	k := 0
	for _, L := range lengths {
		for n := 1; n <= 32; n++ {
			ts := []int{0, n - 1, n}
			if n == 1 {
				ts = []int{0, 1} // "all data missing" and "one byte missing" coincide
			}
			for _, t := range ts {
				for pi, pf := range prefixes {
					if L < len(pf.code)+1+t {
						continue
					}
					code := append([]byte{}, pf.code...)
					for len(code) < L-1-t {
						code = append(code, opJUMPDEST)
					}
					code = append(code, byte(0x5f+n))
					for j := 0; j < t; j++ {
						code = append(code, 0xff)
					}
					site := fmt.Sprintf("m%d:PUSH%d", L%8, n)
					tag := fmt.Sprintf("L%d/PUSH%d+%d/%s", L, n, t, pf.name)
					emit := func(mode string) {
						c := Case{Fam: "pushtail", Cell: site, Tag: tag + "/" + mode, Gas: 2000000}
						switch mode {
						case "call":
							c.Code = code
							c.Expect = map[bool]string{true: "top:ok", false: "top:bad-jump"}[pf.ok]
						case "delegatecall", "staticcall":
							op := byte(opDELEGATECALL)
							if mode == "staticcall" {
								op = opSTATICCALL
							}
							c.Code = forwarder(op, new(big.Int).SetBytes(auxAAddr.Bytes()), 0)
							c.Aux = []Acct{{Addr: auxAAddr.GetHexString(), Code: code}}
							c.Expect = map[bool]string{true: "word:nonzero", false: "word:zero"}[pf.ok]
						case "create":
							c.Kind, c.Code = "create", code
							c.Expect = map[bool]string{true: "top:ok", false: "top:bad-jump"}[pf.ok]
						default:
							a := (&asm{}).calldataToMem()
							if mode == "CREATE2" {
								a.pushU(uint64(L))
							}
							a.op(opCALLDATASIZE).pushU(0).pushU(0)
							if mode == "CREATE2" {
								a.op(opCREATE2)
							} else {
								a.op(opCREATE)
							}
							c.Code, c.Input = a.returnTop().bytes(), code
							c.Expect = map[bool]string{true: "word:nonzero", false: "word:zero"}[pf.ok]
						}
						add(c)
					}
					if r.Thorough() {
						for _, m := range modes {
							emit(m)
						}
					} else {
						emit(modes[(k+pi)%len(modes)])
					}
				}
				k++
			}
		}
	}
}

// creations around vm.MaxCodeSize: init code = SSTORE(1,1); LOG0; RETURN(0,size),
// endowed with 1 wei. 2e10 gas pays for the 1 MiB expansion and for the code
// deposit of MaxCodeSize bytes even at x30 prices.
func genBigCreate(add func(Case)) {
	const gas = uint64(20000000000)
	max := uint64(vm.MaxCodeSize)
	for _, size := range []uint64{max - 1, max, max + 1, max + 32, 2 * max, 1 << 20} {
		init := (&asm{}).pushU(1).pushU(1).op(opSSTORE).pushU(0).pushU(0).op(0xa0).pushU(size).pushU(0).op(opRETURN).bytes()
		for _, value := range []string{"", "1"} {
			add(Case{Fam: "bigcreate", Tag: fmt.Sprintf("top/%d", size), Kind: "create", Code: init, Gas: gas, Value: value, Expect: fmt.Sprintf("bigcreate:top:%d", size)})
			for _, op := range []byte{opCREATE, opCREATE2} {
				a := (&asm{}).calldataToMem()
				mode := "create"
				if op == opCREATE2 {
					a.pushU(0x2a)
					mode = "create2"
				}
				v := uint64(0)
				if value != "" {
					v = 1
				}
				a.op(opCALLDATASIZE).pushU(0).pushU(v).op(op).returnTop()
				add(Case{Fam: "bigcreate", Tag: fmt.Sprintf("%s/%d", opName(op), size), Code: a.bytes(), Input: init, Gas: gas, Expect: fmt.Sprintf("bigcreate:%s:%d", mode, size)})
			}
		}
	}
}

var (
	auxCAddr = common.HexToAddress("0x00000000000000000000000000000000c0de00a3")
	auxDAddr = common.HexToAddress("0x00000000000000000000000000000000c0de00a4")
)

// writerCode: nine operands (all 0 or all 1), the opcode, STOP.
func writerCode(op byte, pre int) []byte {
	a := &asm{}
	for i := 0; i < 9; i++ {
		a.pushU(uint64(pre))
	}
	return a.op(op, opSTOP).bytes()
}

// hop calls `next` with the given non-static call kind and fails (REVERT) iff the callee failed.
func hop(kind byte, next common.Address) []byte {
	a := (&asm{}).pushU(0).pushU(0).pushU(0).pushU(0)
	if kind == opCALL || kind == opCALLCODE {
		a.pushU(0)
	}
	a.pushAddr(next).op(opGAS).op(kind)
	ok := a.pc() + 3 + 1 + 5
	a.push2(ok).op(opJUMPI).pushU(0).pushU(0).op(opREVERT).op(opJUMPDEST, opSTOP)
	return a.bytes()
}

// STATICCALL -> 1..3 ordinary frames -> an opcode. For every opcode byte and two
// operand preludes; whether the opcode must be rejected is decided at run time
// from the active jump table (harness.probeWriters).
func genStaticChains(r *mon.Run, add func(Case)) {
	kinds := []byte{opCALL, opDELEGATECALL, opCALLCODE}
	var shapes [][]byte
	for _, a := range kinds {
		shapes = append(shapes, []byte{a})
		for _, b := range kinds {
			shapes = append(shapes, []byte{a, b})
			for _, c := range kinds {
				shapes = append(shapes, []byte{a, b, c})
			}
		}
	}
	addrs := []common.Address{auxAAddr, auxBAddr, auxCAddr, auxDAddr}
	emit := func(op byte, pre int, shape []byte) {
		var aux []Acct
		tag := "STATICCALL"
		for i, k := range shape {
			aux = append(aux, Acct{Addr: addrs[i].GetHexString(), Code: hop(k, addrs[i+1])})
			tag += ">" + opName(k)
		}
		aux = append(aux, Acct{Addr: addrs[len(shape)].GetHexString(), Code: writerCode(op, pre)})
		add(Case{Fam: "staticchain", Tag: tag + ">" + opName(op), Code: forwarder(opSTATICCALL, new(big.Int).SetBytes(auxAAddr.Bytes()), 0), Aux: aux,
			Gas: 2000000, Miner: 1, Expect: fmt.Sprintf("chainstatic:%d:%d", pre, op)})
	}
	// every chain shape for the opcodes that modify state in some configuration
	likely := []byte{opSSTORE, 0xa0, 0xa1, 0xa2, 0xa3, 0xa4, opCREATE, opCREATE2, opSELFDESTRUCT, opTSTORE, opSTAKE, opUNSTAKE, opUNSTAKEALL, opAUTHCALL}
	for _, op := range likely {
		for _, sh := range shapes {
			emit(op, 0, sh)
		}
	}
	for _, sh := range shapes {
		emit(opCALL, 1, sh) // CALL transferring value
	}
	// every opcode byte: one chain of each length, kinds rotating with the opcode
	all := r.Thorough()
	for op := 0; op < 256; op++ {
		for pre := 0; pre < 2; pre++ {
			if all {
				for _, sh := range shapes {
					emit(byte(op), pre, sh)
				}
				continue
			}
			k := func(i int) byte { return kinds[(op+pre+i)%3] }
			emit(byte(op), pre, []byte{k(0)})
			emit(byte(op), pre, []byte{k(1), k(2)})
			emit(byte(op), pre, []byte{k(2), k(0), k(1)})
		}
	}
}

// faults that must surface as an ordinary failed call
func genFaults(add func(Case)) {
	for _, op := range []byte{0xfe, 0x0c, 0x0f, 0x1e, 0x21, 0x2f, 0x4b, 0xa5, 0xbb, 0xe0, 0xf8, 0xfc} {
		for _, gas := range []uint64{0, 1, 100000} {
			add(Case{Fam: "fault", Tag: fmt.Sprintf("0x%02x", op), Code: []byte{op}, Gas: gas, Expect: "top:invalid-opcode"})
			add(Case{Fam: "fault", Tag: fmt.Sprintf("0x%02x", op), Code: append((&asm{}).pushU(1).pushU(1).op(opSSTORE).bytes(), op), Gas: 2000000, Expect: "top:invalid-opcode"})
		}
	}
	for op := 0; op < 256; op++ { // every opcode on an empty stack and on a one-item stack
		add(Case{Fam: "fault", Tag: "empty-stack", Code: []byte{byte(op)}, Gas: 2000000})
		add(Case{Fam: "fault", Tag: "one-item", Code: []byte{opPUSH1, 1, byte(op)}, Gas: 2000000})
		if info, ok := opTable[byte(op)]; ok && len(info.args) > 0 && !(op >= 0x5c && op <= 0x5f) && !(op >= 0xea && op <= 0xef) && op != 0xf6 && op != 0xf7 && op != 0x49 {
			add(Case{Fam: "fault", Tag: "underflow/" + info.name, Code: []byte{byte(op)}, Gas: 2000000, Expect: "top:stack-underflow"})
		}
	}
	jumps := [][]byte{
		(&asm{}).pushU(0).op(opJUMP).bytes(),
		(&asm{}).pushU(4).op(opJUMP).op(opPUSH1, opJUMPDEST).bytes(), // into PUSH data
		(&asm{}).pushU(3).op(opJUMP).bytes(),                         // end of code
		(&asm{}).pushU(200).op(opJUMP).bytes(),
		(&asm{}).push(pow2(64)).op(opJUMP).op(opJUMPDEST).bytes(),
		(&asm{}).push(pow2m1(256)).op(opJUMP).bytes(),
		(&asm{}).pushU(1).pushU(0).op(opJUMPI).bytes(),
		(&asm{}).pushU(1).push(new(big.Int).Add(pow2(64), bigU(5))).op(opJUMPI).op(opJUMPDEST).bytes(),
	}
	for i, code := range jumps {
		add(Case{Fam: "fault", Tag: fmt.Sprintf("bad-jump/%d", i), Code: code, Gas: 100000, Expect: "top:bad-jump"})
	}
	add(Case{Fam: "fault", Tag: "jumpi-not-taken", Code: (&asm{}).pushU(0).push(pow2m1(256)).op(opJUMPI).bytes(), Gas: 100000, Expect: "top:ok"})
	loop := []byte{opJUMPDEST, opPUSH1, 0, opJUMP}
	for _, gas := range gasSet {
		add(Case{Fam: "fault", Tag: "oog/loop", Code: loop, Gas: gas, Expect: "top:oog"})
	}
	add(Case{Fam: "fault", Tag: "oog/push", Code: []byte{opPUSH1, 1}, Gas: 1, Expect: "top:oog"})
	add(Case{Fam: "fault", Tag: "oog/zero", Code: []byte{opPUSH1, 1}, Gas: 0, Expect: "top:oog"})
	add(Case{Fam: "fault", Tag: "revert", Code: (&asm{}).pushU(1).pushU(1).op(opSSTORE).pushU(0).pushU(0).op(opREVERT).bytes(), Gas: 2000000, Expect: "top:revert"})
	// state-modifying ops in a static frame
	writers := map[string][]byte{
		"SSTORE":       (&asm{}).pushU(1).pushU(1).op(opSSTORE).bytes(),
		"LOG0":         (&asm{}).pushU(0).pushU(0).op(0xa0).bytes(),
		"LOG4":         (&asm{}).pushU(0).pushU(0).pushU(0).pushU(0).pushU(0).pushU(0).op(0xa4).bytes(),
		"CREATE":       (&asm{}).pushU(0).pushU(0).pushU(0).op(opCREATE).bytes(),
		"CREATE2":      (&asm{}).pushU(0).pushU(0).pushU(0).pushU(0).op(opCREATE2).bytes(),
		"SELFDESTRUCT": (&asm{}).pushU(0).op(opSELFDESTRUCT).bytes(),
		"CALL+value":   (&asm{}).pushU(0).pushU(0).pushU(0).pushU(0).pushU(1).pushU(0xdd).pushU(0).op(opCALL).bytes(),
	}
	names := make([]string, 0, len(writers))
	for n := range writers {
		names = append(names, n)
	}
	sort.Strings(names)
	for _, n := range names {
		for _, nested := range []bool{false, true} {
			inner := writers[n]
			aux := []Acct{{Addr: auxAAddr.GetHexString(), Code: inner}}
			if nested {
				// static frame -> ordinary CALL -> writer: the flag must survive the nested call
				aux = []Acct{{Addr: auxAAddr.GetHexString(), Code: forwarder(opCALL, new(big.Int).SetBytes(auxBAddr.Bytes()), 0)}, {Addr: auxBAddr.GetHexString(), Code: inner}}
			}
			c := Case{Fam: "fault", Tag: "static/" + n, Code: forwarder(opSTATICCALL, new(big.Int).SetBytes(auxAAddr.Bytes()), 0), Aux: aux, Gas: 2000000}
			if !nested {
				c.Expect = "inner:write-protection"
			}
			add(c)
		}
	}
}

func genPrecompiles(r *mon.Run, cfg string, add func(Case)) {
	rng := r.Rand("precompiles", cfg)
	valid, fail := loadVectors()
	perFile := r.Pick(5, 200)
	flips := r.Pick(3, 12)
	hexb := func(s string) []byte { b, _ := hex.DecodeString(s); return b }
	callOps := []byte{opCALL, opCALLCODE, opDELEGATECALL, opSTATICCALL}
	emit := func(pre int, in []byte, gas uint64, expect string) {
		add(Case{Fam: "precompile", Kind: "pre", Pre: pre, Tag: fmt.Sprintf("pre%02d", pre), Input: in, Gas: gas, Expect: expect})
	}
	viaCall := func(pre int, in []byte, gas uint64) {
		op := callOps[rng.Intn(4)]
		add(Case{Fam: "precompile-call", Tag: fmt.Sprintf("pre%02d/%s", pre, opName(op)), Code: forwarder(op, bigU(uint64(pre)), 0), Input: in, Gas: gas})
		if rng.Intn(3) == 0 {
			add(Case{Fam: "precompile-call", Tag: fmt.Sprintf("pre%02d/top", pre), To: preAddr(pre).GetHexString(), Input: in, Gas: gas,
				Value: []string{"", "", "1"}[rng.Intn(3)]})
		}
	}
	both := func(pre int, in []byte, gas uint64) {
		emit(pre, in, gas, "")
		viaCall(pre, in, gas)
	}
	for pre := 0; pre <= 19; pre++ {
		for _, gas := range gasSet {
			both(pre, nil, gas)
			both(pre, []byte{0}, gas)
			both(pre, []byte{0xff}, gas)
		}
		for _, l := range []int{31, 32, 33, 64, 96, 127, 128, 129, 160, 192, 212, 213, 214, 256, 288, 384, 512, 1000} {
			both(pre, randBytes(rng, l), pickGas(rng))
			both(pre, make([]byte, l), 2000000)
			ff := make([]byte, l)
			for i := range ff {
				ff[i] = 0xff
			}
			both(pre, ff, 2000000)
		}
	}
	for pre := 1; pre <= 18; pre++ {
		vs := valid[pre]
		for i, v := range vs {
			if i >= perFile {
				break
			}
			in := hexb(v.Input)
			emit(pre, in, 100000000, "ret:"+v.Expected)
			viaCall(pre, in, 2000000)
			for k := 0; k < flips; k++ {
				if len(in) == 0 {
					break
				}
				m := append([]byte{}, in...)
				m[rng.Intn(len(m))] ^= 1 << uint(rng.Intn(8))
				both(pre, m, []uint64{100000, 2000000, 100000000}[rng.Intn(3)])
			}
			if len(in) > 1 {
				both(pre, in[:len(in)-1], 2000000)
				both(pre, in[:len(in)/2], 2000000)
				both(pre, in[1:], 2000000)
			}
			both(pre, append(append([]byte{}, in...), 0), 2000000)
			both(pre, append(append([]byte{}, in...), make([]byte, 32)...), 2000000)
			both(pre, append(append([]byte{}, in...), in...), 2000000)
		}
		for _, v := range fail[pre] {
			both(pre, hexb(v.Input), 2000000)
			both(pre, hexb(v.Input), 100000000)
		}
	}
	// modexp: huge length fields over short data
	lens := []*big.Int{bigU(0), bigU(1), bigU(32), bigU(33), bigU(1 << 32), pow2m1(63), pow2(63), pow2m1(64), pow2(64), pow2m1(256)}
	for _, bl := range lens {
		for _, el := range lens {
			for _, ml := range lens {
				in := append(append(leftPad(bl.Bytes(), 32), leftPad(el.Bytes(), 32)...), leftPad(ml.Bytes(), 32)...)
				in = append(in, randBytes(rng, []int{0, 1, 32, 100}[rng.Intn(4)])...)
				gas := []uint64{100000, 2000000}[rng.Intn(2)]
				emit(5, in, gas, "")
				if rng.Intn(4) == 0 {
					viaCall(5, in, gas)
				}
			}
		}
	}
	// blake2F: lengths around 213, final flag values, round counts
	if vs := valid[9]; len(vs) > 0 {
		base := hexb(vs[0].Input)
		for _, rounds := range []uint32{0, 1, 12, 100000, 2000000, 2000001, 0x7fffffff, 0xffffffff} {
			for _, fin := range []byte{0, 1, 2, 0xff} {
				m := append([]byte{}, base...)
				m[0], m[1], m[2], m[3] = byte(rounds>>24), byte(rounds>>16), byte(rounds>>8), byte(rounds)
				m[212] = fin
				both(9, m, 2000000)
			}
		}
		both(9, base[:212], 2000000)
		both(9, append(append([]byte{}, base...), 1), 2000000)
	}
}

// charge-wrap seekers: memory sizes for which a (doubly) magnified gas charge wraps uint64
func genGasWrap(add func(Case)) {
	type spec struct {
		op            byte
		k, base, perB uint64
		gas           uint64
		site          string
	}
	specs := []spec{
		{opCALLDATACOPY, 3, 0, 0, 100000, "memoryCopierGas"}, {opCODECOPY, 3, 0, 0, 100000, "memoryCopierGas"}, {opEXTCODECOPY, 3, 0, 0, 100000, "memoryCopierGas"},
		{opRETURNDATACOPY, 3, 0, 0, 100000, "memoryCopierGas"}, {opMCOPY, 3, 0, 0, 100000, "memoryCopierGas"},
		{opKECCAK, 6, 0, 0, 100000, "gasSha3"}, {opCREATE2, 6, 0, 0, 2000000, "gasCreate2"},
		{0xa0, 0, 375, 8, 100000, "makeGasLog"}, {0xa1, 0, 750, 8, 100000, "makeGasLog"}, {0xa2, 0, 1125, 8, 100000, "makeGasLog"}, {0xa3, 0, 1500, 8, 100000, "makeGasLog"}, {0xa4, 0, 1875, 8, 100000, "makeGasLog"},
	}
	for _, s := range specs {
		w, length, ok := wrapParams(s.k, s.base, s.perB)
		if !ok {
			continue
		}
		info := opTable[s.op]
		for variant := 0; variant < 3; variant++ {
			ln := length
			switch variant {
			case 1:
				ln = length - 64 // just below the wrap: charge close to 2^64, ordinary out-of-gas
			case 2:
				ln = length + 32*5000 // a little above: charge of a few hundred thousand gas
			}
			off := w*32 - ln
			args := make([]*big.Int, len(info.args))
			for i, ro := range info.args {
				args[i] = defaultArg(ro)
			}
			switch s.op {
			case opCALLDATACOPY, opCODECOPY, opRETURNDATACOPY, opMCOPY:
				args[0], args[1], args[2] = bigU(off), bigU(0), bigU(ln)
			case opEXTCODECOPY:
				args[1], args[2], args[3] = bigU(off), bigU(0), bigU(ln)
			case opKECCAK:
				args[0], args[1] = bigU(off), bigU(ln)
			case opCREATE2:
				args[0], args[1], args[2], args[3] = bigU(0), bigU(off), bigU(ln), bigU(1)
			default: // LOGn
				args[0], args[1] = bigU(off), bigU(ln)
			}
			add(Case{Fam: "gaswrap", Tag: info.name, Site: s.site, Code: probe(s.op, args, nil, nil), Gas: s.gas})
		}
	}
}
