// C11 — EVM execution is total and resource-bounded.
//
// Monitor: an online trace checker on the interpreter hooks H7
// (vm.VerifStepHook / vm.VerifFrameHook) plus boundary checks around the REAL
// vm.EVM.Call / Create / RunPrecompiledContract:
//
//   - per frame the gas seen at consecutive steps never increases (a call-type
//     op may hand gas to a callee and get some back, never more than it had),
//   - a callee never starts with more gas than its caller had (+ the 2300 stipend),
//   - stack length <= 1024 at every step, call depth <= 1025 (CallCreateDepth+1),
//   - a step that grew memory from m0 to m1 paid at least C(m1)-C(m0),
//     C(w) = 3w + w*w/512 (Yellow Paper; Rangers charges that or a multiple),
//   - 0 <= leftOverGas <= supplied gas at the boundary,
//   - a failed top-level call leaves the state root unchanged,
//   - no input makes the host panic or die (every case runs in a child process,
//     logged before it is executed; panics are additionally recovered in place so
//     that one child can find many of them).
//
// Workload: raw random byte strings as code / init code, opcode-weighted random
// programs, adversarial templates, every precompile directly and through CALL*;
// four fork configurations of the jump table, one per child process.
package main

import (
	"encoding/json"
	"fmt"
	"math/big"
	"os"
	"regexp"
	"runtime"
	"runtime/debug"
	"strconv"
	"strings"
	"syscall"
	"time"

	"com.tuntun.rangers/node/src/common"
	crypto "com.tuntun.rangers/node/src/eth_crypto"
	"com.tuntun.rangers/node/src/middleware/db"
	"com.tuntun.rangers/node/src/middleware/types"
	"com.tuntun.rangers/node/src/service"
	"com.tuntun.rangers/node/src/storage/account"
	"com.tuntun.rangers/node/src/vm"

	"verifharness/env"
	"verifharness/mon"
)

// ---------------------------------------------------------------------------
// cases

type Acct struct {
	Addr string  `json:"addr"`
	Code mon.Hex `json:"code"`
}

// Case is one self-contained execution: fresh state, one boundary call.
type Case struct {
	Pos    int     `json:"pos"` // position in the (seed, tier, cfg) case list
	Cfg    string  `json:"cfg"`
	Fam    string  `json:"fam"`
	Tag    string  `json:"tag,omitempty"`  // opcode / precompile a template is about
	Cell   string  `json:"cell,omitempty"` // pushtail sweep: (length mod 8, last opcode)
	Site   string  `json:"site,omitempty"` // code site a template aims at (part of the signature when the child dies)
	Kind   string  `json:"kind"`           // call | create | pre
	To     string  `json:"to,omitempty"`   // call target (default: the contract under test)
	Code   mon.Hex `json:"code,omitempty"` // code of the contract under test, or init code
	Input  mon.Hex `json:"input,omitempty"`
	Gas    uint64  `json:"gas"`
	Value  string  `json:"value,omitempty"` // decimal wei
	Aux    []Acct  `json:"aux,omitempty"`
	Miner  int     `json:"miner,omitempty"`  // 1: contract is a validator's account, 2: a proposer's
	Pre    int     `json:"pre,omitempty"`    // kind=pre: precompile address
	Expect string  `json:"expect,omitempty"` // top:<kind> | inner:<kind> | depth-limit | stack-1024
}

var (
	originAddr = common.HexToAddress("0x00000000000000000000000000000000000000c1")
	coinbase   = common.HexToAddress("0x00000000000000000000000000000000000000c2")
	targetAddr = common.HexToAddress("0x00000000000000000000000000000000c0de0011")
	auxAAddr   = common.HexToAddress("0x00000000000000000000000000000000c0de00a1")
	auxBAddr   = common.HexToAddress("0x00000000000000000000000000000000c0de00a2")
	blockNum   = uint64(10)
	far        = uint64(1) << 60
)

var cfgNames = []string{"none", "p014", "p014p022", "all"}

func forksFor(cfg string) env.Forks {
	switch cfg {
	case "none":
		return env.Forks{Override: map[int]uint64{14: far, 22: far, 26: far}}
	case "p014":
		return env.Forks{Override: map[int]uint64{22: far, 26: far}}
	case "p014p022":
		return env.Forks{Override: map[int]uint64{26: far}}
	}
	return env.Forks{}
}

// ---------------------------------------------------------------------------
// trace checker

const (
	maxStackLen = 1024
	maxDepth    = 1025 // evm.depth may be CallCreateDepth (1024) when a frame is entered, Run increments it
	callStipend = 2300
)

type frame struct {
	depth    int
	entryGas uint64
	lastGas  uint64
	lastMem  int
	lastOp   byte
	lastPC   uint64
	steps    int
	static   bool // entered through STATICCALL, or below a frame that was
}

type pending struct{ sig, what string }

type tracker struct {
	frames   []frame
	viol     []pending
	supplied uint64

	steps, nframes, memGrow, below30 int64
	staticSteps                      int64
	overBudget                       bool
	maxDepthSeen, maxStackSeen       int
	opHist                           [256]int64
	faults                           map[string]int64
	inconsistent                     int64
	p026                             bool
	quiet                            bool
	cancel                           func() // aborts the running EVM (vm.EVM.Cancel)
	cancelled                        bool
}

// stepBudget: no case of the workload can take this many interpreter steps on a
// tree that charges for its steps (random programs get <= 2e6 gas, the 1e16-gas
// templates are bounded by the call depth); beyond it the run is cut short.
const stepBudget = 50000000

func (t *tracker) abort() {
	if !t.cancelled && t.cancel != nil {
		t.cancelled = true
		t.cancel()
	}
}

func (t *tracker) reset(supplied uint64) {
	t.frames = t.frames[:0]
	t.viol = t.viol[:0]
	t.supplied = supplied
	t.faults = map[string]int64{}
	t.steps, t.nframes, t.memGrow, t.below30, t.inconsistent, t.staticSteps = 0, 0, 0, 0, 0, 0
	t.maxDepthSeen, t.maxStackSeen = 0, 0
	t.cancel, t.cancelled, t.overBudget = nil, false, false
	t.opHist = [256]int64{}
}

func (t *tracker) flag(sig, what string) {
	for _, p := range t.viol {
		if p.sig == sig {
			return
		}
	}
	t.viol = append(t.viol, pending{sig, what})
}

// memCost is the Yellow Paper memory cost of a memory of n bytes.
func memCost(n int) uint64 {
	w := (uint64(n) + 31) / 32
	return 3*w + w*w/512
}

func isCallType(op byte) bool {
	switch op {
	case opCALL, opCALLCODE, opDELEGATECALL, opSTATICCALL, opCREATE, opCREATE2, opAUTHCALL:
		return true
	}
	return false
}

// check compares the state seen now (next step of the frame, or its exit) with
// the state recorded before the frame's last step.
func (t *tracker) check(f *frame, gas uint64, memLen int, where string) {
	if gas > f.lastGas {
		sig := "C11:step:gas-increased"
		if f.steps > 0 && isCallType(f.lastOp) {
			sig = "C11:step:gas-increased-after-call"
		}
		t.flag(sig, fmt.Sprintf("depth %d %s: gas %d after op 0x%02x at pc %d, %d before it", f.depth, where, gas, f.lastOp, f.lastPC, f.lastGas))
		t.abort() // a frame that gains gas need not terminate: the violation is recorded, stop the run
		return
	}
	if memLen > f.lastMem {
		t.memGrow++
		need := memCost(memLen) - memCost(f.lastMem)
		paid := f.lastGas - gas
		if paid < need {
			t.flag("C11:step:memory-undercharged", fmt.Sprintf("depth %d %s: op 0x%02x at pc %d grew memory %d -> %d bytes for %d gas, expansion alone costs %d",
				f.depth, where, f.lastOp, f.lastPC, f.lastMem, memLen, paid, need))
		} else if t.p026 && paid < 30*need {
			t.below30++
		}
	}
}

func (t *tracker) onStep(depth int, pc uint64, op byte, gas uint64, stackLen int, memLen int, readOnly bool) {
	t.steps++
	if t.steps == stepBudget {
		t.overBudget = true
		t.abort()
	}
	t.opHist[op]++
	if depth > t.maxDepthSeen {
		t.maxDepthSeen = depth
	}
	if stackLen > t.maxStackSeen {
		t.maxStackSeen = stackLen
	}
	if stackLen > maxStackLen {
		t.flag("C11:step:stack-over-1024", fmt.Sprintf("depth %d pc %d op 0x%02x: stack holds %d items", depth, pc, op, stackLen))
	}
	if depth > maxDepth {
		t.flag("C11:step:depth-over-1025", fmt.Sprintf("step at call depth %d (pc %d op 0x%02x)", depth, pc, op))
	}
	n := len(t.frames)
	if n == 0 || t.frames[n-1].depth != depth {
		t.inconsistent++
		return
	}
	f := &t.frames[n-1]
	t.check(f, gas, memLen, "step")
	if f.static {
		t.staticSteps++
		if !readOnly {
			t.flag("C11:step:static-flag-lost", fmt.Sprintf("depth %d pc %d op 0x%02x runs with the read-only flag cleared although an ancestor frame was entered through STATICCALL", depth, pc, op))
		}
	}
	f.lastGas, f.lastMem, f.lastOp, f.lastPC = gas, memLen, op, pc
	f.steps++
}

func (t *tracker) onFrame(enter bool, depth int, gas uint64, memLen int, err error) {
	n := len(t.frames)
	if enter {
		t.nframes++
		if depth > t.maxDepthSeen {
			t.maxDepthSeen = depth
		}
		if depth > maxDepth {
			t.flag("C11:step:depth-over-1025", fmt.Sprintf("frame entered at call depth %d", depth))
		}
		if n == 0 {
			if gas > t.supplied {
				t.flag("C11:frame:entry-gas-exceeds-supplied", fmt.Sprintf("top frame starts with %d gas, %d supplied", gas, t.supplied))
			}
		} else {
			p := &t.frames[n-1]
			if gas > p.lastGas+callStipend || p.lastGas+callStipend < p.lastGas {
				if gas > p.lastGas+callStipend {
					t.flag("C11:frame:entry-gas-exceeds-caller", fmt.Sprintf("frame at depth %d starts with %d gas; caller had %d before op 0x%02x", depth, gas, p.lastGas, p.lastOp))
				}
			}
		}
		if depth != n+1 {
			t.inconsistent++
		}
		static := n > 0 && (t.frames[n-1].static || t.frames[n-1].lastOp == opSTATICCALL)
		t.frames = append(t.frames, frame{depth: depth, entryGas: gas, lastGas: gas, static: static})
		return
	}
	if n == 0 || t.frames[n-1].depth != depth {
		t.inconsistent++
		return
	}
	f := &t.frames[n-1]
	t.check(f, gas, memLen, "exit")
	t.faults[errKind(err)]++
	t.frames = t.frames[:n-1]
}

func errKind(err error) string {
	switch err {
	case nil:
		return "ok"
	case vm.ErrExecutionReverted:
		return "revert"
	case vm.ErrOutOfGas:
		return "oog"
	case vm.ErrInvalidJump:
		return "bad-jump"
	case vm.ErrWriteProtection:
		return "write-protection"
	case vm.ErrDepth:
		return "depth"
	case vm.ErrInsufficientBalance:
		return "insufficient-balance"
	case vm.ErrGasUintOverflow:
		return "gas-overflow"
	case vm.ErrReturnDataOutOfBounds:
		return "returndata-oob"
	case vm.ErrContractAddressCollision:
		return "address-collision"
	case vm.ErrCodeStoreOutOfGas:
		return "codestore-oog"
	case vm.ErrMaxCodeSizeExceeded:
		return "max-code-size"
	}
	switch err.(type) {
	case *vm.ErrStackUnderflow:
		return "stack-underflow"
	case *vm.ErrStackOverflow:
		return "stack-overflow"
	case *vm.ErrInvalidOpCode:
		return "invalid-opcode"
	}
	if strings.HasPrefix(err.Error(), "no such miner") {
		return "custom:no-such-miner"
	}
	return "other"
}

// ---------------------------------------------------------------------------
// harness (one per process: fork schedule and services are process globals)

type harness struct {
	r       *mon.Run
	cfg     string
	ctx     vm.Context
	t       *tracker
	scratch string
	defined [256]bool

	minimized map[string]int
	writeProt [2][256]bool // [operand prelude][opcode]: rejected with ErrWriteProtection directly below a STATICCALL
	nDistinct int
	baseDB    account.AccountDatabase
	baseRoot  [3]common.Hash
}

func boot(r *mon.Run, cfg string) *harness {
	h := &harness{r: r, cfg: cfg, t: &tracker{}, minimized: map[string]int{}}
	h.scratch = env.ScratchDir("verif-c11-")
	env.BootServices(forksFor(cfg))
	// UNSTAKE / UNSTAKEALL go through the refund manager; with Proposal012 active
	// (default schedule) it never consults the two helpers.
	service.InitRefundManager(nil, nil)
	common.SetBlockHeight(blockNum)
	h.t.p026 = common.IsProposal026()
	h.ctx = vm.Context{
		CanTransfer: vm.CanTransfer, Transfer: vm.Transfer,
		GetHash: func(n uint64) common.Hash {
			var x common.Hash
			x[0], x[31] = 0xb1, byte(n)
			return x
		},
		Origin:      originAddr,
		GasPrice:    big.NewInt(1000000000),
		Coinbase:    coinbase,
		GasLimit:    2000000,
		BlockNumber: new(big.Int).SetUint64(blockNum),
		Time:        big.NewInt(1700000000),
		Difficulty:  big.NewInt(123),
	}
	h.initBase()
	vm.VerifStepHook = h.t.onStep
	vm.VerifFrameHook = h.t.onFrame
	h.probe()
	h.probeWriters()
	return h
}

func (h *harness) cleanup() {
	if strings.Contains(h.scratch, "verif-c11-") {
		os.Chdir("/")
		os.RemoveAll(h.scratch)
	}
}

// probeWriters derives the state-modifying opcodes from the active jump table by
// behaviour: every opcode, on nine zero / nine one operands, directly below a
// STATICCALL; those that end with ErrWriteProtection are the write-flagged ones.
func (h *harness) probeWriters() {
	n := 0
	for pre := 0; pre < 2; pre++ {
		for op := 0; op < 256; op++ {
			c := Case{Cfg: h.cfg, Kind: "call", Gas: 100000000, Miner: 1,
				Code: forwarder(opSTATICCALL, new(big.Int).SetBytes(auxAAddr.Bytes()), 0),
				Aux:  []Acct{{Addr: auxAAddr.GetHexString(), Code: writerCode(byte(op), pre)}}}
			res := h.exec(&c)
			if res.panicSite == "" && res.err == nil && h.t.faults["write-protection"] > 0 {
				h.writeProt[pre][op] = true
				n++
			}
		}
	}
	h.r.Max("max_write_flagged_"+h.cfg, int64(n))
}

// probe finds out which opcodes the jump table of this configuration defines.
func (h *harness) probe() {
	n := 0
	for op := 0; op < 256; op++ {
		res := h.exec(&Case{Cfg: h.cfg, Kind: "call", Code: []byte{byte(op)}, Gas: 100000000})
		_, undefined := res.err.(*vm.ErrInvalidOpCode)
		h.defined[op] = !undefined && res.panicSite == ""
		if h.defined[op] {
			n++
		}
	}
	h.r.Max("max_table_defined_"+h.cfg, int64(n))
}

var oneToken = new(big.Int).Exp(big.NewInt(10), big.NewInt(18), nil)

// The common part of every pre-state (funded origin, the account under test,
// the miner registries every real chain has since genesis; optionally the
// account under test registered as a validator's / proposer's account) is built
// once per process and committed to an in-memory store; each case opens a fresh
// AccountDB on that root and adds its own contracts, never committing.
func (h *harness) initBase() {
	mem, _ := db.NewMemDatabase()
	h.baseDB = account.NewDatabase(mem)
	for m := 0; m < 3; m++ {
		adb, err := account.NewAccountDB(common.Hash{}, h.baseDB)
		if err != nil {
			panic(err)
		}
		adb.SetBalance(originAddr, new(big.Int).Mul(oneToken, big.NewInt(1000000000)))
		adb.SetNonce(originAddr, 1)
		adb.SetNonce(targetAddr, 1)
		adb.SetBalance(targetAddr, new(big.Int).Mul(oneToken, big.NewInt(100000)))
		mk := func(id byte, typ byte, stake uint64, acct []byte) *types.Miner {
			mid := make([]byte, 32)
			mid[0], mid[31] = 0xaa, id
			return &types.Miner{Id: mid, PublicKey: []byte{1, 2, 3, id}, VrfPublicKey: []byte{4, 5, 6, id}, Type: typ, Stake: stake, Account: acct, Status: common.MinerStatusNormal}
		}
		service.MinerManagerImpl.InsertMiner(mk(1, common.MinerTypeValidator, 400, common.HexToAddress("0x00000000000000000000000000000000000000d1").Bytes()), adb)
		service.MinerManagerImpl.InsertMiner(mk(2, common.MinerTypeProposer, 2000, common.HexToAddress("0x00000000000000000000000000000000000000d2").Bytes()), adb)
		switch m {
		case 1:
			service.MinerManagerImpl.InsertMiner(mk(3, common.MinerTypeValidator, 1000, targetAddr.Bytes()), adb)
		case 2:
			service.MinerManagerImpl.InsertMiner(mk(4, common.MinerTypeProposer, 5000, targetAddr.Bytes()), adb)
		}
		root, err := adb.Commit(true)
		if err != nil {
			panic(err)
		}
		h.baseRoot[m] = root
	}
}

func (h *harness) newState(c *Case) *account.AccountDB {
	m := c.Miner
	if m < 0 || m > 2 {
		m = 0
	}
	adb, err := account.NewAccountDB(h.baseRoot[m], h.baseDB)
	if err != nil {
		panic(err)
	}
	if c.Kind == "call" {
		adb.SetCode(targetAddr, c.Code)
	}
	for _, a := range c.Aux {
		addr := common.HexToAddress(a.Addr)
		adb.SetCode(addr, a.Code)
		adb.SetNonce(addr, 1)
	}
	return adb
}

type execResult struct {
	err        error
	left       uint64
	ret        []byte
	root0      common.Hash
	root1      common.Hash
	rootNonce  common.Hash // kind=create, failure: root with the caller nonce put back
	panicSite  string
	panicMsg   string
	panicStack string
	viol       []pending
	steps      int64
	preEntered bool
	adb        *account.AccountDB
}

var (
	reOpFrame   = regexp.MustCompile(`com\.tuntun\.rangers/node/src/(vm\.(?:op[A-Z]\w*|make\w+\.func\d+|gas[A-Z]\w*|memory[A-Z]\w*|\(\*\w+\)\.(?:Run|RequiredGas)|run[A-Z]\w*))\(`)
	reRepoFrame = regexp.MustCompile(`com\.tuntun\.rangers/node/src/([^\s(]+(?:\([^)]*\))?[^\s(]*)\(`)
)

// crashSite names the opcode / precompile / gas function a crash happened in
// (first such frame below the panic), else the first repository frame.
func crashSite(stack string) string {
	idx := strings.Index(stack, "panic(")
	if idx < 0 {
		idx = strings.Index(stack, "runtime.throw")
	}
	if idx < 0 {
		idx = 0
	}
	s := stack[idx:]
	// stop at the interpreter loop: frames above it belong to callers
	if m := reOpFrame.FindStringSubmatch(s); m != nil {
		return m[1]
	}
	if m := reRepoFrame.FindStringSubmatch(s); m != nil {
		return m[1]
	}
	return "unknown"
}

// preAddr is the 20-byte address 0x00..0n (common.BytesToAddress would put a
// short input at the front of the address).
func preAddr(n int) common.Address {
	var a common.Address
	a[19] = byte(n)
	return a
}

func caseValue(c *Case) *big.Int {
	v := new(big.Int)
	if c.Value != "" {
		v.SetString(c.Value, 10)
	}
	return v
}

// exec runs one case against the real EVM and only observes.
func (h *harness) exec(c *Case) (res execResult) {
	if c.Kind == "pre" {
		p, ok := vm.PrecompiledContracts[preAddr(c.Pre)]
		if !ok {
			return
		}
		res.preEntered = true
		func() {
			defer func() {
				if e := recover(); e != nil {
					st := string(debug.Stack())
					res.panicSite, res.panicMsg, res.panicStack = crashSite(st), fmt.Sprint(e), st
				}
			}()
			res.ret, res.left, res.err = vm.RunPrecompiledContract(p, c.Input, c.Gas)
		}()
		return
	}
	adb := h.newState(c)
	res.root0 = adb.IntermediateRoot(true)
	h.t.reset(c.Gas)
	ctx := h.ctx
	ctx.GasLimit = c.Gas
	evm := vm.NewEVMWithNFT(ctx, adb, adb)
	h.t.cancel = evm.Cancel
	caller := vm.AccountRef(originAddr)
	val := caseValue(c)
	func() {
		defer func() {
			if e := recover(); e != nil {
				st := string(debug.Stack())
				res.panicSite, res.panicMsg, res.panicStack = crashSite(st), fmt.Sprint(e), st
			}
		}()
		if c.Kind == "create" {
			res.ret, _, res.left, _, res.err = evm.Create(caller, c.Code, c.Gas, val)
		} else {
			to := targetAddr
			if c.To != "" {
				to = common.HexToAddress(c.To)
			}
			res.ret, res.left, _, res.err = evm.Call(caller, to, c.Input, c.Gas, val)
		}
	}()
	res.steps = h.t.steps
	res.viol = append([]pending{}, h.t.viol...)
	if res.panicSite != "" {
		return
	}
	if len(h.t.frames) != 0 || h.t.inconsistent != 0 {
		res.viol = append(res.viol, pending{"machinery", fmt.Sprintf("hook bookkeeping inconsistent: %d open frames, %d mismatches", len(h.t.frames), h.t.inconsistent)})
	}
	res.root1 = adb.IntermediateRoot(true)
	res.adb = adb
	if c.Kind == "create" && res.err != nil && res.root1 != res.root0 {
		// geth semantics: the creator's nonce is bumped before the snapshot
		adb.SetNonce(originAddr, 1)
		res.rootNonce = adb.IntermediateRoot(true)
	}
	if res.root0 == (common.Hash{}) || res.root0 == h.baseRoot[0] && len(c.Code) > 0 && c.Kind == "call" {
		res.viol = append(res.viol, pending{"machinery", "pre-state root does not reflect the case's contracts"})
	}
	return
}

func (h *harness) witness(c *Case, extra map[string]interface{}) map[string]interface{} {
	w := map[string]interface{}{"case": c}
	for k, v := range extra {
		w[k] = v
	}
	return w
}

// run executes and judges one case.
func (h *harness) run(c *Case) {
	r := h.r
	var res execResult
	// r.Guard is the backstop (a panic outside exec's own recover, e.g. in state setup)
	r.Guard("C11:host", c, func() { res = h.exec(c) })
	r.Count("cases_run", 1)
	r.Count("cases:"+c.Fam, 1)
	if res.panicSite != "" {
		r.Count("host_panics", 1)
		var min *Case
		if h.minimized[res.panicSite] < 3 { // bounded effort: the first few witnesses per site
			h.minimized[res.panicSite]++
			min = h.minimize(c, res.panicSite)
		}
		r.Violation("C11:host-panic:"+res.panicSite, fmt.Sprintf("the host panicked while executing contract code: %s", res.panicMsg),
			h.witness(c, map[string]interface{}{"panic": res.panicMsg, "stack": cleanStack(res.panicStack, 2500), "minimized": min}))
		return
	}
	if c.Kind == "pre" {
		if !res.preEntered {
			return
		}
		r.Count("precompile_direct", 1)
		r.Count(fmt.Sprintf("precompile_direct:%02d", c.Pre), 1)
		if c.Kind == "pre" && res.err != nil {
			r.Count("precompile_direct_errors", 1)
		}
		if strings.HasPrefix(c.Expect, "ret:") {
			if res.err == nil && strings.EqualFold(c.Expect[4:], fmt.Sprintf("%x", res.ret)) {
				r.Count("precompile_vectors_ok", 1)
			} else {
				r.Count("precompile_vectors_mismatch", 1)
				r.Note("precompile %d: repository vector not reproduced (err=%v)", c.Pre, res.err)
			}
		}
		if res.left > c.Gas {
			r.Violation("C11:precompile:leftover-exceeds-supplied", fmt.Sprintf("precompile %d returned %d gas, %d supplied", c.Pre, res.left, c.Gas), h.witness(c, nil))
		}
		h.distinctCase([]byte(c.Cfg), []byte{byte(c.Pre)}, c.Input, u64b(c.Gas))
		return
	}
	t := h.t
	for _, p := range res.viol {
		if p.sig == "machinery" {
			r.Count("hook_inconsistent", 1)
			r.Note("case %d/%s/%s: %s", c.Pos, c.Cfg, c.Fam, p.what)
			continue
		}
		r.Violation(p.sig, p.what, h.witness(c, nil))
	}
	// boundary
	if res.left > c.Gas {
		r.Violation("C11:"+c.Kind+":leftover-exceeds-supplied", fmt.Sprintf("leftOverGas %d, supplied %d (err=%v)", res.left, c.Gas, res.err), h.witness(c, nil))
	}
	kind := errKind(res.err)
	if res.err != nil {
		switch {
		case res.root1 == res.root0:
		case c.Kind == "create" && res.rootNonce == res.root0 && res.err == vm.ErrCodeStoreOutOfGas:
			// cannot happen: code-store OOG keeps the new account
		case c.Kind == "create" && res.rootNonce == res.root0:
			// only the creator's nonce moved: ordinary failed creation
		case c.Kind == "create" && res.err == vm.ErrCodeStoreOutOfGas:
			r.Violation("C11:create:codestore-oog-not-reverted", fmt.Sprintf("Create failed with %q (left %d of %d gas) but the state changes of the creation were kept: root %x -> %x",
				res.err, res.left, c.Gas, res.root0[:6], res.root1[:6]), h.witness(c, nil))
		default:
			r.Violation("C11:"+c.Kind+":failed-call-changed-root", fmt.Sprintf("the call failed (%v) but the state root moved %x -> %x", res.err, res.root0[:6], res.root1[:6]), h.witness(c, nil))
		}
		r.Count("failed_top_calls_root_compared", 1)
	}
	// expectations of the fault templates
	if c.Expect != "" && !t.cancelled {
		h.expect(c, &res, kind)
	}
	if c.Fam == "pushtail" {
		r.Count("pushtail:"+c.Cell, 1)
	}
	if t.overBudget {
		r.Count("step_budget_cut", 1)
		r.Inconclusive("case %d/%s/%s/%s executed %d interpreter steps with %d gas and was cut short", c.Pos, c.Cfg, c.Fam, c.Tag, stepBudget, c.Gas)
	}
	// statistics
	r.Count("steps", t.steps)
	r.Count("frames", t.nframes)
	r.Count("memory_growth_steps", t.memGrow)
	r.Count("static_frame_steps", t.staticSteps)
	if t.below30 > 0 {
		r.Count("p026_growth_steps_charged_below_30x", t.below30)
	}
	r.Max("max_depth_seen", int64(t.maxDepthSeen))
	r.Max("max_stack_seen", int64(t.maxStackSeen))
	if t.maxDepthSeen == maxDepth {
		r.Count("depth_limit_reached", 1)
	}
	if t.maxStackSeen == maxStackLen {
		r.Count("stack_1024_reached", 1)
	}
	r.Count("top:"+kind, 1)
	for k, n := range t.faults {
		r.Count("fault:"+k, n)
	}
	for op, n := range t.opHist {
		if n > 0 && h.defined[op] {
			opTotals[op] += n
		}
	}
	if t.steps > 0 {
		r.Count("nontrivial_runs", 1)
		h.distinctCase([]byte(c.Cfg), []byte(c.Kind), []byte(c.To), c.Code, c.Input, u64b(c.Gas), []byte(c.Value), auxBytes(c))
	} else if c.To != "" && res.err != vm.ErrInsufficientBalance {
		if _, ok := vm.PrecompiledContracts[common.HexToAddress(c.To)]; ok {
			r.Count("precompile_toplevel_calls", 1)
			h.distinctCase([]byte(c.Cfg), []byte(c.To), c.Input, u64b(c.Gas))
		}
	}
}

var opTotals [256]int64

// distinctCase records a non-trivial case in the distinct set (first 250k per
// child process: the set is shipped to the supervisor as JSON).
func (h *harness) distinctCase(parts ...[]byte) {
	if h.nDistinct >= 250000 {
		return
	}
	h.nDistinct++
	h.r.Distinct("case", parts...)
}

func (h *harness) expect(c *Case, res *execResult, kind string) {
	r := h.r
	bad := func(what string) {
		r.Violation("C11:fault:"+c.Expect+":not-surfaced", what, h.witness(c, nil))
	}
	switch {
	case strings.HasPrefix(c.Expect, "top:"):
		want := c.Expect[4:]
		r.Count("expect_checked:"+want, 1)
		if kind != want {
			bad(fmt.Sprintf("expected the call to fail with %s, got %s (%v)", want, kind, res.err))
		}
	case strings.HasPrefix(c.Expect, "inner:"):
		want := c.Expect[6:]
		r.Count("expect_checked:inner-"+want, 1)
		if res.err != nil {
			bad(fmt.Sprintf("outer frame failed: %v", res.err))
		} else if h.t.faults[want] == 0 {
			bad(fmt.Sprintf("no inner frame ended with %s (frame endings: %v)", want, h.t.faults))
		} else if len(res.ret) != 32 || !allZero(res.ret) {
			bad(fmt.Sprintf("the failing sub-call reported success to its caller (flag %x)", res.ret))
		}
	case strings.HasPrefix(c.Expect, "word:"):
		// the program returns one word: the success flag of a sub-call / the address pushed by CREATE*
		want := c.Expect[5:]
		r.Count("expect_checked:word-"+want, 1)
		switch {
		case res.err != nil:
			bad(fmt.Sprintf("outer frame failed: %v", res.err))
		case len(res.ret) != 32:
			bad(fmt.Sprintf("outer frame returned %d bytes", len(res.ret)))
		case want == "zero" && !allZero(res.ret), want == "nonzero" && allZero(res.ret):
			bad(fmt.Sprintf("sub-call / creation result word is %x (frame endings %v)", res.ret, h.t.faults))
		}
	case strings.HasPrefix(c.Expect, "bigcreate:"):
		h.expectBigCreate(c, res, kind)
	case strings.HasPrefix(c.Expect, "chainstatic:"):
		// a state-modifying opcode some non-static frames below a STATICCALL must be
		// rejected exactly as it is directly below the STATICCALL (probed at boot)
		var pre, op int
		fmt.Sscanf(c.Expect, "chainstatic:%d:%d", &pre, &op)
		if pre < 0 || pre > 1 || op < 0 || op > 255 || !h.writeProt[pre][op] {
			r.Count("chainstatic_not_write_flagged", 1)
			return
		}
		r.Count("expect_checked:chainstatic", 1)
		sig := "C11:fault:static-chain:write-not-rejected"
		switch {
		case res.err != nil:
			r.Violation("C11:fault:static-chain:outer-failed", fmt.Sprintf("outer frame failed: %v", res.err), h.witness(c, nil))
		case h.t.faults["write-protection"] == 0 || len(res.ret) != 32 || !allZero(res.ret):
			r.Violation(sig, fmt.Sprintf("opcode 0x%02x is rejected directly below a STATICCALL but not %s below it: innermost frame endings %v, flag returned up the chain %x",
				op, c.Tag, h.t.faults, res.ret), h.witness(c, nil))
		case res.root1 != res.root0:
			r.Violation("C11:fault:static-chain:root-changed", fmt.Sprintf("the write was reported as rejected but the state root moved %x -> %x", res.root0[:6], res.root1[:6]), h.witness(c, nil))
		}
	case c.Expect == "depth-limit":
		r.Count("expect_checked:depth-limit", 1)
		if h.t.maxDepthSeen != maxDepth {
			r.Note("recursion template %s/%s gas=%d reached depth %d only", c.Fam, c.Tag, c.Gas, h.t.maxDepthSeen)
			r.Count("depth_template_short", 1)
		}
	}
}

// expectBigCreate judges the creation-size templates: init code with effects
// (SSTORE, LOG0, 1 wei endowment) that RETURNs `size` bytes, created by a
// top-level Create, or by CREATE / CREATE2 in the contract under test.
// size <= MaxCodeSize: the contract exists with exactly that code; larger: the
// creation fails, burns its gas and leaves nothing behind (the top-level variant
// is additionally covered by the root comparison of every failed Create).
func (h *harness) expectBigCreate(c *Case, res *execResult, kind string) {
	r := h.r
	var mode string
	var size int
	parts := strings.Split(c.Expect, ":")
	if len(parts) != 3 {
		return
	}
	mode = parts[1]
	size, _ = strconv.Atoi(parts[2])
	var created common.Address
	var init []byte
	switch mode {
	case "top":
		created, init = crypto.CreateAddress(originAddr, 1), c.Code
	case "create":
		created, init = crypto.CreateAddress(targetAddr, 1), c.Input
	case "create2":
		init = c.Input
		var salt [32]byte
		salt[31] = 0x2a
		created = crypto.CreateAddress2(targetAddr, salt, crypto.Keccak256(init))
	default:
		return
	}
	_ = init
	adb := res.adb
	if adb == nil {
		return
	}
	var slot1 common.Hash
	slot1[31] = 1
	tooBig := size > vm.MaxCodeSize
	bad := func(class, what string) {
		r.Violation("C11:create-size:"+class, fmt.Sprintf("%s creation returning %d bytes (MaxCodeSize %d): %s", mode, size, vm.MaxCodeSize, what), h.witness(c, nil))
	}
	r.Count("expect_checked:bigcreate", 1)
	if !tooBig {
		r.Count("bigcreate_within_limit", 1)
		if res.err != nil {
			bad("within-limit-failed", fmt.Sprintf("failed with %v", res.err))
		} else if n := adb.GetCodeSize(created); n != size {
			bad("within-limit-failed", fmt.Sprintf("account %s holds %d bytes of code", created.GetHexString(), n))
		}
		return
	}
	r.Count("bigcreate_over_limit", 1)
	if mode == "top" {
		if kind != "max-code-size" {
			bad("oversize-not-failed", fmt.Sprintf("expected ErrMaxCodeSizeExceeded, got %s (%v)", kind, res.err))
		} else if res.left != 0 {
			bad("oversize-gas-not-burnt", fmt.Sprintf("%d of %d gas handed back", res.left, c.Gas))
		}
	} else {
		if res.err != nil {
			bad("outer-failed", fmt.Sprintf("the creating frame failed: %v", res.err))
			return
		}
		if len(res.ret) != 32 || !allZero(res.ret) {
			bad("oversize-not-failed", fmt.Sprintf("the creating opcode pushed %x", res.ret))
		}
		if res.left > c.Gas/32 {
			bad("oversize-gas-not-burnt", fmt.Sprintf("%d of %d gas left although 63/64 were handed to the failed creation", res.left, c.Gas))
		}
	}
	if adb.GetNonce(created) != 0 || adb.GetCodeSize(created) != 0 || adb.GetBalance(created).Sign() != 0 ||
		adb.GetState(created, slot1) != (common.Hash{}) {
		bad("oversize-state-kept", fmt.Sprintf("account %s survived the failed creation: nonce %d, balance %v, code %d bytes, slot1 %x", created.GetHexString(),
			adb.GetNonce(created), adb.GetBalance(created), adb.GetCodeSize(created), adb.GetState(created, slot1)))
	}
}

func allZero(b []byte) bool {
	for _, x := range b {
		if x != 0 {
			return false
		}
	}
	return true
}

func u64b(v uint64) []byte { return []byte(strconv.FormatUint(v, 10)) }

func auxBytes(c *Case) []byte {
	var b []byte
	for _, a := range c.Aux {
		b = append(b, a.Addr...)
		b = append(b, a.Code...)
	}
	b = append(b, byte(c.Miner))
	return b
}

var (
	reHexArgs = regexp.MustCompile(`\((?:0x[0-9a-f]+\??|\{[^)]*\}|\.\.\.|, )*\)`)
	reHexNum  = regexp.MustCompile(`0x[0-9a-f]{5,}\??`)
	reGorNum  = regexp.MustCompile(`goroutine \d+`)
	rePlusOff = regexp.MustCompile(` \+0x[0-9a-f]+`)
	reFpSp    = regexp.MustCompile(` fp=\S+ sp=\S+ pc=\S+`)
)

// cleanStack strips addresses and goroutine numbers so that the same crash
// gives the same witness text (and replay file name) in every run.
func cleanStack(s string, n int) string {
	s = reFpSp.ReplaceAllString(s, "")
	s = reHexArgs.ReplaceAllString(s, "(...)")
	s = reHexNum.ReplaceAllString(s, "0x…")
	s = reGorNum.ReplaceAllString(s, "goroutine N")
	s = rePlusOff.ReplaceAllString(s, "")
	return trim(s, n)
}

func trim(s string, n int) string {
	if len(s) > n {
		return s[:n]
	}
	return s
}

// minimize shrinks the code of a panicking case instruction by instruction
// while the panic site stays the same (bounded effort).
func (h *harness) minimize(c *Case, site string) *Case {
	if c.Kind == "pre" || len(c.Aux) > 0 {
		return nil
	}
	cur := *c
	budget := 400
	still := func(x *Case) bool {
		if budget <= 0 {
			return false
		}
		budget--
		return h.exec(x).panicSite == site
	}
	if len(cur.Input) > 0 {
		x := cur
		x.Input = nil
		if still(&x) {
			cur = x
		}
	}
	for changed := true; changed && budget > 0; {
		changed = false
		ins := splitInstrs(cur.Code)
		for i := len(ins) - 1; i >= 0 && budget > 0; i-- {
			var code []byte
			for j, in := range ins {
				if j != i {
					code = append(code, in...)
				}
			}
			x := cur
			x.Code = code
			if still(&x) {
				cur = x
				ins = splitInstrs(cur.Code)
				changed = true
			}
		}
	}
	if len(cur.Code) == len(c.Code) && len(cur.Input) == len(c.Input) {
		return nil
	}
	cur.Fam = c.Fam + "/minimized"
	return &cur
}

// ---------------------------------------------------------------------------
// child process

type logged struct {
	Pos  int   `json:"pos"`
	Case *Case `json:"case"`
}

func limitAddressSpace() {
	// A run-away allocation (e.g. a memory expansion whose gas charge wrapped)
	// must kill this child only, not the machine.
	lim := uint64(6) << 30
	syscall.Setrlimit(syscall.RLIMIT_AS, &syscall.Rlimit{Cur: lim, Max: lim})
}

func childMain(r *mon.Run, args []string) {
	limitAddressSpace()
	childStartDir, _ = os.Getwd()
	if len(args) >= 2 && args[0] == "replay" {
		b, err := os.ReadFile(args[1])
		if err != nil {
			fmt.Println("MACHINERY:", err)
			os.Exit(2)
		}
		var c Case
		if err := json.Unmarshal(b, &c); err != nil {
			fmt.Println("MACHINERY:", err)
			os.Exit(2)
		}
		h := boot(r, c.Cfg)
		lb, _ := json.Marshal(logged{Pos: c.Pos, Case: &c})
		r.CaseBegin(lb)
		h.run(&c)
		h.cleanup()
		r.Finish(mon.Coverage{Evaluations: 1})
	}
	cfg := args[0]
	shard, _ := strconv.Atoi(args[1])
	nshards, _ := strconv.Atoi(args[2])
	start, _ := strconv.Atoi(args[3])
	h := boot(r, cfg)
	var n int64
	sampled := map[string]bool{}
	pos := -1
	generate(r, cfg, func(c *Case) {
		pos++
		if pos%nshards != shard || pos < start {
			return
		}
		c.Pos = pos
		lb, _ := json.Marshal(logged{Pos: pos, Case: c})
		if c.Fam == "gaswrap" || n%20000 == 19999 {
			h.flushOps()
			r.FlushChild()
		}
		r.CaseBegin(lb)
		h.run(c)
		n++
		if shard == 0 && !sampled[c.Fam] && len(sampled) < 6 && len(c.Code) < 80 && len(c.Input) < 80 && (c.Fam == "weighted" || c.Fam == "memext" || c.Fam == "custom" || c.Fam == "recursion" || c.Fam == "precompile-call" || c.Fam == "rawcode") {
			sampled[c.Fam] = true
			r.Sample(c)
		}
	})
	h.flushOps()
	h.cleanup()
	r.Finish(mon.Coverage{Evaluations: n})
}

// flushOps writes the cumulative opcode histogram of this child next to its
// log (the supervisor adds the files up; ~1000 counters would drown the evidence).
type opFile struct {
	Cfg     string     `json:"cfg"`
	Defined [256]bool  `json:"defined"`
	Hist    [256]int64 `json:"hist"`
}

var childStartDir string

func (h *harness) flushOps() {
	if childStartDir == "" {
		return
	}
	b, _ := json.Marshal(opFile{Cfg: h.cfg, Defined: h.defined, Hist: opTotals})
	os.WriteFile(childStartDir+"/ophist.json", b, 0644)
}

// ---------------------------------------------------------------------------
// supervisor

type shardState struct {
	cfg     string
	shard   int
	start   int
	crashes int
}

// crashLog returns the part of a dead child's output that starts at the fatal
// error (the tail alone is usually the dump of unrelated goroutines).
func crashLog(res mon.ChildResult) string {
	b, err := os.ReadFile(res.LogFile)
	if err != nil {
		return res.LogTail
	}
	log := string(b)
	best := -1
	for _, key := range []string{"fatal error:", "panic:", "runtime: out of memory", "runtime: cannot allocate"} {
		if i := strings.Index(log, key); i >= 0 && (best < 0 || i < best) {
			best = i
		}
	}
	if best < 0 {
		return res.LogTail
	}
	return trim(log[best:], 8000)
}

func fatalSignature(log string, lc *logged) string {
	site := mon.FatalSite(log)
	// prefer the opcode-level frame when the dump shows one
	if i := strings.Index(log, "goroutine "); i >= 0 {
		end := len(log)
		if j := strings.Index(log[i+1:], "\ngoroutine "); j >= 0 {
			end = i + 1 + j // first goroutine only: the one that died
		}
		if m := reOpFrame.FindStringSubmatch(log[i:end]); m != nil {
			if k := strings.Index(site, "@"); k >= 0 {
				site = site[:k+1] + m[1]
			} else {
				site = site + "@" + m[1]
			}
		}
	}
	sig := "C11:host-fatal:" + site
	if lc != nil && lc.Case != nil && lc.Case.Site != "" {
		sig += ":" + lc.Case.Site
	}
	return sig
}

func superviseCrash(r *mon.Run, res mon.ChildResult) (lc *logged) {
	if len(res.LastCase) > 0 {
		var l logged
		if json.Unmarshal(res.LastCase, &l) == nil && l.Case != nil {
			lc = &l
		}
	}
	log := crashLog(res)
	what := fmt.Sprintf("the child process executing contract code died (exit %d): %s", res.Exit, reInUse.ReplaceAllString(firstFatalLine(log), ""))
	w := map[string]interface{}{"log": firstGoroutine(reInUse.ReplaceAllString(cleanStack(log, 6000), ""))}
	if lc != nil {
		w["case"] = lc.Case
	}
	r.Violation(fatalSignature(log, lc), what, w)
	r.Count("child_crashes", 1)
	return lc
}

var reGp = regexp.MustCompile(` gp=\S+ m=\S+( mp=\S+)?`)

// firstGoroutine keeps the fatal message and the stack of the goroutine that died.
func firstGoroutine(log string) string {
	log = reGp.ReplaceAllString(log, "")
	i := strings.Index(log, "goroutine N")
	if i < 0 {
		return trim(log, 3000)
	}
	if j := strings.Index(log[i:], "\n\n"); j >= 0 {
		return log[:i+j]
	}
	return trim(log, 3000)
}

var reInUse = regexp.MustCompile(` \(\d+ in use\)`)

func firstFatalLine(log string) string {
	for _, l := range strings.Split(log, "\n") {
		if strings.HasPrefix(l, "fatal error:") || strings.HasPrefix(l, "panic:") || strings.HasPrefix(l, "runtime:") {
			return l
		}
	}
	return trim(log, 120)
}

var opAgg = map[string]*opFile{}

func absorbOps(res mon.ChildResult) {
	b, err := os.ReadFile(res.Dir + "/ophist.json")
	if err != nil {
		return
	}
	var f opFile
	if json.Unmarshal(b, &f) != nil {
		return
	}
	a := opAgg[f.Cfg]
	if a == nil {
		a = &opFile{Cfg: f.Cfg}
		opAgg[f.Cfg] = a
	}
	for i := range f.Hist {
		a.Hist[i] += f.Hist[i]
		a.Defined[i] = a.Defined[i] || f.Defined[i]
	}
}

func absorb(r *mon.Run, res mon.ChildResult) (crashed *logged, ok bool) {
	absorbOps(res)
	if _, err := os.Stat(res.Partial); err == nil {
		if e := r.Merge(res.Partial); e != nil {
			r.Note("merge %s: %v", res.Spec.Label, e)
		}
	}
	if res.TimedOut {
		r.Inconclusive("child %s %v hit the %v watchdog: %s", res.Spec.Label, res.Spec.Args, res.Spec.Timeout, trim(res.LogTail, 300))
		return nil, false
	}
	if res.Exit == 0 {
		return nil, true
	}
	return superviseCrash(r, res), false
}

func main() {
	r := mon.Start("C11")
	if args, ok := mon.IsChildInvocation(); ok {
		childMain(r, args)
		return
	}
	timeout := 10 * time.Minute // watchdogs only ever produce "inconclusive"
	if r.Thorough() {
		timeout = 3 * time.Hour
	}
	if p := mon.ReplayArg(); p != "" {
		replay(r, p, timeout)
		return
	}

	workers := runtime.NumCPU()
	if workers > 16 {
		workers = 16
	}
	per := workers / len(cfgNames)
	if per < 1 {
		per = 1
	}
	var pendingShards []shardState
	for _, cfg := range cfgNames {
		for s := 0; s < per; s++ {
			pendingShards = append(pendingShards, shardState{cfg: cfg, shard: s})
		}
	}
	maxCrashes := 80
	for len(pendingShards) > 0 {
		specs := make([]mon.ChildSpec, len(pendingShards))
		for i, s := range pendingShards {
			specs[i] = mon.ChildSpec{Label: fmt.Sprintf("%s-%d@%d", s.cfg, s.shard, s.start),
				Args:    []string{s.cfg, strconv.Itoa(s.shard), strconv.Itoa(per), strconv.Itoa(s.start)},
				Timeout: timeout, Env: []string{"GOMAXPROCS=2"}}
		}
		results := r.RunChildren(specs, workers)
		var next []shardState
		for i, res := range results {
			s := pendingShards[i]
			if os.Getenv("VERIF_C11_DEBUG") != "" {
				fmt.Fprintf(os.Stderr, "child %s exit=%d wall=%v\n", res.Spec.Label, res.Exit, res.Wall)
			}
			lc, ok := absorb(r, res)
			if ok || res.TimedOut {
				continue
			}
			s.crashes++
			if lc == nil {
				r.Inconclusive("child %s died without a logged case: %s", res.Spec.Label, trim(res.LogTail, 300))
				continue
			}
			if s.crashes >= maxCrashes {
				r.Inconclusive("shard %s-%d: gave up after %d crashes (remaining cases from position %d not run)", s.cfg, s.shard, s.crashes, lc.Pos+1)
				continue
			}
			s.start = lc.Pos + 1
			next = append(next, s)
		}
		pendingShards = next
	}
	mon.CleanWork()

	// opcodes of each configuration's jump table that no run ever offered to the interpreter
	for _, cfg := range cfgNames {
		agg := opAgg[cfg]
		if agg == nil {
			continue
		}
		var never []string
		def := 0
		for op := 0; op < 256; op++ {
			if !agg.Defined[op] {
				continue
			}
			def++
			if agg.Hist[op] == 0 {
				never = append(never, fmt.Sprintf("0x%02x", op))
			}
		}
		r.Count("opcodes_defined:"+cfg, int64(def))
		r.Count("opcodes_never_reached:"+cfg, int64(len(never)))
		if len(never) > 0 {
			r.Note("config %s: defined opcodes never reached: %v", cfg, never)
		}
	}
	if r.Get("opcodes_defined:all") > 0 && r.Get("opcodes_never_reached:none")+r.Get("opcodes_never_reached:p014")+r.Get("opcodes_never_reached:p014p022")+r.Get("opcodes_never_reached:all") == 0 {
		r.Count("every_defined_opcode_reached", 1)
	}

	r.Finish(mon.Coverage{
		Evaluations:        r.Get("cases_run"),
		DistinctNontrivial: int64(r.DistinctCount("case")),
		Rule: "one case = fresh in-memory state (funded origin, contract under test, miner registries, optional helper contracts) + one vm.EVM.Call / Create / RunPrecompiledContract with gas from {0,1,20999,21000,1e5,2e6} " +
			"(recursion templates additionally with 1e14 so that the depth limit is reached). Families: raw random bytes as code and as init code (top-level Create and CREATE via a wrapper), opcode-weighted random programs with role-aware operands, " +
			"single-opcode probes over an operand grid {0,1,31,32,33,0xffff,2^32-1,2^32,0x1fffffffe0,0x1fffffffe1,2^63-1,2^63,2^64-1,2^64,2^255,2^256-1} for every opcode with memory operands, " +
			"charge-wrap seekers (memory sizes whose magnified gas charge wraps uint64), truncated PUSHn, self/mutual recursion through CALL/CALLCODE/DELEGATECALL/STATICCALL/AUTHCALL/CREATE/CREATE2, CREATE loops, EXP/KECCAK256/LOGn sweeps, " +
			"the node's opcodes (PRINTF, STAKE, UNSTAKE, GETSTAKE, UNSTAKEALL, STAKENUM, AUTH incl. valid signatures, AUTHCALL, TLOAD/TSTORE, BLOBHASH, BASEFEE, BLOBBASEFEE, MCOPY, PUSH0) with arbitrary stack and memory, stack-limit fills for every stack-growing opcode, " +
			"a structured sweep of code lengths 1..80 x last opcode PUSH1..PUSH32 with none / all-but-one / all of its data present x a prefix doing a taken JUMP, a taken JUMPI or a jump to a 0x5b inside push data, run as deployed code (Call, DELEGATECALL, STATICCALL) and as init code (Create, CREATE, CREATE2), counted per (length mod 8, PUSHn), creations (top-level Create, CREATE, CREATE2) whose init code has effects and RETURNs MaxCodeSize-1 / MaxCodeSize / MaxCodeSize+1 / 2*MaxCodeSize / 1 MiB bytes with 2e10 gas, fault templates with the expected error kind, every opcode byte 1-3 non-static frames (CALL/DELEGATECALL/CALLCODE, mixed) below a STATICCALL judged against its behaviour directly below the STATICCALL,  every precompile 1..18 directly and through CALL/CALLCODE/DELEGATECALL/STATICCALL/top-level Call with empty, 1-byte, valid (src/vm/testdata/precompiles), bit-flipped, truncated, extended, huge-length-field and random inputs; " +
			"each in the fork configurations {none, P014, P014+P022, P014+P022+P026} (one per child process). Non-trivial: the interpreter executed >= 1 step or a precompile was entered; distinct by hash of (config, kind, target, code, input, gas, value, helpers), recorded for the first 250k non-trivial cases of every child process.",
		Assumptions: []string{
			"the lower bound demanded for memory growth is the Yellow Paper cost C(w)=3w+w^2/512 of the growth (Rangers charges this, x30 or x900 under Proposal026): anything below it is a violation in every configuration",
			"gas handed to a callee is bounded by the caller's gas before the call op plus the 2300 stipend",
			"a failed top-level Create may keep the creator's nonce increment (Ethereum semantics); everything else must be reverted",
			"child processes run with RLIMIT_AS = 6 GiB so that a run-away allocation is observed as a dead child instead of exhausting the machine",
		},
		MustObserve: []string{"steps", "frames", "memory_growth_steps", "nontrivial_runs", "precompile_direct", "precompile_vectors_ok", "depth_limit_reached", "stack_1024_reached",
			"fault:oog", "fault:invalid-opcode", "fault:stack-underflow", "fault:stack-overflow", "fault:bad-jump", "fault:write-protection", "fault:revert",
			"failed_top_calls_root_compared", "max_table_defined_none", "max_table_defined_p014", "max_table_defined_p014p022", "max_table_defined_all",
			"cases:rawcode", "cases:rawinit", "cases:weighted", "cases:memext", "cases:custom", "cases:recursion", "cases:precompile", "cases:precompile-call", "cases:stackfill", "cases:fault", "cases:staticchain", "cases:pushtail", "pushtail:m0:PUSH32", "pushtail:m7:PUSH1", "expect_checked:word-nonzero", "expect_checked:word-zero", "cases:bigcreate", "bigcreate_within_limit", "bigcreate_over_limit", "expect_checked:chainstatic", "static_frame_steps", "cases:subcall", "cases:gaswrap", "cases:createloop"},
	})
}

func replay(r *mon.Run, path string, timeout time.Duration) {
	v, err := mon.LoadReplay(path)
	if err != nil {
		fmt.Println("MACHINERY:", err)
		os.Exit(2)
	}
	var w struct {
		Case *Case `json:"case"`
	}
	if err := json.Unmarshal(v.Witness, &w); err != nil || w.Case == nil {
		fmt.Println("MACHINERY: replay file has no case")
		os.Exit(2)
	}
	cb, _ := json.Marshal(w.Case)
	f := mon.WorkDir() + "/replay-case.json"
	os.WriteFile(f, cb, 0644)
	res := r.RunChild(mon.ChildSpec{Label: "replay", Args: []string{"replay", f}, Timeout: timeout})
	absorb(r, res)
	mon.CleanWork()
	r.Finish(mon.Coverage{Evaluations: 2, DistinctNontrivial: 2, Rule: "replay of one recorded case in a child process"})
}
