package main

import (
	"math/big"

	"com.tuntun.rangers/node/src/common"
)

// Opcode bytes used by the generators (values as in src/vm/opcodes.go; the
// harness deliberately spells them as literals: a program is just bytes).
const (
	opSTOP           = 0x00
	opADD            = 0x01
	opMUL            = 0x02
	opSUB            = 0x03
	opEXP            = 0x0a
	opLT             = 0x10
	opEQ             = 0x14
	opISZERO         = 0x15
	opKECCAK         = 0x20
	opADDRESS        = 0x30
	opBALANCE        = 0x31
	opCALLVALUE      = 0x34
	opCALLDATALOAD   = 0x35
	opCALLDATASIZE   = 0x36
	opCALLDATACOPY   = 0x37
	opCODESIZE       = 0x38
	opCODECOPY       = 0x39
	opEXTCODESIZE    = 0x3b
	opEXTCODECOPY    = 0x3c
	opRETURNDATASIZE = 0x3d
	opRETURNDATACOPY = 0x3e
	opEXTCODEHASH    = 0x3f
	opBLOCKHASH      = 0x40
	opBASEFEE        = 0x48
	opBLOBHASH       = 0x49
	opBLOBBASEFEE    = 0x4a
	opPOP            = 0x50
	opMLOAD          = 0x51
	opMSTORE         = 0x52
	opMSTORE8        = 0x53
	opSLOAD          = 0x54
	opSSTORE         = 0x55
	opJUMP           = 0x56
	opJUMPI          = 0x57
	opPC             = 0x58
	opMSIZE          = 0x59
	opGAS            = 0x5a
	opJUMPDEST       = 0x5b
	opTLOAD          = 0x5c
	opTSTORE         = 0x5d
	opMCOPY          = 0x5e
	opPUSH0          = 0x5f
	opPUSH1          = 0x60
	opPUSH2          = 0x61
	opPUSH32         = 0x7f
	opDUP1           = 0x80
	opSWAP1          = 0x90
	opLOG0           = 0xa0
	opSTAKENUM       = 0xea
	opUNSTAKEALL     = 0xeb
	opGETSTAKE       = 0xec
	opPRINTF         = 0xed
	opSTAKE          = 0xee
	opUNSTAKE        = 0xef
	opCREATE         = 0xf0
	opCALL           = 0xf1
	opCALLCODE       = 0xf2
	opRETURN         = 0xf3
	opDELEGATECALL   = 0xf4
	opCREATE2        = 0xf5
	opAUTH           = 0xf6
	opAUTHCALL       = 0xf7
	opSTATICCALL     = 0xfa
	opREVERT         = 0xfd
	opINVALID        = 0xfe
	opSELFDESTRUCT   = 0xff
)

// asm is a tiny byte-code builder.
type asm struct{ b []byte }

func (a *asm) op(ops ...byte) *asm { a.b = append(a.b, ops...); return a }
func (a *asm) pc() int             { return len(a.b) }
func (a *asm) bytes() []byte       { return a.b }

// push emits the shortest PUSH1..PUSH32 holding v (mod 2^256).
func (a *asm) push(v *big.Int) *asm {
	bs := v.Bytes()
	if len(bs) == 0 {
		bs = []byte{0}
	}
	if len(bs) > 32 {
		bs = bs[len(bs)-32:]
	}
	a.b = append(a.b, byte(0x5f+len(bs)))
	a.b = append(a.b, bs...)
	return a
}

func (a *asm) pushU(v uint64) *asm { return a.push(new(big.Int).SetUint64(v)) }

// pushRaw emits PUSHn with exactly these n bytes (1 <= n <= 32).
func (a *asm) pushRaw(bs []byte) *asm {
	a.b = append(a.b, byte(0x5f+len(bs)))
	a.b = append(a.b, bs...)
	return a
}

func (a *asm) pushAddr(addr common.Address) *asm { return a.pushRaw(addr.Bytes()) }

// push2 emits PUSH2 v (fixed width: used for jump targets).
func (a *asm) push2(v int) *asm { return a.op(opPUSH2, byte(v>>8), byte(v)) }

// fillMem stores data (zero padded to whole words) at memory offset 0.
func (a *asm) fillMem(data []byte) *asm {
	for off := 0; off < len(data); off += 32 {
		w := make([]byte, 32)
		copy(w, data[off:])
		a.pushRaw(w).pushU(uint64(off)).op(opMSTORE)
	}
	return a
}

// calldataToMem copies the whole call data to memory offset 0.
func (a *asm) calldataToMem() *asm {
	return a.op(opCALLDATASIZE).pushU(0).pushU(0).op(opCALLDATACOPY)
}

// pushArgs pushes the operands so that args[0] ends on top of the stack.
func (a *asm) pushArgs(args []*big.Int) *asm {
	for i := len(args) - 1; i >= 0; i-- {
		a.push(args[i])
	}
	return a
}

func bigU(v uint64) *big.Int { return new(big.Int).SetUint64(v) }
func pow2(k uint) *big.Int   { return new(big.Int).Lsh(big.NewInt(1), k) }
func pow2m1(k uint) *big.Int { return new(big.Int).Sub(pow2(k), big.NewInt(1)) }

// instruction boundaries of a byte-code string (PUSH data kept with its opcode).
func splitInstrs(code []byte) [][]byte {
	var out [][]byte
	for i := 0; i < len(code); {
		n := 1
		if code[i] >= 0x60 && code[i] <= 0x7f {
			n += int(code[i]) - 0x5f
		}
		if i+n > len(code) {
			n = len(code) - i
		}
		out = append(out, code[i:i+n])
		i += n
	}
	return out
}
