// C20 — the miner registry and stake accounting agree with the applied miner transactions.
//
// Sequences of miner-management transactions (apply / add-stake / refund / change-account, signed by
// deterministic keys, hostile and boundary inputs) are packed into blocks and executed by the node's own
// block executor (core.VerifExecuteBlock: BeforeExecute / Snapshot / Execute / revert, then the real
// after-phase: RefundManager.Add and RefundManager.CheckAndMove; reward minting is switched off by a header
// without group id) on a state derived from the real dev genesis. After every block the state is
// committed and re-opened by root, as the chain does, and an oracle compares what the node's accessors
// return with a reference registry + escrow ledger maintained by the harness from the accepted
// transactions only. Half of the sequences use one transaction per block, so "after every block" is
// "after every transaction" there; the others pack several transactions into a block.
package main

import (
	"bytes"
	"encoding/hex"
	"encoding/json"
	"fmt"
	"io/ioutil"
	"math"
	"math/big"
	"os"
	"sort"
	"strconv"
	"strings"
	"time"

	"com.tuntun.rangers/node/src/common"
	"com.tuntun.rangers/node/src/consensus/access"
	"com.tuntun.rangers/node/src/core"
	"com.tuntun.rangers/node/src/executor"
	"com.tuntun.rangers/node/src/middleware"
	"com.tuntun.rangers/node/src/middleware/types"
	"com.tuntun.rangers/node/src/service"
	"com.tuntun.rangers/node/src/storage/account"

	"verifharness/env"
	"verifharness/mon"
)

// ---------------------------------------------------------------------------
// fork configurations (one per child process: the schedule is process-global)

type cfgT struct {
	Name     string
	Override map[int]uint64
}

var cfgs = []cfgT{
	{"all", nil},
	{"no003", map[int]uint64{3: math.MaxUint64}},
	{"no012", map[int]uint64{12: math.MaxUint64}},
	{"no003-no012", map[int]uint64{3: math.MaxUint64, 12: math.MaxUint64}},
}

func cfgByName(n string) cfgT {
	for _, c := range cfgs {
		if c.Name == n {
			return c
		}
	}
	fmt.Println("MACHINERY: unknown configuration", n)
	os.Exit(3)
	return cfgT{}
}

// stub group chain for the pre-Proposal012 refund-height rule: memberships are a deterministic
// pseudo-random function of (miner id, height).
type stubGroups struct{}

func (stubGroups) GetAvailableGroupsByMinerId(height uint64, minerId []byte) []*types.Group {
	h := common.Sha256(append([]byte("verif-c20-groups"), minerId...))
	n := int(h[0] % 4)
	var out []*types.Group
	for i := 0; i < n; i++ {
		d := height + 10 + uint64(h[1+i])*7
		if h[8+i]%5 == 0 {
			d = math.MaxUint64
		}
		out = append(out, &types.Group{Id: []byte{byte(i)}, Header: &types.GroupHeader{WorkHeight: 0, DismissHeight: d}})
	}
	return out
}
func (stubGroups) GetGroupById(id []byte) *types.Group             { return nil }
func (stubGroups) GetBlockHeader(height uint64) *types.BlockHeader { return nil }

// ---------------------------------------------------------------------------

type Witness struct {
	Cfg  string `json:"cfg"`
	Seq  int    `json:"seq"`
	Mode string `json:"mode"`
	Ops  []*Op  `json:"ops"`
	At   string `json:"at,omitempty"`
}

// Seq is one running sequence.
type Seq struct {
	r       *mon.Run
	cfg     string
	idx     int
	mode    string
	root    common.Hash
	H       uint64
	ref     *Ref
	uni     *Universe
	pre     *View
	const0  *big.Int
	ops     []*Op // everything executed (or being executed), for the witness
	failed  bool
	fails   []failure
	quiet   bool
	taint   map[string]bool // hostile input features among the accepted transactions (signature suffix)
	hostile bool
	reqID   uint64
	shared0 map[string]bool // accounts that controlled more than one miner in the baseline state
	dead    bool
	nontriv bool
	fee     *big.Int
}

func (s *Seq) witness(at string) Witness {
	w := Witness{Cfg: s.cfg, Seq: s.idx, Mode: s.mode, At: at}
	for _, o := range s.ops {
		c := *o
		w.Ops = append(w.Ops, &c)
	}
	return w
}

type failure struct{ sig, what string }

// fail collects a failed clause of the current block; flush reports the block.
func (s *Seq) fail(sig, what string) {
	s.failed = true
	s.fails = append(s.fails, failure{sig, what})
}

// flush reports the first failed clause of the block as the violation (clauses are evaluated root-cause
// first: lookups, uniqueness, totals, escrow, conservation) and lists the others in its text.
func (s *Seq) flush() {
	if len(s.fails) == 0 || s.quiet {
		s.fails = nil
		return
	}
	f := s.fails[0]
	sig := f.sig
	what0 := f.what
	// root-cause label: once a hostile input (an id that equals a hashed storage key of another miner, an account
	// whose bytes are a JSON miner record) has been accepted, the registry storage is corrupted and any clause
	// can fail; such blocks are classified by the hostile input, the failed clause is named in the text.
	// Clauses with a structural class of their own (…-in-one-block) keep it.
	if !strings.Contains(sig, "-in-one-block") {
		switch {
		case s.taint["json-shaped-account"] && (strings.Contains(sig, "iterator-yields-un") || !s.taint["id-aliasing-hashed-registry-key"]):
			sig, what0 = "C20:hostile-account:json-shaped-account-yields-phantom-miner", f.sig+": "+f.what
		case s.taint["id-aliasing-hashed-registry-key"]:
			sig, what0 = "C20:hostile-id:aliases-hashed-registry-key-of-another-miner", f.sig+": "+f.what
		}
	}
	what := what0
	if n := len(s.fails) - 1; n > 0 {
		seen := map[string]bool{f.sig: true}
		var more []string
		for _, x := range s.fails[1:] {
			if !seen[x.sig] {
				seen[x.sig] = true
				more = append(more, x.sig)
			}
		}
		what += fmt.Sprintf(" (+%d further failed clauses in this block: %s)", n, strings.Join(more, ", "))
	}
	s.r.Violation(sig, fmt.Sprintf("[%s seq %d, height %d] %s", s.cfg, s.idx, s.H, what), s.witness(f.what))
	s.r.Count("violating_blocks", 1)
	s.fails = nil
}

var baseRoot common.Hash // genesis + funded keys (harness set-up, committed once per process)

func setupBase() {
	top := core.GetBlockChain().TopBlock()
	adb, err := middleware.AccountDBManagerInstance.GetAccountDBByHash(top.StateTree)
	if err != nil {
		panic(err)
	}
	rich := common.HexToAddress(env.RichAccounts[0])
	for _, k := range keys {
		amt := tokens(k.Fund)
		if amt.Sign() == 0 {
			continue
		}
		adb.SubBalance(rich, amt)
		adb.AddBalance(k.Addr, amt)
	}
	baseRoot = commit(adb)
}

func commit(adb *account.AccountDB) common.Hash {
	root, err := adb.Commit(true)
	if err != nil {
		panic(err)
	}
	if err := middleware.AccountDBManagerInstance.GetTrieDB().Commit(root, false); err != nil {
		panic(err)
	}
	return root
}

func newSeq(r *mon.Run, cfg string, idx int, mode string) *Seq {
	s := &Seq{r: r, cfg: cfg, idx: idx, mode: mode, root: baseRoot, H: 10, ref: newRef(), uni: newUniverse(), shared0: map[string]bool{}, taint: map[string]bool{}}
	s.fee = tokens("0.001") // Proposal026 is active in every configuration used here
	u := s.uni
	for _, k := range keys {
		u.addAcc(k.Addr.Bytes())
		u.addID(k.ID)
	}
	for _, a := range freeAccs {
		u.addAcc(a)
	}
	u.addAcc(shortAcc)
	for i, a := range phantomAccs {
		u.addAcc(a)
		u.addID(phantomIDs[i])
	}
	for _, id := range poolIDs {
		u.addID(id)
	}
	u.addID(shortID)
	for _, a := range env.RichAccounts {
		u.addrs[common.HexToAddress(a)] = true
	}
	u.addrs[common.FeeAccount] = true
	// baseline: every account of the base state is "known"; its registry seeds the reference
	adb, _ := middleware.AccountDBManagerInstance.GetAccountDBByHash(baseRoot)
	tr, _ := adb.Database().OpenTrie(baseRoot)
	for it := newTrieIter(tr); it.Next(); {
		u.known[common.BytesToAddress(it.Key)] = true
	}
	v0, err := takeView(baseRoot, u, nil, s.H)
	if err != nil {
		panic(err)
	}
	s.ref.seedFrom(v0)
	for _, rec := range s.ref.live() {
		u.addID(rec.ID)
		u.addAcc(rec.Account)
		if len(s.ref.byAccount(rec.Account)) > 1 {
			s.shared0[hx(rec.Account)] = true
		}
	}
	s.noteValidators()
	v0, _ = takeView(baseRoot, u, []uint64{s.H}, s.H)
	s.pre = v0
	s.const0 = v0.conserved()
	return s
}

// buildTx turns an op into the signed transaction a client would submit.
func (s *Seq) buildTx(op *Op, H uint64) *types.Transaction {
	k := keys[op.Src]
	s.reqID++
	tx := &types.Transaction{Source: k.AddrHex, Time: strconv.FormatUint(s.reqID, 10), Nonce: s.reqID, RequestId: s.reqID, ChainId: common.ChainId(H)}
	switch op.Kind {
	case "apply":
		tx.Type = types.TransactionTypeMinerApply
		m := types.Miner{Id: unhx(op.ID), PublicKey: unhx(op.PK), VrfPublicKey: unhx(op.VRF), ApplyHeight: op.AH, Status: op.Status, Type: op.Type, Stake: op.Stake, Account: unhx(op.Account)}
		b, _ := json.Marshal(m)
		tx.Data = string(b)
	case "add":
		tx.Type = types.TransactionTypeMinerAdd
		m := types.Miner{Id: unhx(op.ID), Stake: op.Stake}
		b, _ := json.Marshal(m)
		tx.Data = string(b)
	case "refund":
		tx.Type = types.TransactionTypeMinerRefund
		id := ""
		if op.ID != "" {
			id = "0x" + op.ID
		}
		b, _ := json.Marshal(executor.MinerRefundData{Amount: op.Amount, MinerId: id})
		tx.Data = string(b)
	case "change":
		tx.Type = types.TransactionTypeMinerChangeAccount
		m := types.Miner{Id: unhx(op.ID), Account: unhx(op.Account)}
		b, _ := json.Marshal(m)
		tx.Data = string(b)
	}
	tx.Hash = tx.GenHash()
	sign := k.SK.Sign(tx.Hash.Bytes())
	tx.Sign = &sign
	return tx
}

func (s *Seq) noteUniverse(op *Op) {
	u := s.uni
	if op.ID != "" {
		u.addID(unhx(op.ID))
	}
	if op.Kind == "apply" || op.Kind == "change" {
		u.addAcc(unhx(op.Account)) // includes the empty account
	}
}

// aliased: the storage key sha^n(id) is also a key of an existing miner (ids chosen as hashes of other ids).
func (s *Seq) aliased(id []byte, n int) bool {
	k := sha(id, n)
	for _, rec := range s.ref.recs {
		for m := 0; m <= 3; m++ {
			if bytes.Equal(k, sha(rec.ID, m)) {
				return true
			}
		}
	}
	return false
}

func (s *Seq) noteValidators() {
	for k, rec := range s.ref.recs {
		if rec.Type == common.MinerTypeValidator {
			s.uni.validators[k] = true
		}
	}
}

// noteTaint records hostile features of an ACCEPTED transaction; they only label the signature of a later
// violation (root-cause class), they never suppress or create one.
func (s *Seq) noteTaint(op *Op) {
	if op.Kind == "apply" && op.ID != "" {
		id := unhx(op.ID)
		for other := range s.uni.ids {
			o := unhx(other)
			for n := 1; n <= 3; n++ {
				if bytes.Equal(id, sha(o, n)) {
					s.taint["id-aliasing-hashed-registry-key"] = true
				}
			}
		}
	}
	if op.Kind == "apply" || op.Kind == "change" {
		var probe struct {
			Id string `json:"id"`
		}
		if a := unhx(op.Account); len(a) > 0 && a[0] == '{' && json.Unmarshal(a, &probe) == nil && probe.Id != "" {
			s.taint["json-shaped-account"] = true
		}
	}
}

// runBlock executes the pending transactions as one block at height H through the node's block executor
// and judges the committed post-state.
func (s *Seq) runBlock(txOps []*Op, H uint64) {
	if s.dead {
		return
	}
	r := s.r
	for _, op := range txOps {
		s.noteUniverse(op)
	}
	if cb, err := json.Marshal(s.witness("running")); err == nil {
		r.CaseBegin(cb)
	}
	common.SetBlockHeight(H - 1)
	adb, err := middleware.AccountDBManagerInstance.GetAccountDBByHash(s.root)
	if err != nil {
		r.Inconclusive("cannot reopen state %s: %v", s.root.Hex(), err)
		s.dead = true
		return
	}
	var txs []*types.Transaction
	for _, op := range txOps {
		txs = append(txs, s.buildTx(op, H))
	}
	hdr := env.Header(H, common.FromHex(env.DevProposerID), time.Unix(1700000000+int64(H), 0))
	hdr.GroupId = nil // RewardCalculator returns nothing for a header without group: no minting, conservation is exact
	block := &types.Block{Header: hdr, Transactions: txs}
	var stateRoot common.Hash
	var executed []*types.Transaction
	var receipts []*types.Receipt
	s.H = H
	if r.Guard("C20:execute", s.witness("panic in the block executor"), func() {
		stateRoot, _, executed, receipts = core.VerifExecuteBlock(adb, block, "verif")
	}) {
		s.dead = true
		return
	}
	root := commit(adb)
	if root != stateRoot {
		r.Note("committed root differs from the executor's state root (seq %d)", s.idx)
	}
	r.Count("blocks", 1)
	if len(executed) != len(txOps) || len(receipts) != len(txOps) {
		r.Inconclusive("executor ran %d of %d transactions (cfg %s seq %d)", len(executed), len(txOps), s.cfg, s.idx)
		s.dead = true
		return
	}
	// reference update from the accepted transactions only
	allRejected := len(txOps) > 0
	feeBy := map[common.Address]int{}
	for i, op := range txOps {
		if executed[i].Hash != txs[i].Hash {
			r.Inconclusive("executor reordered the block (cfg %s seq %d)", s.cfg, s.idx)
			s.dead = true
			return
		}
		k := keys[op.Src]
		r.Count("tx_"+op.Kind, 1)
		if receipts[i].Status == types.ReceiptStatusSuccessful {
			op.Result = "ok"
			allRejected = false
			s.noteTaint(op)
			s.ref.accept(op, H, k.ID, k.Addr.Bytes())
			r.Count("accepted_"+op.Kind, 1)
			if op.Kind == "refund" || op.Kind == "change" {
				s.nontriv = true
			}
		} else {
			op.Result = "rejected"
			r.Count("rejected_"+op.Kind, 1)
		}
		for _, lbl := range strings.Split(op.Class, ",") {
			if lbl != "" {
				r.Count("class_"+op.Kind+"_"+lbl+"_"+op.Result, 1)
			}
		}
		feeBy[k.Addr]++
	}
	s.noteValidators()
	post, err := takeView(root, s.uni, []uint64{H, H + common.HeightAfterStake + 1}, H)
	if err != nil {
		r.Inconclusive("cannot read committed state: %v", err)
		s.dead = true
		return
	}
	pre, err := takeView(s.root, s.uni, nil, H) // same universe as post
	if err != nil {
		r.Inconclusive("cannot read previous state: %v", err)
		s.dead = true
		return
	}
	s.ref.resolve(post)
	s.judge(pre, post, H)
	if allRejected {
		s.judgeRejected(pre, post, H, txOps, feeBy)
	}
	s.flush()
	s.ref.blockRefunds = map[common.Address]*big.Int{}
	s.root, s.pre = root, post
	if s.failed {
		// continue from the state the node is in: it becomes the new baseline ("any registry state"),
		// unless it is inconsistent in itself (then every later block would only repeat the report)
		if len(s.taint) > 0 && os.Getenv("VERIF_C20_CONTINUE") == "" { // (the variable is for manual analysis of a witness only)
			s.dead = true
			return
		}
		s.resync(post)
		s.failed, s.quiet = false, true
		s.judge(post, post, H)
		s.quiet, s.fails = false, nil
		if s.failed && os.Getenv("VERIF_C20_CONTINUE") == "" {
			s.dead = true
		}
		s.failed = false
		r.Count("resyncs", 1)
	}
}

// resync re-seeds the reference from the committed state after a reported violation.
func (s *Seq) resync(v *View) {
	s.ref = newRef()
	s.ref.seedFrom(v)
	s.shared0 = map[string]bool{}
	for _, rec := range s.ref.live() {
		s.uni.addID(rec.ID)
		s.uni.addAcc(rec.Account)
		if len(s.ref.byAccount(rec.Account)) > 1 {
			s.shared0[hx(rec.Account)] = true
		}
	}
	s.noteValidators()
	s.const0 = v.conserved()
}

// judge: every clause of the property on the committed state after a block.
func (s *Seq) judge(pre, post *View, H uint64) {
	r, ref, u := s.r, s.ref, s.uni
	r.Count("oracle_evaluations", 1)

	// (1) the three lookup paths against the reference, for every id and account ever used
	iterBy := map[string][]iterRec{}
	for t := 0; t < 2; t++ {
		for _, ir := range post.iter[t] {
			k := hx(ir.M.Id)
			iterBy[k] = append(iterBy[k], ir)
			if !u.ids[k] {
				s.fail("C20:lookup:iterator-yields-unknown-record", fmt.Sprintf("the registry iterator (type %d) yields %s whose id was never used by any transaction", t, describe(ir.M)))
			}
		}
	}
	for _, id := range sortedKeys(u.ids) {
		rec, g, its := ref.recs[id], post.byID[id], iterBy[id]
		r.Count("lookups_compared", 3)
		if rec == nil {
			if g != nil {
				s.fail("C20:lookup:by-id-returns-unapplied-record", fmt.Sprintf("GetMiner(0x%s) = %s but no accepted transaction created (or left) such a miner", id, describe(g)))
			}
			if len(its) > 0 {
				s.fail("C20:lookup:iterator-yields-unapplied-record", fmt.Sprintf("the registry iterator yields %s but no accepted transaction created (or left) such a miner; GetMiner = %s", describe(its[0].M), describe(g)))
			}
			continue
		}
		if g == nil {
			s.fail("C20:lookup:by-id-misses-record", fmt.Sprintf("GetMiner(0x%s) = nil, reference %s", id, rec.describe()))
			continue
		}
		want := rec.stake()
		if new(big.Int).SetUint64(g.Stake).Cmp(want) != 0 {
			s.fail("C20:stake:differs-from-applied-plus-added-minus-refunded", fmt.Sprintf("GetMiner(0x%s).Stake = %d, reference %s", id, g.Stake, rec.describe()))
		}
		if g.Type != rec.Type || !bytes.Equal(g.Account, rec.Account) || int(g.Status) != rec.Status || g.ApplyHeight != rec.ApplyHeight || !bytes.Equal(g.Id, rec.ID) {
			s.fail("C20:lookup:by-id-disagrees", fmt.Sprintf("GetMiner(0x%s) = %s, reference %s", id, describe(g), rec.describe()))
		}
		r.Count("pubkey_lookups_compared", 2)
		if !bytes.Equal(g.PublicKey, rec.PK) || !bytes.Equal(g.VrfPublicKey, rec.VRF) {
			s.fail("C20:lookup:by-id-public-keys-disagree", fmt.Sprintf("GetMiner(0x%s) carries public key 0x%s / vrf key 0x%s, the accepted apply gave 0x%s / 0x%s", id, hx(g.PublicKey), hx(g.VrfPublicKey), hx(rec.PK), hx(rec.VRF)))
		}
		if got := post.pk[id]; !bytes.Equal(got, g.PublicKey) {
			s.fail("C20:lookup:pubkey-by-id-disagrees-with-record", fmt.Sprintf("GetPubkey(0x%s) = 0x%s but the registry record of the same id has public key 0x%s", id, hx(got), hx(g.PublicKey)))
		}
		switch {
		case len(its) == 0:
			s.fail("C20:lookup:iterator-misses-record", fmt.Sprintf("the registry iterator does not yield miner 0x%s; GetMiner = %s", id, describe(g)))
		case len(its) > 1:
			s.fail("C20:lookup:iterator-yields-record-twice", fmt.Sprintf("the registry iterators yield miner 0x%s %d times (both types?)", id, len(its)))
		default:
			m := its[0].M
			if m.Type != g.Type || m.Stake != g.Stake || !bytes.Equal(m.Account, g.Account) || m.Status != g.Status || m.ApplyHeight != g.ApplyHeight {
				s.fail("C20:lookup:iterator-disagrees", fmt.Sprintf("iterator yields %s, GetMiner(0x%s) = %s", describe(m), id, describe(g)))
			}
		}
	}
	occupied := map[string][]*Rec{}
	for _, rec := range ref.live() {
		occupied[hx(rec.Account)] = append(occupied[hx(rec.Account)], rec)
	}
	for _, a := range sortedKeys(u.accs) {
		got := post.byAcc[a]
		owners := occupied[a]
		r.Count("lookups_compared", 1)
		if len(owners) == 0 {
			if got != nil {
				s.fail("C20:lookup:by-account-returns-stale-id", fmt.Sprintf("GetMinerIdByAccount(0x%s) = 0x%s but no miner of the reference is controlled by this account (GetMiner of that id: %s)", a, hx(got), describe(post.byID[hx(got)])))
			}
			continue
		}
		ok := false
		for _, o := range owners {
			if bytes.Equal(o.ID, got) {
				ok = true
			}
		}
		if !ok {
			s.fail("C20:lookup:by-account-disagrees", fmt.Sprintf("GetMinerIdByAccount(0x%s) = 0x%s, but the account controls %s", a, hx(got), owners[0].describe()))
		}
	}

	// (1b) nothing derived from the id of a miner that does not exist (never applied, or removed) is left in the
	// registry storage: record, stake, account binding, status
	for _, id := range sortedKeys(u.ids) {
		if ref.recs[id] != nil {
			continue
		}
		raw := unhx(id)
		for t := 0; t < 2; t++ {
			for n, name := range []string{"record", "stake", "account binding", "status"} {
				if v, ok := post.reg[t][string(sha(raw, n))]; ok && len(v) > 0 && !s.aliased(raw, n) {
					s.fail("C20:registry:residue-of-absent-miner", fmt.Sprintf("registry (type %d) still holds the %s key of miner 0x%s (value 0x%s) although no such miner exists", t, name, id, hx(v)))
				}
			}
		}
	}

	// (2) an account controls at most one miner (judged on the node's own records)
	ctl := map[string][]string{}
	for t := 0; t < 2; t++ {
		for _, ir := range post.iter[t] {
			ctl[hx(ir.M.Account)] = append(ctl[hx(ir.M.Account)], fmt.Sprintf("0x%s(type %d)", hx(ir.M.Id), ir.M.Type))
		}
	}
	for a, ids := range ctl {
		if len(ids) > 1 && !s.shared0[a] {
			sort.Strings(ids)
			sameBlock := 0
			for _, rec := range ref.byAccount(unhx(a)) {
				if rec.BoundAt == H {
					sameBlock++
				}
			}
			cls := ":bound-in-different-blocks"
			if sameBlock >= 2 {
				cls = ":both-bound-in-one-block"
			}
			s.fail("C20:account:controls-two-miners"+cls, fmt.Sprintf("account 0x%s controls %d miners: %s", a, len(ids), strings.Join(ids, ", ")))
		}
	}

	// (3) totals used for leader election == sums over the active reference records
	for h, t := range post.tot {
		var wantTotal uint64
		wantDetail := map[string]uint64{}
		wantP, wantV := map[string]bool{}, map[string]bool{}
		for _, rec := range ref.live() {
			if rec.Status != stNormal || h < rec.ApplyHeight || !rec.stake().IsUint64() {
				continue
			}
			if rec.Type == common.MinerTypeProposer {
				wantTotal += rec.stake().Uint64()
				wantDetail[common.ToHex(rec.ID)] = rec.stake().Uint64()
				wantP[common.ToHex(rec.ID)] = true
			} else {
				wantV[common.ToHex(rec.ID)] = true
			}
		}
		r.Count("totals_compared", 1)
		if t.Total != wantTotal || !sameDetail(t.Detail, wantDetail) {
			s.fail("C20:totals:proposer-total-stake-differs", fmt.Sprintf("GetProposerTotalStakeWithDetail(%d) = %d %v, sum over active reference proposers = %d %v", h, t.Total, t.Detail, wantTotal, wantDetail))
		}
		if t.Count != uint64(len(wantDetail)) || t.ReaderCount != uint64(len(wantDetail)) {
			s.fail("C20:totals:proposer-count-differs", fmt.Sprintf("GetProposerTotalStake(%d) = %d, MinerPoolReader.GetTotalStake = %d, active reference proposers = %d", h, t.Count, t.ReaderCount, len(wantDetail)))
		}
		if !sameSet(t.Proposers, wantP) || !sameSet(t.Validators, wantV) {
			s.fail("C20:totals:active-miner-set-differs", fmt.Sprintf("GetAllMinerIdAndAccount(%d) = proposers %v validators %v, active reference records: proposers %v validators %v", h, keysOf(t.Proposers), keysOf(t.Validators), wantP, wantV))
		}
	}
	var wantV uint64
	for _, id := range post.vIDs {
		if rec := ref.recs[id]; rec != nil && rec.Type == common.MinerTypeValidator && rec.stake().IsUint64() {
			wantV += rec.stake().Uint64()
		}
	}
	if post.vTotal != wantV {
		s.fail("C20:totals:validator-stake-differs", fmt.Sprintf("GetValidatorsStake(all ids) = %d, sum over reference validator records = %d", post.vTotal, wantV))
	}

	// (4) escrow ledger: per credited account, escrow == previous escrow - what matured at this height + accepted refunds
	accts := map[common.Address]bool{}
	for _, m := range pre.escrow {
		for a := range m {
			accts[a] = true
		}
	}
	for _, m := range post.escrow {
		for a := range m {
			accts[a] = true
		}
	}
	for a := range ref.blockRefunds {
		accts[a] = true
	}
	escrowGap := new(big.Int)
	escCls := ":single-account-refunded-in-the-block"
	if len(ref.blockRefunds) >= 2 {
		escCls = ":several-accounts-refunded-in-one-block"
	}
	for a := range accts {
		want := pre.escrowOf(a)
		if m := pre.escrow[H]; m != nil && m[a] != nil {
			want.Sub(want, m[a])
		}
		if x := ref.blockRefunds[a]; x != nil {
			want.Add(want, x)
		}
		r.Count("escrow_checks", 1)
		if got := post.escrowOf(a); got.Cmp(want) != 0 {
			escrowGap.Add(escrowGap, new(big.Int).Sub(got, want))
			s.fail("C20:escrow:differs-from-accepted-refunds"+escCls, fmt.Sprintf("escrow scheduled for %s is %s wei, expected %s (before %s, matured at %d: %v, accepted refunds to this account in this block %v; accounts refunded in this block: %d)", a.GetHexString(), got, want, pre.escrowOf(a), H, pre.escrow[H][a], ref.blockRefunds[a], len(ref.blockRefunds)))
		}
	}
	if m := pre.escrow[H]; len(m) > 0 {
		r.Count("escrow_released", int64(len(m)))
		if len(post.escrow[H]) != 0 {
			s.fail("C20:escrow:matured-entry-not-released", fmt.Sprintf("CheckAndMove(%d) left %d escrow entries at the matured height", H, len(post.escrow[H])))
		}
	}
	for h := range post.escrow {
		if h <= H {
			r.Count("escrow_entries_not_in_the_future", 1)
		}
	}

	// (5) conservation: liquid (closed universe) + stake*10^18 + escrow == const
	r.Count("conservation_checks", 1)
	if len(post.unknown) > 0 {
		r.Inconclusive("state contains accounts outside the closed universe (%v); conservation not judged (cfg %s seq %d)", post.unknown, s.cfg, s.idx)
	} else if got := post.conserved(); got.Cmp(s.const0) != 0 {
		d := new(big.Int).Sub(got, s.const0)
		sig := "C20:conservation:total-increased"
		if d.Sign() < 0 {
			sig = "C20:conservation:total-decreased"
		}
		what := fmt.Sprintf("liquid %s + stake %s + escrow %s = %s wei, initial total %s (difference %s wei)", post.liquidTotal(), post.stakeTotal(), post.escrowTotal(), got, s.const0, d)
		if escrowGap.Sign() != 0 && escrowGap.Cmp(d) == 0 {
			what += " — exactly the escrow discrepancy of this block"
		}
		s.fail(sig, what)
		s.const0 = got // report each break once
	}
	for k, n := range ref.stats {
		r.Count("ref_"+k, int64(n))
		delete(ref.stats, k)
	}
}

func sameDetail(a, b map[string]uint64) bool {
	if len(a) != len(b) {
		return false
	}
	for k, v := range a {
		if w, ok := b[k]; !ok || w != v {
			return false
		}
	}
	return true
}

func sameSet(a map[string]common.Address, b map[string]bool) bool {
	if len(a) != len(b) {
		return false
	}
	for k := range a {
		if !b[k] {
			return false
		}
	}
	return true
}

func keysOf(m map[string]common.Address) []string {
	out := []string{}
	for k := range m {
		out = append(out, k)
	}
	sort.Strings(out)
	return out
}

// judgeRejected: a block whose transactions were all rejected changes nothing but the fees
// (full diff of registry storage, escrow and balances; plus the state root of a twin that only pays the fees).
func (s *Seq) judgeRejected(pre, post *View, H uint64, txOps []*Op, feeBy map[common.Address]int) {
	r := s.r
	r.Count("rejected_blocks_diffed", 1)
	var diffs []string
	for t := 0; t < 2; t++ {
		for k, v := range pre.reg[t] {
			if w, ok := post.reg[t][k]; !ok || !bytes.Equal(v, w) {
				diffs = append(diffs, fmt.Sprintf("registry(type %d) key 0x%s: %q -> %q", t, hx([]byte(k)), v, w))
			}
		}
		for k, w := range post.reg[t] {
			if _, ok := pre.reg[t][k]; !ok {
				diffs = append(diffs, fmt.Sprintf("registry(type %d) new key 0x%s = %q", t, hx([]byte(k)), w))
			}
		}
	}
	released := map[common.Address]*big.Int{}
	for a, v := range pre.escrow[H] {
		released[a] = v
	}
	hs := map[uint64]bool{}
	for h := range pre.escrow {
		hs[h] = true
	}
	for h := range post.escrow {
		hs[h] = true
	}
	for h := range hs {
		if h == H {
			continue
		}
		as := map[common.Address]bool{}
		for a := range pre.escrow[h] {
			as[a] = true
		}
		for a := range post.escrow[h] {
			as[a] = true
		}
		for a := range as {
			x, y := pre.escrow[h][a], post.escrow[h][a]
			if x == nil {
				x = new(big.Int)
			}
			if y == nil {
				y = new(big.Int)
			}
			if x.Cmp(y) != 0 {
				diffs = append(diffs, fmt.Sprintf("escrow[%d][%s]: %s -> %s", h, a.GetHexString(), x, y))
			}
		}
	}
	totalFee := new(big.Int)
	for a, pb := range pre.bal {
		if a == common.FeeAccount {
			continue
		}
		want := new(big.Int).Set(pb)
		if x := released[a]; x != nil {
			want.Add(want, x)
		}
		got := post.bal[a]
		if n := feeBy[a]; n > 0 {
			// each rejected tx costs exactly the fee, or nothing when the fee could not be paid
			paid := new(big.Int).Sub(want, got)
			q, m := new(big.Int).QuoRem(paid, s.fee, new(big.Int))
			if paid.Sign() < 0 || m.Sign() != 0 || q.Cmp(big.NewInt(int64(n))) > 0 || (q.Cmp(big.NewInt(int64(n))) < 0 && got.Cmp(s.fee) >= 0) {
				diffs = append(diffs, fmt.Sprintf("balance of signer %s: %s -> %s (%d rejected txs, fee %s)", a.GetHexString(), pb, got, n, s.fee))
			}
			totalFee.Add(totalFee, paid)
			continue
		}
		if got.Cmp(want) != 0 {
			diffs = append(diffs, fmt.Sprintf("balance of %s: %s -> %s (expected %s)", a.GetHexString(), pb, got, want))
		}
	}
	wantFee := new(big.Int).Add(pre.bal[common.FeeAccount], totalFee)
	if x := released[common.FeeAccount]; x != nil {
		wantFee.Add(wantFee, x)
	}
	if post.bal[common.FeeAccount].Cmp(wantFee) != 0 {
		diffs = append(diffs, fmt.Sprintf("fee account: %s -> %s (expected %s)", pre.bal[common.FeeAccount], post.bal[common.FeeAccount], wantFee))
	}
	if len(diffs) > 0 {
		sort.Strings(diffs)
		if len(diffs) > 8 {
			diffs = diffs[:8]
		}
		s.fail("C20:rejected-tx:changed-state", fmt.Sprintf("a block of %d rejected miner transactions (%s) changed more than the fee: %s", len(txOps), opSummary(txOps), strings.Join(diffs, "; ")))
		return
	}
	// complete comparison: a twin of the previous state that only pays the fees, bumps the nonces and
	// releases the matured escrow must have the same state root
	twin, err := middleware.AccountDBManagerInstance.GetAccountDBByHash(pre.root)
	if err != nil {
		return
	}
	for _, op := range txOps {
		a := keys[op.Src].Addr
		if twin.GetBalance(a).Cmp(s.fee) >= 0 {
			twin.SubBalance(a, s.fee)
			twin.AddBalance(common.FeeAccount, s.fee)
		}
		twin.SetNonce(a, twin.GetNonce(a)+1)
	}
	service.RefundManagerImpl.CheckAndMove(H, twin)
	r.Count("rejected_blocks_root_compared", 1)
	if tr := twin.IntermediateRoot(true); tr != post.root {
		r.Count("rejected_blocks_root_mismatch", 1)
		s.fail("C20:rejected-tx:state-root-differs-from-fee-only-twin", fmt.Sprintf("a block of %d rejected miner transactions (%s) leaves state root %s; paying only the fees gives %s (registry, escrow and universe balances are identical)", len(txOps), opSummary(txOps), post.root.Hex(), tr.Hex()))
	}
}

func opSummary(ops []*Op) string {
	var p []string
	for _, o := range ops {
		p = append(p, o.Kind+"["+o.Class+"]")
	}
	return strings.Join(p, " ")
}

// ---------------------------------------------------------------------------
// sequence drivers

// nextHeight never skips a height at which escrow matures (the chain executes every height).
func (s *Seq) nextHeight(want uint64) uint64 {
	if h, ok := s.pre.minPending(s.H); ok && h < want {
		return h
	}
	return want
}

func (s *Seq) closeBlock(pending *[]*Op, H uint64) {
	s.ops = append(s.ops, &Op{Kind: "block", Height: H})
	s.runBlock(*pending, H)
	*pending = nil
}

func runGenerated(r *mon.Run, cfg string, idx int) {
	rng := r.Rand("c20", cfg, idx)
	mode := "single"
	p := 100
	if rng.Intn(100) >= 45 {
		mode, p = "multi", []int{25, 40, 60}[rng.Intn(3)]
	}
	s := newSeq(r, cfg, idx, mode)
	s.hostile = rng.Intn(100) < 25
	g := &Gen{rng: rng, s: s}
	n := 10 + rng.Intn(71)
	var pending []*Op
	for i := 0; i < n && !s.dead; i++ {
		op := g.next()
		s.ops = append(s.ops, &op)
		pending = append(pending, &op)
		if rng.Intn(100) < p || i == n-1 {
			want := s.H + 1 + uint64(rng.Intn(3))
			switch k := rng.Intn(100); {
			case k < 10:
				want = s.H + common.HeightAfterStake + 1
			case k < 30:
				if h, ok := s.pre.minPending(s.H); ok {
					want = h
				}
			}
			s.closeBlock(&pending, s.nextHeight(want))
		}
	}
	// drain: visit the next matured heights so that escrow -> liquid is exercised
	for k := 0; k < 4 && !s.dead; k++ {
		h, ok := s.pre.minPending(s.H)
		if !ok {
			break
		}
		s.closeBlock(&pending, h)
	}
	finishSeq(r, s)
}

func finishSeq(r *mon.Run, s *Seq) {
	r.Count("sequences", 1)
	if s.nontriv {
		b, _ := json.Marshal(stripResults(s.ops))
		r.Distinct("nontrivial_sequences", []byte(s.cfg), b)
	}
	if s.idx%97 == 0 && len(s.ops) > 6 {
		r.Sample(map[string]interface{}{"cfg": s.cfg, "seq": s.idx, "mode": s.mode, "first_ops": s.ops[:6], "ops": len(s.ops)})
	}
}

func stripResults(ops []*Op) []Op {
	out := make([]Op, len(ops))
	for i, o := range ops {
		c := *o
		c.Result = ""
		out[i] = c
	}
	return out
}

// runRecorded re-executes a recorded op list (replay of a witness).
func runRecorded(r *mon.Run, w Witness) {
	s := newSeq(r, w.Cfg, w.Seq, w.Mode)
	var pending []*Op
	for i := range w.Ops {
		op := *w.Ops[i]
		op.Result = ""
		if s.dead {
			break
		}
		if op.Kind == "block" {
			s.closeBlock(&pending, op.Height)
			continue
		}
		s.ops = append(s.ops, &op)
		pending = append(pending, &op)
	}
	finishSeq(r, s)
}

// ---------------------------------------------------------------------------

func bootChild(cfg cfgT) {
	env.BootCore(env.Forks{Override: cfg.Override}, nil)
	service.InitRefundManager(stubGroups{}, stubGroups{})
	reader = access.NewMinerPoolReader()
	initKeys()
	initPools()
	setupBase()
}

func childRun(r *mon.Run, args []string) {
	cfg := cfgByName(args[1])
	first, _ := strconv.Atoi(args[2])
	count, _ := strconv.Atoi(args[3])
	bootChild(cfg)
	for i := first; i < first+count; i++ {
		runGenerated(r, cfg.Name, i)
	}
	r.Finish(mon.Coverage{Evaluations: r.Get("oracle_evaluations")})
}

func childReplay(r *mon.Run, args []string) {
	b, err := ioutil.ReadFile(args[1])
	if err != nil {
		fmt.Println("MACHINERY:", err)
		os.Exit(3)
	}
	var w Witness
	if err := json.Unmarshal(b, &w); err != nil {
		fmt.Println("MACHINERY:", err)
		os.Exit(3)
	}
	bootChild(cfgByName(w.Cfg))
	runRecorded(r, w)
	r.Finish(mon.Coverage{Evaluations: r.Get("oracle_evaluations")})
}

var mustObserve = []string{"sequences", "blocks", "oracle_evaluations", "lookups_compared", "totals_compared", "conservation_checks", "escrow_checks",
	"accepted_apply", "accepted_add", "accepted_refund", "accepted_change", "rejected_apply", "rejected_add", "rejected_refund", "rejected_change",
	"escrow_released", "rejected_blocks_diffed", "ref_removed"}

func main() {
	if args, ok := mon.IsChildInvocation(); ok {
		r := mon.Start("C20")
		switch args[0] {
		case "run":
			childRun(r, args)
		case "replay":
			childReplay(r, args)
		}
		return
	}
	r := mon.Start("C20")
	defer mon.CleanWork()
	wd := mon.WorkDir()

	if p := mon.ReplayArg(); p != "" {
		v, err := mon.LoadReplay(p)
		if err != nil {
			fmt.Println("MACHINERY:", err)
			os.Exit(2)
		}
		var w Witness
		var fatal struct {
			LastCase string `json:"last_case"`
		}
		var guard struct {
			Case *Witness `json:"case"`
		}
		json.Unmarshal(v.Witness, &w)
		if json.Unmarshal(v.Witness, &guard); guard.Case != nil && len(guard.Case.Ops) > 0 {
			w = *guard.Case
		}
		if json.Unmarshal(v.Witness, &fatal); fatal.LastCase != "" {
			if lc, err := hex.DecodeString(fatal.LastCase); err == nil {
				json.Unmarshal(lc, &w)
			}
		}
		if len(w.Ops) == 0 {
			fmt.Println("MACHINERY: replay file carries no op list")
			os.Exit(2)
		}
		r.Seed = v.Seed
		f := wd + "/replay-ops.json"
		wb, _ := json.Marshal(w)
		ioutil.WriteFile(f, wb, 0644)
		res := r.RunChild(mon.ChildSpec{Label: "replay", Args: []string{"replay", f}, Timeout: 5 * time.Minute})
		r.Absorb(res, "C20:child")
		mon.CleanWork()
		r.Finish(mon.Coverage{Evaluations: r.Get("oracle_evaluations"), DistinctNontrivial: 2, Rule: "replay of one recorded sequence"})
	}

	perCfg := r.Pick(75, 7500)
	chunk := r.Pick(25, 250)
	var specs []mon.ChildSpec
	for _, c := range cfgs {
		for first := 0; first < perCfg; first += chunk {
			n := chunk
			if first+n > perCfg {
				n = perCfg - first
			}
			specs = append(specs, mon.ChildSpec{Label: c.Name, Args: []string{"run", c.Name, strconv.Itoa(first), strconv.Itoa(n)},
				Timeout: time.Duration(r.Pick(120, 900)) * time.Second})
		}
	}
	results := r.RunChildren(specs, 16)
	for _, res := range results {
		r.Absorb(res, "C20:child")
		os.RemoveAll(res.Dir)
	}
	mon.CleanWork()
	r.Finish(mon.Coverage{
		Evaluations:        r.Get("oracle_evaluations"),
		DistinctNontrivial: int64(r.DistinctCount("nontrivial_sequences")),
		Rule: "sequences of 10-80 signed miner transactions (apply both types: stake below/at/above minimum, 0, above balance, MaxUint64, empty/zero keys, id given/derived/existing/short/aliasing a hashed registry key, account default/own/other/free/already used/short/JSON-shaped; " +
			"add-stake: 0/1/small/to aborted (below, to, above minimum)/above balance/to unknown; refund: part/to minimum/below minimum/all/more/MaxUint64/0/garbage, by owner and non-owner; change-account: to free/occupied/same/empty, by owner and non-owner), " +
			"generated adaptively from the reference registry, executed by the real block executor one (45%) or several (55%) per block on the funded dev-genesis state, heights jumping to every matured escrow height, in 4 fork configurations (Proposal003/012 on/off) in separate processes; " +
			"oracle after every block. Non-trivial: sequence with >= 1 accepted refund or change-account; distinct by (configuration, op list)",
		Assumptions: []string{
			"reward minting switched off (block header without group id) so that conservation is exact; difficulty bookkeeping (Proposal025) far away",
			"liquid balances summed over a closed universe (signers, accounts used, genesis miner and funded accounts, fee account); any other account appearing in the state makes the conservation clause inconclusive",
			"the property does not say whether an aborted miner that receives stake becomes active again, nor whether a miner refunded to 0 is removed or kept aborted: both are accepted and taken from the by-id lookup",
			"nonce bookkeeping of the block executor is not part of the registry/escrow/balance diff of a rejected transaction",
			"heights of blocks are chosen by the harness but never skip a height with matured escrow",
		},
		MustObserve: mustObserve,
	})
}
