package main

import (
	"bytes"
	"encoding/hex"
	"fmt"
	"math"
	"math/big"
	"sort"
	"strconv"
	"sync"

	"com.tuntun.rangers/node/src/common"
	"com.tuntun.rangers/node/src/consensus/access"
	"com.tuntun.rangers/node/src/middleware"
	"com.tuntun.rangers/node/src/middleware/types"
	"com.tuntun.rangers/node/src/service"
	"com.tuntun.rangers/node/src/storage/account"
	"com.tuntun.rangers/node/src/storage/trie"
)

func newTrieIter(tr account.Trie) *trie.Iterator { return trie.NewIterator(tr.NodeIterator(nil)) }

var e18 = new(big.Int).Exp(big.NewInt(10), big.NewInt(18), nil)

func hx(b []byte) string { return hex.EncodeToString(b) }
func unhx(s string) []byte {
	b, _ := hex.DecodeString(s)
	return b
}

func minStake(t byte) uint64 {
	if t == common.MinerTypeProposer {
		return common.ProposerStake
	}
	return common.ValidatorStake
}

func dbAddrOf(t int) common.Address {
	if t == common.MinerTypeProposer {
		return common.ProposerDBAddress
	}
	return common.ValidatorDBAddress
}

// ---------------------------------------------------------------------------
// refund (escrow) account addresses: the node derives them from the height; the
// harness only needs the inverse map to recognise them among the accounts of a state.

var (
	refundMu    sync.Mutex
	refundByAdr = map[common.Address]uint64{}
	refundUpTo  uint64
	refundInit  bool
)

func refundAddr(h uint64) common.Address {
	return common.BytesToAddress(common.Sha256([]byte("refund" + strconv.FormatUint(h, 10))))
}

func ensureRefundMap(limit uint64) {
	refundMu.Lock()
	defer refundMu.Unlock()
	if !refundInit {
		refundByAdr[refundAddr(0)] = 0
		refundInit = true
	}
	for refundUpTo < limit {
		refundUpTo++
		refundByAdr[refundAddr(refundUpTo)] = refundUpTo
	}
}

func refundHeightOf(a common.Address) (uint64, bool) {
	refundMu.Lock()
	defer refundMu.Unlock()
	h, ok := refundByAdr[a]
	return h, ok
}

// ---------------------------------------------------------------------------
// Universe: every id / account the sequence ever used (closed world for lookups).

type Universe struct {
	ids   map[string]bool         // hex of raw id bytes
	accs  map[string]bool         // hex of raw account bytes
	addrs map[common.Address]bool // balance holders
	known map[common.Address]bool // accounts present in the baseline state
	// ids that are or were validator records of the reference
	validators map[string]bool
}

func newUniverse() *Universe {
	return &Universe{ids: map[string]bool{}, accs: map[string]bool{}, addrs: map[common.Address]bool{}, known: map[common.Address]bool{}, validators: map[string]bool{}}
}

func (u *Universe) addID(id []byte) {
	if len(id) > 0 {
		u.ids[hx(id)] = true
	}
}
func (u *Universe) addAcc(a []byte) {
	u.accs[hx(a)] = true
	u.addrs[common.BytesToAddress(a)] = true
}

func sortedKeys(m map[string]bool) []string {
	out := make([]string, 0, len(m))
	for k := range m {
		out = append(out, k)
	}
	sort.Strings(out)
	return out
}

// ---------------------------------------------------------------------------
// View: everything the oracle reads from one committed state root, through the node's own accessors.

type iterRec struct {
	M   *types.Miner
	Err string
}

type totals struct {
	Total       uint64
	Detail      map[string]uint64
	Count       uint64 // MinerManager.GetProposerTotalStake(h, root)  (number of proposers; feeds the VRF threshold)
	ReaderCount uint64 // access.MinerPoolReader.GetTotalStake(h, root)
	Proposers   map[string]common.Address
	Validators  map[string]common.Address
}

type View struct {
	root    common.Hash
	reg     [2]map[string][]byte // complete storage of the two registry accounts
	iter    [2][]iterRec
	byID    map[string]*types.Miner
	pk      map[string][]byte // MinerManager.GetPubkey(id): the by-id public-key lookup consensus uses
	byAcc   map[string][]byte
	bal     map[common.Address]*big.Int
	escrow  map[uint64]map[common.Address]*big.Int
	unknown []string
	tot     map[uint64]*totals
	vTotal  uint64
	vDetail map[common.Address]uint64
	vIDs    []string
}

var reader *access.MinerPoolReader

func takeView(root common.Hash, u *Universe, heights []uint64, maxH uint64) (*View, error) {
	adb, err := middleware.AccountDBManagerInstance.GetAccountDBByHash(root)
	if err != nil {
		return nil, err
	}
	mm := service.MinerManagerImpl
	v := &View{root: root, pk: map[string][]byte{}, byID: map[string]*types.Miner{}, byAcc: map[string][]byte{}, bal: map[common.Address]*big.Int{},
		escrow: map[uint64]map[common.Address]*big.Int{}, tot: map[uint64]*totals{}}
	for t := 0; t < 2; t++ {
		v.reg[t] = map[string][]byte{}
		if it := adb.DataIterator(dbAddrOf(t), nil); it != nil {
			for it.Next() {
				v.reg[t][string(it.Key)] = append([]byte{}, it.Value...)
			}
		}
		mi := mm.MinerIterator(byte(t), root)
		for mi != nil && mi.Next() {
			m, e := mi.Current()
			if m == nil {
				continue
			}
			es := ""
			if e != nil {
				es = e.Error()
			}
			v.iter[t] = append(v.iter[t], iterRec{M: m, Err: es})
		}
	}
	for _, id := range sortedKeys(u.ids) {
		v.byID[id] = mm.GetMiner(unhx(id), adb)
		if b, err := mm.GetPubkey(unhx(id)); err == nil {
			v.pk[id] = b
		}
	}
	for _, a := range sortedKeys(u.accs) {
		v.byAcc[a] = mm.GetMinerIdByAccount(unhx(a), adb)
	}
	for a := range u.addrs {
		v.bal[a] = new(big.Int).Set(adb.GetBalance(a))
	}
	// every account of the state: escrow accounts are recognised by address, anything else must be known
	ensureRefundMap(maxH + 200000)
	tr, err := adb.Database().OpenTrie(root)
	if err != nil {
		return nil, err
	}
	ait := newTrieIter(tr)
	var escrowAddrs []common.Address
	for ait.Next() {
		a := common.BytesToAddress(ait.Key)
		if _, ok := refundHeightOf(a); ok {
			escrowAddrs = append(escrowAddrs, a)
		} else if !u.known[a] && !u.addrs[a] {
			v.unknown = append(v.unknown, a.GetHexString())
		}
	}
	for _, a := range escrowAddrs {
		h, _ := refundHeightOf(a)
		for who, amt := range adb.GetAllRefund(a) {
			if amt.Sign() == 0 {
				continue
			}
			if v.escrow[h] == nil {
				v.escrow[h] = map[common.Address]*big.Int{}
			}
			v.escrow[h][who] = new(big.Int).Set(amt)
		}
	}
	for _, h := range heights {
		t := &totals{}
		t.Total, t.Detail = mm.GetProposerTotalStakeWithDetail(h, adb)
		t.Count = mm.GetProposerTotalStake(h, root)
		if reader != nil {
			t.ReaderCount = reader.GetTotalStake(h, root)
		}
		t.Proposers, t.Validators = mm.GetAllMinerIdAndAccount(h, adb)
		v.tot[h] = t
	}
	// group members are registered validators: ask for the ids that are (or were) validator records
	var members [][]byte
	for _, id := range sortedKeys(u.validators) {
		members = append(members, unhx(id))
		v.vIDs = append(v.vIDs, id)
	}
	v.vTotal, v.vDetail = mm.GetValidatorsStake(members, adb)
	return v, nil
}

func (v *View) escrowTotal() *big.Int {
	s := new(big.Int)
	for _, m := range v.escrow {
		for _, a := range m {
			s.Add(s, a)
		}
	}
	return s
}

func (v *View) escrowOf(a common.Address) *big.Int {
	s := new(big.Int)
	for _, m := range v.escrow {
		if x := m[a]; x != nil {
			s.Add(s, x)
		}
	}
	return s
}

func (v *View) liquidTotal() *big.Int {
	s := new(big.Int)
	for _, b := range v.bal {
		s.Add(s, b)
	}
	return s
}

// stakeTotal sums the stake of every record the registry iterator yields (normal and aborted).
func (v *View) stakeTotal() *big.Int {
	s := new(big.Int)
	for t := 0; t < 2; t++ {
		for _, r := range v.iter[t] {
			s.Add(s, new(big.Int).SetUint64(r.M.Stake))
		}
	}
	return s.Mul(s, e18)
}

func (v *View) conserved() *big.Int {
	s := v.liquidTotal()
	s.Add(s, v.stakeTotal())
	s.Add(s, v.escrowTotal())
	return s
}

func (v *View) minPending(after uint64) (uint64, bool) {
	best, ok := uint64(math.MaxUint64), false
	for h := range v.escrow {
		if h > after && h < best {
			best, ok = h, true
		}
	}
	return best, ok
}

// ---------------------------------------------------------------------------
// Reference registry, maintained from the ACCEPTED transactions only.

const (
	stNormal  = 0
	stAbort   = 1
	stUnknown = -1 // add-stake to an aborted miner: the property does not say whether it becomes active again
)

type Rec struct {
	ID           []byte
	Type         byte
	Account      []byte
	Applied      uint64
	Added        *big.Int
	Refunded     *big.Int
	Status       int
	ApplyHeight  uint64
	BoundAt      uint64 // height of the block in which the current account got control (apply / change-account)
	MaybeRemoved bool   // stake reached 0 by a refund: "removed or aborted" — resolved by observation
	Genesis      bool
	PK, VRF      []byte // public keys given by the accepted apply (or read at the start for genesis miners)
}

func (r *Rec) stake() *big.Int {
	s := new(big.Int).SetUint64(r.Applied)
	s.Add(s, r.Added)
	return s.Sub(s, r.Refunded)
}

type Ref struct {
	recs map[string]*Rec // hex id -> record
	// accepted refunds of the current block: credited account -> amount (wei)
	blockRefunds map[common.Address]*big.Int
	stats        map[string]int
}

func newRef() *Ref {
	return &Ref{recs: map[string]*Rec{}, blockRefunds: map[common.Address]*big.Int{}, stats: map[string]int{}}
}

func (f *Ref) live() []*Rec {
	ks := make([]string, 0, len(f.recs))
	for k := range f.recs {
		ks = append(ks, k)
	}
	sort.Strings(ks)
	out := make([]*Rec, 0, len(ks))
	for _, k := range ks {
		out = append(out, f.recs[k])
	}
	return out
}

func (f *Ref) byAccount(acc []byte) []*Rec {
	var out []*Rec
	for _, r := range f.live() {
		if bytes.Equal(r.Account, acc) {
			out = append(out, r)
		}
	}
	return out
}

// seed the reference from the baseline state (the "any registry state" the sequence starts from).
func (f *Ref) seedFrom(v *View) {
	for t := 0; t < 2; t++ {
		for _, r := range v.iter[t] {
			m := r.M
			st := stNormal
			if m.Status == common.MinerStatusAbort {
				st = stAbort
			}
			f.recs[hx(m.Id)] = &Rec{ID: append([]byte{}, m.Id...), Type: m.Type, Account: append([]byte{}, m.Account...), Applied: m.Stake,
				Added: new(big.Int), Refunded: new(big.Int), Status: st, ApplyHeight: m.ApplyHeight, Genesis: true,
				PK: append([]byte{}, m.PublicKey...), VRF: append([]byte{}, m.VrfPublicKey...)}
		}
	}
}

// accept applies one accepted transaction to the reference. keyID / keyAddr are the signer's derived id / address.
func (f *Ref) accept(op *Op, H uint64, keyID, keyAddr []byte) {
	switch op.Kind {
	case "apply":
		id := unhx(op.ID)
		if len(id) == 0 || allZero(id) {
			id = keyID
		}
		acc := unhx(op.Account)
		if len(acc) == 0 || allZero(acc) {
			acc = keyAddr
		}
		if old := f.recs[hx(id)]; old != nil && !(old.MaybeRemoved && old.stake().Sign() == 0) {
			f.stats["apply_accepted_for_existing_id"]++
		}
		f.recs[hx(id)] = &Rec{ID: id, Type: op.Type, Account: acc, Applied: op.Stake, Added: new(big.Int), Refunded: new(big.Int),
			Status: stNormal, ApplyHeight: H + common.HeightAfterStake, BoundAt: H, PK: unhx(op.PK), VRF: unhx(op.VRF)}
	case "add":
		if op.Stake == 0 {
			return
		}
		id := unhx(op.ID)
		if len(id) == 0 || allZero(id) {
			id = keyID
		}
		r := f.recs[hx(id)]
		if r == nil {
			f.stats["add_accepted_for_unknown_id"]++
			return
		}
		r.Added.Add(r.Added, new(big.Int).SetUint64(op.Stake))
		r.MaybeRemoved = false
		if r.Status != stNormal {
			r.Status = stUnknown
		}
	case "refund":
		id := unhx(op.ID)
		r := f.recs[hx(id)]
		if r == nil {
			f.stats["refund_accepted_for_unknown_id"]++
			return
		}
		amt, err := strconv.ParseUint(op.Amount, 10, 64)
		if err != nil {
			f.stats["refund_accepted_with_unparsable_amount"]++
			return
		}
		m := new(big.Int).SetUint64(amt)
		if amt == math.MaxUint64 {
			m = r.stake()
		}
		r.Refunded.Add(r.Refunded, m)
		left := r.stake()
		if left.Cmp(new(big.Int).SetUint64(minStake(r.Type))) < 0 {
			r.Status = stAbort
			if left.Sign() == 0 {
				r.MaybeRemoved = true
			}
		}
		to := common.BytesToAddress(r.Account)
		if f.blockRefunds[to] == nil {
			f.blockRefunds[to] = new(big.Int)
		}
		f.blockRefunds[to].Add(f.blockRefunds[to], new(big.Int).Mul(m, e18))
	case "change":
		r := f.recs[hx(unhx(op.ID))]
		if r == nil {
			f.stats["change_accepted_for_unknown_id"]++
			return
		}
		r.Account = unhx(op.Account)
		r.BoundAt = H
	}
}

func allZero(b []byte) bool {
	for _, c := range b {
		if c != 0 {
			return false
		}
	}
	return true
}

// resolve settles what the property leaves open, by observation of the by-id lookup only:
// a record whose stake reached 0 is either removed or kept aborted; an aborted record that received stake
// is either active again or still aborted.
func (f *Ref) resolve(v *View) {
	for k, r := range f.recs {
		g := v.byID[k]
		if r.MaybeRemoved && r.stake().Sign() == 0 {
			if g == nil {
				delete(f.recs, k)
				f.stats["removed"]++
				continue
			}
			f.stats["kept_aborted_with_zero_stake"]++
			r.MaybeRemoved = false
		}
		if r.Status == stUnknown && g != nil {
			if g.Status == common.MinerStatusNormal {
				r.Status = stNormal
				f.stats["reactivated"]++
			} else {
				r.Status = stAbort
				f.stats["stayed_aborted_after_add"]++
			}
		}
	}
}

func describe(m *types.Miner) string {
	if m == nil {
		return "nil"
	}
	return fmt.Sprintf("{id:%s type:%d account:%s stake:%d status:%d applyHeight:%d}", common.ToHex(m.Id), m.Type, common.ToHex(m.Account), m.Stake, m.Status, m.ApplyHeight)
}

func (r *Rec) describe() string {
	return fmt.Sprintf("{id:0x%s type:%d account:0x%s stake:%s(applied %d + added %s - refunded %s) status:%d applyHeight:%d}", hx(r.ID), r.Type, hx(r.Account), r.stake(), r.Applied, r.Added, r.Refunded, r.Status, r.ApplyHeight)
}
