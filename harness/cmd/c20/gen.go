package main

import (
	"crypto/sha256"
	"fmt"
	"math"
	"math/big"
	"math/rand"
	"strconv"

	"com.tuntun.rangers/node/src/common"
)

// Op is one step of a sequence: a miner transaction, or "block" which closes the block
// formed by the transactions since the previous "block" and executes it at Height.
type Op struct {
	Kind    string `json:"k"`           // apply | add | refund | change | block
	Class   string `json:"c,omitempty"` // generator class (informational)
	Src     int    `json:"s,omitempty"` // index of the signing key
	ID      string `json:"id,omitempty"`
	Type    byte   `json:"t,omitempty"`
	Stake   uint64 `json:"st,omitempty"`
	Account string `json:"acc,omitempty"`
	PK      string `json:"pk,omitempty"`
	VRF     string `json:"vrf,omitempty"`
	AH      uint64 `json:"ah,omitempty"`     // ApplyHeight carried in the tx data (the node must ignore it)
	Status  byte   `json:"status,omitempty"` // Status carried in the tx data (the node must ignore it)
	Amount  string `json:"amt,omitempty"`
	Height  uint64 `json:"h,omitempty"`
	Result  string `json:"res,omitempty"` // filled after execution: ok | rejected
}

// Key is a deterministic signer.
type Key struct {
	SK      *common.PrivateKey
	Addr    common.Address
	AddrHex string
	ID      []byte // id derived from the public key (what the node derives for an empty id)
	Fund    string // tokens funded at the start of every sequence
}

var keys []*Key

var funding = []string{"1000000", "1000000", "1000000", "300000", "4500", "2001", "401", "0.0005", "0"}

func initKeys() {
	for i, f := range funding {
		h := sha256.Sum256([]byte(fmt.Sprintf("verif-c20-key-%d", i)))
		sk := common.HexStringToSecKey("0x" + hx(h[:]))
		pk := sk.GetPubKey()
		a := pk.GetAddress()
		keys = append(keys, &Key{SK: sk, Addr: a, AddrHex: a.GetHexString(), ID: pk.GetID(), Fund: f})
	}
}

var (
	poolIDs     [][]byte // ids given explicitly in tx data
	freeAccs    [][]byte // accounts nobody holds a key for
	shortID     = []byte{0x00, 0x03}
	shortAcc    = []byte{0x00, 0x00, 0x05}
	phantomIDs  [][]byte
	phantomAccs [][]byte // account byte strings that are themselves a JSON miner record
)

func initPools() {
	for i := 0; i < 8; i++ {
		h := sha256.Sum256([]byte(fmt.Sprintf("verif-c20-id-%d", i)))
		poolIDs = append(poolIDs, h[:])
	}
	for i := 0; i < 4; i++ {
		h := sha256.Sum256([]byte(fmt.Sprintf("verif-c20-acc-%d", i)))
		freeAccs = append(freeAccs, h[:20])
	}
	for i := 0; i < 2; i++ {
		h := sha256.Sum256([]byte(fmt.Sprintf("verif-c20-phantom-%d", i)))
		phantomIDs = append(phantomIDs, h[:])
		phantomAccs = append(phantomAccs, []byte(fmt.Sprintf(`{"id":"0x%s","type":%d,"applyHeight":0}`, hx(h[:]), i)))
	}
}

type Gen struct {
	rng *rand.Rand
	s   *Seq
}

func (g *Gen) pick(n int) int { return g.rng.Intn(n) }

func (g *Gen) richKey() int { return g.pick(4) }
func (g *Gen) anyKey() int {
	if g.pick(10) < 7 {
		return g.richKey()
	}
	return g.pick(len(keys))
}

func (g *Gen) keyOfAccount(acc []byte) int {
	for i, k := range keys {
		if string(k.Addr.Bytes()) == string(acc) {
			return i
		}
	}
	return -1
}

func sha(b []byte, n int) []byte {
	for i := 0; i < n; i++ {
		b = common.Sha256(b)
	}
	return b
}

// next produces the next transaction, adaptively from the reference registry.
func (g *Gen) next() Op {
	live := g.s.ref.live()
	var owned []*Rec // records whose account is one of our keys
	var aborted []*Rec
	for _, r := range live {
		if g.keyOfAccount(r.Account) >= 0 {
			owned = append(owned, r)
		}
		if r.Status != stNormal {
			aborted = append(aborted, r)
		}
	}
	k := g.pick(100)
	switch {
	case k < 30 || len(live) <= 5 && k < 60:
		return g.apply(live)
	case k < 45:
		return g.add(live, aborted)
	case k < 80:
		return g.refund(live, owned)
	default:
		return g.change(live, owned)
	}
}

func (g *Gen) apply(live []*Rec) Op {
	op := Op{Kind: "apply", Src: g.anyKey()}
	op.Type = byte(g.pick(2))
	cl := ""
	if g.pick(40) == 0 {
		op.Type = byte(2 + g.pick(3))
		cl += "badtype,"
	}
	min := minStake(op.Type)
	switch s := g.pick(100); {
	case s < 8:
		op.Stake, cl = min-1, cl+"stake<min,"
	case s < 30:
		op.Stake, cl = min, cl+"stake=min,"
	case s < 40:
		op.Stake, cl = min+1, cl+"stake=min+1,"
	case s < 85:
		op.Stake, cl = min+uint64(g.pick(int(2*min))), cl+"stake>min,"
	case s < 88:
		op.Stake, cl = 0, cl+"stake=0,"
	case s < 95:
		op.Stake, cl = 10000000000000, cl+"stake>balance,"
	case s < 96:
		op.Stake, cl = math.MaxUint64, cl+"stake=maxuint64,"
	default:
		op.Stake, cl = min*3, cl+"stake=3min,"
	}
	switch s := g.pick(100); {
	case s < 30:
		op.ID, cl = "", cl+"id-derived,"
	case s < 68:
		op.ID, cl = hx(poolIDs[g.pick(len(poolIDs))]), cl+"id-given,"
	case s < 76 && len(live) > 0:
		op.ID, cl = hx(live[g.pick(len(live))].ID), cl+"id-existing,"
	case s < 84 && len(live) > 0 && g.s.hostile:
		n := 1 + g.pick(3)
		op.ID, cl = hx(sha(live[g.pick(len(live))].ID, n)), cl+fmt.Sprintf("id-alias-h%d,", n)
	case s < 88:
		op.ID, cl = hx(shortID), cl+"id-short,"
	case s < 94:
		op.ID, cl = hx(keys[g.pick(len(keys))].ID), cl+"id-of-a-key,"
	default:
		op.ID, cl = hx(poolIDs[g.pick(len(poolIDs))]), cl+"id-given,"
	}
	switch s := g.pick(100); {
	case s < 35:
		op.Account, cl = "", cl+"acc-default"
	case s < 45:
		op.Account, cl = hx(keys[op.Src].Addr.Bytes()), cl+"acc-own"
	case s < 62:
		op.Account, cl = hx(keys[g.pick(len(keys))].Addr.Bytes()), cl+"acc-other-key"
	case s < 70:
		op.Account, cl = hx(freeAccs[g.pick(len(freeAccs))]), cl+"acc-free"
	case s < 88 && len(live) > 0:
		op.Account, cl = hx(live[g.pick(len(live))].Account), cl+"acc-used"
	case s < 91:
		op.Account, cl = hx(shortAcc), cl+"acc-short"
	case s < 94 && g.s.hostile:
		op.Account, cl = hx(phantomAccs[g.pick(len(phantomAccs))]), cl+"acc-json"
	default:
		op.Account, cl = "", cl+"acc-default"
	}
	// keys differ from apply to apply, so that a re-registered id carries new keys
	kb := make([]byte, 8)
	g.rng.Read(kb)
	op.PK, op.VRF = hx(kb[:4]), hx(kb[4:])
	switch s := g.pick(100); {
	case s < 3:
		op.PK, cl = "", cl+",pk-empty"
	case s < 6:
		op.VRF, cl = "", cl+",vrf-empty"
	case s < 8:
		op.PK, cl = "00000000", cl+",pk-zero"
	case s < 10:
		op.PK, op.VRF, cl = "", "", cl+",keys-empty"
	}
	op.AH = []uint64{0, 0, 5, 1000000000}[g.pick(4)]
	op.Status = []byte{0, 0, 1}[g.pick(3)]
	op.Class = cl
	return op
}

func (g *Gen) add(live, aborted []*Rec) Op {
	op := Op{Kind: "add", Src: g.anyKey()}
	var target *Rec
	cl := ""
	switch s := g.pick(100); {
	case s < 25 && len(aborted) > 0:
		target = aborted[g.pick(len(aborted))]
		op.ID, cl = hx(target.ID), "to-aborted,"
	case s < 75 && len(live) > 0:
		target = live[g.pick(len(live))]
		op.ID, cl = hx(target.ID), "to-existing,"
	case s < 83:
		op.ID, cl = hx(poolIDs[g.pick(len(poolIDs))]), "to-pool-id,"
	case s < 93:
		op.ID, cl = "", "to-derived,"
		target = g.s.ref.recs[hx(keys[op.Src].ID)]
	case s < 96 && len(live) > 0:
		op.ID, cl = hx(sha(live[g.pick(len(live))].ID, 1+g.pick(3))), "to-alias,"
	default:
		op.ID, cl = hx(shortID), "to-short,"
	}
	if target != nil && g.pick(2) == 0 {
		if ki := g.keyOfAccount(target.Account); ki >= 0 {
			op.Src = ki
		}
	}
	switch s := g.pick(100); {
	case s < 10:
		op.Stake, cl = 0, cl+"delta=0"
	case s < 25:
		op.Stake, cl = 1, cl+"delta=1"
	case s < 55:
		op.Stake, cl = uint64(2+g.pick(500)), cl+"delta-small"
	case s < 80 && target != nil && target.stake().IsUint64() && target.stake().Uint64() < minStake(target.Type):
		gap := minStake(target.Type) - target.stake().Uint64()
		if g.pick(3) == 0 {
			op.Stake, cl = gap, cl+"delta-to-min"
		} else if g.pick(2) == 0 && gap > 1 {
			op.Stake, cl = gap-1, cl+"delta-below-min"
		} else {
			op.Stake, cl = gap+1+uint64(g.pick(100)), cl+"delta-above-min"
		}
	case s < 90:
		op.Stake, cl = 10000000000000, cl+"delta>balance"
	case s < 92:
		op.Stake, cl = math.MaxUint64, cl+"delta=maxuint64"
	default:
		op.Stake, cl = uint64(1000+g.pick(3000)), cl+"delta-large"
	}
	op.Class = cl
	return op
}

func (g *Gen) refund(live, owned []*Rec) Op {
	op := Op{Kind: "refund", Src: g.anyKey()}
	var target *Rec
	cl := ""
	switch s := g.pick(100); {
	case s < 72 && len(owned) > 0:
		target = owned[g.pick(len(owned))]
		op.ID, op.Src, cl = hx(target.ID), g.keyOfAccount(target.Account), "own,"
	case s < 84 && len(live) > 0:
		target = live[g.pick(len(live))]
		op.ID, cl = hx(target.ID), "non-owner,"
		if ki := g.keyOfAccount(target.Account); ki == op.Src {
			op.Src = (op.Src + 1) % 4
		}
	case s < 90:
		op.ID, cl = hx(poolIDs[g.pick(len(poolIDs))]), "pool-id,"
		target = g.s.ref.recs[op.ID]
	case s < 94 && len(live) > 0:
		op.ID, cl = hx(sha(live[g.pick(len(live))].ID, 1+g.pick(3))), "alias,"
	case s < 97:
		op.ID, cl = "", "empty-id,"
	default:
		op.ID, cl = hx(shortID), "short-id,"
		target = g.s.ref.recs[op.ID]
	}
	st, min := uint64(1000), uint64(400)
	if target != nil && target.stake().IsUint64() {
		st, min = target.stake().Uint64(), minStake(target.Type)
	}
	u := func(v uint64) string { return strconv.FormatUint(v, 10) }
	switch s := g.pick(100); {
	case s < 25 && st > min+1:
		op.Amount, cl = u(1+uint64(g.rng.Int63n(int64(st-min-1)))), cl+"part"
	case s < 40 && st > min:
		op.Amount, cl = u(st-min), cl+"to-min"
	case s < 60 && st > 1:
		lo := uint64(1)
		if st >= min {
			lo = st - min + 1
		}
		if lo > st-1 {
			lo = st - 1
		}
		op.Amount, cl = u(lo+uint64(g.rng.Int63n(int64(st-lo)))), cl+"below-min"
	case s < 72:
		op.Amount, cl = u(st), cl+"all"
	case s < 80:
		op.Amount, cl = u(st+1+uint64(g.pick(2))*999), cl+"more-than-stake"
	case s < 88:
		op.Amount, cl = u(math.MaxUint64), cl+"maxuint64"
	case s < 92:
		op.Amount, cl = "0", cl+"zero"
	case s < 97:
		op.Amount, cl = []string{"abc", "-5", "1.5", "", "18446744073709551616", " 7"}[g.pick(6)], cl+"garbage"
	default:
		op.Amount, cl = "1", cl+"one"
	}
	op.Class = cl
	return op
}

func (g *Gen) change(live, owned []*Rec) Op {
	op := Op{Kind: "change", Src: g.anyKey()}
	var target *Rec
	cl := ""
	switch s := g.pick(100); {
	case s < 70 && len(owned) > 0:
		target = owned[g.pick(len(owned))]
		op.ID, op.Src, cl = hx(target.ID), g.keyOfAccount(target.Account), "own,"
	case s < 88 && len(live) > 0:
		target = live[g.pick(len(live))]
		op.ID, cl = hx(target.ID), "non-owner,"
		if ki := g.keyOfAccount(target.Account); ki == op.Src {
			op.Src = (op.Src + 1) % 4
		}
	case s < 94:
		op.ID, cl = hx(poolIDs[g.pick(len(poolIDs))]), "pool-id,"
	default:
		op.ID, cl = "", "empty-id,"
	}
	used := map[string]bool{}
	for _, r := range live {
		used[string(r.Account)] = true
	}
	var freeKeys []int
	for i, k := range keys {
		if !used[string(k.Addr.Bytes())] {
			freeKeys = append(freeKeys, i)
		}
	}
	switch s := g.pick(100); {
	case s < 38 && len(freeKeys) > 0:
		op.Account, cl = hx(keys[freeKeys[g.pick(len(freeKeys))]].Addr.Bytes()), cl+"to-free-key"
	case s < 46:
		op.Account, cl = hx(freeAccs[g.pick(len(freeAccs))]), cl+"to-free-nokey"
	case s < 70 && len(live) > 0:
		op.Account, cl = hx(live[g.pick(len(live))].Account), cl+"to-occupied"
	case s < 80 && target != nil:
		op.Account, cl = hx(target.Account), cl+"to-same"
	case s < 84:
		op.Account, cl = "", cl+"to-empty"
	case s < 88:
		op.Account, cl = hx(shortAcc), cl+"to-short"
	case s < 91 && g.s.hostile:
		op.Account, cl = hx(phantomAccs[g.pick(len(phantomAccs))]), cl+"to-json"
	default:
		op.Account, cl = hx(keys[g.pick(len(keys))].Addr.Bytes()), cl+"to-some-key"
	}
	op.Class = cl
	return op
}

func tokens(s string) *big.Int {
	// decimal token amount -> wei (harness-side exact arithmetic)
	ip, fp := s, ""
	for i, c := range s {
		if c == '.' {
			ip, fp = s[:i], s[i+1:]
			break
		}
	}
	for len(fp) < 18 {
		fp += "0"
	}
	v, _ := new(big.Int).SetString(ip+fp, 10)
	return v
}
