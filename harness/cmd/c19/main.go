// C19 — the group chain is a gap-free linked list whose height index matches it.
// Monitor: invariant walker over the exported GroupChain API + a reference list kept by the
// harness, evaluated after every operation and after every restart (fresh process over the
// same stores). Operations: AddGroup (valid successor / wrong predecessor / unknown parent /
// duplicate id / rejected by consensus) and the fork switch's removals through the H4 exports.
package main

import (
	"bytes"
	"context"
	"database/sql"
	"encoding/hex"
	"encoding/json"
	"fmt"
	"io/ioutil"
	"math/rand"
	"os"
	"path/filepath"
	"strconv"
	"sync"
	"sync/atomic"
	"time"

	"com.tuntun.rangers/node/src/core"
	"com.tuntun.rangers/node/src/middleware/db"
	"com.tuntun.rangers/node/src/middleware/mysql"
	"com.tuntun.rangers/node/src/middleware/types"

	_ "github.com/mattn/go-sqlite3"

	"verifharness/env"
	"verifharness/mon"
)

// Ref is the reference list carried from one process (segment) to the next.
type Ref struct {
	List    []string               `json:"list"`    // group ids (hex) in chain order, genesis first
	Removed []json.RawMessage      `json:"removed"` // serialized groups removed earlier (candidates for re-adding)
	Ops     []string               `json:"ops"`     // operation log of the whole sequence (witness)
	Pre     map[string]string      `json:"pre"`     // id -> PreGroup id as added (for the link check)
	Hash    map[string]string      `json:"hash"`    // id -> header hash of the record that is on the chain (as added last)
	Groups  map[string]types.Group `json:"-"`
}

// add appends a group to the reference list and remembers which record (header hash) it is.
func (f *Ref) add(id []byte, h *types.GroupHeader) {
	f.List = append(f.List, hx(id))
	f.note(id, h)
}

func (f *Ref) note(id []byte, h *types.GroupHeader) {
	if f.Hash == nil {
		f.Hash = map[string]string{}
	}
	if h != nil {
		f.Hash[hx(id)] = hx(h.Hash.Bytes())
	}
}

type Witness struct {
	Seq  int      `json:"seq"`
	Segs int      `json:"segments"`
	OpsN int      `json:"ops_per_segment"`
	Ops  []string `json:"ops"`
	At   string   `json:"at"`
}

func hx(b []byte) string { return hex.EncodeToString(b) }

func rb(rng *rand.Rand, n int) []byte {
	b := make([]byte, n)
	rng.Read(b)
	return b
}

func newGroup(rng *rand.Rand, pre []byte, parent []byte, createHeight uint64) *types.Group {
	h := &types.GroupHeader{Parent: parent, PreGroup: pre, CreateBlockHash: rb(rng, 32),
		BeginTime: time.Date(2024, 5, 1, 0, 0, 0, 0, time.UTC), CreateHeight: createHeight, Extends: "verif"}
	copy(h.MemberRoot[:], rb(rng, 32))
	h.Hash = h.GenHash()
	g := &types.Group{Header: h, Id: rb(rng, 32), PubKey: rb(rng, 64), Signature: rb(rng, 32)}
	for i := 0; i < 3; i++ {
		g.Members = append(g.Members, rb(rng, 32))
	}
	return g
}

// forkDue / sqlFaultDue decide (from the PRNG) whether this operation slot is a fork switch or an
// SQL-fault injection (the latter costs the driver's busy timeout, so it is rare).
func forkDue(rng *rand.Rand, op int) bool     { return rng.Intn(100) < 9 }
func sqlFaultDue(rng *rand.Rand, op int) bool { return op == 3 && rng.Intn(100) < 12 }

// addWithSQLLocked calls AddGroup while a second connection holds the write lock of the SQL
// side index (storage0/logs/logs.db), so that its insert fails with "database is locked" after
// the driver's busy timeout. The unchanged code panics out of AddGroup after the group is
// completely on the chain; whatever happens, the caller judges the chain afterwards.
func addWithSQLLocked(gc core.GroupChain, g *types.Group) (added bool) {
	lockDB, err := sql.Open("sqlite3", "file:storage0/logs/logs.db?mode=rwc&_journal_mode=WAL")
	if err != nil {
		return gc.AddGroup(g) == nil
	}
	defer lockDB.Close()
	conn, err := lockDB.Conn(context.Background())
	if err != nil {
		return gc.AddGroup(g) == nil
	}
	defer conn.Close()
	if _, err := conn.ExecContext(context.Background(), "BEGIN IMMEDIATE"); err != nil {
		return gc.AddGroup(g) == nil
	}
	defer conn.ExecContext(context.Background(), "ROLLBACK")
	defer func() {
		if e := recover(); e != nil {
			added = false
		}
	}()
	return gc.AddGroup(g) == nil
}

// forkSwitchWithTransientSQLLock runs the sync path's fork switch while a second connection holds
// the write lock of the SQL side index for a little longer than the driver's busy timeout (5 s):
// the first index statement of the switch fails with "database is locked", later ones succeed.
// Whatever the code does with that failure (the unchanged code panics out of remove after the top
// group is completely removed), the caller judges the chain afterwards.
func forkSwitchWithTransientSQLLock(anc *types.Group, branch []*types.Group) (panicked bool) {
	lockDB, err := sql.Open("sqlite3", "file:storage0/logs/logs.db?mode=rwc&_journal_mode=WAL")
	if err != nil {
		core.VerifGroupForkSwitch(anc, branch)
		return false
	}
	defer lockDB.Close()
	conn, err := lockDB.Conn(context.Background())
	if err != nil {
		core.VerifGroupForkSwitch(anc, branch)
		return false
	}
	defer conn.Close()
	if _, err := conn.ExecContext(context.Background(), "BEGIN IMMEDIATE"); err != nil {
		core.VerifGroupForkSwitch(anc, branch)
		return false
	}
	done := make(chan bool, 1)
	go func() {
		defer func() { done <- recover() != nil }()
		core.VerifGroupForkSwitch(anc, branch)
	}()
	select {
	case p := <-done: // finished (or failed) while the lock was still held
		conn.ExecContext(context.Background(), "ROLLBACK")
		return p
	case <-time.After(6500 * time.Millisecond):
	}
	conn.ExecContext(context.Background(), "ROLLBACK")
	return <-done
}

// linearBranch builds nb groups above anc, each linking to its predecessor.
func linearBranch(rng *rand.Rand, anc *types.Group, h, nb, op int, parentOf func(int) []byte) []*types.Group {
	var branch []*types.Group
	pre := anc.Id
	for i := 0; i < nb; i++ {
		g := newGroup(rng, pre, parentOf(rng.Intn(h+1)), uint64(10+op))
		g.Header.CreateBlockHash = core.GetBlockChain().TopBlock().Hash.Bytes()
		g.Header.Hash = g.Header.GenHash()
		g.GroupHeight = uint64(h + 1 + i)
		branch = append(branch, g)
		pre = g.Id
	}
	return branch
}

type walker struct {
	r   *mon.Run
	w   *Witness
	ref *Ref
}

func (k *walker) fail(sig, what string) {
	w := *k.w
	w.Ops = append([]string{}, k.ref.Ops...)
	w.At = what
	k.r.Violation(sig, what, w)
}

// check evaluates every clause of the property against the reference list.
func (k *walker) check(when string) {
	gc := core.GetGroupChain()
	ref := k.ref.List
	n := uint64(len(ref))
	k.r.Count("invariant_evaluations", 1)
	if c := gc.Count(); c != n {
		k.fail("C19:count:differs-from-list-length", fmt.Sprintf("%s: Count()=%d, list length %d", when, c, n))
	}
	last := gc.LastGroup()
	if last == nil || hx(last.Id) != ref[n-1] {
		k.fail("C19:last:not-the-list-tail", fmt.Sprintf("%s: LastGroup=%v want %s", when, idOf(last), ref[n-1]))
	}
	// reachability from the last group through predecessor links
	cur := last
	for i := int(n) - 1; i >= 0; i-- {
		if cur == nil {
			k.fail("C19:links:chain-broken", fmt.Sprintf("%s: predecessor walk ended at list position %d", when, i))
			break
		}
		if hx(cur.Id) != ref[i] {
			k.fail("C19:links:wrong-predecessor", fmt.Sprintf("%s: walk position %d is %s want %s", when, i, hx(cur.Id), ref[i]))
			break
		}
		if i > 0 {
			cur = gc.GetGroupById(cur.Header.PreGroup)
		} else if pg := gc.GetGroupById(cur.Header.PreGroup); pg != nil && len(cur.Header.PreGroup) > 0 {
			k.fail("C19:links:genesis-has-predecessor", fmt.Sprintf("%s: genesis group links to %s", when, hx(pg.Id)))
		}
	}
	// iterator agrees with the list
	it := gc.Iterator()
	pos := int(n) - 1
	for g := it.Current(); g != nil; g = it.MovePre() {
		if pos < 0 || hx(g.Id) != ref[pos] {
			k.fail("C19:iterator:disagrees-with-list", fmt.Sprintf("%s: iterator element %s at list position %d", when, hx(g.Id), pos))
			break
		}
		pos--
	}
	if pos != -1 {
		k.fail("C19:iterator:disagrees-with-list", fmt.Sprintf("%s: iterator stopped with %d elements missing", when, pos+1))
	}
	// height index
	for i := uint64(0); i < n; i++ {
		g := gc.GetGroupByHeight(i)
		if g == nil || hx(g.Id) != ref[i] {
			k.fail("C19:height-index:wrong-entry-below-count", fmt.Sprintf("%s: GetGroupByHeight(%d)=%s want %s (count %d)", when, i, idOf(g), ref[i], n))
		} else if g.GroupHeight != i {
			k.fail("C19:height-index:record-height-mismatch", fmt.Sprintf("%s: group at height %d records GroupHeight %d", when, i, g.GroupHeight))
		}
		k.r.Count("height_lookups", 1)
	}
	for i := n; i < n+4; i++ {
		if g := gc.GetGroupByHeight(i); g != nil {
			k.fail("C19:height-index:entry-at-or-above-count", fmt.Sprintf("%s: GetGroupByHeight(%d) returns %s although Count()=%d", when, i, hx(g.Id), n))
		}
		k.r.Count("height_lookups", 1)
	}
	// by id
	for i, id := range ref {
		b, _ := hex.DecodeString(id)
		g := gc.GetGroupById(b)
		if g == nil || !bytes.Equal(g.Id, b) {
			k.fail("C19:by-id:listed-group-not-retrievable", fmt.Sprintf("%s: GetGroupById(%s) (list position %d) = %s", when, id, i, idOf(g)))
		} else if want, ok := k.ref.Hash[id]; ok {
			// the record is the one that was added last under this id (an id can come back with another header after a fork switch)
			k.r.Count("record_content_checks", 2)
			if g.Header == nil || hx(g.Header.Hash.Bytes()) != want {
				k.fail("C19:by-id:record-is-not-the-added-group", fmt.Sprintf("%s: GetGroupById(%s) (list position %d) returns a record with another header hash than the group that was added", when, id, i))
			}
			if hg := gc.GetGroupByHeight(uint64(i)); hg != nil && bytes.Equal(hg.Id, b) && (hg.Header == nil || hx(hg.Header.Hash.Bytes()) != want) {
				k.fail("C19:height-index:record-is-not-the-added-group", fmt.Sprintf("%s: GetGroupByHeight(%d) returns a record of %s with another header hash than the group that was added", when, i, id))
			}
		}
	}
	// sync view
	for i := range ref {
		b, _ := hex.DecodeString(ref[i])
		got := gc.GetSyncGroupsById(b)
		hi := i + 6
		if hi > len(ref) {
			hi = len(ref)
		}
		want := ref[i+1 : hi]
		ok := len(got) == len(want)
		for j := 0; ok && j < len(got); j++ {
			ok = got[j] != nil && hx(got[j].Id) == want[j]
		}
		if !ok {
			k.fail("C19:sync-view:disagrees-with-list", fmt.Sprintf("%s: GetSyncGroupsById(position %d) returned %d groups, list has %d successors in the window", when, i, len(got), len(want)))
		}
	}
	// informational: the SQL side index
	if c := mysql.CountGroups(); c != n {
		k.r.Count("info_sqlindex_count_differs", 1)
	}
}

func idOf(g *types.Group) string {
	if g == nil {
		return "<nil>"
	}
	return hx(g.Id)
}

func child(args []string) {
	r := mon.Start("C19")
	seq, _ := strconv.Atoi(args[0])
	seg, _ := strconv.Atoi(args[1])
	segs, _ := strconv.Atoi(args[2])
	nops, _ := strconv.Atoi(args[3])
	helper := &env.Helper{}
	rejectID := []byte{}
	var slowCheck int32 // when set, the consensus check takes a while (as the real signature check does)
	var checkCalls int64
	helper.RejectGroup = func(g *types.Group) bool {
		if atomic.LoadInt32(&slowCheck) != 0 {
			n := atomic.AddInt64(&checkCalls, 1)
			time.Sleep(time.Duration(200+(n*7919)%1800) * time.Microsecond)
		}
		return len(rejectID) > 0 && bytes.Equal(g.Id, rejectID)
	}
	env.BootCore(env.Forks{}, helper)
	gc := core.GetGroupChain()
	rng := r.Rand("c19", seq, seg)

	ref := &Ref{Pre: map[string]string{}}
	if b, err := ioutil.ReadFile("verif-ref.json"); err == nil {
		json.Unmarshal(b, ref)
		r.Count("restarts", 1)
	} else {
		// first segment: the list is whatever genesis created
		n := gc.Count()
		for i := uint64(0); i < n; i++ {
			g := gc.GetGroupByHeight(i)
			if g == nil {
				fmt.Println("MACHINERY: genesis group missing at height", i)
				os.Exit(3)
			}
			ref.add(g.Id, g.Header)
		}
	}
	w := &Witness{Seq: seq, Segs: segs, OpsN: nops}
	k := &walker{r: r, w: w, ref: ref}
	k.check(fmt.Sprintf("after restart (segment %d)", seg))

	logop := func(s string) {
		ref.Ops = append(ref.Ops, s)
		r.CaseBegin([]byte(s))
	}
	listedID := func(i int) []byte { b, _ := hex.DecodeString(ref.List[i]); return b }
	// every fourth sequence is a "deep" one: its first segment grows the chain by 20-25 groups, its
	// later segments start with a fork switch / removal that goes more than 16 groups down (the
	// sync helpers hand out at most 16 groups at a time)
	deep := seq%4 == 3
	if deep && seg == 0 {
		n := 20 + rng.Intn(6)
		logop(fmt.Sprintf("bulk-add %d", n))
		for i := 0; i < n; i++ {
			g := newGroup(rng, listedID(len(ref.List)-1), listedID(rng.Intn(len(ref.List))), uint64(10+i))
			if err := gc.AddGroup(g); err != nil {
				r.Note("bulk add rejected: %v", err)
				break
			}
			ref.add(g.Id, g.Header)
			r.Count("adds_accepted", 1)
		}
		k.check("after the bulk add")
	}
	for op := 0; op < nops; op++ {
		if deep && op == 0 && len(ref.List) > 19 {
			depth := 17 + rng.Intn(len(ref.List)-18)
			if depth > 24 {
				depth = 17 + rng.Intn(8)
			}
			h := len(ref.List) - 1 - depth
			if anc := gc.GetGroupByHeight(uint64(h)); anc != nil {
				if (seq/4+seg)%2 == 0 {
					branch := linearBranch(rng, anc, h, 1+rng.Intn(3), op, listedID)
					logop(fmt.Sprintf("deep-fork-switch ancestor=%d depth=%d branch=%d", h, depth, len(branch)))
					if forkErr, _ := core.VerifGroupForkSwitch(anc, branch); forkErr == nil {
						ref.List = ref.List[:h+1]
						for _, g := range branch {
							ref.add(g.Id, g.Header)
						}
					}
					r.Count("deep_fork_switches", 1)
				} else {
					logop(fmt.Sprintf("deep-remove-above %d depth=%d", h, depth))
					core.VerifRemoveGroupsAbove(anc)
					ref.List = ref.List[:h+1]
					r.Count("deep_removals", 1)
				}
				r.Count("removes", int64(depth))
				r.Count("operations", 1)
				k.check(fmt.Sprintf("after op %d of segment %d (%s)", op, seg, ref.Ops[len(ref.Ops)-1]))
				continue
			}
		}
		lastID := listedID(len(ref.List) - 1)
		parent := listedID(rng.Intn(len(ref.List)))
		choice := rng.Intn(100)
		switch {
		case forkDue(rng, op): // fork switch through the sync path: a branch received from a peer replaces everything above a common ancestor
			h := rng.Intn(len(ref.List))
			anc := gc.GetGroupByHeight(uint64(h))
			if anc == nil {
				continue
			}
			nb := 1 + rng.Intn(3)
			reuse := rng.Intn(3) == 0
			shape := rng.Intn(4) // 0,1: linear branch; 2: one group links to an earlier branch group / the ancestor; 3: one group links to a random id
			var branch []*types.Group
			pre := anc.Id
			for i := 0; i < nb; i++ {
				linkTo := pre
				if i > 0 && shape == 2 && i == nb-1 {
					if i >= 2 {
						linkTo = branch[i-2].Id
					} else {
						linkTo = anc.Id
					}
				}
				if i > 0 && shape == 3 && i == nb-1 {
					linkTo = rb(rng, 32)
				}
				// the parent must survive the switch: a listed group at or below the common ancestor
				g := newGroup(rng, linkTo, listedID(rng.Intn(h+1)), uint64(10+op))
				g.Header.CreateBlockHash = core.GetBlockChain().TopBlock().Hash.Bytes()
				g.Header.Hash = g.Header.GenHash()
				g.GroupHeight = uint64(h + 1 + i)
				if shape <= 1 && reuse && h+1+i < len(ref.List) {
					// the group that is on the chain at this height comes back on the other branch
					// with another header (same id, other predecessor / content)
					g.Id = listedID(h + 1 + i)
					r.Count("fork_branch_groups_reusing_a_removed_id", 1)
				}
				branch = append(branch, g)
				pre = g.Id
			}
			logop(fmt.Sprintf("fork-switch ancestor=%d branch=%d shape=%d reuse=%v", h, nb, shape, reuse))
			forkErr, onChain := core.VerifGroupForkSwitch(anc, branch)
			r.Count("fork_switches", 1)
			if forkErr != nil {
				r.Count("fork_switches_refused_on_fork", 1) // nothing may have changed
			} else {
				// removal down to the ancestor, then the branch groups one by one while each links to the tip
				if len(ref.List)-1-h > 0 {
					r.Count("removes", int64(len(ref.List)-1-h))
				}
				ref.List = ref.List[:h+1]
				tip := anc.Id
				complete := true
				for _, g := range branch {
					if !bytes.Equal(g.Header.PreGroup, tip) {
						complete = false
						break
					}
					ref.add(g.Id, g.Header)
					tip = g.Id
					r.Count("adds_accepted", 1)
				}
				if complete != onChain {
					r.Count("fork_switch_result_differs_from_reference", 1)
				}
				if !complete {
					r.Count("fork_switches_nonlinear", 1)
				}
			}
		case op == 5 && len(ref.List) >= 3 && rng.Intn(100) < 10: // fork switch of depth >= 2 while the SQL side index is locked for the first statement only
			h := rng.Intn(len(ref.List) - 2)
			anc := gc.GetGroupByHeight(uint64(h))
			if anc == nil {
				continue
			}
			old := append([]string{}, ref.List...)
			branch := linearBranch(rng, anc, h, 1+rng.Intn(2), op, listedID)
			logop(fmt.Sprintf("fork-switch-with-transient-sql-lock ancestor=%d branch=%d", h, len(branch)))
			if forkSwitchWithTransientSQLLock(anc, branch) {
				r.Count("sql_fault_fork_switch_panicked", 1)
			}
			r.Count("sql_fault_fork_switches", 1)
			// allowed outcomes: the switch stopped after removing j groups from the top (0 <= j <= depth),
			// or after the complete removal and m of the branch groups (a state the chain passes
			// through anyway); anything else is a broken chain
			var cands [][]string
			for j := 0; j <= len(old)-1-h; j++ {
				cands = append(cands, old[:len(old)-j])
			}
			full := append([]string{}, old[:h+1]...)
			for _, g := range branch {
				full = append(full, hx(g.Id))
				cands = append(cands, append([]string{}, full...))
			}
			matched := false
			if last := gc.LastGroup(); last != nil {
				for _, c := range cands {
					if uint64(len(c)) == gc.Count() && c[len(c)-1] == hx(last.Id) {
						ref.List, matched = c, true
						for _, g := range branch {
							ref.note(g.Id, g.Header)
						}
						break
					}
				}
			}
			if !matched {
				k.fail("C19:fault:fork-switch-left-no-prefix-state", fmt.Sprintf("after a fork switch (ancestor %d, %d groups above it, branch %d) whose first SQL index statement failed, Count()=%d and the last group are not those of any state the switch passes through", h, len(old)-1-h, len(branch), gc.Count()))
			}
		case rng.Intn(100) < 5 && len(ref.List) >= 2: // peers ask for groups (unlocked sync-server lookup) while a fork switch replaces those heights; physical writes are delayed at random
			h := rng.Intn(len(ref.List) - 1)
			anc := gc.GetGroupByHeight(uint64(h))
			if anc == nil {
				continue
			}
			branch := linearBranch(rng, anc, h, 1+rng.Intn(3), op, listedID)
			logop(fmt.Sprintf("fork-switch-vs-peer-requests ancestor=%d branch=%d", h, len(branch)))
			drng := rand.New(rand.NewSource(rng.Int63()))
			var dmu sync.Mutex
			db.VerifWriteHook = func(kind string, key []byte) {
				dmu.Lock()
				x, y := drng.Intn(100), drng.Intn(1000)
				dmu.Unlock()
				switch {
				case x < 12:
					time.Sleep(time.Duration(5000+25*y) * time.Microsecond)
				case x < 35:
					time.Sleep(time.Duration(100+2*y) * time.Microsecond)
				}
			}
			atomic.StoreInt32(&slowCheck, 1)
			var stop int32
			var served int64
			var wg sync.WaitGroup
			top := len(ref.List) + len(branch)
			for p := 0; p < 3; p++ {
				wg.Add(1)
				go func(p int) {
					defer wg.Done()
					for i := 0; atomic.LoadInt32(&stop) == 0; i++ {
						core.VerifServeGroupRequest(uint64(h + (i+p)%(top-h+1)))
						atomic.AddInt64(&served, 1)
					}
				}(p)
			}
			forkErr, _ := core.VerifGroupForkSwitch(anc, branch)
			atomic.StoreInt32(&stop, 1)
			wg.Wait()
			atomic.StoreInt32(&slowCheck, 0)
			db.VerifWriteHook = nil
			r.Count("concurrent_episodes", 1)
			r.Count("fork_switches_with_peer_requests", 1)
			r.Count("peer_requests_served_during_fork_switch", served)
			if forkErr == nil {
				ref.List = ref.List[:h+1]
				for _, g := range branch {
					ref.add(g.Id, g.Header)
				}
			}
		case rng.Intn(100) < 4 && len(ref.List) >= 4: // groups built on INTERMEDIATE groups are offered again and again while a removal of depth >= 2 runs (physical writes delayed at random)
			h := rng.Intn(len(ref.List) - 3)
			anc := gc.GetGroupByHeight(uint64(h))
			if anc == nil {
				continue
			}
			var offers []*types.Group
			for j := h + 1; j <= len(ref.List)-2 && len(offers) < 3; j++ {
				offers = append(offers, newGroup(rng, listedID(j), listedID(rng.Intn(h+1)), uint64(10+op)))
			}
			logop(fmt.Sprintf("remove-above %d vs adds on %d intermediate groups", h, len(offers)))
			drng := rand.New(rand.NewSource(rng.Int63()))
			var dmu sync.Mutex
			db.VerifWriteHook = func(kind string, key []byte) {
				dmu.Lock()
				x, y := drng.Intn(100), drng.Intn(1000)
				dmu.Unlock()
				if x < 40 {
					time.Sleep(time.Duration(300+3*y) * time.Microsecond)
				}
			}
			var stop, accepted int32
			var attempts int64
			var wg sync.WaitGroup
			for _, x := range offers {
				wg.Add(1)
				go func(x *types.Group) {
					defer wg.Done()
					for atomic.LoadInt32(&stop) == 0 {
						if gc.AddGroup(x) == nil {
							atomic.AddInt32(&accepted, 1)
							return
						}
						atomic.AddInt64(&attempts, 1)
					}
				}(x)
			}
			time.Sleep(time.Duration(rng.Intn(500)) * time.Microsecond)
			core.VerifRemoveGroupsAbove(anc)
			atomic.StoreInt32(&stop, 1)
			wg.Wait()
			db.VerifWriteHook = nil
			r.Count("concurrent_episodes", 1)
			r.Count("removals_with_adds_on_intermediate_groups", 1)
			r.Count("add_attempts_during_removal", atomic.LoadInt64(&attempts))
			r.Count("removes", int64(len(ref.List)-1-h))
			ref.List = ref.List[:h+1]
			if atomic.LoadInt32(&accepted) > 0 {
				k.fail("C19:concurrent:add-on-intermediate-group-accepted-during-removal", fmt.Sprintf("while the groups above height %d were removed, AddGroup accepted %d group(s) whose predecessor was one of the groups being removed (never the last group before or after the removal)", h, accepted))
			}
		case sqlFaultDue(rng, op): // the SQL side index cannot be written while the group is added
			g := newGroup(rng, lastID, parent, uint64(10+op))
			logop("add-valid-with-sql-index-locked " + hx(g.Id))
			added := addWithSQLLocked(gc, g)
			r.Count("sql_fault_injections", 1)
			// judged against what the chain itself says afterwards: either the group is completely on
			// the chain or not at all; a half-done addition fails the walker under either reference
			if last := gc.LastGroup(); added || (last != nil && bytes.Equal(last.Id, g.Id)) || gc.Count() == uint64(len(ref.List))+1 {
				ref.add(g.Id, g.Header)
				r.Count("adds_accepted", 1)
				r.Count("sql_fault_group_on_chain", 1)
			}
		case choice < 7: // the same valid successor arrives twice at once (consensus + sync)
			g := newGroup(rng, lastID, parent, uint64(10+op))
			g2 := *g
			h2 := *g.Header
			g2.Header = &h2
			logop("concurrent-double-add " + hx(g.Id))
			atomic.StoreInt32(&slowCheck, 1)
			var wg sync.WaitGroup
			var e1, e2 error
			wg.Add(2)
			go func() { defer wg.Done(); e1 = gc.AddGroup(g) }()
			go func() { defer wg.Done(); e2 = gc.AddGroup(&g2) }()
			wg.Wait()
			atomic.StoreInt32(&slowCheck, 0)
			r.Count("concurrent_episodes", 1)
			if e1 == nil || e2 == nil {
				ref.add(g.Id, g.Header)
				r.Count("adds_accepted", 1)
			}
			if e1 == nil && e2 == nil {
				k.fail("C19:concurrent:same-group-added-twice", "two simultaneous AddGroup calls for the same group both succeeded")
			}
		case choice < 14: // a valid successor arrives while the fork switch removes the last group
			if len(ref.List) < 2 {
				continue
			}
			g := newGroup(rng, lastID, parent, uint64(10+op))
			logop("concurrent-add-vs-remove-last " + hx(g.Id))
			atomic.StoreInt32(&slowCheck, 1)
			var wg sync.WaitGroup
			var e1 error
			var removed bool
			wg.Add(2)
			go func() { defer wg.Done(); e1 = gc.AddGroup(g) }()
			go func() {
				defer wg.Done()
				time.Sleep(time.Duration(rng.Intn(1500)) * time.Microsecond)
				removed = core.VerifRemoveLastGroup()
			}()
			wg.Wait()
			atomic.StoreInt32(&slowCheck, 0)
			r.Count("concurrent_episodes", 1)
			switch {
			case e1 == nil && removed:
				// both succeeded: only the order add -> remove(g) is possible (after a removal the
				// group's predecessor is no longer the last group), so the list is unchanged
				r.Count("concurrent_add_then_remove", 1)
			case e1 == nil:
				ref.add(g.Id, g.Header)
				r.Count("adds_accepted", 1)
			case removed:
				ref.List = ref.List[:len(ref.List)-1]
				r.Count("removes", 1)
			}
		case choice < 38: // valid successor
			g := newGroup(rng, lastID, parent, uint64(10+op))
			logop("add-valid " + hx(g.Id))
			err := gc.AddGroup(g)
			if err == nil {
				ref.add(g.Id, g.Header)
				r.Count("adds_accepted", 1)
			} else {
				r.Count("valid_adds_rejected", 1)
				r.Note("valid successor rejected: %v", err)
			}
		case choice < 46: // wrong predecessor
			var pre []byte
			if len(ref.List) > 1 && rng.Intn(2) == 0 {
				pre = listedID(rng.Intn(len(ref.List) - 1))
			} else {
				pre = rb(rng, 32)
			}
			g := newGroup(rng, pre, parent, uint64(10+op))
			logop("add-wrong-predecessor " + hx(g.Id))
			if err := gc.AddGroup(g); err == nil {
				k.fail("C19:add:wrong-predecessor-accepted", "AddGroup accepted a group whose PreGroup is not the last group")
				ref.add(g.Id, g.Header)
			} else {
				r.Count("adds_rejected_wrong_predecessor", 1)
			}
		case choice < 52: // unknown parent
			g := newGroup(rng, lastID, rb(rng, 32), uint64(10+op))
			logop("add-unknown-parent " + hx(g.Id))
			if err := gc.AddGroup(g); err == nil {
				k.fail("C19:add:unknown-parent-accepted", "AddGroup accepted a group whose parent is not on the chain")
				ref.add(g.Id, g.Header)
			} else {
				r.Count("adds_rejected_unknown_parent", 1)
			}
		case choice < 58: // duplicate id
			g := newGroup(rng, lastID, parent, uint64(10+op))
			g.Id = listedID(rng.Intn(len(ref.List)))
			logop("add-duplicate-id " + hx(g.Id))
			if err := gc.AddGroup(g); err == nil {
				k.fail("C19:add:duplicate-id-accepted", "AddGroup accepted a group whose id is already on the chain")
			} else {
				r.Count("adds_rejected_duplicate", 1)
			}
		case choice < 62: // rejected by the consensus check
			g := newGroup(rng, lastID, parent, uint64(10+op))
			rejectID = g.Id
			logop("add-consensus-rejected " + hx(g.Id))
			if err := gc.AddGroup(g); err == nil {
				k.fail("C19:add:consensus-rejected-accepted", "AddGroup stored a group the consensus check rejected")
				ref.add(g.Id, g.Header)
			} else {
				r.Count("adds_rejected_consensus", 1)
			}
			rejectID = nil
		case choice < 84: // remove last
			logop("remove-last")
			if len(ref.List) > 1 {
				gb, _ := json.Marshal(gc.GetGroupById(lastID))
				ok := core.VerifRemoveLastGroup()
				if ok {
					ref.List = ref.List[:len(ref.List)-1]
					ref.Removed = append(ref.Removed, gb)
					if len(ref.Removed) > 4 {
						ref.Removed = ref.Removed[1:]
					}
					r.Count("removes", 1)
				} else {
					r.Count("removes_refused", 1)
				}
			} else {
				core.VerifRemoveLastGroup() // genesis only: must change nothing
				r.Count("removes_on_genesis_only", 1)
			}
		case choice < 92: // fork switch: remove everything above a common ancestor
			h := rng.Intn(len(ref.List))
			anc := gc.GetGroupByHeight(uint64(h))
			logop(fmt.Sprintf("remove-above %d", h))
			if anc != nil {
				core.VerifRemoveGroupsAbove(anc)
				if len(ref.List)-1-h > 0 {
					r.Count("removes", int64(len(ref.List)-1-h))
					r.Count("multi_removes", 1)
				}
				ref.List = ref.List[:h+1]
			}
		case choice >= 92 && choice < 96 && len(ref.Removed) > 0: // a removed id comes back with another header (the same group behind another predecessor on the other branch)
			var old types.Group
			json.Unmarshal(ref.Removed[rng.Intn(len(ref.Removed))], &old)
			onChain := false
			for _, id := range ref.List {
				if id == hx(old.Id) {
					onChain = true
				}
			}
			if onChain {
				continue
			}
			g := newGroup(rng, lastID, parent, uint64(10+op))
			g.Id = old.Id
			logop("add-removed-id-with-new-header " + hx(g.Id))
			if err := gc.AddGroup(g); err == nil {
				ref.add(g.Id, g.Header)
				r.Count("adds_accepted", 1)
				r.Count("removed_ids_readded_with_new_header", 1)
			} else {
				r.Count("valid_adds_rejected", 1)
				r.Note("removed id with a new header rejected: %v", err)
			}
		default: // re-add a group removed earlier (valid only when it was removed from this very position)
			if len(ref.Removed) == 0 {
				continue
			}
			var g types.Group
			json.Unmarshal(ref.Removed[rng.Intn(len(ref.Removed))], &g)
			logop("re-add-removed " + hx(g.Id))
			valid := bytes.Equal(g.Header.PreGroup, lastID)
			err := gc.AddGroup(&g)
			if err == nil {
				if !valid {
					k.fail("C19:add:wrong-predecessor-accepted", "AddGroup re-accepted a removed group whose PreGroup is not the last group")
				}
				ref.add(g.Id, g.Header)
				r.Count("readds_accepted", 1)
			} else if valid {
				r.Count("valid_adds_rejected", 1)
				r.Note("re-add of removed group at its old position rejected: %v", err)
			}
		}
		r.Count("operations", 1)
		k.check(fmt.Sprintf("after op %d of segment %d (%s)", op, seg, ref.Ops[len(ref.Ops)-1]))
	}
	// remove followed by add in this sequence?
	sawRemove := false
	for _, o := range ref.Ops {
		if len(o) >= 6 && o[:6] == "remove" {
			sawRemove = true
		}
		if sawRemove && len(o) >= 9 && o[:9] == "add-valid" {
			r.DistinctHash("nontrivial_sequences", uint64(seq)+1)
		}
	}
	if seg == segs-1 && seq < 3 {
		r.Sample(map[string]interface{}{"seq": seq, "ops": ref.Ops, "final_list_length": len(ref.List)})
	}
	b, _ := json.Marshal(ref)
	ioutil.WriteFile("verif-ref.json", b, 0644)
	// process death: no Close() on any store
	r.Finish(mon.Coverage{Evaluations: int64(nops)})
}

func runSequences(r *mon.Run, seqs []int, segs, nops int) {
	mon.Parallel(len(seqs), 16, func(i int) {
		seq := seqs[i]
		dir := filepath.Join(mon.WorkDir(), fmt.Sprintf("seq-%d", seq))
		for seg := 0; seg < segs; seg++ {
			res := r.RunChild(mon.ChildSpec{Label: fmt.Sprintf("seq%d/seg%d", seq, seg), Dir: dir,
				Args:    []string{strconv.Itoa(seq), strconv.Itoa(seg), strconv.Itoa(segs), strconv.Itoa(nops)},
				Timeout: 3 * time.Minute})
			if !r.Absorb(res, "C19:process") {
				break
			}
		}
		os.RemoveAll(dir)
	})
}

func main() {
	if args, ok := mon.IsChildInvocation(); ok {
		child(args)
		return
	}
	r := mon.Start("C19")
	r.Level = "fault_enumeration"
	defer mon.CleanWork()
	if p := mon.ReplayArg(); p != "" {
		v, err := mon.LoadReplay(p)
		if err != nil {
			fmt.Println("MACHINERY:", err)
			os.Exit(2)
		}
		var w Witness
		json.Unmarshal(v.Witness, &w)
		r.Seed = v.Seed
		runSequences(r, []int{w.Seq}, w.Segs, w.OpsN)
		mon.CleanWork()
		r.Finish(mon.Coverage{Evaluations: r.Get("operations"), DistinctNontrivial: 2, Rule: "replay of one recorded sequence"})
	}
	nseq := r.Pick(64, 1600)
	segs := r.Pick(3, 4)
	nops := r.Pick(14, 24)
	seqs := make([]int, nseq)
	for i := range seqs {
		seqs[i] = i
	}
	runSequences(r, seqs, segs, nops)
	mon.CleanWork()
	r.Finish(mon.Coverage{
		Evaluations:        r.Get("operations"),
		DistinctNontrivial: int64(r.DistinctCount("nontrivial_sequences")),
		Rule: "seeded sequences of group-chain operations (valid add, wrong predecessor, unknown parent, duplicate id, consensus-rejected, remove last, remove above ancestor, re-add removed, plus concurrent episodes: the same group added twice at once, an add racing the fork switch's removal, with a slow consensus check), " +
			"each sequence split into segments run by fresh processes over the same stores (restart = process death without Close + InitCore); all clauses of the property evaluated after every operation and after every restart; " +
			"non-trivial: sequences with a remove followed by a valid add; distinct by sequence index (PRNG stream)",
		Assumptions: []string{"stub ConsensusHelper accepts every group except the ones the workload marks", "restart is a process death (OS page cache survives), not a power loss"},
		MustObserve: []string{"adds_accepted", "removes", "restarts", "invariant_evaluations", "height_lookups", "concurrent_episodes", "fork_switches", "fork_switches_nonlinear", "sql_fault_injections"},
	})
}
