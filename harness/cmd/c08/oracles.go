package main

import (
	"bytes"
	"fmt"
	"io"
	"math/big"
	"reflect"
	"runtime"

	"com.tuntun.rangers/node/src/common"
	"com.tuntun.rangers/node/src/eth_tx"
	"com.tuntun.rangers/node/src/storage/rlp"

	"verifharness/mon"
	"verifharness/ref/rlpref"
)

// Case is the replayable description of one monitored execution.
type Case struct {
	Mode   string  `json:"mode"` // value | bytes | untyped | alloc | reader | exh-block
	Type   string  `json:"type,omitempty"`
	Input  mon.Hex `json:"input,omitempty"`
	Index  int     `json:"index,omitempty"`
	Origin string  `json:"origin,omitempty"`
	Prev   mon.Hex `json:"prev,omitempty"` // dirty-destination cases: the input decoded into the destination before
}

// refInfo: what the independent grammar says about a byte string (computed once per string).
type refInfo struct {
	first    *rlpref.Item  // deep parse of the first item (nil if not canonical)
	firstErr *rlpref.Error // why not
	exact    bool          // the whole string is exactly one deeply canonical item
	shallow  *rlpref.Item
	shErr    *rlpref.Error
	shRest   []byte
}

func refOf(b []byte) *refInfo {
	ri := &refInfo{}
	ri.shallow, ri.shRest, ri.shErr = rlpref.Shallow(b)
	var rest []byte
	ri.first, rest, ri.firstErr = rlpref.Parse(b)
	ri.exact = ri.firstErr == nil && len(rest) == 0
	return ri
}

// exactCode: the grammar's reason why b is not exactly one canonical item.
func (ri *refInfo) exactCode() string {
	if ri.firstErr != nil {
		return ri.firstErr.Code
	}
	if !ri.exact {
		return rlpref.ETrailing
	}
	return ""
}

var (
	cur, curU Case
	walkSig   = [3]string{"C08:Stream.Bytes/List:total", "C08:Stream.Uint/List:total", "C08:Stream.Raw/List:total"}
)

func (tg *target) sigDecode() string {
	if tg.sDecode == "" {
		tg.sDecode = tsig("DecodeBytes", tg, "total")
	}
	return tg.sDecode
}

func tsig(oracle string, tg *target, class string) string {
	return "C08:" + oracle + ":type=" + tg.Name + ":" + class
}

// ---------------------------------------------------------------------------
// classification of a re-encoding mismatch (stable classes, no data)

func trimZeros(b []byte) []byte {
	for len(b) > 0 && b[0] == 0 {
		b = b[1:]
	}
	return b
}

func diffItems(a, b *rlpref.Item) string {
	al, bl := a.Kind == rlpref.List, b.Kind == rlpref.List
	switch {
	case al && bl:
		if len(a.Kids) != len(b.Kids) {
			return "element-count-changed"
		}
		for i := range a.Kids {
			if d := diffItems(a.Kids[i], b.Kids[i]); d != "" {
				return d
			}
		}
		return ""
	case !al && !bl:
		if bytes.Equal(a.Content, b.Content) {
			return ""
		}
		if len(a.Content) > 0 && a.Content[0] == 0 && bytes.Equal(trimZeros(a.Content), trimZeros(b.Content)) {
			return "leading-zero-integer-accepted"
		}
		return "string-value-changed"
	case al && len(a.Content) == 0 && len(b.Content) == 0:
		return "0xc0-accepted-for-nil-reencodes-0x80"
	case bl && len(a.Content) == 0 && len(b.Content) == 0:
		return "0x80-accepted-for-nil-reencodes-0xc0"
	}
	return "kind-changed"
}

func classifyReencode(in, out []byte) string {
	a, e := rlpref.ParseExact(in)
	if e != nil {
		return "noncanonical-input-accepted:" + e.Code
	}
	b, e := rlpref.ParseExact(out)
	if e != nil {
		return "noncanonical-output:" + e.Code
	}
	if d := diffItems(a, b); d != "" {
		return d
	}
	return "bytes-differ"
}

// ---------------------------------------------------------------------------
// typed oracles on one byte string

var junks = [][]byte{{0x00}, {0x80}, {0xc0}, {0xff}, {0x83, 1, 2, 3}, {0xb8}}

type byteOpts struct {
	origin string
	nJunk  int // how many junk suffixes to try on accepted strings
}

// checkBytes runs oracles 2,3,4,5 for (target type, byte string). Returns whether the decoder accepted b.
func checkBytes(r *mon.Run, tg *target, b []byte, ri *refInfo, o byteOpts) (accepted bool) {
	// hot path: no per-case heap allocation for the witness (children are single-threaded;
	// Guard / Violation marshal the witness immediately)
	mark(tg, pmBytes, b, 0)
	cur = Case{Mode: "bytes", Type: tg.Name, Input: b, Origin: o.origin}
	p := reflect.New(tg.T)
	var err error
	if r.Guard(tg.sigDecode(), &cur, func() { err = rlp.DecodeBytes(b, p.Interface()) }) {
		return false
	}
	c := &cur
	if err != nil {
		if ri.exact {
			cnt[c_rejected_grammatical]++
			nontrivial(r, tg, b, o.origin)
			if tg.T == ifaceType || tg.Name == "rlp.RawValue" {
				// the untyped targets must accept exactly the canonical language
				viol(r, tsig("DecodeBytes", tg, "rejects-canonical-item"), c, "DecodeBytes(%x) into %s = %v, but the input is one canonical RLP item", clip(b), tg.Name, err)
			}
		} else {
			cnt[c_rejected_ungrammatical]++
		}
		return false
	}
	cnt[c_accepted]++
	nontrivial(r, tg, b, o.origin)
	// (3) grammar
	if tg.Raw {
		// A raw value is an opaque pass-through whose value IS its encoding (re-encode identity holds
		// trivially), so the property does not demand the single-byte rule of it: a 0x81-prefixed byte
		// < 0x80 taken by Stream.Raw is counted (informational), not reported. Every other defect of a
		// header the decoder did read (size form, trailing data) is still a violation.
		switch {
		case ri.shErr != nil && ri.shErr.Code == rlpref.ESingleByte && len(b) == 2:
			rawPrefixedInfo(r, "DecodeBytes into "+tg.Name, b)
		case ri.shErr != nil || len(ri.shRest) != 0:
			code := rlpref.ETrailing
			if ri.shErr != nil {
				code = ri.shErr.Code
			}
			viol(r, tsig("grammar", tg, code), c, "DecodeBytes(%x) into %s accepted an item whose outermost header is not canonical (%s)", clip(b), tg.Name, code)
		case ri.shallow.Kind == rlpref.List && tg.Name != "rlp.RawValue":
			// list of raw values: the element headers were read by the decoder as well
			ok, code, prefixed := rawElems(ri.shallow.Content)
			if !ok {
				viol(r, tsig("grammar", tg, "element:"+code), c, "DecodeBytes(%x) into %s accepted a list with a non-canonical element header (%s)", clip(b), tg.Name, code)
			} else if prefixed > 0 {
				rawPrefixedInfo(r, "DecodeBytes into "+tg.Name+" (element)", b)
			}
		}
	} else if !ri.exact {
		viol(r, tsig("grammar", tg, ri.exactCode()), c, "DecodeBytes(%x) into %s accepted a non-canonical string (%s)", clip(b), tg.Name, ri.exactCode())
	}
	// integers: no leading zero, zero is the empty string
	if tg.Int && ri.exact && ri.first.Kind != rlpref.List && len(ri.first.Content) > 0 && ri.first.Content[0] == 0 {
		viol(r, tsig("grammar", tg, "leading-zero-integer"), c, "DecodeBytes(%x) into %s accepted an integer with a leading zero byte", clip(b), tg.Name)
	}
	// (2) re-encode identity
	var enc []byte
	if r.Guard(tsig("EncodeToBytes", tg, "total"), c, func() { enc, err = rlp.EncodeToBytes(p.Interface()) }) {
		return true
	}
	cnt[c_reencode_checks]++
	if err != nil {
		viol(r, tsig("reencode", tg, "encoder-error"), c, "decoded value of %x does not encode: %v", clip(b), err)
	} else if !bytes.Equal(enc, b) {
		viol(r, tsig("reencode", tg, classifyReencode(b, enc)), c, "DecodeBytes(%x) into %s succeeded but the value re-encodes to %x", clip(b), tg.Name, clip(enc))
	}
	// (5) suffix independence
	for i := 0; i < o.nJunk && i < len(junks); i++ {
		j := junks[i]
		bj := append(append(make([]byte, 0, len(b)+len(j)), b...), j...)
		q := reflect.New(tg.T)
		if r.Guard(tsig("DecodeBytes", tg, "total"), c, func() { err = rlp.DecodeBytes(bj, q.Interface()) }) {
			continue
		}
		cnt[c_suffix_checks]++
		if err == nil {
			viol(r, tsig("suffix", tg, "trailing-data-accepted"), c, "DecodeBytes(%x ‖ %x) into %s succeeded although %x alone is a complete accepted value", clip(b), j, tg.Name, clip(b))
		} else if err != rlp.ErrMoreThanOneValue {
			viol(r, tsig("suffix", tg, "outcome-depends-on-bytes-after-value"), c, "DecodeBytes(%x) is accepted, DecodeBytes(%x ‖ %x) fails with %q instead of ErrMoreThanOneValue", clip(b), clip(b), j, err)
		}
		// the Stream API on the same bytes: same value, reader left exactly at the junk
		rd := bytes.NewReader(bj)
		q2 := reflect.New(tg.T)
		if r.Guard(tsig("Stream.Decode", tg, "total"), c, func() { err = rlp.NewStream(rd, 0).Decode(q2.Interface()) }) {
			continue
		}
		if err != nil {
			viol(r, tsig("suffix", tg, "stream-outcome-depends-on-bytes-after-value"), c, "Stream.Decode(%x ‖ %x) into %s fails with %q although %x alone is accepted", clip(b), j, tg.Name, err, clip(b))
		} else if rd.Len() != len(j) {
			viol(r, tsig("suffix", tg, "stream-consumed-wrong-length"), c, "Stream.Decode(%x ‖ %x) left %d bytes unread, want %d", clip(b), j, rd.Len(), len(j))
		} else if !tg.Tx && !normEqual(p.Elem(), q2.Elem()) {
			viol(r, tsig("suffix", tg, "value-depends-on-bytes-after-value"), c, "Stream.Decode(%x ‖ %x) into %s gives a different value than DecodeBytes(%x)", clip(b), j, tg.Name, clip(b))
		}
	}
	return true
}

// nontrivial counts a non-trivial (type, string) pair: exhaustive pairs are
// distinct by construction (counter), generated ones go into a measured set.
func nontrivial(r *mon.Run, tg *target, b []byte, origin string) {
	if origin == "exh" {
		cnt[c_exh_nontrivial_pairs]++
		return
	}
	r.Distinct("nontrivial_generated_pairs", []byte(tg.Name), b)
}

func clip(b []byte) []byte {
	if len(b) > 48 {
		return b[:48]
	}
	return b
}

// ---------------------------------------------------------------------------
// untyped API: Split / SplitString / SplitList / CountValues / Stream walkers
// judged in BOTH directions against the reference grammar.

func checkUntyped(r *mon.Run, b []byte, ri *refInfo, origin string) {
	mark(nil, pmUntyped, b, 0)
	curU = Case{Mode: "untyped", Input: b, Origin: origin}
	c := &curU
	// Split
	var (
		k             rlp.Kind
		content, rest []byte
		err           error
	)
	setStep(stSplit)
	if !r.Guard("C08:Split:total", c, func() { k, content, rest, err = rlp.Split(b) }) {
		cnt[c_split_checks]++
		switch {
		case err == nil && ri.shErr != nil:
			viol(r, "C08:grammar:Split:accepts:"+ri.shErr.Code, c, "Split(%x) succeeds on a non-canonical header (%s)", clip(b), ri.shErr.Code)
		case err != nil && ri.shErr == nil:
			viol(r, "C08:Split:rejects-canonical-item", c, "Split(%x) = %v but the first item is canonical", clip(b), err)
		case err == nil:
			cnt[c_split_accepted]++
			if int(k) != int(ri.shallow.Kind) || !bytes.Equal(content, ri.shallow.Content) || !bytes.Equal(rest, ri.shRest) {
				viol(r, "C08:Split:wrong-result", c, "Split(%x) = (%v, %x, rest %x), reference (%v, %x, rest %x)", clip(b), k, clip(content), clip(rest), ri.shallow.Kind, clip(ri.shallow.Content), clip(ri.shRest))
			}
			// suffix independence of Split
			for _, j := range junks[:3] {
				bj := append(append(make([]byte, 0, len(b)+len(j)), b[:len(b)-len(rest)]...), j...)
				var (
					k2     rlp.Kind
					c2, r2 []byte
					e2     error
				)
				setStep(stSplitSuffix)
				if r.Guard("C08:Split:total", c, func() { k2, c2, r2, e2 = rlp.Split(bj) }) {
					continue
				}
				if e2 != nil || k2 != k || !bytes.Equal(c2, content) || !bytes.Equal(r2, j) {
					viol(r, "C08:suffix:Split:result-depends-on-bytes-after-value", c, "Split(%x ‖ %x) = (%v, %x, %x, %v)", clip(b), j, k2, clip(c2), clip(r2), e2)
				}
			}
			// SplitString / SplitList agree with the kind
			var es, el error
			setStep(stSplitStringList)
			r.Guard("C08:SplitString/SplitList:total", c, func() {
				_, _, es = rlp.SplitString(b)
				_, _, el = rlp.SplitList(b)
			})
			if (es == nil) != (k != rlp.List) || (el == nil) != (k == rlp.List) {
				viol(r, "C08:Split:SplitString-SplitList-disagree-with-kind", c, "Split(%x) kind %v, SplitString err %v, SplitList err %v", clip(b), k, es, el)
			}
		}
	}
	// CountValues
	var n int
	setStep(stCountValues)
	if !r.Guard("C08:CountValues:total", c, func() { n, err = rlp.CountValues(b) }) {
		rn, rerr := rlpref.Count(b)
		cnt[c_count_checks]++
		switch {
		case err == nil && rerr != nil:
			viol(r, "C08:grammar:CountValues:accepts:"+rerr.Code, c, "CountValues(%x) = %d on a sequence with a non-canonical header (%s)", clip(b), n, rerr.Code)
		case err != nil && rerr == nil:
			viol(r, "C08:CountValues:rejects-canonical-sequence", c, "CountValues(%x) = %v, reference counts %d items", clip(b), err, rn)
		case err == nil && n != rn:
			viol(r, "C08:CountValues:wrong-count", c, "CountValues(%x) = %d, reference %d", clip(b), n, rn)
		}
	}
	// Stream walkers (first value of the stream)
	for mode := 0; mode < 3; mode++ {
		name := [...]string{"Stream.Bytes/List", "Stream.Uint/List", "Stream.Raw/List"}[mode]
		rd := bytes.NewReader(b)
		s := rlp.NewStream(rd, 0)
		var tree interface{}
		setStep(int32(stWalkBytes + mode))
		if r.Guard(walkSig[mode], c, func() { tree, err = streamWalk(s, mode, 0) }) {
			continue
		}
		cnt[c_stream_walks]++
		// what the grammar expects of this walker
		var wantOK bool
		var code string
		switch mode {
		case 0:
			wantOK = ri.firstErr == nil
			if !wantOK {
				code = ri.firstErr.Code
			}
		case 1:
			wantOK = ri.firstErr == nil && intClean(ri.first)
			if ri.firstErr != nil {
				code = ri.firstErr.Code
			} else if !wantOK {
				code = "leading-zero-integer"
			}
		case 2:
			// elements are taken with Stream.Raw: opaque pass-through, the single-byte rule is not
			// demanded of them (informational counter); everything else about their headers is
			wantOK = ri.shErr == nil
			if wantOK && ri.shallow.Kind == rlpref.List {
				ok, ecode, prefixed := rawElems(ri.shallow.Content)
				if !ok {
					wantOK, code = false, ecode
				} else if prefixed > 0 {
					if err != nil {
						continue // a decoder that enforces the rule here as well is equally fine
					}
					rawPrefixedInfo(r, "Stream.Raw", b)
				}
			} else if !wantOK {
				code = ri.shErr.Code
			}
		}
		switch {
		case err == nil && !wantOK:
			viol(r, "C08:grammar:"+name+":accepts:"+code, c, "%s walk of %x succeeds although the input is not canonical (%s)", name, clip(b), code)
		case err != nil && wantOK:
			viol(r, "C08:"+name+":rejects-canonical-item", c, "%s walk of %x fails with %v on a canonical item", name, clip(b), err)
		case err == nil:
			cnt[c_stream_walks_accepted]++
			used := len(b) - rd.Len()
			if used != ri.shallow.Total() {
				viol(r, "C08:"+name+":consumed-wrong-length", c, "%s walk of %x consumed %d bytes, the first item has %d", name, clip(b), used, ri.shallow.Total())
			} else if got := walkEnc(tree); !bytes.Equal(got, b[:used]) {
				viol(r, "C08:"+name+":wrong-content", c, "%s walk of %x yields content that encodes to %x", name, clip(b), clip(got))
			}
		}
	}
}

// rawElems scans the payload of a list whose elements are taken as raw values:
// every element header must be canonical except that a 0x81-prefixed byte
// below 0x80 is tolerated (counted in prefixed).
func rawElems(p []byte) (ok bool, code string, prefixed int) {
	for len(p) > 0 {
		it, rest, err := rlpref.Shallow(p)
		if err != nil {
			if err.Code == rlpref.ESingleByte {
				prefixed++
				p = p[2:]
				continue
			}
			return false, err.Code, prefixed
		}
		_ = it
		p = rest
	}
	return true, "", prefixed
}

// rawPrefixedInfo: informational only (decision recorded in the C08 follow-up); the parent adds one note.
func rawPrefixedInfo(r *mon.Run, where string, b []byte) {
	cnt[c_info_raw_value_prefixed_single_byte_accepted]++
}

func intClean(it *rlpref.Item) bool {
	if it.Kind == rlpref.List {
		for _, k := range it.Kids {
			if !intClean(k) {
				return false
			}
		}
		return true
	}
	return len(it.Content) > 8 || len(it.Content) == 0 || it.Content[0] != 0
}

type rawLeaf []byte
type uintLeaf uint64

// streamWalk reads one value through the piecemeal Stream API.
// mode 0: List/Bytes; mode 1: Uint for strings of <= 8 bytes; mode 2: Raw for every element of the top list.
func streamWalk(s *rlp.Stream, mode, depth int) (interface{}, error) {
	kind, size, err := s.Kind()
	if err != nil {
		return nil, err
	}
	if mode == 2 && depth > 0 {
		raw, err := s.Raw()
		return rawLeaf(raw), err
	}
	if kind == rlp.List {
		if _, err := s.List(); err != nil {
			return nil, err
		}
		out := []interface{}{}
		for {
			e, err := streamWalk(s, mode, depth+1)
			if err == rlp.EOL {
				break
			}
			if err != nil {
				return nil, err
			}
			out = append(out, e)
		}
		return out, s.ListEnd()
	}
	if mode == 1 && size <= 8 {
		u, err := s.Uint()
		return uintLeaf(u), err
	}
	b, err := s.Bytes()
	return b, err
}

func walkEnc(v interface{}) []byte {
	switch x := v.(type) {
	case []byte:
		return rlpref.EncString(x)
	case rawLeaf:
		return x
	case uintLeaf:
		return rlpref.EncUint(uint64(x))
	case []interface{}:
		var p []byte
		for _, e := range x {
			p = append(p, walkEnc(e)...)
		}
		return rlpref.EncList(p)
	}
	return nil
}

// ---------------------------------------------------------------------------
// (6) allocation oracle. Single-threaded callers only.

// The design's first guess (64 bytes per input byte) is below what a correct
// decoder needs for interface{} targets: every 1-byte element (0xc0, 0x80, 0x05)
// costs a boxed slice header, an interface slot (x3 over the 1.5x growth of the
// enclosing slice) and a reflect-allocated header, 100-130 bytes in total
// (measured: observed.max_alloc_ratio_x100_inputs_ge256B). The bound stays
// linear in the input; a decoder that trusts a declared length exceeds it by
// orders of magnitude from a 9-byte input.
const (
	allocPerByte = 256
	allocSlack   = 4096
)

// measureDecode returns the TotalAlloc delta of one guarded call.
func measureDecode(r *mon.Run, sig string, c Case, f func()) (delta int64, panicked bool) {
	var m0, m1 runtime.MemStats
	runtime.ReadMemStats(&m0)
	panicked = r.Guard(sig, c, f)
	runtime.ReadMemStats(&m1)
	return int64(m1.TotalAlloc - m0.TotalAlloc), panicked
}

// minAlloc: the decoder's allocation is a deterministic function of the
// input; anything else the process allocates meanwhile (runtime housekeeping)
// is not. A measurement above the bound is therefore repeated and the minimum
// of three is judged.
func minAlloc(bound int64, measure func() (int64, bool)) (d int64, panicked bool) {
	d, panicked = measure()
	for i := 0; i < 2 && !panicked && d > bound; i++ {
		d2, p2 := measure()
		if p2 {
			return d, true
		}
		if d2 < d {
			d = d2
		}
	}
	return d, panicked
}

func checkAlloc(r *mon.Run, tg *target, b []byte, origin string) {
	mark(tg, pmAlloc, b, 0)
	c := Case{Mode: "alloc", Type: tg.Name, Input: b, Origin: origin}
	bound := allocPerByte*int64(len(b)) + allocSlack
	d, panicked := minAlloc(bound, func() (int64, bool) {
		p := reflect.New(tg.T)
		return measureDecode(r, tsig("DecodeBytes", tg, "total"), c, func() { rlp.DecodeBytes(b, p.Interface()) })
	})
	if panicked {
		return
	}
	cnt[c_alloc_checks]++
	r.Max("max_alloc_bytes_single_decode", d)
	if len(b) >= 256 { // below that the fixed cost of a decode (stream, target value, error) dominates
		r.Max("max_alloc_ratio_x100_inputs_ge256B", d*100/int64(len(b)))
	}
	if d > bound {
		viol(r, tsig("alloc", tg, "disproportionate-allocation"), c, "DecodeBytes of %d input bytes (%x…) into %s allocated %d bytes (bound %d·len+%d)", len(b), clip(b), tg.Name, d, allocPerByte, allocSlack)
	}
}

// claimsDangerousSize: some position of b looks like a long-form header that
// claims between 16 MiB and 2^63 bytes. Such inputs are not fed to the
// no-limit reader entry point: on the unchanged tree it allocates what is
// claimed (observed: 36 GiB resident from a 9-byte input) and would take the
// machine down; smaller claims show the same behaviour safely and larger ones
// end in a recoverable makeslice panic.
func claimsDangerousSize(b []byte) bool { return claimsSizeIn(b, 16<<20+1, 1<<63) }

// claimsSizeIn: some position of b looks like a long-form header claiming lo <= size < hi.
func claimsSizeIn(b []byte, lo, hi uint64) bool {
	for i, t := range b {
		var k int
		switch {
		case t >= 0xb8 && t <= 0xbf:
			k = int(t - 0xb7)
		case t >= 0xf8:
			k = int(t - 0xf7)
		default:
			continue
		}
		if i+1+k > len(b) {
			k = len(b) - i - 1
		}
		var size uint64
		for _, c := range b[i+1 : i+1+k] {
			size = size<<8 | uint64(c)
		}
		if size >= lo && size < hi {
			return true
		}
	}
	return false
}

// claimsFatalSize: a header on a structural path of b (the item itself, or an
// element reached by descending through list payloads as far as the bytes
// allow) claims between 2^27 and 2^48 bytes: what a length-trusting decoder
// would try to allocate and die of under the child's address-space limit.
func claimsFatalSize(b []byte) bool {
	for depth := 0; len(b) > 0 && depth < 64; {
		t := b[0]
		var hdr int
		var size uint64
		switch {
		case t < 0x80:
			b = b[1:]
			continue
		case t < 0xb8:
			hdr, size = 1, uint64(t-0x80)
		case t < 0xc0:
			hdr = 1 + int(t-0xb7)
		case t < 0xf8:
			hdr, size = 1, uint64(t-0xc0)
		default:
			hdr = 1 + int(t-0xf7)
		}
		if hdr > 1 {
			if hdr > len(b) {
				hdr = len(b)
			}
			for _, c := range b[1:hdr] {
				size = size<<8 | uint64(c)
			}
		}
		if size >= 1<<27 && size < 1<<48 {
			return true
		}
		isList := t >= 0xc0
		switch {
		case isList: // descend: the payload (as far as present) is the next thing a decoder looks at
			b = b[hdr:]
			depth++
		case size <= uint64(len(b)-hdr): // skip the string
			b = b[hdr+int(size):]
		default:
			return false
		}
	}
	return false
}

// plainReader hides the concrete reader type so that Stream cannot discover the input length.
type plainReader struct{ r *bytes.Reader }

func (p *plainReader) Read(b []byte) (int, error) { return p.r.Read(b) }
func (p *plainReader) ReadByte() (byte, error)    { return p.r.ReadByte() }

// checkReader: the io.Reader entry points. The signatures of the no-limit
// entry point do not carry the target type: what it does with a declared
// length happens in Stream.Bytes / Stream.Raw, independently of the type (the
// type is in the message and the witness), and which list-shaped types a
// seeded hostile string happens to reach varies with the seed. (a) NewStream(r, len(b)) with an
// explicit limit must behave like DecodeBytes; (b) rlp.Decode(r) on a reader of
// unknown length must still return a value or an error and not allocate beyond
// what it was given.
func checkReader(r *mon.Run, tg *target, b []byte, origin string) {
	mark(tg, pmReader, b, 0)
	c := Case{Mode: "reader", Type: tg.Name, Input: b, Origin: origin}
	p0 := reflect.New(tg.T)
	var err0 error
	if r.Guard(tsig("DecodeBytes", tg, "total"), c, func() { err0 = rlp.DecodeBytes(b, p0.Interface()) }) {
		return
	}
	if len(b) > 0 {
		p := reflect.New(tg.T)
		var err error
		rd := &plainReader{bytes.NewReader(b)}
		if !r.Guard(tsig("Stream(limit).Decode", tg, "total"), c, func() { err = rlp.NewStream(rd, uint64(len(b))).Decode(p.Interface()) }) {
			cnt[c_reader_checks]++
			trailing := err0 == rlp.ErrMoreThanOneValue
			if (err == nil) != (err0 == nil || trailing) {
				viol(r, tsig("Stream(limit).Decode", tg, "differs-from-DecodeBytes"), c, "NewStream(reader,len).Decode(%x) err=%v, DecodeBytes err=%v", clip(b), err, err0)
			}
		}
	}
	if claimsDangerousSize(b) {
		cnt[c_reader_skipped_dangerous_claim]++
		return
	}
	bound := allocPerByte*int64(len(b)) + allocSlack
	d, panicked := minAlloc(bound, func() (int64, bool) {
		p := reflect.New(tg.T)
		rd := &plainReader{bytes.NewReader(b)}
		return measureDecode(r, "C08:Decode(io.Reader,no-limit):total", c, func() { rlp.Decode(rd, p.Interface()) })
	})
	if panicked {
		return
	}
	cnt[c_reader_checks]++
	r.Max("max_alloc_bytes_unlimited_reader", d)
	if d > bound {
		viol(r, "C08:alloc:Decode(io.Reader,no-limit):disproportionate-allocation", c, "rlp.Decode from a %d-byte reader (%x…) into %s allocated %d bytes", len(b), clip(b), tg.Name, d)
	}
}

// ---------------------------------------------------------------------------
// (1) value round trip

func refEncode(v reflect.Value) ([]byte, error) { return rlpref.EncodeValue(v, nil) }

// genTarget returns the idx-th generated value of the type (pointer to it).
func genTarget(r *mon.Run, tg *target, idx int) reflect.Value {
	rng := r.Rand("value", tg.Name, idx)
	t := tg.T
	if tg.Tx {
		t = reflect.TypeOf(TxMirror{})
	}
	p := reflect.New(t)
	genBudget, genElems = 200<<10, 2000
	genValue(rng, p.Elem(), 0, false)
	return p
}

// checkValue runs oracle 1 for the idx-th value of tg; returns the reference encoding.
func checkValue(r *mon.Run, tg *target, idx int) []byte {
	c := Case{Mode: "value", Type: tg.Name, Index: idx}
	p := genTarget(r, tg, idx)
	want, rerr := refEncode(p.Elem())
	if rerr != nil {
		panic(rerr)
	}
	c.Input = want
	mark(tg, pmValue, want, idx)
	cnt[c_value_roundtrips]++
	if tg.Tx {
		checkTxValue(r, tg, c, p.Interface().(*TxMirror), want)
		return want
	}
	var enc, enc2 []byte
	var err, err2 error
	if r.Guard(tsig("EncodeToBytes", tg, "total"), c, func() {
		enc, err = rlp.EncodeToBytes(p.Interface())
		enc2, err2 = rlp.EncodeToBytes(p.Elem().Interface())
	}) {
		return want
	}
	if err != nil || err2 != nil {
		viol(r, tsig("encode", tg, "encoder-error"), c, "EncodeToBytes: %v / %v", err, err2)
		return want
	}
	if !bytes.Equal(enc, enc2) {
		viol(r, tsig("encode", tg, "pointer-and-value-encode-differently"), c, "%x vs %x", clip(enc), clip(enc2))
	}
	if !bytes.Equal(enc, want) {
		cl := "differs-from-reference-encoding"
		if _, e := rlpref.ParseExact(enc); e != nil {
			cl = "noncanonical-output:" + e.Code
		}
		viol(r, tsig("encode", tg, cl), c, "EncodeToBytes = %x, reference encoding %x", clip(enc), clip(want))
	}
	q := reflect.New(tg.T)
	if r.Guard(tsig("DecodeBytes", tg, "total"), c, func() { err = rlp.DecodeBytes(enc, q.Interface()) }) {
		return want
	}
	if err != nil {
		viol(r, tsig("roundtrip", tg, "own-encoding-rejected"), c, "DecodeBytes(EncodeToBytes(v)=%x) = %v", clip(enc), err)
		return want
	}
	if !normEqual(p.Elem(), q.Elem()) {
		viol(r, tsig("roundtrip", tg, "value-changed"), c, "decode(encode(v)) != v for encoding %x: got %+v", clip(enc), q.Elem().Interface())
	}
	return want
}

func bigEq(a, b *big.Int) bool {
	if a == nil {
		a = new(big.Int)
	}
	if b == nil {
		b = new(big.Int)
	}
	return a.Cmp(b) == 0
}

func checkTxValue(r *mon.Run, tg *target, c Case, m *TxMirror, want []byte) {
	tx := new(eth_tx.Transaction)
	var err error
	if r.Guard(tsig("DecodeBytes", tg, "total"), c, func() { err = rlp.DecodeBytes(want, tx) }) {
		return
	}
	if err != nil {
		viol(r, tsig("roundtrip", tg, "canonical-encoding-rejected"), c, "DecodeBytes(%x) = %v", clip(want), err)
		return
	}
	v, rr, s := tx.RawSignatureValues()
	to := tx.To()
	sameTo := (to == nil) == (m.Recipient == nil) && (to == nil || *to == *m.Recipient)
	if tx.Nonce() != m.AccountNonce || !bigEq(tx.GasPrice(), m.Price) || tx.Gas() != m.GasLimit || !sameTo ||
		!bigEq(tx.Value(), m.Amount) || !bytes.Equal(tx.Data(), m.Payload) || !bigEq(v, m.V) || !bigEq(rr, m.R) || !bigEq(s, m.S) {
		viol(r, tsig("roundtrip", tg, "value-changed"), c, "transaction decoded from %x does not carry the encoded fields", clip(want))
	}
	var enc []byte
	if r.Guard(tsig("EncodeToBytes", tg, "total"), c, func() { enc, err = rlp.EncodeToBytes(tx) }) {
		return
	}
	if err != nil || !bytes.Equal(enc, want) {
		viol(r, tsig("encode", tg, "differs-from-reference-encoding"), c, "EncodeToBytes(tx) = %x err %v, reference %x", clip(enc), err, clip(want))
	}
	// the constructors the node uses (V,R,S = 0)
	var tx2 *eth_tx.Transaction
	m2 := *m
	m2.V, m2.R, m2.S = nil, nil, nil
	if m2.Price == nil {
		m2.Price = new(big.Int)
	}
	if m2.Amount == nil {
		m2.Amount = new(big.Int)
	}
	if m.Recipient != nil {
		tx2 = eth_tx.NewTransaction(m.AccountNonce, common.Address(*m.Recipient), m2.Amount, m.GasLimit, m2.Price, m.Payload)
	} else {
		tx2 = eth_tx.NewContractCreation(m.AccountNonce, m2.Amount, m.GasLimit, m2.Price, m.Payload)
	}
	want2, _ := refEncode(reflect.ValueOf(&m2).Elem())
	if r.Guard(tsig("EncodeToBytes", tg, "total"), c, func() { enc, err = rlp.EncodeToBytes(tx2) }) {
		return
	}
	if err != nil || !bytes.Equal(enc, want2) {
		viol(r, tsig("encode", tg, "constructed-tx-differs-from-reference-encoding"), c, "EncodeToBytes(NewTransaction(..)) = %x err %v, reference %x", clip(enc), err, clip(want2))
	}
}

var _ = io.EOF

// viol reports a violation; after three reports of a signature only the count
// is kept (no message formatting, no witness), so a decoder that is broken
// everywhere cannot stall the run.
var violSeen = map[string]int{}

func viol(r *mon.Run, sig string, witness interface{}, format string, a ...interface{}) {
	n := violSeen[sig]
	violSeen[sig] = n + 1
	if n >= 3 {
		r.Violation(sig, "", nil)
		return
	}
	r.Violation(sig, fmt.Sprintf(format, a...), witness)
}
