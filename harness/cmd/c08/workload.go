package main

import (
	"encoding/binary"
	"math/rand"

	"verifharness/ref/rlpref"
)

// ---------------------------------------------------------------------------
// (a) mutations of valid encodings

var mutKinds = []string{
	"long-form-header", "zero-padded-length", "prefixed-single-byte", "leading-zero", "tag-swap", "empty-swap",
	"size+1", "size-1", "truncate", "extend", "insert-elem", "drop-elem", "dup-elem", "flip-byte", "huge-size",
	"zero-byte-for-empty",
}

func lenBytesNeeded(n int) int {
	k := 1
	for n >= 256 {
		n >>= 8
		k++
	}
	return k
}

func pickNode(rng *rand.Rand, nodes []*rlpref.Node, pred func(*rlpref.Node) bool) *rlpref.Node {
	var c []*rlpref.Node
	for _, n := range nodes {
		if pred(n) {
			c = append(c, n)
		}
	}
	if len(c) == 0 {
		return nil
	}
	return c[rng.Intn(len(c))]
}

func payloadLen(n *rlpref.Node) int {
	if !n.List {
		return len(n.Str)
	}
	t := 0
	for _, k := range n.Kids {
		t += len(k.Encode())
	}
	return t
}

func smallItem(rng *rand.Rand) *rlpref.Node {
	switch rng.Intn(5) {
	case 0:
		return &rlpref.Node{Str: []byte{}}
	case 1:
		return &rlpref.Node{List: true}
	case 2:
		return &rlpref.Node{Str: []byte{byte(rng.Intn(0x80))}}
	case 3:
		return &rlpref.Node{Str: []byte{byte(0x80 + rng.Intn(0x80))}}
	default:
		b := make([]byte, 2+rng.Intn(4))
		rng.Read(b)
		return &rlpref.Node{Str: b}
	}
}

// mutate applies one mutation of the given kind to a canonical encoding.
func mutate(rng *rand.Rand, enc []byte, kind string) []byte {
	it, err := rlpref.ParseExact(enc)
	if err != nil {
		panic("mutate: seed encoding is not canonical: " + err.Error())
	}
	root := rlpref.FromItem(it)
	all := root.All()
	any := func(*rlpref.Node) bool { return true }
	isStr := func(n *rlpref.Node) bool { return !n.List }
	isList := func(n *rlpref.Node) bool { return n.List }
	switch kind {
	case "long-form-header":
		n := pickNode(rng, all, func(n *rlpref.Node) bool { return payloadLen(n) < 56 })
		if n == nil {
			n = all[rng.Intn(len(all))]
		}
		n.ForceLong = lenBytesNeeded(payloadLen(n))
	case "zero-padded-length":
		n := pickNode(rng, all, any)
		n.ForceLong = lenBytesNeeded(payloadLen(n)) + 1 + rng.Intn(3)
	case "prefixed-single-byte":
		n := pickNode(rng, all, func(n *rlpref.Node) bool { return !n.List && len(n.Str) == 1 && n.Str[0] < 0x80 })
		if n == nil {
			if n = pickNode(rng, all, isStr); n == nil {
				n = all[len(all)-1]
				n.List, n.Kids = false, nil
			}
			n.Str = []byte{byte(rng.Intn(0x80))}
		}
		n.NoSingle = true
	case "leading-zero":
		n := pickNode(rng, all, isStr)
		if n == nil {
			n = all[len(all)-1]
			n.List, n.Kids = false, nil
		}
		n.Str = append([]byte{0}, n.Str...)
	case "tag-swap":
		pickNode(rng, all, any).SwapTag = true
	case "empty-swap":
		n := pickNode(rng, all, func(n *rlpref.Node) bool { return payloadLen(n) == 0 })
		if n == nil {
			n = all[len(all)-1]
			n.Str, n.Kids = []byte{}, nil
		}
		n.List = !n.List
		if n.Str == nil {
			n.Str = []byte{}
		}
	case "size+1":
		pickNode(rng, all, any).SizeDelta = 1
	case "size-1":
		n := pickNode(rng, all, func(n *rlpref.Node) bool { return payloadLen(n) > 0 })
		if n == nil {
			n = root
			n.SizeDelta = 1
		} else {
			n.SizeDelta = -1
		}
	case "truncate":
		b := root.Encode()
		cut := 1 + rng.Intn(3)
		if cut > len(b) {
			cut = len(b)
		}
		return b[:len(b)-cut]
	case "extend":
		b := root.Encode()
		return append(b, smallItem(rng).Encode()...)
	case "insert-elem":
		n := pickNode(rng, all, isList)
		if n == nil {
			return append(root.Encode(), 0x80)
		}
		i := rng.Intn(len(n.Kids) + 1)
		n.Kids = append(n.Kids[:i:i], append([]*rlpref.Node{smallItem(rng)}, n.Kids[i:]...)...)
	case "drop-elem":
		n := pickNode(rng, all, func(n *rlpref.Node) bool { return n.List && len(n.Kids) > 0 })
		if n == nil {
			return []byte{0xc0}
		}
		i := rng.Intn(len(n.Kids))
		n.Kids = append(n.Kids[:i:i], n.Kids[i+1:]...)
	case "dup-elem":
		n := pickNode(rng, all, func(n *rlpref.Node) bool { return n.List && len(n.Kids) > 0 })
		if n == nil {
			b := root.Encode()
			return append(b, b...)
		}
		i := rng.Intn(len(n.Kids))
		n.Kids = append(n.Kids[:i:i], append([]*rlpref.Node{n.Kids[i]}, n.Kids[i:]...)...)
	case "flip-byte":
		b := append([]byte{}, root.Encode()...)
		i := rng.Intn(len(b))
		if rng.Intn(2) == 0 {
			b[i] ^= 1 << uint(rng.Intn(8))
		} else {
			b[i] = byte(rng.Intn(256))
		}
		return b
	case "huge-size":
		n := pickNode(rng, all, any)
		payload := n.Encode()
		base := byte(0xb7)
		if n.List {
			base = 0xf7
		}
		n.Raw = append(hugeHeader(rng, base, len(payload)), payload...)
	case "zero-byte-for-empty":
		n := pickNode(rng, all, func(n *rlpref.Node) bool { return !n.List && len(n.Str) == 0 })
		if n == nil {
			if n = pickNode(rng, all, isStr); n == nil {
				n = all[len(all)-1]
			}
		}
		n.Raw = []byte{0x00}
	default:
		panic("unknown mutation " + kind)
	}
	return root.Encode()
}

// ---------------------------------------------------------------------------
// (c) structure-aware hostile headers

var hugeSizes = []uint64{0, 1, 55, 56, 57, 255, 256, 65535, 65536, 1<<24 - 1, 1 << 24, 1<<31 - 1, 1 << 31, 1<<32 - 1, 1 << 32,
	1<<32 + 1, 1 << 40, 1<<48 - 1, 1<<56 - 1, 1 << 56, 1<<63 - 1, 1 << 63, 1<<63 + 1, 1<<64 - 9, 1<<64 - 2, 1<<64 - 1}

func hugeHeader(rng *rand.Rand, longBase byte, actual int) []byte {
	var size uint64
	switch rng.Intn(6) {
	case 0:
		size = uint64(actual + rng.Intn(3) - 1)
	case 1:
		size = uint64(1) << uint(rng.Intn(64))
		size += uint64(rng.Intn(3)) - 1
	case 2:
		size = rng.Uint64() >> uint(rng.Intn(64))
	default:
		size = hugeSizes[rng.Intn(len(hugeSizes))]
	}
	var l [8]byte
	binary.BigEndian.PutUint64(l[:], size)
	i := 0
	for i < 7 && l[i] == 0 {
		i++
	}
	if rng.Intn(5) == 0 && i > 0 { // zero padded length
		i -= 1 + rng.Intn(i)
	}
	lb := l[i:]
	return append([]byte{longBase + byte(len(lb))}, lb...)
}

func randomPayload(rng *rand.Rand) []byte {
	switch rng.Intn(4) {
	case 0:
		return nil
	case 1: // a sequence of small valid items
		var p []byte
		for n := rng.Intn(6); n > 0; n-- {
			p = append(p, smallItem(rng).Encode()...)
		}
		return p
	default:
		p := make([]byte, rng.Intn(41))
		rng.Read(p)
		return p
	}
}

// txFieldsPrefix: the first fields of a legacy transaction list so that a hostile item lands in a typed field.
func wrapInList(rng *rand.Rand, item []byte) []byte {
	var p []byte
	for n := rng.Intn(4); n > 0; n-- {
		p = append(p, smallItem(rng).Encode()...)
	}
	p = append(p, item...)
	for n := rng.Intn(3); n > 0; n-- {
		p = append(p, smallItem(rng).Encode()...)
	}
	return rlpref.EncList(p)
}

func hostile(rng *rand.Rand) []byte {
	payload := randomPayload(rng)
	base := byte(0xb7)
	if rng.Intn(2) == 0 {
		base = 0xf7
	}
	item := append(hugeHeader(rng, base, len(payload)), payload...)
	for d := rng.Intn(4); d > 0; d-- {
		item = wrapInList(rng, item)
	}
	return item
}

// special hostile shapes with a fixed construction (deep nesting, many tiny elements)
func nested(depth int, leaf []byte) []byte {
	b := leaf
	for i := 0; i < depth; i++ {
		b = rlpref.EncList(b)
	}
	return b
}

func manyElems(n int, elem []byte) []byte {
	p := make([]byte, 0, n*len(elem))
	for i := 0; i < n; i++ {
		p = append(p, elem...)
	}
	return rlpref.EncList(p)
}
