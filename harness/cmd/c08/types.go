package main

import (
	"math/big"
	"reflect"

	"com.tuntun.rangers/node/src/common"
	"com.tuntun.rangers/node/src/eth_tx"
	"com.tuntun.rangers/node/src/storage/account"
	"com.tuntun.rangers/node/src/storage/rlp"
)

// ---------------------------------------------------------------------------
// The type universe: what the node serialises with storage/rlp, plus shapes
// exercising every struct tag with every kind of field.

type Inner struct {
	X uint64
	Y []byte
}

// TxMirror has exactly the shape (field types, order, tags) of eth_tx.txdata,
// which is unexported.
type TxMirror struct {
	AccountNonce uint64
	Price        *big.Int
	GasLimit     uint64
	Recipient    *common.Address `rlp:"nil"`
	Amount       *big.Int
	Payload      []byte
	V            *big.Int
	R            *big.Int
	S            *big.Int
	Hash         *common.Hash `rlp:"-"`
}

// rlp:"nil" on a pointer whose element encodes as a STRING
type NilAddr struct {
	A uint64
	P *common.Address `rlp:"nil"`
	Z uint64
}
type NilUint struct {
	A uint64
	P *uint64 `rlp:"nil"`
	Z uint64
}
type NilBytes struct {
	A uint64
	P *[]byte `rlp:"nil"`
	Z uint64
}
type NilString struct {
	P *string `rlp:"nil"`
}

// rlp:"nil" on a pointer whose element encodes as a LIST
type NilStruct struct {
	A uint64
	P *Inner `rlp:"nil"`
	Z uint64
}
type NilUintSlice struct {
	A uint64
	P *[]uint64 `rlp:"nil"`
	Z uint64
}
type NilUintArray struct {
	P *[2]uint64 `rlp:"nil"`
}

// rlp:"nil" on *big.Int (the decoder special-cases *big.Int before pointers)
type NilBig struct {
	P *big.Int `rlp:"nil"`
	Z uint64
}

type Tail struct {
	A uint64
	T []uint64 `rlp:"tail"`
}
type TailBytes struct {
	A [1]byte
	T [][]byte `rlp:"tail"`
}
type TailStructs struct {
	S string
	T []Inner `rlp:"tail"`
}

// optional pointers inside reused slice elements and tail elements
type TailNil struct {
	A uint64
	T []NilStruct `rlp:"tail"`
}

type Ignored struct {
	A uint64
	X uint64 `rlp:"-"`
	B []byte
	c uint64
	D bool
}

// pointers WITHOUT the nil tag
type Ptrs struct {
	P *uint64
	Q *Inner
	R *[20]byte
	S *[]byte
	B *big.Int
}

type Outer struct {
	I    Inner
	L    []Inner
	H    common.Hash
	Addr common.Address
	B    bool
	S    string
	N    *big.Int
	M    big.Int
	U8   uint8
	U16  uint16
	U32  uint32
}

type Rec struct {
	V    uint64
	Kids []Rec
}

type ByteArrays struct {
	A0  [0]byte
	A1  [1]byte
	B1  [1]byte
	A20 [20]byte
	U   uint64
}

type target struct {
	Name string
	T    reflect.Type
	// Raw: the type contains rlp.RawValue, whose content the decoder documents
	// as unverified -> only the outermost header is held to the grammar.
	Raw bool
	// Int: decoded as an integer (no leading zero, 0x00 rejected).
	Int bool
	// Exh4: part of the thorough length-4 enumeration.
	Exh4 bool
	// Alloc: part of the allocation oracle.
	Alloc bool
	// Tx: *eth_tx.Transaction (custom coder, private fields -> compared through TxMirror).
	Tx bool

	sDecode string
	idx     int  // index in targets (child processes)
	skip    bool // quarantined in this child: its decoder killed an earlier incarnation of the shard
}

func tOf(v interface{}) reflect.Type { return reflect.TypeOf(v).Elem() }

var targets = []*target{
	{Name: "uint8", T: tOf(new(uint8)), Int: true},
	{Name: "uint16", T: tOf(new(uint16)), Int: true},
	{Name: "uint32", T: tOf(new(uint32)), Int: true},
	{Name: "uint64", T: tOf(new(uint64)), Int: true, Exh4: true},
	{Name: "uint", T: tOf(new(uint)), Int: true},
	{Name: "*big.Int", T: tOf(new(*big.Int)), Int: true, Exh4: true},
	{Name: "big.Int", T: tOf(new(big.Int)), Int: true},
	{Name: "bool", T: tOf(new(bool))},
	{Name: "string", T: tOf(new(string))},
	{Name: "[]byte", T: tOf(new([]byte)), Exh4: true, Alloc: true},
	{Name: "[0]byte", T: tOf(new([0]byte))},
	{Name: "[1]byte", T: tOf(new([1]byte))},
	{Name: "[2]byte", T: tOf(new([2]byte))},
	{Name: "[20]byte", T: tOf(new([20]byte))},
	{Name: "[32]byte", T: tOf(new([32]byte))},
	{Name: "common.Hash", T: tOf(new(common.Hash))},
	{Name: "common.Address", T: tOf(new(common.Address))},
	{Name: "rlp.RawValue", T: tOf(new(rlp.RawValue)), Raw: true, Exh4: true, Alloc: true},
	{Name: "interface{}", T: tOf(new(interface{})), Exh4: true, Alloc: true},
	{Name: "[]interface{}", T: tOf(new([]interface{})), Alloc: true},
	{Name: "[]uint64", T: tOf(new([]uint64))},
	{Name: "[]uint16", T: tOf(new([]uint16))},
	{Name: "[]bool", T: tOf(new([]bool))},
	{Name: "[]string", T: tOf(new([]string))},
	{Name: "[][]byte", T: tOf(new([][]byte)), Exh4: true, Alloc: true},
	{Name: "[][]uint16", T: tOf(new([][]uint16))},
	{Name: "[]*big.Int", T: tOf(new([]*big.Int))},
	{Name: "[2]uint64", T: tOf(new([2]uint64))},
	{Name: "[][1]byte", T: tOf(new([][1]byte))},
	{Name: "[3][1]byte", T: tOf(new([3][1]byte))},
	{Name: "[][20]byte", T: tOf(new([][20]byte))},
	{Name: "[]common.Hash", T: tOf(new([]common.Hash))},
	{Name: "[]rlp.RawValue", T: tOf(new([]rlp.RawValue)), Raw: true},
	{Name: "trie-short[2][]byte", T: tOf(new([2][]byte))},
	{Name: "trie-full[17][]byte", T: tOf(new([17][]byte))},
	{Name: "trie-full[17]rlp.RawValue", T: tOf(new([17]rlp.RawValue)), Raw: true},
	{Name: "Inner{uint64,[]byte}", T: tOf(new(Inner))},
	{Name: "account.Account", T: tOf(new(account.Account)), Alloc: true},
	{Name: "*eth_tx.Transaction", T: tOf(new(eth_tx.Transaction)), Tx: true, Alloc: true},
	{Name: "TxMirror(txdata-shape)", T: tOf(new(TxMirror)), Alloc: true},
	{Name: "NilAddr{uint64,*common.Address`nil`,uint64}", T: tOf(new(NilAddr)), Exh4: true},
	{Name: "NilUint{uint64,*uint64`nil`,uint64}", T: tOf(new(NilUint))},
	{Name: "NilBytes{uint64,*[]byte`nil`,uint64}", T: tOf(new(NilBytes))},
	{Name: "NilString{*string`nil`}", T: tOf(new(NilString))},
	{Name: "NilStruct{uint64,*Inner`nil`,uint64}", T: tOf(new(NilStruct)), Exh4: true},
	{Name: "NilUintSlice{uint64,*[]uint64`nil`,uint64}", T: tOf(new(NilUintSlice))},
	{Name: "NilUintArray{*[2]uint64`nil`}", T: tOf(new(NilUintArray))},
	{Name: "NilBig{*big.Int`nil`,uint64}", T: tOf(new(NilBig))},
	{Name: "Tail{uint64,[]uint64`tail`}", T: tOf(new(Tail))},
	{Name: "TailBytes{[1]byte,[][]byte`tail`}", T: tOf(new(TailBytes))},
	{Name: "TailStructs{string,[]Inner`tail`}", T: tOf(new(TailStructs))},
	{Name: "[]NilAddr", T: tOf(new([]NilAddr))},
	{Name: "TailNil{uint64,[]NilStruct`tail`}", T: tOf(new(TailNil))},
	{Name: "Ignored{uint64,-,[]byte,bool}", T: tOf(new(Ignored))},
	{Name: "Ptrs{*uint64,*Inner,*[20]byte,*[]byte,*big.Int}", T: tOf(new(Ptrs))},
	{Name: "Outer", T: tOf(new(Outer))},
	{Name: "Rec{uint64,[]Rec}", T: tOf(new(Rec))},
	{Name: "ByteArrays{[0]byte,[1]byte,[1]byte,[20]byte,uint64}", T: tOf(new(ByteArrays))},
}

func targetByName(n string) *target {
	for _, t := range targets {
		if t.Name == n {
			return t
		}
	}
	return nil
}
