package main

import (
	"bytes"
	"reflect"

	"com.tuntun.rangers/node/src/storage/rlp"

	"verifharness/mon"
)

// "Dirty destination" oracle (round-trip / fixed-point clauses): what a decode
// yields is a function of the input, not of what the destination held before.
// Input B is decoded into a destination that already holds the result of
// decoding an unrelated accepted input A (the same variable: struct, pointer,
// slice with a longer / shorter previous length and spare capacity, array,
// interface{} holder, big.Int, byte slice), and must then have the same error
// verdict, a value equal (modulo nil/empty, as everywhere) to decoding B into
// a fresh destination, and the same re-encoding. Reusing pointees / backing
// arrays is fine -- only the VALUE is judged.
func checkDirty(r *mon.Run, tg *target, a, b []byte, origin string) {
	if tg.skip || len(a) == 0 {
		return
	}
	mark(tg, pmDirty, b, 0)
	c := Case{Mode: "dirty", Type: tg.Name, Input: b, Prev: a, Origin: origin}
	dst := reflect.New(tg.T)
	var errA, errD, errF error
	if r.Guard(tg.sigDecode(), c, func() { errA = rlp.DecodeBytes(a, dst.Interface()) }) || errA != nil {
		return // A must be an accepted input; anything else is judged elsewhere
	}
	if r.Guard(tg.sigDecode(), c, func() { errD = rlp.DecodeBytes(b, dst.Interface()) }) {
		return
	}
	fresh := reflect.New(tg.T)
	if r.Guard(tg.sigDecode(), c, func() { errF = rlp.DecodeBytes(b, fresh.Interface()) }) {
		return
	}
	cnt[c_dirty_destination_checks]++
	if (errD == nil) != (errF == nil) {
		viol(r, tsig("dirty-destination", tg, "verdict-differs-from-fresh-decode"), c,
			"DecodeBytes(%x) into a %s that held the decoding of %x: err=%v; into a fresh one: err=%v", clip(b), tg.Name, clip(a), errD, errF)
		return
	}
	if errD != nil {
		return
	}
	cnt[c_dirty_destination_accepted]++
	if !tg.Tx && !normEqual(dst.Elem(), fresh.Elem()) {
		viol(r, tsig("dirty-destination", tg, "value-differs-from-fresh-decode"), c,
			"DecodeBytes(%x) into a %s that held the decoding of %x gives %+v, into a fresh one %+v", clip(b), tg.Name, clip(a), dst.Elem().Interface(), fresh.Elem().Interface())
		return
	}
	var encD, encF []byte
	if r.Guard(tsig("EncodeToBytes", tg, "total"), c, func() {
		encD, errD = rlp.EncodeToBytes(dst.Interface())
		encD = append([]byte{}, encD...)
		encF, errF = rlp.EncodeToBytes(fresh.Interface())
	}) {
		return
	}
	if errD != nil || errF != nil || !bytes.Equal(encD, encF) {
		viol(r, tsig("dirty-destination", tg, "reencoding-differs-from-fresh-decode"), c,
			"DecodeBytes(%x) into a %s that held the decoding of %x re-encodes to %x (err %v), decoded into a fresh one to %x (err %v)", clip(b), tg.Name, clip(a), clip(encD), errD, clip(encF), errF)
	}
}

// prevRing keeps the last few valid encodings per type as the "unrelated accepted input A".
type prevRing struct {
	e [4][]byte
	n int
}

func (p *prevRing) add(b []byte) { p.e[p.n%len(p.e)] = b; p.n++ }

func (p *prevRing) pick(k int) []byte {
	if p.n == 0 {
		return nil
	}
	m := p.n
	if m > len(p.e) {
		m = len(p.e)
	}
	return p.e[k%m]
}
