// C08 — RLP coding is canonical, lossless and total.
//
// Runtime monitor around the real storage/rlp package (EncodeToBytes,
// DecodeBytes, Decode, Split*, CountValues, the piecemeal Stream API) and the
// types the node serialises with it. Six oracles (DESIGN.md §4 C08):
//  1. value round trip (+ the encoder against an independent reference encoder),
//  2. re-encode identity on every accepted byte string, per target type,
//  3. an independent grammar checker (harness/ref/rlpref) on everything that is
//     accepted; the untyped entry points (Split, CountValues, Stream walkers,
//     interface{}) are judged in both directions: they must accept exactly the
//     canonical language,
//  4. totality: every call is guarded, every batch runs in a child process
//     under an address-space limit; the case in flight is kept in a shared
//     mapping, so a fatal death (out of memory, runaway loop) yields the exact
//     (type, input) and the shard is resumed with that type quarantined; a call
//     that does not come back is judged by CPU time, never by the wall clock,
//     and only after the case hung again when run alone (hang.go),
//  5. suffix independence,
//  6. allocation bound (TotalAlloc delta, single-threaded children),
//  7. encoder result lifetime: results held across later encoder calls stay
//     intact and independent of each other (alias.go),
//  8. dirty destination: a decode does not depend on what the destination held
//     before (dirty.go),
//  9. concurrent first use of never-seen types is total and equals the
//     sequential result (fresh.go).
//
// Workloads: seeded boundary-biased values per type; mutations of their
// encodings; exhaustive enumeration of all byte strings of length <= 3 (and
// the length-4 strings starting with a prefix byte in the thorough tier)
// against every target type; structure-aware hostile headers.
package main

import (
	"encoding/binary"
	"encoding/json"
	"fmt"
	"io/ioutil"
	"os"
	"path/filepath"
	"reflect"
	"runtime"
	"runtime/debug"
	"runtime/metrics"
	"strconv"
	"strings"
	"sync"
	"sync/atomic"
	"syscall"
	"time"

	"com.tuntun.rangers/node/src/storage/rlp"

	"verifharness/mon"
)

const (
	nExhShards  = 32
	nGenShards  = 32
	maxRestarts = 12
	progSize    = 2 << 20
	heapGuard   = 900 << 20
)

func main() {
	r := mon.Start("C08")
	initHang(r)
	if args, ok := mon.IsChildInvocation(); ok {
		child(r, args)
		return
	}
	if p := mon.ReplayArg(); p != "" {
		replay(r, p)
		return
	}

	type shard struct {
		mode string
		n    int
	}
	var shards []shard
	for i := 0; i < nExhShards || i < nGenShards; i++ { // interleaved: both kinds start early
		if i < nExhShards {
			shards = append(shards, shard{"exh", i})
		}
		if i < nGenShards {
			shards = append(shards, shard{"gen", i})
		}
	}
	if only := os.Getenv("C08_ONLY"); only != "" { // development aid: "gen:0,exh:6"
		var sel []shard
		for _, s := range shards {
			for _, w := range strings.Split(only, ",") {
				if w == fmt.Sprintf("%s:%d", s.mode, s.n) {
					sel = append(sel, s)
				}
			}
		}
		shards = sel
	}
	to := time.Duration(r.Pick(600, 5400)) * time.Second
	mon.Parallel(len(shards), 16, func(i int) { supervise(r, shards[i].mode, shards[i].n, to) })
	mon.CleanWork()

	if n := r.Get("info_raw_value_prefixed_single_byte_accepted"); n > 0 {
		r.Note("informational, not a violation: Stream.Raw / rlp.RawValue (also as list elements) took a 0x81-prefixed byte < 0x80 verbatim %d times (e.g. 8105, c28105); raw values are opaque pass-throughs, re-encode identity holds", n)
	}
	evals := r.Get("bytes_cases") + r.Get("value_roundtrips") + r.Get("alias_values_held") + r.Get("dirty_destination_checks") + r.Get("fresh_type_goroutines")
	nontriv := r.Get("exh_nontrivial_pairs") + int64(r.DistinctCount("nontrivial_generated_pairs")) + int64(r.DistinctCount("value"))
	exh := "all byte strings of length <= 3 against every target type"
	if r.Thorough() {
		exh += ", plus all length-4 strings whose first byte is >= 0x80 against the Exh4 subset of types"
	}
	r.Finish(mon.Coverage{
		Evaluations:        evals,
		DistinctNontrivial: nontriv,
		Exhaustive:         false,
		Rule: "cases are (target type, byte string) pairs and (target type, value) pairs over " + strconv.Itoa(len(targets)) + " target types. " +
			"Byte strings: exhaustive enumeration of " + exh + " (each pair visited once; a type whose decoder killed a child process is quarantined for the rest of that shard and in shards started later, see observed.pairs_skipped_quarantined_type); " +
			"one mutation of each of " + strconv.Itoa(len(mutKinds)) + " kinds of the reference encoding of seeded boundary-biased values; " +
			"structure-aware headers claiming sizes up to 2^64-1 (bare and wrapped in lists), deep nesting, many tiny elements. " +
			"Encoder lifetime: windows of 2..16 back-to-back encoder calls (EncodeToBytes / EncodeToReader / Encode; header-less values mixed with lists; every 4th window on 2-4 concurrent goroutines) whose results are all held and only compared with the reference bytes, decoded and scribbled over after the window (observed.alias_*). " +
			"Dirty destination: every valid and mutated encoding is also decoded into a destination of its type that holds an earlier value (and the reverse order, and into an interface{} holder) and compared with the decode into a fresh destination (observed.dirty_destination_*). " +
			"Concurrent first use: per trial a struct type the process has never seen (reflect.StructOf/SliceOf/ArrayOf/PtrTo, rlp tags, nested; observed.fresh_types_built) is encoded and decoded by 6-16 goroutines released from one barrier and compared with the sequential result (observed.fresh_type_trials). " +
			"Non-trivial = pairs the decoder accepted (oracles 2,3,5 apply) + pairs it rejected although the string is one canonical item (observed.accepted / observed.rejected_grammatical over all workloads); distinct_nontrivial = observed.exh_nontrivial_pairs (exhaustive pairs are distinct by construction) " +
			"+ the measured sets nontrivial_generated_pairs (type, string) and value (type, encoding of a round-tripped value).",
		Assumptions: []string{
			"harness/ref/rlpref implements the yellow-paper RLP grammar (it shares no code with storage/rlp)",
			"nil pointers to structs/arrays without the rlp:\"nil\" tag are outside the round-trip clause (their documented encoding, the empty list/string, does not decode back)",
			"rlp.RawValue / Stream.Raw: opaque pass-through (the value is the encoding, re-encode identity holds trivially): only the size form of the headers the decoder reads is held to the grammar; a 0x81-prefixed byte < 0x80 taken verbatim is counted in observed.info_raw_value_prefixed_single_byte_accepted, not reported",
			fmt.Sprintf("allocation bound: TotalAlloc delta of one DecodeBytes <= %d*len(input)+%d bytes", allocPerByte, allocSlack),
			fmt.Sprintf("a call \"does not return\" when the case in flight (one input <= 1 MiB) has used more than %v of process CPU time without completing, in the shard child and again when re-run alone in a fresh process (observed.max_cpu_ms_one_case_in_flight* = largest value sampled on cases that did complete); a wall-clock watchdog alone never yields a violation", hangCPU),
			"rlp.Decode on a reader of unknown length is not fed inputs claiming between 16 MiB and 2^63 bytes (it allocates what is claimed)",
		},
		MustObserve: []string{"value_roundtrips", "accepted", "rejected_grammatical", "rejected_ungrammatical", "reencode_checks", "suffix_checks",
			"split_checks", "count_checks", "stream_walks", "alloc_checks", "reader_checks", "exh_strings", "mutated_strings", "hostile_strings", "alias_windows", "alias_values_held", "alias_readers_held", "alias_windows_concurrent", "dirty_destination_checks", "dirty_destination_accepted", "fresh_type_trials", "fresh_types_built"},
	})
}

// ---------------------------------------------------------------------------
// progress mapping: [0:8] unit up to which counters were flushed, [8:16] unit in
// flight, [16:20] target index (-1: untyped API), [20] mode, [24:28] length of
// the input, [32:] the input. Written with plain stores before every execution.

var prog []byte

const (
	pmBytes = iota
	pmValue
	pmAlloc
	pmReader
	pmUntyped
	pmWindow
	pmDirty
	pmFresh
)

var pmNames = [...]string{"bytes", "value", "alloc", "reader", "untyped", "window", "dirty", "fresh"}

func openProg(path string, create bool) []byte {
	flags := os.O_RDWR
	if create {
		flags |= os.O_CREATE
	}
	f, err := os.OpenFile(path, flags, 0644)
	if err != nil {
		return nil
	}
	defer f.Close()
	if create {
		f.Truncate(progSize)
	}
	m, err := syscall.Mmap(int(f.Fd()), 0, progSize, syscall.PROT_READ|syscall.PROT_WRITE, syscall.MAP_SHARED)
	if err != nil {
		return nil
	}
	return m
}

var curUnit uint64

// mark records the execution about to start.
func mark(tg *target, mode byte, b []byte, idx int) {
	atomic.AddUint64(&markSeq, 1) // hang guard: another case is in flight now
	atomic.StoreInt32(&curStep, stNone)
	atomic.StoreInt32(&curMode, int32(mode))
	if prog == nil {
		return
	}
	binary.LittleEndian.PutUint64(prog[8:], curUnit)
	ti := int32(-1)
	if tg != nil {
		ti = int32(tg.idx)
	}
	binary.LittleEndian.PutUint32(prog[16:], uint32(ti))
	prog[20] = mode
	binary.LittleEndian.PutUint32(prog[24:], uint32(len(b)))
	binary.LittleEndian.PutUint32(prog[28:], uint32(idx))
	if len(b) > progSize-32 {
		b = b[:progSize-32]
	}
	copy(prog[32:], b)
}

func readProg(dir string) (flushed uint64, c *Case) {
	b, err := ioutil.ReadFile(filepath.Join(dir, "progress"))
	if err != nil || len(b) < 32 {
		return 0, nil
	}
	flushed = binary.LittleEndian.Uint64(b[0:])
	ti := int32(binary.LittleEndian.Uint32(b[16:]))
	n := int(binary.LittleEndian.Uint32(b[24:]))
	if n > len(b)-32 {
		n = len(b) - 32
	}
	c = &Case{Input: append([]byte{}, b[32:32+n]...), Index: int(binary.LittleEndian.Uint32(b[28:])), Origin: "in flight when the child died"}
	if int(b[20]) < len(pmNames) {
		c.Mode = pmNames[b[20]]
	}
	if ti >= 0 && int(ti) < len(targets) {
		c.Type = targets[ti].Name
	}
	return flushed, c
}

// supervise runs one shard to completion: a child that dies is a totality
// violation with the in-flight case as witness; the shard is resumed from the
// last flushed unit with the offending type quarantined.
func supervise(r *mon.Run, mode string, shard int, to time.Duration) {
	start := uint64(0)
	unconfirmed := 0
	quarMu.Lock()
	skip := append([]string{}, quarantined...) // types already seen to kill a child are not run again in later shards
	quarMu.Unlock()
	for attempt := 0; ; attempt++ {
		dir := filepath.Join(mon.WorkDir(), fmt.Sprintf("%s-%d-%d", mode, shard, attempt))
		sk, _ := json.Marshal(skip)
		res := r.RunChild(mon.ChildSpec{Label: fmt.Sprintf("%s-%d", mode, shard),
			Args: []string{mode, strconv.Itoa(shard), strconv.FormatUint(start, 10)},
			Env:  []string{"GOMAXPROCS=2", "C08_SKIP=" + string(sk)}, Dir: dir, Timeout: to})
		if _, err := os.Stat(res.Partial); err == nil {
			if e := r.Merge(res.Partial); e != nil {
				r.Note("merge %s: %v", res.Spec.Label, e)
			}
		}
		if res.Exit == 0 && !res.TimedOut {
			return
		}
		flushed, c := readProg(dir)
		typ := ""
		if c != nil {
			typ = c.Type
		}
		if typ == "" && c != nil && c.Mode == "untyped" {
			typ = untypedName
		}
		fired, _ := hangFired(res)
		if res.TimedOut || fired {
			// the child did not finish: its own CPU-time hang guard fired, or the wall-clock watchdog
			// here did. Either way only the case in flight, re-run alone, can turn that into a verdict.
			confirmed, step, cres := confirmHang(r, c, to)
			switch {
			case confirmed:
				reportHang(r, c, step, cres)
				if typ == "" || attempt >= maxRestarts {
					r.Inconclusive("shard %s-%d abandoned after a hang that cannot be quarantined (type %q, attempt %d): units >= %d unexplored", mode, shard, typ, attempt, flushed)
					return
				}
				skip = append(skip, typ)
				quarMu.Lock()
				quarantined = appendUnique(quarantined, typ)
				quarMu.Unlock()
				start = flushed
				continue
			case res.TimedOut:
				r.Inconclusive("child %s hit the %v watchdog; the case in flight, run alone, did not exhaust the CPU budget of the hang guard (hang-confirm exit %d, timed out %v); case in flight: %+v", res.Spec.Label, to, cres.Exit, cres.TimedOut, c)
				return
			default:
				unconfirmed++
				r.Count("hang_guard_firings_not_confirmed", 1)
				if unconfirmed >= 2 {
					r.Inconclusive("child %s: hang guard fired %d times in this shard on cases that complete when run alone; last case in flight: %+v; units >= %d unexplored", res.Spec.Label, unconfirmed, c, flushed)
					return
				}
				r.Note("child %s: hang guard fired but the case in flight completes when run alone (hang-confirm exit %d); shard resumed at unit %d. Case: %+v", res.Spec.Label, cres.Exit, flushed, c)
				start = flushed
				continue
			}
		}
		if res.Exit == 2 && c == nil {
			r.Inconclusive("child %s exited 2 before running anything: %s", res.Spec.Label, res.LogTail)
			return
		}
		logHT := mon.HeadTail(res.LogFile, 3500)
		site := deathSite(res.LogFile, c)
		r.Violation("C08:fatal:type="+caseType(c)+":"+site,
			fmt.Sprintf("child process died with exit %d (%s) while executing mode=%s type=%s input=%x", res.Exit, site, modeOf(c), caseType(c), clipCase(c)),
			map[string]interface{}{"case": c, "log": logHT})
		r.Count("child_deaths", 1)
		if typ == "" || attempt >= maxRestarts {
			r.Inconclusive("shard %s-%d abandoned after a death that cannot be quarantined (type %q, attempt %d): units >= %d unexplored", mode, shard, typ, attempt, flushed)
			return
		}
		skip = append(skip, typ)
		quarMu.Lock()
		quarantined = appendUnique(quarantined, typ)
		quarMu.Unlock()
		start = flushed
	}
}

// deathSite classifies a dead child: kind of death (mon.FatalSite: oom, panic,
// stack-overflow, ...) + the oracle phase that was in flight. The stack of the
// main goroutine is not used: when the memory guard fires it is usually
// "running on other thread; stack unavailable", and the innermost frame of a
// runaway loop is arbitrary anyway. The log excerpt is part of the witness.
func deathSite(logFile string, c *Case) string {
	b, _ := ioutil.ReadFile(logFile)
	kind := mon.FatalSite(string(b))
	if i := strings.Index(kind, "@"); i >= 0 {
		kind = kind[:i]
	}
	return kind + ":in-flight=" + modeOf(c)
}

var (
	quarMu      sync.Mutex
	quarantined []string
)

func appendUnique(l []string, s string) []string {
	for _, x := range l {
		if x == s {
			return l
		}
	}
	return append(l, s)
}

func modeOf(c *Case) string {
	if c == nil {
		return "?"
	}
	return c.Mode
}

func clipCase(c *Case) []byte {
	if c == nil {
		return nil
	}
	return clip(c.Input)
}

// ---------------------------------------------------------------------------

// warmup decodes once into the type so that the one-time type-cache
// allocations are not attributed to a measured case.
func warmup(tg *target) {
	defer func() { recover() }()
	rlp.DecodeBytes([]byte{0xc0}, reflect.New(tg.T).Interface())
	rlp.DecodeBytes([]byte{0x80}, reflect.New(tg.T).Interface())
}

// runBytesAll: one byte string against the untyped API and a set of targets.
func runBytesAll(r *mon.Run, b []byte, tgs []*target, o byteOpts) {
	ri := refOf(b)
	if !skipUntyped {
		checkUntyped(r, b, ri, o.origin)
	}
	for _, tg := range tgs {
		if tg.skip {
			cnt[c_pairs_skipped_quarantined_type]++
			continue
		}
		cnt[c_bytes_cases]++
		checkBytes(r, tg, b, ri, o)
	}
}

const untypedName = "<untyped API: Split/CountValues/Stream walkers>"

var (
	skipUntyped bool
	startUnit   uint64
	flushEvery  uint64
)

// unitDone: called after every unit; flushes counters + progress periodically.
func unitDone(r *mon.Run) {
	curUnit++
	if curUnit%flushEvery == 0 {
		atomic.AddUint64(&markSeq, 1) // the flush is harness work, not part of the case before it
		setStep(stFlush)
		flushCounts(r)
		r.FlushChild()
		if prog != nil {
			binary.LittleEndian.PutUint64(prog[0:], curUnit)
		}
		atomic.AddUint64(&markSeq, 1)
	}
}

func child(r *mon.Run, args []string) {
	// the live heap of a child is small; collect less often than the default
	debug.SetGCPercent(400)
	// memory guard: a decoder that trusts a declared length (or loops without consuming input) must
	// kill this child -- reported by the parent with the case in flight -- not the machine. A watchdog
	// goroutine ends the process with all stacks once the heap exceeds what any legitimate decode of
	// a <= 1 MiB input can need; the address-space limit is the hard backstop behind it.
	lim := uint64(8) << 30
	syscall.Setrlimit(syscall.RLIMIT_AS, &syscall.Rlimit{Cur: lim, Max: lim})
	debug.SetTraceback("all")
	go func() {
		s := []metrics.Sample{{Name: "/memory/classes/heap/objects:bytes"}}
		for {
			time.Sleep(20 * time.Millisecond)
			metrics.Read(s)
			if v := s[0].Value.Uint64(); v > heapGuard {
				// garbage the collector has not got to yet (seen on an overloaded machine) is not a
				// runaway decode: collect, and only act on what is still reachable
				runtime.GC()
				metrics.Read(s)
				if v = s[0].Value.Uint64(); v <= heapGuard {
					continue
				}
				panic(fmt.Sprintf("C08 memory guard: out of memory: heap objects %d bytes > %d", v, uint64(heapGuard)))
			}
		}
	}()
	go hangGuard(r) // a call that does not come back: see hang.go
	for i, tg := range targets {
		tg.idx = i
	}
	var skip []string
	json.Unmarshal([]byte(os.Getenv("C08_SKIP")), &skip)
	for _, n := range skip {
		if tg := targetByName(n); tg != nil {
			tg.skip = true
		} else if n == untypedName {
			skipUntyped = true
		}
	}
	if args[0] == "case" {
		var c Case
		cb, err := ioutil.ReadFile(args[1])
		if err == nil {
			err = json.Unmarshal(cb, &c)
		}
		if err != nil {
			fmt.Println("MACHINERY: bad case", err)
			os.Exit(2)
		}
		r.CaseBegin(cb)
		flushOnHang = true
		runCase(r, c)
		flushCounts(r)
		r.Finish(mon.Coverage{})
	}
	shard, _ := strconv.Atoi(args[1])
	startUnit, _ = strconv.ParseUint(args[2], 10, 64)
	prog = openProg("progress", true)
	if prog != nil {
		binary.LittleEndian.PutUint64(prog[0:], startUnit)
	}
	switch args[0] {
	case "exh":
		flushEvery = 64
		childExh(r, shard)
	case "gen":
		flushEvery = uint64(r.Pick(64, 2048)) // a flush rewrites the measured sets; keep it rare when they are large
		childGen(r, shard)
	}
	flushCounts(r)
	r.Finish(mon.Coverage{})
}

// childExh enumerates every byte string of length <= 3 (4 in thorough for
// prefix bytes) whose first byte belongs to this shard (first bytes are dealt
// round-robin; the empty string belongs to shard 0). Unit = block of up to 256
// strings that share all but the last byte.
func childExh(r *mon.Run, shard int) {
	var exh4 []*target
	for _, tg := range targets {
		if tg.Exh4 {
			exh4 = append(exh4, tg)
		}
	}
	o := byteOpts{origin: "exh", nJunk: 2}
	if shard == 0 {
		if curUnit >= startUnit {
			cnt[c_exh_strings]++
			runBytesAll(r, []byte{}, targets, o)
		}
		unitDone(r)
	}
	maxLen := 3
	if r.Thorough() {
		maxLen = 4
	}
	buf := make([]byte, 4)
	for f := shard; f < 256; f += nExhShards {
		buf[0] = byte(f)
		for l := 1; l <= maxLen; l++ {
			tgs := targets
			if l == 4 {
				if f < 0x80 {
					continue
				}
				tgs = exh4
			}
			n := 1
			for i := 1; i < l; i++ {
				n *= 256
			}
			for x := 0; x < n; x++ {
				if curUnit < startUnit { // resumed shard: skip whole blocks already accounted for
					x |= 0xff
					if x&0xff == 0xff || x == n-1 {
						curUnit++
					}
					continue
				}
				for i := l - 1; i >= 1; i-- {
					buf[i] = byte(x >> uint(8*(l-1-i)))
				}
				b := append([]byte{}, buf[:l]...)
				cnt[c_exh_strings]++
				runBytesAll(r, b, tgs, o)
				if x&0xff == 0xff || x == n-1 {
					unitDone(r)
				}
			}
		}
	}
}

// childGen: seeded generators. Work items (units) are dealt round-robin over the shards.
func childGen(r *mon.Run, shard int) {
	nVal := r.Pick(1500, 30000) // values per type
	nMut := r.Pick(250, 4000)   // of which mutated (x len(mutKinds))
	nHost := r.Pick(24000, 800000)
	iface, raw := targetByName("interface{}"), targetByName("rlp.RawValue")
	var allocT []*target
	for _, tg := range targets {
		if tg.Alloc && !tg.skip {
			allocT = append(allocT, tg)
			warmup(tg)
		}
	}
	// Inputs that claim a size a length-trusting decoder would try to allocate and die of
	// (2^28 .. 2^48 bytes; larger claims end in a recoverable makeslice panic) are executed last,
	// one unit each, so that such a death costs no other coverage. On a correct decoder the order is irrelevant.
	type lateCase struct {
		tg     *target // nil: hostile string, runs against the allocation targets
		b      []byte
		origin string
	}
	var late []lateCase
	prev := make([]prevRing, len(targets))
	item := 0
	for ti, tg := range targets {
		for idx := 0; idx < nVal; idx++ {
			item++
			if item%nGenShards != shard {
				continue
			}
			skipping := curUnit < startUnit
			if tg.skip {
				if skipping {
					curUnit++
				} else {
					cnt[c_pairs_skipped_quarantined_type]++
					unitDone(r)
				}
				continue
			}
			var enc []byte
			if skipping {
				enc, _ = refEncode(genTarget(r, tg, idx).Elem())
			} else {
				enc = checkValue(r, tg, idx)
				r.Distinct("value", []byte(tg.Name), enc)
				runBytesAll(r, enc, []*target{tg, iface, raw}, byteOpts{origin: "valid", nJunk: 4})
				// dirty destination: this encoding into a destination holding an earlier value of the type (and the reverse)
				if a := prev[ti].pick(idx); a != nil {
					checkDirty(r, tg, a, enc, "valid")
					checkDirty(r, tg, enc, a, "valid")
					checkDirty(r, iface, a, enc, "valid")
				}
				if idx < 1 && ti%14 == 0 {
					r.Sample(Case{Mode: "value", Type: tg.Name, Index: idx, Input: enc})
				}
			}
			prev[ti].add(enc)
			if idx < nMut {
				rng := r.Rand("mutate", tg.Name, idx)
				for _, mk := range mutKinds {
					b := mutate(rng, enc, mk)
					origin := "mut:" + mk
					if claimsFatalSize(b) {
						late = append(late, lateCase{tg, b, origin})
						continue
					}
					if skipping {
						continue
					}
					cnt[c_mutated_strings]++
					runBytesAll(r, b, []*target{tg, iface, raw}, byteOpts{origin: origin, nJunk: 3})
					if tg.Alloc {
						checkAlloc(r, tg, b, origin)
					}
					if !iface.skip {
						checkAlloc(r, iface, b, origin)
					}
					checkDirty(r, tg, prev[ti].pick(idx+1), b, origin)
				}
			}
			if skipping {
				curUnit++
			} else {
				unitDone(r)
			}
		}
	}
	// hostile headers: every string against every type; allocation + reader entry points on the Alloc subset
	for i := 0; i < nHost; i++ {
		if i%nGenShards != shard {
			continue
		}
		b := hostile(r.Rand("hostile", i))
		if claimsFatalSize(b) {
			late = append(late, lateCase{nil, b, "hostile"})
			continue
		}
		if curUnit < startUnit {
			curUnit++
			continue
		}
		cnt[c_hostile_strings]++
		runBytesAll(r, b, targets, byteOpts{origin: "hostile", nJunk: 2})
		for _, tg := range allocT {
			checkAlloc(r, tg, b, "hostile")
			if (i/nGenShards)%4 == 0 {
				checkReader(r, tg, b, "hostile")
			}
		}
		if i < 2 {
			r.Sample(Case{Mode: "bytes", Type: "*", Input: b, Origin: "hostile"})
		}
		unitDone(r)
	}
	defer func() { // after the fixed shapes below
		for _, lc := range late {
			if curUnit < startUnit {
				curUnit++
				continue
			}
			tgs := allocT
			if lc.tg != nil {
				tgs = []*target{lc.tg, iface, raw}
				cnt[c_mutated_strings]++
			} else {
				cnt[c_hostile_strings]++
			}
			cnt[c_late_huge_claim_strings]++
			runBytesAll(r, lc.b, tgs, byteOpts{origin: lc.origin, nJunk: 2})
			for _, tg := range tgs {
				if !tg.skip && tg.Alloc {
					checkAlloc(r, tg, lc.b, lc.origin)
				}
			}
			unitDone(r)
		}
	}()
	// encoder aliasing / lifetime windows (alias.go)
	nWin := r.Pick(16000, 400000)
	for i := 0; i < nWin; i++ {
		if i%nGenShards != shard {
			continue
		}
		if curUnit < startUnit {
			curUnit++
			continue
		}
		checkWindow(r, i)
		unitDone(r)
	}
	// concurrent first use of never-seen types (fresh.go)
	freshPhase(r, shard, r.Pick(960, 30000))
	// fixed hostile shapes: deep nesting and many tiny elements (allocation amplification)
	if shard == 0 {
		depths := []int{10, 100, 1000}
		counts := []int{100, 1000, 10000}
		if r.Thorough() {
			depths = append(depths, 20000)
			counts = append(counts, 200000)
		}
		shapeT := []*target{}
		if rec := targetByName("Rec{uint64,[]Rec}"); !rec.skip {
			shapeT = append(shapeT, rec)
		}
		shapeT = append(shapeT, allocT...)
		var shapes [][]byte
		for _, d := range depths {
			shapes = append(shapes, nested(d, []byte{0xc0}), nested(d, []byte{0x80}), nested(d, []byte{0x05}))
		}
		for _, n := range counts {
			shapes = append(shapes, manyElems(n, []byte{0xc0}), manyElems(n, []byte{0x80}), manyElems(n, []byte{0x05}),
				manyElems(n, []byte{0xc1, 0xc0}), manyElems(n, []byte{0x81, 0x80}))
		}
		for _, b := range shapes {
			if curUnit < startUnit {
				curUnit++
				continue
			}
			cnt[c_hostile_strings]++
			runBytesAll(r, b, shapeT, byteOpts{origin: "shape", nJunk: 1})
			for _, tg := range shapeT {
				checkAlloc(r, tg, b, "shape")
			}
			unitDone(r)
		}
	}
}

// ---------------------------------------------------------------------------
// replay

func runCase(r *mon.Run, c Case) {
	o := byteOpts{origin: c.Origin, nJunk: len(junks)}
	switch c.Mode {
	case "value":
		tg := targetByName(c.Type)
		enc := checkValue(r, tg, c.Index)
		runBytesAll(r, enc, []*target{tg}, o)
	case "untyped":
		checkUntyped(r, c.Input, refOf(c.Input), c.Origin)
	case "bytes":
		tgs := targets
		if tg := targetByName(c.Type); tg != nil {
			tgs = []*target{tg}
		}
		runBytesAll(r, c.Input, tgs, o)
		if c.Type == "*" || c.Type == "" {
			for _, tg := range tgs {
				if tg.Alloc {
					warmup(tg)
					checkAlloc(r, tg, c.Input, c.Origin)
					checkReader(r, tg, c.Input, c.Origin)
				}
			}
		}
	case "alloc":
		tg := targetByName(c.Type)
		warmup(tg)
		checkAlloc(r, tg, c.Input, c.Origin)
	case "window":
		checkWindow(r, c.Index)
	case "fresh":
		old := runtime.GOMAXPROCS(8)
		checkFresh(r, c.Index)
		runtime.GOMAXPROCS(old)
	case "dirty":
		checkDirty(r, targetByName(c.Type), c.Prev, c.Input, c.Origin)
	case "reader":
		tg := targetByName(c.Type)
		warmup(tg)
		checkReader(r, tg, c.Input, c.Origin)
	default:
		fmt.Println("MACHINERY: unknown case mode", c.Mode)
		os.Exit(2)
	}
}

func replay(r *mon.Run, path string) {
	v, err := mon.LoadReplay(path)
	if err != nil {
		fmt.Println("MACHINERY:", err)
		os.Exit(2)
	}
	r.Seed = v.Seed
	if v.Tier == "thorough" || v.Tier == "quick" {
		r.Tier = v.Tier
	}
	initHang(r)
	var w struct {
		Case *Case `json:"case"` // Guard / supervise witness
	}
	var c Case
	json.Unmarshal(v.Witness, &w)
	if w.Case != nil {
		c = *w.Case
	} else {
		json.Unmarshal(v.Witness, &c)
	}
	// always in a child: the case may kill the process
	cb, _ := json.Marshal(c)
	cf := filepath.Join(mon.WorkDir(), "replay-case.json")
	ioutil.WriteFile(cf, cb, 0644)
	res := r.RunChild(mon.ChildSpec{Label: "replay", Args: []string{"case", cf}, Timeout: 10 * time.Minute})
	if fired, step := hangFired(res); fired { // same signature as the supervisor gives a confirmed hang
		if _, err := os.Stat(res.Partial); err == nil {
			r.Merge(res.Partial)
		}
		reportHang(r, &c, step, res)
	} else if res.Exit != 0 && !res.TimedOut { // same signature as the supervisor gives a death
		if _, err := os.Stat(res.Partial); err == nil {
			r.Merge(res.Partial)
		}
		logHT := mon.HeadTail(res.LogFile, 3500)
		site := deathSite(res.LogFile, &c)
		r.Violation("C08:fatal:type="+c.Type+":"+site, fmt.Sprintf("child process died with exit %d (%s) while executing mode=%s type=%s input=%x", res.Exit, site, c.Mode, c.Type, clip(c.Input)),
			map[string]interface{}{"case": c, "log": logHT})
	} else {
		r.Absorb(res, "C08:replay")
	}
	mon.CleanWork()
	n := r.Get("bytes_cases") + r.Get("value_roundtrips") + r.Get("alloc_checks") + r.Get("reader_checks") + r.Get("split_checks") + r.Get("alias_values_held") + r.Get("dirty_destination_checks") + r.Get("fresh_type_goroutines")
	r.Finish(mon.Coverage{Evaluations: n + 1, DistinctNontrivial: 2, Rule: "replay of one recorded case"})
}
