// C08 — RLP coding is canonical, lossless and total.
//
// Runtime monitor around the real storage/rlp package (EncodeToBytes,
// DecodeBytes, Decode, Split*, CountValues, the piecemeal Stream API) and the
// types the node serialises with it. Six oracles (DESIGN.md §4 C08):
//  1. value round trip (+ the encoder against an independent reference encoder),
//  2. re-encode identity on every accepted byte string, per target type,
//  3. an independent grammar checker (harness/ref/rlpref) on everything that is
//     accepted; the untyped entry points (Split, CountValues, Stream walkers,
//     interface{}) are judged in both directions: they must accept exactly the
//     canonical language,
//  4. totality: every call is guarded, every batch runs in a child process,
//  5. suffix independence,
//  6. allocation bound (TotalAlloc delta, single-threaded children).
//
// Workloads: seeded boundary-biased values per type; mutations of their
// encodings; exhaustive enumeration of all byte strings of length <= 3 (and
// the length-4 strings starting with a prefix byte in the thorough tier)
// against every target type; structure-aware hostile headers.
package main

import (
	"encoding/json"
	"fmt"
	"io/ioutil"
	"os"
	"path/filepath"
	"reflect"
	"runtime/debug"
	"strconv"
	"syscall"
	"time"

	"com.tuntun.rangers/node/src/storage/rlp"

	"verifharness/mon"
)

const (
	nExhShards = 32
	nGenShards = 32
)

func main() {
	r := mon.Start("C08")
	if args, ok := mon.IsChildInvocation(); ok {
		child(r, args)
		return
	}
	if p := mon.ReplayArg(); p != "" {
		replay(r, p)
		return
	}

	var specs []mon.ChildSpec
	to := time.Duration(r.Pick(240, 3600)) * time.Second
	for s := 0; s < nExhShards; s++ {
		specs = append(specs, mon.ChildSpec{Label: fmt.Sprintf("exh-%d", s), Args: []string{"exh", strconv.Itoa(s)},
			Env: []string{"GOMAXPROCS=2"}, Timeout: to})
	}
	for s := 0; s < nGenShards; s++ {
		specs = append(specs, mon.ChildSpec{Label: fmt.Sprintf("gen-%d", s), Args: []string{"gen", strconv.Itoa(s)},
			Env: []string{"GOMAXPROCS=2"}, Timeout: to})
	}
	// interleave so that long exhaustive shards start early but generator shards are not all last
	mixed := make([]mon.ChildSpec, 0, len(specs))
	for i := 0; i < nExhShards || i < nGenShards; i++ {
		if i < nExhShards {
			mixed = append(mixed, specs[i])
		}
		if i < nGenShards {
			mixed = append(mixed, specs[nExhShards+i])
		}
	}
	for _, res := range r.RunChildren(mixed, 16) {
		r.Absorb(res, "C08:"+res.Spec.Args[0])
	}
	mon.CleanWork()

	evals := r.Get("bytes_cases") + r.Get("value_roundtrips")
	nontriv := r.Get("accepted") + r.Get("rejected_grammatical") + int64(r.DistinctCount("value"))
	exh := "all byte strings of length <= 3"
	if r.Thorough() {
		exh += " against every target type, plus all length-4 strings whose first byte is >= 0x80 against the Exh4 subset of types"
	} else {
		exh += " against every target type"
	}
	r.Finish(mon.Coverage{
		Evaluations:        evals,
		DistinctNontrivial: nontriv,
		Exhaustive:         false,
		Rule: "cases are (target type, byte string) pairs and (target type, value) pairs over " + strconv.Itoa(len(targets)) + " target types. " +
			"Byte strings: exhaustive enumeration of " + exh + " (each pair visited once); one mutation of each of " + strconv.Itoa(len(mutKinds)) +
			" kinds of the reference encoding of seeded boundary-biased values; structure-aware headers claiming sizes up to 2^64-1 (bare and wrapped in lists), deep nesting, many tiny elements. " +
			"Non-trivial = pairs the decoder accepted (oracles 2,3,5 apply) + pairs it rejected although the string is one canonical item (counted separately in observed.accepted / observed.rejected_grammatical; exhaustive pairs are distinct by construction) " +
			"+ distinct (type, encoding) of round-tripped values (measured set).",
		Assumptions: []string{
			"harness/ref/rlpref implements the yellow-paper RLP grammar (it shares no code with storage/rlp)",
			"nil pointers to structs/arrays without the rlp:\"nil\" tag are outside the round-trip clause (their documented encoding, the empty list/string, does not decode back)",
			"rlp.RawValue: only the headers the decoder reads are held to the grammar (content documented as unverified)",
			fmt.Sprintf("allocation bound: TotalAlloc delta of one DecodeBytes <= %d*len(input)+%d bytes", allocPerByte, allocSlack),
		},
		MustObserve: []string{"value_roundtrips", "accepted", "rejected_grammatical", "rejected_ungrammatical", "reencode_checks", "suffix_checks",
			"split_checks", "count_checks", "stream_walks", "alloc_checks", "reader_checks", "exh_strings", "mutated_strings", "hostile_strings"},
	})
}

// ---------------------------------------------------------------------------

// warmup decodes once into the type so that the one-time type-cache
// allocations are not attributed to a measured case.
func warmup(tg *target) {
	defer func() { recover() }()
	saved := cnt
	rlp.DecodeBytes([]byte{0xc0}, reflect.New(tg.T).Interface())
	rlp.DecodeBytes([]byte{0x80}, reflect.New(tg.T).Interface())
	cnt = saved
}

func logCase(r *mon.Run, c Case) {
	b, _ := json.Marshal(c)
	r.CaseBegin(b)
}

// runBytesAll: one byte string against the untyped API and a set of targets.
func runBytesAll(r *mon.Run, b []byte, tgs []*target, o byteOpts) {
	ri := refOf(b)
	checkUntyped(r, b, ri, o.origin)
	for _, tg := range tgs {
		cnt[c_bytes_cases]++
		checkBytes(r, tg, b, ri, o)
	}
}

func child(r *mon.Run, args []string) {
	// the live heap of a child is tiny; without this the collector runs every few MB of garbage
	debug.SetGCPercent(1600)
	// memory guard: a decoder that trusts a declared length must kill this child ("out of memory" ->
	// reported by the parent with the logged case), not the machine
	lim := uint64(4) << 30
	syscall.Setrlimit(syscall.RLIMIT_AS, &syscall.Rlimit{Cur: lim, Max: lim})
	shard, _ := strconv.Atoi(args[1])
	switch args[0] {
	case "exh":
		childExh(r, shard)
	case "gen":
		childGen(r, shard)
	case "case":
		var c Case
		cb, err := ioutil.ReadFile(args[1])
		if err == nil {
			err = json.Unmarshal(cb, &c)
		}
		if err != nil {
			fmt.Println("MACHINERY: bad case", err)
			os.Exit(2)
		}
		logCase(r, c)
		runCase(r, c)
	}
	flushCounts(r)
	r.Finish(mon.Coverage{})
}

// childExh enumerates every byte string of length <= 3 (4 in thorough for
// prefix bytes) whose first byte belongs to this shard (first bytes are dealt
// round-robin; the shard of the empty string and of length-0 is shard 0).
func childExh(r *mon.Run, shard int) {
	var exh4 []*target
	for _, tg := range targets {
		if tg.Exh4 {
			exh4 = append(exh4, tg)
		}
	}
	o := byteOpts{origin: "exh", nJunk: 2}
	if shard == 0 {
		cnt[c_exh_strings]++
		runBytesAll(r, []byte{}, targets, o)
	}
	maxLen := 3
	if r.Thorough() {
		maxLen = 4
	}
	buf := make([]byte, 4)
	for f := shard; f < 256; f += nExhShards {
		buf[0] = byte(f)
		for l := 1; l <= maxLen; l++ {
			tgs := targets
			if l == 4 {
				if f < 0x80 {
					continue
				}
				tgs = exh4
			}
			n := 1
			for i := 1; i < l; i++ {
				n *= 256
			}
			for x := 0; x < n; x++ {
				for i := l - 1; i >= 1; i-- {
					buf[i] = byte(x >> uint(8*(l-1-i)))
				}
				if x&0xff == 0 {
					logCase(r, Case{Mode: "exh-block", Input: append([]byte{}, buf[:l]...)})
				}
				b := append([]byte{}, buf[:l]...)
				cnt[c_exh_strings]++
				runBytesAll(r, b, tgs, o)
			}
		}
	}
}

// childGen: seeded generators. Work items are dealt round-robin over the shards.
func childGen(r *mon.Run, shard int) {
	nVal := r.Pick(1500, 60000) // values per type
	nMut := r.Pick(250, 10000)  // of which mutated (x len(mutKinds))
	nHost := r.Pick(24000, 1500000)
	iface, raw := targetByName("interface{}"), targetByName("rlp.RawValue")
	var allocT []*target
	for _, tg := range targets {
		if tg.Alloc {
			allocT = append(allocT, tg)
			// warm the type cache so that its one-time allocations are not measured
			warmup(tg)
		}
	}
	item := 0
	for ti, tg := range targets {
		for idx := 0; idx < nVal; idx++ {
			item++
			if item%nGenShards != shard {
				continue
			}
			logCase(r, Case{Mode: "value", Type: tg.Name, Index: idx})
			enc := checkValue(r, tg, idx)
			r.Distinct("value", []byte(tg.Name), enc)
			runBytesAll(r, enc, []*target{tg, iface, raw}, byteOpts{origin: "valid", nJunk: 4})
			if idx < 6 && ti%9 == 0 {
				r.Sample(Case{Mode: "value", Type: tg.Name, Index: idx, Input: enc})
			}
			if idx >= nMut {
				continue
			}
			rng := r.Rand("mutate", tg.Name, idx)
			for _, mk := range mutKinds {
				b := mutate(rng, enc, mk)
				origin := "mut:" + mk
				logCase(r, Case{Mode: "bytes", Type: tg.Name, Input: b, Origin: origin})
				cnt[c_mutated_strings]++
				runBytesAll(r, b, []*target{tg, iface, raw}, byteOpts{origin: origin, nJunk: 3})
				if tg.Alloc {
					checkAlloc(r, tg, b, origin)
				}
				checkAlloc(r, iface, b, origin)
			}
		}
	}
	// hostile headers: every string against every type; allocation + reader entry points on the Alloc subset
	for i := 0; i < nHost; i++ {
		if i%nGenShards != shard {
			continue
		}
		b := hostile(r.Rand("hostile", i))
		logCase(r, Case{Mode: "bytes", Type: "*", Input: b, Origin: "hostile"})
		cnt[c_hostile_strings]++
		runBytesAll(r, b, targets, byteOpts{origin: "hostile", nJunk: 2})
		for _, tg := range allocT {
			checkAlloc(r, tg, b, "hostile")
			if i%4 == 0 {
				checkReader(r, tg, b, "hostile")
			}
		}
		if i < 4 {
			r.Sample(Case{Mode: "bytes", Type: "*", Input: b, Origin: "hostile"})
		}
	}
	// fixed hostile shapes: deep nesting and many tiny elements (allocation amplification)
	if shard == 0 {
		depths := []int{10, 100, 1000}
		counts := []int{100, 1000, 10000}
		if r.Thorough() {
			depths = append(depths, 20000)
			counts = append(counts, 200000)
		}
		rec := targetByName("Rec{uint64,[]Rec}")
		var shapes [][]byte
		for _, d := range depths {
			shapes = append(shapes, nested(d, []byte{0xc0}), nested(d, []byte{0x80}), nested(d, []byte{0x05}))
		}
		for _, n := range counts {
			shapes = append(shapes, manyElems(n, []byte{0xc0}), manyElems(n, []byte{0x80}), manyElems(n, []byte{0x05}),
				manyElems(n, []byte{0xc1, 0xc0}), manyElems(n, []byte{0x81, 0x80}))
		}
		for _, b := range shapes {
			logCase(r, Case{Mode: "bytes", Type: "*", Input: b, Origin: "shape"})
			cnt[c_hostile_strings]++
			runBytesAll(r, b, append([]*target{rec}, allocT...), byteOpts{origin: "shape", nJunk: 1})
			for _, tg := range append([]*target{rec}, allocT...) {
				checkAlloc(r, tg, b, "shape")
			}
		}
	}
}

// ---------------------------------------------------------------------------
// replay

func runCase(r *mon.Run, c Case) {
	o := byteOpts{origin: c.Origin, nJunk: len(junks)}
	switch c.Mode {
	case "value":
		tg := targetByName(c.Type)
		enc := checkValue(r, tg, c.Index)
		runBytesAll(r, enc, []*target{tg}, o)
	case "untyped":
		checkUntyped(r, c.Input, refOf(c.Input), c.Origin)
	case "exh-block":
		// the block of 256 strings that share all but the last byte
		b := append([]byte{}, c.Input...)
		for last := 0; last < 256; last++ {
			if len(b) > 1 {
				b[len(b)-1] = byte(last)
			} else if last > 0 {
				break
			}
			tgs := targets
			if len(b) == 4 {
				tgs = nil
				for _, tg := range targets {
					if tg.Exh4 {
						tgs = append(tgs, tg)
					}
				}
			}
			runBytesAll(r, append([]byte{}, b...), tgs, byteOpts{origin: "exh", nJunk: 2})
		}
	case "bytes":
		tgs := targets
		if tg := targetByName(c.Type); tg != nil {
			tgs = []*target{tg}
		}
		runBytesAll(r, c.Input, tgs, o)
		if c.Type == "*" {
			for _, tg := range tgs {
				if tg.Alloc {
					checkAlloc(r, tg, c.Input, c.Origin)
					checkReader(r, tg, c.Input, c.Origin)
				}
			}
		}
	case "alloc":
		tg := targetByName(c.Type)
		warmup(tg)
		checkAlloc(r, tg, c.Input, c.Origin)
	case "reader":
		tg := targetByName(c.Type)
		warmup(tg)
		checkReader(r, tg, c.Input, c.Origin)
	default:
		fmt.Println("MACHINERY: unknown case mode", c.Mode)
		os.Exit(2)
	}
}

func replay(r *mon.Run, path string) {
	v, err := mon.LoadReplay(path)
	if err != nil {
		fmt.Println("MACHINERY:", err)
		os.Exit(2)
	}
	r.Seed = v.Seed
	if v.Tier == "thorough" || v.Tier == "quick" {
		r.Tier = v.Tier
	}
	var w struct {
		Case     *Case   `json:"case"`      // Guard witness
		LastCase mon.Hex `json:"last_case"` // Absorb (fatal) witness
	}
	var c Case
	json.Unmarshal(v.Witness, &w)
	switch {
	case w.Case != nil:
		c = *w.Case
	case len(w.LastCase) > 0:
		if err := json.Unmarshal(w.LastCase, &c); err != nil {
			fmt.Println("MACHINERY: fatal witness without a case:", err)
			os.Exit(2)
		}
	default:
		json.Unmarshal(v.Witness, &c)
	}
	// always in a child: the case may kill the process
	cb, _ := json.Marshal(c)
	cf := filepath.Join(mon.WorkDir(), "replay-case.json")
	ioutil.WriteFile(cf, cb, 0644)
	res := r.RunChild(mon.ChildSpec{Label: "replay", Args: []string{"case", cf}, Timeout: 10 * time.Minute})
	r.Absorb(res, "C08:replay")
	mon.CleanWork()
	n := r.Get("bytes_cases") + r.Get("value_roundtrips") + r.Get("alloc_checks") + r.Get("reader_checks") + r.Get("split_checks")
	r.Finish(mon.Coverage{Evaluations: n + 1, DistinctNontrivial: 2, Rule: "replay of one recorded case"})
}

