package main

import (
	"bytes"
	"fmt"
	"io"
	"io/ioutil"
	"reflect"
	"sync"

	"com.tuntun.rangers/node/src/storage/rlp"

	"verifharness/mon"
)

// Aliasing / lifetime oracle for the encoder: what EncodeToBytes (and the
// reader from EncodeToReader) hands out belongs to the caller. A window of W
// values is encoded back to back -- header-less top-level values (integers,
// strings, byte arrays, booleans, raw values) mixed with lists -- every result
// is KEPT, and only after the whole window each kept result is compared with
// the reference bytes taken at encode time (a private copy) and decoded back
// to the value. In the other direction the caller scribbles over results it
// holds: a later encoding must not change, and the scribble must stay.

var scalarTargets = []string{"uint8", "uint16", "uint32", "uint64", "uint", "*big.Int", "big.Int", "bool", "string", "[]byte",
	"[0]byte", "[1]byte", "[2]byte", "[20]byte", "[32]byte", "common.Hash", "common.Address", "rlp.RawValue", "interface{}"}

const (
	akBytes  = iota // EncodeToBytes, result kept
	akReader        // EncodeToReader, reader kept and read after the window
	akWriter        // Encode into a buffer (copies; an interleaved encoder call)
)

type slot struct {
	tg       *target
	val      reflect.Value // pointer to the value
	byValue  bool          // encode the value instead of the pointer
	want     []byte        // reference encoding, private copy
	kind     int
	scribble bool // the caller overwrites the result right after it got it

	got    []byte
	size   int
	reader io.Reader
	err    error
	early  []byte // copy of got taken immediately (what the caller saw first)
	pan    interface{}
}

func buildWindow(r *mon.Run, widx, sub int) []*slot {
	rng := r.Rand("window", widx, sub)
	n := 2 + rng.Intn(15)
	w := make([]*slot, n)
	for i := range w {
		var tg *target
		if rng.Intn(10) < 6 {
			tg = targetByName(scalarTargets[rng.Intn(len(scalarTargets))])
		} else {
			tg = targets[rng.Intn(len(targets))]
		}
		if tg.Tx {
			tg = targetByName("TxMirror(txdata-shape)")
		}
		p := genTarget(r, tg, 1000000+widx*64+sub*16+i)
		want, err := refEncode(p.Elem())
		if err != nil {
			panic(err)
		}
		s := &slot{tg: tg, val: p, want: want, byValue: rng.Intn(2) == 0, scribble: rng.Intn(5) == 0}
		switch x := rng.Intn(10); {
		case x < 7:
			s.kind = akBytes
		case x < 9:
			s.kind = akReader
		default:
			s.kind = akWriter
		}
		w[i] = s
	}
	return w
}

func (s *slot) arg() interface{} {
	if s.byValue {
		return s.val.Elem().Interface()
	}
	return s.val.Interface()
}

// encodeWindow performs the encoder calls of one window in order (runs on its own goroutine in the concurrent variant).
func encodeWindow(w []*slot) {
	for _, s := range w {
		func() {
			defer func() {
				if e := recover(); e != nil {
					s.pan = e
				}
			}()
			switch s.kind {
			case akBytes:
				s.got, s.err = rlp.EncodeToBytes(s.arg())
				s.early = append([]byte{}, s.got...)
				if s.scribble {
					for i := range s.got {
						s.got[i] = 0xA5
					}
				}
			case akReader:
				s.size, s.reader, s.err = rlp.EncodeToReader(s.arg())
			case akWriter:
				var buf bytes.Buffer
				s.err = rlp.Encode(&buf, s.arg())
				s.got = buf.Bytes()
				s.early = s.got
			}
		}()
	}
}

// checkWindow runs window widx: one window on this goroutine, or (every 4th) 2-4 windows on concurrent goroutines.
func checkWindow(r *mon.Run, widx int) {
	c := Case{Mode: "window", Index: widx}
	mark(nil, pmWindow, nil, widx)
	g := 1
	if widx%4 == 3 {
		g = 2 + widx/4%3
		c.Origin = fmt.Sprintf("goroutines=%d", g)
	}
	ws := make([][]*slot, g)
	for i := range ws {
		ws[i] = buildWindow(r, widx, i) // generation uses process-global budgets: not concurrent
	}
	if g == 1 {
		encodeWindow(ws[0])
	} else {
		var wg sync.WaitGroup
		for _, w := range ws {
			wg.Add(1)
			go func(w []*slot) { defer wg.Done(); encodeWindow(w) }(w)
		}
		wg.Wait()
		r.Count("alias_windows_concurrent", 1)
	}
	r.Count("alias_windows", int64(g))
	// only now look at what was kept
	for _, w := range ws {
		for i, s := range w {
			where := fmt.Sprintf("slot %d/%d of window %d, type %s", i, len(w), widx, s.tg.Name)
			if s.pan != nil {
				viol(r, tsig("encode", s.tg, "panic-in-window"), c, "%s: encoder panicked: %v", where, s.pan)
				continue
			}
			if s.err != nil {
				viol(r, tsig("encode", s.tg, "encoder-error"), c, "%s: %v", where, s.err)
				continue
			}
			r.Count("alias_values_held", 1)
			kept := s.got
			switch s.kind {
			case akReader:
				r.Count("alias_readers_held", 1)
				b, err := ioutil.ReadAll(s.reader)
				if err != nil || len(b) != s.size || !bytes.Equal(b, s.want) {
					viol(r, "C08:encode:reader-content-changed-by-later-encode", c,
						"%s: EncodeToReader announced %d bytes; read after the window: %x (err %v), reference encoding at encode time %x", where, s.size, clip(b), err, clip(s.want))
				}
				kept = b
			case akBytes, akWriter:
				if !bytes.Equal(s.early, s.want) && g > 1 {
					// already different when first looked at, with other encoders running: a shared buffer, not a wrong encoding rule
					viol(r, "C08:encode:result-differs-under-concurrent-encoders", c, "%s: encoder returned %x, reference %x", where, clip(s.early), clip(s.want))
					continue
				}
				if !bytes.Equal(s.early, s.want) {
					viol(r, tsig("encode", s.tg, "differs-from-reference-encoding"), c, "%s: encoder returned %x, reference %x", where, clip(s.early), clip(s.want))
					continue
				}
				if s.scribble && s.kind == akBytes {
					for _, x := range s.got {
						if x != 0xA5 {
							viol(r, "C08:encode:result-aliased-by-later-encode", c,
								"%s: the caller overwrote its %d result bytes with a5..; after the rest of the window they read %x", where, len(s.got), clip(s.got))
							break
						}
					}
					continue
				}
				if !bytes.Equal(s.got, s.want) {
					viol(r, "C08:encode:result-aliased-by-later-encode", c,
						"%s: EncodeToBytes returned %x; after the later encoder calls of the window the same slice reads %x", where, clip(s.want), clip(s.got))
					continue
				}
			}
			// the kept bytes still decode to the value
			q := reflect.New(s.tg.T)
			var err error
			if r.Guard(s.tg.sigDecode(), c, func() { err = rlp.DecodeBytes(kept, q.Interface()) }) {
				continue
			}
			if err != nil || !normEqual(s.val.Elem(), q.Elem()) {
				viol(r, tsig("roundtrip", s.tg, "kept-encoding-no-longer-decodes-to-value"), c, "%s: DecodeBytes(kept %x) err=%v", where, clip(kept), err)
			}
		}
	}
	// other direction: the caller scribbles over everything it holds, then every value is encoded again
	for _, w := range ws {
		for _, s := range w {
			for i := range s.got {
				s.got[i] ^= 0xFF
			}
		}
	}
	for _, w := range ws {
		for i, s := range w {
			if s.pan != nil || s.err != nil {
				continue
			}
			var enc []byte
			var err error
			if r.Guard(tsig("EncodeToBytes", s.tg, "total"), c, func() { enc, err = rlp.EncodeToBytes(s.arg()) }) {
				continue
			}
			if err != nil || !bytes.Equal(enc, s.want) {
				viol(r, "C08:encode:mutating-a-result-changes-a-later-encoding", c,
					"slot %d of window %d, type %s: after the caller modified the results it held, EncodeToBytes gives %x (err %v), reference %x", i, widx, s.tg.Name, clip(enc), err, clip(s.want))
			}
		}
	}
}
