package main

import "verifharness/mon"

// hot counters are kept process-local (children are single-threaded) and flushed into the run before Finish.
const (
	c_accepted = iota
	c_alloc_checks
	c_bytes_cases
	c_count_checks
	c_exh_strings
	c_hostile_strings
	c_mutated_strings
	c_reader_checks
	c_reencode_checks
	c_rejected_grammatical
	c_rejected_ungrammatical
	c_split_accepted
	c_split_checks
	c_stream_walks
	c_stream_walks_accepted
	c_suffix_checks
	c_value_roundtrips
	c_reader_skipped_dangerous_claim
	c_pairs_skipped_quarantined_type
	c_late_huge_claim_strings
	c_exh_nontrivial_pairs
	c_info_raw_value_prefixed_single_byte_accepted
	c_dirty_destination_checks
	c_dirty_destination_accepted
	nCtr
)

var cnt [nCtr]int64

var cntNames = [nCtr]string{"accepted", "alloc_checks", "bytes_cases", "count_checks", "exh_strings", "hostile_strings", "mutated_strings", "reader_checks", "reencode_checks", "rejected_grammatical", "rejected_ungrammatical", "split_accepted", "split_checks", "stream_walks", "stream_walks_accepted", "suffix_checks", "value_roundtrips", "reader_skipped_dangerous_claim", "pairs_skipped_quarantined_type", "late_huge_claim_strings", "exh_nontrivial_pairs", "info_raw_value_prefixed_single_byte_accepted", "dirty_destination_checks", "dirty_destination_accepted"}

func flushCounts(r *mon.Run) {
	for i, n := range cnt {
		if n != 0 {
			r.Count(cntNames[i], n)
			cnt[i] = 0
		}
	}
}
