package main

import (
	"math/big"
	"math/rand"
	"reflect"

	"com.tuntun.rangers/node/src/eth_tx"

	"verifharness/ref/rlpref"
)

var (
	bigPtrType  = reflect.TypeOf((*big.Int)(nil))
	bigValType  = reflect.TypeOf(big.Int{})
	txType      = reflect.TypeOf(eth_tx.Transaction{})
	ifaceType   = reflect.TypeOf((*interface{})(nil)).Elem()
	bytesType   = reflect.TypeOf([]byte(nil))
	ifSliceType = reflect.TypeOf([]interface{}(nil))
)

var uintBounds = []uint64{0, 1, 2, 0x7f, 0x80, 0x81, 0xff, 0x100, 0x101, 0xffff, 0x10000, 0xffffff, 0x1000000,
	0xffffffff, 0x100000000, 0xffffffffff, 0x10000000000, 0xffffffffffff, 0x1000000000000, 0xffffffffffffff,
	0x100000000000000, 0x7fffffffffffffff, 0x8000000000000000, 0xffffffffffffffff}

func genUint(rng *rand.Rand, bits int) uint64 {
	var u uint64
	switch rng.Intn(3) {
	case 0:
		u = uintBounds[rng.Intn(len(uintBounds))]
	case 1:
		u = rng.Uint64() >> uint(rng.Intn(64))
	default:
		u = uint64(rng.Intn(300))
	}
	if bits < 64 {
		u &= (1 << uint(bits)) - 1
	}
	return u
}

var strLens = []int{0, 1, 1, 1, 2, 3, 8, 20, 31, 32, 33, 54, 55, 56, 57, 255, 256, 257, 1024, 65535, 65536}

// genBudget bounds the total string payload of one generated value (inputs stay well below 1 MiB).
var genBudget int

func genBytes(rng *rand.Rand, depth int) []byte {
	var n int
	switch {
	case genBudget <= 0:
		n = strLens[rng.Intn(8)]
	case depth > 1:
		n = strLens[rng.Intn(12)]
	case rng.Intn(6) == 0:
		n = strLens[rng.Intn(len(strLens))]
	default:
		n = strLens[rng.Intn(14)]
	}
	genBudget -= n
	b := make([]byte, n)
	switch rng.Intn(4) {
	case 0: // zeros
	case 1:
		for i := range b {
			b[i] = byte(rng.Intn(0x80))
		}
	default:
		rng.Read(b)
	}
	if n == 1 {
		b[0] = []byte{0, 1, 0x7f, 0x80, 0x81, 0xff, byte(rng.Intn(256))}[rng.Intn(7)]
	}
	if n > 1 && rng.Intn(4) == 0 {
		b[0] = 0
	}
	return b
}

func genBig(rng *rand.Rand) *big.Int {
	switch rng.Intn(4) {
	case 0:
		return new(big.Int).SetUint64(uintBounds[rng.Intn(len(uintBounds))])
	case 1:
		k := uint([]int{64, 65, 127, 128, 160, 255, 256, 257, 440, 448, 456, 512}[rng.Intn(12)])
		v := new(big.Int).Lsh(big.NewInt(1), k)
		if rng.Intn(2) == 0 {
			v.Sub(v, big.NewInt(1))
		}
		return v
	default:
		b := make([]byte, 1+rng.Intn(40))
		rng.Read(b)
		return new(big.Int).SetBytes(b)
	}
}

// genElems bounds the number of list elements of one generated value.
var genElems int

func genSliceLen(rng *rand.Rand, depth int) (n int) {
	defer func() {
		if n > genElems {
			n = 0
		}
		genElems -= n
	}()
	if depth > 12 {
		return 0
	}
	if depth > 1 {
		return rng.Intn(3)
	}
	switch rng.Intn(12) {
	case 0:
		return []int{54, 55, 56, 57}[rng.Intn(4)]
	case 1, 2:
		return 0
	default:
		return rng.Intn(6)
	}
}

// genIface: only what the decoder can produce for interface{} ([]byte leaves, []interface{} lists).
func genIface(rng *rand.Rand, depth int) interface{} {
	if depth > 4 || rng.Intn(3) != 0 {
		return genBytes(rng, depth+1)
	}
	n := genSliceLen(rng, depth)
	l := make([]interface{}, n)
	for i := range l {
		l[i] = genIface(rng, depth+1)
	}
	return l
}

func ifaceEnc(v interface{}) []byte {
	switch x := v.(type) {
	case []byte:
		return rlpref.EncString(x)
	case []interface{}:
		var p []byte
		for _, e := range x {
			p = append(p, ifaceEnc(e)...)
		}
		return rlpref.EncList(p)
	}
	panic("ifaceEnc")
}

// nilSameAsZero: a nil pointer to this element type and a pointer to its zero
// value have the same encoding (true for everything except structs and arrays:
// nil *struct / *[N]T encode as the empty list / empty string, which is not
// the encoding of the zero struct / array).
func nilSameAsZero(et reflect.Type) bool {
	if et == bigValType {
		return true
	}
	return et.Kind() != reflect.Struct && et.Kind() != reflect.Array
}

// genValue fills v (settable) with a boundary-biased value of its type.
// nilOK: v is a struct field tagged rlp:"nil". Nil pointers to structs/arrays
// are only generated under that tag: without it their encoding (empty list /
// empty string) is documented not to decode back, so they are outside the
// "supported values" of the round-trip clause.
func genValue(rng *rand.Rand, v reflect.Value, depth int, nilOK bool) {
	t := v.Type()
	switch {
	case rlpref.IsRawType(t):
		v.SetBytes(ifaceEnc(genIface(rng, depth+1)))
		return
	case t == bigPtrType:
		if rng.Intn(8) == 0 {
			v.Set(reflect.Zero(t))
		} else {
			v.Set(reflect.ValueOf(genBig(rng)))
		}
		return
	case t == bigValType:
		v.Set(reflect.ValueOf(*genBig(rng)))
		return
	}
	switch t.Kind() {
	case reflect.Uint, reflect.Uint8, reflect.Uint16, reflect.Uint32, reflect.Uint64, reflect.Uintptr:
		v.SetUint(genUint(rng, t.Bits()))
	case reflect.Bool:
		v.SetBool(rng.Intn(2) == 0)
	case reflect.String:
		v.SetString(string(genBytes(rng, depth)))
	case reflect.Slice:
		if t.Elem().Kind() == reflect.Uint8 {
			b := genBytes(rng, depth)
			if len(b) == 0 && rng.Intn(2) == 0 {
				v.Set(reflect.Zero(t))
			} else {
				v.Set(reflect.ValueOf(b).Convert(t))
			}
			return
		}
		n := genSliceLen(rng, depth)
		if n == 0 && rng.Intn(2) == 0 {
			v.Set(reflect.Zero(t))
			return
		}
		s := reflect.MakeSlice(t, n, n)
		for i := 0; i < n; i++ {
			genValue(rng, s.Index(i), depth+1, false)
		}
		v.Set(s)
	case reflect.Array:
		if t.Elem().Kind() == reflect.Uint8 {
			mode := rng.Intn(4)
			for i := 0; i < t.Len(); i++ {
				switch mode {
				case 0:
				case 1:
					v.Index(i).SetUint(uint64(rng.Intn(0x80)))
				default:
					v.Index(i).SetUint(uint64(rng.Intn(256)))
				}
			}
			if t.Len() > 0 && rng.Intn(4) == 0 {
				v.Index(0).SetUint(0)
			}
			return
		}
		for i := 0; i < t.Len(); i++ {
			genValue(rng, v.Index(i), depth+1, false)
		}
	case reflect.Struct:
		for i := 0; i < t.NumField(); i++ {
			f := t.Field(i)
			if f.PkgPath != "" {
				continue
			}
			genValue(rng, v.Field(i), depth+1, rlpref.HasTag(f, "nil"))
		}
	case reflect.Ptr:
		if (nilOK || nilSameAsZero(t.Elem())) && rng.Intn(4) == 0 {
			v.Set(reflect.Zero(t))
			return
		}
		p := reflect.New(t.Elem())
		// else: pointer to the zero value -- but not for structs / arrays, whose zero value may contain
		// nil pointers to structs (unsupported values, see above)
		if rng.Intn(4) != 0 || !nilSameAsZero(t.Elem()) {
			genValue(rng, p.Elem(), depth+1, false)
		}
		v.Set(p)
	case reflect.Interface:
		v.Set(reflect.ValueOf(genIface(rng, depth)))
	default:
		panic("genValue: unsupported " + t.String())
	}
}

// normEqual: equality modulo what RLP cannot express: nil pointer == pointer
// to the zero value, nil slice == empty slice, nil interface == empty list,
// fields that are not serialised (unexported, rlp:"-") ignored.
func normEqual(a, b reflect.Value) bool {
	t := a.Type()
	if t != b.Type() {
		return false
	}
	switch {
	case t == bigPtrType:
		x, y := a.Interface().(*big.Int), b.Interface().(*big.Int)
		if x == nil {
			x = new(big.Int)
		}
		if y == nil {
			y = new(big.Int)
		}
		return x.Cmp(y) == 0
	case t == bigValType:
		x, y := a.Interface().(big.Int), b.Interface().(big.Int)
		return x.Cmp(&y) == 0
	}
	switch t.Kind() {
	case reflect.Uint, reflect.Uint8, reflect.Uint16, reflect.Uint32, reflect.Uint64, reflect.Uintptr:
		return a.Uint() == b.Uint()
	case reflect.Bool:
		return a.Bool() == b.Bool()
	case reflect.String:
		return a.String() == b.String()
	case reflect.Slice, reflect.Array:
		if a.Len() != b.Len() {
			return false
		}
		for i := 0; i < a.Len(); i++ {
			if !normEqual(a.Index(i), b.Index(i)) {
				return false
			}
		}
		return true
	case reflect.Struct:
		for i := 0; i < t.NumField(); i++ {
			f := t.Field(i)
			if f.PkgPath != "" || rlpref.HasTag(f, "-") {
				continue
			}
			if !normEqual(a.Field(i), b.Field(i)) {
				return false
			}
		}
		return true
	case reflect.Ptr:
		if !nilSameAsZero(t.Elem()) && (a.IsNil() || b.IsNil()) {
			return a.IsNil() && b.IsNil()
		}
		if a.IsNil() {
			a = reflect.New(t.Elem())
		}
		if b.IsNil() {
			b = reflect.New(t.Elem())
		}
		return normEqual(a.Elem(), b.Elem())
	case reflect.Interface:
		x, y := a, b
		if x.IsNil() {
			x = reflect.ValueOf([]interface{}{})
		} else {
			x = x.Elem()
		}
		if y.IsNil() {
			y = reflect.ValueOf([]interface{}{})
		} else {
			y = y.Elem()
		}
		return normEqual(x, y)
	}
	return false
}
