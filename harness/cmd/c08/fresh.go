package main

import (
	"bytes"
	"fmt"
	"math/big"
	"math/rand"
	"reflect"
	"runtime"
	"sync"

	"com.tuntun.rangers/node/src/common"
	"com.tuntun.rangers/node/src/storage/rlp"

	"verifharness/mon"
)

// Concurrent first use of types the process has never seen. The per-type
// encoder/decoder is generated on first use and cached; a type is only
// vulnerable while it is being generated. Every trial therefore builds a type
// that cannot exist yet (reflect.StructOf / SliceOf / ArrayOf / PtrTo over the
// supported kinds, with rlp tags, nested; field names carry the trial number)
// and releases G goroutines from one barrier that encode and decode values of
// that type (EncodeToBytes of the value and of the pointer, DecodeBytes,
// Stream.Decode). Oracle: no panic, and each goroutine's results equal the
// reference encoding and what the same calls give sequentially afterwards.

type freshBuilder struct {
	rng   *rand.Rand
	trial int
	seq   int
}

func (fb *freshBuilder) marker() reflect.StructField {
	fb.seq++
	return reflect.StructField{Name: fmt.Sprintf("T%dS%d", fb.trial, fb.seq), Type: reflect.TypeOf(uint64(0))}
}

var freshLeaves = []reflect.Type{
	reflect.TypeOf(uint8(0)), reflect.TypeOf(uint16(0)), reflect.TypeOf(uint32(0)), reflect.TypeOf(uint64(0)), reflect.TypeOf(uint(0)),
	reflect.TypeOf(false), reflect.TypeOf(""), reflect.TypeOf([]byte(nil)), reflect.TypeOf((*big.Int)(nil)), reflect.TypeOf(big.Int{}),
	reflect.TypeOf(common.Address{}), reflect.TypeOf(common.Hash{}), reflect.TypeOf((*interface{})(nil)).Elem(),
}

func (fb *freshBuilder) typ(depth int) reflect.Type {
	rng := fb.rng
	x := rng.Intn(10)
	if depth >= 3 && x >= 5 {
		x = rng.Intn(5)
	}
	switch {
	case x < 4:
		return freshLeaves[rng.Intn(len(freshLeaves))]
	case x == 4:
		return reflect.ArrayOf(1+rng.Intn(40), reflect.TypeOf(byte(0)))
	case x == 5:
		return reflect.SliceOf(fb.typ(depth + 1))
	case x == 6:
		return reflect.ArrayOf(1+rng.Intn(3), fb.typ(depth+1))
	case x == 7:
		return reflect.PtrTo(fb.strct(depth+1, 1+rng.Intn(3)))
	default:
		return fb.strct(depth+1, 1+rng.Intn(4))
	}
}

func (fb *freshBuilder) strct(depth, nf int) reflect.Type {
	rng := fb.rng
	fields := []reflect.StructField{fb.marker()}
	for j := 0; j < nf; j++ {
		f := reflect.StructField{Name: fmt.Sprintf("F%d", j), Type: fb.typ(depth)}
		switch rng.Intn(8) {
		case 0: // optional pointer
			et := fb.typ(depth + 1)
			if et.Kind() == reflect.Ptr || et.Kind() == reflect.Interface || et == bigPtrType {
				et = reflect.TypeOf(uint64(0))
			}
			f.Type = reflect.PtrTo(et)
			f.Tag = `rlp:"nil"`
		case 1:
			f.Tag = `rlp:"-"`
		}
		fields = append(fields, f)
	}
	if rng.Intn(4) == 0 {
		et := fb.typ(depth + 1)
		if et.Kind() == reflect.Uint8 { // a "tail" of bytes is coded as one string by encoder and decoder alike: not a list tail, leave it out
			et = reflect.TypeOf(uint16(0))
		}
		fields = append(fields, reflect.StructField{Name: "Tail", Type: reflect.SliceOf(et), Tag: `rlp:"tail"`})
	}
	return reflect.StructOf(fields)
}

type freshRes struct {
	encV, encP []byte
	errV, errP error
	dec, sdec  reflect.Value
	errD, errS error
	sleft      int
}

func freshCalls(t reflect.Type, v reflect.Value, want []byte, decodeFirst bool) (res freshRes) {
	enc := func() {
		res.encV, res.errV = rlp.EncodeToBytes(v.Elem().Interface())
		res.encV = append([]byte{}, res.encV...)
		res.encP, res.errP = rlp.EncodeToBytes(v.Interface())
		res.encP = append([]byte{}, res.encP...)
	}
	dec := func() {
		res.dec = reflect.New(t)
		res.errD = rlp.DecodeBytes(want, res.dec.Interface())
		res.sdec = reflect.New(t)
		rd := bytes.NewReader(append(append([]byte{}, want...), 0x80))
		res.errS = rlp.NewStream(rd, 0).Decode(res.sdec.Interface())
		res.sleft = rd.Len()
	}
	if decodeFirst {
		dec()
		enc()
	} else {
		enc()
		dec()
	}
	return res
}

func checkFresh(r *mon.Run, trial int) {
	c := Case{Mode: "fresh", Index: trial}
	mark(nil, pmFresh, nil, trial)
	rng := r.Rand("fresh-type", trial)
	fb := &freshBuilder{rng: rng, trial: trial}
	t := fb.strct(0, 8+rng.Intn(17))
	g := 6 + rng.Intn(11)
	vals := make([]reflect.Value, g)
	wants := make([][]byte, g)
	for i := range vals {
		vals[i] = reflect.New(t)
		genBudget, genElems = 4<<10, 200
		genValue(rng, vals[i].Elem(), 0, false)
		w, err := refEncode(vals[i].Elem())
		if err != nil {
			panic(err)
		}
		wants[i] = w
	}
	c.Origin = fmt.Sprintf("goroutines=%d type=%v", g, clipStr(t.String(), 300))
	out := make([]freshRes, g)
	var start, done sync.WaitGroup
	start.Add(1)
	for i := 0; i < g; i++ {
		done.Add(1)
		go func(i int) {
			defer done.Done()
			start.Wait()
			r.Guard("C08:fresh-type:concurrent-first-use", c, func() { out[i] = freshCalls(t, vals[i], wants[i], i%2 == 1) })
		}(i)
	}
	start.Done()
	done.Wait()
	r.Count("fresh_type_trials", 1)
	r.Count("fresh_types_built", int64(fb.seq))
	r.Count("fresh_type_goroutines", int64(g))
	// sequential truth, computed afterwards
	for i := 0; i < g; i++ {
		var seq freshRes
		if r.Guard("C08:fresh-type:sequential-use", c, func() { seq = freshCalls(t, vals[i], wants[i], false) }) {
			return
		}
		o := out[i]
		if !o.dec.IsValid() || !o.sdec.IsValid() || o.encV == nil && o.errV == nil {
			continue // this goroutine panicked (reported by Guard)
		}
		switch {
		case seq.errV != nil || seq.errP != nil || !bytes.Equal(seq.encV, wants[i]) || !bytes.Equal(seq.encP, wants[i]):
			viol(r, "C08:fresh-type:encode:differs-from-reference-encoding", c, "sequential EncodeToBytes of a value of the fresh type gives %x / %x (err %v / %v), reference %x", clip(seq.encV), clip(seq.encP), seq.errV, seq.errP, clip(wants[i]))
		case o.errV != nil || o.errP != nil || !bytes.Equal(o.encV, seq.encV) || !bytes.Equal(o.encP, seq.encP):
			viol(r, "C08:fresh-type:concurrent-first-use:encoding-differs-from-sequential", c, "goroutine %d of %d: EncodeToBytes gave %x / %x (err %v / %v), sequentially afterwards %x", i, g, clip(o.encV), clip(o.encP), o.errV, o.errP, clip(seq.encV))
		}
		switch {
		case seq.errD != nil || seq.errS != nil || !normEqual(vals[i].Elem(), seq.dec.Elem()) || !normEqual(vals[i].Elem(), seq.sdec.Elem()) || seq.sleft != 1:
			viol(r, "C08:fresh-type:roundtrip:value-changed", c, "sequential decode of the reference encoding %x of a value of the fresh type: err %s / %s, unread %d", clip(wants[i]), clipErr(seq.errD), clipErr(seq.errS), seq.sleft)
		case o.errD != nil || o.errS != nil || !normEqual(o.dec.Elem(), seq.dec.Elem()) || !normEqual(o.sdec.Elem(), seq.sdec.Elem()) || o.sleft != seq.sleft:
			viol(r, "C08:fresh-type:concurrent-first-use:decoding-differs-from-sequential", c, "goroutine %d of %d: DecodeBytes / Stream.Decode of %x: err %v / %v, unread %d; sequentially afterwards err %v / %v, unread %d", i, g, clip(wants[i]), o.errD, o.errS, o.sleft, seq.errD, seq.errS, seq.sleft)
		}
	}
}

func clipErr(e error) string {
	if e == nil {
		return "<nil>"
	}
	return clipStr(e.Error(), 200)
}

func clipStr(s string, n int) string {
	if len(s) > n {
		return s[:n] + "…"
	}
	return s
}

// freshPhase runs the trials of this shard with more Ps than the rest of the child uses.
func freshPhase(r *mon.Run, shard, n int) {
	old := runtime.GOMAXPROCS(8)
	defer runtime.GOMAXPROCS(old)
	for i := 0; i < n; i++ {
		if i%nGenShards != shard {
			continue
		}
		if curUnit < startUnit {
			curUnit++
			continue
		}
		checkFresh(r, i)
		unitDone(r)
	}
}
