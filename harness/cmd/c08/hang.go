package main

// Hang verdicts (oracle 4, totality: "returns a value or an error").
//
// A decoder that loops without consuming input neither panics nor allocates;
// the only symptom is that the call does not come back. Wall-clock watchdogs
// cannot tell that from a child starved by a loaded machine, so a hang is
// judged in two steps, neither of which looks at the wall clock:
//
//  1. every child counts the CPU time (user+system of the process, getrusage)
//     that went by while one and the same case stayed in flight. A case is one
//     call sequence over an input of at most 1 MiB: milliseconds of CPU. A case
//     that has burnt hangCPU of CPU time without completing ends the child with
//     exit hangExit, the entry point in flight and all goroutine stacks in the
//     log. CPU time does not advance while the process waits for a processor,
//     so load alone cannot make this fire.
//  2. the supervisor re-runs exactly that case alone in a child of its own. Only
//     if it exhausts the CPU budget again is it reported (signature
//     C08:<entry point>:total:hang); otherwise the firing is noted and the shard
//     resumed (twice in one shard -> inconclusive). The same confirmation is
//     applied to the case in flight when the supervisor's own wall-clock
//     watchdog kills a child: confirmed -> violation, not confirmed ->
//     inconclusive as before.
//
// The largest CPU time any completed-or-not case was seen to hold is reported
// as observed.max_cpu_ms_one_case_in_flight (sampled, so a lower bound).

import (
	"encoding/json"
	"fmt"
	"io/ioutil"
	"os"
	"path/filepath"
	"regexp"
	"runtime/pprof"
	"sync/atomic"
	"syscall"
	"time"

	"verifharness/mon"
)

const hangExit = 97

// hangCPU is CPU time, not wall time. The largest value sampled on a case that completed is about
// 1.2 s in the quick tier (unchanged tree, machine under heavy load); the thorough tier has the
// larger inputs and gets the larger budget.
var hangCPU = 20 * time.Second

func initHang(r *mon.Run) {
	if r.Thorough() {
		hangCPU = 120 * time.Second
	}
}

var (
	flushOnHang bool   // single-case children: nothing is re-run afterwards, keep what was reported so far
	markSeq     uint64 // bumped by mark() and around flushes: "something else is in flight now"
	curStep     int32  // entry point in flight (untyped API), reset by mark()
	curMode     int32  // oracle phase in flight (pm*)
)

const (
	stNone = iota
	stSplit
	stSplitSuffix
	stSplitStringList
	stCountValues
	stWalkBytes
	stWalkUint
	stWalkRaw
	stFlush
)

var stepNames = [...]string{"-", "Split", "Split", "SplitString/SplitList", "CountValues", "Stream.Bytes/List", "Stream.Uint/List", "Stream.Raw/List", "harness-flush"}

func setStep(s int32) { atomic.StoreInt32(&curStep, s) }

func cpuTime() time.Duration {
	var ru syscall.Rusage
	if syscall.Getrusage(syscall.RUSAGE_SELF, &ru) != nil {
		return 0
	}
	return time.Duration(ru.Utime.Nano() + ru.Stime.Nano())
}

// hangGuard runs in every child.
func hangGuard(r *mon.Run) {
	last := atomic.LoadUint64(&markSeq)
	base := cpuTime()
	var maxSeen time.Duration
	var maxMode [len(pmNames)]time.Duration
	for {
		time.Sleep(50 * time.Millisecond)
		s := atomic.LoadUint64(&markSeq)
		now := cpuTime()
		if s != last {
			last, base = s, now
			continue
		}
		stuck := now - base
		if stuck > maxSeen {
			maxSeen = stuck
			r.Max("max_cpu_ms_one_case_in_flight", int64(stuck/time.Millisecond))
		}
		if m := int(atomic.LoadInt32(&curMode)); stuck > maxMode[m] {
			maxMode[m] = stuck
			r.Max("max_cpu_ms_one_case_in_flight_"+pmNames[m], int64(stuck/time.Millisecond))
		}
		if stuck <= hangCPU {
			continue
		}
		step := stepNames[atomic.LoadInt32(&curStep)]
		fmt.Fprintf(os.Stdout, "\nC08 hang guard: the case in flight has used %v of CPU time without completing (limit %v) step=%s\n", stuck, hangCPU, step)
		pprof.Lookup("goroutine").WriteTo(os.Stdout, 2)
		if flushOnHang {
			r.FlushChild() // what the case reported before it stopped coming back
		}
		os.Exit(hangExit)
	}
}

var reHangStep = regexp.MustCompile(`C08 hang guard: [^\n]* step=(\S+)`)

// hangFired: did this child end through its hang guard, and in which entry point?
func hangFired(res mon.ChildResult) (bool, string) {
	if res.Exit != hangExit {
		return false, ""
	}
	b, _ := ioutil.ReadFile(res.LogFile)
	m := reHangStep.FindSubmatch(b)
	if m == nil {
		return false, ""
	}
	return true, string(m[1])
}

var confirmSeq int64

// confirmHang re-runs the case alone. Confirmed only by a second exhaustion of
// the CPU budget; the wall-clock limit of this child is a backstop that never
// confirms anything.
func confirmHang(r *mon.Run, c *Case, wall time.Duration) (confirmed bool, step string, res mon.ChildResult) {
	if c == nil {
		return false, "", res
	}
	cb, err := json.Marshal(c)
	if err != nil {
		return false, "", res
	}
	n := atomic.AddInt64(&confirmSeq, 1)
	cf := filepath.Join(mon.WorkDir(), fmt.Sprintf("hang-case-%d.json", n))
	if ioutil.WriteFile(cf, cb, 0644) != nil {
		return false, "", res
	}
	res = r.RunChild(mon.ChildSpec{Label: fmt.Sprintf("hang-confirm-%d", n), Args: []string{"case", cf},
		Env: []string{"GOMAXPROCS=2"}, Timeout: wall})
	r.Count("hang_confirmation_runs", 1)
	if _, err := os.Stat(res.Partial); err == nil && !res.TimedOut {
		r.Merge(res.Partial) // violations the case produced before it hung (or instead of hanging)
	}
	confirmed, step = hangFired(res)
	return confirmed, step, res
}

// hangSig: the entry point when known, the (type, oracle phase) in flight otherwise.
func hangSig(c *Case, step string) string {
	if step != "" && step != "-" {
		return "C08:" + step + ":total:hang"
	}
	typ := ""
	if c != nil {
		typ = c.Type
	}
	return "C08:fatal:type=" + typ + ":hang:in-flight=" + modeOf(c)
}

func reportHang(r *mon.Run, c *Case, step string, res mon.ChildResult) {
	r.Violation(hangSig(c, step),
		fmt.Sprintf("the call does not return: run alone in a fresh process, mode=%s type=%s input=%x used more than %v of CPU time in %s without completing", modeOf(c), caseType(c), clipCase(c), hangCPU, step),
		map[string]interface{}{"case": c, "log": mon.HeadTail(res.LogFile, 3500)})
	r.Count("child_hangs_confirmed", 1)
}

func caseType(c *Case) string {
	if c == nil {
		return ""
	}
	return c.Type
}
