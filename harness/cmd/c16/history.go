// Quality-number clause against process history: an exact reference for qn
// (rule of the code: stake ratio clamped to 1, step = ratio/MaxQN,
// qn = floor(valueRatio/step)+1 clamped to MaxQN) judged on every qualifying
// evaluation, and a history phase in which each input is evaluated several times
// at different positions of one seeded sequence that mixes stake ratios > 1, = 1,
// slightly below 1 and ordinary ones; every evaluation of an input must give the
// same (ok, qn) — also at the very end of the run and in a fresh child process
// that evaluates only that input.
package main

import (
	"bytes"
	"encoding/json"
	"fmt"
	"math/big"
	"os"
	"sort"
	"time"

	"com.tuntun.rangers/node/src/common"
	"com.tuntun.rangers/node/src/consensus/logical"
	"com.tuntun.rangers/node/src/consensus/model"
	"com.tuntun.rangers/node/src/consensus/vrf"

	"verifharness/mon"
)

// exactQn is the reference: floor(value/(2^256-1) / (min(sr,1)/MaxQN)) + 1, at most MaxQN.
func exactQn(value *big.Int, sr *big.Rat) uint64 {
	maxQN := uint64(model.Param.MaxQN)
	if sr.Sign() <= 0 {
		return 0
	}
	eff := sr
	if eff.Cmp(big.NewRat(1, 1)) > 0 {
		eff = big.NewRat(1, 1)
	}
	n := new(big.Int).Mul(value, big.NewInt(int64(maxQN)))
	n.Mul(n, eff.Denom())
	d := new(big.Int).Mul(max256, eff.Num())
	q := new(big.Int).Quo(n, d)
	if !q.IsUint64() || q.Uint64() >= maxQN {
		return maxQN
	}
	return q.Uint64() + 1
}

// deferred violations of the qualification part: collected by the (parallel)
// workers, emitted in a fixed order.
type deferredV struct {
	sig, what string
	c         Case
}

var deferredVs []deferredV

func deferV(sig, what string, c Case) {
	qualMu.Lock()
	deferredVs = append(deferredVs, deferredV{sig, what, c})
	qualMu.Unlock()
}

func flushDeferred(r *mon.Run) {
	qualMu.Lock()
	vs := deferredVs
	deferredVs = nil
	qualMu.Unlock()
	sort.SliceStable(vs, func(i, j int) bool {
		a, b := vs[i], vs[j]
		if a.sig != b.sig {
			return a.sig < b.sig
		}
		if a.c.TotalStake != b.c.TotalStake {
			return a.c.TotalStake < b.c.TotalStake
		}
		if a.c.Height != b.c.Height {
			return a.c.Height < b.c.Height
		}
		if a.c.WorkingMiners != b.c.WorkingMiners {
			return a.c.WorkingMiners < b.c.WorkingMiners
		}
		if c := bytes.Compare(a.c.Proof, b.c.Proof); c != 0 {
			return c < 0
		}
		return a.c.Near < b.c.Near
	})
	for _, v := range vs {
		r.Violation(v.sig, v.what, v.c)
	}
}

// evalResult is what one evaluation of an input observed.
type evalResult struct {
	OK     bool   `json:"ok"`
	QN     uint64 `json:"qn"`
	Direct uint64 `json:"direct"` // VerifCalQn(valueRatio, stakeRatio) called directly
}

func (e evalResult) String() string {
	return fmt.Sprintf("(ok=%v qn=%d calQn=%d)", e.OK, e.QN, e.Direct)
}

// evalInput runs validateProve and calQn once and judges both against the exact rule.
func evalInput(r *mon.Run, c Case) (res evalResult, done bool) {
	r.Guard("C16:validateProve", c, func() {
		p := c.P025
		if p == 0 {
			p = p025
		}
		value := new(big.Int).SetBytes(pad80(c.Proof)[:32])
		res.OK, res.QN = logical.VerifValidateProve(vrf.VRFProve(append([]byte{}, c.Proof...)), c.Height, c.WorkingMiners, c.TotalStake)
		r.Count("validateProve_calls", 1)
		judgeQual(r, c, res.OK, res.QN, value)
		sr, _, _ := exactStakeRatio(c.Height, c.WorkingMiners, c.TotalStake, p)
		if sr.Sign() > 0 {
			vr := new(big.Rat).SetFrac(value, max256)
			res.Direct = logical.VerifCalQn(vr, new(big.Rat).Set(sr))
			r.Count("calQn_direct_calls", 1)
			if want := exactQn(value, sr); vr.Cmp(sr) < 0 && res.Direct != want {
				deferV("C16:qn:differs-from-exact-rule", fmt.Sprintf("calQn(value/(2^256-1), stakeRatio=%s) = %d, exact rule floor(valueRatio/(min(ratio,1)/MaxQN))+1 gives %d (%s)", sr.RatString(), res.Direct, want, c.Near), c)
			}
		}
		done = true
	})
	return
}

type histConfig struct {
	height, wm, ts uint64
	class          string
}

// histConfigs lists the ways the code reaches a stake ratio > 1 (tiny total stake
// with difficulty 1; after the switch few working miners), = 1, slightly below 1,
// and ordinary ratios.
func histConfigs(r *mon.Run) []histConfig {
	sw := uint64(p025) + common.GetRewardBlocks()
	cs := []histConfig{
		{1, 0, 1, ">1"}, {1, 0, 2, ">1"}, {sw, 1, 2, ">1"}, {sw + 1, 1, 100, ">1"}, {sw + 1, 2, 26, ">1"}, {sw + 1, 4, 40000, ">1"},
		{sw + 1, 1, 3, ">1"}, {sw + 1, 3, 2000, ">1"}, {sw + 9, 1, 1, ">1"},
		{1, 0, 3, "=1"}, {sw + 1, 5, 100, "=1"}, {sw + 1, 3, 15, "=1"},
		{1, 0, 4, "<1 close"}, {sw + 1, 5, 26, "<1 close"}, {sw + 1, 6, 2000, "<1 close"}, {sw + 1, 5, 101, "<1 close"},
		{1, 0, 14, "ordinary"}, {1, 0, 100, "ordinary"}, {1, 0, 2000, "ordinary"}, {sw - 1, 1, 40000, "ordinary"}, {sw + 1, 10, 100, "ordinary"}, {sw + 1, 50, 1000000, "ordinary"},
	}
	if r.Thorough() {
		rng := r.Rand("hist-configs")
		for i := 0; i < 80; i++ {
			ts := 1 + uint64(rng.Int63n(1<<uint(1+rng.Intn(20))))
			wm := uint64(rng.Int63n(int64(ts) + 1))
			h := []uint64{1, sw, sw + 1, sw + 1000}[rng.Intn(4)]
			cs = append(cs, histConfig{h, wm, ts, "random"})
		}
	}
	return cs
}

// histInputs: per configuration two qualifying values whose exact qn is spread
// over 1..MaxQN (value = f * min(ratio,1) * (2^256-1), f seeded in (0, 0.98)).
func histInputs(r *mon.Run) (inputs []Case, clamped []bool) {
	for i, hc := range histConfigs(r) {
		sr, _, _ := exactStakeRatio(hc.height, hc.wm, hc.ts, p025)
		if sr.Sign() <= 0 {
			continue
		}
		eff := new(big.Rat).Set(sr)
		isClamped := eff.Cmp(big.NewRat(1, 1)) > 0
		if isClamped {
			eff.SetInt64(1)
		}
		rng := r.Rand("hist-input", i)
		for k := 0; k < 2; k++ {
			f := int64(1 + rng.Intn(980)) // per mille
			if k == 0 {
				f = int64(1 + rng.Intn(790)) // exact qn <= 4: a result stuck at MaxQN is visible
			}
			v := new(big.Int).Mul(max256, eff.Num())
			v.Mul(v, big.NewInt(f))
			v.Quo(v, new(big.Int).Mul(eff.Denom(), big.NewInt(1000)))
			tail := make([]byte, 48)
			rng.Read(tail)
			inputs = append(inputs, Case{Kind: "qnhist", Proof: proofWithValue(v, tail), Height: hc.height, WorkingMiners: hc.wm, TotalStake: hc.ts, P025: p025,
				Near: fmt.Sprintf("stake ratio %s (%s), value = %d/1000 of the qualifying range", sr.RatString(), hc.class, f)})
			clamped = append(clamped, isClamped)
		}
	}
	return
}

type histState struct {
	inputs  []Case
	clamped []bool
	seen    [][]evalResult // per input: every result observed so far
}

func (h *histState) observe(r *mon.Run, i int, where string, afterClamped bool) {
	res, done := evalInput(r, h.inputs[i])
	if !done {
		return
	}
	r.Count("hist_evaluations", 1)
	if h.clamped[i] {
		r.Count("hist_clamped_evaluations", 1)
	}
	if len(h.seen[i]) > 0 {
		r.Count("hist_reevaluations", 1)
		if afterClamped {
			r.Count("hist_reevaluations_after_clamped", 1)
		}
		if first := h.seen[i][0]; first != res {
			c := h.inputs[i]
			c.Near += "; " + where
			deferV("C16:qn:depends-on-earlier-evaluations", fmt.Sprintf("the same (proof, height=%d, workingMiners=%d, totalStake=%d) evaluated to %v first and to %v %s", c.Height, c.WorkingMiners, c.TotalStake, first, res, where), c)
		}
	}
	h.seen[i] = append(h.seen[i], res)
}

// histSequence: first every non-clamped input once (no clamped evaluation has
// happened in this process yet), then a seeded shuffle of three more rounds of
// all inputs plus the first round of the clamped ones.
func histSequence(r *mon.Run) *histState {
	h := &histState{}
	h.inputs, h.clamped = histInputs(r)
	h.seen = make([][]evalResult, len(h.inputs))
	rng := r.Rand("hist-sequence")
	var rest []int
	for i := range h.inputs {
		reps := 3
		if h.clamped[i] {
			reps = 4
		} else {
			h.observe(r, i, "before any clamped evaluation", false)
		}
		for k := 0; k < reps; k++ {
			rest = append(rest, i)
		}
	}
	rng.Shuffle(len(rest), func(a, b int) { rest[a], rest[b] = rest[b], rest[a] })
	sawClamped := false
	for pos, i := range rest {
		h.observe(r, i, fmt.Sprintf("at position %d of the mixed sequence", pos), sawClamped)
		if h.clamped[i] {
			sawClamped = true
		}
	}
	r.Count("hist_inputs", int64(len(h.inputs)))
	return h
}

// histFinal re-evaluates every input at the end of the run (after the
// qualification phase made thousands of clamped evaluations on all workers).
func (h *histState) histFinal(r *mon.Run) {
	for i := range h.inputs {
		h.observe(r, i, "at the end of the run", true)
	}
}

type histChildArg struct {
	Case   Case         `json:"case"`
	Parent []evalResult `json:"parent"`
}

// histChildren: one fresh process per input, evaluating only that input.
func (h *histState) histChildren(r *mon.Run) {
	specs := make([]mon.ChildSpec, 0, len(h.inputs))
	for i := range h.inputs {
		// distinct results seen in the parent
		var ds []evalResult
		for _, e := range h.seen[i] {
			dup := false
			for _, d := range ds {
				dup = dup || d == e
			}
			if !dup {
				ds = append(ds, e)
			}
		}
		b, _ := json.Marshal(histChildArg{Case: h.inputs[i], Parent: ds})
		specs = append(specs, mon.ChildSpec{Label: fmt.Sprintf("qn-%d", i), Args: []string{"qn", string(b)}, Timeout: 2 * time.Minute})
	}
	for _, res := range r.RunChildren(specs, 16) {
		r.Absorb(res, "C16:qn-child")
	}
}

// histChild is the child side: boot, evaluate the one input, compare with what
// the long-running parent observed.
func histChild(args []string) {
	r := mon.Start("C16")
	var a histChildArg
	if len(args) < 2 || json.Unmarshal([]byte(args[1]), &a) != nil {
		fmt.Println("usage: --child qn <json>")
		os.Exit(2)
	}
	boot(a.Case.P025)
	r.CaseBegin([]byte(args[1]))
	res, done := evalInput(r, a.Case)
	if done {
		r.Count("hist_child_evaluations", 1)
		for _, p := range a.Parent {
			if p != res {
				c := a.Case
				c.Near += "; fresh process evaluating only this input"
				deferV("C16:qn:depends-on-earlier-evaluations", fmt.Sprintf("(proof, height=%d, workingMiners=%d, totalStake=%d): a fresh process that evaluates only this input gets %v, the long-running process got %v", c.Height, c.WorkingMiners, c.TotalStake, res, p), c)
			}
		}
	}
	flushAll(r)
	cleanup()
	r.Finish(mon.Coverage{Evaluations: 1})
}

// replayHist: fresh process; the input alone, then a prelude of clamped
// evaluations, then the input again.
func replayHist(r *mon.Run, c Case) {
	i := len(c.Near)
	for k := 0; k+1 < len(c.Near); k++ {
		if c.Near[k] == ';' {
			i = k
			break
		}
	}
	c.Near = c.Near[:i]
	h := &histState{inputs: []Case{c}, clamped: []bool{false}, seen: make([][]evalResult, 1)}
	h.observe(r, 0, "first evaluation of a fresh process", false)
	pre, cl := histInputs(r)
	for k := range pre {
		if cl[k] {
			evalInput(r, pre[k])
		}
	}
	h.observe(r, 0, "after the clamped evaluations of the history phase", true)
	h.observe(r, 0, "after the clamped evaluations of the history phase (second time)", true)
}
