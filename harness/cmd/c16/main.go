// C16 — VRF proofs are complete, mutation-proof and survive header transport; one
// lottery output per key+message; the quality number is deterministic and within
// [1, MaxQN] whenever the proof qualifies.
//
// Monitor over the REAL vrf.VRFGenProve / VRFVerify / VRFProof2Hash,
// ed25519.ECVRFVerify and logical.validateProve (hook H3c):
//
//	honest   completeness, determinism of proving, big.Int transport (searching
//	         for proofs whose encoding starts with 1, 2 (3 in thorough) zero bytes)
//	flip     every / sampled single-bit mutation of proof, message, public key
//	forge    the harness as adversarial prover (hook H5 + public edwards25519):
//	         (Gamma+E, c, s) for each non-trivial small-order point E, s+q,
//	         over-long, truncated proofs; every accepted proof must carry the
//	         honest output (first 32 bytes)
//	qual     validateProve against an exact math/big.Rat oracle at and around every
//	         threshold j*stakeRatio/MaxQN*(2^256-1)
package main

import (
	"bytes"
	"crypto/sha256"
	"crypto/sha512"
	"encoding/binary"
	"encoding/hex"
	"encoding/json"
	"fmt"
	"math/big"
	"os"
	"runtime"
	"runtime/debug"
	"sort"
	"strings"
	"sync"
	"time"

	"com.tuntun.rangers/node/src/common"
	"com.tuntun.rangers/node/src/common/ed25519"
	"com.tuntun.rangers/node/src/common/ed25519/edwards25519"
	"com.tuntun.rangers/node/src/consensus"
	"com.tuntun.rangers/node/src/consensus/groupsig"
	"com.tuntun.rangers/node/src/consensus/logical"
	"com.tuntun.rangers/node/src/consensus/model"
	"com.tuntun.rangers/node/src/consensus/vrf"

	"verifharness/env"
	"verifharness/mon"
)

// p025 is the height of the difficulty proposal in this process; the
// difficulty rule of validateProve switches at p025 + common.GetRewardBlocks().
const p025 = 5000

// Case is the replayable description of one executed case.
type Case struct {
	Kind string    `json:"kind"`           // honest | flip | forge | qual | shared
	Keys []mon.Hex `json:"keys,omitempty"` // shared: the secret keys of the group (J = index of the judged key, Proof/Extra = its proofs in two histories)
	SK   mon.Hex   `json:"sk,omitempty"`
	Msg  mon.Hex   `json:"msg,omitempty"`
	// flip
	Target string `json:"target,omitempty"` // proof | short-proof | msg | pk
	Bit    int    `json:"bit,omitempty"`
	// forge
	Variant string  `json:"variant,omitempty"` // small-order | s-plus-q | overlong | zero-prefix | truncated
	J       int     `json:"j,omitempty"`       // small-order point index (E = j*T8)
	R       int     `json:"r,omitempty"`       // guessed c mod ord(E)
	Nonce   int     `json:"nonce,omitempty"`
	Extra   mon.Hex `json:"extra,omitempty"` // bytes appended (overlong)
	Pair    int     `json:"pair,omitempty"`  // index of the (key, message) pair in the run (ordering only)
	// qual
	Proof         mon.Hex `json:"proof,omitempty"` // proof bytes handed to validateProve
	Height        uint64  `json:"height,omitempty"`
	WorkingMiners uint64  `json:"working_miners,omitempty"`
	TotalStake    uint64  `json:"total_stake,omitempty"`
	P025          uint64  `json:"p025,omitempty"`
	Near          string  `json:"near,omitempty"` // description of the probed point (not used by replay)
}

// ---------------------------------------------------------------------------
// curve helpers on the public edwards25519 package (workload generation only)

var lBytes = [32]byte{0xed, 0xd3, 0xf5, 0x5c, 0x1a, 0x63, 0x12, 0x58, 0xd6, 0x9c, 0xf7, 0xa2, 0xde, 0xf9, 0xde, 0x14,
	0, 0, 0, 0, 0, 0, 0, 0, 0, 0, 0, 0, 0, 0, 0, 0x10}

var identityEnc = [32]byte{1}

func enc(p *edwards25519.ExtendedGroupElement) [32]byte {
	var b [32]byte
	p.ToBytes(&b)
	return b
}

func sub(p, q *edwards25519.ExtendedGroupElement) *edwards25519.ExtendedGroupElement {
	var c edwards25519.CachedGroupElement
	q.ToCached(&c)
	var r edwards25519.CompletedGroupElement
	edwards25519.GeSub(&r, p, &c)
	e := new(edwards25519.ExtendedGroupElement)
	r.ToExtended(e)
	return e
}

func smallMul(p *edwards25519.ExtendedGroupElement, n int) *edwards25519.ExtendedGroupElement {
	a := [32]byte{byte(n)}
	return edwards25519.GeScalarMult(p, &a)
}

var (
	tors    [8]*edwards25519.ExtendedGroupElement // tors[j] = j*T8, T8 of order 8
	torsOrd [8]int
)

// initTorsion finds a point of order 8 (L*P for curve points P) and checks the
// structure of the 8-torsion group; a failure is a harness problem.
func initTorsion() error {
	var t8 *edwards25519.ExtendedGroupElement
	for i := 0; i < 1000 && t8 == nil; i++ {
		e := sha256.Sum256([]byte(fmt.Sprintf("c16-torsion-%d", i)))
		e[31] &= 0x7f
		var p edwards25519.ExtendedGroupElement
		if !p.FromBytes(&e) {
			continue
		}
		t := edwards25519.GeScalarMult(&p, &lBytes)
		if enc(smallMul(t, 4)) != identityEnc {
			t8 = t
		}
	}
	if t8 == nil {
		return fmt.Errorf("no point of order 8 found")
	}
	seen := map[[32]byte]bool{identityEnc: true}
	for j := 1; j <= 7; j++ {
		tors[j] = smallMul(t8, j)
		g := 8 / gcd(j, 8)
		torsOrd[j] = g
		e := enc(tors[j])
		if seen[e] {
			return fmt.Errorf("torsion points not distinct")
		}
		seen[e] = true
		if enc(smallMul(tors[j], g)) != identityEnc {
			return fmt.Errorf("ord(%d*T8) != %d", j, g)
		}
		if g > 2 && enc(smallMul(tors[j], g/2)) == identityEnc {
			return fmt.Errorf("ord(%d*T8) < %d", j, g)
		}
	}
	o2 := enc(tors[4])
	want2, _ := hex.DecodeString("ecffffffffffffffffffffffffffffffffffffffffffffffffffffffffffff7f")
	if !bytes.Equal(o2[:], want2) {
		return fmt.Errorf("order-2 point encodes as %x", o2)
	}
	for _, j := range []int{2, 6} {
		e := enc(tors[j])
		e[31] &= 0x7f
		if e != ([32]byte{}) {
			return fmt.Errorf("order-4 point has y != 0")
		}
	}
	return nil
}

// ---------------------------------------------------------------------------

func keyFromSeed(r *mon.Run, labels ...interface{}) (vrf.VRFPublicKey, vrf.VRFPrivateKey) {
	pk, sk, err := vrf.VRFGenerateKey(r.Rand(labels...))
	if err != nil {
		panic(err)
	}
	return pk, sk
}

func pkOf(sk []byte) vrf.VRFPublicKey { return vrf.VRFPublicKey(append([]byte{}, sk[32:]...)) }

func pad80(pi []byte) []byte {
	if len(pi) >= 80 {
		return pi
	}
	o := make([]byte, 80)
	copy(o[80-len(pi):], pi)
	return o
}

func leadZeros(b []byte) int {
	n := 0
	for n < len(b) && b[n] == 0 {
		n++
	}
	return n
}

var helper = consensus.NewConsensusHelper(groupsig.ID{})

// stake configurations used when an honest proof is pushed through validateProve
var transportStakes = []uint64{3, 100, 3000, 200000}

// runHonest: completeness, determinism, transport. Returns the honest proof.
func runHonest(r *mon.Run, c Case) (pi vrf.VRFProve) {
	sk := vrf.VRFPrivateKey(c.SK)
	pk := pkOf(c.SK)
	m := []byte(c.Msg)
	r.Guard("C16:honest", c, func() {
		p1, err := vrf.VRFGenProve(pk, sk, m)
		r.Count("proves", 1)
		if err != nil || len(p1) != ed25519.ProveSize {
			r.Violation("C16:prove:failed", fmt.Sprintf("VRFGenProve err=%v len=%d", err, len(p1)), c)
			return
		}
		p2, _ := vrf.VRFGenProve(pk, sk, append([]byte{}, m...))
		r.Count("determinism_checks", 1)
		if !bytes.Equal(p1, p2) {
			r.Violation("C16:prove:nondeterministic", fmt.Sprintf("two proofs for one key+message differ: %x vs %x", []byte(p1), []byte(p2)), c)
		}
		ok, err := vrf.VRFVerify(pk, p1, m)
		r.Count("honest_verifies", 1)
		if !ok {
			r.Violation("C16:verify:honest-rejected", fmt.Sprintf("honest proof %x rejected (err=%v)", []byte(p1), err), c)
			return
		}
		pi = p1
		// transport exactly as CastBlock / verifyBlockVRF: proof -> big.Int -> Bytes()
		short := vrf.VRFProve(p1.Big().Bytes())
		z := len(p1) - len(short)
		r.Count(fmt.Sprintf("transport_lead_zero_bytes=%d", z), 1)
		ok2, err2 := vrf.VRFVerify(pk, short, m)
		r.Count("transport_verifies", 1)
		if !ok2 {
			r.Violation("C16:transport:honest-rejected", fmt.Sprintf("honest proof rejected after big.Int transport dropped %d leading zero byte(s) (err=%v)", z, err2), c)
		}
		if z > 0 {
			r.Count("transport_verifies_shortened", 1)
			if !bytes.Equal(vrf.VRFProof2Hash(vrf.VRFProve(pad80(short))), vrf.VRFProof2Hash(p1)) {
				r.Violation("C16:transport:output-differs", "VRFProof2Hash differs after transport + padding", c)
			}
			// observation only: ConsensusHelperImpl.VRFProve2Value takes the first 32 bytes of the
			// UNPADDED big.Int bytes (today it only feeds a debug log in core.CastBlock)
			if hv := helper.VRFProve2Value(p1.Big()); hv.Cmp(vrf.VRFProof2Hash(p1).Big()) != 0 {
				r.Count("observed_helper_VRFProve2Value_differs_from_output", 1)
			} else {
				r.Count("observed_helper_VRFProve2Value_equals_output", 1)
			}
			// the node's own padding + output extraction sits in validateProve
			for _, ts := range transportStakes {
				o1, q1 := logical.VerifValidateProve(p1, 10, 0, ts)
				o2, q2 := logical.VerifValidateProve(short, 10, 0, ts)
				r.Count("transport_qualification_checks", 1)
				if o1 != o2 || q1 != q2 {
					r.Violation("C16:transport:qualification-differs", fmt.Sprintf("validateProve(totalStake=%d): (%v,%d) for the 80-byte proof, (%v,%d) for its %d-byte transported form", ts, o1, q1, o2, q2, len(short)), c)
				}
				judgeQual(r, Case{Kind: "qual", Proof: mon.Hex(short), Height: 10, WorkingMiners: 0, TotalStake: ts, P025: p025, Near: "transported honest proof"}, o2, q2, new(big.Int).SetBytes(p1[:32]))
			}
		}
	})
	return
}

// flipOne applies one single-bit mutation and reports acceptance.
func flipOne(r *mon.Run, c Case, pi []byte) (ran, accepted bool) {
	pk := []byte(pkOf(c.SK))
	m := append([]byte{}, c.Msg...)
	p := append([]byte{}, pi...)
	switch c.Target {
	case "proof":
		p[c.Bit/8] ^= 1 << uint(c.Bit%8)
	case "short-proof":
		p = new(big.Int).SetBytes(p).Bytes()
		if c.Bit/8 >= len(p) {
			return false, false
		}
		p[c.Bit/8] ^= 1 << uint(c.Bit%8)
	case "msg":
		if c.Bit/8 >= len(m) {
			return false, false
		}
		m[c.Bit/8] ^= 1 << uint(c.Bit%8)
	case "pk":
		pk = append([]byte{}, pk...)
		pk[c.Bit/8] ^= 1 << uint(c.Bit%8)
	default:
		return false, false
	}
	ran = true
	r.Guard("C16:flip:"+c.Target, c, func() {
		ok, _ := vrf.VRFVerify(vrf.VRFPublicKey(pk), vrf.VRFProve(p), m)
		if ok {
			accepted = true
			r.Violation("C16:flip:"+c.Target+":accepted", fmt.Sprintf("single-bit mutant of the %s (bit %d) accepted", c.Target, c.Bit), c)
		}
	})
	return
}

// flipStats aggregates mutant counts locally (one flush per pair).
type flipStats struct {
	seen     map[[2]int]bool
	byTarget map[string]int64
	accepted int64
	total    int64
}

var targetIdx = map[string]int{"proof": 0, "short-proof": 1, "msg": 2, "pk": 3}

func newFlipStats() *flipStats {
	return &flipStats{seen: map[[2]int]bool{}, byTarget: map[string]int64{}}
}

func (f *flipStats) do(r *mon.Run, base Case, pi []byte, target string, bit int) {
	c := base
	c.Kind, c.Target, c.Bit = "flip", target, bit
	ran, acc := flipOne(r, c, pi)
	if !ran {
		return
	}
	f.total++
	f.byTarget[target]++
	if acc {
		f.accepted++
	}
	f.seen[[2]int{targetIdx[target], bit}] = true
}

func (f *flipStats) flush(r *mon.Run) {
	for t, n := range f.byTarget {
		r.Count("mutant_verifies_"+t, n)
	}
	r.Count("mutants_accepted", f.accepted)
	r.Count("mutants_rejected", f.total-f.accepted)
	r.Count("distinct_mutants", int64(len(f.seen)))
}

// ---------------------------------------------------------------------------
// adversarial prover

type prover struct {
	pk    []byte
	x     *[32]byte
	thsk  *[32]byte
	h     [32]byte
	H     *edwards25519.ExtendedGroupElement
	gamma *edwards25519.ExtendedGroupElement
}

func newProver(sk, m []byte) *prover {
	p := &prover{pk: append([]byte{}, sk[32:]...)}
	p.x, p.thsk = ed25519.VerifExpandSecret(ed25519.PrivateKey(sk))
	p.h = ed25519.VerifHashToCurve(m, ed25519.PublicKey(p.pk))
	p.H = new(edwards25519.ExtendedGroupElement)
	p.H.FromBytes(&p.h)
	p.gamma = edwards25519.GeScalarMult(p.H, p.x)
	return p
}

func (p *prover) nonce(j, n int) *[32]byte {
	h := sha512.New()
	h.Write(p.thsk[:])
	h.Write(p.h[:])
	fmt.Fprintf(h, "c16-forge|%d|%d", j, n)
	var d [64]byte
	h.Sum(d[:0])
	k := new([32]byte)
	edwards25519.ScReduce(k, &d)
	return k
}

// smallOrder builds (Gamma+E, c, s) with E = tors[j], for nonce n and the guess
// rr = c mod ord(E). ok reports whether the guess came true (only then can the
// verification equation hold: V = s*H - c*(Gamma+E) = k*H - (c mod ord)*E).
func (p *prover) smallOrder(j, n, rr int) (proof []byte, ok bool) {
	E := tors[j]
	D := tors[8-j] // -E
	g2 := sub(p.gamma, D)
	k := p.nonce(j, n)
	kB := new(edwards25519.ExtendedGroupElement)
	edwards25519.GeScalarMultBase(kB, k)
	kH := edwards25519.GeScalarMult(p.H, k)
	v := sub(kH, smallMul(E, rr))
	c := ed25519.VerifHashPoints(*p.H, *g2, *kB, *v)
	if int(c[0])&(torsOrd[j]-1) != rr {
		return nil, false
	}
	var c32, s [32]byte
	copy(c32[:], c[:])
	edwards25519.ScMulAdd(&s, &c32, p.x, k)
	ge := enc(g2)
	proof = append(proof, ge[:]...)
	proof = append(proof, c[:]...)
	proof = append(proof, s[:]...)
	return proof, true
}

// addL returns the proof with s replaced by s + L (as a 256-bit integer).
func addL(pi []byte) []byte {
	o := append([]byte{}, pi...)
	carry := 0
	for i := 0; i < 32; i++ {
		v := int(o[48+i]) + int(lBytes[i]) + carry
		o[48+i] = byte(v)
		carry = v >> 8
	}
	return o
}

type secondOutput struct {
	sig, what string
	c         Case
}

var secondOutputs []secondOutput

// flushSecondOutputs emits the collected second-output violations in a fixed
// order (smallest pair index, point index, variant, guess first).
func flushSecondOutputs(r *mon.Run) {
	qualMu.Lock()
	vs := secondOutputs
	secondOutputs = nil
	qualMu.Unlock()
	sort.Slice(vs, func(i, j int) bool {
		a, b := vs[i].c, vs[j].c
		if a.Pair != b.Pair {
			return a.Pair < b.Pair
		}
		if a.J != b.J {
			return a.J < b.J
		}
		if a.Variant != b.Variant {
			return a.Variant < b.Variant
		}
		if a.R != b.R {
			return a.R < b.R
		}
		return bytes.Compare(a.Extra, b.Extra) < 0
	})
	for _, v := range vs {
		r.Violation(v.sig, v.what, v.c)
	}
}

// judgeForged hands one crafted proof to the real verifier; every accepted one
// must carry the honest output.
func judgeForged(r *mon.Run, c Case, honest, forged []byte) {
	pk := pkOf(c.SK)
	r.Guard("C16:forge:"+c.Variant, c, func() {
		ok, _ := ed25519.ECVRFVerify(ed25519.PublicKey(pk), ed25519.VRFProve(forged), []byte(c.Msg))
		r.Count("crafted_verifies_"+c.Variant, 1)
		if !ok {
			r.Count("crafted_rejected_"+c.Variant, 1)
			return
		}
		r.Count("crafted_accepted_"+c.Variant, 1)
		outF := vrf.VRFProof2Hash(vrf.VRFProve(pad80(forged)))
		outH := vrf.VRFProof2Hash(vrf.VRFProve(honest))
		if !bytes.Equal(outF, outH) {
			sig := "C16:vrf:second-output-accepted"
			what := fmt.Sprintf("two accepted proofs for one key and message carry different outputs: honest %x, crafted (%s", []byte(outH), c.Variant)
			if c.Variant == "small-order" {
				what += fmt.Sprintf(", Gamma + %d*T8 of order %d, c mod ord = %d", c.J, torsOrd[c.J], c.R)
			}
			what += fmt.Sprintf(") %x; crafted proof %x", []byte(outF), forged)
			qualMu.Lock()
			secondOutputs = append(secondOutputs, secondOutput{sig: sig, what: what, c: c})
			qualMu.Unlock()
		}
	})
}

// runForge executes the crafted-proof case c (one proof).
func runForge(r *mon.Run, c Case, honest []byte) {
	switch c.Variant {
	case "small-order":
		p := newProver(c.SK, c.Msg)
		if ge := enc(p.gamma); !bytes.Equal(ge[:], honest[:32]) {
			r.Note("harness prover disagrees with ECVRFProve on Gamma (sk %x)", []byte(c.SK))
			r.Count("prover_gamma_mismatch", 1)
			return
		}
		proof, ok := p.smallOrder(c.J, c.Nonce, c.R)
		if !ok {
			return
		}
		r.Distinct("crafted", proof)
		judgeForged(r, c, honest, proof)
	case "small-order+q":
		p := newProver(c.SK, c.Msg)
		proof, ok := p.smallOrder(c.J, c.Nonce, c.R)
		if !ok {
			return
		}
		proof = addL(proof)
		r.Distinct("crafted", proof)
		judgeForged(r, c, honest, proof)
	case "s-plus-q":
		f := addL(honest)
		r.Distinct("crafted", f)
		judgeForged(r, c, honest, f)
	case "overlong":
		f := append(append([]byte{}, honest...), c.Extra...)
		r.Distinct("crafted", f)
		judgeForged(r, c, honest, f)
	case "zero-prefix":
		f := append(append([]byte{}, c.Extra...), honest...)
		r.Distinct("crafted", f)
		judgeForged(r, c, honest, f)
	case "truncated":
		// drop the first byte although it is not zero: the node pads on the left
		if honest[0] == 0 {
			return
		}
		f := append([]byte{}, honest[1:]...)
		r.Distinct("crafted", f)
		judgeForged(r, c, honest, f)
	}
}

// forgeAll builds the crafted proofs for one honest (key, message).
func forgeAll(r *mon.Run, sk, m, honest []byte, idx int) {
	p := newProver(sk, m)
	if ge := enc(p.gamma); !bytes.Equal(ge[:], honest[:32]) {
		r.Note("harness prover disagrees with ECVRFProve on Gamma (sk %x)", sk)
		r.Count("prover_gamma_mismatch", 1)
		return
	}
	base := Case{Kind: "forge", SK: sk, Msg: m, Pair: idx}
	for j := 1; j <= 7; j++ {
		got0, gotN := false, false
		for n := 0; n < 160 && !(got0 && gotN); n++ {
			for rr := 0; rr < torsOrd[j]; rr++ {
				if (rr == 0 && got0) || (rr != 0 && gotN) {
					continue
				}
				r.Count("small_order_grind_attempts", 1)
				if _, ok := p.smallOrder(j, n, rr); !ok {
					continue
				}
				c := base
				c.Variant, c.J, c.R, c.Nonce = "small-order", j, rr, n
				runForge(r, c, honest)
				if rr == 0 {
					got0 = true
					r.Count("small_order_proofs_cT_is_O", 1)
					c.Variant = "small-order+q"
					runForge(r, c, honest)
				} else {
					gotN = true
					r.Count("small_order_proofs_cT_not_O", 1)
				}
			}
		}
		if !got0 {
			r.Count("small_order_grind_exhausted", 1)
		}
	}
	c := base
	c.Variant = "s-plus-q"
	runForge(r, c, honest)
	rng := r.Rand("overlong", idx)
	for _, l := range []int{1, 1, 16, 1 + rng.Intn(64)} {
		e := make([]byte, l)
		rng.Read(e)
		if l == 1 && rng.Intn(2) == 0 {
			e[0] = 0
		}
		c = base
		c.Variant, c.Extra = "overlong", e
		runForge(r, c, honest)
	}
	for _, l := range []int{1, 2, 32} {
		c = base
		c.Variant, c.Extra = "zero-prefix", make([]byte, l)
		runForge(r, c, honest)
	}
	c = base
	c.Variant = "truncated"
	runForge(r, c, honest)
}

// ---------------------------------------------------------------------------
// qualification rule: exact oracle

var (
	max256 = new(big.Int).Sub(new(big.Int).Lsh(big.NewInt(1), 256), big.NewInt(1))
	two63  = new(big.Int).Lsh(big.NewInt(1), 63)
)

// potentialProposal recomputes calcPotentialProposal from model.Param (reading
// the parameters, not the code).
func potentialProposal(totalStake uint64) *big.Int {
	p := new(big.Int).Mul(new(big.Int).SetUint64(totalStake), big.NewInt(int64(model.Param.PotentialProposalIndex)))
	p.Quo(p, big.NewInt(100))
	lo, hi := new(big.Int).SetUint64(model.Param.PotentialProposal), new(big.Int).SetUint64(model.Param.PotentialProposalMax)
	if p.Cmp(lo) < 0 {
		return lo
	}
	if p.Cmp(hi) > 0 {
		return hi
	}
	return p
}

// exactStakeRatio returns difficulty*potentialProposal/totalStake exactly. When the
// node's own arithmetic cannot represent the operands (uint64 products that wrap,
// product >= 2^63 cast to int64, totalStake not a float64 integer) exact=false and
// the ratio is the node's own calcStakeRatio: such configurations are judged for the
// qn range and determinism only, relative to the ratio the node used.
func exactStakeRatio(height, workingMiners, totalStake, p025Block uint64) (ratio *big.Rat, difficulty uint64, exact bool) {
	difficulty = 1
	if totalStake == 0 {
		return new(big.Rat), 1, true
	}
	if workingMiners != 0 && height > p025Block+common.GetRewardBlocks() {
		difficulty = totalStake / workingMiners
	}
	num := new(big.Int).Mul(new(big.Int).SetUint64(difficulty), potentialProposal(totalStake))
	exact = num.Cmp(two63) < 0 &&
		new(big.Int).Mul(new(big.Int).SetUint64(totalStake), big.NewInt(int64(model.Param.PotentialProposalIndex))).BitLen() <= 64
	if f := float64(totalStake); f >= 18446744073709551616.0 || uint64(f) != totalStake {
		exact = false
	}
	if !exact {
		return logical.VerifCalcStakeRatio(difficulty, totalStake), difficulty, false
	}
	return new(big.Rat).SetFrac(num, new(big.Int).SetUint64(totalStake)), difficulty, true
}

// qn > MaxQN observations are collected and emitted by flushAboveMax so that the
// (at most three) recorded witnesses are the minimal ones, independent of the
// order in which the parallel workers ran.
type aboveMaxObs struct {
	c     Case
	what  string
	dist  *big.Int // top threshold - value
	srGT1 bool
	exact bool
}

var (
	qualMu   sync.Mutex
	aboveMax []aboveMaxObs
)

func flushAboveMax(r *mon.Run) {
	qualMu.Lock()
	obs := aboveMax
	aboveMax = nil
	qualMu.Unlock()
	if len(obs) == 0 {
		return
	}
	sort.Slice(obs, func(i, j int) bool {
		a, b := obs[i].c, obs[j].c
		if a.TotalStake != b.TotalStake {
			return a.TotalStake < b.TotalStake
		}
		if a.Height != b.Height {
			return a.Height < b.Height
		}
		if a.WorkingMiners != b.WorkingMiners {
			return a.WorkingMiners < b.WorkingMiners
		}
		if c := bytes.Compare(a.Proof, b.Proof); c != 0 {
			return c > 0 // larger value (closer to the threshold) first
		}
		return a.Near < b.Near
	})
	first := []int{}
	pick := func(f func(o aboveMaxObs) bool, better func(a, b aboveMaxObs) bool) {
		best := -1
		for i, o := range obs {
			if !f(o) {
				continue
			}
			if best < 0 || (better != nil && better(o, obs[best])) {
				best = i
			}
		}
		if best >= 0 {
			for _, k := range first {
				if k == best {
					return
				}
			}
			first = append(first, best)
		}
	}
	// 1. smallest total stake with stakeRatio <= 1: value one below the top threshold (float rounding)
	pick(func(o aboveMaxObs) bool { return !o.srGT1 && o.exact && o.dist.Cmp(big.NewInt(2)) <= 0 }, nil)
	// 2. widest window: largest distance below the top threshold that still yields MaxQN+1
	pick(func(o aboveMaxObs) bool { return !o.srGT1 && o.exact }, func(a, b aboveMaxObs) bool { return a.dist.Cmp(b.dist) > 0 })
	// 3. stakeRatio > 1 and value 2^256-1: qn = MaxQN+1 even in exact arithmetic (no clamp)
	pick(func(o aboveMaxObs) bool { return o.srGT1 && o.dist.Sign() == 0 }, nil)
	emitted := map[int]bool{}
	for _, k := range first {
		emitted[k] = true
		r.Violation("C16:qn:above-max", obs[k].what, obs[k].c)
	}
	byStake := map[uint64]int{}
	var stakes []uint64
	widest := new(big.Int)
	for i, o := range obs {
		if !emitted[i] {
			r.Violation("C16:qn:above-max", o.what, o.c)
		}
		if byStake[o.c.TotalStake] == 0 {
			stakes = append(stakes, o.c.TotalStake)
		}
		byStake[o.c.TotalStake]++
		if !o.srGT1 && o.dist.Cmp(widest) > 0 {
			widest = o.dist
		}
	}
	var ss []string
	for _, k := range stakes {
		ss = append(ss, fmt.Sprintf("%d:%d", k, byStake[k]))
	}
	r.Note("ok=true with qn > MaxQN seen for totalStake:count = %s; largest probed distance below the top threshold that still gave MaxQN+1: about 2^%d", strings.Join(ss, " "), widest.BitLen()-1)
}

// judgeQual compares one observed (ok, qn) with the exact oracle. value is the
// integer the first 32 bytes of the (padded) proof denote.
func judgeQual(r *mon.Run, c Case, ok bool, qn uint64, value *big.Int) {
	maxQN := uint64(model.Param.MaxQN)
	if c.TotalStake == 0 {
		r.Count("qual_checks_zero_stake", 1)
		if ok {
			r.Violation("C16:ok:zero-stake-accepted", "validateProve ok with total stake 0", c)
		}
		return
	}
	p := c.P025
	if p == 0 {
		p = p025
	}
	sr, diff, exact := exactStakeRatio(c.Height, c.WorkingMiners, c.TotalStake, p)
	if exact {
		r.Count("qual_checks_exact_stake_ratio", 1)
		if logical.VerifCalcStakeRatio(diff, c.TotalStake).Cmp(sr) != 0 {
			r.Count("stake_ratio_differs_from_node", 1)
			r.Note("calcStakeRatio(%d,%d) = %s, exact %s", diff, c.TotalStake, logical.VerifCalcStakeRatio(diff, c.TotalStake).RatString(), sr.RatString())
		}
	} else {
		r.Count("qual_checks_node_stake_ratio", 1)
	}
	r.Count("qual_checks", 1)
	// ok <=> value/(2^256-1) < stakeRatio  <=>  value*den < num*(2^256-1)
	lhs := new(big.Int).Mul(value, sr.Denom())
	rhs := new(big.Int).Mul(sr.Num(), max256)
	wantOK := lhs.Cmp(rhs) < 0
	if ok != wantOK {
		r.Violation("C16:ok:mismatch", fmt.Sprintf("validateProve ok=%v but value/(2^256-1) < stakeRatio (%s) is %v", ok, sr.RatString(), wantOK), c)
		return
	}
	if !ok {
		r.Count("qual_not_qualified", 1)
		return
	}
	r.Count("qual_qualified", 1)
	if qn > maxQN {
		r.Count("qual_qn_above_max", 1)
		effTop := new(big.Rat).Set(sr)
		if effTop.Cmp(big.NewRat(1, 1)) > 0 {
			effTop.SetInt64(1)
		}
		top := new(big.Int).Mul(effTop.Num(), max256)
		top.Quo(top, effTop.Denom())
		o := aboveMaxObs{c: c, dist: new(big.Int).Sub(top, value), srGT1: sr.Cmp(big.NewRat(1, 1)) > 0, exact: exact,
			what: fmt.Sprintf("validateProve ok=true with qn=%d > MaxQN=%d (total stake %d, height %d, working miners %d, stake ratio %s, value %s = %s)", qn, maxQN, c.TotalStake, c.Height, c.WorkingMiners, sr.RatString(), value.String(), c.Near)}
		qualMu.Lock()
		aboveMax = append(aboveMax, o)
		qualMu.Unlock()
		return
	}
	if qn < 1 {
		r.Violation("C16:qn:below-min", fmt.Sprintf("validateProve ok=true with qn=%d < 1 (total stake %d, stake ratio %s)", qn, c.TotalStake, sr.RatString()), c)
		return
	}
	// the exact rule of the code: ratio clamped to 1, step = ratio/MaxQN, floor(valueRatio/step)+1, at most MaxQN
	if want := exactQn(value, sr); want == qn {
		r.Count("qual_qn_equals_exact_floor", 1)
	} else {
		r.Count("qual_qn_differs_from_exact_rule", 1)
		deferV("C16:qn:differs-from-exact-rule", fmt.Sprintf("validateProve ok=true qn=%d, the exact rule gives %d (total stake %d, height %d, working miners %d, stake ratio %s, value %s = %s)", qn, want, c.TotalStake, c.Height, c.WorkingMiners, sr.RatString(), value.String(), c.Near), c)
	}
}

type qualPanic struct {
	c     Case
	msg   string
	stack string
}

var qualPanics []qualPanic

// flushQualPanics emits the collected validateProve panics smallest configuration first.
func flushQualPanics(r *mon.Run) {
	qualMu.Lock()
	ps := qualPanics
	qualPanics = nil
	qualMu.Unlock()
	sort.Slice(ps, func(i, j int) bool {
		a, b := ps[i].c, ps[j].c
		if a.TotalStake != b.TotalStake {
			return a.TotalStake < b.TotalStake
		}
		if a.WorkingMiners != b.WorkingMiners {
			return a.WorkingMiners < b.WorkingMiners
		}
		if a.Height != b.Height {
			return a.Height < b.Height
		}
		return bytes.Compare(a.Proof, b.Proof) < 0
	})
	for _, p := range ps {
		st := normStack(p.stack)
		r.Violation("C16:validateProve:panic:"+mon.PanicSite(p.stack), fmt.Sprintf("validateProve(height=%d, workingMiners=%d, totalStake=%d) panics: %s", p.c.Height, p.c.WorkingMiners, p.c.TotalStake, p.msg),
			map[string]interface{}{"case": p.c, "panic": p.msg, "stack": st})
	}
}

// normStack drops goroutine ids, argument values and pc offsets so that the
// witness of a panic is identical from run to run.
func normStack(st string) string {
	var out []string
	for _, l := range strings.Split(st, "\n") {
		if strings.HasPrefix(l, "goroutine ") || l == "" {
			continue
		}
		if strings.HasPrefix(l, "\t") {
			if i := strings.Index(l, " +0x"); i > 0 {
				l = l[:i]
			}
		} else if i := strings.LastIndex(l, "("); i > 0 {
			l = l[:i]
		}
		out = append(out, l)
	}
	if len(out) > 40 {
		out = out[:40]
	}
	return strings.Join(out, "\n")
}

// runQual executes one qualification probe twice (determinism) and judges it.
// Panics are collected (not reported through Guard) so that the recorded
// witnesses do not depend on the order in which the workers ran.
func runQual(r *mon.Run, c Case) {
	defer func() {
		if e := recover(); e != nil {
			r.Count("validateProve_panics", 1)
			qualMu.Lock()
			qualPanics = append(qualPanics, qualPanic{c: c, msg: fmt.Sprint(e), stack: string(debug.Stack())})
			qualMu.Unlock()
		}
	}()
	ok1, q1 := logical.VerifValidateProve(vrf.VRFProve(append([]byte{}, c.Proof...)), c.Height, c.WorkingMiners, c.TotalStake)
	ok2, q2 := logical.VerifValidateProve(vrf.VRFProve(append([]byte{}, c.Proof...)), c.Height, c.WorkingMiners, c.TotalStake)
	r.Count("validateProve_calls", 2)
	if ok1 != ok2 || q1 != q2 {
		r.Violation("C16:qn:nondeterministic", fmt.Sprintf("validateProve gave (%v,%d) then (%v,%d) for the same arguments", ok1, q1, ok2, q2), c)
	}
	value := new(big.Int).SetBytes(pad80(c.Proof)[:32])
	judgeQual(r, c, ok1, q1, value)
}

func proofWithValue(v *big.Int, tail []byte) []byte {
	b := v.Bytes()
	o := make([]byte, 80)
	copy(o[32-len(b):32], b)
	copy(o[32:], tail)
	return o
}

// qualCases enumerates the probe points for one (height, workingMiners, totalStake).
func qualCases(r *mon.Run, height, wm, ts uint64, cfg int) []Case {
	var out []Case
	rng := r.Rand("qual", height, wm, ts)
	tail := make([]byte, 48)
	rng.Read(tail)
	seenV := map[string]bool{}
	mk := func(v *big.Int, near string) {
		if v.Sign() < 0 || v.Cmp(max256) > 0 || seenV[string(v.Bytes())] {
			return
		}
		seenV[string(v.Bytes())] = true
		out = append(out, Case{Kind: "qual", Proof: proofWithValue(v, tail), Height: height, WorkingMiners: wm, TotalStake: ts, P025: p025, Near: near})
	}
	if ts == 0 {
		mk(big.NewInt(0), "0")
		mk(max256, "2^256-1")
		return out
	}
	sr, _, _ := exactStakeRatio(height, wm, ts, p025)
	rep := sr.Sign() > 0
	mk(big.NewInt(0), "0")
	mk(big.NewInt(1), "1")
	mk(max256, "2^256-1")
	mk(new(big.Int).Sub(max256, big.NewInt(1)), "2^256-2")
	if rep {
		eff := new(big.Rat).Set(sr)
		if eff.Cmp(big.NewRat(1, 1)) > 0 {
			eff.SetInt64(1)
		}
		maxQN := int64(model.Param.MaxQN)
		for j := int64(1); j <= maxQN; j++ {
			// t = j*eff/maxQN*(2^256-1)
			n := new(big.Int).Mul(big.NewInt(j), eff.Num())
			n.Mul(n, max256)
			d := new(big.Int).Mul(big.NewInt(maxQN), eff.Denom())
			t := new(big.Int).Quo(n, d)
			lab := fmt.Sprintf("floor(%d*stakeRatio/%d*(2^256-1))", j, maxQN)
			mk(t, lab)
			mk(new(big.Int).Add(t, big.NewInt(1)), lab+"+1")
			mk(new(big.Int).Sub(t, big.NewInt(1)), lab+"-1")
			mk(new(big.Int).Sub(t, big.NewInt(2)), lab+"-2")
			for _, k := range []uint{8, 64, 128, 180, 196, 200, 201, 202, 203, 204, 205, 206, 208, 212, 220, 240} {
				off := new(big.Int).Lsh(big.NewInt(1), k)
				mk(new(big.Int).Sub(t, off), fmt.Sprintf("%s-2^%d", lab, k))
				if k%4 == 0 {
					mk(new(big.Int).Add(t, off), fmt.Sprintf("%s+2^%d", lab, k))
				}
			}
		}
		// the unclamped threshold when stakeRatio > 1 never lies inside the value range
	}
	nr := 12
	if cfg%4 == 0 {
		nr = 40
	}
	for i := 0; i < nr; i++ {
		b := make([]byte, 32)
		rng.Read(b)
		v := new(big.Int).SetBytes(b)
		if i%3 == 0 && rep { // scale into the qualifying range
			v.Mul(v, sr.Num())
			v.Quo(v, sr.Denom())
			if v.Cmp(max256) > 0 {
				v.Set(max256)
			}
		}
		mk(v, "random")
	}
	return out
}

// ---------------------------------------------------------------------------

func genMsg(r *mon.Run, i, j int) []byte {
	rng := r.Rand("msg", i, j)
	lens := []int{32, 32, 32, 33, 0, 1, 31, 64, 65, 100, 1 + rng.Intn(300)}
	l := lens[(i*3+j)%len(lens)]
	m := make([]byte, l)
	rng.Read(m)
	return m
}

type hit struct {
	sk, msg []byte
	zeros   int
}

// searchZeroLead scans whole blocks of candidate messages (fixed function of the
// seed) for proofs whose Gamma encoding starts with zero bytes, using the H5
// exports (hash to curve + scalar multiplication only); stops after the block in
// which the wanted number of deepest hits is reached.
func searchZeroLead(r *mon.Run, wantZeros, wantHits, maxBlocks int) []hit {
	const block = 1 << 16
	workers := runtime.NumCPU()
	var hits []hit
	deep := 0
	for b := 0; b < maxBlocks && deep < wantHits; b++ {
		_, sk := keyFromSeed(r, "search-key", b)
		pk := []byte(pkOf(sk))
		x, _ := ed25519.VerifExpandSecret(ed25519.PrivateKey(sk))
		prefix := make([]byte, 24)
		r.Rand("search-prefix", b).Read(prefix)
		found := make([][]hit, workers)
		mon.Parallel(workers, workers, func(w int) {
			for i := w; i < block; i += workers {
				m := make([]byte, 32)
				copy(m, prefix)
				binary.BigEndian.PutUint64(m[24:], uint64(i))
				h := ed25519.VerifHashToCurve(m, ed25519.PublicKey(pk))
				var H edwards25519.ExtendedGroupElement
				H.FromBytes(&h)
				g := enc(edwards25519.GeScalarMult(&H, x))
				if g[0] != 0 {
					continue
				}
				found[w] = append(found[w], hit{sk: sk, msg: m, zeros: leadZeros(g[:])})
			}
		})
		r.Count("zero_lead_search_candidates", block)
		var blk []hit
		for _, f := range found {
			blk = append(blk, f...)
		}
		sort.Slice(blk, func(i, j int) bool { return bytes.Compare(blk[i].msg, blk[j].msg) < 0 })
		for _, h := range blk {
			if h.zeros >= wantZeros {
				deep++
			}
		}
		hits = append(hits, blk...)
	}
	return hits
}

func flushAll(r *mon.Run) {
	flushSecondOutputs(r)
	flushAboveMax(r)
	flushQualPanics(r)
	flushDeferred(r)
}

func replay(r *mon.Run, path string) {
	v, err := mon.LoadReplay(path)
	if err != nil {
		fmt.Println("MACHINERY:", err)
		os.Exit(2)
	}
	var w struct {
		Case *Case `json:"case"`
	}
	var c Case
	json.Unmarshal(v.Witness, &w)
	if w.Case != nil {
		c = *w.Case
	} else {
		json.Unmarshal(v.Witness, &c)
	}
	boot(c.P025)
	switch c.Kind {
	case "honest":
		runHonest(r, c)
	case "flip":
		h := c
		h.Kind = "honest"
		if pi := runHonest(r, h); pi != nil {
			flipOne(r, c, pi)
		}
	case "forge":
		h := c
		h.Kind = "honest"
		if pi := runHonest(r, h); pi != nil {
			runForge(r, c, pi)
		}
	case "qual":
		runQual(r, c)
		// and once more after the clamped evaluations of the history phase (a recorded
		// deviation may depend on what the process evaluated before)
		pre, cl := histInputs(r)
		for k := range pre {
			if cl[k] {
				evalInput(r, pre[k])
			}
		}
		runQual(r, c)
	case "shared":
		replayShared(r, c)
	case "qnhist":
		replayHist(r, c)
	default:
		fmt.Println("MACHINERY: unknown case kind in replay:", c.Kind)
		os.Exit(2)
	}
	flushAll(r)
	cleanup()
	r.Finish(mon.Coverage{Evaluations: 2, DistinctNontrivial: 2, Rule: "replay of one recorded case"})
}

var scratch string

func boot(p025Block uint64) {
	if p025Block == 0 {
		p025Block = p025
	}
	scratch = env.ScratchDir("verif-c16-")
	env.BootServices(env.Forks{P025: p025Block})
	if err := initTorsion(); err != nil {
		fmt.Println("MACHINERY: torsion setup:", err)
		os.Exit(2)
	}
}

func cleanup() {
	mon.CleanWork()
	if strings.Contains(scratch, "verif-c16-") {
		os.Chdir("/")
		os.RemoveAll(scratch)
	}
}

func main() {
	if args, ok := mon.IsChildInvocation(); ok && len(args) > 0 && args[0] == "shared" {
		sharedChild(args)
		return
	}
	if args, ok := mon.IsChildInvocation(); ok && len(args) > 0 && args[0] == "qn" {
		histChild(args)
		return
	}
	r := mon.Start("C16")
	if p := mon.ReplayArg(); p != "" {
		replay(r, p)
		return
	}
	boot(p025)
	workers := runtime.NumCPU()

	// ---- D1. shared-message groups, first history: one goroutine, cold process
	groups := sharedGroups(r)
	for g := range groups {
		sharedFirstPass(r, &groups[g])
	}
	phase("D1 shared first pass")

	// ---- H1. quality number against process history: mixed sequence, one goroutine, before
	// anything else has called validateProve
	hist := histSequence(r)
	phase("H1 qn history sequence")

	// ---- A. honest proofs, bit flips, crafted proofs over seeded keys/messages
	nKeys := r.Pick(2000, 100000)
	nMsgs := 3
	fullFlipPairs := r.Pick(200, 2000)
	sampledFlips := r.Pick(60, 80)
	forgePairs := r.Pick(400, 6000)
	type pair struct{ i, j int }
	pairs := make([]pair, 0, nKeys*nMsgs)
	for i := 0; i < nKeys; i++ {
		for j := 0; j < nMsgs; j++ {
			pairs = append(pairs, pair{i, j})
		}
	}
	keys := make([][]byte, nKeys)
	mon.Parallel(nKeys, workers, func(i int) {
		pk, sk := keyFromSeed(r, "key", i)
		if !bytes.Equal(pk, sk[32:]) {
			r.Note("VRFGenerateKey: public key differs from sk[32:]")
		}
		keys[i] = sk
	})
	fullStride := len(pairs) / fullFlipPairs
	forgeStride := len(pairs) / forgePairs
	mon.Parallel(len(pairs), workers, func(n int) {
		p := pairs[n]
		sk := keys[p.i]
		m := genMsg(r, p.i, p.j)
		if p.j == 2 && p.i%4 == 0 {
			m = append([]byte{}, groups[(p.i/4)%len(groups)].Msg...)
			r.Count("single_key_pairs_on_shared_messages", 1)
		}
		hc := Case{Kind: "honest", SK: sk, Msg: m}
		pi := runHonest(r, hc)
		r.Distinct("honest", sk, m)
		if pi == nil {
			return
		}
		fs := newFlipStats()
		fc := Case{Kind: "flip", SK: sk, Msg: m}
		doFlip := func(target string, bit int) { fs.do(r, fc, pi, target, bit) }
		if n%fullStride == 0 && len(m) <= 100 {
			r.Count("full_flip_sets", 1)
			for b := 0; b < 640; b++ {
				doFlip("proof", b)
			}
			for b := 0; b < 256; b++ {
				doFlip("pk", b)
			}
			for b := 0; b < len(m)*8; b++ {
				doFlip("msg", b)
			}
		} else {
			rng := r.Rand("flips", n)
			for k := 0; k < sampledFlips; k++ {
				switch t := rng.Intn(10); {
				case t < 6:
					doFlip("proof", rng.Intn(640))
				case t < 8 || len(m) == 0:
					doFlip("pk", rng.Intn(256))
				default:
					doFlip("msg", rng.Intn(len(m)*8))
				}
			}
		}
		fs.flush(r)
		if n%forgeStride == 0 {
			r.Count("forge_pairs", 1)
			forgeAll(r, sk, m, pi, n)
		}
	})

	phase("A honest/flip/forge")
	// ---- B. transport: search for proofs starting with 1, 2 (3) zero bytes
	wantZeros := r.Pick(2, 3)
	hits := searchZeroLead(r, wantZeros, r.Pick(2, 1), r.Pick(12, 1200))
	shortFlipFull := r.Pick(12, 60)
	nDeep := 0
	for _, h := range hits {
		if h.zeros >= wantZeros {
			nDeep++
		}
	}
	phase("B search")
	r.Count("zero_lead_hits", int64(len(hits)))
	mon.Parallel(len(hits), workers, func(n int) {
		h := hits[n]
		c := Case{Kind: "honest", SK: h.sk, Msg: h.msg}
		pi := runHonest(r, c)
		if pi == nil {
			return
		}
		z := leadZeros(pi)
		r.Distinct("honest_zero_lead", h.sk, h.msg)
		if z != h.zeros {
			r.Count("search_prove_disagree", 1)
			r.Note("search predicted %d leading zero bytes, ECVRFProve gave %d (msg %x)", h.zeros, z, h.msg)
			return
		}
		r.Count(fmt.Sprintf("zero_lead_proofs_z=%d", z), 1)
		if z >= 2 || n < shortFlipFull || n%16 == 0 {
			// every single-bit mutant of the transported (shortened) form and of the 80-byte form
			fs := newFlipStats()
			fc := Case{Kind: "flip", SK: h.sk, Msg: h.msg}
			for b := 0; b < (80-z)*8; b++ {
				fs.do(r, fc, pi, "short-proof", b)
			}
			for b := 0; b < 640; b++ {
				fs.do(r, fc, pi, "proof", b)
			}
			fs.flush(r)
			forgeAll(r, h.sk, h.msg, pi, 1000000+n)
		}
	})
	for z := 1; z <= wantZeros; z++ {
		if r.Get(fmt.Sprintf("transport_lead_zero_bytes=%d", z)) == 0 {
			r.Inconclusive("no honest proof with %d leading zero byte(s) found in %d candidates", z, r.Get("zero_lead_search_candidates"))
		}
	}

	phase("B zero-lead proofs")
	if n := r.Get("observed_helper_VRFProve2Value_differs_from_output"); n > 0 {
		r.Note("observation (not judged): consensus.ConsensusHelperImpl.VRFProve2Value(header prove value) differed from VRFProof2Hash of the carried proof for %d of %d honest proofs that start with a zero byte (no left padding before taking the first 32 bytes)",
			n, n+r.Get("observed_helper_VRFProve2Value_equals_output"))
	}
	// ---- D2/D3. shared-message groups again: after phases A and B touched tens of thousands of
	// other messages (opposite key order), and in a fresh child process
	for g := range groups {
		sharedLaterPass(r, &groups[g], "later in the same process, keys in the opposite order")
	}
	phase("D2 shared later pass")
	sharedRunChild(r, groups)
	phase("D3 shared child")
	// ---- C. qualification rule
	stakes := []uint64{0, 1, 2, 3, 14, 15, 19, 20, 24, 25, 26, 100, 2000, 40000, 1000000, 1 << 53, 1<<53 + 1, 1 << 63}
	if r.Thorough() {
		rng := r.Rand("stakes")
		for i := 0; i < 60; i++ {
			stakes = append(stakes, 1+uint64(rng.Int63n(1<<uint(1+rng.Intn(50)))))
		}
	}
	sw := uint64(p025) + common.GetRewardBlocks()
	heights := []uint64{1, sw - 1, sw, sw + 1, sw + 1000000}
	var qcases []Case
	cfg := 0
	for _, ts := range stakes {
		wms := []uint64{0, 1, 2, 3, 7, ts / 2, ts, ts + 1}
		seenCfg := map[string]bool{}
		for _, h := range heights {
			for _, wm := range wms {
				// configurations that differ only in arguments the rule ignores still run (totality),
				// but with the reduced random set
				_, diff, _ := exactStakeRatio(h, wm, ts, p025)
				key := fmt.Sprint(diff)
				first := !seenCfg[key]
				seenCfg[key] = true
				cs := qualCases(r, h, wm, ts, cfg)
				if !first && !r.Thorough() {
					// keep the threshold probes for j = MaxQN and j = 1 only
					var keep []Case
					for _, c := range cs {
						if strings.HasPrefix(c.Near, fmt.Sprintf("floor(%d*", model.Param.MaxQN)) || strings.HasPrefix(c.Near, "floor(1*") || c.Near == "0" || c.Near == "2^256-1" {
							keep = append(keep, c)
						}
					}
					cs = keep
				}
				qcases = append(qcases, cs...)
				cfg++
			}
		}
	}
	phase("C case generation")
	r.Count("qual_configurations", int64(cfg))
	mon.Parallel(len(qcases), workers, func(i int) {
		c := qcases[i]
		runQual(r, c)
		r.DistinctHash("qual", hash64(c.Proof[:32], u64(c.Height), u64(c.WorkingMiners), u64(c.TotalStake)))
	})
	phase("C qualification")
	// ---- H2/H3. the history inputs again at the end of the run, and each alone in a fresh process
	hist.histFinal(r)
	hist.histChildren(r)
	phase("H2/H3 qn history end + children")
	flushAll(r)

	// samples
	if len(pairs) > 0 {
		r.Sample(Case{Kind: "honest", SK: keys[0], Msg: genMsg(r, 0, 0)})
		r.Sample(Case{Kind: "flip", SK: keys[0], Msg: genMsg(r, 0, 0), Target: "proof", Bit: 255})
		r.Sample(Case{Kind: "forge", SK: keys[0], Msg: genMsg(r, 0, 0), Variant: "small-order", J: 4})
	}
	for _, h := range hits {
		if h.zeros >= 2 {
			r.Sample(Case{Kind: "honest", SK: h.sk, Msg: h.msg, Near: fmt.Sprintf("proof starts with %d zero bytes", h.zeros)})
			break
		}
	}
	if len(qcases) > 0 {
		r.Sample(qcases[len(qcases)/2])
	}
	cleanup()

	mutants := r.Get("mutants_accepted") + r.Get("mutants_rejected")
	crafted := int64(r.DistinctCount("crafted"))
	evals := r.Get("honest_verifies") + r.Get("transport_verifies") + mutants + crafted + r.Get("qual_checks") + r.Get("qual_checks_zero_stake") +
		r.Get("shared_verifies") + r.Get("shared_cross_key_verifies") + r.Get("shared_history_compares") + r.Get("hist_evaluations") + r.Get("hist_child_evaluations")
	must := []string{"honest_verifies", "transport_verifies_shortened", "transport_qualification_checks", "mutants_rejected",
		"mutant_verifies_proof", "mutant_verifies_pk", "mutant_verifies_msg", "mutant_verifies_short-proof",
		"small_order_proofs_cT_is_O", "crafted_verifies_small-order", "crafted_verifies_s-plus-q", "crafted_verifies_overlong",
		"qual_checks", "qual_qualified", "qual_not_qualified", "determinism_checks",
		"transport_lead_zero_bytes=1", "transport_lead_zero_bytes=2",
		"shared_groups", "shared_reprove_checks", "shared_history_compares", "shared_cross_key_rejected", "shared_child_groups", "single_key_pairs_on_shared_messages",
		"hist_evaluations", "hist_clamped_evaluations", "hist_reevaluations_after_clamped", "hist_child_evaluations", "calQn_direct_calls", "qual_qn_equals_exact_floor"}
	if r.Thorough() {
		must = append(must, "transport_lead_zero_bytes=3")
	}
	r.Finish(mon.Coverage{
		Evaluations:        evals,
		DistinctNontrivial: r.Get("distinct_mutants") + crafted + int64(r.DistinctCount("qual")) + int64(r.DistinctCount("honest_zero_lead")) + int64(r.DistinctCount("shared")),
		Rule: "seeded ed25519 VRF keys x 3 messages (lengths 0..300, mostly 32): prove twice, verify, big.Int transport + verify + validateProve equality; " +
			"single-bit mutants of proof/pk/message (full sets on a stride of pairs, seeded samples elsewhere); whole 65536-candidate blocks searched (H5: hash-to-curve + x*H) for proofs whose encoding starts with 1,2(,3) zero bytes, these also mutated in their shortened form; " +
			"crafted proofs by the harness as prover knowing the key: (Gamma+E,c,s) for the 7 non-trivial small-order E with the nonce ground until c mod ord(E) equals the guess (0 and non-0), s+q, over-long, zero-prefixed, truncated; " +
			"validateProve on synthetic proofs whose first 32 bytes sit at, +-1, -2, +-2^k around floor(j*min(stakeRatio,1)/MaxQN*(2^256-1)), j=1..MaxQN, plus 0,1,2^256-2,2^256-1 and seeded random values, for totalStake in the design list x workingMiners x heights around Proposal025+rewardBlocks, each called twice. " +
			"shared-message groups: 4-16 key pairs prove/verify one message interleaved in one goroutine at process start (key 0 before anyone else touched it, re-proved after other keys' turns, cross-key verification must fail), again in the opposite key order after the rest of the run, and in a fresh child process; proofs must be byte-identical across the three histories and verify in each; a quarter of the third messages of the single-key workload reuse these shared messages. " +
			"qn history: a seeded single-goroutine sequence in which every input (stake ratio > 1 by tiny stake or few working miners, = 1, just below 1, ordinary; two qualifying values each) is evaluated 4-5 times at different positions through validateProve and calQn, once more at the end of the run, and alone in a fresh child process; all results of an input must be equal and equal the exact rule. " +
			"Non-trivial: mutants, crafted proofs, zero-leading honest proofs, qualification probes and (key, shared message) pairs (distinct by content); ordinary honest proofs are the control",
		Assumptions: []string{
			"oracle arithmetic (math/big Int/Rat) is exact",
			"stakeRatio is recomputed as difficulty*clamp(totalStake*PotentialProposalIndex/100, PotentialProposal, PotentialProposalMax)/totalStake from model.Param; configurations whose operands the node cannot represent (uint64 wrap, difficulty*potential >= 2^63, totalStake not a float64 integer) are judged against the node's own calcStakeRatio (qn range and determinism only)",
			"the quality number of a qualifying proof must be within [1,MaxQN], equal to the exact rule of the code (stake ratio clamped to 1, step = ratio/MaxQN, floor(valueRatio/step)+1 capped at MaxQN) on every evaluation, and independent of what the process evaluated before; qn of non-qualifying proofs is not judged",
			"validateProve is judged as a total function of the proof bytes: the probe values are synthetic first-32-byte values, not outputs of verifiable proofs",
			"keys are honest key pairs from VRFGenerateKey (small-order public keys are outside the statement)",
		},
		MustObserve: must,
	})
}

var phaseT = time.Now()

// phase prints section timings when VERIF_TIMING is set (diagnostics only).
func phase(name string) {
	if os.Getenv("VERIF_TIMING") != "" {
		fmt.Fprintf(os.Stderr, "timing: %-28s %.1fs\n", name, time.Since(phaseT).Seconds())
	}
	phaseT = time.Now()
}

func u64(v uint64) []byte {
	var b [8]byte
	binary.BigEndian.PutUint64(b[:], v)
	return b[:]
}

func hash64(parts ...[]byte) uint64 {
	h := sha256.New()
	for _, p := range parts {
		var l [4]byte
		binary.BigEndian.PutUint32(l[:], uint32(len(p)))
		h.Write(l[:])
		h.Write(p)
	}
	return binary.BigEndian.Uint64(h.Sum(nil)[:8])
}

func gcd(a, b int) int {
	for b != 0 {
		a, b = b, a%b
	}
	return a
}
