// Shared-message workload: several key pairs prove and verify the SAME message
// (the realistic case: every proposer signs the same previous random value),
// interleaved in one goroutine, then again after the rest of the run has touched
// tens of thousands of other messages, and once more in a fresh child process with
// the keys in the opposite order. A proof is a function of (key, message) only, so
// all three histories must give byte-identical proofs, every proof must verify in
// every history, and no proof may verify under another group's member key.
package main

import (
	"bytes"
	"encoding/json"
	"fmt"
	"io/ioutil"
	"os"
	"path/filepath"
	"time"

	"com.tuntun.rangers/node/src/consensus/vrf"

	"verifharness/mon"
)

type sharedGroup struct {
	SKs    []mon.Hex `json:"sks"`
	Msg    mon.Hex   `json:"msg"`
	Proofs []mon.Hex `json:"proofs,omitempty"` // proof of key k in the first history (parent, key 0 first)
}

// sharedGroups is a pure function of the seed and the tier.
func sharedGroups(r *mon.Run) []sharedGroup {
	n := r.Pick(160, 2000)
	gs := make([]sharedGroup, n)
	for g := range gs {
		rng := r.Rand("shared-group", g)
		k := 4 + rng.Intn(13)
		for i := 0; i < k; i++ {
			_, sk := keyFromSeed(r, "shared-key", g, i)
			gs[g].SKs = append(gs[g].SKs, mon.Hex(sk))
		}
		l := 32
		switch g % 8 {
		case 5:
			l = 33
		case 6:
			l = 1 + rng.Intn(100)
		case 7:
			l = 0
		}
		m := make([]byte, l)
		rng.Read(m)
		if l == 0 {
			m = []byte{}
		}
		gs[g].Msg = m
	}
	return gs
}

func sharedCase(g *sharedGroup, k int, first, second []byte, near string) Case {
	return Case{Kind: "shared", Keys: g.SKs, Msg: g.Msg, J: k, Proof: first, Extra: second, Near: near}
}

// sharedFirstPass: key 0 proves before any other key has touched the message, then
// the other keys prove, interleaved with verification of the earlier proofs.
func sharedFirstPass(r *mon.Run, g *sharedGroup) {
	k := len(g.SKs)
	m := []byte(g.Msg)
	g.Proofs = make([]mon.Hex, k)
	r.Guard("C16:shared", sharedCase(g, 0, nil, nil, "first pass"), func() {
		prove := func(i int) []byte {
			sk := vrf.VRFPrivateKey(g.SKs[i])
			p, err := vrf.VRFGenProve(pkOf(sk), sk, append([]byte{}, m...))
			r.Count("shared_proves", 1)
			if err != nil {
				r.Violation("C16:prove:failed", fmt.Sprintf("VRFGenProve err=%v", err), sharedCase(g, i, nil, nil, "first pass"))
			}
			return p
		}
		verify := func(i int, p []byte, when string) {
			ok, err := vrf.VRFVerify(pkOf(g.SKs[i]), vrf.VRFProve(p), m)
			r.Count("shared_verifies", 1)
			if !ok {
				r.Violation("C16:verify:honest-rejected:shared-message",
					fmt.Sprintf("honest proof of key %d rejected %s (%d keys share the message; err=%v)", i, when, k, err), sharedCase(g, i, p, nil, when))
			}
		}
		a0 := prove(0) // before any other key touched m
		g.Proofs[0] = a0
		for i := 1; i < k; i++ {
			g.Proofs[i] = prove(i)
			if i == 1 {
				verify(0, a0, "after one other key proved the same message")
			}
			// re-prove with key 0 after every other key's turn and compare with the untouched-history proof
			if i == 1 || i == k-1 || i%4 == 0 {
				again := prove(0)
				r.Count("shared_reprove_checks", 1)
				if !bytes.Equal(again, a0) {
					r.Violation("C16:prove:depends-on-other-keys-history",
						fmt.Sprintf("key 0 proves the message differently after %d other key(s) proved it", i), sharedCase(g, 0, a0, again, "first pass"))
				}
			}
		}
		outs := map[string]int{}
		for i := 0; i < k; i++ {
			if g.Proofs[i] == nil {
				continue
			}
			verify(i, g.Proofs[i], "after all keys of the group proved the same message")
			// a proof must not verify under another member's key
			j := (i + 1) % k
			ok, _ := vrf.VRFVerify(pkOf(g.SKs[j]), vrf.VRFProve(g.Proofs[i]), m)
			r.Count("shared_cross_key_verifies", 1)
			if ok {
				r.Violation("C16:verify:other-key-accepted", fmt.Sprintf("proof of key %d verifies under key %d for the shared message", i, j), sharedCase(g, i, g.Proofs[i], nil, "cross-key"))
			} else {
				r.Count("shared_cross_key_rejected", 1)
			}
			outs[string(vrf.VRFProof2Hash(vrf.VRFProve(g.Proofs[i])))]++
			r.Distinct("shared", g.SKs[i], m)
		}
		r.Count("shared_outputs_distinct_per_key", int64(len(outs)))
		r.Count("shared_groups", 1)
	})
}

// sharedLaterPass re-proves in the opposite key order in a different history (after
// the process touched many other messages, or in a fresh process) and compares
// with the proofs of the first history.
func sharedLaterPass(r *mon.Run, g *sharedGroup, history string) {
	k := len(g.SKs)
	m := []byte(g.Msg)
	r.Guard("C16:shared", sharedCase(g, 0, nil, nil, history), func() {
		for i := k - 1; i >= 0; i-- {
			first := []byte(g.Proofs[i])
			if first == nil {
				continue
			}
			sk := vrf.VRFPrivateKey(g.SKs[i])
			now, _ := vrf.VRFGenProve(pkOf(sk), sk, append([]byte{}, m...))
			r.Count("shared_proves", 1)
			r.Count("shared_history_compares", 1)
			differs := !bytes.Equal(now, first)
			if differs {
				r.Count("shared_history_proof_mismatches", 1)
				r.Violation("C16:prove:depends-on-other-keys-history",
					fmt.Sprintf("key %d of %d proves the shared message differently %s than when key 0 had touched the message first", i, k, history), sharedCase(g, i, first, now, history))
			}
			okOld, err := vrf.VRFVerify(pkOf(sk), vrf.VRFProve(first), m)
			r.Count("shared_verifies", 1)
			if !okOld {
				r.Count("shared_history_old_proof_rejected", 1)
				r.Violation("C16:verify:honest-rejected:shared-message",
					fmt.Sprintf("honest proof of key %d (accepted in the first history) rejected %s (err=%v)", i, history, err), sharedCase(g, i, first, now, history))
			}
			if differs {
				okNew, _ := vrf.VRFVerify(pkOf(sk), vrf.VRFProve(now), m)
				r.Count("shared_verifies", 1)
				if okNew && !bytes.Equal(vrf.VRFProof2Hash(vrf.VRFProve(now)), vrf.VRFProof2Hash(vrf.VRFProve(first))) {
					r.Violation("C16:vrf:second-output-accepted:shared-message",
						fmt.Sprintf("key %d: two proofs with different outputs were each accepted for the shared message (first history / %s)", i, history), sharedCase(g, i, first, now, history))
				}
			}
		}
	})
}

// touchOtherMessages proves n unrelated messages with one key (used by the replay
// to put distance between two passes; the full run has phases A and B in between).
func touchOtherMessages(r *mon.Run, n int) {
	_, sk := keyFromSeed(r, "shared-flood-key")
	for i := 0; i < n; i++ {
		m := []byte(fmt.Sprintf("c16-unrelated-message-%d", i))
		vrf.VRFGenProve(pkOf(sk), sk, m)
	}
}

// sharedChild runs in a fresh process: reads the groups with the first-history
// proofs and replays them in the opposite key order.
func sharedChild(args []string) {
	r := mon.Start("C16")
	if len(args) < 2 {
		fmt.Println("usage: --child shared <file>")
		os.Exit(2)
	}
	b, err := ioutil.ReadFile(args[1])
	if err != nil {
		fmt.Println("MACHINERY:", err)
		os.Exit(2)
	}
	var gs []sharedGroup
	if err := json.Unmarshal(b, &gs); err != nil {
		fmt.Println("MACHINERY:", err)
		os.Exit(2)
	}
	for g := range gs {
		r.CaseBegin([]byte(fmt.Sprintf("shared group %d", g)))
		sharedLaterPass(r, &gs[g], "in a fresh process with the keys in the opposite order")
		r.Count("shared_child_groups", 1)
	}
	r.Finish(mon.Coverage{Evaluations: int64(len(gs))})
}

// sharedRunChild hands the first-history proofs to a fresh child process.
func sharedRunChild(r *mon.Run, gs []sharedGroup) {
	b, _ := json.Marshal(gs)
	f := filepath.Join(mon.WorkDir(), "shared-groups.json")
	if err := ioutil.WriteFile(f, b, 0644); err != nil {
		r.Inconclusive("cannot write %s: %v", f, err)
		return
	}
	res := r.RunChild(mon.ChildSpec{Label: "shared", Args: []string{"shared", f}, Timeout: time.Duration(r.Pick(120, 900)) * time.Second})
	r.Absorb(res, "C16:shared-child")
}

// replayShared re-runs one recorded shared-message case in this (fresh) process:
// the recorded key proves first (nobody else has touched the message), then every
// other key, then unrelated messages, then everything again in the opposite order;
// and once more in a child process. The proofs recorded in the witness are not
// consulted (they are artefacts of the tree the witness was recorded on).
func replayShared(r *mon.Run, c Case) {
	g := sharedGroup{SKs: c.Keys, Msg: c.Msg}
	if c.J < 0 || c.J >= len(g.SKs) {
		fmt.Println("MACHINERY: bad key index in replay")
		os.Exit(2)
	}
	sk := vrf.VRFPrivateKey(g.SKs[c.J])
	iso, _ := vrf.VRFGenProve(pkOf(sk), sk, append([]byte{}, c.Msg...))
	if ok, err := vrf.VRFVerify(pkOf(sk), vrf.VRFProve(iso), []byte(c.Msg)); !ok {
		r.Violation("C16:verify:honest-rejected:shared-message", fmt.Sprintf("isolated honest proof rejected (err=%v)", err), c)
	}
	// rotate so that the recorded key is key 0 of the first pass
	rot := sharedGroup{Msg: g.Msg}
	rot.SKs = append(rot.SKs, g.SKs[c.J:]...)
	rot.SKs = append(rot.SKs, g.SKs[:c.J]...)
	sharedFirstPass(r, &rot)
	touchOtherMessages(r, 2000)
	sharedLaterPass(r, &rot, "after 2000 unrelated messages")
	if !bytes.Equal(rot.Proofs[0], iso) {
		r.Violation("C16:prove:depends-on-other-keys-history", "proof differs from the one computed first in this fresh process", c)
	}
	sharedRunChild(r, []sharedGroup{rot})
}
