// C02 — the state trie root is the canonical Merkle-Patricia commitment of its content.
//
// Monitor: the REAL storage/trie package (Trie on a MemDatabase-backed
// NodeDatabase) is driven through generated and exhaustively enumerated
// histories of update / delete / empty-write / get / hash / commit /
// trieDB.Commit+reopen / reopen from the node cache / SetCacheLimit / Cap.
// Oracle: a map key->value plus the independent reference root of
// verifharness/ref/mptref (own RLP, own hex-prefix, x/crypto Keccak; validated
// at start-up against the published Ethereum trie vectors).
//
//	(a) Hash()/Commit() == reference root of the current content
//	(b) TryGet == last value written (absent after delete / empty write)
//	(c) iteration == exactly the live pairs, each once, bytewise ascending for
//	    keys that are not prefixes of one another, one fixed relative order for
//	    prefix-related keys (identical on re-iteration, after reopen, and
//	    whenever the same two keys are met again in the history).
//	(d) iteration that starts at a key (Trie.NodeIterator(start), the path of
//	    AccountDB.DataIterator(addr, prefix)) == exactly the live pairs with
//	    key >= start, in the order of the full iteration; tried for existing
//	    keys, proper prefixes (where a branch/extension sits), keys between two
//	    neighbours, below the first, above the last, extensions of keys and
//	    deleted keys, on the live trie and right after every reopen.
//	(e) every iteration also RETAINS the slices handed out in Iterator.Key /
//	    Iterator.Value (as the in-tree consumers do) and compares them with the
//	    copies taken when they were handed out: after the iteration finished,
//	    and again after the next mutation + Hash/Commit of the trie.
//
// The code under test runs in child processes (one shard of the case list per
// child); every case is logged before it is executed.
package main

import (
	"bytes"
	"encoding/json"
	"fmt"
	"io/ioutil"
	"math/rand"
	"os"
	"path/filepath"
	"runtime"
	"runtime/debug"
	"sort"
	"strconv"
	"time"

	"com.tuntun.rangers/node/src/common"
	"com.tuntun.rangers/node/src/middleware/db"
	"com.tuntun.rangers/node/src/storage/trie"

	"verifharness/mon"
	"verifharness/ref/mptref"
)

// ---------------------------------------------------------------------------
// histories

// Op kinds: put (non-empty value), del (TryDelete), pute (TryUpdate with an
// empty value; N=1: nil, N=0: []byte{}), get, hash, commit (Trie.Commit),
// rdisk (Trie.Commit + NodeDatabase.Commit + fresh NodeDatabase over the same
// MemDatabase + NewTrie), rmem (Trie.Commit + NewTrie on the same NodeDatabase),
// limit (SetCacheLimit N), cap (NodeDatabase.Cap(0): flush the node cache to
// disk), check (get every key of the history + iterate).
type Op struct {
	O string  `json:"o"`
	K mon.Hex `json:"k,omitempty"`
	V mon.Hex `json:"v,omitempty"`
	N int     `json:"n,omitempty"`
}

// MarshalJSON always writes "k" for the ops that take a key (the empty key is a
// legal key and would otherwise vanish from the witness).
func (o Op) MarshalJSON() ([]byte, error) {
	m := map[string]interface{}{"o": o.O}
	switch o.O {
	case "put", "del", "pute", "get":
		m["k"] = o.K
	}
	if len(o.V) > 0 {
		m["v"] = o.V
	}
	if o.N != 0 {
		m["n"] = o.N
	}
	return json.Marshal(m)
}

type History struct {
	Label     string `json:"label"`      // where the generator produced it
	EveryStep bool   `json:"every_step"` // Hash() + get of the touched key after every mutating op
	Ops       []Op   `json:"ops"`
	FailStep  int    `json:"fail_step,omitempty"`
}

type fail struct {
	Sig, What string
	Step      int
	Stack     string
}

type stats map[string]int64

// exhMemo caches reference roots of the 3^4 contents of an exhaustive universe.
type exhMemo struct {
	keyIdx map[string]int
	valIdx map[string]int
	digits [4]int
	table  [81]*refInfo
	tick   int              // history ordinal: the iterate-from-start checks run on every 6th history
	rot    int              // rotation of the start keys tried right after a reopen
	starts map[int][][]byte // start keys per subset of universe keys occurring in a history
}

type refInfo struct {
	root [32]byte
	st   mptref.Stats
}

func (m *exhMemo) index() int {
	return m.digits[0] + 3*m.digits[1] + 9*m.digits[2] + 27*m.digits[3]
}

type exec struct {
	mem   *db.MemDatabase
	ndb   *trie.NodeDatabase
	t     *trie.Trie
	model map[string][]byte
	uni   [][]byte // every key occurring in the history, sorted
	limit int
	st    stats
	memo  *exhMemo
	every bool

	ref       *refInfo // reference of the current model (nil = stale)
	pairFirst map[string]bool
	collapses int
	reopens   int

	retained *retained // slices handed out by the most recent iteration, re-checked after the next mutation + hash
	retMut   bool      // the content changed since that iteration
}

func (e *exec) refNow() *refInfo {
	if e.ref != nil {
		return e.ref
	}
	if e.memo != nil {
		i := e.memo.index()
		if e.memo.table[i] == nil {
			root, st := mptref.RootStats(e.model)
			e.memo.table[i] = &refInfo{root, st}
		}
		e.ref = e.memo.table[i]
		return e.ref
	}
	root, st := mptref.RootStats(e.model)
	e.ref = &refInfo{root, st}
	return e.ref
}

func (e *exec) rootIs(entry string, got common.Hash) *fail {
	want := e.refNow()
	e.st["root_checks"]++
	if !bytes.Equal(got[:], want.root[:]) {
		return &fail{Sig: "C02:" + entry + ":root-mismatch",
			What: fmt.Sprintf("%s = %x but the reference MPT root of the %d live pairs is %x", entry, got[:], len(e.model), want.root[:])}
	}
	if e.retained != nil && e.retMut { // the trie was mutated and hashed since the last iteration handed out its slices
		rt := e.retained
		e.retained = nil
		return rt.verify(e, "mutation")
	}
	return nil
}

func (e *exec) getCheck(k []byte) *fail {
	got, err := e.t.TryGet(k)
	e.st["get_checks"]++
	if err != nil {
		return &fail{Sig: "C02:TryGet:error", What: fmt.Sprintf("TryGet(%x): %v", k, err)}
	}
	want, live := e.model[string(k)]
	switch {
	case !live && len(got) != 0:
		return &fail{Sig: "C02:TryGet:absent-key-has-value", What: fmt.Sprintf("TryGet(%x) = %x but the key was deleted / never written", k, got)}
	case live && len(got) == 0:
		return &fail{Sig: "C02:TryGet:live-key-missing", What: fmt.Sprintf("TryGet(%x) = nothing, last write was %x", k, want)}
	case live && !bytes.Equal(got, want):
		return &fail{Sig: "C02:TryGet:wrong-value", What: fmt.Sprintf("TryGet(%x) = %x, last write was %x", k, got, want)}
	}
	if live {
		e.st["get_hits"]++
	} else {
		e.st["get_absent"]++
	}
	return nil
}

type pair struct{ k, v []byte }

// retained is the second collection mode of every iteration: the very slices
// the Iterator handed out in Key / Value (no copy), kept like the in-tree
// consumers keep them (map keys / collected keys in getAllRefund), next to the
// copies taken at the moment they were handed out. Iterator.Key / Iterator.Value
// carry no "do not retain" restriction (NodeIterator.LeafKey / LeafBlob do, and
// the driver never retains those).
type retained struct {
	start      []byte
	rawK, rawV [][]byte
	seq        []pair
}

// verify compares the retained slices with the copies; when is "next" (right
// after the iteration finished) or "mutation" (after a later mutation + hash).
func (rt *retained) verify(e *exec, when string) *fail {
	if when == "next" {
		e.st["iter_retained_checks_after_next"]++
	} else {
		e.st["iter_retained_checks_after_mutation"]++
	}
	e.st["iter_retained_slices"] += int64(2 * len(rt.seq))
	for i, p := range rt.seq {
		if !bytes.Equal(rt.rawK[i], p.k) {
			return &fail{Sig: "C02:iter:retained-key-changed-after-" + when,
				What: fmt.Sprintf("iteration from %x: the slice handed out as Iterator.Key for leaf #%d was %x when handed out and reads %x now (%d leaves iterated)", rt.start, i, p.k, rt.rawK[i], len(rt.seq))}
		}
		if !bytes.Equal(rt.rawV[i], p.v) {
			return &fail{Sig: "C02:iter:retained-value-changed-after-" + when,
				What: fmt.Sprintf("iteration from %x: the slice handed out as Iterator.Value for key %x was %x when handed out and reads %x now", rt.start, p.k, p.v, rt.rawV[i])}
		}
	}
	return nil
}

// keep records one (Key, Value) as handed out: the slices themselves and copies.
func (rt *retained) keep(it *trie.Iterator) pair {
	rt.rawK = append(rt.rawK, it.Key)
	rt.rawV = append(rt.rawV, it.Value)
	p := pair{append([]byte{}, it.Key...), append([]byte{}, it.Value...)}
	rt.seq = append(rt.seq, p)
	return p
}

// done: the iteration has finished; judge the retained slices now and keep them for the next mutation.
func (rt *retained) done(e *exec) *fail {
	if f := rt.verify(e, "next"); f != nil {
		return f
	}
	e.retained, e.retMut = rt, false
	return nil
}

func (e *exec) iterate() ([]pair, *fail) {
	it := trie.NewIterator(e.t.NodeIterator(nil))
	rt := &retained{}
	for it.Next() {
		rt.keep(it)
		if len(rt.seq) > len(e.model)+len(e.uni)+4 {
			return rt.seq, &fail{Sig: "C02:iterate:not-live-set", What: fmt.Sprintf("iterator produced more than %d leaves for %d live pairs", len(rt.seq)-1, len(e.model))}
		}
	}
	if it.Err != nil {
		return rt.seq, &fail{Sig: "C02:iterate:error", What: "iterator error: " + it.Err.Error()}
	}
	if f := rt.done(e); f != nil {
		return rt.seq, f
	}
	return rt.seq, nil
}

func isPrefix(a, b []byte) bool { return len(a) <= len(b) && bytes.Equal(a, b[:len(a)]) }

func (e *exec) iterCheck() ([]pair, *fail) {
	seq, f := e.iterate()
	if f != nil {
		return nil, f
	}
	e.st["iterate_checks"]++
	e.st["iterated_pairs"] += int64(len(seq))
	seen := map[string]bool{}
	for _, p := range seq {
		if seen[string(p.k)] {
			return nil, &fail{Sig: "C02:iterate:not-live-set", What: fmt.Sprintf("iterator returned key %x twice", p.k)}
		}
		seen[string(p.k)] = true
		want, live := e.model[string(p.k)]
		if !live {
			return nil, &fail{Sig: "C02:iterate:not-live-set", What: fmt.Sprintf("iterator returned key %x (value %x) which is not live", p.k, p.v)}
		}
		if !bytes.Equal(want, p.v) {
			return nil, &fail{Sig: "C02:iterate:not-live-set", What: fmt.Sprintf("iterator returned %x -> %x, last write was %x", p.k, p.v, want)}
		}
	}
	if len(seq) != len(e.model) {
		for k := range e.model {
			if !seen[k] {
				return nil, &fail{Sig: "C02:iterate:not-live-set", What: fmt.Sprintf("iterator returned %d of %d live pairs; %x is missing", len(seq), len(e.model), k)}
			}
		}
	}
	for i := 0; i < len(seq); i++ {
		for j := i + 1; j < len(seq); j++ {
			a, b := seq[i].k, seq[j].k
			if isPrefix(a, b) || isPrefix(b, a) {
				// prefix-related: the relative position only has to be one fixed order
				lo, hi := a, b
				shortFirst := true
				if len(a) > len(b) {
					lo, hi, shortFirst = b, a, false
				}
				id := string(lo) + "\x00|" + strconv.Itoa(len(lo)) + "|" + string(hi)
				if prev, ok := e.pairFirst[id]; ok {
					if prev != shortFirst {
						return nil, &fail{Sig: "C02:iterate:prefix-order-unstable",
							What: fmt.Sprintf("keys %x and %x were iterated in one order earlier in this history and in the other order now", lo, hi)}
					}
				} else {
					e.pairFirst[id] = shortFirst
				}
				e.st["iter_prefix_pairs"]++
				continue
			}
			e.st["iter_ordered_pairs"]++
			if bytes.Compare(a, b) >= 0 {
				return nil, &fail{Sig: "C02:iterate:order", What: fmt.Sprintf("iterator returned %x before %x (neither is a prefix of the other)", a, b)}
			}
		}
	}
	return seq, nil
}

func sameSeq(a, b []pair) bool {
	if len(a) != len(b) {
		return false
	}
	for i := range a {
		if !bytes.Equal(a[i].k, b[i].k) || !bytes.Equal(a[i].v, b[i].v) {
			return false
		}
	}
	return true
}

func (e *exec) fullCheck() *fail {
	e.st["full_checks"]++
	for _, k := range e.uni {
		if f := e.getCheck(k); f != nil {
			return f
		}
	}
	s1, f := e.iterCheck()
	if f != nil {
		return f
	}
	s2, f := e.iterate()
	if f != nil {
		return f
	}
	if !sameSeq(s1, s2) {
		return &fail{Sig: "C02:iterate:nondeterministic", What: "two consecutive iterations of the same trie returned different sequences"}
	}
	if e.memo != nil && e.memo.tick%6 != 0 {
		return nil
	}
	for _, s := range e.startKeys(s1) {
		if f := e.iterFromCheck(s, s1); f != nil {
			return f
		}
	}
	return nil
}

// ---------------------------------------------------------------------------
// iteration that starts at a key: Trie.NodeIterator(start)

func lcp(a, b []byte) int {
	i := 0
	for i < len(a) && i < len(b) && a[i] == b[i] {
		i++
	}
	return i
}

func cat(a []byte, b ...byte) []byte { return append(append([]byte{}, a...), b...) }

// betweenCand returns a key strictly between k1 < k2 (bytewise), or nil.
func betweenCand(k1, k2 []byte) []byte {
	if n := len(k2); n > 0 {
		var s []byte
		if k2[n-1] > 0 {
			s = cat(k2[:n-1], k2[n-1]-1)
		} else {
			s = cat(k2[:n-1])
		}
		if bytes.Compare(k1, s) < 0 && bytes.Compare(s, k2) < 0 {
			return s
		}
	}
	if s := cat(k1, 0x00); bytes.Compare(s, k2) < 0 {
		return s
	}
	return nil
}

// belowCand returns a key bytewise below first, or nil for the empty key.
func belowCand(first []byte) []byte {
	n := len(first)
	if n == 0 {
		return nil
	}
	if first[n-1] > 0 {
		return cat(first[:n-1], first[n-1]-1)
	}
	return cat(first[:n-1])
}

// aboveCand returns a key bytewise above last and above every key starting with last's bytes up to the bumped one.
func aboveCand(last []byte) []byte {
	for i, b := range last {
		if b != 0xff {
			return cat(last[:i], b+1)
		}
	}
	return cat(last, 0xff)
}

func addStart(out *[][]byte, s []byte) {
	for _, o := range *out {
		if bytes.Equal(o, s) {
			return
		}
	}
	*out = append(*out, s)
}

// allStarts: every structurally interesting start key around a small sorted key set.
func allStarts(keys [][]byte) [][]byte {
	var out [][]byte
	addStart(&out, nil)
	for i, k := range keys {
		addStart(&out, k)
		for _, l := range []int{1, len(k) / 2, len(k) - 1} {
			if l >= 1 && l < len(k) {
				addStart(&out, cat(k[:l]))
			}
		}
		if i+1 < len(keys) {
			if l := lcp(k, keys[i+1]); l >= 1 {
				addStart(&out, cat(k[:l]))
			}
			if s := betweenCand(k, keys[i+1]); s != nil {
				addStart(&out, s)
			}
		}
		addStart(&out, cat(k, 0x00))
		addStart(&out, cat(k, 0xff))
	}
	if len(keys) > 0 {
		if s := belowCand(keys[0]); s != nil {
			addStart(&out, s)
		}
		addStart(&out, aboveCand(keys[len(keys)-1]))
	}
	return out
}

// startKeys proposes the start keys for the current state. It is a pure
// function of the history's key universe and the live content (so a replayed
// or minimised history tries the same keys for the same content).
func (e *exec) startKeys(full []pair) [][]byte {
	if e.memo != nil { // exhaustive tier: the complete list for the (<= 4) keys of this history
		mask := 0
		for _, k := range e.uni {
			mask |= 1 << uint(e.memo.keyIdx[string(k)])
		}
		if e.memo.starts == nil {
			e.memo.starts = map[int][][]byte{}
		}
		st, ok := e.memo.starts[mask]
		if !ok {
			st = allStarts(e.uni)
			e.memo.starts[mask] = st
		}
		return st
	}
	live := make([][]byte, len(full))
	x := uint64(1469598103934665603)
	for i, p := range full {
		live[i] = p.k
	}
	sort.Slice(live, func(i, j int) bool { return bytes.Compare(live[i], live[j]) < 0 })
	for _, k := range live {
		for _, c := range k {
			x = (x ^ uint64(c)) * 1099511628211
		}
		x = (x ^ 0x1ff) * 1099511628211
	}
	next := func(n int) int {
		x ^= x << 13
		x ^= x >> 7
		x ^= x << 17
		return int(x % uint64(n))
	}
	var out [][]byte
	n := len(live)
	if len(e.uni) > 0 {
		addStart(&out, e.uni[next(len(e.uni))]) // a key of the history, live or deleted
	}
	if n == 0 {
		addStart(&out, []byte{0x80})
	} else {
		addStart(&out, live[next(n)])
		addStart(&out, live[next(n)])
		if k := live[next(n)]; len(k) >= 2 {
			addStart(&out, cat(k[:1+next(len(k)-1)])) // a proper prefix
		}
		for r := 0; r < 2 && n >= 2; r++ {
			i := next(n - 1)
			if l := lcp(live[i], live[i+1]); l >= 1 {
				addStart(&out, cat(live[i][:l])) // where two neighbours part: a branch/extension sits here
			}
			if s := betweenCand(live[i], live[i+1]); s != nil {
				addStart(&out, s)
			}
		}
		if s := belowCand(live[0]); s != nil {
			addStart(&out, s)
		}
		addStart(&out, aboveCand(live[n-1]))
		addStart(&out, cat(live[next(n)], byte(next(256))))
		addStart(&out, cat(live[next(n)], 0x00))
		if next(4) == 0 {
			addStart(&out, nil)
		}
	}
	if len(e.uni) <= 4 {
		for _, s := range allStarts(e.uni) {
			addStart(&out, s)
		}
	}
	return out
}

// countStartCategories classifies a start key against the live keys (categories overlap).
func (e *exec) countStartCategories(start []byte, full []pair) {
	if len(start) == 0 {
		e.st["iter_from_empty_start"]++
		return
	}
	if len(full) == 0 {
		e.st["iter_from_on_empty_trie"]++
		return
	}
	existing, prefix, ext, below, above := false, false, false, true, true
	for _, p := range full {
		switch {
		case bytes.Equal(p.k, start):
			existing = true
		case isPrefix(start, p.k):
			prefix = true
		case isPrefix(p.k, start) && len(p.k) > 0:
			ext = true
		}
		if c := bytes.Compare(p.k, start); c <= 0 {
			below = false
		} else {
			above = false
		}
	}
	if existing {
		e.st["iter_from_existing_key"]++
		return
	}
	if prefix {
		e.st["iter_from_proper_prefix_of_key"]++
	}
	if ext {
		e.st["iter_from_extension_of_key"]++
	}
	switch {
	case below:
		e.st["iter_from_below_first"]++
	case above && !prefix:
		e.st["iter_from_above_last"]++
	case !prefix:
		e.st["iter_from_between_neighbours"]++
	}
}

// iterFromCheck: the pairs iterated from start must be exactly the live pairs
// with key >= start, in the order the (already verified) full iteration gives.
// key >= start is bytewise. Live keys that are proper prefixes of start are
// bytewise smaller but sort after start in the trie's terminator order; they
// are judged by their position relative to start in the full iteration when
// start is itself live, and are not judged (either way) when it is not.
func (e *exec) iterFromCheck(start []byte, full []pair) *fail {
	e.st["iter_from_checks"]++
	e.countStartCategories(start, full)
	it := trie.NewIterator(e.t.NodeIterator(start))
	var obs []pair
	obsAt := map[string]int{}
	rt := &retained{start: start}
	for it.Next() {
		p := rt.keep(it)
		k := p.k
		if _, dup := obsAt[string(k)]; dup {
			return &fail{Sig: "C02:iter-from:extra-pair", What: fmt.Sprintf("iteration from %x returned key %x twice", start, k)}
		}
		obsAt[string(k)] = len(obs)
		obs = append(obs, p)
		if len(obs) > len(full)+4 {
			return &fail{Sig: "C02:iter-from:extra-pair", What: fmt.Sprintf("iteration from %x produced more than %d leaves for %d live pairs", start, len(obs)-1, len(full))}
		}
	}
	if it.Err != nil {
		return &fail{Sig: "C02:iter-from:error", What: fmt.Sprintf("iteration from %x: %v", start, it.Err)}
	}
	if f := rt.done(e); f != nil {
		return f
	}
	e.st["iter_from_pairs"] += int64(len(obs))
	posS := -1
	for i, p := range full {
		if bytes.Equal(p.k, start) {
			posS = i
		}
	}
	var exp []pair
	for i, p := range full {
		switch {
		case bytes.Compare(p.k, start) >= 0:
			exp = append(exp, p)
		case isPrefix(p.k, start): // proper prefix of start
			if posS >= 0 {
				if i > posS {
					exp = append(exp, p)
				}
			} else {
				e.st["iter_from_unjudged_prefix_keys"]++
				if _, there := obsAt[string(p.k)]; there {
					exp = append(exp, p)
				}
			}
		}
	}
	expAt := map[string]int{}
	for i, p := range exp {
		expAt[string(p.k)] = i
	}
	for _, p := range obs {
		i, ok := expAt[string(p.k)]
		if !ok {
			return &fail{Sig: "C02:iter-from:extra-pair", What: fmt.Sprintf("iteration from %x returned key %x which is not a live key >= start (%d live pairs)", start, p.k, len(full))}
		}
		if !bytes.Equal(exp[i].v, p.v) {
			return &fail{Sig: "C02:iter-from:extra-pair", What: fmt.Sprintf("iteration from %x returned %x -> %x, last write was %x", start, p.k, p.v, exp[i].v)}
		}
	}
	for _, p := range exp {
		if _, ok := obsAt[string(p.k)]; !ok {
			return &fail{Sig: "C02:iter-from:missing-pair",
				What: fmt.Sprintf("iteration from %x returned %d of the %d live pairs with key >= start; %x is missing (full iteration has %d pairs)", start, len(obs), len(exp), p.k, len(full))}
		}
	}
	if !sameSeq(obs, exp) {
		return &fail{Sig: "C02:iter-from:order", What: fmt.Sprintf("iteration from %x returned the right pairs in another order than the full iteration", start)}
	}
	return nil
}

// mutated is called after the model changed (or not) by a mutating op.
func (e *exec) mutated(kind string, k []byte, before *refInfo, changed bool) *fail {
	if changed {
		e.ref = nil
		e.retMut = true
		after := e.refNow()
		if after.st.Branches < before.st.Branches {
			e.collapses++
			e.st["branch_collapses"]++
		}
		if after.st.Branches > before.st.Branches {
			e.st["branch_splits"]++
		}
		if after.st.Extensions < before.st.Extensions && after.st.Branches == before.st.Branches {
			e.st["extension_merges"]++
		}
		if after.st.BranchValues < before.st.BranchValues {
			e.st["branch_value_removed"]++
		}
		if after.st.BranchValues > before.st.BranchValues {
			e.st["branch_value_added"]++
		}
		if after.st.Embedded > 0 {
			e.st["contents_with_embedded_nodes"]++
		}
		if after.st.Hashed > 0 {
			e.st["contents_with_hashed_nodes"]++
		}
		if after.st.BranchValues > 0 {
			e.st["contents_with_value_at_branch"]++
		}
		e.st["ref_nodes_len31"] += int64(after.st.Len31)
		e.st["ref_nodes_len32"] += int64(after.st.Len32)
		if int64(after.st.Keys) > e.st["max_live_keys"] {
			e.st["max_live_keys"] = int64(after.st.Keys)
		}
	} else {
		e.st["noop_mutations"]++
	}
	if e.every {
		if f := e.rootIs("Hash", e.t.Hash()); f != nil {
			return f
		}
		if f := e.getCheck(k); f != nil {
			return f
		}
	}
	return nil
}

func (e *exec) commit(entry string) (common.Hash, *fail) {
	root, err := e.t.Commit(nil)
	if err != nil {
		return root, &fail{Sig: "C02:Commit:error", What: "Trie.Commit: " + err.Error()}
	}
	if f := e.rootIs("Commit", root); f != nil {
		return root, f
	}
	return root, nil
}

func (e *exec) reopened(root common.Hash, before []pair) *fail {
	e.reopens++
	e.t.SetCacheLimit(uint16(e.limit))
	if got := e.t.Hash(); got != root {
		return &fail{Sig: "C02:reopen:root-changed", What: fmt.Sprintf("trie reopened at %x reports Hash() %x", root[:], got[:])}
	}
	if f := e.rootIs("Hash", e.t.Hash()); f != nil {
		return f
	}
	after, f := e.iterCheck()
	if f != nil {
		return f
	}
	if !sameSeq(before, after) {
		return &fail{Sig: "C02:iterate:nondeterministic", What: "iteration order of the same content differs before and after commit+reopen"}
	}
	// iterate from start keys on the freshly reopened trie (every node still has to be resolved from the database)
	starts := e.startKeys(after)
	if e.memo != nil && len(starts) > 2 {
		e.memo.rot++
		o := (e.memo.rot * 2) % len(starts)
		starts = [][]byte{starts[o], starts[(o+1)%len(starts)]}
	}
	for _, s := range starts {
		e.st["iter_from_after_reopen"]++
		if f := e.iterFromCheck(s, after); f != nil {
			return f
		}
	}
	return nil
}

func (e *exec) apply(op Op) *fail {
	e.st[opCounter[op.O]]++
	switch op.O {
	case "put":
		if len(op.V) == 0 {
			return nil
		}
		before := e.refNow()
		if err := e.t.TryUpdate(append([]byte{}, op.K...), append([]byte{}, op.V...)); err != nil {
			return &fail{Sig: "C02:TryUpdate:error", What: fmt.Sprintf("TryUpdate(%x): %v", []byte(op.K), err)}
		}
		old, had := e.model[string(op.K)]
		changed := !had || !bytes.Equal(old, op.V)
		if had && changed {
			e.st["overwrites"]++
		}
		e.model[string(op.K)] = op.V
		if e.memo != nil {
			e.memo.digits[e.memo.keyIdx[string(op.K)]] = 1 + e.memo.valIdx[string(op.V)]
		}
		return e.mutated("put", op.K, before, changed)
	case "del", "pute":
		before := e.refNow()
		var err error
		if op.O == "del" {
			err = e.t.TryDelete(append([]byte{}, op.K...))
		} else if op.N == 1 {
			err = e.t.TryUpdate(append([]byte{}, op.K...), nil)
		} else {
			err = e.t.TryUpdate(append([]byte{}, op.K...), []byte{})
		}
		if err != nil {
			return &fail{Sig: "C02:TryDelete:error", What: fmt.Sprintf("%s(%x): %v", op.O, []byte(op.K), err)}
		}
		_, had := e.model[string(op.K)]
		delete(e.model, string(op.K))
		if had {
			e.st["deletes_of_live_key"]++
		}
		if e.memo != nil {
			e.memo.digits[e.memo.keyIdx[string(op.K)]] = 0
		}
		return e.mutated(op.O, op.K, before, had)
	case "get":
		return e.getCheck(op.K)
	case "hash":
		return e.rootIs("Hash", e.t.Hash())
	case "commit":
		_, f := e.commit("Commit")
		return f
	case "rdisk", "rmem":
		before, f := e.iterCheck()
		if f != nil {
			return f
		}
		root, f := e.commit("Commit")
		if f != nil {
			return f
		}
		if op.O == "rdisk" {
			if err := e.ndb.Commit(root, false); err != nil {
				return &fail{Sig: "C02:reopen:error", What: "NodeDatabase.Commit: " + err.Error()}
			}
			e.ndb = trie.NewDatabase(e.mem) // empty node cache: everything is decoded from the stored RLP
		}
		t, err := trie.NewTrie(root, e.ndb)
		if err != nil {
			return &fail{Sig: "C02:reopen:error", What: fmt.Sprintf("NewTrie(%x) after %s: %v", root[:], op.O, err)}
		}
		e.t = t
		return e.reopened(root, before)
	case "limit":
		e.limit = op.N
		e.t.SetCacheLimit(uint16(op.N))
	case "cap":
		if err := e.ndb.Cap(0); err != nil {
			return &fail{Sig: "C02:Cap:error", What: "NodeDatabase.Cap(0): " + err.Error()}
		}
	case "check":
		return e.fullCheck()
	}
	return nil
}

// run executes one history against the real trie and returns the first refutation.
func run(h *History, st stats, memo *exhMemo) (f *fail) {
	step, cur := -1, "init"
	defer func() {
		if p := recover(); p != nil {
			stk := string(debug.Stack())
			if len(stk) > 3000 {
				stk = stk[:3000]
			}
			f = &fail{Sig: "C02:" + opEntry[cur] + ":panic:" + mon.PanicSite(stk), What: fmt.Sprintf("panic during %s: %v", cur, p), Step: step, Stack: stk}
		}
	}()
	mem, _ := db.NewMemDatabase()
	e := &exec{mem: mem, ndb: trie.NewDatabase(mem), model: map[string][]byte{}, st: st, memo: memo,
		every: h.EveryStep, pairFirst: map[string]bool{}}
	if memo != nil {
		memo.digits = [4]int{}
	}
	t, err := trie.NewTrie(common.Hash{}, e.ndb)
	if err != nil {
		return &fail{Sig: "C02:NewTrie:error", What: err.Error(), Step: -1}
	}
	e.t = t
	ks := map[string]bool{}
	for _, op := range h.Ops {
		if op.O == "put" || op.O == "del" || op.O == "pute" || op.O == "get" {
			if !ks[string(op.K)] {
				ks[string(op.K)] = true
				e.uni = append(e.uni, op.K)
			}
		}
	}
	sort.Slice(e.uni, func(i, j int) bool { return bytes.Compare(e.uni[i], e.uni[j]) < 0 })
	for i, op := range h.Ops {
		step, cur = i, op.O
		if f := e.apply(op); f != nil {
			f.Step = i
			return f
		}
	}
	step, cur = len(h.Ops), "final"
	if f := e.rootIs("Hash", e.t.Hash()); f != nil {
		f.Step = step
		return f
	}
	if f := e.fullCheck(); f != nil {
		f.Step = step
		return f
	}
	st["histories"]++
	if e.collapses > 0 && e.reopens > 0 {
		st["nontrivial_last"] = 1
	} else {
		st["nontrivial_last"] = 0
	}
	return nil
}

// minimize shrinks a failing history while the same signature still fires.
func minimize(h History, f *fail) (History, *fail) {
	try := func(c History) *fail {
		g := run(&c, stats{}, nil)
		if g != nil && g.Sig == f.Sig {
			return g
		}
		return nil
	}
	cur, best := h, f
	if f.Step >= 0 && f.Step < len(h.Ops) {
		c := h
		c.Ops = append([]Op{}, h.Ops[:f.Step+1]...)
		if g := try(c); g != nil {
			cur, best = c, g
		}
	}
	for pass, changed := 0, true; changed && pass < 8; pass++ {
		changed = false
		for i := len(cur.Ops) - 1; i >= 0; i-- {
			c := cur
			c.Ops = append(append([]Op{}, cur.Ops[:i]...), cur.Ops[i+1:]...)
			if g := try(c); g != nil {
				cur, best, changed = c, g, true
			}
		}
	}
	return cur, best
}

// ---------------------------------------------------------------------------
// generators (pure functions of seed and index)

var specialBytes = []byte{0x00, 0x01, 0x7f, 0x80, 0xc0, 0xff}

func genValue(rng *rand.Rand) []byte {
	var l int
	switch x := rng.Intn(100); {
	case x < 22:
		if rng.Intn(2) == 0 {
			return []byte{specialBytes[rng.Intn(len(specialBytes))]}
		}
		l = 1
	case x < 62:
		l = 2 + rng.Intn(33) // 2..34: sweeps the 32-byte node boundary for every key remainder
	case x < 74:
		l = 31 + rng.Intn(3)
	case x < 86:
		l = 55 + rng.Intn(2)
	case x < 91:
		l = 300
	case x < 96:
		l = 20
	default:
		l = 8
	}
	v := make([]byte, l)
	if rng.Intn(4) == 0 {
		c := byte(rng.Intn(256))
		for i := range v {
			v[i] = c
		}
	} else {
		rng.Read(v)
	}
	return v
}

var alphabets = [][]byte{{0, 1}, {0, 15}, {7, 8}, {1, 2}, {0, 1, 15}, {3, 4, 12}, {0, 8, 15}, {14, 15}}

func addKey(set map[string]bool, out *[][]byte, k []byte, max int) {
	if len(*out) >= max || set[string(k)] {
		return
	}
	set[string(k)] = true
	*out = append(*out, append([]byte{}, k...))
}

func tinyUniverse(rng *rand.Rand, big bool, set map[string]bool, out *[][]byte, max int) {
	alpha := alphabets[rng.Intn(len(alphabets))]
	if rng.Intn(4) == 0 {
		alpha = []byte{byte(rng.Intn(16)), byte(rng.Intn(16)), byte(rng.Intn(16))}
	}
	maxLen := 1 + rng.Intn(3)
	n := 4 + rng.Intn(29)
	if big {
		maxLen, n = 3, 40+rng.Intn(25)
	}
	for tries := 0; tries < 6*n && n > 0; tries++ {
		l := rng.Intn(maxLen + 1)
		if l == 0 && rng.Intn(3) != 0 {
			continue
		}
		k := make([]byte, l)
		for i := range k {
			k[i] = alpha[rng.Intn(len(alpha))]<<4 | alpha[rng.Intn(len(alpha))]
		}
		before := len(*out)
		addKey(set, out, k, max)
		if len(*out) > before {
			n--
		}
	}
}

func prefixUniverse(rng *rand.Rand, set map[string]bool, out *[][]byte, max int) {
	base := make([]byte, 33)
	rng.Read(base)
	if rng.Intn(2) == 0 {
		alpha := alphabets[rng.Intn(len(alphabets))]
		for i := range base {
			base[i] = alpha[rng.Intn(len(alpha))]<<4 | alpha[rng.Intn(len(alpha))]
		}
	}
	lens := []int{0, 1, 2, 3, 4, 8, 9, 20, 21, 31, 32}
	for _, l := range lens {
		if rng.Intn(3) == 0 {
			continue
		}
		addKey(set, out, base[:l], max)
		if l > 0 && rng.Intn(2) == 0 {
			s := append([]byte{}, base[:l]...)
			if rng.Intn(2) == 0 {
				s[l-1] ^= 0x01
			} else {
				s[l-1] ^= 0x10
			}
			addKey(set, out, s, max)
		}
		if rng.Intn(3) == 0 {
			addKey(set, out, append(append([]byte{}, base[:l]...), byte(rng.Intn(256))), max)
		}
	}
	if rng.Intn(2) == 0 {
		// the shapes the node itself uses in one trie: one-letter keys and letter + 8-byte height
		for _, c := range []byte("cpd") {
			addKey(set, out, []byte{c}, max)
			for _, hgt := range []uint64{0, 1, 2, 255, 256} {
				if rng.Intn(2) == 0 {
					k := []byte{c, 0, 0, 0, 0, 0, 0, byte(hgt >> 8), byte(hgt)}
					addKey(set, out, k, max)
				}
			}
		}
	}
}

func longUniverse(rng *rand.Rand, L int, n int, set map[string]bool, out *[][]byte, max int) {
	base := make([]byte, L)
	rng.Read(base)
	mine := [][]byte{base}
	addKey(set, out, base, max)
	for i := 1; i < n; i++ {
		k := append([]byte{}, mine[rng.Intn(len(mine))]...)
		var p int
		switch rng.Intn(6) {
		case 0:
			p = 0
		case 1:
			p = 1
		case 2:
			p = 2*L - 1
		case 3:
			p = 2*L - 2
		default:
			p = rng.Intn(2 * L)
		}
		nib := byte(1 + rng.Intn(15))
		if p%2 == 0 {
			k[p/2] ^= nib << 4
		} else {
			k[p/2] ^= nib
		}
		if rng.Intn(2) == 0 && p/2+1 < L {
			rng.Read(k[p/2+1:])
		}
		mine = append(mine, k)
		addKey(set, out, k, max)
	}
}

func genUniverse(rng *rand.Rand, kind int, big bool) [][]byte {
	set := map[string]bool{}
	var out [][]byte
	nLong := 4 + rng.Intn(28)
	if big {
		nLong = 40 + rng.Intn(25)
	}
	switch kind {
	case 0:
		tinyUniverse(rng, big, set, &out, 64)
	case 1:
		prefixUniverse(rng, set, &out, 48)
		if big {
			tinyUniverse(rng, false, set, &out, 64)
		}
	case 2:
		longUniverse(rng, 20, nLong, set, &out, 64)
	case 3:
		longUniverse(rng, 32, nLong, set, &out, 64)
	default:
		tinyUniverse(rng, false, set, &out, 12)
		prefixUniverse(rng, set, &out, 24)
		longUniverse(rng, 20, 2+rng.Intn(6), set, &out, 32)
		longUniverse(rng, 32, 2+rng.Intn(6), set, &out, 40)
		if big {
			longUniverse(rng, 32, 30, set, &out, 64)
		}
	}
	if len(out) < 2 {
		addKey(set, &out, []byte{0x12}, 64)
		addKey(set, &out, []byte{0x13}, 64)
	}
	return out
}

var phaseWeights = map[string][]int{
	//           put del pute get hash commit rdisk rmem limit cap
	"grow":   {70, 5, 2, 6, 5, 4, 3, 2, 1, 2},
	"shrink": {10, 50, 12, 6, 6, 5, 4, 3, 2, 2},
	"churn":  {35, 20, 5, 10, 8, 7, 5, 4, 3, 3},
}
var opCounter = map[string]string{"put": "op_put", "del": "op_del", "pute": "op_pute", "get": "op_get", "hash": "op_hash", "commit": "op_commit",
	"rdisk": "op_rdisk", "rmem": "op_rmem", "limit": "op_limit", "cap": "op_cap", "check": "op_check"}

// opEntry names the API entry point an op exercises (used in panic signatures).
var opEntry = map[string]string{"init": "NewTrie", "put": "TryUpdate", "del": "TryDelete", "pute": "TryUpdate", "get": "TryGet", "hash": "Hash",
	"commit": "Commit", "rdisk": "reopen", "rmem": "reopen", "limit": "SetCacheLimit", "cap": "Cap", "check": "check", "final": "check"}
var opNames = []string{"put", "del", "pute", "get", "hash", "commit", "rdisk", "rmem", "limit", "cap"}
var phaseNames = []string{"grow", "shrink", "churn"}

func genRandom(seed int64, idx int) History {
	rng := mon.NewRand(seed, "c02-random", idx)
	kind := idx % 5
	big := idx%8 == 7
	uni := genUniverse(rng, kind, big)
	pool := make([][]byte, 2+rng.Intn(5))
	for i := range pool {
		pool[i] = genValue(rng)
	}
	h := History{Label: fmt.Sprintf("random/%d/universe-kind-%d", idx, kind), EveryStep: rng.Intn(2) == 0}
	live := map[string]bool{}
	var liveList func() [][]byte
	liveList = func() [][]byte {
		var l [][]byte
		for _, k := range uni {
			if live[string(k)] {
				l = append(l, k)
			}
		}
		return l
	}
	nOps := 20 + rng.Intn(61)
	if big { // long histories over up to 64 keys: reach the 64-live-key bound, deep cache generations
		nOps = 100 + rng.Intn(201)
	}
	phase := "grow"
	nextPhase := 6 + rng.Intn(14)
	checkEvery := 4 + rng.Intn(8)
	for i := 0; i < nOps; i++ {
		if i == nextPhase {
			phase = phaseNames[rng.Intn(3)]
			nextPhase = i + 6 + rng.Intn(14)
		}
		w := phaseWeights[phase]
		tot := 0
		for _, x := range w {
			tot += x
		}
		x := rng.Intn(tot)
		o := 0
		for x >= w[o] {
			x -= w[o]
			o++
		}
		op := Op{O: opNames[o]}
		switch op.O {
		case "put":
			op.K = uni[rng.Intn(len(uni))]
			if rng.Intn(10) < 7 {
				op.V = pool[rng.Intn(len(pool))]
			} else {
				op.V = genValue(rng)
			}
			live[string(op.K)] = true
		case "del", "pute":
			if l := liveList(); len(l) > 0 && rng.Intn(10) < 8 {
				op.K = l[rng.Intn(len(l))]
			} else {
				op.K = uni[rng.Intn(len(uni))]
			}
			op.N = rng.Intn(2)
			delete(live, string(op.K))
		case "get":
			op.K = uni[rng.Intn(len(uni))]
		case "limit":
			op.N = rng.Intn(4)
		}
		h.Ops = append(h.Ops, op)
		if (i+1)%checkEvery == 0 {
			h.Ops = append(h.Ops, Op{O: "check"})
		}
	}
	if rng.Intn(10) < 3 { // drain: the trie must come back to the empty root through every collapse
		l := liveList()
		rng.Shuffle(len(l), func(i, j int) { l[i], l[j] = l[j], l[i] })
		for _, k := range l {
			h.Ops = append(h.Ops, Op{O: "del", K: k})
			switch rng.Intn(12) {
			case 0:
				h.Ops = append(h.Ops, Op{O: "commit"})
			case 1:
				h.Ops = append(h.Ops, Op{O: "rdisk"})
			case 2:
				h.Ops = append(h.Ops, Op{O: "rmem"})
			}
		}
	}
	return h
}

// exhaustive tier: 4 keys x {put v0, put v1, delete}
type exhUniverse struct {
	name string
	keys [4][]byte
	vals [2][]byte
}

func rep(b byte, n int) []byte { return bytes.Repeat([]byte{b}, n) }

func exhUniverses() []exhUniverse {
	a32 := rep(0xaa, 32)
	k1 := append([]byte{}, a32...)
	k1[31] = 0xab // differs in the last nibble
	k2 := append([]byte{}, a32...)
	k2[31] = 0xba // differs in the second-to-last nibble
	k3 := append([]byte{}, a32...)
	k3[0] = 0x1a // differs in the first nibble
	return []exhUniverse{
		// short keys, one a prefix of another; a 29-byte value makes the leaf under the
		// 0x11/0x12 branch exactly 32 bytes of RLP (smallest hashed node), 1 byte gives embedded nodes
		{"A-short-prefix", [4][]byte{{0x11}, {0x12}, {0x11, 0x23}, {0x31}}, [2][]byte{{0x01}, rep(0x61, 29)}},
		// 32-byte storage-slot style keys with long shared prefixes
		{"B-32byte-slots", [4][]byte{a32, k1, k2, k3}, [2][]byte{{0x80}, rep(0x62, 32)}},
		// the empty key and a chain of prefixes; 28-byte value: 31-byte leaf (largest embedded node)
		{"C-empty-key-chain", [4][]byte{{}, {0x00}, {0x00, 0x00}, {0x10}}, [2][]byte{{0x00}, rep(0x63, 28)}},
	}
}

func pow(b, e int) int64 {
	r := int64(1)
	for i := 0; i < e; i++ {
		r *= int64(b)
	}
	return r
}

// exhVariants: variant 0 = no reopen; 1+p = rdisk after p ops (p = 0..L);
// L+2+p = rmem after p ops. mode 0: variant 0 only; 1: + rdisk; 2: + rmem.
func exhVariants(L int, mode int) int {
	switch mode {
	case 0:
		return 1
	case 1:
		return L + 2
	}
	return 2*L + 3
}

func genExh(u *exhUniverse, L int, seq int64, variant int) History {
	h := History{Label: fmt.Sprintf("exh/%s/L=%d/seq=%d/variant=%d", u.name, L, seq, variant), EveryStep: true}
	pos, kind := -1, ""
	if variant >= 1 && variant <= L+1 {
		pos, kind = variant-1, "rdisk"
	} else if variant > L+1 {
		pos, kind = variant-L-2, "rmem"
	}
	h.Ops = make([]Op, 0, L+1)
	for i := 0; i <= L; i++ {
		if i == pos {
			h.Ops = append(h.Ops, Op{O: kind})
		}
		if i == L {
			break
		}
		d := int(seq % 12)
		seq /= 12
		k := u.keys[d/3]
		switch d % 3 {
		case 0:
			h.Ops = append(h.Ops, Op{O: "put", K: k, V: u.vals[0]})
		case 1:
			h.Ops = append(h.Ops, Op{O: "put", K: k, V: u.vals[1]})
		default:
			h.Ops = append(h.Ops, Op{O: "del", K: k})
		}
	}
	return h
}

func newMemo(u *exhUniverse) *exhMemo {
	m := &exhMemo{keyIdx: map[string]int{}, valIdx: map[string]int{}}
	for i, k := range u.keys {
		m.keyIdx[string(k)] = i
	}
	for i, v := range u.vals {
		m.valIdx[string(v)] = i
	}
	return m
}

// ---------------------------------------------------------------------------
// child side

type caseDesc struct {
	Tier    string `json:"tier"`
	Idx     int64  `json:"idx"`
	Uni     int    `json:"uni,omitempty"`
	L       int    `json:"l,omitempty"`
	Variant int    `json:"variant,omitempty"`
}

func historyOf(seed int64, c caseDesc) History {
	if c.Tier == "exh" {
		us := exhUniverses()
		return genExh(&us[c.Uni], c.L, c.Idx, c.Variant)
	}
	return genRandom(seed, int(c.Idx))
}

type childState struct {
	r       *mon.Run
	st      stats
	minDone map[string]int
	samples int
}

func (cs *childState) report(h History, f *fail) {
	cs.st["failed_histories"]++
	if cs.minDone[f.Sig] < 3 {
		cs.minDone[f.Sig]++
		h, f = minimize(h, f)
	}
	h.FailStep = f.Step
	var w interface{} = h
	if f.Stack != "" {
		w = map[string]interface{}{"case": h, "panic": f.What, "stack": f.Stack}
	}
	cs.r.Violation(f.Sig, fmt.Sprintf("%s [step %d of %s, %d ops after minimisation]", f.What, f.Step, h.Label, len(h.Ops)), w)
}

func (cs *childState) flush() {
	for k, v := range cs.st {
		if k == "nontrivial_last" {
			continue
		}
		if k == "max_live_keys" {
			cs.r.Max("max_live_keys", v)
			continue
		}
		cs.r.Count(k, v)
	}
}

func histBytes(h *History) []byte {
	b, _ := json.Marshal(h.Ops)
	if h.EveryStep {
		b = append(b, 1)
	}
	return b
}

func childMain(args []string) {
	r := mon.Start("C02")
	if _, err := mptref.SelfCheck(); err != nil {
		fmt.Println("MACHINERY: reference self-check failed:", err)
		os.Exit(2)
	}
	cs := &childState{r: r, st: stats{}, minDone: map[string]int{}}
	atoi := func(s string) int {
		v, err := strconv.Atoi(s)
		if err != nil {
			fmt.Println("MACHINERY: bad child argument", s)
			os.Exit(2)
		}
		return v
	}
	var evals int64
	switch args[0] {
	case "random": // random <shard> <nshards> <total>
		shard, nsh, total := atoi(args[1]), atoi(args[2]), atoi(args[3])
		for i := shard; i < total; i += nsh {
			c := caseDesc{Tier: "random", Idx: int64(i)}
			cb, _ := json.Marshal(c)
			r.CaseBegin(cb)
			h := genRandom(r.Seed, i)
			evals++
			cs.st["histories_random"]++
			if f := run(&h, cs.st, nil); f != nil {
				cs.report(h, f)
				continue
			}
			hb := histBytes(&h)
			r.Distinct("history_random", hb)
			if cs.st["nontrivial_last"] == 1 {
				cs.st["histories_random_nontrivial"]++
				r.Distinct("history_random_nontrivial", hb)
			}
			if cs.samples < 1 && shard < 4 && len(hb) < 1200 {
				cs.samples++
				r.Sample(h)
			}
		}
	case "exh": // exh <universe> <L> <variant mode> <shard> <nshards>
		ui, L, vmode, shard, nsh := atoi(args[1]), atoi(args[2]), atoi(args[3]), atoi(args[4]), atoi(args[5])
		us := exhUniverses()
		u := &us[ui]
		memo := newMemo(u)
		nseq := pow(12, L)
		nv := exhVariants(L, vmode)
		for seq := int64(shard); seq < nseq; seq += int64(nsh) {
			for v := 0; v < nv; v++ {
				c := caseDesc{Tier: "exh", Idx: seq, Uni: ui, L: L, Variant: v}
				cb, _ := json.Marshal(c)
				r.CaseBegin(cb)
				h := genExh(u, L, seq, v)
				memo.tick = int(seq) + v
				evals++
				cs.st["histories_exh"]++
				if f := run(&h, cs.st, memo); f != nil {
					cs.report(h, f)
					continue
				}
				if cs.st["nontrivial_last"] == 1 {
					cs.st["histories_exh_nontrivial"]++
				}
			}
		}
		for _, ri := range memo.table {
			if ri != nil {
				r.Distinct("content_exh", []byte(u.name), ri.root[:])
			}
		}
	case "replay": // replay <file with a History>
		b, err := ioutil.ReadFile(args[1])
		if err != nil {
			fmt.Println("MACHINERY:", err)
			os.Exit(2)
		}
		var h History
		if err := json.Unmarshal(b, &h); err != nil {
			fmt.Println("MACHINERY:", err)
			os.Exit(2)
		}
		r.CaseBegin(b)
		evals++
		if f := run(&h, cs.st, nil); f != nil {
			h.FailStep = f.Step
			var w interface{} = h
			if f.Stack != "" {
				w = map[string]interface{}{"case": h, "panic": f.What, "stack": f.Stack}
			}
			r.Violation(f.Sig, fmt.Sprintf("%s [step %d of %s]", f.What, f.Step, h.Label), w)
		}
	default:
		fmt.Println("MACHINERY: unknown child mode", args)
		os.Exit(2)
	}
	cs.flush()
	r.Finish(mon.Coverage{Evaluations: evals})
}

// ---------------------------------------------------------------------------
// parent side

func replayMain(r *mon.Run, path string) {
	v, err := mon.LoadReplay(path)
	if err != nil {
		fmt.Println("MACHINERY:", err)
		os.Exit(2)
	}
	var h History
	var wrapped struct {
		Case     *History `json:"case"`
		LastCase mon.Hex  `json:"last_case"`
	}
	json.Unmarshal(v.Witness, &wrapped)
	switch {
	case wrapped.Case != nil:
		h = *wrapped.Case
	case len(wrapped.LastCase) > 0: // a child died: the witness is the logged case descriptor
		var c caseDesc
		if err := json.Unmarshal(wrapped.LastCase, &c); err == nil && c.Tier != "" {
			h = historyOf(v.Seed, c)
		} else if err := json.Unmarshal(wrapped.LastCase, &h); err != nil {
			fmt.Println("MACHINERY: cannot read the logged case:", err)
			os.Exit(2)
		}
	default:
		if err := json.Unmarshal(v.Witness, &h); err != nil {
			fmt.Println("MACHINERY: cannot read witness:", err)
			os.Exit(2)
		}
	}
	b, _ := json.Marshal(h)
	f := filepath.Join(mon.WorkDir(), "replay-history.json")
	ioutil.WriteFile(f, b, 0644)
	res := r.RunChild(mon.ChildSpec{Label: "replay", Args: []string{"replay", f}, Timeout: 2 * time.Minute})
	r.Absorb(res, "C02:replay")
	mon.CleanWork()
	r.Finish(mon.Coverage{Evaluations: 1, DistinctNontrivial: 2, Rule: "replay of one recorded history: " + h.Label})
}

func main() {
	if args, ok := mon.IsChildInvocation(); ok {
		childMain(args)
		return
	}
	r := mon.Start("C02")
	nvec, err := mptref.SelfCheck()
	if err != nil {
		fmt.Println("MACHINERY: reference MPT self-check against the published Ethereum vectors failed:", err)
		os.Exit(2)
	}
	r.Count("reference_selfcheck_vectors", int64(nvec))
	if p := mon.ReplayArg(); p != "" {
		replayMain(r, p)
		return
	}

	workers := runtime.NumCPU()
	if workers > 16 {
		workers = 16
	}
	if workers < 2 {
		workers = 2
	}
	nRandom := r.Pick(24000, 500000)
	L := r.Pick(5, 6)
	vmode := r.Pick(1, 2)
	timeout := time.Duration(r.Pick(5, 90)) * time.Minute

	var specs []mon.ChildSpec
	us := exhUniverses()
	var space int64
	addExh := func(ui, L, vmode int) {
		space += pow(12, L) * int64(exhVariants(L, vmode))
		for s := 0; s < workers; s++ {
			specs = append(specs, mon.ChildSpec{Label: fmt.Sprintf("exh-%s-L%d-%d", us[ui].name, L, s), Timeout: timeout,
				Args: []string{"exh", strconv.Itoa(ui), strconv.Itoa(L), strconv.Itoa(vmode), strconv.Itoa(s), strconv.Itoa(workers)}})
		}
	}
	for ui := range us {
		addExh(ui, L, vmode)
	}
	extra := ""
	if r.Thorough() {
		// length 7 is only affordable without the reopen variants, on the universe with the prefix pair
		addExh(0, 7, 0)
		extra = "; additionally every sequence of exactly 7 ops over universe A without reopen"
	}
	for s := 0; s < workers; s++ {
		specs = append(specs, mon.ChildSpec{Label: fmt.Sprintf("random-%d", s), Timeout: timeout,
			Args: []string{"random", strconv.Itoa(s), strconv.Itoa(workers), strconv.Itoa(nRandom)}})
	}
	results := r.RunChildren(specs, workers)
	allOK := true
	for _, res := range results {
		if !r.Absorb(res, "C02:"+res.Spec.Args[0]) {
			allOK = false
		}
	}
	mon.CleanWork()
	r.Count("exh_space_size", space)

	exhaustive := allOK && r.Get("histories_exh") == space && r.Get("failed_histories") == 0
	variantText := "no reopen, or commit + trieDB.Commit + reopen from the MemDatabase after p ops for every p in 0..L"
	if vmode == 2 {
		variantText += ", or commit + reopen from the node cache after p ops for every p"
	}
	variantText += extra
	r.Finish(mon.Coverage{
		Evaluations:        r.Get("histories_random") + r.Get("histories_exh"),
		DistinctNontrivial: int64(r.DistinctCount("history_random_nontrivial")) + r.Get("histories_exh_nontrivial"),
		Exhaustive:         exhaustive,
		Rule: fmt.Sprintf("exhaustive part (complete): every sequence of exactly %d ops from {put v0, put v1, delete} x 4 keys (12^%d sequences; all shorter ones are their prefixes and are judged step by step) "+
			"over 3 four-key universes (short keys with a prefix pair and a 32-byte-RLP leaf; 32-byte slot keys sharing 62/63 nibbles; empty key + prefix chain), each with: %s; root + get checked after every op, full get/iterate at the end. "+
			"sampled part: %d seeded histories of 20-80 ops (+drain) over per-history key universes (tiny nibble alphabets len 0-3; prefix chains incl. the node's own 1-byte / 9-byte key shapes; 20- and 32-byte keys sharing long prefixes; mixed), "+
			"values of 1 (incl. 0x00/0x7f/0x80/0xc0), 2-34, 31-33, 55, 56, 300, 20, 8 bytes; half of them with Hash()+get after every mutation, half only at explicit hash/commit/reopen/check ops; <=64 live keys. "+
			"iteration from a start key: at every full check and right after every reopen (exhaustive part: every 6th history all, after reopen 2 rotating) the pairs from NodeIterator(start) must be exactly the live pairs with key >= start in full-iteration order, "+
			"for start = existing / deleted keys, proper prefixes, where two neighbours part, strictly between neighbours, below first, above last, key+0x00 / key+0xff / key+random byte, empty start. "+
			"every iteration (full, second, before/after reopen, from a start key) also keeps the Iterator.Key / Iterator.Value slices themselves and compares them with immediate copies after the loop and again after the next mutation + Hash/Commit. "+
			"Non-trivial: the history passed through >=1 branch collapse (reference trie lost a branch node on a delete) and >=1 commit+reopen. distinct_nontrivial = distinct random histories (hash of the op list) + exhaustive histories (distinct by construction: universe, sequence index, variant)", L, L, variantText, nRandom),
		Assumptions: []string{
			"reference root: verifharness/ref/mptref, built from the sorted content, self-checked at start-up against the published Ethereum RLP / hex-prefix / Keccak / trietest + trieanyorder vectors",
			"'ascending key order' is read as: bytewise ascending for keys that are not prefixes of one another; one fixed relative order for prefix-related keys (DESIGN C02)",
			"iteration from start: key >= start is bytewise; live keys that are proper prefixes of start (bytewise smaller, but after start in the trie's terminator order) are judged by their position relative to start in the full iteration when start is live and are not judged when it is not (counter iter_from_unjudged_prefix_keys)",
			"the store is the in-memory MemDatabase; durability on LevelDB is C03's subject",
		},
		MustObserve: []string{"reference_selfcheck_vectors", "root_checks", "get_checks", "iterate_checks", "full_checks", "op_put", "op_del", "op_pute", "op_commit",
			"op_rdisk", "op_rmem", "op_limit", "op_cap", "branch_collapses", "branch_splits", "branch_value_added", "branch_value_removed",
			"contents_with_embedded_nodes", "contents_with_hashed_nodes", "ref_nodes_len31", "ref_nodes_len32", "iter_prefix_pairs", "iter_ordered_pairs",
			"iter_from_checks", "iter_from_pairs", "iter_from_after_reopen", "iter_from_existing_key", "iter_from_proper_prefix_of_key", "iter_from_between_neighbours",
			"iter_retained_checks_after_next", "iter_retained_checks_after_mutation", "iter_retained_slices",
			"iter_from_below_first", "iter_from_above_last", "iter_from_extension_of_key", "iter_from_empty_start", "iter_from_on_empty_trie",
			"histories_random_nontrivial", "histories_exh_nontrivial", "get_hits", "get_absent", "overwrites"},
	})
}
