package main

// Entry-point phase of C07. TxPool.VerifyTransaction is only the decision
// procedure; what the property is about is ADMISSION. Transactions reach the pool
// (and, on the gate write path, the latest state) through three entry points:
//
//	runWrite  GameExecutor.runWrite, fed by the AccountDBManager queue (hook H10)
//	bus       GameExecutor.write, subscribed to notify.ClientTransactionWrite
//	peer      WorkerConn.handleMessage, TransactionGotMsg batches (hook H10)
//
// Oracle: after a delivery a transaction is in the pool, or has left an effect on
// the latest state, iff VerifyTransaction accepts that very transaction at the
// height the entry point uses (plus the pool's duplicate rule); honest ones are
// admitted. The mutants are the ones the sequential phase builds (a seeded sample
// per class), so whatever VerifyTransaction itself gets wrong is reported there,
// not here.

import (
	"encoding/json"
	"fmt"
	"runtime"
	"strconv"
	"strings"
	"time"

	"com.tuntun.rangers/node/src/common"
	"com.tuntun.rangers/node/src/core"
	"com.tuntun.rangers/node/src/middleware"
	"com.tuntun.rangers/node/src/middleware/notify"
	"com.tuntun.rangers/node/src/middleware/types"
	"com.tuntun.rangers/node/src/network"
	"com.tuntun.rangers/node/src/service"

	"verifharness/env"
	"verifharness/mon"
)

func bootCore(cfg string) string {
	dir := boot(cfg)         // services + chain ids of the configuration
	common.SetBlockHeight(0) // the dev genesis is built at height 0 (before the gas magnification of Proposal026)
	env.BootCore(env.Forks{}, nil)
	common.SetBlockHeight(10)
	if middleware.AccountDBManagerInstance.LatestStateDB == nil {
		panic("MACHINERY: core booted without a latest state")
	}
	return dir
}

// entryHeight maps the height a case was built for to the height installed at the
// entry point (same side of the chain-id fork; small, so that nothing else changes).
func entryHeight(cfg string, h uint64) uint64 {
	if cfg != cfgA && h >= forkB {
		return 1500
	}
	return 10
}

type entryTx struct {
	tx     *types.Transaction
	h      uint64
	mut    string
	class  string
	honest bool
	typ    int32 // type of the honest base this case was derived from
}

var entryTypes = []int32{0, types.TransactionTypeOperatorEvent, types.TransactionTypeContract, types.TransactionTypeETHTX}

// entryBase builds one honest base of the wanted type with well-formed content (it
// is going to be executed on the gate write path) and the seeded sample of its
// mutants: one per class, judged classes only.
func entryBase(r *mon.Run, cfg string, idx int, typ int32) (honest *entryTx, forged []*entryTx) {
	x := &runner{r: r, cfg: cfg, idx: idx, light: true}
	byClass := map[string][]*entryTx{}
	var order []string
	x.sink = func(mut, class string, judged bool, tx *types.Transaction, h uint64) {
		if mut == "honest" {
			honest = &entryTx{tx: tx, h: h, mut: mut, class: class, honest: true}
			return
		}
		if !judged {
			return
		}
		if _, ok := byClass[class]; !ok {
			order = append(order, class)
		}
		byClass[class] = append(byClass[class], &entryTx{tx: tx, h: h, mut: mut, class: class})
	}
	if typ == types.TransactionTypeETHTX {
		x.kind = "eth"
		b := genEth(r, cfg, 3000000+idx)
		if b.tx == nil {
			return nil, nil
		}
		x.runEth(b)
	} else {
		x.kind = "native"
		b := genNative(r, cfg, 3000000+idx)
		rng := r.Rand("entry-base", idx)
		tx := b.tx
		tx.Type = typ
		tx.Target = randAddrHex(rng)
		tx.Time = strconv.Itoa(idx)
		tx.Data, tx.ExtraData = "", ""
		switch typ {
		case types.TransactionTypeOperatorEvent:
			js, _ := json.Marshal(map[string]types.TransferData{randAddrHex(rng): {Balance: "1"}})
			tx.ExtraData = string(js)
		case types.TransactionTypeContract:
			js, _ := json.Marshal(types.ContractData{GasPrice: "1000000000", GasLimit: "100000", TransferValue: "0", AbiData: "0x"})
			tx.Data = string(js)
		default:
			tx.Data = randText(rng, 1+rng.Intn(40))
		}
		tx.Nonce = uint64(rng.Intn(4))
		tx.Hash = tx.GenHash()
		sg := b.sk.Sign(tx.Hash.Bytes())
		tx.Sign = &sg
		x.runNative(b)
	}
	rng := r.Rand("entry-sample", idx)
	for _, c := range order {
		l := byClass[c]
		forged = append(forged, l[rng.Intn(len(l))])
	}
	if honest != nil {
		honest.typ = typ
	}
	for _, f := range forged {
		f.typ = typ
	}
	return honest, forged
}

// authFP: fingerprint over the authenticated content only (what must be the same
// between the delivered transaction and the one found in the pool).
func authFP(tx *types.Transaction) uint64 {
	c := &types.Transaction{Source: tx.Source, Target: tx.Target, Type: tx.Type, Time: tx.Time, Data: tx.Data,
		ExtraData: tx.ExtraData, Nonce: tx.Nonce, ChainId: tx.ChainId, Hash: tx.Hash, Sign: tx.Sign}
	return fingerprint(c, 0)
}

type entryWitness struct {
	Kind     string  `json:"kind"` // "entry"
	Cfg      string  `json:"cfg"`
	Idx      int     `json:"idx"`
	Mut      string  `json:"mut"`
	Class    string  `json:"class"`
	Entry    string  `json:"entry"`
	Variant  string  `json:"variant"` // runWrite: message combination; peer: arrangement
	Position int     `json:"position"`
	Height   uint64  `json:"height"`
	Verify   string  `json:"verifyTransactionAlone"`
	InPool   bool    `json:"inPoolAfter"`
	Executed bool    `json:"stateEffect"`
	Tx       *txJSON `json:"tx"`
}

type entryPhase struct {
	r     *mon.Run
	pool  service.TransactionPool
	cfg   string
	idx   int
	evals int64
}

func clsName(e *entryTx) string {
	if e.honest {
		return "honest"
	}
	return strings.TrimPrefix(e.class, "accepted-")
}

func (p *entryPhase) wit(e *entryTx, entry, variant string, pos int, h uint64, verr error, inPool, executed bool) *entryWitness {
	return &entryWitness{Kind: "entry", Cfg: p.cfg, Idx: p.idx, Mut: e.mut, Class: e.class, Entry: entry, Variant: variant, Position: pos,
		Height: h, Verify: verdict(verr), InPool: inPool, Executed: executed, Tx: toTxJSON(e.tx)}
}

func (p *entryPhase) alone(tx *types.Transaction, h uint64) (err error) {
	p.r.Guard("C07:entry:verify-alone", toTxJSON(tx), func() { err = p.pool.VerifyTransaction(tx, h) })
	p.evals++
	return
}

// judge compares what happened at an entry point with the verdict of VerifyTransaction.
func (p *entryPhase) judge(e *entryTx, entry, variant string, pos int, h uint64, verr error, inPool, executed bool) {
	r := p.r
	r.Count("entry_"+entry+"_deliveries", 1)
	switch {
	case verr != nil && (inPool || executed):
		what := "admitted to the pool"
		sig := "forged-admitted"
		if !inPool {
			what, sig = "executed on the latest state", "forged-executed"
		}
		r.Count("entry_"+entry+"_forged_admitted", 1)
		r.Violation("C07:entry:"+entry+":"+sig+":"+clsName(e),
			fmt.Sprintf("transaction that VerifyTransaction rejects (%v) was %s through %s [%s], mutation %q", verr, what, entry, variant, e.mut),
			p.wit(e, entry, variant, pos, h, verr, inPool, executed))
	case verr == nil && !inPool:
		r.Count("entry_"+entry+"_accepted_refused", 1)
		sig := "honest-refused"
		if !e.honest {
			sig = "verified-refused:" + clsName(e)
		}
		r.Violation("C07:entry:"+entry+":"+sig,
			fmt.Sprintf("transaction that VerifyTransaction accepts was not admitted through %s [%s], mutation %q", entry, variant, e.mut),
			p.wit(e, entry, variant, pos, h, verr, inPool, executed))
	case verr == nil:
		if e.honest {
			r.Count("entry_"+entry+"_honest_admitted", 1)
		} else {
			// e.g. the known pre-EIP-155 acceptance: the entry point agrees with VerifyTransaction
			r.Count("entry_"+entry+"_nonhonest_admitted_as_verify_says", 1)
		}
	default:
		r.Count("entry_"+entry+"_forged_refused", 1)
		r.Count("entry_forged_refused:"+clsName(e), 1)
	}
}

func sourceNonce(tx *types.Transaction) uint64 {
	return middleware.AccountDBManagerInstance.LatestStateDB.GetNonce(common.HexToAddress(tx.Source))
}

// inPoolAs reports whether the pool holds a transaction with this hash and whether
// its authenticated content is the delivered one.
func (p *entryPhase) inPoolAs(tx *types.Transaction) (present, same bool) {
	if !p.pool.IsExisted(tx.Hash) {
		return false, false
	}
	got, err := p.pool.GetTransaction(tx.Hash)
	if err != nil || got == nil {
		return true, false
	}
	return true, authFP(got) == authFP(tx)
}

type writeCombo struct {
	user      string
	nonce     uint64
	gateNonce uint64
}

func (c writeCombo) String() string {
	return fmt.Sprintf("user=%q,nonce=%d,gateNonce=%d", c.user, c.nonce, c.gateNonce)
}

func combo(i int, rngN uint64) writeCombo {
	c := writeCombo{}
	if i&1 != 0 {
		c.user = "verif-user"
	}
	if i&2 != 0 {
		c.nonce = 1 + rngN%1000
	}
	if i&4 != 0 {
		c.gateNonce = 1 + rngN%777
	}
	return c
}

// deliverWrite hands one transaction to runWrite and judges the outcome.
func (p *entryPhase) deliverWrite(e *entryTx, c writeCombo, pos int) {
	const entry = "runWrite"
	h := entryHeight(p.cfg, e.h)
	middleware.AccountDBManagerInstance.Height = h
	seen := clone(e.tx) // what the entry point verifies: request id and gate nonce are filled in first
	seen.RequestId = c.nonce
	seen.SubTransactions = []types.UserData{{Address: c.gateNonce}}
	verr := p.alone(seen, h)
	if p.pool.IsExisted(e.tx.Hash) {
		p.r.Count("entry_skipped_hash_already_in_pool", 1)
		return
	}
	before := sourceNonce(e.tx)
	msg := &notify.ClientTransactionMessage{Tx: *clone(e.tx), UserId: c.user, Nonce: c.nonce, GateNonce: c.gateNonce}
	variant := c.String() + ",type=" + strconv.Itoa(int(e.tx.Type))
	if p.r.Guard("C07:entry:"+entry, p.wit(e, entry, variant, pos, h, verr, false, false), func() { core.VerifGameExecutorRunWrite(msg) }) {
		return
	}
	p.evals++
	present, same := p.inPoolAs(seen)
	executed := sourceNonce(e.tx) != before
	p.r.Count("entry_runWrite_combo:"+c.String0(), 1)
	p.r.Count("entry_runWrite_basetype:"+strconv.Itoa(int(e.typ)), 1)
	p.judge(e, entry, variant, pos, h, verr, present && same, executed)
	if present && !same {
		p.r.Violation("C07:entry:"+entry+":pool-holds-other-content", "the pool holds a transaction with the delivered hash but other authenticated content",
			p.wit(e, entry, variant, pos, h, verr, present, executed))
	}
}

// quiet waits until the number of goroutines has not exceeded limit (limit < 0:
// has not changed) for a stretch of polls; returns the count, false on expiry.
// Events decide; the clock only bounds the wait (expiry = inconclusive).
func quiet(limit int) (int, bool) {
	deadline := time.Now().Add(20 * time.Second)
	last, calm := runtime.NumGoroutine(), time.Now()
	for {
		n := runtime.NumGoroutine()
		if (limit < 0 && n != last) || (limit >= 0 && n > limit) {
			last, calm = n, time.Now()
		}
		if time.Since(calm) > 3*time.Millisecond {
			return n, true
		}
		if time.Now().After(deadline) {
			return n, false
		}
		runtime.Gosched()
		time.Sleep(50 * time.Microsecond)
	}
}

// busRound publishes client write messages on the bus (every handler runs on its
// own goroutine), waits until those goroutines are gone and judges each message.
func (p *entryPhase) busRound(items []*entryTx, c writeCombo, pos0 int) {
	const entry = "bus"
	if len(items) == 0 {
		return
	}
	h := entryHeight(p.cfg, items[0].h)
	middleware.AccountDBManagerInstance.Height = h
	var sent []*entryTx
	var seenTx []*types.Transaction
	var verr []error
	for _, e := range items {
		if entryHeight(p.cfg, e.h) != h {
			continue
		}
		if p.pool.IsExisted(e.tx.Hash) {
			p.r.Count("entry_skipped_hash_already_in_pool", 1)
			continue
		}
		s := clone(e.tx)
		s.SubTransactions = []types.UserData{{Address: c.gateNonce}} // GameExecutor.write logs SubTransactions[0]
		sent, seenTx, verr = append(sent, e), append(seenTx, s), append(verr, p.alone(s, h))
	}
	base, ok := quiet(-1)
	if !ok {
		p.r.Inconclusive("bus round %s/%d: goroutine count never settled before publishing", p.cfg, p.idx)
		return
	}
	variant := c.String() + fmt.Sprintf(",published-together=%d", len(sent))
	if p.r.Guard("C07:entry:"+entry, p.wit(sent[0], entry, variant, pos0, h, verr[0], false, false), func() {
		for i := range sent {
			notify.BUS.Publish(notify.ClientTransactionWrite, &notify.ClientTransactionMessage{Tx: *seenTx[i], UserId: c.user, Nonce: c.nonce, GateNonce: c.gateNonce})
		}
	}) {
		return
	}
	if _, ok := quiet(base); !ok {
		p.r.Inconclusive("bus round %s/%d: handler goroutines not seen to finish", p.cfg, p.idx)
		return
	}
	for i, e := range sent {
		p.evals++
		present, same := p.inPoolAs(seenTx[i])
		if verr[i] == nil && !(present && same) {
			quiet(base) // one more calm stretch before an accepted transaction is called refused
			present, same = p.inPoolAs(seenTx[i])
		}
		p.r.Count("entry_bus_basetype:"+strconv.Itoa(int(e.typ)), 1)
		p.judge(e, entry, variant, pos0+i, h, verr[i], present && same, false)
	}
}

// String0 is the combination without the concrete numbers (counter name).
func (c writeCombo) String0() string {
	b := func(v bool) string {
		if v {
			return "set"
		}
		return "0"
	}
	return "user=" + b(c.user != "") + ",nonce=" + b(c.nonce != 0) + ",gateNonce=" + b(c.gateNonce != 0)
}

var arrangements = []string{"all-honest", "all-forged", "forged-first", "honest-first", "interleaved-HF", "interleaved-FH", "duplicates"}

// pattern: which slots of a batch of n carry the honest transaction of their base
// (H), a forged one (F), a repetition of the previous slot's transaction (R) or a
// forged transaction with the hash of the previous slot's honest one (T).
func pattern(arr string, n int) string {
	b := make([]byte, n)
	for i := range b {
		switch arr {
		case "all-honest":
			b[i] = 'H'
		case "all-forged":
			b[i] = 'F'
		case "forged-first":
			b[i] = 'F'
			if i == n-1 {
				b[i] = 'H'
			}
		case "honest-first":
			b[i] = 'H'
			if i == n-1 {
				b[i] = 'F'
			}
		case "interleaved-HF":
			b[i] = "HF"[i%2]
		case "interleaved-FH":
			b[i] = "FH"[i%2]
		case "duplicates":
			b[i] = "HRTFH"[i%5]
		}
	}
	return string(b)
}

// sameHashForged picks a forged transaction that carries its base's honest hash.
func sameHashForged(cfg string, honest *entryTx, forged []*entryTx, k int) *entryTx {
	for i := range forged {
		f := forged[(i+k)%len(forged)]
		if f.tx.Hash == honest.tx.Hash && entryHeight(cfg, f.h) == entryHeight(cfg, honest.h) {
			return f
		}
	}
	return nil
}

func otherHashForged(cfg string, honest *entryTx, forged []*entryTx, k int) *entryTx {
	for i := range forged {
		f := forged[(i+k)%len(forged)]
		if f.tx.Hash != honest.tx.Hash && entryHeight(cfg, f.h) == entryHeight(cfg, honest.h) {
			return f
		}
	}
	return nil
}

// peerBatch delivers one TransactionGotMsg batch and judges every member.
func (p *entryPhase) peerBatch(arr string, n int, bases []*entryTx, forged [][]*entryTx, k int) {
	pat := pattern(arr, n)
	h := entryHeight(p.cfg, bases[0].h)
	var members []*entryTx
	bi := 0
	for i := 0; i < n; i++ {
		for bi < len(bases) && entryHeight(p.cfg, bases[bi].h) != h {
			bi++ // one height per batch: the entry point has one
		}
		if bi >= len(bases) {
			break
		}
		var m *entryTx
		switch pat[i] {
		case 'H':
			m = bases[bi]
			bi++
		case 'F':
			// alternate between forged transactions with the base's own hash and with a hash of their own
			if (i+k)%2 == 0 {
				m = sameHashForged(p.cfg, bases[bi], forged[bi], k+i)
			}
			if m == nil {
				m = otherHashForged(p.cfg, bases[bi], forged[bi], k+i)
			}
			bi++
		case 'R':
			if len(members) > 0 {
				m = members[len(members)-1]
			}
		case 'T':
			if bi > 0 {
				m = sameHashForged(p.cfg, bases[bi-1], forged[bi-1], k+i)
			}
		}
		if m != nil {
			members = append(members, m)
		}
	}
	if len(members) == 0 {
		return
	}
	txs := make([]*types.Transaction, len(members))
	for i, m := range members {
		txs[i] = m.tx
	}
	var body []byte
	var err error
	func() {
		defer func() {
			if recover() != nil {
				err = fmt.Errorf("marshal panic")
			}
		}()
		body, err = types.MarshalTransactions(txs)
	}()
	if err != nil {
		p.r.Count("entry_peer_batches_not_encodable", 1)
		return
	}
	wire, err := types.UnMarshalTransactions(body)
	if err != nil || len(wire) != len(members) {
		p.r.Count("entry_peer_batches_not_encodable", 1)
		return
	}
	common.SetBlockHeight(h)
	verr := make([]error, len(wire))
	for i, t := range wire {
		if t == nil {
			p.r.Count("entry_peer_batches_not_encodable", 1)
			return
		}
		verr[i] = p.alone(t, h)
		if p.pool.IsExisted(t.Hash) {
			p.r.Count("entry_skipped_hash_already_in_pool", 1)
			return
		}
	}
	variant := fmt.Sprintf("%s n=%d %s", arr, len(members), pat[:len(members)])
	w := p.wit(members[0], "peer", variant, 0, h, verr[0], false, false)
	if p.r.Guard("C07:entry:peer", w, func() {
		if e := network.VerifWorkerHandleMessage(network.TransactionGotMsg, body, "verif-peer", common.DefaultLogger); e != nil {
			panic(e)
		}
	}) {
		return
	}
	p.evals++
	p.r.Count("entry_peer_batches", 1)
	p.r.Count("entry_peer_arrangement:"+arr, 1)
	p.r.Count("entry_peer_size:"+strconv.Itoa(len(members)), 1)
	// per hash: some accepted member with that hash <=> the pool holds exactly such a member
	for i, t := range wire {
		want := false
		okFP := map[uint64]bool{}
		for j, u := range wire {
			if u.Hash == t.Hash && verr[j] == nil {
				want = true
				okFP[authFP(u)] = true
			}
		}
		present := p.pool.IsExisted(t.Hash)
		holdsAccepted := false
		if present {
			if got, e := p.pool.GetTransaction(t.Hash); e == nil && got != nil {
				holdsAccepted = okFP[authFP(got)]
			}
		}
		m := &entryTx{tx: t, h: h, mut: members[i].mut, class: members[i].class, honest: members[i].honest}
		switch {
		case verr[i] != nil && present && !want:
			p.judge(m, "peer", variant, i, h, verr[i], true, false)
		case verr[i] != nil && present && want && !holdsAccepted:
			p.judge(m, "peer", variant, i, h, verr[i], true, false) // the pool holds a rejected twin of an accepted member
		case verr[i] != nil:
			p.judge(m, "peer", variant, i, h, verr[i], false, false)
		default:
			p.judge(m, "peer", variant, i, h, nil, present && holdsAccepted, false)
		}
	}
	if pat[:len(members)] != strings.Repeat("H", len(members)) && pat[:len(members)] != strings.Repeat("F", len(members)) {
		p.r.Count("entry_peer_mixed_batches", 1)
	}
}

// entryGroup runs the scenarios of group idx: 8 bases for one peer batch, one base
// per runWrite combination slot, one base for the bus.
func entryGroup(r *mon.Run, cfg string, idx int) int64 {
	p := &entryPhase{r: r, pool: service.GetTransactionPool(), cfg: cfg, idx: idx}
	r.CaseBegin([]byte(fmt.Sprintf(`{"kind":"entry","cfg":%q,"idx":%d,"mut":"group"}`, cfg, idx)))
	rng := r.Rand("entry-group", cfg, idx)

	// (a) gate write path: message combination idx%8, base type (idx/8)%4; every
	// sampled mutant first, the honest transaction last (most mutants carry its hash)
	c := combo(idx%8, rng.Uint64())
	typ := entryTypes[(idx/8)%len(entryTypes)]
	if honest, forged := entryBase(r, cfg, idx*16, typ); honest != nil {
		for i, f := range forged {
			p.deliverWrite(f, c, i)
		}
		p.deliverWrite(honest, c, len(forged))
		// the same message again: the pool's duplicate rule, no second admission
		if p.pool.IsExisted(honest.tx.Hash) {
			n := len(p.pool.GetReceived())
			r.Guard("C07:entry:runWrite", p.wit(honest, "runWrite", "repeat", 0, entryHeight(p.cfg, honest.h), nil, true, false), func() {
				s := clone(honest.tx)
				core.VerifGameExecutorRunWrite(&notify.ClientTransactionMessage{Tx: *s, UserId: c.user, Nonce: c.nonce, GateNonce: c.gateNonce})
			})
			if len(p.pool.GetReceived()) != n {
				r.Violation("C07:entry:runWrite:duplicate-admitted", "delivering an admitted transaction again changed the number of pending transactions",
					p.wit(honest, "runWrite", "repeat", 0, entryHeight(p.cfg, honest.h), nil, true, false))
			}
			r.Count("entry_runWrite_repeats", 1)
		}
	}

	// (b) bus write messages: a smaller sample (every delivery waits for its handler goroutine)
	busType := entryTypes[(idx/2)%len(entryTypes)]
	if honest, forged := entryBase(r, cfg, idx*16+1, busType); honest != nil {
		cb := combo((idx/3)%8, rng.Uint64())
		var some []*entryTx
		for i := 0; i < len(forged) && i < 12; i++ {
			some = append(some, forged[(i*5+idx)%len(forged)])
		}
		p.busRound(some, cb, 0)                       // forged ones together (they mostly carry the honest hash)
		p.busRound([]*entryTx{honest}, cb, len(some)) // then the honest one
	}

	// (c) one peer batch: size 1..8, arrangement cycling
	n := 1 + idx%8
	arr := arrangements[(idx/8)%len(arrangements)]
	var bases []*entryTx
	var forgedOf [][]*entryTx
	for k := 0; k < 8; k++ {
		honest, forged := entryBase(r, cfg, idx*16+2+k, entryTypes[(k+idx)%len(entryTypes)])
		if honest == nil || len(forged) == 0 {
			continue
		}
		bases = append(bases, honest)
		forgedOf = append(forgedOf, forged)
	}
	if len(bases) > 0 {
		p.peerBatch(arr, n, bases, forgedOf, idx)
	}
	r.Count("entry_groups", 1)
	return p.evals
}
