package main

// Concurrent phase of C07: verifications that overlap in time must give the same
// verdicts as the same verifications run one after the other. The node verifies on
// several goroutines at once (client path and peer path), so "honestly signed
// transactions are always accepted / mutants are rejected" has to hold under
// overlap too. The verdict oracle decides; overlap is only counted.

import (
	"fmt"
	"runtime"
	"strconv"
	"sync"
	"sync/atomic"

	"com.tuntun.rangers/node/src/common"
	"com.tuntun.rangers/node/src/middleware/types"
	"com.tuntun.rangers/node/src/service"

	"verifharness/mon"
)

// 32 verifiers on 16 Ps plus a goroutine that forces garbage collections: every
// collection stops all verifiers at a safe point and redistributes them over the
// Ps, so verifiers regularly continue on another P in the middle of a verification
// (in a node the same happens with timer preemption, blocking calls and GC, only
// less often). Measured on a seeded scratch-buffer race in GenHash: 15-30 honest
// rejections per phase with these numbers, 0-1 without the collections.
const (
	concGoroutines = 32
	concProcs      = 16
)

type concItem struct {
	tx     *types.Transaction
	h      uint64
	honest bool
	kind   string // native | eth
	label  string
	seq    error // verdict of the sequential pass
}

// concWitness identifies a case of the concurrent phase; replay re-runs the phase.
type concWitness struct {
	Kind       string `json:"kind"` // "conc"
	Cfg        string `json:"cfg"`
	Idx        int    `json:"idx"`
	Mut        string `json:"mut"`
	Stream     int    `json:"stream"`
	Item       int    `json:"item"`
	Round      int    `json:"round"`
	TxKind     string `json:"txKind"`
	Hash       string `json:"hash"`
	DataLen    int    `json:"dataLen"`
	ExtraLen   int    `json:"extraDataLen"`
	Height     uint64 `json:"height"`
	Sequential string `json:"sequentialVerdict"`
	Concurrent string `json:"concurrentVerdict"`
	Goroutines int    `json:"goroutines"`
	Procs      int    `json:"gomaxprocs"`
}

// concStream builds the items of verifier g: honest native transactions of varied
// sizes (two of them with a long hash preimage), one honest wrapped Ethereum
// transaction, and mutants of each placed right after their base.
func concStream(r *mon.Run, cfg string, idx, g int) []concItem {
	rng := r.Rand("conc", cfg, idx, g)
	var items []concItem
	for k := 0; k < 6; k++ {
		b := genNative(r, cfg, 1000000+idx*1000+g*8+k)
		tx := b.tx
		switch k {
		case 0, 1, 2: // long hash preimage, sizes spread over a wide range so that scratch buffers of one size rarely fit the next
			tx.Data = randText(rng, (32<<10)<<uint(rng.Intn(6))+rng.Intn(32<<10)) // 32 KiB .. 1 MiB
			tx.Type = types.TransactionTypeContract
			if k == 1 {
				tx.ExtraData = randText(rng, 64<<10+rng.Intn(192<<10))
			}
		case 3:
			tx.Data = randText(rng, 4<<10+rng.Intn(28<<10))
		}
		if tx.Type == types.TransactionTypeETHTX {
			tx.Type = types.TransactionTypeContract
		}
		tx.Hash = tx.GenHash()
		sg := b.sk.Sign(tx.Hash.Bytes())
		tx.Sign = &sg
		items = append(items, concItem{tx: tx, h: b.height, honest: true, kind: "native", label: "honest"})
		add := func(label string, m *types.Transaction) {
			items = append(items, concItem{tx: m, h: b.height, kind: "native", label: label})
		}
		// one or two mutants per base, rotating over the kinds
		switch (g + k) % 5 {
		case 0:
			if n := len(tx.Data); n > 0 { // same length, one character changed, declared hash and signature kept
				d := []byte(tx.Data)
				d[rng.Intn(n)] ^= 1
				add("field=Data:same-length", setField(tx, "Data", string(d)))
			}
		case 1:
			add("field=Target:append-0", setField(tx, "Target", tx.Target+"0"))
		case 2:
			m := clone(tx)
			copy(m.Hash[:], flipBit(tx.Hash[:], rng.Intn(256)))
			add("hash-bitflip", m)
		case 3:
			m := clone(tx)
			m.Sign = common.BytesToSign(flipBit(tx.Sign.Bytes(), rng.Intn(64*8)))
			add("sign-bitflip", m)
		case 4:
			m := setField(tx, "Data", tx.Data+"0")
			m.Hash = m.GenHash()
			add("rehashed=Data:append-0", m)
		}
	}
	eb := genEth(r, cfg, 1000000+idx*1000+g)
	if eb.tx != nil {
		items = append(items, concItem{tx: eb.tx, h: eb.height, honest: true, kind: "eth", label: "honest"})
		items = append(items, concItem{tx: setField(eb.tx, "Source", randAddrHex(rng)), h: eb.height, kind: "eth", label: "field=Source:other-address"})
		items = append(items, concItem{tx: setField(eb.tx, "ExtraData", hex0x(flipBit(eb.enc, rng.Intn(len(eb.enc)*8)))), h: eb.height, kind: "eth", label: "rlp-bitflip"})
	}
	return items
}

func verdict(err error) string {
	if err == nil {
		return "accepted"
	}
	return "rejected:" + errName(err)
}

// concPhase runs one concurrent phase; returns the number of verifications.
func concPhase(r *mon.Run, cfg string, idx int) int64 {
	pool := service.GetTransactionPool()
	r.CaseBegin([]byte(fmt.Sprintf(`{"kind":"conc","cfg":%q,"idx":%d,"mut":"phase"}`, cfg, idx)))
	streams := make([][]concItem, concGoroutines)
	seen := map[uint64]struct{}{}
	for g := range streams {
		streams[g] = concStream(r, cfg, idx, g)
	}
	var evals int64
	wit := func(g, j, round int, it *concItem, conc string) *concWitness {
		return &concWitness{Kind: "conc", Cfg: cfg, Idx: idx, Mut: it.kind + ":" + it.label, Stream: g, Item: j, Round: round, TxKind: it.kind,
			Hash: it.tx.Hash.String(), DataLen: len(it.tx.Data), ExtraLen: len(it.tx.ExtraData), Height: it.h,
			Sequential: verdict(it.seq), Concurrent: conc, Goroutines: concGoroutines, Procs: concProcs}
	}

	// sequential pass: the reference verdicts (and the plain oracle on them)
	for g := range streams {
		for j := range streams[g] {
			it := &streams[g][j]
			w := wit(g, j, -1, it, "")
			if r.Guard("C07:conc:sequential", w, func() { it.seq = pool.VerifyTransaction(it.tx, it.h) }) {
				it.seq = fmt.Errorf("panic")
			}
			evals++
			if !it.honest {
				seen[fingerprint(it.tx, it.h)] = struct{}{}
			}
			w.Sequential = verdict(it.seq)
			switch {
			case it.honest && it.seq != nil:
				r.Violation("C07:"+it.kind+":rejected-honest:"+errName(it.seq), "honest transaction of the concurrent phase rejected already in the sequential pass: "+it.seq.Error(), w)
			case !it.honest && it.seq == nil:
				r.Violation("C07:"+it.kind+":accepted-mutant:conc-sequential:"+it.label, "mutant of the concurrent phase accepted in the sequential pass", w)
			}
		}
	}
	r.Count("concurrent_distinct_mutants", int64(len(seen)))
	r.Count("distinct_judged_mutants", int64(len(seen)))

	// concurrent pass: fixed number of rounds per verifier (no time budget)
	rounds := r.Pick(15, 150)
	prev := runtime.GOMAXPROCS(concProcs)
	var inflight, overlaps, total, honestOK, mutRej, kindChanged, honestRej, mutAcc int64
	var wg sync.WaitGroup
	stopGC := make(chan struct{})
	gcDone := make(chan int64, 1)
	go func() { // garbage collections happen at arbitrary moments in a node; make them frequent here
		var n int64
		for {
			select {
			case <-stopGC:
				gcDone <- n
				return
			default:
			}
			runtime.GC()
			n++
		}
	}()
	for g := range streams {
		wg.Add(1)
		go func(g int) {
			defer wg.Done()
			for round := 0; round < rounds; round++ {
				for j := range streams[g] {
					it := &streams[g][j]
					var err error
					w := wit(g, j, round, it, "")
					n := atomic.AddInt64(&inflight, 1)
					panicked := r.Guard("C07:conc:"+it.kind, w, func() { err = pool.VerifyTransaction(it.tx, it.h) })
					if atomic.AddInt64(&inflight, -1) > 0 || n > 1 {
						atomic.AddInt64(&overlaps, 1)
					}
					atomic.AddInt64(&total, 1)
					if panicked {
						continue
					}
					w.Concurrent = verdict(err)
					switch {
					case it.honest && err != nil:
						atomic.AddInt64(&honestRej, 1)
						if it.seq == nil {
							r.Violation("C07:conc:"+it.kind+":rejected-honest:"+errName(err),
								fmt.Sprintf("honestly signed %s transaction (accepted when verified alone) rejected while other verifications were in flight: %v (stream %d item %d round %d, Data %d B, ExtraData %d B)",
									it.kind, err, g, j, round, len(it.tx.Data), len(it.tx.ExtraData)), w)
						}
					case !it.honest && err == nil:
						atomic.AddInt64(&mutAcc, 1)
						if it.seq != nil {
							r.Violation("C07:conc:"+it.kind+":accepted-mutant:"+it.label,
								fmt.Sprintf("%s mutant %q (rejected when verified alone) accepted while other verifications were in flight (stream %d item %d round %d)", it.kind, it.label, g, j, round), w)
						}
					case it.honest:
						atomic.AddInt64(&honestOK, 1)
					default:
						atomic.AddInt64(&mutRej, 1)
						if it.seq != nil && errName(err) != errName(it.seq) {
							atomic.AddInt64(&kindChanged, 1)
						}
					}
				}
			}
		}(g)
	}
	wg.Wait()
	close(stopGC)
	r.Count("concurrent_forced_gc_cycles", <-gcDone)
	runtime.GOMAXPROCS(prev)
	r.Count("concurrent_verifications", total)
	r.Count("concurrent_overlapping_verifications", overlaps)
	r.Count("concurrent_honest_accepted", honestOK)
	r.Count("concurrent_mutants_rejected", mutRej)
	r.Count("concurrent_honest_rejected", honestRej)
	r.Count("concurrent_mutants_accepted", mutAcc)
	r.Count("concurrent_reject_kind_differs_from_sequential", kindChanged)
	r.Count("concurrent_phases", 1)
	if kindChanged > 0 {
		r.Note("concurrent phase %s/%d: %d mutants were rejected with another error kind than in the sequential pass", cfg, idx, kindChanged)
	}
	r.Sample(map[string]string{"phase": "concurrent " + cfg + "/" + strconv.Itoa(idx), "goroutines": strconv.Itoa(concGoroutines), "gomaxprocs": strconv.Itoa(concProcs),
		"rounds": strconv.Itoa(rounds), "items_per_stream": strconv.Itoa(len(streams[0])), "verifications": strconv.FormatInt(total, 10), "overlapping": strconv.FormatInt(overlaps, 10)})
	return evals + total
}
