// C07 — only authentic transactions are admitted.
//
// Mutation monitor around the real service.TransactionPool.VerifyTransaction:
// honestly signed native transactions (key from the PRNG, Hash = GenHash(),
// PrivateKey.Sign) and honestly signed EIP-155 legacy transactions (built and
// hashed by the independent reference verifharness/ref/ethtx, wrapped with
// eth_tx.ConvertTx) must be accepted; every single-field mutation of an
// authenticated field, every single-bit flip of Hash / the 65-byte signature /
// the RLP payload, the signature-algebra twins, re-hashed and re-signed
// forgeries, foreign-chain and wrong-height variants must be rejected.
// Unauthenticated fields are mutated too but only counted.
//
// Process model: the supervisor only plans batches; every batch runs in a child
// process that boots the services in its own scratch directory (cgo secp256k1
// crashes are attributed to the last logged case).
package main

import (
	"crypto/ecdsa"
	"encoding/hex"
	"encoding/json"
	"fmt"
	"math"
	"math/big"
	"math/rand"
	"os"
	"runtime"
	"strconv"
	"strings"
	"time"
	"unicode/utf8"

	"com.tuntun.rangers/node/src/common"
	"com.tuntun.rangers/node/src/eth_crypto"
	"com.tuntun.rangers/node/src/eth_tx"
	"com.tuntun.rangers/node/src/middleware/types"
	"com.tuntun.rangers/node/src/service"
	"com.tuntun.rangers/node/src/storage/rlp"

	"verifharness/env"
	"verifharness/mon"
	"verifharness/ref/ethtx"
)

// ---------------------------------------------------------------------------
// chain configurations (one per child process)

const (
	cfgA = "A" // the dev configuration as booted: one chain id at every height
	cfgB = "B" // two chain ids: OriginalChainId below the Proposal001 fork, ChainId from it on

	chainA    = "9500"
	chainBNew = "7777"
	forkB     = uint64(1000)
)

// forkedCfg: configurations with two chain ids (OriginalChainId below height
// forkB, ChainId from it on). C has tiny ids (chain-27 / chain-28 reach 0 and 1),
// D a 32-bit and an 80-bit id (v no longer fits 64 bits).
var forkedCfg = map[string][2]string{
	cfgB: {"6666", chainBNew},
	"C":  {"1", "28"},
	"D":  {"2147483648", "604462909807314587353111"},
}

var allCfgs = []string{cfgA, cfgB, "C", "D"}

// expectedChain is the harness' own statement of "the chain's id at height h".
func expectedChain(cfg string, h uint64) string {
	if cfg == cfgA {
		return chainA
	}
	f, ok := forkedCfg[cfg]
	if !ok {
		panic("unknown configuration " + cfg)
	}
	if h >= forkB {
		return f[1]
	}
	return f[0]
}

var heightsA = []uint64{0, 1, 10, 999, 1000, 1 << 32, math.MaxUint64}
var heightsBLow = []uint64{0, 1, 500, 999}
var heightsBHigh = []uint64{1000, 1001, 1 << 40, math.MaxUint64}

func pickHeight(cfg string, rng *rand.Rand) uint64 {
	if cfg == cfgA {
		return heightsA[rng.Intn(len(heightsA))]
	}
	if rng.Intn(2) == 0 {
		return heightsBLow[rng.Intn(len(heightsBLow))]
	}
	return heightsBHigh[rng.Intn(len(heightsBHigh))]
}

// otherSideHeight returns a height at which the chain id differs (cfg B only).
func otherSideHeight(h uint64, rng *rand.Rand) uint64 {
	if h >= forkB {
		return heightsBLow[rng.Intn(len(heightsBLow))]
	}
	return heightsBHigh[rng.Intn(len(heightsBHigh))]
}

func boot(cfg string) string {
	dir := env.ScratchDir("verif-c07-")
	if f, ok := forkedCfg[cfg]; ok {
		env.BootServices(env.Forks{Override: map[int]uint64{1: forkB}})
		common.LocalChainConfig.ChainId = f[1]
		common.LocalChainConfig.OriginalChainId = f[0]
	} else {
		env.BootServices(env.Forks{})
	}
	common.SetBlockHeight(10)
	for _, h := range []uint64{0, 1, 999, 1000, 1001, math.MaxUint64} {
		if got := common.ChainId(h); got != expectedChain(cfg, h) {
			panic(fmt.Sprintf("MACHINERY: configuration %s: common.ChainId(%d) = %q, harness expects %q", cfg, h, got, expectedChain(cfg, h)))
		}
	}
	return dir
}

// ---------------------------------------------------------------------------
// witnesses

func encStr(s string) string {
	if utf8.ValidString(s) {
		return "s:" + s
	}
	return "x:" + hex.EncodeToString([]byte(s))
}

func decStr(s string) string {
	if strings.HasPrefix(s, "x:") {
		b, _ := hex.DecodeString(s[2:])
		return string(b)
	}
	return strings.TrimPrefix(s, "s:")
}

// txJSON is a lossless rendering of a types.Transaction ("s:" plain, "x:" hex for
// strings that are not valid UTF-8). SubTransactions (unauthenticated, never
// judged) are only counted.
type txJSON struct {
	Source          string  `json:"source"`
	Target          string  `json:"target"`
	Type            int32   `json:"type"`
	Time            string  `json:"time"`
	Data            string  `json:"data"`
	ExtraData       string  `json:"extraData"`
	ExtraDataType   int32   `json:"extraDataType"`
	NSub            int     `json:"nSubTransactions"`
	SubHash         string  `json:"subHash"`
	Hash            string  `json:"hash"`
	Sign            *string `json:"sign"` // hex of the 65 bytes; null = nil
	Nonce           uint64  `json:"nonce"`
	RequestId       uint64  `json:"requestId"`
	SocketRequestId string  `json:"socketRequestId"`
	ChainId         string  `json:"chainId"`
}

func toTxJSON(tx *types.Transaction) *txJSON {
	j := &txJSON{Source: encStr(tx.Source), Target: encStr(tx.Target), Type: tx.Type, Time: encStr(tx.Time),
		Data: encStr(tx.Data), ExtraData: encStr(tx.ExtraData), ExtraDataType: tx.ExtraDataType, NSub: len(tx.SubTransactions),
		SubHash: hex.EncodeToString(tx.SubHash[:]), Hash: hex.EncodeToString(tx.Hash[:]), Nonce: tx.Nonce,
		RequestId: tx.RequestId, SocketRequestId: encStr(tx.SocketRequestId), ChainId: encStr(tx.ChainId)}
	if tx.Sign != nil {
		s := hex.EncodeToString(tx.Sign.Bytes())
		j.Sign = &s
	}
	return j
}

func fromTxJSON(j *txJSON) *types.Transaction {
	tx := &types.Transaction{Source: decStr(j.Source), Target: decStr(j.Target), Type: j.Type, Time: decStr(j.Time),
		Data: decStr(j.Data), ExtraData: decStr(j.ExtraData), ExtraDataType: j.ExtraDataType, Nonce: j.Nonce,
		RequestId: j.RequestId, SocketRequestId: decStr(j.SocketRequestId), ChainId: decStr(j.ChainId)}
	b, _ := hex.DecodeString(j.SubHash)
	copy(tx.SubHash[:], b)
	b, _ = hex.DecodeString(j.Hash)
	copy(tx.Hash[:], b)
	if j.Sign != nil {
		b, _ = hex.DecodeString(*j.Sign)
		tx.Sign = common.BytesToSign(b)
	}
	for i := 0; i < j.NSub; i++ {
		tx.SubTransactions = append(tx.SubTransactions, types.UserData{Address: uint64(i)})
	}
	return tx
}

// wit is the witness of one evaluated case; the transaction is rendered only
// when the witness is actually written.
type wit struct {
	Kind   string
	Cfg    string
	Idx    int
	Mut    string
	Class  string
	Expect string // accept | reject | info
	Height uint64
	Note   string
	tx     *types.Transaction
	TxJ    *txJSON
}

type witJSON struct {
	Kind   string  `json:"kind"`
	Cfg    string  `json:"cfg"`
	Idx    int     `json:"idx"`
	Mut    string  `json:"mut"`
	Class  string  `json:"class"`
	Expect string  `json:"expect"`
	Height uint64  `json:"height"`
	Note   string  `json:"note,omitempty"`
	Tx     *txJSON `json:"tx"`
}

func (w *wit) MarshalJSON() ([]byte, error) {
	j := witJSON{Kind: w.Kind, Cfg: w.Cfg, Idx: w.Idx, Mut: w.Mut, Class: w.Class, Expect: w.Expect, Height: w.Height, Note: w.Note, Tx: w.TxJ}
	if j.Tx == nil && w.tx != nil {
		j.Tx = toTxJSON(w.tx)
	}
	return json.Marshal(j)
}

// ---------------------------------------------------------------------------
// the evaluator

type runner struct {
	r    *mon.Run
	pool service.TransactionPool
	kind string
	cfg  string
	idx  int
	only string // replay: evaluate only the case with this mutation label

	// sink, when set, receives the honest base and every (non-trivial, distinct)
	// mutant instead of evaluating them (used by the entry-point phase); light
	// thins out the exhaustive bit-flip / relabelling loops to a seeded sample.
	sink  func(mut, class string, judged bool, tx *types.Transaction, height uint64)
	light bool

	evals    int64
	baseFP   uint64
	baseH    uint64
	seen     map[uint64]struct{} // fingerprints of the mutants of the current base
	distinct int64
	sampled  int
}

const (
	fnvOff   = 14695981039346656037
	fnvPrime = 1099511628211
)

func fnvS(h uint64, s string) uint64 {
	for i := 0; i < len(s); i++ {
		h ^= uint64(s[i])
		h *= fnvPrime
	}
	h ^= 0xff
	h *= fnvPrime
	return h
}

func fnvU(h uint64, v uint64) uint64 {
	for i := 0; i < 8; i++ {
		h ^= v & 0xff
		h *= fnvPrime
		v >>= 8
	}
	return h
}

// fingerprint of everything VerifyTransaction can see.
func fingerprint(tx *types.Transaction, height uint64) uint64 {
	h := uint64(fnvOff)
	h = fnvS(h, tx.Source)
	h = fnvS(h, tx.Target)
	h = fnvU(h, uint64(uint32(tx.Type)))
	h = fnvS(h, tx.Time)
	h = fnvS(h, tx.Data)
	h = fnvS(h, tx.ExtraData)
	h = fnvU(h, uint64(uint32(tx.ExtraDataType)))
	h = fnvU(h, uint64(len(tx.SubTransactions)))
	h = fnvS(h, string(tx.SubHash[:]))
	h = fnvS(h, string(tx.Hash[:]))
	if tx.Sign == nil {
		h = fnvS(h, "nil")
	} else {
		// r, s and recid exactly as stored (Bytes() pads to 65 bytes)
		h = fnvS(h, string(tx.Sign.Bytes()))
	}
	h = fnvU(h, tx.Nonce)
	h = fnvU(h, tx.RequestId)
	h = fnvS(h, tx.SocketRequestId)
	h = fnvS(h, tx.ChainId)
	h = fnvU(h, height)
	return h
}

func errName(err error) string {
	switch err {
	case nil:
		return "nil"
	case service.ErrHash:
		return "ErrHash"
	case service.ErrSign:
		return "ErrSign"
	case service.ErrChainId:
		return "ErrChainId"
	case service.ErrIllegal:
		return "ErrIllegal"
	case service.ErrNil:
		return "ErrNil"
	}
	return "other"
}

// group is the evidence bucket of a class ("field=Target", "hash-bitflip", ...).
func (x *runner) verify(w *wit) (err error, panicked bool) {
	x.r.CaseBegin([]byte(fmt.Sprintf(`{"kind":%q,"cfg":%q,"idx":%d,"mut":%q}`, x.kind, x.cfg, x.idx, w.Mut)))
	panicked = x.r.Guard("C07:"+x.kind, w, func() {
		err = x.pool.VerifyTransaction(w.tx, w.Height)
	})
	x.evals++
	return
}

// honest evaluates the control case; returns false when the base is unusable.
func (x *runner) honest(tx *types.Transaction, height uint64) bool {
	x.baseFP = fingerprint(tx, height)
	x.baseH = height
	x.seen = map[uint64]struct{}{}
	if x.sink != nil {
		x.sink("honest", "honest", true, tx, height)
		return true
	}
	if x.only != "" && x.only != "honest" {
		return true
	}
	w := &wit{Kind: x.kind, Cfg: x.cfg, Idx: x.idx, Mut: "honest", Class: "honest", Expect: "accept", Height: height, tx: tx}
	err, panicked := x.verify(w)
	if panicked {
		return false
	}
	if err != nil {
		x.r.Count("honest_"+x.kind+"_rejected", 1)
		x.r.Violation("C07:"+x.kind+":rejected-honest:"+errName(err),
			fmt.Sprintf("honestly signed %s transaction rejected at height %d: %v", x.kind, height, err), w)
		return false
	}
	x.r.Count("honest_"+x.kind+"_accepted", 1)
	x.r.Distinct("base", []byte(x.kind), tx.Hash[:])
	if x.sampled == 0 {
		x.sampled++
		x.r.Sample(w)
	}
	return true
}

// mutant evaluates one mutated transaction. class names the mutation kind for the
// signature; judged=false only records what happened (unauthenticated fields,
// encoding aliases, multi-field boundary shifts).
func (x *runner) mutant(mut, class string, judged bool, tx *types.Transaction, height uint64) {
	if x.only != "" && x.only != mut {
		return
	}
	fp := fingerprint(tx, height)
	if fp == x.baseFP && height == x.baseH {
		x.r.Count("skipped_noop_mutations", 1)
		return
	}
	if _, dup := x.seen[fp]; dup {
		x.r.Count("skipped_duplicate_mutants", 1)
		return
	}
	x.seen[fp] = struct{}{}
	if x.sink != nil {
		x.sink(mut, class, judged, tx, height)
		return
	}
	exp := "reject"
	if !judged {
		exp = "info"
	}
	w := &wit{Kind: x.kind, Cfg: x.cfg, Idx: x.idx, Mut: mut, Class: class, Expect: exp, Height: height, tx: tx}
	err, panicked := x.verify(w)
	if panicked {
		return
	}
	if !judged {
		if err == nil {
			x.r.Count("info_"+x.kind+":"+class+":accepted", 1)
		} else {
			x.r.Count("info_"+x.kind+":"+class+":rejected", 1)
		}
		return
	}
	x.distinct++
	x.r.Count("judged_"+x.kind, 1)
	x.r.Count("judged_"+x.kind+":"+strings.TrimPrefix(class, "accepted-"), 1)
	if err == nil {
		x.r.Count("accepted_mutants_"+x.kind, 1)
		x.r.Violation("C07:"+x.kind+":"+class,
			fmt.Sprintf("%s transaction accepted after mutation %q (height %d)", x.kind, mut, height), w)
		return
	}
	x.r.Count("rejected_"+x.kind+":"+errName(err), 1)
	if x.sampled < 3 && (strings.Contains(mut, "bitflip:77") || strings.HasPrefix(mut, "field=Target:")) {
		x.sampled++
		w.Note = "rejected with " + errName(err)
		x.r.Sample(w)
	}
}

func clone(t *types.Transaction) *types.Transaction { c := *t; return &c }

// skipLight: in light mode only every 64th position (shifted by the base index) is kept.
func (x *runner) skipLight(i int) bool {
	return x.light && (i+x.idx)%64 != 0
}

// ---------------------------------------------------------------------------
// mutation operators

type strMut struct{ name, val string }

func swapCase(s string) string {
	b := []byte(s)
	for i, c := range b {
		if c >= 'a' && c <= 'z' {
			b[i] = c - 32
		} else if c >= 'A' && c <= 'Z' {
			b[i] = c + 32
		}
	}
	return string(b)
}

func swapOneCase(s string, rng *rand.Rand) string {
	var pos []int
	for i := 0; i < len(s); i++ {
		c := s[i]
		if (c >= 'a' && c <= 'z') || (c >= 'A' && c <= 'Z') {
			pos = append(pos, i)
		}
	}
	if len(pos) == 0 {
		return s
	}
	b := []byte(s)
	i := pos[rng.Intn(len(pos))]
	b[i] ^= 0x20
	return string(b)
}

func isDigits(s string) bool {
	if s == "" {
		return false
	}
	for i := 0; i < len(s); i++ {
		if s[i] < '0' || s[i] > '9' {
			return false
		}
	}
	return true
}

func randAddrHex(rng *rand.Rand) string {
	b := make([]byte, 20)
	rng.Read(b)
	return "0x" + hex.EncodeToString(b)
}

const printable = "abcdefghijklmnopqrstuvwxyzABCDEFGHIJKLMNOPQRSTUVWXYZ0123456789 {}[]\":,.-_/+="

func randText(rng *rand.Rand, n int) string {
	b := make([]byte, n)
	for i := range b {
		b[i] = printable[rng.Intn(len(printable))]
	}
	return string(b)
}

// stringMutations lists single-field mutations of a string value: replace,
// truncate, extend, case change, +-1; no-ops are filtered by the evaluator.
func stringMutations(s string, rng *rand.Rand) []strMut {
	out := []strMut{{"empty", ""}, {"append-0", s + "0"}, {"append-space", s + " "}, {"prepend-space", " " + s},
		{"append-nul", s + "\x00"}, {"prepend-0", "0" + s}, {"double", s + s}, {"case-all", swapCase(s)}, {"case-one", swapOneCase(s, rng)}}
	if len(s) > 0 {
		out = append(out, strMut{"trunc-last", s[:len(s)-1]}, strMut{"drop-first", s[1:]}, strMut{"replace-random", randText(rng, len(s))})
		b := []byte(s)
		b[rng.Intn(len(b))] ^= 1 << uint(rng.Intn(8))
		out = append(out, strMut{"byte-bitflip", string(b)})
		if len(s) > 1 {
			i := rng.Intn(len(s) - 1)
			b2 := []byte(s)
			b2[i], b2[i+1] = b2[i+1], b2[i]
			out = append(out, strMut{"swap-adjacent", string(b2)})
		}
	} else {
		out = append(out, strMut{"replace-random", randText(rng, 8)})
	}
	if isDigits(s) && len(s) < 18 {
		v, _ := strconv.ParseUint(s, 10, 64)
		out = append(out, strMut{"num+1", strconv.FormatUint(v+1, 10)}, strMut{"plus-sign", "+" + s}, strMut{"append-.0", s + ".0"})
		if v > 0 {
			out = append(out, strMut{"num-1", strconv.FormatUint(v-1, 10)})
		}
	}
	if strings.HasPrefix(s, "0x") {
		out = append(out, strMut{"no-0x", s[2:]}, strMut{"0X-prefix", "0X" + s[2:]}, strMut{"upper-hex", "0x" + strings.ToUpper(s[2:])})
		if len(s) == 42 {
			out = append(out, strMut{"other-address", randAddrHex(rng)})
		}
	}
	return out
}

type u64Mut struct {
	name string
	val  uint64
}

func nonceMutations(n uint64) []u64Mut {
	out := []u64Mut{{"+1", n + 1}, {"-1", n - 1}, {"zero", 0}, {"max", math.MaxUint64}, {"times10", n * 10}, {"div10", n / 10}}
	for b := uint(0); b < 64; b++ {
		out = append(out, u64Mut{"bit" + strconv.Itoa(int(b)), n ^ (1 << b)})
	}
	return out
}

type i32Mut struct {
	name string
	val  int32
}

func typeMutations(t int32, eth bool) []i32Mut {
	out := []i32Mut{{"+1", t + 1}, {"-1", t - 1}, {"neg", -t}, {"zero", 0}, {"contract", types.TransactionTypeContract}, {"operator-event", types.TransactionTypeOperatorEvent}}
	if !eth {
		out = append(out, i32Mut{"to-ethtx", types.TransactionTypeETHTX})
	}
	for b := uint(0); b < 32; b++ {
		out = append(out, i32Mut{"bit" + strconv.Itoa(int(b)), int32(uint32(t) ^ (1 << b))})
	}
	return out
}

// setField applies a string mutation to the named field of a copy.
func setField(t *types.Transaction, field, v string) *types.Transaction {
	c := clone(t)
	switch field {
	case "Source":
		c.Source = v
	case "Target":
		c.Target = v
	case "Time":
		c.Time = v
	case "Data":
		c.Data = v
	case "ExtraData":
		c.ExtraData = v
	case "ChainId":
		c.ChainId = v
	case "SocketRequestId":
		c.SocketRequestId = v
	default:
		panic("setField " + field)
	}
	return c
}

func getField(t *types.Transaction, field string) string {
	switch field {
	case "Source":
		return t.Source
	case "Target":
		return t.Target
	case "Time":
		return t.Time
	case "Data":
		return t.Data
	case "ExtraData":
		return t.ExtraData
	case "ChainId":
		return t.ChainId
	case "SocketRequestId":
		return t.SocketRequestId
	}
	panic("getField " + field)
}

func flipBit(b []byte, bit int) []byte {
	c := append([]byte(nil), b...)
	c[bit/8] ^= 1 << uint(7-bit%8)
	return c
}

func pad32(v *big.Int) []byte {
	b := v.Bytes()
	if len(b) > 32 {
		b = b[len(b)-32:]
	}
	out := make([]byte, 32)
	copy(out[32-len(b):], b)
	return out
}

func sig65(r, s *big.Int, recid byte) []byte {
	return append(append(pad32(r), pad32(s)...), recid)
}

var max256 = new(big.Int).Sub(new(big.Int).Lsh(big.NewInt(1), 256), big.NewInt(1))

// sigAlgebra lists algebraic twins / range violations of the signature (r, s, v).
// lo/hi are the two honest recovery-id encodings (27/28 for native signatures, the
// two EIP-155 v values are mapped by the caller).
func sigAlgebra(r, s *big.Int) []struct {
	class, label string
	r, s         *big.Int
	flipParity   bool
} {
	one := big.NewInt(1)
	ns := new(big.Int).Sub(ethtx.N, s)
	type e = struct {
		class, label string
		r, s         *big.Int
		flipParity   bool
	}
	return []e{
		{"high-s", "high-s-twin", r, ns, true},
		{"high-s", "n-minus-s-same-recid", r, ns, false},
		{"recid-parity", "recid-parity-flipped", r, s, true},
		{"r-zero", "r=0", new(big.Int), s, false},
		{"s-zero", "s=0", r, new(big.Int), false},
		{"r-zero", "r=0,s=0", new(big.Int), new(big.Int), false},
		{"r-ge-n", "r=n", ethtx.N, s, false},
		{"r-ge-n", "r=n+1", new(big.Int).Add(ethtx.N, one), s, false},
		{"r-ge-n", "r=2^256-1", max256, s, false},
		{"r-ge-n", "r=p", ethtx.P, s, false},
		{"s-ge-n", "s=n", r, ethtx.N, false},
		{"s-ge-n", "s=n+1", r, new(big.Int).Add(ethtx.N, one), false},
		{"s-ge-n", "s=2^256-1", r, max256, false},
		{"r-s-swapped", "r<->s", s, r, false},
		{"r-plus-1", "r+1", new(big.Int).Add(r, one), s, false},
		{"s-plus-1", "s+1", r, new(big.Int).Add(s, one), false},
	}
}

// ---------------------------------------------------------------------------
// native transactions

var nativeTypes = []int32{types.TransactionTypeMinerApply, types.TransactionTypeMinerAbort, types.TransactionTypeMinerRefund,
	types.TransactionTypeMinerAdd, types.TransactionTypeMinerChangeAccount, types.TransactionTypeOperatorNode,
	types.TransactionTypeOperatorBalance, types.TransactionTypeOperatorEvent, types.TransactionTypeContract,
	types.TransactionTypeGetNonce, types.TransactionTypeCallVM, 0, 1, -1, 187, 189, math.MaxInt32, math.MinInt32}

var unicodeBits = []string{"转账", "é", "ß", "​", "🚀", "Ω", " ", "ı", "K"}

func genText(rng *rand.Rand, long bool, thorough bool) string {
	switch rng.Intn(9) {
	case 0:
		return ""
	case 1:
		return fmt.Sprintf(`{"%s":"%d","target":"%s"}`, randText(rng, 4), rng.Int63(), randAddrHex(rng))
	case 2:
		s := ""
		for i := 0; i < 1+rng.Intn(6); i++ {
			s += unicodeBits[rng.Intn(len(unicodeBits))] + randText(rng, rng.Intn(4))
		}
		return s
	case 3:
		return strconv.FormatUint(rng.Uint64()>>uint(rng.Intn(64)), 10) // digits only: feeds the boundary-shift information cases
	case 4:
		b := make([]byte, 1+rng.Intn(40))
		rng.Read(b)
		return "0x" + hex.EncodeToString(b)
	case 5:
		if long {
			n := 4096 << uint(rng.Intn(5)) // 4 KiB .. 64 KiB
			if thorough && rng.Intn(20) == 0 {
				n = 1 << 20
			}
			return randText(rng, n)
		}
		return randText(rng, 200+rng.Intn(800))
	case 6:
		b := make([]byte, 1+rng.Intn(24)) // arbitrary bytes, possibly invalid UTF-8
		rng.Read(b)
		return string(b)
	}
	return randText(rng, 1+rng.Intn(60))
}

type nativeBase struct {
	sk     *common.PrivateKey
	tx     *types.Transaction
	height uint64
}

func genKeyBytes(rng *rand.Rand, idx int) []byte {
	d := make([]byte, 32)
	for {
		rng.Read(d)
		switch idx % 16 {
		case 3: // tiny key
			for i := 0; i < 31; i++ {
				d[i] = 0
			}
		case 7: // leading zero bytes (D.Bytes() is shorter than 32)
			d[0], d[1] = 0, 0
		case 11: // just below the group order
			v := new(big.Int).Sub(ethtx.N, big.NewInt(int64(1+rng.Intn(1000))))
			copy(d, pad32(v))
		}
		v := new(big.Int).SetBytes(d)
		if v.Sign() > 0 && v.Cmp(ethtx.N) < 0 {
			return d
		}
	}
}

func genNative(r *mon.Run, cfg string, idx int) *nativeBase {
	rng := r.Rand("native", idx)
	d := genKeyBytes(rng, idx)
	sk := common.HexStringToSecKey("0x" + hex.EncodeToString(d))
	if idx%3 == 1 { // second documented way to load a key: pub || D
		pk := sk.GetPubKey()
		sk = common.BytesToSecKey(append(pk.ToBytes(), d...))
	}
	pk := sk.GetPubKey()
	h := pickHeight(cfg, rng)
	tx := &types.Transaction{}
	tx.Source = pk.GetAddress().GetHexString()
	switch rng.Intn(6) {
	case 0:
		tx.Target = ""
	case 1:
		tx.Target = genText(rng, false, false)
	default:
		tx.Target = randAddrHex(rng)
	}
	tx.Type = nativeTypes[rng.Intn(len(nativeTypes))]
	switch rng.Intn(4) {
	case 0:
		tx.Time = ""
	case 1:
		tx.Time = genText(rng, false, false)
	default:
		tx.Time = time.Unix(int64(rng.Intn(2000000000)), int64(rng.Intn(1000000000))).UTC().Format("2006-01-02 15:04:05.999999999 -0700 MST")
	}
	long := idx%25 == 24
	tx.Data = genText(rng, long, r.Thorough())
	tx.ExtraData = genText(rng, false, false)
	tx.ExtraDataType = int32(rng.Intn(3))
	switch rng.Intn(5) {
	case 0:
		tx.Nonce = 0
	case 1:
		tx.Nonce = math.MaxUint64
	case 2:
		tx.Nonce = uint64(rng.Intn(1000))
	default:
		tx.Nonce = rng.Uint64() >> uint(rng.Intn(64))
	}
	if idx%20 == 5 { // everything that can be empty is empty
		tx.Target, tx.Time, tx.Data, tx.ExtraData, tx.Nonce = "", "", "", "", 0
	}
	tx.RequestId = uint64(rng.Intn(100000))
	tx.SocketRequestId = strconv.Itoa(rng.Intn(100000))
	tx.ChainId = expectedChain(cfg, h)
	tx.Hash = tx.GenHash()
	s := sk.Sign(tx.Hash.Bytes())
	tx.Sign = &s
	return &nativeBase{sk: sk, tx: tx, height: h}
}

// authenticated string fields of a native transaction = the string inputs of GenHash.
var nativeAuthStr = []string{"Data", "Source", "Target", "Time", "ExtraData", "ChainId"}

func (x *runner) infoUnauthenticated(t *types.Transaction, h uint64, rng *rand.Rand, eth bool) {
	c := clone(t)
	c.ExtraDataType++
	x.mutant("unauth=ExtraDataType:+1", "unauth:ExtraDataType", false, c, h)
	c = clone(t)
	c.SubTransactions = []types.UserData{{Address: 7}}
	x.mutant("unauth=SubTransactions:one", "unauth:SubTransactions", false, c, h)
	c = clone(t)
	c.SubHash[rng.Intn(32)] ^= 0x10
	x.mutant("unauth=SubHash:flip", "unauth:SubHash", false, c, h)
	c = clone(t)
	c.RequestId++
	x.mutant("unauth=RequestId:+1", "unauth:RequestId", false, c, h)
	x.mutant("unauth=SocketRequestId:append", "unauth:SocketRequestId", false, setField(t, "SocketRequestId", t.SocketRequestId+"9"), h)
	if eth {
		x.mutant("unauth=Time:set", "unauth:Time", false, setField(t, "Time", t.Time+"2024-01-01"), h)
		c = clone(t)
		garbage := make([]byte, 65)
		rng.Read(garbage)
		c.Sign = common.BytesToSign(garbage)
		x.mutant("unauth=Sign:garbage", "unauth:Sign", false, c, h)
	}
}

func (x *runner) runNative(b *nativeBase) {
	r := x.r
	tx, h := b.tx, b.height
	rng := r.Rand("native-mut", x.idx)
	if !x.honest(tx, h) {
		return
	}

	// (1) single-field mutations of the authenticated fields, Hash and Sign untouched
	for _, f := range nativeAuthStr {
		for _, m := range stringMutations(getField(tx, f), rng) {
			x.mutant("field="+f+":"+m.name, "accepted-mutant:field="+f, true, setField(tx, f, m.val), h)
		}
	}
	for _, m := range nonceMutations(tx.Nonce) {
		c := clone(tx)
		c.Nonce = m.val
		x.mutant("field=Nonce:"+m.name, "accepted-mutant:field=Nonce", true, c, h)
	}
	for _, m := range typeMutations(tx.Type, false) {
		c := clone(tx)
		c.Type = m.val
		x.mutant("field=Type:"+m.name, "accepted-mutant:field=Type", true, c, h)
	}

	// (2) every single-bit flip of Hash
	for bit := 0; bit < 256; bit++ {
		if x.skipLight(bit) {
			continue
		}
		c := clone(tx)
		copy(c.Hash[:], flipBit(tx.Hash[:], bit))
		x.mutant("hash-bitflip:"+strconv.Itoa(bit), "accepted-mutant:hash-bitflip", true, c, h)
	}
	// (3) every single-bit flip of the 65-byte signature
	sig := tx.Sign.Bytes()
	for bit := 0; bit < 65*8; bit++ {
		if x.skipLight(bit) {
			continue
		}
		c := clone(tx)
		c.Sign = common.BytesToSign(flipBit(sig, bit))
		x.mutant("sign-bitflip:"+strconv.Itoa(bit), "accepted-mutant:sign-bitflip", true, c, h)
	}
	// (4) signature algebra
	rr, ss, recid := new(big.Int).SetBytes(sig[:32]), new(big.Int).SetBytes(sig[32:64]), sig[64]
	for _, a := range sigAlgebra(rr, ss) {
		v := recid
		if a.flipParity {
			v = 27 + ((recid - 27) ^ 1) // 27 <-> 28 (binary ^ has the precedence of +)
		}
		c := clone(tx)
		c.Sign = common.BytesToSign(sig65(a.r, a.s, v))
		x.mutant("sig:"+a.label, "accepted-mutant:sig-algebra:"+a.class, true, c, h)
	}
	for _, v := range []byte{2, 3, 4, 5, 26, 29, 30, 31, 54, 55, 128, 255} {
		c := clone(tx)
		c.Sign = common.BytesToSign(sig65(rr, ss, v))
		x.mutant("sig:recid="+strconv.Itoa(int(v)), "accepted-mutant:sig-algebra:recid-range", true, c, h)
	}
	{
		c := clone(tx)
		c.Sign = nil
		x.mutant("sig:nil", "accepted-mutant:sig-algebra:nil", true, c, h)
		c = clone(tx)
		c.Sign = common.BytesToSign(make([]byte, 65))
		x.mutant("sig:all-zero", "accepted-mutant:sig-algebra:r-zero", true, c, h)
		// information only: secp256k1.checkSignature maps v>26 to v-27, so recid 0/1 is a
		// second encoding of the same (r, s, recovery id), not a different signature.
		c = clone(tx)
		c.Sign = common.BytesToSign(sig65(rr, ss, recid-27))
		x.mutant("sig:recid-alias-0-1", "sig-recid-alias", false, c, h)
	}

	// (5) field mutated and Hash recomputed, signature untouched: the signature no
	// longer recovers to the declared sender
	for _, f := range nativeAuthStr {
		for _, m := range stringMutations(getField(tx, f), rng) {
			switch m.name {
			case "append-0", "case-all", "replace-random", "other-address", "empty":
			default:
				continue
			}
			c := setField(tx, f, m.val)
			c.Hash = c.GenHash()
			if c.Hash == tx.Hash {
				continue
			}
			x.mutant("rehashed="+f+":"+m.name, "accepted-rehashed:field="+f, true, c, h)
		}
	}
	for _, m := range []u64Mut{{"+1", tx.Nonce + 1}, {"-1", tx.Nonce - 1}} {
		c := clone(tx)
		c.Nonce = m.val
		c.Hash = c.GenHash()
		x.mutant("rehashed=Nonce:"+m.name, "accepted-rehashed:field=Nonce", true, c, h)
	}
	for _, m := range []i32Mut{{"+1", tx.Type + 1}, {"contract", types.TransactionTypeContract}} {
		if m.val == types.TransactionTypeETHTX {
			continue
		}
		c := clone(tx)
		c.Type = m.val
		c.Hash = c.GenHash()
		x.mutant("rehashed=Type:"+m.name, "accepted-rehashed:field=Type", true, c, h)
	}

	// (6) re-signed forgeries: hash and signature are recomputed with the honest
	// machinery, but the declared sender is not exactly the recovered address, the
	// signer is somebody else, or the chain id is not the chain's.
	resign := func(c *types.Transaction, sk *common.PrivateKey) *types.Transaction {
		c.Hash = c.GenHash()
		s := sk.Sign(c.Hash.Bytes())
		c.Sign = &s
		return c
	}
	for _, m := range []strMut{{"upper-hex", "0x" + strings.ToUpper(tx.Source[2:])}, {"0X-prefix", "0X" + tx.Source[2:]},
		{"no-0x", tx.Source[2:]}, {"prepend-space", " " + tx.Source}, {"append-space", tx.Source + " "}, {"case-one", swapOneCase(tx.Source, rng)},
		{"zero-padded-32", "0x" + strings.Repeat("0", 24) + tx.Source[2:]}} {
		x.mutant("resigned:source-"+m.name, "accepted-resigned:noncanonical-source", true, resign(setField(tx, "Source", m.val), b.sk), h)
	}
	{
		other := common.HexStringToSecKey("0x" + hex.EncodeToString(genKeyBytes(rng, 0)))
		x.mutant("resigned:impersonation", "accepted-resigned:impersonation", true, resign(clone(tx), other), h)
		for _, cid := range []string{"", "0", "1", chainA + "0", "0" + tx.ChainId, tx.ChainId + " ", chainBNew + "1", otherChain(x.cfg, h)} {
			x.mutant("resigned:chainid="+cid, "accepted-resigned:wrong-chain", true, resign(setField(tx, "ChainId", cid), b.sk), h)
		}
	}
	if x.cfg != cfgA {
		x.mutant("wrong-height", "accepted-wrong-height", true, tx, otherSideHeight(h, rng))
	}

	// information only
	x.infoUnauthenticated(tx, h, rng, false)
	x.boundaryShifts(tx, h)
	r.Count("distinct_judged_mutants", x.distinct)
	x.distinct = 0
}

func otherChain(cfg string, h uint64) string {
	if cfg == cfgA {
		return "9501"
	}
	if h >= forkB {
		return forkedCfg[cfg][0]
	}
	return forkedCfg[cfg][1]
}

// boundaryShifts moves characters between neighbouring fields of the GenHash
// preimage (Data|Nonce|Source|Target|Type|Time|ExtraData|ChainId are concatenated
// without separators). The digest is unchanged by construction; these are
// multi-field changes outside the stated quantifier: recorded, not judged.
func (x *runner) boundaryShifts(tx *types.Transaction, h uint64) {
	// Data -> Nonce: trailing digit of Data becomes the leading digit of Nonce
	if n := len(tx.Data); n > 0 && tx.Data[n-1] >= '1' && tx.Data[n-1] <= '9' {
		ns := string(tx.Data[n-1]) + strconv.FormatUint(tx.Nonce, 10)
		if v, err := strconv.ParseUint(ns, 10, 64); err == nil {
			c := clone(tx)
			c.Data, c.Nonce = tx.Data[:n-1], v
			if c.GenHash() == tx.Hash {
				x.mutant("shift:Data>Nonce", "boundary-shift:Data-Nonce", false, c, h)
			}
		}
	}
	// Target -> Type: trailing digit of Target becomes the leading digit of Type
	if n := len(tx.Target); n > 0 && tx.Type >= 0 && tx.Target[n-1] >= '1' && tx.Target[n-1] <= '9' {
		ts := string(tx.Target[n-1]) + strconv.Itoa(int(tx.Type))
		if v, err := strconv.ParseInt(ts, 10, 32); err == nil && v != types.TransactionTypeETHTX {
			c := clone(tx)
			c.Target, c.Type = tx.Target[:n-1], int32(v)
			if c.GenHash() == tx.Hash {
				x.mutant("shift:Target>Type", "boundary-shift:Target-Type", false, c, h)
			}
		}
	}
	// Type -> Time: trailing digit of Type becomes the first character of Time
	if ts := strconv.Itoa(int(tx.Type)); tx.Type >= 10 {
		v, _ := strconv.Atoi(ts[:len(ts)-1])
		c := clone(tx)
		c.Type, c.Time = int32(v), ts[len(ts)-1:]+tx.Time
		if c.GenHash() == tx.Hash && c.Type != types.TransactionTypeETHTX {
			x.mutant("shift:Type>Time", "boundary-shift:Type-Time", false, c, h)
		}
	}
	// Time <-> ExtraData
	if n := len(tx.Time); n > 0 {
		c := clone(tx)
		c.Time, c.ExtraData = tx.Time[:n-1], tx.Time[n-1:]+tx.ExtraData
		if c.GenHash() == tx.Hash {
			x.mutant("shift:Time>ExtraData", "boundary-shift:Time-ExtraData", false, c, h)
		}
	}
	// Source -> Target (the declared sender changes: expected to be rejected by the sender check)
	if n := len(tx.Source); n > 0 {
		c := clone(tx)
		c.Source, c.Target = tx.Source[:n-1], tx.Source[n-1:]+tx.Target
		if c.GenHash() == tx.Hash {
			x.mutant("shift:Source>Target", "boundary-shift:Source-Target", false, c, h)
		}
	}
}

// ---------------------------------------------------------------------------
// wrapped Ethereum transactions

type innerMut struct {
	name string
	f    func(t *ethtx.Tx)
}

type ethBase struct {
	key    *ecdsa.PrivateKey
	ref    ethtx.Tx // signed
	enc    []byte
	sender []byte
	chain  *big.Int
	tx     *types.Transaction
	height uint64
}

// signRef signs the reference transaction: mode "155" (EIP-155 for chain) or "homestead".
func signRef(t ethtx.Tx, key *ecdsa.PrivateKey, mode string, chain *big.Int) ethtx.Tx {
	var sh []byte
	if mode == "homestead" {
		sh = t.SigHashHomestead()
	} else {
		sh = t.SigHash155(chain)
	}
	sig, err := eth_crypto.Sign(sh, key)
	if err != nil {
		panic(err)
	}
	t.R = new(big.Int).SetBytes(sig[:32])
	t.S = new(big.Int).SetBytes(sig[32:64])
	if mode == "homestead" {
		t.V = big.NewInt(int64(27 + sig[64]))
	} else {
		t.V = ethtx.V155(chain, sig[64])
	}
	return t
}

// wrap builds the pool transaction for an RLP payload and a declared sender the
// way the node's RPC front end does (rlp decode + eth_tx.ConvertTx). nil when
// the payload does not decode.
func wrap(enc []byte, sender []byte) (tx *types.Transaction) {
	defer func() {
		if recover() != nil {
			tx = nil
		}
	}()
	dec := new(eth_tx.Transaction)
	if err := rlp.DecodeBytes(enc, dec); err != nil {
		return nil
	}
	return eth_tx.ConvertTx(dec, common.BytesToAddress(sender), enc)
}

func hex0x(b []byte) string { return "0x" + hex.EncodeToString(b) }

func randBig(rng *rand.Rand, maxBits int) *big.Int {
	bits := rng.Intn(maxBits + 1)
	if bits == 0 {
		return new(big.Int)
	}
	b := make([]byte, (bits+7)/8)
	rng.Read(b)
	v := new(big.Int).SetBytes(b)
	return v.Rsh(v, uint(len(b)*8-bits))
}

func genEth(r *mon.Run, cfg string, idx int) *ethBase {
	rng := r.Rand("eth", idx)
	key, err := eth_crypto.ToECDSA(genKeyBytes(rng, idx))
	if err != nil {
		panic(err)
	}
	h := pickHeight(cfg, rng)
	chain, _ := new(big.Int).SetString(expectedChain(cfg, h), 10)
	t := ethtx.Tx{}
	switch rng.Intn(5) {
	case 0:
		t.Nonce = 0
	case 1:
		t.Nonce = math.MaxUint64
	case 2:
		t.Nonce = uint64(rng.Intn(128)) // single-byte RLP items
	default:
		t.Nonce = rng.Uint64() >> uint(rng.Intn(64))
	}
	switch rng.Intn(4) {
	case 0:
		t.GasPrice = big.NewInt(1000000000)
	case 1:
		t.GasPrice = new(big.Int)
	default:
		t.GasPrice = randBig(rng, 256)
	}
	switch rng.Intn(4) {
	case 0:
		t.Gas = 21000
	case 1:
		t.Gas = 0
	case 2:
		t.Gas = math.MaxUint64
	default:
		t.Gas = rng.Uint64() >> uint(rng.Intn(64))
	}
	switch {
	case idx%5 == 2: // contract creation
		t.To = nil
	default:
		t.To = make([]byte, 20)
		rng.Read(t.To)
		if rng.Intn(4) == 0 {
			t.To[0], t.To[1] = 0, 0
		}
	}
	switch rng.Intn(4) {
	case 0:
		t.Value = new(big.Int)
	case 1:
		t.Value = new(big.Int).Exp(big.NewInt(10), big.NewInt(18), nil)
	case 2:
		t.Value = big.NewInt(int64(1 + rng.Intn(127)))
	default:
		t.Value = randBig(rng, 256)
	}
	switch rng.Intn(6) {
	case 0:
		t.Data = nil
	case 1:
		t.Data = []byte{byte(rng.Intn(128))} // single byte < 0x80
	case 2:
		t.Data = make([]byte, 4+32*rng.Intn(4)) // selector + words
	case 3:
		t.Data = make([]byte, 56+rng.Intn(200)) // long-string RLP header
	default:
		t.Data = make([]byte, 1+rng.Intn(55))
	}
	if idx%25 == 24 {
		t.Data = make([]byte, 600+rng.Intn(1400))
	}
	rng.Read(t.Data)
	signed := signRef(t, key, "155", chain)
	enc := signed.Encode()
	sender := ethtx.Address(key.PublicKey.X, key.PublicKey.Y)
	return &ethBase{key: key, ref: signed, enc: enc, sender: sender, chain: chain, tx: wrap(enc, sender), height: h}
}

// checkConversion compares the wrapper produced by ConvertTx with what the
// reference says the signed payload contains.
func (x *runner) checkConversion(b *ethBase) bool {
	w := &wit{Kind: "eth", Cfg: x.cfg, Idx: x.idx, Mut: "honest", Class: "convert", Expect: "accept", Height: b.height, tx: b.tx}
	if b.tx == nil {
		x.r.Violation("C07:eth:rejected-honest:rlp-decode", "canonical RLP of an honestly signed EIP-155 transaction does not decode / convert: "+hex0x(b.enc), w)
		return false
	}
	bad := func(field, got, want string) bool {
		x.r.Violation("C07:eth:convert-unfaithful:field="+field, fmt.Sprintf("ConvertTx %s = %q, signed payload has %q", field, got, want), w)
		return false
	}
	t := b.tx
	if t.Source != hex0x(b.sender) {
		return bad("Source", t.Source, hex0x(b.sender))
	}
	wantTo := ""
	if len(b.ref.To) > 0 {
		wantTo = hex0x(b.ref.To)
	}
	if t.Target != wantTo {
		return bad("Target", t.Target, wantTo)
	}
	if t.Nonce != b.ref.Nonce {
		return bad("Nonce", fmt.Sprint(t.Nonce), fmt.Sprint(b.ref.Nonce))
	}
	if t.ChainId != b.chain.String() {
		return bad("ChainId", t.ChainId, b.chain.String())
	}
	if hex.EncodeToString(t.Hash[:]) != hex.EncodeToString(b.ref.Hash()) {
		return bad("Hash", hex.EncodeToString(t.Hash[:]), hex.EncodeToString(b.ref.Hash()))
	}
	if t.ExtraData != hex0x(b.enc) {
		return bad("ExtraData", t.ExtraData, hex0x(b.enc))
	}
	if t.Type != types.TransactionTypeETHTX {
		return bad("Type", fmt.Sprint(t.Type), "188")
	}
	var cd types.ContractData
	if err := json.Unmarshal([]byte(t.Data), &cd); err != nil {
		return bad("Data", t.Data, "json")
	}
	if cd.GasLimit != strconv.FormatUint(b.ref.Gas, 10) {
		return bad("Data.gasLimit", cd.GasLimit, strconv.FormatUint(b.ref.Gas, 10))
	}
	if cd.GasPrice != b.ref.GasPrice.String() {
		return bad("Data.gasPrice", cd.GasPrice, b.ref.GasPrice.String())
	}
	wantAbi := "0x" + hex.EncodeToString(b.ref.Data)
	if len(b.ref.Data) == 0 {
		wantAbi = "0x0"
	}
	if cd.AbiData != wantAbi {
		return bad("Data.abiData", cd.AbiData, wantAbi)
	}
	if v, ok := parse18(cd.TransferValue); !ok || v.Cmp(b.ref.Value) != 0 {
		return bad("Data.transferValue", cd.TransferValue, b.ref.Value.String()+" wei")
	}
	x.r.Count("eth_conversion_checked", 1)
	return true
}

// parse18: decimal string with at most 18 fractional digits -> wei.
func parse18(s string) (*big.Int, bool) {
	ip, fp := s, ""
	if i := strings.Index(s, "."); i >= 0 {
		ip, fp = s[:i], s[i+1:]
	}
	if len(fp) > 18 || !isDigits(ip) || (fp != "" && !isDigits(fp)) {
		return nil, false
	}
	v, ok := new(big.Int).SetString(ip+fp+strings.Repeat("0", 18-len(fp)), 10)
	return v, ok
}

// rlpBits selects the bit positions of the payload to flip: all of them up to
// 256 bytes; for longer payloads the first 64 bytes (list header, nonce, price,
// gas, to, value), the last 80 bytes (v, r, s) and a seeded sample in between.
func rlpBits(n int, rng *rand.Rand) []int {
	var bits []int
	if n <= 256 {
		for i := 0; i < n*8; i++ {
			bits = append(bits, i)
		}
		return bits
	}
	for i := 0; i < 64*8; i++ {
		bits = append(bits, i)
	}
	for k := 0; k < 256; k++ {
		bits = append(bits, 64*8+rng.Intn((n-144)*8))
	}
	for i := (n - 80) * 8; i < n*8; i++ {
		bits = append(bits, i)
	}
	return bits
}

type vLabel struct {
	name string
	v    *big.Int
	core bool // also evaluated as ExtraData-only mutation
}

// vRelabelSet lists the V values a payload on chain c is relabelled with: both
// parities of 35+2c' for c' in 0..40, c+-1..60, c/2, 2c, c+-27, c+-28, c+-128; the
// values whose rest V-2c-8 is a near miss of the plain 27/28 (negative, off by
// one, off by 256); pre-EIP-155 and raw recovery ids; huge values. Negative V
// cannot be encoded and is left out.
func vRelabelSet(c *big.Int) []vLabel {
	var out []vLabel
	add := func(name string, v *big.Int, core bool) {
		if v.Sign() >= 0 {
			out = append(out, vLabel{name, v, core})
		}
	}
	addChain := func(cp *big.Int, core bool) {
		if cp.Sign() < 0 {
			return
		}
		for recid := byte(0); recid < 2; recid++ {
			add(fmt.Sprintf("eip155(c'=%s,recid=%d)", cp, recid), ethtx.V155(cp, recid), core)
		}
	}
	for i := int64(0); i <= 40; i++ {
		addChain(big.NewInt(i), false)
	}
	for k := int64(1); k <= 60; k++ {
		addChain(new(big.Int).Add(c, big.NewInt(k)), false)
		addChain(new(big.Int).Sub(c, big.NewInt(k)), k == 27 || k == 28)
	}
	addChain(new(big.Int).Rsh(c, 1), false)
	addChain(new(big.Int).Lsh(c, 1), false)
	for _, k := range []int64{128, 127, 256} {
		addChain(new(big.Int).Add(c, big.NewInt(k)), false)
		addChain(new(big.Int).Sub(c, big.NewInt(k)), false)
	}
	base := new(big.Int).Add(new(big.Int).Lsh(c, 1), big.NewInt(8)) // 2c+8
	for _, rest := range []int64{-28, -27, -26, -29, -1, 0, 1, 26, 29, 255, 256, -255, -256, 283, 284, -283, -284, 27 + 65536, -27 - 65536} {
		add(fmt.Sprintf("rest=%d", rest), new(big.Int).Add(base, big.NewInt(rest)), true)
	}
	for _, v := range []int64{0, 1, 2, 3, 27, 28, 29, 30, 35, 36} {
		add(fmt.Sprintf("plain=%d", v), big.NewInt(v), true)
	}
	one := big.NewInt(1)
	honest0 := ethtx.V155(c, 0)
	for _, sh := range []uint{8, 16, 32, 63, 64, 72, 128, 255} {
		add(fmt.Sprintf("honest+2^%d", sh), new(big.Int).Add(honest0, new(big.Int).Lsh(one, sh)), sh == 64)
		add(fmt.Sprintf("27+2^%d", sh), new(big.Int).Add(big.NewInt(27), new(big.Int).Lsh(one, sh)), false)
	}
	add("2^64-1", new(big.Int).Sub(new(big.Int).Lsh(one, 64), one), false)
	add("2^256-1", max256, false)
	return out
}

func (x *runner) runEth(b *ethBase) {
	r := x.r
	rng := r.Rand("eth-mut", x.idx)
	if !x.checkConversion(b) {
		return
	}
	tx, h := b.tx, b.height
	if !x.honest(tx, h) {
		return
	}

	// (1) single-field mutations of the wrapper (everything compareTx must bind)
	for _, f := range []string{"Source", "Target", "ChainId", "Data"} {
		for _, m := range stringMutations(getField(tx, f), rng) {
			x.mutant("field="+f+":"+m.name, "accepted-mutant:field="+f, true, setField(tx, f, m.val), h)
		}
	}
	{ // semantic Data mutations: the JSON re-marshalled with one member changed
		var cd types.ContractData
		json.Unmarshal([]byte(tx.Data), &cd)
		one := big.NewInt(1)
		alt := []struct {
			name string
			f    func(c *types.ContractData)
		}{
			{"gasLimit+1", func(c *types.ContractData) { c.GasLimit = strconv.FormatUint(b.ref.Gas+1, 10) }},
			{"gasPrice+1", func(c *types.ContractData) { c.GasPrice = new(big.Int).Add(b.ref.GasPrice, one).String() }},
			{"abiData-append", func(c *types.ContractData) {
				c.AbiData = "0x" + hex.EncodeToString(append(append([]byte{}, b.ref.Data...), 0x01))
			}},
			{"abiData-upper", func(c *types.ContractData) { c.AbiData = "0x" + strings.ToUpper(strings.TrimPrefix(cd.AbiData, "0x")) }},
			{"transferValue-append-0", func(c *types.ContractData) {
				if strings.Contains(c.TransferValue, ".") {
					c.TransferValue += "0"
				} else {
					c.TransferValue += ".0"
				}
			}},
			{"transferValue-x10", func(c *types.ContractData) { c.TransferValue = strings.Replace(c.TransferValue, ".", "", 1) + "0" }},
			{"transferValue-empty", func(c *types.ContractData) { c.TransferValue = "" }},
		}
		for _, a := range alt {
			c2 := cd
			a.f(&c2)
			js, _ := json.Marshal(c2)
			x.mutant("field=Data:json-"+a.name, "accepted-mutant:field=Data", true, setField(tx, "Data", string(js)), h)
		}
		x.mutant("field=Data:json-leading-space", "accepted-mutant:field=Data", true, setField(tx, "Data", " "+tx.Data), h)
		x.mutant("field=Data:json-inner-space", "accepted-mutant:field=Data", true, setField(tx, "Data", strings.Replace(tx.Data, ":", ": ", 1)), h)
	}
	for _, m := range nonceMutations(tx.Nonce) {
		c := clone(tx)
		c.Nonce = m.val
		x.mutant("field=Nonce:"+m.name, "accepted-mutant:field=Nonce", true, c, h)
	}
	for _, m := range typeMutations(tx.Type, true) {
		c := clone(tx)
		c.Type = m.val
		x.mutant("field=Type:"+m.name, "accepted-mutant:field=Type", true, c, h)
	}
	for bit := 0; bit < 256; bit++ {
		if x.skipLight(bit) {
			continue
		}
		c := clone(tx)
		copy(c.Hash[:], flipBit(tx.Hash[:], bit))
		x.mutant("hash-bitflip:"+strconv.Itoa(bit), "accepted-mutant:hash-bitflip", true, c, h)
	}

	// (2) ExtraData as a string: other spellings of the same bytes, trailing data
	hx := hex.EncodeToString(b.enc)
	for _, m := range []strMut{{"upper-hex", "0x" + strings.ToUpper(hx)}, {"0X-prefix", "0X" + hx}, {"no-0x", hx},
		{"case-one", swapOneCase(tx.ExtraData, rng)}, {"append-nonhex", "0x" + hx + "zz"}, {"append-nonhex-g", "0x" + hx + "g"},
		{"append-byte-00", "0x" + hx + "00"}, {"append-byte-random", "0x" + hx + hex.EncodeToString([]byte{byte(rng.Intn(256))})},
		{"prepend-byte-00", "0x00" + hx}, {"append-space", tx.ExtraData + " "}, {"prepend-space", " " + tx.ExtraData},
		{"append-nibble", "0x" + hx + "0"}, {"trunc-byte", "0x" + hx[:len(hx)-2]}, {"trunc-nibble", "0x" + hx[:len(hx)-1]},
		{"empty", ""}, {"0x", "0x"}, {"double", "0x" + hx + hx}, {"inner-space", "0x" + hx[:8] + " " + hx[8:]}} {
		x.mutant("field=ExtraData:"+m.name, "accepted-mutant:field=ExtraData", true, setField(tx, "ExtraData", m.val), h)
	}

	// (3) single-bit flips of the RLP payload. "stale": only ExtraData changes
	// (single-field mutation). "forgery": when the flipped payload still decodes,
	// the whole wrapper is re-derived from it but keeps the honest signer as Source.
	for _, bit := range rlpBits(len(b.enc), rng) {
		if x.skipLight(bit) {
			continue
		}
		menc := flipBit(b.enc, bit)
		class := "accepted-mutant:rlp-bitflip"
		fw := wrap(menc, b.sender)
		if fw != nil && fw.Hash == tx.Hash {
			// the flipped payload decodes to the very same transaction: the decoder
			// accepted a second encoding of it
			class += ":noncanonical-alias"
		}
		x.mutant("rlp-bitflip:"+strconv.Itoa(bit), class, true, setField(tx, "ExtraData", hex0x(menc)), h)
		if fw != nil {
			fclass := "accepted-forgery:rlp-bitflip"
			if fw.Hash == tx.Hash {
				fclass += ":noncanonical-alias"
			}
			x.mutant("rlp-bitflip-forgery:"+strconv.Itoa(bit), fclass, true, fw, h)
		}
	}

	// (4) one field inside the signed payload changed, v/r/s kept
	one := big.NewInt(1)
	inner := []innerMut{
		{"nonce:+1", func(t *ethtx.Tx) { t.Nonce++ }},
		{"nonce:-1", func(t *ethtx.Tx) { t.Nonce-- }},
		{"gasprice:+1", func(t *ethtx.Tx) { t.GasPrice = new(big.Int).Add(t.GasPrice, one) }},
		{"gasprice:zero", func(t *ethtx.Tx) { t.GasPrice = new(big.Int) }},
		{"gas:+1", func(t *ethtx.Tx) { t.Gas++ }},
		{"gas:-1", func(t *ethtx.Tx) { t.Gas-- }},
		{"to:other", func(t *ethtx.Tx) { t.To = make([]byte, 20); rng.Read(t.To) }},
		{"to:creation-toggle", func(t *ethtx.Tx) {
			if len(t.To) == 0 {
				t.To = make([]byte, 20)
				rng.Read(t.To)
			} else {
				t.To = nil
			}
		}},
		{"to:last-byte", func(t *ethtx.Tx) {
			if len(t.To) > 0 {
				t.To = append([]byte{}, t.To...)
				t.To[19] ^= 1
			}
		}},
		{"value:+1", func(t *ethtx.Tx) { t.Value = new(big.Int).Add(t.Value, one) }},
		{"value:x10", func(t *ethtx.Tx) { t.Value = new(big.Int).Mul(t.Value, big.NewInt(10)) }},
		{"value:zero", func(t *ethtx.Tx) { t.Value = new(big.Int) }},
		{"data:append", func(t *ethtx.Tx) { t.Data = append(append([]byte{}, t.Data...), 0) }},
		{"data:empty", func(t *ethtx.Tx) { t.Data = nil }},
		{"data:drop-last", func(t *ethtx.Tx) {
			if len(t.Data) > 0 {
				t.Data = t.Data[:len(t.Data)-1]
			}
		}},
	}
	two := big.NewInt(2)
	vOther := new(big.Int).Add(b.ref.V, one) // other parity: v = 35+2c (odd, recid 0) <-> 36+2c (even, recid 1)
	if b.ref.V.Bit(0) == 0 {
		vOther = new(big.Int).Sub(b.ref.V, one)
	}
	for _, a := range sigAlgebra(b.ref.R, b.ref.S) {
		a := a
		inner = append(inner, innerMut{"sig-algebra:" + a.class + ":" + a.label, func(t *ethtx.Tx) {
			t.R, t.S = a.r, a.s
			if a.flipParity {
				t.V = vOther
			}
		}})
	}
	recid := int64(1 - b.ref.V.Bit(0)) // v = 35+2c+recid, 35+2c is odd
	for _, v := range []struct {
		name string
		v    *big.Int
	}{
		{"v=27+recid", big.NewInt(27 + recid)}, {"v=28-recid", big.NewInt(28 - recid)}, {"v=recid", big.NewInt(recid)},
		{"v=0", new(big.Int)}, {"v=1", one}, {"v=35+recid", big.NewInt(35 + recid)},
		{"v+2", new(big.Int).Add(b.ref.V, two)}, {"v-2", new(big.Int).Sub(b.ref.V, two)}, {"v+4", new(big.Int).Add(b.ref.V, big.NewInt(4))},
		{"v+2^64", new(big.Int).Add(b.ref.V, new(big.Int).Lsh(one, 64))}, {"v+256", new(big.Int).Add(b.ref.V, big.NewInt(256))},
		{"v+2^8k", new(big.Int).Add(b.ref.V, new(big.Int).Lsh(one, 72))},
	} {
		v := v
		inner = append(inner, innerMut{"sig-algebra:v-range:" + v.name, func(t *ethtx.Tx) { t.V = v.v }})
	}
	for _, a := range inner {
		t := b.ref
		a.f(&t)
		menc := t.Encode()
		cls := a.name
		if i := strings.LastIndex(cls, ":"); i > 0 {
			cls = cls[:i]
		}
		x.mutant("rlp-field="+a.name+":stale", "accepted-mutant:rlp-field="+cls, true, setField(tx, "ExtraData", hex0x(menc)), h)
		if fw := wrap(menc, b.sender); fw != nil {
			x.mutant("rlp-field="+a.name+":forgery", "accepted-forgery:rlp-field="+cls, true, fw, h)
		}
	}

	// (4b) V relabelling: the honest R,S (and the twin R, n-S) under every V of a
	// structured set; the wrapper is rebuilt from the relabelled payload exactly as the
	// node's conversion would derive it (chain id from that V, hash of that payload)
	// and claims the honest sender. Only the honest (payload, wrapper) may verify.
	nS := new(big.Int).Sub(ethtx.N, b.ref.S)
	for ri, rv := range vRelabelSet(b.chain) {
		if !rv.core && x.skipLight(ri) {
			continue
		}
		for ti, sv := range []*big.Int{b.ref.S, nS} {
			t := b.ref
			t.V, t.S = rv.v, sv
			menc := t.Encode()
			name := rv.name
			if ti == 1 {
				name += ":twin"
			}
			if rv.core && ti == 0 {
				x.mutant("v-relabel="+name+":stale", "accepted-mutant:rlp-field=v-relabel", true, setField(tx, "ExtraData", hex0x(menc)), h)
			}
			if fw := wrap(menc, b.sender); fw != nil {
				x.mutant("v-relabel="+name+":forgery", "accepted-forgery:rlp-field=v-relabel", true, fw, h)
			}
		}
	}

	// (5) honestly signed by the same key, but not for this chain
	unsigned := b.ref
	unsigned.V, unsigned.R, unsigned.S = nil, nil, nil
	oc, _ := new(big.Int).SetString(otherChain(x.cfg, h), 10)
	for _, c := range []*big.Int{oc, new(big.Int).Add(b.chain, one), new(big.Int).Sub(b.chain, one), big.NewInt(1), new(big.Int),
		new(big.Int).Add(b.chain, new(big.Int).Lsh(one, 63)), new(big.Int).Add(b.chain, new(big.Int).Lsh(one, 64))} {
		ft := signRef(unsigned, b.key, "155", c)
		if fw := wrap(ft.Encode(), b.sender); fw != nil {
			x.mutant("foreign-chain:eip155:"+c.String(), "accepted-foreign-chain:eip155", true, fw, h)
		}
	}
	{
		// pre-EIP-155 signature (v = 27/28): bound to no chain at all
		ft := signRef(unsigned, b.key, "homestead", nil)
		if fw := wrap(ft.Encode(), b.sender); fw != nil {
			x.mutant("unprotected:homestead", "accepted-unprotected:homestead-v27-28", true, fw, h)
		}
	}
	if x.cfg != cfgA {
		x.mutant("wrong-height", "accepted-wrong-height", true, tx, otherSideHeight(h, rng))
	}

	x.infoUnauthenticated(tx, h, rng, true)
	r.Count("distinct_judged_mutants", x.distinct)
	x.distinct = 0
}

// ---------------------------------------------------------------------------

func (x *runner) runBase(kind, cfg string, idx int) {
	x.kind, x.cfg, x.idx = kind, cfg, idx
	x.sampled = 0
	if kind == "native" {
		x.runNative(genNative(x.r, cfg, idx))
	} else {
		x.runEth(genEth(x.r, cfg, idx))
	}
	x.r.Count("bases_"+kind, 1)
}

func childMain(r *mon.Run, args []string) {
	if len(args) < 4 {
		fmt.Println("MACHINERY: child args")
		os.Exit(2)
	}
	kind, cfg := args[0], args[1]
	from, _ := strconv.Atoi(args[2])
	to, _ := strconv.Atoi(args[3])
	if kind == "entry" {
		dir := bootCore(cfg)
		var n int64
		for idx := from; idx < to; idx++ {
			n += entryGroup(r, cfg, idx)
		}
		cleanup(dir)
		r.Finish(mon.Coverage{Evaluations: n})
	}
	dir := boot(cfg)
	if kind == "conc" {
		n := concPhase(r, cfg, from)
		cleanup(dir)
		r.Finish(mon.Coverage{Evaluations: n})
	}
	x := &runner{r: r, pool: service.GetTransactionPool()}
	if len(args) > 4 {
		x.only = args[4]
	}
	for idx := from; idx < to; idx++ {
		x.runBase(kind, cfg, idx)
	}
	cleanup(dir)
	r.Finish(mon.Coverage{Evaluations: x.evals})
}

func cleanup(dir string) {
	if strings.Contains(dir, "verif-c07-") {
		os.Chdir("/")
		os.RemoveAll(dir)
	}
}

const rule = "bases: seeded key pairs (random, tiny, leading-zero, near-order scalars; loaded with HexStringToSecKey / BytesToSecKey / eth ToECDSA) x contents " +
	"(empty strings, JSON, unicode, invalid UTF-8, digit strings, 4 KiB-1 MiB Data, nonce 0 / 2^64-1, contract creation, boundary RLP sizes) in four chain configurations " +
	"(A: dev id 9500; B, C, D: OriginalChainId below / ChainId from the Proposal001 fork with ids 6666/7777, 1/28, 2^31/2^79+23). Native: Hash=GenHash(), PrivateKey.Sign; ETH: EIP-155 legacy tx built, RLP-encoded, hashed by the independent reference and wrapped with ConvertTx. " +
	"Mutants per base: every string/number mutation (empty, truncate, extend, case, +-1, bit flips, swaps, prefixes) of every authenticated field, all 256 Hash bit flips, all 520 signature bit flips (native), " +
	"RLP payload bit flips (all up to 256 B; head, tail and a sample beyond) both as ExtraData-only mutation and as re-derived wrapper claiming the honest sender, ExtraData spelling variants, " +
	"one-field changes inside the signed payload, V relabelling (honest R,S and the twin under ~400 structured V values: other chain ids, near-miss rests of V-2c-8, 27/28, 0/1, huge; wrapper re-derived consistently), signature algebra (high-s twin, recid/v range, r=0, s=0, r>=n, s>=n), re-hashed and re-signed forgeries, foreign-chain / unprotected signatures, wrong height. " +
	"Non-trivial = judged mutant (differs from its base in what VerifyTransaction can see; honest cases are the control); distinct = measured per base by content fingerprint, bases distinct by hash. " +
	"Concurrent phase: 32 verifier goroutines on 16 Ps and a goroutine forcing garbage collections, each verifier with its own stream of honest transactions (up to 1 MiB Data / ExtraData) and interleaved mutants, fixed number of rounds; every verdict must equal the oracle and the sequential verdict of the same transaction. " +
	"Entry-point phase (core booted, configurations A and B): a seeded sample of one mutant per class and the honest base are delivered through GameExecutor.runWrite (all 8 combinations of user id / request nonce / gate nonce x base type 0 / operator event / contract / ETH), the ClientTransactionWrite bus subscription and WorkerConn.handleMessage TransactionGotMsg batches (sizes 1-8 x all-honest / all-forged / forged-first / honest-first / interleaved / duplicates); a transaction must be pending in the pool or have an effect on the latest state iff VerifyTransaction accepts it alone. " +
	"Unauthenticated fields, the recid 0/1 alias and multi-field boundary shifts are evaluated and counted (info_*) but not judged."

func main() {
	if args, ok := mon.IsChildInvocation(); ok {
		childMain(mon.Start("C07"), args)
		return
	}
	r := mon.Start("C07")
	if p := mon.ReplayArg(); p != "" {
		replay(r, p)
		return
	}

	nNative := r.Pick(240, 20000)
	nEth := r.Pick(240, 20000)
	batch := r.Pick(8, 100)
	var specs []mon.ChildSpec
	timeout := time.Duration(r.Pick(150, 1200)) * time.Second
	add := func(kind string, n int) {
		for from, b := 0, 0; from < n; from, b = from+batch, b+1 {
			to := from + batch
			if to > n {
				to = n
			}
			cfg := allCfgs[b%len(allCfgs)]
			specs = append(specs, mon.ChildSpec{Label: fmt.Sprintf("%s-%s-%d", kind, cfg, from),
				Args: []string{kind, cfg, strconv.Itoa(from), strconv.Itoa(to)}, Timeout: timeout})
		}
	}
	// concurrent phases first
	for i := 0; i < r.Pick(2, 8); i++ {
		cfg := allCfgs[i%len(allCfgs)]
		specs = append(specs, mon.ChildSpec{Label: fmt.Sprintf("conc-%s-%d", cfg, i), Args: []string{"conc", cfg, strconv.Itoa(i), strconv.Itoa(i + 1)}, Timeout: timeout})
	}
	// entry-point phases (core booted): 96 groups per configuration cover every
	// runWrite message combination x base type and every peer arrangement x size
	entryGroups, entryBatch := r.Pick(96, 1920), r.Pick(32, 96)
	for _, cfg := range []string{cfgA, cfgB} {
		for from := 0; from < entryGroups; from += entryBatch {
			specs = append(specs, mon.ChildSpec{Label: fmt.Sprintf("entry-%s-%d", cfg, from), Args: []string{"entry", cfg, strconv.Itoa(from), strconv.Itoa(from + entryBatch)}, Timeout: timeout})
		}
	}
	nConc := len(specs)
	add("eth", nEth) // the slower batches first
	add("native", nNative)
	results := r.RunChildren(specs, runtime.NumCPU())
	// absorb one native batch right after the first ETH batch so that the evidence
	// samples (first six) show both kinds
	order := []int{nConc, len(results) - 1}
	for i := 0; i < len(results)-1; i++ {
		if i != nConc {
			order = append(order, i)
		}
	}
	for _, i := range order {
		r.Absorb(results[i], "C07:"+results[i].Spec.Args[0])
	}
	mon.CleanWork()

	bases := r.Get("bases_native") + r.Get("bases_eth")
	distinct := r.Get("distinct_judged_mutants")
	if int64(r.DistinctCount("base")) != r.Get("honest_native_accepted")+r.Get("honest_eth_accepted") {
		r.Note("only %d distinct bases among %d accepted honest transactions; distinct_nontrivial scaled accordingly", r.DistinctCount("base"), bases)
		if bases > 0 {
			distinct = distinct * int64(r.DistinctCount("base")) / bases
		}
	}
	r.Finish(mon.Coverage{
		Evaluations:        r.Get("evaluations"),
		DistinctNontrivial: distinct,
		Rule:               rule,
		Assumptions: []string{
			"the harness' own table of chain ids per configuration/height is what \"the chain's id\" means (cross-checked against common.ChainId at boot)",
			"an honest native transaction is one whose Hash is GenHash() of its content and whose Sign is PrivateKey.Sign(Hash) by the key whose address is Source",
			"the recid 0/1 spelling of an honest 27/28 signature denotes the same (r,s,recovery id) and is therefore recorded, not judged",
			"x/crypto Keccak-256, math/big and the reference RLP encoder are correct (oracle side)",
		},
		MustObserve: []string{"honest_native_accepted", "honest_eth_accepted", "judged_native", "judged_eth", "eth_conversion_checked",
			"rejected_native:ErrHash", "rejected_native:ErrSign", "rejected_native:ErrChainId", "rejected_eth:ErrIllegal",
			"judged_native:mutant:sign-bitflip", "judged_eth:mutant:rlp-bitflip", "judged_eth:forgery:rlp-bitflip", "judged_eth:forgery:rlp-field=v-relabel",
			"concurrent_overlapping_verifications", "concurrent_honest_accepted", "concurrent_mutants_rejected",
			"entry_runWrite_honest_admitted", "entry_runWrite_forged_refused", "entry_bus_honest_admitted", "entry_bus_forged_refused",
			"entry_peer_honest_admitted", "entry_peer_forged_refused", "entry_peer_mixed_batches", "entry_runWrite_repeats",
			"entry_runWrite_combo:user=0,nonce=0,gateNonce=0", "entry_runWrite_combo:user=0,nonce=0,gateNonce=set",
			"entry_runWrite_combo:user=0,nonce=set,gateNonce=0", "entry_runWrite_combo:user=0,nonce=set,gateNonce=set",
			"entry_runWrite_combo:user=set,nonce=0,gateNonce=0", "entry_runWrite_combo:user=set,nonce=0,gateNonce=set",
			"entry_runWrite_combo:user=set,nonce=set,gateNonce=0", "entry_runWrite_combo:user=set,nonce=set,gateNonce=set",
			"entry_runWrite_basetype:0", "entry_runWrite_basetype:100", "entry_runWrite_basetype:200", "entry_runWrite_basetype:188",
			"entry_bus_basetype:0", "entry_bus_basetype:100", "entry_bus_basetype:200", "entry_bus_basetype:188",
			"entry_peer_arrangement:all-honest", "entry_peer_arrangement:all-forged", "entry_peer_arrangement:forged-first", "entry_peer_arrangement:honest-first",
			"entry_peer_arrangement:interleaved-HF", "entry_peer_arrangement:interleaved-FH", "entry_peer_arrangement:duplicates",
			"entry_peer_size:1", "entry_peer_size:2", "entry_peer_size:3", "entry_peer_size:4", "entry_peer_size:5", "entry_peer_size:6", "entry_peer_size:7", "entry_peer_size:8"},
	})
}

// replay re-runs one recorded case: either the transaction stored in the
// witness, or (fatal child death) the logged case descriptor regenerated from the seed.
func replay(r *mon.Run, path string) {
	v, err := mon.LoadReplay(path)
	if err != nil {
		fmt.Println("MACHINERY:", err)
		os.Exit(2)
	}
	r.Seed, r.Tier = v.Seed, v.Tier
	var outer struct {
		Case     *witJSON `json:"case"`
		LastCase string   `json:"last_case"`
	}
	var w witJSON
	json.Unmarshal(v.Witness, &outer)
	json.Unmarshal(v.Witness, &w)
	if outer.Case != nil {
		w = *outer.Case
	}
	if outer.LastCase != "" {
		b, _ := hex.DecodeString(outer.LastCase)
		json.Unmarshal(b, &w)
	}
	if w.Kind == "" || w.Cfg == "" {
		fmt.Println("MACHINERY: replay file has no usable case")
		os.Exit(2)
	}
	if w.Kind == "entry" {
		// an entry-point group is re-run as a whole
		dir := bootCore(w.Cfg)
		n := entryGroup(r, w.Cfg, w.Idx)
		cleanup(dir)
		r.Finish(mon.Coverage{Evaluations: n + 2, DistinctNontrivial: 2, Rule: "replay of one recorded entry-point group"})
	}
	dir := boot(w.Cfg)
	x := &runner{r: r, pool: service.GetTransactionPool(), kind: w.Kind, cfg: w.Cfg, idx: w.Idx}
	if w.Kind == "conc" {
		// a concurrent phase is re-run as a whole (same streams, new schedule)
		x.evals = concPhase(r, w.Cfg, w.Idx)
	} else if w.Tx != nil {
		tx := fromTxJSON(w.Tx)
		ww := &wit{Kind: w.Kind, Cfg: w.Cfg, Idx: w.Idx, Mut: w.Mut, Class: w.Class, Expect: w.Expect, Height: w.Height, tx: tx}
		verr, panicked := x.verify(ww)
		fmt.Printf("replay %s %s idx=%d mut=%q height=%d: VerifyTransaction -> %v (expected %s)\n", w.Kind, w.Cfg, w.Idx, w.Mut, w.Height, verr, w.Expect)
		if !panicked {
			switch {
			case w.Expect == "accept" && verr != nil:
				r.Violation(v.Signature, "replayed honest transaction still rejected: "+verr.Error(), ww)
			case w.Expect == "reject" && verr == nil:
				r.Violation(v.Signature, "replayed mutant still accepted", ww)
			}
		}
	} else {
		// regenerate the base from (seed, idx) and evaluate only the recorded mutation
		x.only = w.Mut
		x.runBase(w.Kind, w.Cfg, w.Idx)
	}
	cleanup(dir)
	n := x.evals
	if n < 2 {
		n = 2
	}
	r.Finish(mon.Coverage{Evaluations: n, DistinctNontrivial: 2, Rule: "replay of one recorded case"})
}
