// C15 — verifiers count only signature shares valid for the block being signed.
//
// The harness plays all members of a group through the node's own DKG (H3a), then feeds the
// real round-1 handler (round1.Update via H3c, member public shares looked up through the
// real GroupCreateProcessor / JoinedGroupStorage) with generated sequences of verify messages
// in which a subset of senders is Byzantine. After every message both share sets are read
// back and compared entry by entry with the unique valid share of each member (BLS
// signatures are unique, the harness knows every key); at the end the real
// round2.checkSignature judges the recovered block signature and beacon value.
package main

import (
	"encoding/hex"
	"encoding/json"
	"fmt"
	"math/rand"
	"os"
	"strconv"
	"strings"
	"sync"
	"time"

	"com.tuntun.rangers/node/src/common"
	"com.tuntun.rangers/node/src/consensus/access"
	"com.tuntun.rangers/node/src/consensus/groupsig"
	bn "com.tuntun.rangers/node/src/consensus/groupsig/bn256"
	"com.tuntun.rangers/node/src/consensus/logical"
	"com.tuntun.rangers/node/src/consensus/logical/group_create"
	"com.tuntun.rangers/node/src/consensus/model"
	"com.tuntun.rangers/node/src/consensus/net"
	"com.tuntun.rangers/node/src/core"
	middleware_pb "com.tuntun.rangers/node/src/middleware/pb"
	"com.tuntun.rangers/node/src/middleware/types"
	"github.com/golang/protobuf/proto"

	"verifharness/env"
	"verifharness/mon"
)

// stubs ---------------------------------------------------------------------

type jgChain struct {
	core.GroupChain
	m map[string][]byte
}

func (c *jgChain) SaveJoinedGroup(id []byte, value []byte) bool {
	c.m[string(id)] = append([]byte{}, value...)
	return true
}
func (c *jgChain) GetJoinedGroup(id []byte) ([]byte, error) {
	if v, ok := c.m[string(id)]; ok {
		return v, nil
	}
	return nil, fmt.Errorf("not found")
}
func (c *jgChain) DeleteJoinedGroup(id []byte) bool { delete(c.m, string(id)); return true }

type blockChainStub struct {
	core.BlockChain
}

func (b *blockChainStub) HasBlockByHash(hash common.Hash) bool { return false }

// procChain is the block chain a finalising party talks to: it records the blocks handed to
// AddBlockOnChain.
type procChain struct {
	core.BlockChain
	mu    sync.Mutex
	added []*types.Block
}

func (c *procChain) HasBlockByHash(hash common.Hash) bool { return false }
func (c *procChain) GenerateBlock(bh types.BlockHeader) *types.Block {
	h := bh
	return &types.Block{Header: &h}
}
func (c *procChain) AddBlockOnChain(b *types.Block) types.AddBlockResult {
	c.mu.Lock()
	defer c.mu.Unlock()
	c.added = append(c.added, b)
	return types.AddBlockSucc
}
func (c *procChain) blocks() []*types.Block {
	c.mu.Lock()
	defer c.mu.Unlock()
	return append([]*types.Block{}, c.added...)
}

// waitFor polls cond (logical conditions of the node's own state) under a generous wall-clock
// watchdog; false = the watchdog fired (inconclusive, never a verdict).
func waitFor(cond func() bool, max time.Duration) bool {
	deadline := time.Now().Add(max)
	for !cond() {
		if time.Now().After(deadline) {
			return false
		}
		time.Sleep(time.Millisecond)
	}
	return true
}

type netStub struct {
	net.NetworkServer
	asked int
}

func (n *netStub) AskSignPkMessage(msg *model.SignPubkeyReqMessage, receiver groupsig.ID) { n.asked++ }

// ---------------------------------------------------------------------------

// Msg describes one delivered verify message.
type Msg struct {
	From  int    `json:"from"`  // member index (or -1: non-member)
	Class string `json:"class"` // honest | other-hash | consistent-other-hash | signpk-overwrite | signpk-squat | non-member-announced | replay-block-share | garbage | identity | bad-beacon | replay-beacon | non-member | duplicate | wrong-filed-hash
	Aux   int    `json:"aux,omitempty"`
}

type Case struct {
	N      int   `json:"n"`
	Seq    int   `json:"seq"`
	Msgs   []Msg `json:"msgs"`
	Future int   `json:"future"` // the first Future messages are stored before the round starts
	// LateKey = i+1: the node does not know member i's sign public key when the case starts
	// (fresh joined-group storage for this case); the member's genuine self-certified
	// announcement is delivered right before its first own message. 0: all keys known.
	LateKey int `json:"late_key,omitempty"`
	// Proc: the messages enter through Processor.OnMessageVerify (hook H3e): the first Future
	// ones before the node has verified the proposal (parked under the block hash, replayed when
	// the party takes the block hash as id), the others afterwards.
	Proc bool `json:"proc,omitempty"`
	// Wire: every message is encoded as senders encode it and passed through the node's wire decoder
	// (net.UnMarshalConsensusVerifyMessage), so that it carries the message id the node derives
	Wire bool `json:"wire,omitempty"`
}

type group struct {
	n, k     int
	members  []*model.SelfMinerInfo
	dkg      *group_create.VerifDKGResult
	gid      groupsig.ID
	gpk      groupsig.Pubkey
	info     *model.GroupInfo
	outsider *model.SelfMinerInfo
	gh       common.Hash
	ns       *netStub
}

// installStore gives the node a joined-group storage that knows the sign public key of
// every member except `without` (-1: all known), as on a node that has not yet received
// that member's announcement.
func (g *group) installStore(store *access.JoinedGroupStorage, without int) {
	jg := model.NewJoindGroupInfo(g.dkg.SignSKs[0], g.gpk, g.gh)
	for i := 0; i < g.n; i++ {
		if i != without {
			jg.AddMemberSignPK(g.dkg.IDs[i], g.dkg.SignPKs[i])
		}
	}
	store.JoinGroup(jg, g.dkg.IDs[0])
	group_create.VerifSetup(*g.members[0], store, g.ns)
}

func minerFromRng(rng *rand.Rand) *model.SelfMinerInfo {
	b := make([]byte, 32)
	rng.Read(b)
	b[0] |= 1
	sk := common.HexStringToSecKey("0x" + hex.EncodeToString(b))
	mi := model.NewSelfMinerInfo(*sk)
	return &mi
}

func newGroup(rng *rand.Rand, n int, store *access.JoinedGroupStorage) *group {
	g := &group{n: n}
	for i := 0; i < n; i++ {
		g.members = append(g.members, minerFromRng(rng))
	}
	g.outsider = minerFromRng(rng)
	var gh common.Hash
	rng.Read(gh[:])
	g.dkg = group_create.VerifDKG(g.members, gh, nil)
	g.k = g.dkg.K
	g.gpk = g.dkg.GroupPKs[0]
	g.gid = *groupsig.NewIDFromPubkey(g.gpk)
	g.gh = gh
	header := &types.GroupHeader{Hash: gh}
	g.info = &model.GroupInfo{GroupID: g.gid, GroupPK: g.gpk, GroupInitInfo: &model.GroupInitInfo{GroupHeader: header, GroupMembers: g.dkg.IDs}}
	g.info.BuildMemberIndex()
	return g
}

func sigBytes(s groupsig.Signature) string { return hex.EncodeToString(s.Serialize()) }

// runCase feeds one message sequence to a fresh round1 and judges it.
func runCase(r *mon.Run, g *group, c Case, rng *rand.Rand, ns *netStub) {
	var bhHash, otherHash common.Hash
	rng.Read(bhHash[:])
	rng.Read(otherHash[:])
	preRandom := make([]byte, 32)
	rng.Read(preRandom)
	otherRandom := make([]byte, 32)
	rng.Read(otherRandom)
	bh := &types.BlockHeader{Hash: bhHash, Height: 10, GroupId: g.gid.Serialize()}
	preBH := &types.BlockHeader{Height: 9, Random: preRandom}

	validBlock := make([]string, g.n)
	validBeacon := make([]string, g.n)
	idIndex := map[string]int{}
	for i := 0; i < g.n; i++ {
		validBlock[i] = sigBytes(groupsig.Sign(g.dkg.SignSKs[i], bhHash.Bytes()))
		validBeacon[i] = sigBytes(groupsig.Sign(g.dkg.SignSKs[i], preRandom))
		idIndex[g.dkg.IDs[i].GetHexString()] = i
	}
	if c.LateKey > 0 {
		g.installStore(access.VerifNewJoinedGroupStorage(&jgChain{m: map[string][]byte{}}), c.LateKey-1)
		defer g.installStore(access.VerifNewJoinedGroupStorage(&jgChain{m: map[string][]byte{}}), -1)
		r.Count("late_key_cases", 1)
	}
	announced := false
	announce := func(id groupsig.ID, key groupsig.Seckey, counter string) func() {
		spk := &model.SignPubKeyMessage{GroupHash: g.gh, GroupID: g.gid, SignPK: *groupsig.GeneratePubkey(key), GroupMemberNum: int32(g.n)}
		h := spk.GenHash()
		spk.SignInfo = model.MakeSignInfo(h, groupsig.Sign(key, h.Bytes()), id, common.ConsensusVersion)
		return func() {
			group_create.GroupCreateProcessor.OnMessageSignPK(spk)
			r.Count(counter, 1)
		}
	}
	pre := map[int]func(){} // delivered through another entry point right before message mi
	mkMsg := func(mi int, m Msg) *model.ConsensusVerifyMessage {
		cvm := &model.ConsensusVerifyMessage{BlockHash: bhHash, Id: fmt.Sprintf("m%d-%d", c.Seq, mi)}
		i := m.From
		var id groupsig.ID
		var sk groupsig.Seckey
		if i >= 0 {
			id, sk = g.dkg.IDs[i], g.dkg.SignSKs[i]
		} else {
			id, sk = g.outsider.ID, g.outsider.SecKey
		}
		blockSig := groupsig.Sign(sk, bhHash.Bytes())
		beacon := groupsig.Sign(sk, preRandom)
		dataHash := bhHash
		if c.LateKey > 0 && i == c.LateKey-1 && m.Class != "signpk-squat" && !announced {
			// the member's own announcement precedes its first own message
			announced = true
			pre[mi] = announce(id, sk, "signpk_announcements_genuine_late")
		}
		switch m.Class {
		case "other-hash": // well-signed share over another hash, filed under this block
			blockSig, dataHash = groupsig.Sign(sk, otherHash.Bytes()), otherHash
		case "consistent-other-hash": // self-consistent message of another block (BlockHash = data hash = other hash) handed to this round
			blockSig, dataHash = groupsig.Sign(sk, otherHash.Bytes()), otherHash
			cvm.BlockHash = otherHash
		case "non-member-announced":
			// a non-member first announces a sign public key for its OWN id through the
			// sign-pubkey handler (self-signed, as the handler requires), then sends shares
			// made with that key
			spk := &model.SignPubKeyMessage{GroupHash: g.info.GroupInitInfo.GroupHeader.Hash, GroupID: g.gid, SignPK: *groupsig.GeneratePubkey(sk), GroupMemberNum: int32(g.n)}
			h := spk.GenHash()
			spk.SignInfo = model.MakeSignInfo(h, groupsig.Sign(sk, h.Bytes()), id, common.ConsensusVersion)
			pre[mi] = func() {
				group_create.GroupCreateProcessor.OnMessageSignPK(spk)
				r.Count("signpk_announcements_by_non_member", 1)
			}
		case "signpk-squat":
			// member From's key is not known yet (LateKey): somebody else announces a key for
			// that id FIRST (self-signed with the announced key), then sends shares made with it
			ask := g.outsider.SecKey
			pre[mi] = announce(id, ask, "signpk_announcements_squatting_unknown_member_key")
			blockSig, beacon = groupsig.Sign(ask, bhHash.Bytes()), groupsig.Sign(ask, preRandom)
		case "signpk-overwrite":
			// the sender first announces, through the sign-pubkey message handler, another key for
			// the id of member From (self-signed with that key, as the handler requires), then sends
			// shares made with that key under From's id
			ask := g.outsider.SecKey
			spk := &model.SignPubKeyMessage{GroupHash: g.info.GroupInitInfo.GroupHeader.Hash, GroupID: g.gid, SignPK: *groupsig.GeneratePubkey(ask), GroupMemberNum: int32(g.n)}
			h := spk.GenHash()
			spk.SignInfo = model.MakeSignInfo(h, groupsig.Sign(ask, h.Bytes()), id, common.ConsensusVersion)
			pre[mi] = func() {
				group_create.GroupCreateProcessor.OnMessageSignPK(spk)
				r.Count("signpk_announcements_for_known_member", 1)
			}
			blockSig, beacon = groupsig.Sign(ask, bhHash.Bytes()), groupsig.Sign(ask, preRandom)
		case "replay-block-share": // member Aux's valid share under From's id
			blockSig = groupsig.Sign(g.dkg.SignSKs[m.Aux], bhHash.Bytes())
		case "garbage":
			b := make([]byte, 64)
			rng.Read(b)
			var s groupsig.Signature
			s.Deserialize(b)
			blockSig = s
		case "identity":
			var s groupsig.Signature
			s.Deserialize(make([]byte, 64))
			blockSig = s
		case "relabelled-share":
			// the member's genuine share over ANOTHER block hash, which this node has verified a moment
			// ago in the round of that other block (a competing proposal at the same height), sent
			// again labelled as a share over this block (BlockHash = data hash = this block's hash)
			other := groupsig.Sign(sk, otherHash.Bytes())
			prelude := &model.ConsensusVerifyMessage{BlockHash: otherHash, Id: fmt.Sprintf("x%d-%d", c.Seq, mi)}
			prelude.SignInfo = model.MakeSignInfo(otherHash, other, id, common.ConsensusVersion)
			prelude.RandomSign = groupsig.Sign(sk, preRandom)
			bhX := &types.BlockHeader{Hash: otherHash, Height: 10, GroupId: g.gid.Serialize()}
			rx := logical.VerifNewRound1(g.info, preBH, bhX, &blockChainStub{}, g.dkg.IDs[0], nil)
			if err := rx.Start(); err == nil {
				rx.Update(prelude)
				if len(rx.BlockShares()) == 1 {
					r.Count("prelude_rounds_with_verified_share", 1)
				}
			}
			blockSig = other
		case "offset-pair": // block share + D and beacon share - D: each invalid, their sum is the sum of the valid ones
			var d groupsig.Seckey
			db := make([]byte, 32)
			rng.Read(db)
			db[0] &= 0x0f
			d.Deserialize(db)
			D := groupsig.Sign(d, otherHash.Bytes()).Serialize()
			var bs, be groupsig.Signature
			if err := bs.Deserialize(addG1(blockSig.Serialize(), D, false)); err != nil {
				panic(err)
			}
			if err := be.Deserialize(addG1(beacon.Serialize(), D, true)); err != nil {
				panic(err)
			}
			blockSig, beacon = bs, be
		case "swapped": // the member's two valid shares in each other's field
			blockSig, beacon = beacon, blockSig
		case "bad-beacon": // valid block share, beacon share over a different random value
			beacon = groupsig.Sign(sk, otherRandom)
		case "replay-beacon":
			beacon = groupsig.Sign(g.dkg.SignSKs[m.Aux], preRandom)
		}
		cvm.SignInfo = model.MakeSignInfo(dataHash, blockSig, id, common.ConsensusVersion)
		cvm.RandomSign = beacon
		if c.Wire {
			// the message as it comes out of the node's own wire decoder (its message id is what the
			// decoder derives from the bytes): encoded as the senders encode it, decoded by the node
			version := cvm.SignInfo.GetVersion()
			pbm := &middleware_pb.ConsensusVerifyMessage{BlockHash: cvm.BlockHash.Bytes(), RandomSign: cvm.RandomSign.Serialize(),
				Sign: &middleware_pb.SignData{DataHash: cvm.SignInfo.GetDataHash().Bytes(), DataSign: blockSig.Serialize(), SignMember: id.Serialize(), Version: &version}}
			if b, err := proto.Marshal(pbm); err == nil {
				var dec *model.ConsensusVerifyMessage
				if !r.Guard("C15:wire-decode", c, func() { dec, err = net.UnMarshalConsensusVerifyMessage(b) }) && err == nil && dec != nil {
					r.Count("messages_through_the_wire_decoder", 1)
					return dec
				}
			}
		}
		return cvm
	}

	future := map[string]model.ConsensusMessage{}
	var msgs []*model.ConsensusVerifyMessage
	for mi, m := range c.Msgs {
		msgs = append(msgs, mkMsg(mi, m))
	}
	for i := 0; i < c.Future && i < len(msgs); i++ {
		future[msgs[i].Id] = msgs[i]
		if f := pre[i]; f != nil {
			f()
		}
	}
	round := logical.VerifNewRound1(g.info, preBH, bh, &blockChainStub{}, g.dkg.IDs[0], future)
	getShares := func() (map[string]groupsig.Signature, map[string]groupsig.Signature) {
		return round.BlockShares(), round.BeaconShares()
	}
	fail := func(sig, what string) { r.Violation(sig, what, c) }
	sfx := "" // cases that squat on a not yet known member key carry their own signatures
	for _, m := range c.Msgs {
		if m.Class == "signpk-squat" && c.LateKey > 0 {
			sfx = ":signpk-squat"
		}
	}

	// every share-set entry is attributed to the message during whose delivery it appeared
	blockBy, beaconBy := map[string]string{}, map[string]string{}
	judge := func(at string, cur []Msg) {
		classOf := func(i int) string {
			cls := "invalid"
			for _, m := range cur {
				if m.From == i {
					cls = m.Class
					if m.Class != "honest" && m.Class != "duplicate" {
						break
					}
				}
			}
			return cls
		}
		blockShares, beaconShares := getShares()
		for idHex, s := range blockShares {
			i, member := idIndex[idHex]
			r.Count("share_set_entries_checked", 1)
			if _, seen := blockBy[idHex]; !seen {
				blockBy[idHex] = classOf(i)
			}
			if !member {
				fail("C15:block-share-set:non-member-entry", at+": the block share set holds an entry for a non-member")
			} else if sigBytes(s) != validBlock[i] {
				cls := blockBy[idHex]
				fail("C15:block-share-set:entry-not-valid-for-this-block:"+cls, fmt.Sprintf("%s: the block share set holds for member %d a value that is not that member's share over this block's hash (entered with a message of class %s)", at, i, cls))
			}
		}
		for idHex, s := range beaconShares {
			i, member := idIndex[idHex]
			r.Count("share_set_entries_checked", 1)
			if _, seen := beaconBy[idHex]; !seen {
				beaconBy[idHex] = classOf(i)
			}
			if !member {
				fail("C15:beacon-share-set:non-member-entry", at+": the beacon share set holds an entry for a non-member")
			} else if sigBytes(s) != validBeacon[i] {
				sig := "C15:beacon-share-set:entry-not-valid-for-previous-beacon"
				if beaconBy[idHex] == "signpk-squat" {
					sig += ":signpk-squat"
				}
				fail(sig, fmt.Sprintf("%s: the beacon share set holds for member %d a value that is not that member's share over the previous beacon value (entered with a message of class %s)", at, i, beaconBy[idHex]))
			}
		}
	}

	if c.Proc {
		honest := map[int]bool{}
		for _, m := range c.Msgs {
			if m.Class == "honest" || m.Class == "duplicate" {
				honest[m.From] = true
			}
		}
		r.Guard("C15:processor", c, func() {
			chain := &procChain{}
			castKey := common.ToHex(common.Sha256(append([]byte("proposal key"), bhHash.Bytes()...)))
			realKey := common.ToHex(bhHash.Bytes())
			vp := logical.VerifNewParty(g.info, preBH, bh, chain, g.dkg.IDs[0], castKey)
			getShares = vp.Shares
			nf := minInt(c.Future, len(msgs))
			for i := 0; i < nf; i++ { // (their side actions already ran above, in order)
				vp.P.OnMessageVerify(msgs[i])
			}
			r.Count("proc_cases", 1)
			r.Count("proc_messages_parked_before_proposal_verified", int64(vp.Parked(realKey)))
			vp.AnnounceBlockHash()
			if !waitFor(func() bool { return vp.Registered(realKey) || vp.Finished(realKey) }, 20*time.Second) {
				r.Inconclusive("processor case %d/%d: the party did not take the block hash as id within 20 s", c.N, c.Seq)
				return
			}
			for mi := nf; mi < len(msgs); mi++ {
				if f := pre[mi]; f != nil {
					f()
				}
				vp.P.OnMessageVerify(msgs[mi])
				r.Count("messages_delivered", 1)
				r.Count("class_"+c.Msgs[mi].Class, 1)
				judge(fmt.Sprintf("processor: after message %d (%s from %d)", mi, c.Msgs[mi].Class, c.Msgs[mi].From), c.Msgs[:mi+1])
			}
			over := func() bool { return len(chain.blocks()) > 0 || !vp.Registered(realKey) }
			if len(honest) >= g.k {
				// the node's own bound: waitUntilDone gives a party 10 s
				if !waitFor(over, 25*time.Second) {
					r.Inconclusive("processor case %d/%d: party neither finalised nor ended within 25 s", c.N, c.Seq)
					return
				}
			} else {
				// no finalisation expected: let the replayed messages settle
				var last string
				waitFor(func() bool {
					b, _ := getShares()
					cur := fmt.Sprint(len(b), vp.Parked(realKey))
					same := cur == last
					last = cur
					time.Sleep(20 * time.Millisecond)
					return same
				}, 2*time.Second)
			}
			time.Sleep(20 * time.Millisecond)
			judge("processor: at the end", c.Msgs)
			blocks := chain.blocks()
			switch {
			case len(blocks) > 0:
				r.Count("recoveries", 1)
				h := blocks[0].Header
				sig, rnd := groupsig.DeserializeSign(h.Signature), groupsig.DeserializeSign(h.Random)
				if sig == nil || rnd == nil || !groupsig.VerifySig(g.gpk, bhHash.Bytes(), *sig) || !groupsig.VerifySig(g.gpk, preRandom, *rnd) {
					fail("C15:finalise:recovered-signature-invalid"+sfx, "processor: the finalised block's group signature / beacon does not verify under the group key")
				} else {
					r.Count("recoveries_valid", 1)
					r.Count("proc_blocks_finalised", 1)
				}
			case len(honest) >= g.k:
				b, be := getShares()
				fail("C15:processor:threshold-of-valid-shares-not-finalised"+sfx, fmt.Sprintf("processor: valid shares from %d distinct members (k=%d; %d of the messages parked before the proposal was verified) were delivered through OnMessageVerify but the party ended without finalising the block (block shares held: %d, beacon shares held: %d)", len(honest), g.k, nf, len(b), len(be)))
			}
		})
		return
	}
	panicked := r.Guard("C15:round1", c, func() {
		if err := round.Start(); err != nil {
			r.Count("start_errors", 1)
		}
		if c.Future > 0 {
			judge("after Start with stored messages", c.Msgs[:minInt(c.Future, len(c.Msgs))])
		}
		for mi := c.Future; mi < len(msgs); mi++ {
			if f := pre[mi]; f != nil {
				f()
			}
			if round.CanAccept(msgs[mi]) != 0 {
				r.Count("messages_not_accepted_by_round", 1)
				continue
			}
			if err := round.Update(msgs[mi]); err != nil {
				r.Count("update_errors", 1)
			}
			r.Count("messages_delivered", 1)
			r.Count("class_"+c.Msgs[mi].Class, 1)
			judge(fmt.Sprintf("after message %d (%s from %d)", mi, c.Msgs[mi].Class, c.Msgs[mi].From), c.Msgs[mi:mi+1])
		}
	})
	if panicked {
		return
	}
	for i := 0; i < c.Future && i < len(msgs); i++ {
		r.Count("messages_delivered", 1)
		r.Count("class_"+c.Msgs[i].Class, 1)
		r.Count("future_messages", 1)
	}
	// sequence-level expectation
	honest := map[int]bool{}
	for _, m := range c.Msgs {
		if m.Class == "honest" || m.Class == "duplicate" {
			honest[m.From] = true
		}
	}
	if round.CanProceed() {
		r.Count("recoveries", 1)
		if err := round.CheckSignature(); err != nil {
			fail("C15:finalise:recovered-signature-invalid"+sfx, fmt.Sprintf("threshold reached (%d honest senders of %d, k=%d) but the recovered block signature / beacon does not verify: %v", len(honest), g.n, g.k, err))
		} else {
			r.Count("recoveries_valid", 1)
		}
	} else if len(honest) >= g.k {
		fail("C15:finalise:threshold-of-valid-shares-not-recovered"+sfx, fmt.Sprintf("valid shares from %d distinct members (k=%d) were delivered but the round did not recover a signature", len(honest), g.k))
	}
}

func genCase(rng *rand.Rand, n, k, seq int) Case {
	c := Case{N: n, Seq: seq}
	// honest messages from h members, Byzantine messages from f >= 1 members
	perm := rng.Perm(n)
	f := 1 + rng.Intn(2)
	if f > n-1 {
		f = n - 1
	}
	byz := perm[:f]
	h := k + rng.Intn(n-k+1) - rng.Intn(2) // sometimes one short of the threshold
	if h < 1 {
		h = 1
	}
	var msgs []Msg
	// honest members (a Byzantine member may also send an honest message later)
	for _, i := range rng.Perm(n)[:minInt(h, n)] {
		msgs = append(msgs, Msg{From: i, Class: "honest"})
	}
	classes := []string{"other-hash", "other-hash", "replay-block-share", "garbage", "identity", "bad-beacon", "replay-beacon", "consistent-other-hash", "consistent-other-hash", "signpk-overwrite", "offset-pair", "swapped", "relabelled-share"}
	for _, b := range byz {
		cl := classes[rng.Intn(len(classes))]
		msgs = append(msgs, Msg{From: b, Class: cl, Aux: (b + 1 + rng.Intn(n-1)) % n})
	}
	if rng.Intn(3) == 0 {
		msgs = append(msgs, Msg{From: -1, Class: "non-member"})
	} else if rng.Intn(3) == 0 {
		msgs = append(msgs, Msg{From: -1, Class: "non-member-announced"})
	}
	if rng.Intn(2) == 0 && len(msgs) > 0 {
		m := msgs[rng.Intn(len(msgs))]
		if m.Class == "honest" {
			msgs = append(msgs, Msg{From: m.From, Class: "duplicate"})
		}
	}
	rng.Shuffle(len(msgs), func(i, j int) { msgs[i], msgs[j] = msgs[j], msgs[i] })
	// half of the time make sure a Byzantine message comes first (before the k-th honest one)
	if rng.Intn(2) == 0 {
		for i, m := range msgs {
			if m.Class != "honest" && m.Class != "duplicate" && m.Class != "non-member" && m.Class != "non-member-announced" {
				msgs[0], msgs[i] = msgs[i], msgs[0]
				break
			}
		}
	}
	// a fifth of the cases start without one member's sign public key (learnt from the
	// member's announcement during the case); in half of those somebody squats on that id
	// a third of the cases: somebody sends junk under an honest member's id (and this block's hash)
	// BEFORE that member's own share arrives
	if rng.Intn(3) == 0 {
		for _, m := range msgs {
			if m.Class == "honest" {
				msgs = append([]Msg{{From: m.From, Class: "garbage", Aux: (m.From + 1) % n}}, msgs...)
				break
			}
		}
	}
	var clean []int // members that send nothing but honest / duplicate messages
	for i := 0; i < n; i++ {
		ok := true
		for _, m := range msgs {
			if m.From == i && m.Class != "honest" && m.Class != "duplicate" {
				ok = false
			}
		}
		if ok {
			clean = append(clean, i)
		}
	}
	if rng.Intn(5) == 0 && len(clean) > 0 {
		late := clean[rng.Intn(len(clean))]
		c.LateKey = late + 1
		if rng.Intn(2) == 0 {
			sq := Msg{From: late, Class: "signpk-squat"}
			pos := rng.Intn(len(msgs) + 1)
			if rng.Intn(2) == 0 {
				pos = 0
			}
			msgs = append(msgs[:pos], append([]Msg{sq}, msgs[pos:]...)...)
		}
	}
	c.Msgs = msgs
	if rng.Intn(4) == 0 {
		c.Future = 1 + rng.Intn(len(msgs))
	}
	c.Wire = rng.Intn(2) == 0
	// a third of the cases enter through the Processor (parked / direct verify messages)
	if rng.Intn(3) == 0 {
		c.Proc = true
		if c.Future == 0 && rng.Intn(2) == 0 {
			c.Future = 1 + rng.Intn(len(msgs))
		}
	}
	return c
}

// addG1 returns the serialisation of A + B (or A - B) for two serialised G1 points.
func addG1(a, b []byte, neg bool) []byte {
	A, B := new(bn.G1), new(bn.G1)
	if _, err := A.Unmarshal(a); err != nil {
		panic(err)
	}
	if _, err := B.Unmarshal(b); err != nil {
		panic(err)
	}
	if neg {
		B = new(bn.G1).Neg(B)
	}
	return new(bn.G1).Add(A, B).Marshal()
}

func minInt(a, b int) int {
	if a < b {
		return a
	}
	return b
}

func nontrivial(c Case, k int) bool {
	hon := 0
	for _, m := range c.Msgs {
		if m.Class == "honest" {
			hon++
			if hon >= k {
				return false
			}
		} else if m.Class != "duplicate" && m.Class != "non-member" && m.Class != "non-member-announced" {
			return true
		}
	}
	return false
}

// permutations of a small message list (exhaustive tier for n <= 4)
func permute(ms []Msg, f func([]Msg)) {
	var rec func(int)
	rec = func(i int) {
		if i == len(ms) {
			f(append([]Msg{}, ms...))
			return
		}
		for j := i; j < len(ms); j++ {
			ms[i], ms[j] = ms[j], ms[i]
			rec(i + 1)
			ms[i], ms[j] = ms[j], ms[i]
		}
	}
	rec(0)
}

func child(args []string) {
	r := mon.Start("C15")
	n, _ := strconv.Atoi(args[0])
	from, _ := strconv.Atoi(args[1])
	to, _ := strconv.Atoi(args[2])
	mode := args[3]
	env.ScratchDir("verif-c15-")
	wd, _ := os.Getwd()
	defer os.RemoveAll(wd)
	env.BootServices(env.Forks{})
	net.VerifInitLogger()
	store := access.VerifNewJoinedGroupStorage(&jgChain{m: map[string][]byte{}})
	ns := &netStub{}
	rng := r.Rand("c15-group", n, from)
	g := newGroup(rng, n, store)
	g.ns = ns
	g.installStore(store, -1)
	if g.dkg.Results[0] != 1 {
		fmt.Println("MACHINERY: DKG did not complete")
		os.Exit(3)
	}
	if mode == "replay" {
		var c Case
		json.Unmarshal([]byte(args[4]), &c)
		runCase(r, g, c, r.Rand("c15-case", n, c.Seq), ns)
		os.RemoveAll(wd)
		r.Finish(mon.Coverage{Evaluations: 1})
	}
	cnt := 0
	if mode == "exhaustive" {
		// n <= 4: one Byzantine message of each class + all honest messages, every arrival order
		for _, cl := range []string{"other-hash", "replay-block-share", "bad-beacon", "garbage", "consistent-other-hash", "signpk-overwrite", "offset-pair", "swapped", "relabelled-share"} {
			var ms []Msg
			for i := 0; i < n; i++ {
				ms = append(ms, Msg{From: i, Class: "honest"})
			}
			ms[n-1] = Msg{From: n - 1, Class: cl, Aux: 0}
			if n >= 4 {
				ms = append(ms, Msg{From: n - 1, Class: "honest"}) // the faulty member also sends its valid share
			}
			seq := 0
			permute(ms, func(p []Msg) {
				c := Case{N: n, Seq: 100000 + seq, Msgs: p}
				seq++
				r.CaseBegin([]byte(fmt.Sprint(c)))
				runCase(r, g, c, r.Rand("c15-case", n, c.Seq), ns)
				cnt++
				if nontrivial(c, g.k) {
					b, _ := json.Marshal(c)
					r.Distinct("nontrivial_sequences", b)
				}
			})
			r.Count("exhaustive_orderings", int64(seq))
		}
	} else {
		for s := from; s < to; s++ {
			c := genCase(r.Rand("c15-gen", n, s), n, g.k, s)
			r.CaseBegin([]byte(fmt.Sprint(c)))
			runCase(r, g, c, r.Rand("c15-case", n, s), ns)
			cnt++
			if nontrivial(c, g.k) {
				b, _ := json.Marshal(c)
				r.Distinct("nontrivial_sequences", b)
			}
			if s == from && n%3 == 0 {
				r.Sample(map[string]interface{}{"n": n, "k": g.k, "case": c})
			}
		}
	}
	r.Count("sequences", int64(cnt))
	r.Count("groups", 1)
	r.Count("non_member_pk_requests", int64(ns.asked))
	os.RemoveAll(wd)
	r.Finish(mon.Coverage{Evaluations: int64(cnt)})
}

func main() {
	if args, ok := mon.IsChildInvocation(); ok {
		child(args)
		return
	}
	r := mon.Start("C15")
	defer mon.CleanWork()
	var specs []mon.ChildSpec
	if p := mon.ReplayArg(); p != "" {
		v, err := mon.LoadReplay(p)
		if err != nil {
			fmt.Println("MACHINERY:", err)
			os.Exit(2)
		}
		var c Case
		w := v.Witness
		var wrap struct {
			Case *Case `json:"case"`
		}
		if json.Unmarshal(w, &wrap) == nil && wrap.Case != nil {
			c = *wrap.Case
		} else {
			json.Unmarshal(w, &c)
		}
		r.Seed = v.Seed
		b, _ := json.Marshal(c)
		specs = append(specs, mon.ChildSpec{Label: "replay", Args: []string{strconv.Itoa(c.N), "0", "1", "replay", string(b)}, Timeout: 5 * time.Minute})
	} else {
		per := r.Pick(20, 600)
		groupsPerN := r.Pick(3, 24)
		for n := 3; n <= 10; n++ {
			for gi := 0; gi < groupsPerN; gi++ {
				specs = append(specs, mon.ChildSpec{Label: fmt.Sprintf("n%d-g%d", n, gi), Args: []string{strconv.Itoa(n), strconv.Itoa(gi * per), strconv.Itoa((gi + 1) * per), "random"}, Timeout: 20 * time.Minute})
			}
		}
		for n := 3; n <= 4; n++ {
			specs = append(specs, mon.ChildSpec{Label: fmt.Sprintf("n%d-exh", n), Args: []string{strconv.Itoa(n), "900000", "900001", "exhaustive"}, Timeout: 20 * time.Minute})
		}
	}
	for _, res := range r.RunChildren(specs, 16) {
		r.Absorb(res, "C15:round1")
	}
	mon.CleanWork()
	_ = strings.Join
	r.Finish(mon.Coverage{
		Evaluations:        r.Get("sequences"),
		DistinctNontrivial: int64(r.DistinctCount("nontrivial_sequences")),
		Rule:               "groups of n=3..10 keyed by the node's own DKG; per sequence: valid shares from about the threshold number of members (sometimes one short) interleaved with 1-2 Byzantine senders (well-signed share over another hash filed under this block, another member's share replayed, garbage / identity points, valid block share with a beacon share over another value or another member's, non-member) and duplicates, in seeded arrival orders (all orders for n<=4 with one faulty member), a quarter of them partly stored before the round starts; both share sets compared entry by entry after every message, round2.checkSignature at the end. Non-trivial: a Byzantine message arrives before the k-th valid one; distinct by message sequence",
		Assumptions:        []string{"messages are fed to the round-1 handler directly (the party's accept/advance bookkeeping is not driven)", "BLS signatures are unique, so byte equality with the harness-computed share decides validity"},
		MustObserve:        []string{"sequences", "messages_delivered", "share_set_entries_checked", "recoveries", "class_other-hash", "class_replay-block-share", "class_bad-beacon", "future_messages", "exhaustive_orderings"},
	})
}
