// C18 — decimal amount strings and 18-decimal integers convert without loss.
// Monitor: exact integer/digit-string oracle (math/big, no floats) around the
// real utility.StrToBigInt / BigIntToStr / FormatDecimalForERC20 /
// FormatDecimalForRocket, and the wrapped-ETH path eth_tx.ConvertTx -> executor
// BeforeExecute (contract data decoding).
package main

import (
	"crypto/ecdsa"
	"encoding/json"
	"fmt"
	"math/big"
	"os"
	"runtime"
	"strings"

	"com.tuntun.rangers/node/src/common"
	"com.tuntun.rangers/node/src/eth_crypto"
	"com.tuntun.rangers/node/src/eth_tx"
	"com.tuntun.rangers/node/src/executor"
	"com.tuntun.rangers/node/src/middleware/db"
	"com.tuntun.rangers/node/src/middleware/types"
	"com.tuntun.rangers/node/src/storage/account"
	"com.tuntun.rangers/node/src/storage/rlp"
	"com.tuntun.rangers/node/src/utility"

	"verifharness/env"
	"verifharness/mon"
)

var (
	ten    = big.NewInt(10)
	e18    = new(big.Int).Exp(ten, big.NewInt(18), nil)
	max256 = new(big.Int).Sub(new(big.Int).Lsh(big.NewInt(1), 256), big.NewInt(1))
)

// Case kinds: "int" (n: format/parse round trip + rescale), "str" (s: parse
// against the exact oracle), "eth" (n: value through ConvertTx + decode).
type Case struct {
	Kind string `json:"kind"`
	N    string `json:"n,omitempty"` // decimal integer
	S    string `json:"s,omitempty"`
	D    int64  `json:"d,omitempty"`
	// Pre != 0: the other exported conversions of the package (Float64ToBigInt,
	// Uint64ToBigInt, BigIntToStrWithoutDot, BigIntBase10toN, BigIntBytesToStr) are
	// called with values derived from Pre on the same goroutine right before the
	// case, as the node does between two amount conversions (rewards, fees).
	Pre float64 `json:"pre,omitempty"`
	// Shape of the raw Ethereum transaction: "" = call with data, "transfer" = no
	// data, "create" = contract creation (no recipient) with data, "create-empty".
	Shape string `json:"shape,omitempty"`
}

// noise exercises every other exported conversion of src/utility/data_convert.go.
func noise(pre float64) {
	if pre == 0 {
		return
	}
	a := pre
	if a < 0 {
		a = -a
	}
	x := utility.Float64ToBigInt(pre)
	utility.Uint64ToBigInt(uint64(a))
	if x != nil {
		utility.BigIntToStrWithoutDot(x)
		utility.BigIntBytesToStr(new(big.Int).Abs(x).Bytes())
		utility.BigIntBase10toN(new(big.Int).Abs(x), 16)
	}
}

// oracleParse: exact value of a decimal string with <= 18 fractional digits times 1e18.
func oracleParse(s string) (*big.Int, bool) {
	neg := false
	t := s
	if strings.HasPrefix(t, "-") {
		neg, t = true, t[1:]
	} else if strings.HasPrefix(t, "+") {
		t = t[1:]
	}
	ip, fp := t, ""
	if i := strings.Index(t, "."); i >= 0 {
		ip, fp = t[:i], t[i+1:]
	}
	if len(fp) > 18 || (ip == "" && fp == "") {
		return nil, false
	}
	for _, c := range ip + fp {
		if c < '0' || c > '9' {
			return nil, false
		}
	}
	if ip == "" {
		ip = "0"
	}
	v, _ := new(big.Int).SetString(ip, 10)
	v.Mul(v, e18)
	if fp != "" {
		f, _ := new(big.Int).SetString(fp+strings.Repeat("0", 18-len(fp)), 10)
		v.Add(v, f)
	}
	if neg {
		v.Neg(v)
	}
	return v, true
}

func pow10(k int64) *big.Int { return new(big.Int).Exp(ten, big.NewInt(k), nil) }

type ethEnv struct {
	key    *ecdsa.PrivateKey
	sender common.Address
	signer eth_tx.EIP155Signer
	adb    *account.AccountDB
	header *types.BlockHeader
}

var eenv *ethEnv

func ethSetup() {
	env.ScratchDir("verif-c18-")
	env.BootServices(env.Forks{})
	common.SetBlockHeight(10)
	k, err := eth_crypto.HexToECDSA("b71c71a67e1177ad4e901695e1b4b9ee17ae16c6668d313eac2f96dbcda3f291")
	if err != nil {
		panic(err)
	}
	mem, _ := db.NewMemDatabase()
	adb, err := account.NewAccountDB(common.Hash{}, account.NewDatabase(mem))
	if err != nil {
		panic(err)
	}
	sender := eth_crypto.PubkeyToAddress(k.PublicKey)
	bal := new(big.Int).Lsh(big.NewInt(1), 200)
	adb.SetBalance(sender, bal)
	eenv = &ethEnv{key: k, sender: sender, signer: eth_tx.NewEIP155Signer(common.GetChainId(10)), adb: adb,
		header: env.Header(10, []byte{1}, utility.GetTime())}
}

// runCase executes one case against the real code and reports violations.
func runCase(r *mon.Run, c Case) {
	switch c.Kind {
	case "int":
		n, _ := new(big.Int).SetString(c.N, 10)
		r.Guard("C18:int", c, func() {
			noise(c.Pre)
			s := utility.BigIntToStr(n)
			back, err := utility.StrToBigInt(s)
			r.Count("roundtrip_checks", 1)
			if err != nil || back == nil || back.Cmp(n) != 0 {
				r.Violation("C18:roundtrip", fmt.Sprintf("StrToBigInt(BigIntToStr(%s)=%q) = %v err=%v", c.N, s, back, err), c)
			}
			if want, ok := oracleParse(s); !ok || want.Cmp(n) != 0 {
				r.Violation("C18:format", fmt.Sprintf("BigIntToStr(%s) = %q does not denote n/1e18 exactly", c.N, s), c)
			}
			// rescaling with the token decimal count c.D
			d := c.D
			shift := pow10(18 - d)
			gotE := utility.FormatDecimalForERC20(new(big.Int).Set(n), d)
			wantE := new(big.Int).Quo(n, shift) // truncation toward zero
			r.Count("rescale_checks", 2)
			if gotE.Cmp(wantE) != 0 {
				sig := "C18:erc20-rescale"
				if d == 18 {
					sig = "C18:erc20-identity"
				}
				r.Violation(sig, fmt.Sprintf("FormatDecimalForERC20(%s,%d) = %s want %s", c.N, d, gotE, wantE), c)
			}
			if n.BitLen() <= 256-int(4*(18-d)) { // keep m*10^(18-d) inside the exactness range of the statement
				gotR := utility.FormatDecimalForRocket(new(big.Int).Set(n), d)
				wantR := new(big.Int).Mul(n, shift)
				if gotR.Cmp(wantR) != 0 {
					sig := "C18:rocket-rescale"
					if d == 18 {
						sig = "C18:rocket-identity"
					}
					r.Violation(sig, fmt.Sprintf("FormatDecimalForRocket(%s,%d) = %s want %s", c.N, d, gotR, wantR), c)
				}
			}
		})
	case "str":
		want, ok := oracleParse(c.S)
		if !ok {
			return
		}
		r.Guard("C18:str", c, func() {
			noise(c.Pre)
			got, err := utility.StrToBigInt(c.S)
			r.Count("parse_checks", 1)
			if err != nil || got == nil || got.Cmp(want) != 0 {
				r.Violation("C18:parse", fmt.Sprintf("StrToBigInt(%q) = %v err=%v, exact value %s", c.S, got, err, want), c)
			}
		})
	case "eth":
		n, _ := new(big.Int).SetString(c.N, 10)
		r.Guard("C18:eth", c, func() {
			to := common.HexToAddress("0x00000000000000000000000000000000000000aa")
			var raw *eth_tx.Transaction
			switch c.Shape {
			case "transfer":
				raw = eth_tx.NewTransaction(uint64(c.D), to, n, 100000, big.NewInt(1000000000), nil)
			case "create":
				raw = eth_tx.NewContractCreation(uint64(c.D), n, 100000, big.NewInt(1000000000), []byte{0x60, 0x00, 0x60, 0x00, 0xf3})
			case "create-empty":
				raw = eth_tx.NewContractCreation(uint64(c.D), n, 100000, big.NewInt(1000000000), nil)
			default:
				raw = eth_tx.NewTransaction(uint64(c.D), to, n, 100000, big.NewInt(1000000000), []byte{1, 2, 3})
			}
			noise(c.Pre)
			r.Count("eth_shape_"+c.Shape, 1)
			signed, err := eth_tx.SignTx(raw, eenv.signer, eenv.key)
			if err != nil {
				panic(err)
			}
			enc, err := rlp.EncodeToBytes(signed)
			if err != nil {
				panic(err)
			}
			dec := new(eth_tx.Transaction)
			if err := rlp.DecodeBytes(enc, dec); err != nil {
				r.Violation("C18:eth-rlp", "signed tx does not decode: "+err.Error(), c)
				return
			}
			sender, err := eth_tx.Sender(eenv.signer, dec)
			if err != nil || sender != eenv.sender {
				r.Violation("C18:eth-sender", fmt.Sprintf("sender %v err %v", sender, err), c)
				return
			}
			tx := eth_tx.ConvertTx(dec, sender, enc)
			tx.Nonce = eenv.adb.GetNonce(sender) // nonce validation is not what is observed here
			ctx := map[string]interface{}{}
			snap := eenv.adb.Snapshot()
			executor.GetTxExecutor(types.TransactionTypeETHTX).BeforeExecute(tx, eenv.header, eenv.adb, ctx)
			eenv.adb.RevertToSnapshot(snap)
			rawData, _ := ctx["contractData"].(*executor.ContractRawData)
			r.Count("eth_value_checks", 1)
			if rawData == nil || rawData.TransferValue == nil || rawData.TransferValue.Cmp(n) != 0 {
				var got interface{}
				if rawData != nil {
					got = rawData.TransferValue
				}
				r.Violation("C18:eth-value", fmt.Sprintf("value %s reached the executor as %v (tx.Data=%s)", c.N, got, tx.Data), c)
			}
		})
	}
}

// preFor: a deterministic non-zero float for the "other conversions first" variant.
func preFor(i int) float64 {
	v := []float64{0.1, 1.5, 2.675, 1e-7, 123456.789, 1e18 / 3, 0.3, 7e20, -0.7, 5e-19}[i%10]
	return v * float64(1+i%13)
}

func nontrivialInt(n *big.Int) bool {
	a := new(big.Int).Abs(n)
	return a.Cmp(e18) >= 0 || new(big.Int).Mod(a, e18).Sign() != 0
}

func main() {
	r := mon.Start("C18")
	if p := mon.ReplayArg(); p != "" {
		v, err := mon.LoadReplay(p)
		if err != nil {
			fmt.Println("MACHINERY:", err)
			os.Exit(2)
		}
		var w struct {
			Case *Case  `json:"case"`
			Kind string `json:"kind"`
		}
		var c Case
		json.Unmarshal(v.Witness, &w)
		if w.Case != nil {
			c = *w.Case
		} else {
			json.Unmarshal(v.Witness, &c)
		}
		if c.Kind == "eth" {
			ethSetup()
		}
		runCase(r, c)
		r.Finish(mon.Coverage{Evaluations: 2, DistinctNontrivial: 2, Rule: "replay of one recorded case"})
	}

	var ints []*big.Int
	add := func(n *big.Int) {
		ints = append(ints, new(big.Int).Set(n))
		if n.Sign() != 0 {
			ints = append(ints, new(big.Int).Neg(n))
		}
	}
	for i := int64(0); i <= 10000; i++ {
		add(big.NewInt(i))
	}
	one := big.NewInt(1)
	for k := uint(0); k <= 256; k++ {
		p := new(big.Int).Lsh(one, k)
		add(p)
		add(new(big.Int).Sub(p, one))
		if k < 256 {
			add(new(big.Int).Add(p, one))
		}
	}
	for k := int64(0); k <= 77; k++ {
		p := pow10(k)
		add(p)
		add(new(big.Int).Sub(p, one))
		add(new(big.Int).Add(p, one))
	}
	for l := 1; l <= 78; l++ {
		for _, pat := range []string{strings.Repeat("9", l), "1" + strings.Repeat("0", l-1) + "1", "4" + strings.Repeat("9", l-1), "5" + strings.Repeat("0", l-1),
			strings.Repeat("3", l), strings.Repeat("6", l), strings.Repeat("7", l)} {
			n, _ := new(big.Int).SetString(pat, 10)
			if n.Cmp(max256) <= 0 {
				add(n)
			}
		}
	}
	// fractions whose binary expansion has long runs of ones / zeros: k/2^j scaled, and n/3, n/7
	for j := uint(1); j <= 60; j++ {
		v := new(big.Int).Quo(e18, new(big.Int).Lsh(one, j))
		add(v)
		add(new(big.Int).Add(v, one))
	}
	add(max256)
	// decimally round amounts: few significant digits times a power of ten (how amounts are
	// written by people: 10, 1200, 0.05, 2.5 units ...). Their decimal strings end in runs of
	// zeros on either side of the dot, which random 256-bit values never do.
	var round []*big.Int
	rrng := r.Rand("round")
	for k := int64(0); k <= 77; k++ {
		p := pow10(k)
		ms := []int64{1, 2, 3, 4, 5, 6, 7, 8, 9}
		for j := 0; j < 4; j++ { // 2..5 significant digits, last one non-zero
			m := int64(1+rrng.Intn(9)) + 10*int64(rrng.Intn([]int{10, 100, 1000, 10000}[j]))
			ms = append(ms, m)
		}
		for _, m := range ms {
			n := new(big.Int).Mul(big.NewInt(m), p)
			if n.Cmp(max256) <= 0 {
				add(n)
				round = append(round, n)
			}
		}
	}
	rng := r.Rand("ints")
	nRand := r.Pick(300000, 20000000)
	for i := 0; i < nRand; i++ {
		bits := 1 + rng.Intn(256)
		b := make([]byte, (bits+7)/8)
		rng.Read(b)
		n := new(big.Int).SetBytes(b)
		n.Rsh(n, uint(len(b)*8-bits))
		if rng.Intn(4) == 0 {
			n.Neg(n)
		}
		ints = append(ints, n)
	}

	// strings
	var strs []string
	digits := func(l int, lead bool) string {
		b := make([]byte, l)
		for i := range b {
			b[i] = byte('0' + rng.Intn(10))
		}
		if l > 0 && !lead && b[0] == '0' {
			b[0] = byte('1' + rng.Intn(9))
		}
		return string(b)
	}
	nStr := r.Pick(200000, 10000000)
	for i := 0; i < nStr; i++ {
		il := rng.Intn(79)
		fl := rng.Intn(19)
		ip := digits(il, rng.Intn(5) == 0)
		fp := digits(fl, true)
		switch rng.Intn(6) {
		case 0:
			fp = strings.Repeat("9", fl)
		case 1:
			if fl > 0 {
				fp = strings.Repeat("0", fl-1) + "1"
			}
		}
		s := ip
		if fl > 0 || rng.Intn(8) == 0 {
			s += "." + fp
		}
		if s == "" || s == "." {
			continue
		}
		if rng.Intn(6) == 0 {
			s = "-" + s
		}
		strs = append(strs, s)
	}
	for _, s := range []string{"0", "0.0", "1", "1.", ".5", "0.000000000000000001", "0.1", "0.2", "0.3", "0.7", "0.9", "0.999999999999999999", "1.000000000000000001",
		"115792089237316195423570985008687907853269984665640564039457584007913129639935", "115792089237316195423570985008687907853269984665640564039457.584007913129639935",
		"00012.340", "-0.000000000000000001", "-1.5"} {
		strs = append(strs, s)
	}

	workers := runtime.NumCPU()
	var nontriv int64
	// integer cases (every decimal count 0..18 for the boundary set, random d for the random set)
	nb := len(ints) - nRand
	mon.Parallel(len(ints), workers, func(i int) {
		n := ints[i]
		if i < nb {
			for d := int64(0); d <= 18; d++ {
				runCase(r, Case{Kind: "int", N: n.String(), D: d})
			}
			runCase(r, Case{Kind: "int", N: n.String(), D: 18, Pre: preFor(i)})
		} else {
			d := int64(18)
			if i%3 == 0 {
				d = int64(i % 19)
			}
			c := Case{Kind: "int", N: n.String(), D: d}
			if i%2 == 0 {
				c.Pre = preFor(i)
				r.Count("cases_after_other_conversions", 1)
			}
			runCase(r, c)
		}
		if nontrivialInt(n) {
			r.Count("nontrivial_ints", 1)
			r.DistinctHash("int", hash64(n.Bytes(), n.Sign()))
		}
	})
	mon.Parallel(len(strs), workers, func(i int) {
		c := Case{Kind: "str", S: strs[i]}
		if i%2 == 1 {
			c.Pre = preFor(i)
			r.Count("cases_after_other_conversions", 1)
		}
		runCase(r, c)
		r.Distinct("str", []byte(strs[i]))
	})
	_ = nontriv

	// ETH path (single goroutine: one shared AccountDB)
	ethSetup()
	nEth := r.Pick(1500, 60000)
	ethVals := []*big.Int{}
	// every decimally round amount, then an even sample over ALL classes of the boundary set
	// (not only the ones generated first), then random values
	ethVals = append(ethVals, round...)
	nEth += len(round)
	var cand []*big.Int
	for _, n := range ints[:nb] {
		if n.Sign() >= 0 && n.BitLen() <= 256 && (n.BitLen() > 14 || n.Int64()%97 == 0) {
			cand = append(cand, n)
		}
	}
	want := nEth / 2
	if want > len(cand) {
		want = len(cand)
	}
	for i := 0; i < want; i++ {
		ethVals = append(ethVals, cand[i*len(cand)/want])
	}
	for len(ethVals) < nEth {
		ethVals = append(ethVals, new(big.Int).Abs(ints[nb+rng.Intn(nRand)]))
	}
	for i, n := range ethVals {
		c := Case{Kind: "eth", N: n.String(), D: int64(i), Shape: []string{"", "transfer", "create", "create-empty"}[i%4]}
		if i%3 == 0 {
			c.Pre = preFor(i)
		}
		runCase(r, c)
		r.DistinctHash("eth", hash64(n.Bytes(), 1))
	}
	r.Sample(Case{Kind: "int", N: ints[nb+1].String(), D: 18})
	r.Sample(Case{Kind: "str", S: strs[0]})
	r.Sample(Case{Kind: "str", S: strs[len(strs)-3]})
	r.Sample(Case{Kind: "eth", N: ethVals[len(ethVals)-1].String()})
	mon.CleanWork()
	os.RemoveAll(mustGetwd())

	evals := r.Get("roundtrip_checks") + r.Get("parse_checks") + r.Get("eth_value_checks")
	r.Finish(mon.Coverage{
		Evaluations:        evals,
		DistinctNontrivial: int64(r.DistinctCount("int") + r.DistinctCount("str") + r.DistinctCount("eth")),
		Rule: "integers: 0..10^4, 2^k(+-1) k<=256, 10^k(+-1) k<=77, digit patterns of every length 1..78, decimally round amounts m*10^k (1..5 significant digits, k<=77), negatives, seeded log-uniform random values; " +
			"each through BigIntToStr->StrToBigInt and both rescalers (all decimals 0..18 for the boundary set); strings: seeded decimal strings with <=78 integer and <=18 fractional digits against an exact digit-string oracle; " +
			"eth: signed EIP-155 txs (all round amounts, an even sample of the boundary set, random values) through rlp -> ConvertTx -> executor BeforeExecute. Non-trivial: |n| >= 1e18 or non-zero fractional part (ints), all strings/eth values; distinct by value",
		Assumptions: []string{"math/big integer arithmetic and SetString are exact (oracle)", "FormatDecimalForRocket(m,d) only judged while m*10^(18-d) < 2^256·(margin)"},
		MustObserve: []string{"roundtrip_checks", "parse_checks", "eth_value_checks", "rescale_checks"},
	})
}

func mustGetwd() string {
	d, _ := os.Getwd()
	if !strings.Contains(d, "verif-c18-") {
		return "/nonexistent-verif"
	}
	return d
}

func hash64(b []byte, sign int) uint64 {
	var h uint64 = 1469598103934665603
	for _, c := range b {
		h ^= uint64(c)
		h *= 1099511628211
	}
	if sign < 0 {
		h = ^h
	}
	return h
}
