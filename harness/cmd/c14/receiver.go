package main

// Receiver-state clause of C14: parsing is a function of the presented bytes.
// Every parse entry point is driven with receivers that already hold something
// (a computed, never serialised Jacobian value; the identity; another parsed
// value; what a failed parse left behind) and the outcome — accepted or not,
// bytes of the resulting value, verification / pairing verdicts — must equal the
// outcome of parsing the same bytes into a fresh receiver.

import (
	"crypto/sha256"
	"encoding/json"
	"fmt"
	"math/big"
	"strings"

	"com.tuntun.rangers/node/src/consensus/groupsig"
	bn "com.tuntun.rangers/node/src/consensus/groupsig/bn256"

	"verifharness/mon"
	"verifharness/ref/bnref"
)

type recvEnv struct {
	sk, sk2, sk0           groupsig.Seckey
	msg, msg2              []byte
	pkB, pk2B, sigB, sig2B []byte
	k2                     *big.Int
	fixedQ                 *bn.G2
	fixedP                 *bn.G1
	fresh                  map[string][2]string // (entry|input) -> accepted, post of the fresh receiver
}

// freshResult evaluates the fresh-receiver reference once per (entry, input).
func (e *recvEnv) freshResult(key string, f func() (bool, string)) (bool, string) {
	if v, ok := e.fresh[key]; ok {
		return v[0] == "1", v[1]
	}
	a, p := f()
	as := "0"
	if a {
		as = "1"
	}
	e.fresh[key] = [2]string{as, p}
	return a, p
}

func mkRecvEnv(skb, msg []byte) *recvEnv {
	e := &recvEnv{msg: msg, msg2: append(append([]byte{}, msg...), 'x'), fresh: map[string][2]string{}}
	e.sk.Deserialize(skb)
	e.k2 = new(big.Int).Add(new(big.Int).SetBytes(skb), big.NewInt(1))
	e.k2.Mod(e.k2, bnref.Order)
	if e.k2.Sign() == 0 {
		e.k2.SetInt64(2)
	}
	e.sk2.Deserialize(e.k2.Bytes())
	e.pkB = groupsig.GeneratePubkey(e.sk).Serialize()
	e.pk2B = groupsig.GeneratePubkey(e.sk2).Serialize()
	e.sigB = groupsig.Sign(e.sk, msg).Serialize()
	e.sig2B = groupsig.Sign(e.sk2, e.msg2).Serialize()
	e.fixedQ = new(bn.G2).ScalarBaseMult(big.NewInt(11))
	e.fixedP = new(bn.G1).ScalarBaseMult(big.NewInt(13))
	return e
}

type namedBytes struct {
	name string
	b    []byte
}

func nonReduced(n int) []byte {
	var out []byte
	for i := 0; i < n; i++ {
		out = append(out, bnref.Pad32(bnref.P)...)
	}
	return out
}

func bump(b []byte, at int) []byte { // last byte of the 32-byte word ending at `at` + 1 (off curve)
	o := append([]byte{}, b...)
	o[at-1] ^= 1
	return o
}

func (e *recvEnv) sigInputs() []namedBytes {
	return []namedBytes{{"honest", e.sigB}, {"other-valid", e.sig2B}, {"identity", make([]byte, 64)}, {"offcurve", bump(e.sigB, 64)},
		{"nonreduced", nonReduced(2)}, {"overlong", cat(e.sigB, []byte{0})}, {"truncated", e.sigB[:63]}, {"empty", []byte{}}}
}

func (e *recvEnv) pkInputs() []namedBytes {
	return []namedBytes{{"honest", e.pkB}, {"other-valid", e.pk2B}, {"identity", make([]byte, 128)}, {"offcurve", bump(e.pkB, 128)},
		{"nonreduced", nonReduced(4)}, {"overlong", cat(e.pkB, []byte{0})}, {"truncated", e.pkB[:127]}, {"empty", []byte{}}}
}

// early-return inputs: on the unchanged tree these parsers return their error before
// touching the receiver (the old value stays); recorded, not judged.
func earlyReturn(input string) bool { return input == "empty" || input == "no-prefix" }

// --- receiver states --------------------------------------------------------

type sigState struct {
	name string
	mk   func(e *recvEnv) *groupsig.Signature
}

func sigStates() []sigState {
	jac := func(e *recvEnv) *groupsig.Signature { s := groupsig.Sign(e.sk2, e.msg2); return &s }
	return []sigState{
		{"jacobian-other", jac},
		{"jacobian-same", func(e *recvEnv) *groupsig.Signature { s := groupsig.Sign(e.sk, e.msg); return &s }},
		{"jacobian-identity", func(e *recvEnv) *groupsig.Signature { s := groupsig.Sign(e.sk0, e.msg); return &s }},
		{"parsed-identity", func(e *recvEnv) *groupsig.Signature { return groupsig.DeserializeSign(make([]byte, 64)) }},
		{"parsed-other", func(e *recvEnv) *groupsig.Signature { return groupsig.DeserializeSign(e.sig2B) }},
		{"parsed-same", func(e *recvEnv) *groupsig.Signature { return groupsig.DeserializeSign(e.sigB) }},
		{"failed-offcurve-on-fresh", func(e *recvEnv) *groupsig.Signature {
			s := &groupsig.Signature{}
			s.Deserialize(bump(e.sigB, 64))
			return s
		}},
		{"failed-short-on-jacobian", func(e *recvEnv) *groupsig.Signature { s := jac(e); s.Deserialize(e.sigB[:10]); return s }},
		{"failed-nonreduced-on-jacobian", func(e *recvEnv) *groupsig.Signature { s := jac(e); s.Deserialize(nonReduced(2)); return s }},
		{"failed-hex-on-parsed", func(e *recvEnv) *groupsig.Signature {
			s := groupsig.DeserializeSign(e.sig2B)
			s.SetHexString("0x" + hx(bump(e.sigB, 32)))
			return s
		}},
	}
}

type pkState struct {
	name string
	mk   func(e *recvEnv) *groupsig.Pubkey
}

func pkStates() []pkState {
	jac := func(e *recvEnv) *groupsig.Pubkey { return groupsig.GeneratePubkey(e.sk2) }
	parsed := func(b []byte) *groupsig.Pubkey { p := new(groupsig.Pubkey); p.Deserialize(b); return p }
	return []pkState{
		{"jacobian-other", jac},
		{"jacobian-same", func(e *recvEnv) *groupsig.Pubkey { return groupsig.GeneratePubkey(e.sk) }},
		{"jacobian-aggregate", func(e *recvEnv) *groupsig.Pubkey {
			return groupsig.AggregatePubkeys([]groupsig.Pubkey{*groupsig.GeneratePubkey(e.sk), *groupsig.GeneratePubkey(e.sk2)})
		}},
		{"jacobian-identity", func(e *recvEnv) *groupsig.Pubkey { return groupsig.GeneratePubkey(e.sk0) }},
		{"parsed-identity", func(e *recvEnv) *groupsig.Pubkey { return parsed(make([]byte, 128)) }},
		{"parsed-other", func(e *recvEnv) *groupsig.Pubkey { return parsed(e.pk2B) }},
		{"parsed-same", func(e *recvEnv) *groupsig.Pubkey { return parsed(e.pkB) }},
		{"failed-offcurve-on-fresh", func(e *recvEnv) *groupsig.Pubkey { return parsed(bump(e.pkB, 128)) }},
		{"failed-short-on-jacobian", func(e *recvEnv) *groupsig.Pubkey { p := jac(e); p.Deserialize(e.pkB[:10]); return p }},
		{"failed-nonreduced-on-jacobian", func(e *recvEnv) *groupsig.Pubkey { p := jac(e); p.Deserialize(nonReduced(4)); return p }},
		{"failed-hex-on-parsed", func(e *recvEnv) *groupsig.Pubkey {
			p := parsed(e.pk2B)
			p.SetHexString("0x" + hx(bump(e.pkB, 64)))
			return p
		}},
	}
}

// --- observation of the result ----------------------------------------------

func h8(b []byte) string { s := sha256.Sum256(b); return hx(s[:6]) }

func (e *recvEnv) obsSig(s *groupsig.Signature, err error) (accepted bool, post string) {
	var pk groupsig.Pubkey
	pk.Deserialize(e.pkB)
	var pk2 groupsig.Pubkey
	pk2.Deserialize(e.pk2B)
	ser := s.Serialize()
	return err == nil, fmt.Sprintf("nil=%v valid=%v bytes=%x verify(honest)=%v verify(other)=%v", s.IsNil(), s.IsValid(), ser,
		groupsig.VerifySig(pk, e.msg, *s), groupsig.VerifySig(pk2, e.msg2, *s))
}

func (e *recvEnv) obsPK(p *groupsig.Pubkey, err error) (accepted bool, post string) {
	s1, s2 := groupsig.DeserializeSign(e.sigB), groupsig.DeserializeSign(e.sig2B)
	v1 := groupsig.VerifySig(*p, e.msg, *s1)
	v2 := groupsig.VerifySig(*p, e.msg2, *s2)
	return err == nil, fmt.Sprintf("empty=%v valid=%v bytes=%x verify(honest)=%v verify(other)=%v", p.IsEmpty(), p.IsValid(), p.Serialize(), v1, v2)
}

func recvCompare(r *mon.Run, cn counter, c Case, freshAcc, acc bool, freshPost, post string) {
	entry, state, input := c.Kind, c.Class, c.Path
	cn.Count("receiver_state_checks", 1)
	r.Distinct("receiver_entry_state", []byte(entry), []byte(state))
	sig := "C14:parse:depends-on-receiver-state:" + entry + ":" + state
	if freshAcc != acc {
		agg.add(sig, fmt.Sprintf("%s of the %s input: fresh receiver accepted=%v, receiver holding %s accepted=%v", entry, input, freshAcc, state, acc), c, c.Round)
		return
	}
	if freshPost == post {
		return
	}
	what := fmt.Sprintf("%s of the %s input (accepted=%v) leaves {%s} in a fresh receiver but {%s} in a receiver holding %s", entry, input, acc, freshPost, post, state)
	if !acc && earlyReturn(input) {
		cn.Count("obs_receiver_kept_after_early_error", 1)
		r.Distinct("obs_receiver_kept_after_early_error_pairs", []byte(entry), []byte(input))
		return
	}
	if acc && input == "empty" && (entry == "Seckey.SetHexString" || entry == "ID.SetHexString" || entry == "ID.UnmarshalJSON") {
		// unchanged tree: BnInt.setHexString ignores the failure of big.Int.SetString("", 16):
		// "0x" is accepted (nil error) and the receiver keeps whatever it held. Recorded, not judged.
		cn.Count("obs_scalar_hex_0x_accepted_receiver_kept", 1)
		return
	}
	agg.add(sig, what, c, c.Round)
}

// --- one (entry, state, input) evaluation, replayable -------------------------

func recvEval(r *mon.Run, cn counter, c Case, e *recvEnv) {
	if e == nil {
		e = mkRecvEnv(c.SK, c.Msg)
	}
	entry, state, in := c.Kind, c.Class, []byte(c.B)
	key := entry + "|" + c.Path
	r.Guard("C14:parse", c, func() {
		switch {
		case strings.HasPrefix(entry, "Signature.") || entry == "DeserializeSign":
			apply := func(s *groupsig.Signature) (*groupsig.Signature, error) {
				switch entry {
				case "Signature.Deserialize":
					return s, s.Deserialize(in)
				case "Signature.SetHexString":
					if c.Path == "no-prefix" {
						return s, s.SetHexString(hx(in))
					}
					return s, s.SetHexString("0x" + hx(in))
				}
				panic("entry " + entry)
			}
			fa, fp := e.freshResult(key, func() (bool, string) {
				fs, ferr := apply(&groupsig.Signature{})
				a, p := e.obsSig(fs, ferr)
				if entry == "Signature.Deserialize" { // DeserializeSign is the fresh-receiver form of the same parse
					if _, dp := e.obsSig(groupsig.DeserializeSign(in), nil); dp != p {
						agg.add("C14:parse:DeserializeSign-differs-from-Deserialize", "DeserializeSign and Signature.Deserialize into a fresh value disagree: {"+dp+"} vs {"+p+"}", c, c.Round)
					}
				}
				return a, p
			})
			for _, st := range sigStates() {
				if st.name == state {
					s, err := apply(st.mk(e))
					a, p := e.obsSig(s, err)
					recvCompare(r, cn, c, fa, a, fp, p)
				}
			}
		case strings.HasPrefix(entry, "Pubkey."):
			apply := func(p *groupsig.Pubkey) (*groupsig.Pubkey, error) {
				switch entry {
				case "Pubkey.Deserialize":
					return p, p.Deserialize(in)
				case "Pubkey.SetHexString":
					if c.Path == "no-prefix" {
						return p, p.SetHexString(hx(in))
					}
					return p, p.SetHexString("0x" + hx(in))
				case "Pubkey.UnmarshalJSON":
					return p, json.Unmarshal([]byte(`"0x`+hx(in)+`"`), p)
				}
				panic("entry " + entry)
			}
			fa, fp := e.freshResult(key, func() (bool, string) { return e.obsPK(apply(new(groupsig.Pubkey))) })
			for _, st := range pkStates() {
				if st.name == state {
					p, err := apply(st.mk(e))
					a, po := e.obsPK(p, err)
					recvCompare(r, cn, c, fa, a, fp, po)
				}
			}
		case strings.HasPrefix(entry, "Seckey.") || strings.HasPrefix(entry, "ID."):
			recvScalar(r, cn, c, e)
		case entry == "G1.Unmarshal":
			obs := func(g *bn.G1) (bool, string) {
				rest, err := g.Unmarshal(in)
				if err != nil {
					return false, "" // the value after a refused parse is unspecified at this level
				}
				return true, fmt.Sprintf("rest=%d bytes=%x pair=%s", len(rest), g.Marshal(), h8(bn.Pair(g, e.fixedQ).Marshal()))
			}
			fa, fp := e.freshResult(key, func() (bool, string) { return obs(new(bn.G1)) })
			for _, st := range g1States() {
				if st.name == state {
					a, p := obs(st.mk(e))
					recvCompare(r, cn, c, fa, a, fp, p)
				}
			}
		case entry == "G2.Unmarshal":
			obs := func(g *bn.G2) (bool, string) {
				rest, err := g.Unmarshal(in)
				if err != nil {
					return false, ""
				}
				return true, fmt.Sprintf("rest=%d pair=%s bytes=%x", len(rest), h8(bn.Pair(e.fixedP, g).Marshal()), g.Marshal())
			}
			fa, fp := e.freshResult(key, func() (bool, string) { return obs(new(bn.G2)) })
			for _, st := range g2States() {
				if st.name == state {
					a, p := obs(st.mk(e))
					recvCompare(r, cn, c, fa, a, fp, p)
				}
			}
		}
	})
}

type g1State struct {
	name string
	mk   func(e *recvEnv) *bn.G1
}

func g1States() []g1State {
	jac := func(e *recvEnv) *bn.G1 { return new(bn.G1).ScalarBaseMult(e.k2) }
	parsed := func(b []byte) *bn.G1 { g := new(bn.G1); g.Unmarshal(b); return g }
	return []g1State{
		{"jacobian-scalarmult", jac},
		{"jacobian-sum", func(e *recvEnv) *bn.G1 { return new(bn.G1).Add(jac(e), parsed(e.sigB)) }},
		{"jacobian-identity", func(e *recvEnv) *bn.G1 { return new(bn.G1).ScalarMult(jac(e), bnref.Order) }},
		{"parsed-identity", func(e *recvEnv) *bn.G1 { return parsed(make([]byte, 64)) }},
		{"parsed-other", func(e *recvEnv) *bn.G1 { return parsed(e.sig2B) }},
		{"negated", func(e *recvEnv) *bn.G1 { return new(bn.G1).Neg(parsed(e.sig2B)) }},
		{"failed-offcurve-on-fresh", func(e *recvEnv) *bn.G1 { return parsed(bump(e.sigB, 64)) }},
		{"failed-offcurve-on-jacobian", func(e *recvEnv) *bn.G1 { g := jac(e); g.Unmarshal(bump(e.sigB, 64)); return g }},
		{"failed-nonreduced-on-jacobian", func(e *recvEnv) *bn.G1 { g := jac(e); g.Unmarshal(nonReduced(2)); return g }},
		{"failed-short-on-jacobian", func(e *recvEnv) *bn.G1 { g := jac(e); g.Unmarshal(e.sigB[:9]); return g }},
	}
}

type g2State struct {
	name string
	mk   func(e *recvEnv) *bn.G2
}

func g2States() []g2State {
	jac := func(e *recvEnv) *bn.G2 { return new(bn.G2).ScalarBaseMult(e.k2) }
	parsed := func(b []byte) *bn.G2 { g := new(bn.G2); g.Unmarshal(b); return g }
	return []g2State{
		{"jacobian-scalarmult", jac},
		{"jacobian-sum", func(e *recvEnv) *bn.G2 { return new(bn.G2).Add(jac(e), parsed(e.pkB)) }},
		{"jacobian-identity", func(e *recvEnv) *bn.G2 { return new(bn.G2).ScalarMult(jac(e), bnref.Order) }},
		{"parsed-identity", func(e *recvEnv) *bn.G2 { return parsed(make([]byte, 128)) }},
		{"parsed-other", func(e *recvEnv) *bn.G2 { return parsed(e.pk2B) }},
		{"negated", func(e *recvEnv) *bn.G2 { return new(bn.G2).Neg(parsed(e.pk2B)) }},
		{"failed-offcurve-on-fresh", func(e *recvEnv) *bn.G2 { return parsed(bump(e.pkB, 128)) }},
		{"failed-offcurve-on-jacobian", func(e *recvEnv) *bn.G2 { g := jac(e); g.Unmarshal(bump(e.pkB, 128)); return g }},
		{"failed-nonreduced-on-jacobian", func(e *recvEnv) *bn.G2 { g := jac(e); g.Unmarshal(nonReduced(4)); return g }},
		{"failed-short-on-jacobian", func(e *recvEnv) *bn.G2 { g := jac(e); g.Unmarshal(e.pkB[:9]); return g }},
	}
}

// --- scalars (Seckey, ID) ------------------------------------------------------

var scalarStateNames = []string{"computed-other", "zero", "parsed-other", "failed-no-prefix-on-parsed", "failed-bad-hex-on-parsed"}

func recvScalar(r *mon.Run, cn counter, c Case, e *recvEnv) {
	entry, state, in := c.Kind, c.Class, []byte(c.B)
	hexArg := func() string {
		switch c.Path {
		case "no-prefix":
			return hx(in)
		case "bad-hex":
			return "0xzz" + hx(in)
		}
		return "0x" + hx(in)
	}
	big2 := new(big.Int).Lsh(e.k2, 3)
	big2.Mod(big2, bnref.Order)
	if strings.HasPrefix(entry, "Seckey.") {
		mk := func() *groupsig.Seckey {
			switch state {
			case "fresh":
				return new(groupsig.Seckey)
			case "computed-other":
				return groupsig.AggregateSeckeys([]groupsig.Seckey{e.sk2, e.sk2})
			case "zero":
				return groupsig.NewSeckeyFromBigInt(new(big.Int))
			}
			s := new(groupsig.Seckey)
			s.Deserialize(big2.Bytes())
			switch state {
			case "failed-no-prefix-on-parsed":
				s.SetHexString("12ab")
			case "failed-bad-hex-on-parsed":
				s.SetHexString("0xzz")
			}
			return s
		}
		apply := func(s *groupsig.Seckey) (bool, string) {
			var err error
			if entry == "Seckey.Deserialize" {
				err = s.Deserialize(in)
			} else {
				err = s.SetHexString(hexArg())
			}
			return err == nil, fmt.Sprintf("bytes=%x hex=%s valid=%v", s.Serialize(), s.GetHexString(), s.IsValid())
		}
		fa, fp := apply(new(groupsig.Seckey))
		a, p := apply(mk())
		recvCompare(r, cn, c, fa, a, fp, p)
		return
	}
	mk := func() *groupsig.ID {
		id := new(groupsig.ID)
		switch state {
		case "computed-other":
			var pk groupsig.Pubkey
			pk.Deserialize(e.pk2B)
			return groupsig.NewIDFromPubkey(pk)
		case "zero":
			id.SetBigInt(new(big.Int))
			return id
		}
		id.Deserialize(bnref.Pad32(big2))
		switch state {
		case "failed-no-prefix-on-parsed":
			id.SetHexString("12ab")
		case "failed-bad-hex-on-parsed":
			id.SetHexString("0xzz")
		}
		return id
	}
	apply := func(id *groupsig.ID) (bool, string) {
		var err error
		switch entry {
		case "ID.Deserialize":
			err = id.Deserialize(in)
		case "ID.SetHexString":
			err = id.SetHexString(hexArg())
		case "ID.UnmarshalJSON":
			err = json.Unmarshal([]byte(`"`+hexArg()+`"`), id)
		}
		ser := "panic"
		func() {
			defer func() { recover() }() // ID.Serialize panics above 32 bytes; the same for both receivers
			ser = hx(id.Serialize())
		}()
		return err == nil, fmt.Sprintf("bytes=%s int=%s valid=%v", ser, id.GetBigInt().Text(16), id.IsValid())
	}
	fa, fp := apply(new(groupsig.ID))
	a, p := apply(mk())
	recvCompare(r, cn, c, fa, a, fp, p)
}

// --- the phase -------------------------------------------------------------------

func recvSample(r *mon.Run, i int) {
	cn := ctr{}
	defer cn.flush(r)
	sk := scalarFor(r, i, "recv-sk").Bytes()
	msg := msgFor(r, i+1, "recv-msg")
	e := mkRecvEnv(sk, msg)
	base := Case{Fam: "recv", SK: sk, Msg: msg, Round: i}
	run := func(entry, state, input string, b []byte) {
		c := base
		c.Kind, c.Class, c.Path, c.B = entry, state, input, b
		recvEval(r, cn, c, e)
	}
	for _, st := range sigStates() {
		for _, in := range e.sigInputs() {
			run("Signature.Deserialize", st.name, in.name, in.b)
			run("Signature.SetHexString", st.name, in.name, in.b)
		}
		run("Signature.SetHexString", st.name, "no-prefix", e.sigB)
	}
	for _, st := range pkStates() {
		for _, in := range e.pkInputs() {
			run("Pubkey.Deserialize", st.name, in.name, in.b)
			run("Pubkey.SetHexString", st.name, in.name, in.b)
			if in.name == "honest" || in.name == "offcurve" || in.name == "identity" {
				run("Pubkey.UnmarshalJSON", st.name, in.name, in.b)
			}
		}
		run("Pubkey.SetHexString", st.name, "no-prefix", e.pkB)
	}
	for _, st := range g1States() {
		for _, in := range e.sigInputs() {
			run("G1.Unmarshal", st.name, in.name, in.b)
		}
	}
	for _, st := range g2States() {
		for _, in := range e.pkInputs() {
			run("G2.Unmarshal", st.name, in.name, in.b)
		}
	}
	long33 := cat([]byte{1}, bnref.Pad32(new(big.Int).SetBytes(sk)))
	for _, st := range scalarStateNames {
		for _, in := range []namedBytes{{"value", sk}, {"padded", bnref.Pad32(new(big.Int).SetBytes(sk))}, {"empty", []byte{}}, {"33-bytes", long33}} {
			run("Seckey.Deserialize", st, in.name, in.b)
			run("ID.Deserialize", st, in.name, in.b)
			run("Seckey.SetHexString", st, in.name, in.b)
			run("ID.SetHexString", st, in.name, in.b)
			run("ID.UnmarshalJSON", st, in.name, in.b)
		}
		for _, in := range []string{"no-prefix", "bad-hex"} {
			run("Seckey.SetHexString", st, in, sk)
			run("ID.SetHexString", st, in, sk)
			run("ID.UnmarshalJSON", st, in, sk)
		}
	}
}

func recvPhase(r *mon.Run, workers int) {
	n := r.Pick(16, 600)
	mon.Parallel(n, workers, func(i int) { recvSample(r, i) })
	if k := r.Get("obs_scalar_hex_0x_accepted_receiver_kept"); k > 0 {
		r.Note("observation (recorded, not judged): Seckey.SetHexString(\"0x\"), ID.SetHexString(\"0x\") and ID.UnmarshalJSON(\"\\\"0x\\\"\") return nil and leave the receiver's previous value (0 in a fresh receiver): BnInt.setHexString ignores the result of big.Int.SetString (%d evaluations)", k)
	}
	if k := r.DistinctCount("obs_receiver_kept_after_early_error_pairs"); k > 0 {
		r.Note("observation (recorded, not judged): %d (entry, input) combinations return their error before touching the receiver, so a non-fresh receiver keeps its old value after the refused parse (Signature.Deserialize of empty bytes, SetHexString without the 0x prefix)", k)
	}
}
