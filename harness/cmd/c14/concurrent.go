package main

// Concurrent phase of C14: key / signature / point objects are passed by value
// but share the underlying *twistPoint / *curvePoint. Verification and pairing
// must behave as pure functions of their arguments: N goroutines verifying
// under the SAME fresh (still Jacobian, never serialised) public-key object
// must all accept the honest signature and reject the forged one, and the
// object must afterwards still be the same group element (serialises to the
// bytes of a twin regenerated from the same secret, verifies sequentially).

import (
	"bytes"
	"fmt"
	"io/ioutil"
	"math/big"
	"os"
	"path/filepath"
	"regexp"
	"strings"
	"sync"
	"sync/atomic"
	"time"

	"com.tuntun.rangers/node/src/consensus/groupsig"
	bn "com.tuntun.rangers/node/src/consensus/groupsig/bn256"

	"verifharness/mon"
	"verifharness/ref/bnref"
)

const concGoroutines = 16

// release runs f(g) on n goroutines that leave a spin barrier together.
func release(n int, f func(g int)) {
	var ready, goFlag int32
	var wg sync.WaitGroup
	for g := 1; g < n; g++ {
		wg.Add(1)
		go func(g int) {
			defer wg.Done()
			atomic.AddInt32(&ready, 1)
			for atomic.LoadInt32(&goFlag) == 0 {
			}
			f(g)
		}(g)
	}
	for atomic.LoadInt32(&ready) < int32(n-1) {
		time.Sleep(20 * time.Microsecond)
	}
	atomic.StoreInt32(&goFlag, 1)
	f(0)
	wg.Wait()
}

func concFail(c Case, class, what string) {
	agg.add("C14:concurrent:"+class, what, c, c.Round)
}

// concRound runs one round described by c (Kind: verify | verify-aggregate | pair).
func concRound(r *mon.Run, c Case) {
	n := c.G
	if n < 2 {
		n = concGoroutines
	}
	switch c.Kind {
	case "verify", "verify-aggregate":
		var sk groupsig.Seckey
		sk.Deserialize(c.SK)
		signKey := sk
		var shared *groupsig.Pubkey
		var twin []byte
		if c.Kind == "verify-aggregate" {
			var sk2 groupsig.Seckey
			sk2.Deserialize(c.SK2)
			sum := groupsig.AggregateSeckeys([]groupsig.Seckey{sk, sk2})
			if sum == nil || !sum.IsValid() {
				return
			}
			signKey = *sum
			shared = groupsig.AggregatePubkeys([]groupsig.Pubkey{*groupsig.GeneratePubkey(sk), *groupsig.GeneratePubkey(sk2)})
			twin = groupsig.GeneratePubkey(*sum).Serialize()
		} else {
			shared = groupsig.GeneratePubkey(sk) // Jacobian; not serialised / compared before the race
			twin = groupsig.GeneratePubkey(sk).Serialize()
		}
		sigB := groupsig.Sign(signKey, c.Msg).Serialize()
		sharedSig := groupsig.DeserializeSign(sigB) // one parsed signature object for everybody
		if shared == nil || sharedSig == nil {
			concFail(c, "setup", "honest key or signature could not be built")
			return
		}
		forged := append(append([]byte{}, c.Msg...), 1)
		honestOK := make([][2]bool, n)
		forgedOK := make([]bool, n)
		panicked := make([]bool, n)
		release(n, func(g int) {
			panicked[g] = r.Guard("C14:concurrent", c, func() {
				honestOK[g][0] = groupsig.VerifySig(*shared, c.Msg, *sharedSig)
				forgedOK[g] = groupsig.VerifySig(*shared, forged, *sharedSig)
				honestOK[g][1] = groupsig.VerifySig(*shared, c.Msg, *sharedSig)
			})
		})
		rej, acc := 0, 0
		for g := 0; g < n; g++ {
			if panicked[g] {
				continue
			}
			if !honestOK[g][0] {
				rej++
			}
			if !honestOK[g][1] {
				rej++
			}
			if forgedOK[g] {
				acc++
			}
		}
		r.Count("concurrent_verifications", int64(3*n))
		if rej > 0 {
			concFail(c, "honest-rejected", fmt.Sprintf("%d of %d concurrent VerifySig calls on one shared fresh public-key object rejected the honest signature (%s, %d goroutines)", rej, 2*n, c.Kind, n))
		}
		if acc > 0 {
			concFail(c, "forged-accepted", fmt.Sprintf("%d of %d concurrent VerifySig calls accepted the signature for another message", acc, n))
		}
		r.Guard("C14:concurrent", c, func() {
			r.Count("concurrent_post_checks", 3)
			if !groupsig.VerifySig(*shared, c.Msg, *sharedSig) {
				concFail(c, "honest-rejected-afterwards", "after the concurrent verifications the same key object rejects the honest signature sequentially ("+c.Kind+")")
			}
			if got := shared.Serialize(); !bytes.Equal(got, twin) {
				concFail(c, "key-changed", fmt.Sprintf("after concurrent VerifySig calls the shared public key serialises to %x…, its twin from the same secret to %x… (%s)", got[:16], twin[:16], c.Kind))
			}
			if got := sharedSig.Serialize(); !bytes.Equal(got, sigB) {
				concFail(c, "signature-changed", "after concurrent VerifySig calls the shared signature object serialises differently")
			}
		})
		r.Distinct("concurrent", []byte(c.Kind), c.SK, c.SK2, c.Msg)
	case "pair":
		a, b := new(big.Int).SetBytes(c.A), new(big.Int).SetBytes(c.Bs)
		pk, qk := new(big.Int).SetBytes(c.Pk), new(big.Int).SetBytes(c.Qk)
		mk := func() (*bn.G1, *bn.G2) {
			return new(bn.G1).ScalarMult(new(bn.G1).ScalarBaseMult(pk), a), new(bn.G2).ScalarMult(new(bn.G2).ScalarBaseMult(qk), b)
		}
		aP, bQ := mk() // shared, Jacobian
		tP, tQ := mk() // twins
		ab := new(big.Int).Mul(a, b)
		ab.Mod(ab, bnref.Order)
		want := new(bn.GT).ScalarMult(bn.Pair(new(bn.G1).ScalarBaseMult(pk), new(bn.G2).ScalarBaseMult(qk)), ab).Marshal()
		tPb, tQb := tP.Marshal(), tQ.Marshal()
		got := make([][]byte, n)
		release(n, func(g int) {
			r.Guard("C14:concurrent", c, func() { got[g] = bn.Pair(aP, bQ).Marshal() })
		})
		r.Count("concurrent_pairings", int64(n))
		bad := 0
		for g := 0; g < n; g++ {
			if got[g] != nil && !bytes.Equal(got[g], want) {
				bad++
			}
		}
		if bad > 0 {
			concFail(c, "pair-not-bilinear", fmt.Sprintf("%d of %d concurrent Pair(aP,bQ) calls on shared point objects differ from e(P,Q)^(ab) computed sequentially from twins", bad, n))
		}
		r.Guard("C14:concurrent", c, func() {
			r.Count("concurrent_post_checks", 3)
			if !bytes.Equal(bn.Pair(aP, bQ).Marshal(), want) {
				concFail(c, "pair-wrong-afterwards", "after the concurrent pairings Pair on the same point objects no longer equals e(P,Q)^(ab)")
			}
			if !bytes.Equal(bQ.Marshal(), tQb) {
				concFail(c, "point-changed", "after concurrent Pair calls the shared G2 point marshals differently from its twin")
			}
			if !bytes.Equal(aP.Marshal(), tPb) {
				concFail(c, "point-changed", "after concurrent Pair calls the shared G1 point marshals differently from its twin")
			}
		})
		r.Distinct("concurrent", []byte("pair"), c.A, c.Bs, c.Pk, c.Qk)
	}
}

func concCase(r *mon.Run, kind string, i int) Case {
	c := Case{Fam: "conc", Kind: kind, G: concGoroutines, Round: i}
	switch kind {
	case "pair":
		c.A = scalarFor(r, i, "conc-a").Bytes()
		c.Bs = scalarFor(r, i, "conc-b").Bytes()
		c.Pk = scalarFor(r, i, "conc-p").Bytes()
		c.Qk = scalarFor(r, i, "conc-q").Bytes()
	default:
		c.SK = scalarFor(r, i, "conc-sk-"+kind).Bytes()
		c.SK2 = scalarFor(r, i, "conc-sk2-"+kind).Bytes()
		c.Msg = msgFor(r, i+1, "conc-msg-"+kind)
		if kind == "verify" {
			c.SK2 = nil
		}
	}
	return c
}

// concPhase: rounds with fresh objects each round. Rounds run one after the
// other (the goroutines of a round are the concurrency).
func concPhase(r *mon.Run, raceChild bool) {
	nV, nA, nP := r.Pick(150, 2500), r.Pick(60, 1000), r.Pick(250, 4000)
	if raceChild {
		nV, nA, nP = 6, 4, 12
	}
	for i := 0; i < nV; i++ {
		concRound(r, concCase(r, "verify", i))
	}
	for i := 0; i < nA; i++ {
		concRound(r, concCase(r, "verify-aggregate", i))
	}
	for i := 0; i < nP; i++ {
		concRound(r, concCase(r, "pair", i))
	}
	if !raceChild {
		r.Sample(concCase(r, "verify", 0))
	}
}

var reRaceBlock = regexp.MustCompile(`(?s)WARNING: DATA RACE\n(.*?)\n==================`)
var reBnFrame = regexp.MustCompile(`(?m)^  com\.tuntun\.rangers/node/src/consensus/groupsig/([^\s(]+(?:\([^)]*\))?[^\s(]*)\(`)

// concRaceChild: additional detector. When the check script provides a -race
// build (VERIF_RACE_BIN), a short version of the concurrent phase runs under the
// race detector; a report inside groupsig is a violation of its own class. The
// verdict oracle of concPhase does not depend on it.
func concRaceChild(r *mon.Run) {
	bin := os.Getenv("VERIF_RACE_BIN")
	if bin == "" {
		return
	}
	logBase := filepath.Join(mon.WorkDir(), "c14-race")
	res := r.RunChild(mon.ChildSpec{Label: "conc-race", Args: []string{"conc"}, Bin: bin, Timeout: 5 * time.Minute,
		Env: []string{"GORACE=halt_on_error=0 log_path=" + logBase}})
	r.Absorb(res, "C14:concurrent", 66)
	r.Count("race_detector_children", 1)
	files, _ := filepath.Glob(logBase + ".*")
	var all strings.Builder
	for _, f := range files {
		b, _ := ioutil.ReadFile(f)
		all.Write(b)
	}
	all.WriteString(res.LogTail)
	r.Count("race_reports_raw", int64(strings.Count(all.String(), "WARNING: DATA RACE")))
	for _, m := range reRaceBlock.FindAllStringSubmatch(all.String(), -1) {
		f := reBnFrame.FindStringSubmatch(m[1])
		if f == nil {
			continue // not inside the code under test
		}
		body := m[1]
		if len(body) > 2500 {
			body = body[:2500]
		}
		r.Violation("C14:concurrent:data-race", "the race detector reported a data race inside groupsig while goroutines verified / paired with one shared key or point object (first frame "+f[1]+")",
			struct {
				Case
				Report string `json:"report"`
			}{concCase(r, "pair", 0), body})
		break
	}
	mon.CleanWork()
}

// negLaw judges e(P, -Q) = e(-P, Q) = e(P,Q)^-1 with the negations computed by
// bn256.G2.Neg / G1.Neg, for operands that are still Jacobian and for operands
// that were already normalised by Marshal (z = 1).
func negLaw(r *mon.Run, rounds int) {
	rng := r.Rand("c14-neg")
	for i := 0; i < rounds; i++ {
		a := new(big.Int).Rand(rng, bn.Order)
		b := new(big.Int).Rand(rng, bn.Order)
		if i == 0 {
			a, b = big.NewInt(5), big.NewInt(7)
		}
		if a.Sign() == 0 || b.Sign() == 0 {
			continue
		}
		for _, cl := range []string{"neg-law", "neg-law-affine"} {
			negLawCase(r, Case{Fam: "pair", Class: cl, Pk: a.Bytes(), Qk: b.Bytes()})
		}
	}
}

func negLawCase(r *mon.Run, c Case) {
	a, b := new(big.Int).SetBytes(c.Pk), new(big.Int).SetBytes(c.Qk)
	affine := c.Class == "neg-law-affine"
	r.Guard("C14:pair", c, func() {
		P := new(bn.G1).ScalarBaseMult(a)
		Q := new(bn.G2).ScalarBaseMult(b)
		if affine {
			P.Marshal() // normalises in place (z = 1)
			Q.Marshal()
		}
		want := new(bn.GT).Neg(bn.Pair(P, Q)).Marshal()
		r.Count("pair_neg_law_checks", 2)
		if got := bn.Pair(P, new(bn.G2).Neg(Q)).Marshal(); !bytes.Equal(got, want) {
			sig := "C14:pair:neg-g2"
			if affine {
				sig = "C14:pair:neg-affine-g2"
			}
			r.Violation(sig, fmt.Sprintf("bn256.Pair(P, new(G2).Neg(Q)) != e(P,Q)^-1 for P=[%s]G1, Q=[%s]G2 (operands normalised by Marshal: %v)", a, b, affine), c)
		}
		if got := bn.Pair(new(bn.G1).Neg(P), Q).Marshal(); !bytes.Equal(got, want) {
			sig := "C14:pair:neg-g1"
			if affine {
				sig = "C14:pair:neg-affine-g1"
			}
			r.Violation(sig, fmt.Sprintf("bn256.Pair(new(G1).Neg(P), Q) != e(P,Q)^-1 for P=[%s]G1, Q=[%s]G2 (operands normalised by Marshal: %v)", a, b, affine), c)
		}
	})
}

// obsSharedJacobianSignature records (does not judge) what happens when the
// shared object is a freshly computed signature (output of Sign, still Jacobian)
// instead of a parsed one: VerifySig -> IsValid -> Serialize/IsOnCurve normalise
// the caller's *curvePoint in place.
func obsSharedJacobianSignature(r *mon.Run) {
	rounds, rej, changed := 20, 0, 0
	for i := 0; i < rounds; i++ {
		c := concCase(r, "verify", 100000+i)
		var sk groupsig.Seckey
		sk.Deserialize(c.SK)
		var pk groupsig.Pubkey
		if pk.Deserialize(groupsig.GeneratePubkey(sk).Serialize()) != nil {
			return
		}
		shared := groupsig.Sign(sk, c.Msg)
		twin := groupsig.Sign(sk, c.Msg).Serialize()
		var bad int32
		release(concGoroutines, func(g int) {
			r.Guard("C14:concurrent", c, func() {
				if !groupsig.VerifySig(pk, c.Msg, shared) {
					atomic.AddInt32(&bad, 1)
				}
			})
		})
		if bad > 0 {
			rej++
		}
		if !bytes.Equal(shared.Serialize(), twin) {
			changed++
		}
	}
	r.Count("obs_shared_fresh_signature_rounds", int64(rounds))
	r.Count("obs_shared_fresh_signature_rounds_honest_rejected", int64(rej))
	r.Count("obs_shared_fresh_signature_rounds_signature_changed", int64(changed))
	if rej+changed > 0 {
		r.Note("observation (recorded, not judged): %d goroutines calling VerifySig with one shared, freshly computed (never serialised) Signature value: honest signature rejected in %d of %d rounds, the signature object serialises differently afterwards in %d (VerifySig -> IsValid -> G1.Marshal/IsOnCurve -> curvePoint.MakeAffine writes the caller's point in place)", concGoroutines, rej, rounds, changed)
	}
}
