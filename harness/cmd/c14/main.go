// C14 — BLS verification accepts exactly the one valid signature; encodings of
// keys / signatures / ids are faithful; the pairing is bilinear and non-degenerate.
//
// Monitor: byte-level uniqueness oracle around the real groupsig.VerifySig:
//
//	VerifySig(pk, m, decode(b)) == true  <=>  b == Sign(sk, m).Serialize()
//
// for every presented signature byte string b (pk honest), and likewise for
// presented public-key bytes (signature honest): true <=> b == honest pk encoding.
// Presented strings are derived algebraically (math/big reference in
// ref/bnref, independent of go-rangers) and structurally (truncated, over-long,
// non-reduced coordinates, bit flips, twist points outside the order-r subgroup).
// Additionally: parser differential (bn256.G1/G2.Unmarshal vs. the reference's
// on-curve judgement), serialise/parse round trips (bytes, hex, JSON) of
// Seckey / Pubkey / Signature / ID, and the pairing laws on bn256.Pair.
package main

import (
	"bytes"
	"encoding/hex"
	"encoding/json"
	"fmt"
	"math/big"
	"os"
	"runtime"
	"sort"
	"strings"
	"sync"

	"com.tuntun.rangers/node/src/consensus/groupsig"
	bn "com.tuntun.rangers/node/src/consensus/groupsig/bn256"

	"verifharness/mon"
	"verifharness/ref/bnref"
)

// Case is the replayable witness of one oracle evaluation.
type Case struct {
	Fam   string  `json:"fam"`             // sig | pk | rt | pair
	Class string  `json:"class,omitempty"` // how the presented bytes were derived
	Path  string  `json:"path,omitempty"`  // entry point the bytes were presented through
	SK    mon.Hex `json:"sk,omitempty"`    // secret scalar, big endian
	Msg   mon.Hex `json:"msg,omitempty"`
	B     mon.Hex `json:"presented,omitempty"`
	// rt
	Kind string  `json:"kind,omitempty"`
	V    mon.Hex `json:"v,omitempty"`
	// pair
	A  mon.Hex `json:"a,omitempty"`
	Bs mon.Hex `json:"b,omitempty"`
	Pk mon.Hex `json:"p_scalar,omitempty"` // P = [p]G1 (or HashToPoint(Msg) when empty)
	Qk mon.Hex `json:"q_scalar,omitempty"` // Q = [q]G2
	Pi int     `json:"pair_index,omitempty"`
	// conc
	SK2   mon.Hex   `json:"sk2,omitempty"`
	SKs   []mon.Hex `json:"sks,omitempty"`
	G     int       `json:"goroutines,omitempty"`
	Round int       `json:"round,omitempty"`
}

var (
	sigPaths = []string{"DeserializeSign", "Signature.SetHexString"}
	pkPaths  = []string{"Pubkey.Deserialize", "ByteToPublicKey", "Pubkey.SetHexString", "Pubkey.UnmarshalJSON"}
	one      = big.NewInt(1)
	// twist cofactor h2 = 2p - r = 13 * 7369 * (239-bit)
	twistCofactor = new(big.Int).Sub(new(big.Int).Lsh(bnref.P, 1), bnref.Order)
)

// ---------------------------------------------------------------------------
// violation aggregation: keep the smallest witnesses per signature

type pend struct {
	what string
	c    Case
	idx  int
}
type vent struct {
	n    int
	best []pend
}
type vagg struct {
	mu sync.Mutex
	m  map[string]*vent
}

func pendLess(a, b pend) bool {
	if len(a.c.B) != len(b.c.B) {
		return len(a.c.B) < len(b.c.B)
	}
	if a.idx != b.idx {
		return a.idx < b.idx
	}
	if a.c.Class != b.c.Class {
		return a.c.Class < b.c.Class
	}
	return a.c.Path < b.c.Path
}

func (a *vagg) add(sig, what string, c Case, idx int) {
	a.mu.Lock()
	defer a.mu.Unlock()
	e := a.m[sig]
	if e == nil {
		e = &vent{}
		a.m[sig] = e
	}
	e.n++
	e.best = append(e.best, pend{what, c, idx})
	sort.Slice(e.best, func(i, j int) bool { return pendLess(e.best[i], e.best[j]) })
	if len(e.best) > 3 {
		e.best = e.best[:3]
	}
}

func (a *vagg) flush(r *mon.Run) {
	sigs := make([]string, 0, len(a.m))
	for s := range a.m {
		sigs = append(sigs, s)
	}
	sort.Strings(sigs)
	for _, s := range sigs {
		e := a.m[s]
		for _, p := range e.best {
			r.Violation(s, p.what, p.c)
		}
		for k := len(e.best); k < e.n; k++ {
			r.Violation(s, "", nil) // count only (mon keeps the first three witnesses)
		}
	}
}

var agg = &vagg{m: map[string]*vent{}}

// ctr batches counter updates of one worker item (mon.Run.Count takes a lock).
type ctr map[string]int64

func (c ctr) Count(k string, n int64) { c[k] += n }
func (c ctr) flush(r *mon.Run) {
	for k, n := range c {
		r.Count(k, n)
	}
}

type counter interface{ Count(string, int64) }

// ---------------------------------------------------------------------------

type honest struct {
	idx   int
	skInt *big.Int
	sk    groupsig.Seckey
	msg   []byte
	pkB   []byte
	sigB  []byte
}

func mkHonest(idx int, skb, msg []byte) *honest {
	h := &honest{idx: idx, msg: msg, skInt: new(big.Int).SetBytes(skb)}
	h.sk.Deserialize(skb)
	h.pkB = groupsig.GeneratePubkey(h.sk).Serialize()
	h.sigB = groupsig.Sign(h.sk, msg).Serialize()
	return h
}

func hx(b []byte) string { return hex.EncodeToString(b) }

func classGroup(class string) string {
	if i := strings.Index(class, ":"); i >= 0 {
		return class[:i]
	}
	return class
}

// presentSig decodes b through the given entry point and runs the real VerifySig
// against the honest public key. decoded=false means the parser rejected.
func presentSig(path string, h *honest, b []byte) (accepted bool) {
	var pk groupsig.Pubkey
	if err := pk.Deserialize(h.pkB); err != nil {
		panic("honest public key does not deserialize: " + err.Error())
	}
	var sig groupsig.Signature
	switch path {
	case "DeserializeSign":
		s := groupsig.DeserializeSign(b)
		if s == nil {
			return false
		}
		sig = *s
	case "Signature.SetHexString":
		if err := sig.SetHexString("0x" + hx(b)); err != nil {
			return false
		}
	default:
		panic("unknown sig path " + path)
	}
	return groupsig.VerifySig(pk, h.msg, sig)
}

func presentPK(path string, h *honest, b []byte) (accepted bool) {
	s := groupsig.DeserializeSign(h.sigB)
	var pk groupsig.Pubkey
	switch path {
	case "Pubkey.Deserialize":
		if err := pk.Deserialize(b); err != nil {
			return false
		}
	case "ByteToPublicKey":
		pk = groupsig.ByteToPublicKey(b)
	case "Pubkey.SetHexString":
		if err := pk.SetHexString("0x" + hx(b)); err != nil {
			return false
		}
	case "Pubkey.UnmarshalJSON":
		if err := json.Unmarshal([]byte(`"0x`+hx(b)+`"`), &pk); err != nil {
			return false
		}
	default:
		panic("unknown pk path " + path)
	}
	return groupsig.VerifySig(pk, h.msg, *s)
}

// refG1Valid: would a faithful parser hand these bytes to the pairing?
func refG1Valid(b []byte) (valid, infinity bool) {
	x, y, ok := bnref.G1Parse(b)
	if !ok {
		return false, false
	}
	xr, yr := new(big.Int).Mod(x, bnref.P), new(big.Int).Mod(y, bnref.P)
	if xr.Sign() == 0 && yr.Sign() == 0 {
		return true, true
	}
	return bnref.G1OnCurve(x, y), false
}

func refG2Valid(b []byte) (valid, infinity bool) {
	c, ok := bnref.G2Parse(b)
	if !ok {
		return false, false
	}
	X, Y := bnref.NewFp2(c[0], c[1]), bnref.NewFp2(c[2], c[3])
	if X.IsZero() && Y.IsZero() {
		return true, true
	}
	return bnref.TwistOnCurve(X, Y), false
}

// evalVerify runs one presented byte string through the uniqueness oracle.
func evalVerify(r *mon.Run, cn counter, h *honest, c Case) {
	var honestB []byte
	var tag string
	if c.Fam == "sig" {
		honestB, tag = h.sigB, "sig"
	} else {
		honestB, tag = h.pkB, "pubkey"
	}
	// A signature made for another message or key (or another key's public key) must be
	// rejected by the statement itself; should it coincide with the honest bytes (a
	// colliding message hash), accepting it is the violation, not the expected outcome.
	expected := bytes.Equal(c.B, honestB) && !strings.HasPrefix(c.Class, "other-")
	var accepted bool
	if r.Guard("C14:"+tag, c, func() {
		if c.Fam == "sig" {
			accepted = presentSig(c.Path, h, c.B)
		} else {
			accepted = presentPK(c.Path, h, c.B)
		}
	}) {
		cn.Count("panics", 1)
		return
	}
	cn.Count("verify_cases", 1)
	cn.Count("verify_cases_"+tag, 1)
	var valid bool
	if c.Fam == "sig" {
		valid, _ = refG1Valid(c.B)
	} else {
		valid, _ = refG2Valid(c.B)
	}
	if valid {
		cn.Count("pairing_decided", 1) // the parser cannot be what rejects: a point reaches the pairing check
		r.Distinct("nontrivial", []byte(c.Fam), c.B, h.pkB, h.msg)
	} else {
		cn.Count("parser_decided", 1)
	}
	if accepted {
		cn.Count("accepted", 1)
	} else {
		cn.Count("rejected", 1)
	}
	switch {
	case expected && accepted:
		cn.Count("honest_accepted", 1)
	case expected && !accepted:
		agg.add("C14:"+tag+":rejected-honest", fmt.Sprintf("VerifySig false for the honest %s presented through %s (class %s)", tag, c.Path, c.Class), c, h.idx)
	case !expected && accepted:
		g := classGroup(c.Class)
		cn.Count("accepted_nonhonest_"+tag+"_"+g, 1)
		what := fmt.Sprintf("VerifySig true for %d presented %s bytes (class %s, via %s) that differ from the honest encoding (%d bytes)", len(c.B), tag, c.Class, c.Path, len(honestB))
		if bytes.Equal(c.B, honestB) {
			what = fmt.Sprintf("the %s made for another message/key (class %s) is byte-identical to the honest one and verifies (via %s)", tag, c.Class, c.Path)
		}
		agg.add("C14:"+tag+":accepted-"+g, what, c, h.idx)
	default:
		cn.Count("nonhonest_rejected", 1)
	}
}

// canonical reports whether b is exactly n coordinates of 32 bytes, each < P.
func canonical(b []byte, n int) bool {
	if len(b) != 32*n {
		return false
	}
	for i := 0; i < n; i++ {
		if new(big.Int).SetBytes(b[32*i:32*i+32]).Cmp(bnref.P) >= 0 {
			return false
		}
	}
	return true
}

// parserDiff: bn256.G1/G2.Unmarshal must fail on short or off-curve input, must
// succeed on the canonical encoding of a finite on-curve point, and when it
// succeeds Marshal must return the reduced encoding of what was read. (Identity,
// non-reduced and over-long inputs may be refused or not at this level; whether
// they are *accepted by VerifySig* is judged by the uniqueness oracle.)
func parserDiff(r *mon.Run, cn counter, h *honest, c Case) {
	r.Guard("C14:Unmarshal", c, func() {
		if c.Fam == "sig" {
			valid, inf := refG1Valid(c.B)
			var g bn.G1
			_, err := g.Unmarshal(c.B)
			cn.Count("parser_diff_checks", 1)
			if err == nil && !valid {
				agg.add("C14:G1.Unmarshal:accepted-invalid-point", "bn256.G1.Unmarshal returned no error for bytes that are short or not on y^2=x^3+3 (class "+c.Class+")", c, h.idx)
			} else if err != nil && valid && !inf && canonical(c.B, 2) {
				agg.add("C14:G1.Unmarshal:rejected-valid-point", "bn256.G1.Unmarshal: "+err.Error()+" for the canonical encoding of an on-curve point (class "+c.Class+")", c, h.idx)
			} else if err == nil {
				x, y, _ := bnref.G1Parse(c.B)
				want := append(bnref.Pad32(x.Mod(x, bnref.P)), bnref.Pad32(y.Mod(y, bnref.P))...)
				if got := g.Marshal(); !bytes.Equal(got, want) {
					agg.add("C14:G1:unmarshal-marshal-mismatch", fmt.Sprintf("G1 Unmarshal->Marshal gives %x, reduced input is %x", got, want), c, h.idx)
				}
			}
		} else {
			valid, inf := refG2Valid(c.B)
			var g bn.G2
			_, err := g.Unmarshal(c.B)
			cn.Count("parser_diff_checks", 1)
			if err == nil && !valid {
				agg.add("C14:G2.Unmarshal:accepted-invalid-point", "bn256.G2.Unmarshal returned no error for bytes that are short or not on the twist (class "+c.Class+")", c, h.idx)
			} else if err != nil && valid && !inf && canonical(c.B, 4) && !strings.HasPrefix(c.Class, "nonsubgroup") && !strings.HasPrefix(c.Class, "bitflip") {
				// (a subgroup check in the parser would legitimately refuse twist points outside G2)
				agg.add("C14:G2.Unmarshal:rejected-valid-point", "bn256.G2.Unmarshal: "+err.Error()+" for the canonical encoding of a G2 point (class "+c.Class+")", c, h.idx)
			} else if err == nil && !inf {
				cs, _ := bnref.G2Parse(c.B)
				var want []byte
				for _, v := range cs {
					want = append(want, bnref.Pad32(v.Mod(v, bnref.P))...)
				}
				if got := g.Marshal(); !bytes.Equal(got, want) {
					agg.add("C14:G2:unmarshal-marshal-mismatch", fmt.Sprintf("G2 Unmarshal->Marshal gives %x, reduced input is %x", got, want), c, h.idx)
				}
			}
		}
	})
}

// ---------------------------------------------------------------------------
// derived byte strings

type derived struct {
	class string
	b     []byte
}

func cat(bs ...[]byte) []byte {
	var out []byte
	for _, b := range bs {
		out = append(out, b...)
	}
	return out
}

func rndBytes(rng interface{ Read([]byte) (int, error) }, n int) []byte {
	b := make([]byte, n)
	rng.Read(b)
	return b
}

func refPoint(b []byte) *bnref.G1 {
	x, y, _ := bnref.G1Parse(b)
	if x.Sign() == 0 && y.Sign() == 0 {
		return nil
	}
	return &bnref.G1{X: x, Y: y}
}

func sigDerivations(r *mon.Run, h *honest, sk2 groupsig.Seckey, m2 []byte, flips bool) []derived {
	rng := r.Rand("sigder", h.idx)
	P := bnref.P
	sb := h.sigB
	sg := refPoint(sb)
	x, y := sg.X, sg.Y
	out := []derived{{"honest", sb}}
	add := func(class string, b []byte) { out = append(out, derived{class, b}) }

	add("negation", bnref.G1Bytes(bnref.G1Neg(sg)))
	add("doubling", bnref.G1Bytes(bnref.G1Add(sg, sg)))
	other := map[string][]byte{
		"random":  m2,
		"append0": cat(h.msg, []byte{0}),
	}
	if len(h.msg) > 0 {
		f := append([]byte{}, h.msg...)
		f[rng.Intn(len(f))] ^= 1 << uint(rng.Intn(8))
		other["bitflip"] = f
		other["empty"] = []byte{}
		other["prefix"] = h.msg[:len(h.msg)-1]
	}
	for _, k := range []string{"random", "append0", "bitflip", "empty", "prefix"} {
		m, ok := other[k]
		if !ok {
			continue
		}
		s2 := groupsig.Sign(h.sk, m).Serialize()
		add("other-message:"+k, s2)
		if k == "random" {
			add("sum-with-valid-signature:same-key-other-message", bnref.G1Bytes(bnref.G1Add(sg, refPoint(s2))))
		}
	}
	s3 := groupsig.Sign(sk2, h.msg).Serialize()
	add("other-key", s3)
	add("sum-with-valid-signature:other-key-same-message", bnref.G1Bytes(bnref.G1Add(sg, refPoint(s3))))
	add("other-key-other-message", groupsig.Sign(sk2, m2).Serialize())
	for _, k := range []int64{3, 5} {
		add(fmt.Sprintf("multiple:%d", k), bnref.G1Bytes(bnref.G1Mul(sg, big.NewInt(k))))
	}
	add("multiple:r+1(=honest)", bnref.G1Bytes(bnref.G1Mul(sg, new(big.Int).Add(bnref.Order, one))))
	add("multiple:r-1", bnref.G1Bytes(bnref.G1Mul(sg, new(big.Int).Sub(bnref.Order, one))))
	add("identity", make([]byte, 64))
	add("identity-nonreduced:P,P", cat(bnref.Pad32(P), bnref.Pad32(P)))
	add("identity-nonreduced:0,P", cat(make([]byte, 32), bnref.Pad32(P)))
	add("generator", bnref.G1Bytes(bnref.G1Gen()))
	add("sk*generator", bnref.G1Bytes(bnref.G1Mul(bnref.G1Gen(), h.skInt)))
	for {
		if p, ok := bnref.G1FromX(new(big.Int).SetBytes(rndBytes(rng, 32))); ok {
			add("random-curve-point", bnref.G1Bytes(p))
			break
		}
	}
	add("random-bytes", rndBytes(rng, 64))
	add("swapped-coordinates", cat(sb[32:], sb[:32]))
	add("offcurve:y+1", cat(sb[:32], bnref.Pad32(new(big.Int).Mod(new(big.Int).Add(y, one), new(big.Int).Lsh(one, 256)))))
	add("offcurve:x+1", cat(bnref.Pad32(new(big.Int).Mod(new(big.Int).Add(x, one), new(big.Int).Lsh(one, 256))), sb[32:]))
	xp, yp := new(big.Int).Add(x, P), new(big.Int).Add(y, P)
	if bnref.Fits32(xp) {
		add("nonreduced-coordinate:x+P", cat(bnref.Pad32(xp), sb[32:]))
	}
	if bnref.Fits32(yp) {
		add("nonreduced-coordinate:y+P", cat(sb[:32], bnref.Pad32(yp)))
	}
	if bnref.Fits32(xp) && bnref.Fits32(yp) {
		add("nonreduced-coordinate:x+P,y+P", cat(bnref.Pad32(xp), bnref.Pad32(yp)))
	}
	if ny := new(big.Int).Sub(new(big.Int).Lsh(P, 1), y); bnref.Fits32(ny) {
		add("negation-nonreduced:2P-y", cat(sb[:32], bnref.Pad32(ny)))
	}
	add("overlong:65(+00)", cat(sb, []byte{0}))
	add("overlong:65", cat(sb, rndBytes(rng, 1)))
	add("overlong:96", cat(sb, rndBytes(rng, 32)))
	add("overlong:128", cat(sb, rndBytes(rng, 64)))
	add("overlong:128(honest||honest)", cat(sb, sb))
	add("prefixed:junk||honest", cat(rndBytes(rng, 1), sb))
	add("truncated-front:63", sb[1:])
	for l := 0; l < 64; l++ {
		add(fmt.Sprintf("truncated:%d", l), sb[:l])
	}
	if flips {
		for i := 0; i < 512; i++ {
			f := append([]byte{}, sb...)
			f[i/8] ^= 0x80 >> uint(i%8)
			add(fmt.Sprintf("bitflip:%d", i), f)
			if i < 256 { // nearest valid curve points: flipped x with recomputed y
				if p, ok := bnref.G1FromX(new(big.Int).SetBytes(f[:32])); ok {
					add(fmt.Sprintf("bitflip-x-recomputed-y:%d", i), cat(f[:32], bnref.Pad32(p.Y)))
					add(fmt.Sprintf("bitflip-x-recomputed-y:%d-", i), cat(f[:32], bnref.Pad32(bnref.G1Neg(p).Y)))
				}
			}
		}
	}
	return out
}

// crossCheckG1 compares the real G1 group operations with the reference (they
// produce the derived signatures other components would compute).
func crossCheckG1(r *mon.Run, h *honest, c Case) {
	r.Guard("C14:G1", c, func() {
		var g bn.G1
		if _, err := g.Unmarshal(h.sigB); err != nil {
			agg.add("C14:G1.Unmarshal:rejected-valid-point", "honest signature bytes do not unmarshal: "+err.Error(), c, h.idx)
			return
		}
		sg := refPoint(h.sigB)
		chk := func(op string, got []byte, want *bnref.G1) {
			r.Count("g1_op_crosschecks", 1)
			if !bytes.Equal(got, bnref.G1Bytes(want)) {
				agg.add("C14:G1:op-mismatch:"+op, fmt.Sprintf("bn256.G1 %s = %x, reference %x", op, got, bnref.G1Bytes(want)), c, h.idx)
			}
		}
		chk("Neg", new(bn.G1).Neg(&g).Marshal(), bnref.G1Neg(sg))
		chk("Add(self)", new(bn.G1).Add(&g, &g).Marshal(), bnref.G1Add(sg, sg))
		k := new(big.Int).SetBytes(h.sigB[40:48])
		chk("ScalarMult", new(bn.G1).ScalarMult(&g, k).Marshal(), bnref.G1Mul(sg, k))
		chk("Add(neg)=identity", new(bn.G1).Add(&g, new(bn.G1).Neg(&g)).Marshal(), nil)
		chk("ScalarBaseMult", new(bn.G1).ScalarBaseMult(k).Marshal(), bnref.G1Mul(bnref.G1Gen(), k))
	})
}

func g2FromBytes(b []byte) *bn.G2 {
	g := new(bn.G2)
	if _, err := g.Unmarshal(b); err != nil {
		panic("g2FromBytes: " + err.Error())
	}
	return g
}

func pkDerivations(r *mon.Run, h *honest, sk2 groupsig.Seckey, flips bool) []derived {
	rng := r.Rand("pkder", h.idx)
	P := bnref.P
	pb := h.pkB
	out := []derived{{"honest", pb}}
	add := func(class string, b []byte) { out = append(out, derived{class, b}) }
	g := g2FromBytes(pb)
	pk2 := groupsig.GeneratePubkey(sk2).Serialize()
	g2 := g2FromBytes(pk2)
	add("negation", new(bn.G2).Neg(g).Marshal())
	add("doubling", new(bn.G2).Add(g, g).Marshal())
	add("other-key", pk2)
	add("sum-with-other-key", new(bn.G2).Add(g, g2).Marshal())
	add("multiple:3", new(bn.G2).ScalarMult(g, big.NewInt(3)).Marshal())
	add("multiple:r+1(=honest)", new(bn.G2).ScalarMult(g, new(big.Int).Add(bnref.Order, one)).Marshal())
	add("generator", new(bn.G2).ScalarBaseMult(one).Marshal())
	add("identity", make([]byte, 128))
	add("identity-marshal-form:1-byte", []byte{0})
	add("zero-length", []byte{})
	add("random-bytes", rndBytes(rng, 128))
	add("swapped-coordinates", cat(pb[64:], pb[:64]))
	add("swapped-components", cat(pb[32:64], pb[:32], pb[96:], pb[64:96]))
	cs, _ := bnref.G2Parse(pb)
	two256 := new(big.Int).Lsh(one, 256)
	add("offcurve:y.re+1", cat(pb[:96], bnref.Pad32(new(big.Int).Mod(new(big.Int).Add(cs[3], one), two256))))
	add("offcurve:x.im+1", cat(bnref.Pad32(new(big.Int).Mod(new(big.Int).Add(cs[0], one), two256)), pb[32:]))
	names := []string{"x.im", "x.re", "y.im", "y.re"}
	all := []byte{}
	allFit := true
	for i := 0; i < 4; i++ {
		v := new(big.Int).Add(cs[i], P)
		if bnref.Fits32(v) {
			add("nonreduced-coordinate:"+names[i]+"+P", cat(pb[:32*i], bnref.Pad32(v), pb[32*i+32:]))
			all = append(all, bnref.Pad32(v)...)
		} else {
			allFit = false
		}
	}
	if allFit {
		add("nonreduced-coordinate:all+P", all)
	}
	add("overlong:129(+00)", cat(pb, []byte{0}))
	add("overlong:129", cat(pb, rndBytes(rng, 1)))
	add("overlong:160", cat(pb, rndBytes(rng, 32)))
	add("overlong:256", cat(pb, rndBytes(rng, 128)))
	add("prefixed:junk||honest", cat(rndBytes(rng, 1), pb))
	add("truncated-front:127", pb[1:])
	for l := 1; l < 128; l++ {
		add(fmt.Sprintf("truncated:%d", l), pb[:l])
	}
	// twist points outside the order-r subgroup (reference sqrt in F_p^2)
	for tries := 0; tries < 64; tries++ {
		X := bnref.NewFp2(new(big.Int).SetBytes(rndBytes(rng, 32)), new(big.Int).SetBytes(rndBytes(rng, 32)))
		Y, ok := bnref.TwistFromX(X)
		if !ok {
			continue
		}
		tb := bnref.G2Bytes(X, Y)
		T := new(bn.G2)
		if _, err := T.Unmarshal(tb); err != nil {
			// a parser with a subgroup check refuses T; it is still presented (and must be rejected)
			r.Count("nonsubgroup_points_constructed", 1)
			r.Count("nonsubgroup_points_refused_by_G2_Unmarshal", 1)
			add("nonsubgroup:T", tb)
			break
		}
		C := new(bn.G2).ScalarMult(T, bnref.Order) // order divides the cofactor
		if len(C.Marshal()) != 128 {
			continue // T happened to be in the subgroup
		}
		r.Count("nonsubgroup_points_constructed", 1)
		add("nonsubgroup:T", tb)
		add("nonsubgroup:[r]T", C.Marshal())
		add("nonsubgroup:pk+[r]T", new(bn.G2).Add(g, C).Marshal())
		for _, q := range []int64{13, 7369} {
			Cq := new(bn.G2).ScalarMult(C, new(big.Int).Div(twistCofactor, big.NewInt(q)))
			if len(Cq.Marshal()) != 128 {
				continue
			}
			if len(new(bn.G2).ScalarMult(Cq, big.NewInt(q)).Marshal()) == 128 {
				panic("cofactor arithmetic of the driver is wrong")
			}
			r.Count("small_order_twist_points_constructed", 1)
			add(fmt.Sprintf("nonsubgroup:order-%d-point", q), Cq.Marshal())
			add(fmt.Sprintf("nonsubgroup:pk+order-%d-point", q), new(bn.G2).Add(g, Cq).Marshal())
		}
		break
	}
	if flips {
		for i := 0; i < 1024; i++ {
			f := append([]byte{}, pb...)
			f[i/8] ^= 0x80 >> uint(i%8)
			add(fmt.Sprintf("bitflip:%d", i), f)
			if i < 512 {
				fc, _ := bnref.G2Parse(f)
				X := bnref.NewFp2(fc[0], fc[1])
				if Y, ok := bnref.TwistFromX(X); ok {
					add(fmt.Sprintf("bitflip-x-recomputed-y:%d", i), cat(f[:64], bnref.Pad32(Y.A), bnref.Pad32(Y.B)))
				}
			}
		}
	}
	return out
}

// ---------------------------------------------------------------------------
// round trips

func rtFail(h int, c Case, typ, form, what string) {
	agg.add("C14:roundtrip:"+typ+"-"+form, what, c, h)
}

func evalRoundTrips(r *mon.Run, idx int, c Case) {
	v := new(big.Int).SetBytes(c.V)
	switch c.Kind {
	case "scalar": // Seckey and ID over the same scalar (leading-zero forms included)
		r.Guard("C14:roundtrip", c, func() {
			if v.Cmp(bnref.Order) >= 0 {
				return
			}
			s := groupsig.NewSeckeyFromBigInt(new(big.Int).Set(v))
			b := s.Serialize()
			var t groupsig.Seckey
			err := t.Deserialize(b)
			r.Count("roundtrip_checks", 1)
			if err != nil || !t.IsEqual(*s) || t.GetBigInt().Cmp(v) != 0 || !bytes.Equal(t.Serialize(), b) {
				rtFail(idx, c, "seckey", "bytes", fmt.Sprintf("Seckey %x -> Serialize %x -> Deserialize gives %x (err %v)", c.V, b, t.Serialize(), err))
			}
			var t2 groupsig.Seckey
			err = t2.Deserialize(bnref.Pad32(v))
			r.Count("roundtrip_checks", 1)
			if err != nil || !t2.IsEqual(*s) {
				rtFail(idx, c, "seckey", "padded-bytes", fmt.Sprintf("Seckey from 32-byte padded %x differs: %s", bnref.Pad32(v), t2.GetHexString()))
			}
			hs := s.GetHexString()
			var t3 groupsig.Seckey
			err = t3.SetHexString(hs)
			r.Count("roundtrip_checks", 1)
			if err != nil || !t3.IsEqual(*s) || t3.GetHexString() != hs {
				rtFail(idx, c, "seckey", "hex", fmt.Sprintf("Seckey hex %s -> %s (err %v)", hs, t3.GetHexString(), err))
			}
			// ID
			var id groupsig.ID
			id.SetBigInt(v)
			ib := id.Serialize()
			r.Count("roundtrip_checks", 1)
			if !bytes.Equal(ib, bnref.Pad32(v)) {
				rtFail(idx, c, "id", "serialize", fmt.Sprintf("ID(%x).Serialize() = %x", c.V, ib))
			}
			id2 := groupsig.DeserializeID(ib)
			r.Count("roundtrip_checks", 1)
			if !id2.IsEqual(id) || id2.GetBigInt().Cmp(v) != 0 || !bytes.Equal(id2.Serialize(), ib) {
				rtFail(idx, c, "id", "bytes", fmt.Sprintf("ID %x -> %x -> %x", c.V, ib, id2.Serialize()))
			}
			var id3 groupsig.ID
			ihs := id.GetHexString()
			err = id3.SetHexString(ihs)
			r.Count("roundtrip_checks", 1)
			if err != nil || !id3.IsEqual(id) || id3.GetHexString() != ihs {
				rtFail(idx, c, "id", "hex", fmt.Sprintf("ID hex %s -> %s (err %v)", ihs, id3.GetHexString(), err))
			}
			jb, err := json.Marshal(id)
			var id4 groupsig.ID
			err2 := json.Unmarshal(jb, &id4)
			r.Count("roundtrip_checks", 1)
			if err != nil || err2 != nil || !id4.IsEqual(id) {
				rtFail(idx, c, "id", "json", fmt.Sprintf("ID json %s -> %s (err %v %v)", jb, id4.GetHexString(), err, err2))
			}
			type wrap struct {
				A groupsig.ID  `json:"a"`
				B *groupsig.ID `json:"b"`
			}
			jb, err = json.Marshal(wrap{id, &id})
			var w wrap
			err2 = json.Unmarshal(jb, &w)
			r.Count("roundtrip_checks", 1)
			if err != nil || err2 != nil || !w.A.IsEqual(id) || w.B == nil || !w.B.IsEqual(id) {
				rtFail(idx, c, "id", "json-struct", fmt.Sprintf("ID in struct json %s (err %v %v)", jb, err, err2))
			}
		})
	case "keypair": // Pubkey / Signature / derived ID for secret V and message Msg
		r.Guard("C14:roundtrip", c, func() {
			var sk groupsig.Seckey
			sk.Deserialize(c.V)
			pk := groupsig.GeneratePubkey(sk)
			pb := pk.Serialize()
			var q groupsig.Pubkey
			err := q.Deserialize(pb)
			r.Count("roundtrip_checks", 1)
			if len(pb) != 128 || err != nil || !q.IsEqual(*pk) || !bytes.Equal(q.Serialize(), pb) {
				rtFail(idx, c, "pubkey", "bytes", fmt.Sprintf("Pubkey %x -> Deserialize -> %x (err %v)", pb, q.Serialize(), err))
			}
			q1 := groupsig.ByteToPublicKey(pb)
			r.Count("roundtrip_checks", 1)
			if !q1.IsEqual(*pk) || q1.GetAddress() != pk.GetAddress() {
				rtFail(idx, c, "pubkey", "ByteToPublicKey", fmt.Sprintf("ByteToPublicKey(%x) = %x", pb, q1.Serialize()))
			}
			var q2 groupsig.Pubkey
			hs := pk.GetHexString()
			err = q2.SetHexString(hs)
			r.Count("roundtrip_checks", 1)
			if err != nil || !q2.IsEqual(*pk) || q2.GetHexString() != hs || hs != "0x"+hx(pb) {
				rtFail(idx, c, "pubkey", "hex", fmt.Sprintf("Pubkey hex %s -> %s (err %v)", hs, q2.GetHexString(), err))
			}
			jb, err := json.Marshal(pk)
			var q3 groupsig.Pubkey
			err2 := json.Unmarshal(jb, &q3)
			r.Count("roundtrip_checks", 1)
			if err != nil || err2 != nil || !q3.IsEqual(*pk) {
				rtFail(idx, c, "pubkey", "json", fmt.Sprintf("Pubkey json %s -> %x (err %v %v)", jb, q3.Serialize(), err, err2))
			}
			type wrap struct {
				A groupsig.Pubkey  `json:"a"`
				B *groupsig.Pubkey `json:"b"`
			}
			jb, err = json.Marshal(wrap{*pk, pk})
			var w wrap
			err2 = json.Unmarshal(jb, &w)
			r.Count("roundtrip_checks", 1)
			if err != nil || err2 != nil || !w.A.IsEqual(*pk) || w.B == nil || !w.B.IsEqual(*pk) {
				rtFail(idx, c, "pubkey", "json-struct", fmt.Sprintf("Pubkey in struct json %s (err %v %v)", jb, err, err2))
			}
			// signature
			sig := groupsig.Sign(sk, c.Msg)
			sb := sig.Serialize()
			s2 := groupsig.DeserializeSign(sb)
			r.Count("roundtrip_checks", 1)
			if len(sb) != 64 || s2 == nil || !s2.IsEqual(sig) || !bytes.Equal(s2.Serialize(), sb) {
				rtFail(idx, c, "signature", "bytes", fmt.Sprintf("Signature %x does not survive DeserializeSign", sb))
			}
			var s3 groupsig.Signature
			shs := sig.GetHexString()
			err = s3.SetHexString(shs)
			r.Count("roundtrip_checks", 1)
			if err != nil || !s3.IsEqual(sig) || s3.GetHexString() != shs || shs != "0x"+hx(sb) {
				rtFail(idx, c, "signature", "hex", fmt.Sprintf("Signature hex %s -> %s (err %v)", shs, s3.GetHexString(), err))
			}
			// the re-parsed triple still verifies
			r.Count("roundtrip_checks", 1)
			if s2 != nil && !groupsig.VerifySig(q, c.Msg, *s2) {
				rtFail(idx, c, "triple", "verify", "re-parsed public key and signature do not verify")
			}
			// id derived from the public key
			id := groupsig.NewIDFromPubkey(*pk)
			ib := id.Serialize()
			id2 := groupsig.DeserializeID(ib)
			r.Count("roundtrip_checks", 1)
			if len(ib) != 32 || !id2.IsEqual(*id) || !bytes.Equal(id2.Serialize(), ib) || id2.ToAddress() != id.ToAddress() {
				rtFail(idx, c, "id", "bytes", fmt.Sprintf("ID %x -> %x", ib, id2.Serialize()))
			}
			var id3 groupsig.ID
			ihs := id.GetHexString()
			err = id3.SetHexString(ihs)
			r.Count("roundtrip_checks", 1)
			if err != nil || !id3.IsEqual(*id) || id3.GetHexString() != ihs || ihs != "0x"+hx(ib) {
				rtFail(idx, c, "id", "hex", fmt.Sprintf("ID hex %s -> %s (err %v)", ihs, id3.GetHexString(), err))
			}
			jb, err = json.Marshal(id)
			var id4 groupsig.ID
			err2 = json.Unmarshal(jb, &id4)
			r.Count("roundtrip_checks", 1)
			if err != nil || err2 != nil || !id4.IsEqual(*id) {
				rtFail(idx, c, "id", "json", fmt.Sprintf("ID json %s -> %s (err %v %v)", jb, id4.GetHexString(), err, err2))
			}
		})
	}
}

// ---------------------------------------------------------------------------
// pairing laws

func gtOne() []byte { return new(bn.GT).Marshal() }

func evalPairing(r *mon.Run, c Case) {
	ord := bnref.Order
	r.Guard("C14:pair", c, func() {
		a, b := new(big.Int).SetBytes(c.A), new(big.Int).SetBytes(c.Bs)
		P := new(bn.G1)
		if len(c.Pk) == 0 {
			P.HashToPoint(c.Msg)
		} else {
			P.ScalarBaseMult(new(big.Int).SetBytes(c.Pk))
		}
		Q := new(bn.G2).ScalarBaseMult(new(big.Int).SetBytes(c.Qk))
		pInf := bytes.Equal(P.Marshal(), make([]byte, 64))
		qInf := len(Q.Marshal()) != 128
		fail := func(law, what string) {
			agg.add("C14:pair:"+law, what, c, c.Pi)
		}
		e := bn.Pair(P, Q)
		eb := e.Marshal()
		ab := new(big.Int).Mul(a, b)
		ab.Mod(ab, ord)
		aP := new(bn.G1).ScalarMult(P, a)
		bQ := new(bn.G2).ScalarMult(Q, b)
		lhs := bn.Pair(aP, bQ).Marshal()
		rhs := new(bn.GT).ScalarMult(e, ab).Marshal()
		r.Count("pairing_law_checks", 1)
		if !bytes.Equal(lhs, rhs) {
			fail("not-bilinear", "e(aP,bQ) != e(P,Q)^(ab)")
		}
		r.Count("pairing_law_checks", 1)
		if l2 := bn.Pair(new(bn.G1).ScalarMult(P, ab), Q).Marshal(); !bytes.Equal(l2, rhs) {
			fail("not-bilinear-left", "e(abP,Q) != e(P,Q)^(ab)")
		}
		r.Count("pairing_law_checks", 1)
		if l3 := bn.Pair(P, new(bn.G2).ScalarMult(Q, ab)).Marshal(); !bytes.Equal(l3, rhs) {
			fail("not-bilinear-right", "e(P,abQ) != e(P,Q)^(ab)")
		}
		// additivity: e(P + aP, Q) = e(P,Q) * e(aP,Q)
		r.Count("pairing_law_checks", 1)
		sum := bn.Pair(new(bn.G1).Add(P, aP), Q).Marshal()
		prod := new(bn.GT).Add(e, bn.Pair(aP, Q)).Marshal()
		if !bytes.Equal(sum, prod) {
			fail("not-additive-left", "e(P+aP,Q) != e(P,Q)e(aP,Q)")
		}
		r.Count("pairing_law_checks", 1)
		sum = bn.Pair(P, new(bn.G2).Add(Q, bQ)).Marshal()
		prod = new(bn.GT).Add(e, bn.Pair(P, bQ)).Marshal()
		if !bytes.Equal(sum, prod) {
			fail("not-additive-right", "e(P,Q+bQ) != e(P,Q)e(P,bQ)")
		}
		r.Count("pairing_law_checks", 1)
		if pInf || qInf {
			if !bytes.Equal(eb, gtOne()) {
				fail("identity-not-mapped-to-one", "e(P,Q) != 1 although P or Q is the identity")
			}
		} else {
			r.Count("nondegeneracy_checks", 1)
			if bytes.Equal(eb, gtOne()) {
				fail("degenerate", "e(P,Q) == 1 for P, Q different from the identity")
			}
			if !bytes.Equal(new(bn.GT).ScalarMult(e, ord).Marshal(), gtOne()) {
				fail("order", "e(P,Q)^r != 1")
			}
		}
		r.Count("pairing_law_checks", 1)
		if z := bn.Pair(new(bn.G1).ScalarMult(P, ord), Q).Marshal(); !bytes.Equal(z, gtOne()) {
			fail("identity-not-mapped-to-one", "e([r]P,Q) != 1")
		}
		// the comparison used by VerifySig must be exact: one tampered coefficient differs
		if !pInf && !qInf {
			r.Count("gt_equality_checks", 1)
			if !bn.PairIsEuqal(e, bn.Pair(P, Q)) {
				fail("PairIsEuqal-false-on-equal", "PairIsEuqal(e, e) false")
			}
			for j := 0; j < 12; j++ {
				t := append([]byte{}, eb...)
				t[32*j+31] ^= 1
				g := new(bn.GT)
				if _, err := g.Unmarshal(t); err != nil {
					continue
				}
				r.Count("gt_equality_checks", 1)
				if bn.PairIsEuqal(e, g) {
					fail("PairIsEuqal-loose", fmt.Sprintf("PairIsEuqal true for GT values differing in coefficient %d", j))
				}
			}
			r.Count("gt_equality_checks", 2)
			if bn.PairIsEuqal(e, new(bn.GT).Neg(e)) {
				fail("PairIsEuqal-loose", "PairIsEuqal(e, e^-1) true")
			}
			if bn.PairIsEuqal(e, new(bn.GT).Add(e, e)) {
				fail("PairIsEuqal-loose", "PairIsEuqal(e, e^2) true")
			}
		}
		r.Distinct("pairing", c.A, c.Bs, c.Pk, c.Qk, c.Msg)
	})
}

// ---------------------------------------------------------------------------
// generators

func scalarFor(r *mon.Run, idx int, label string) *big.Int {
	rng := r.Rand(label, idx)
	ord := bnref.Order
	edge := []*big.Int{big.NewInt(1), big.NewInt(2), big.NewInt(3), new(big.Int).Sub(ord, one), new(big.Int).Sub(ord, big.NewInt(2)),
		big.NewInt(255), big.NewInt(256), new(big.Int).Lsh(one, 128), new(big.Int).Sub(new(big.Int).Lsh(one, 248), one), new(big.Int).Lsh(one, 200)}
	if label == "sk" && idx < len(edge) {
		return edge[idx]
	}
	for {
		var v *big.Int
		if rng.Intn(5) == 0 { // scalar with leading zero bytes
			bits := 1 + rng.Intn(248)
			v = new(big.Int).SetBytes(rndBytes(rng, (bits+7)/8))
			v.Rsh(v, uint(((bits+7)/8)*8-bits))
		} else {
			v = new(big.Int).SetBytes(rndBytes(rng, 32))
			v.Mod(v, ord)
		}
		if v.Sign() > 0 && v.Cmp(ord) < 0 {
			return v
		}
	}
}

func msgFor(r *mon.Run, idx int, label string) []byte {
	rng := r.Rand(label, idx)
	switch {
	case label == "msg" && idx%37 == 11:
		return []byte{}
	case idx%3 == 0:
		return rndBytes(rng, 32) // block / data hashes are what the node signs
	case idx%7 == 1:
		return rndBytes(rng, 1)
	default:
		return rndBytes(rng, 1+rng.Intn(200))
	}
}

func runPairIndex(r *mon.Run, i int, flips bool) {
	sk := scalarFor(r, i, "sk")
	msg := msgFor(r, i, "msg")
	h := mkHonest(i, sk.Bytes(), msg)
	var sk2 groupsig.Seckey
	for k := 0; ; k++ {
		v := scalarFor(r, i*8+k, "sk2")
		if v.Cmp(sk) != 0 {
			sk2.Deserialize(v.Bytes())
			break
		}
	}
	m2 := msgFor(r, i, "msg2")
	if bytes.Equal(m2, msg) {
		m2 = append(m2, 1)
	}
	base := Case{SK: sk.Bytes(), Msg: msg}
	cn := ctr{}
	defer cn.flush(r)

	// reference sanity of the honest material (positive control of the reference itself)
	if v, inf := refG1Valid(h.sigB); !v || inf {
		agg.add("C14:ref:honest-signature-not-on-curve", "Sign() returned bytes that the reference does not place on y^2=x^3+3", Case{Fam: "sig", Class: "honest", Path: sigPaths[0], SK: base.SK, Msg: msg, B: h.sigB}, i)
		return
	}
	if v, inf := refG2Valid(h.pkB); !v || inf {
		agg.add("C14:ref:honest-pubkey-not-on-twist", "GeneratePubkey() returned bytes that the reference does not place on the twist", Case{Fam: "pk", Class: "honest", Path: pkPaths[0], SK: base.SK, Msg: msg, B: h.pkB}, i)
		return
	}
	r.Count("ref_honest_material_on_curve", 1)
	crossCheckG1(r, h, Case{Fam: "sig", Class: "honest", Path: sigPaths[0], SK: base.SK, Msg: msg, B: h.sigB})

	for _, d := range sigDerivations(r, h, sk2, m2, flips) {
		trivialBulk := strings.HasPrefix(d.class, "bitflip:")
		for pi, p := range sigPaths {
			if trivialBulk && pi > 0 {
				continue
			}
			c := Case{Fam: "sig", Class: d.class, Path: p, SK: base.SK, Msg: msg, B: d.b}
			evalVerify(r, cn, h, c)
			if pi == 0 {
				parserDiff(r, cn, h, c)
			}
		}
		cn.Count("class_sig_"+classGroup(d.class), 1)
	}
	alt := pkPaths[1+i%3]
	for _, d := range pkDerivations(r, h, sk2, flips) {
		trivialBulk := strings.HasPrefix(d.class, "bitflip:")
		for pi, p := range []string{pkPaths[0], alt} {
			if trivialBulk && pi > 0 {
				continue
			}
			c := Case{Fam: "pk", Class: d.class, Path: p, SK: base.SK, Msg: msg, B: d.b}
			evalVerify(r, cn, h, c)
			if pi == 0 {
				parserDiff(r, cn, h, c)
			}
		}
		cn.Count("class_pk_"+classGroup(d.class), 1)
	}
	evalRoundTrips(r, i, Case{Fam: "rt", Kind: "keypair", V: sk.Bytes(), Msg: msg})
	evalRoundTrips(r, i, Case{Fam: "rt", Kind: "scalar", V: sk.Bytes()})

	// observation (not judged by the uniqueness oracle, see the report): the identity
	// public key together with the identity signature
	if i < 8 {
		r.Guard("C14:idpair", base, func() {
			var pk0 groupsig.Pubkey
			if err := pk0.Deserialize(make([]byte, 128)); err == nil {
				r.Count("obs_identity_pubkey_deserialized", 1)
				if groupsig.VerifySig(pk0, msg, *groupsig.DeserializeSign(make([]byte, 64))) {
					r.Count("obs_identity_pubkey_with_identity_signature_verifies", 1)
				}
			}
		})
	}
	if i < 3 {
		r.Sample(map[string]interface{}{"sk": hx(sk.Bytes()), "msg": hx(msg), "honest_sig": hx(h.sigB), "honest_pk": hx(h.pkB)})
	}
}

func pairCase(r *mon.Run, i int) Case {
	rng := r.Rand("paircase", i)
	ord := bnref.Order
	pick := func(k int) *big.Int {
		switch (i/k + rng.Intn(3)) % 9 {
		case 0:
			return big.NewInt(1)
		case 1:
			return new(big.Int).Sub(ord, one)
		case 2:
			return new(big.Int).Add(ord, one)
		case 3:
			return new(big.Int).SetBytes(rndBytes(rng, 32)) // possibly >= r
		case 4:
			return big.NewInt(int64(2 + rng.Intn(1000)))
		default:
			v := new(big.Int).SetBytes(rndBytes(rng, 32))
			return v.Mod(v, ord)
		}
	}
	c := Case{Fam: "pair", Pi: i, A: pick(1).Bytes(), Bs: pick(9).Bytes()}
	switch {
	case i == 0:
		c.A, c.Bs = []byte{}, big.NewInt(5).Bytes() // a = 0
	case i == 1:
		c.A, c.Bs = ord.Bytes(), big.NewInt(7).Bytes() // a = r
	case i == 2:
		c.A, c.Bs = big.NewInt(7).Bytes(), []byte{} // b = 0
	}
	if i%2 == 0 {
		c.Msg = rndBytes(rng, 1+rng.Intn(64))
	} else {
		c.Pk = pick(3).Bytes()
		if len(c.Pk) == 0 {
			c.Pk = []byte{1}
		}
	}
	q := pick(5)
	if i%11 == 3 {
		q = big.NewInt(1)
	}
	c.Qk = q.Bytes()
	if len(c.Qk) == 0 {
		c.Qk = []byte{1}
	}
	return c
}

// ---------------------------------------------------------------------------

func replay(r *mon.Run, path string) {
	v, err := mon.LoadReplay(path)
	if err != nil {
		fmt.Println("MACHINERY:", err)
		os.Exit(2)
	}
	var w struct {
		Case *Case `json:"case"`
	}
	var c Case
	json.Unmarshal(v.Witness, &w)
	if w.Case != nil {
		c = *w.Case
	} else if err := json.Unmarshal(v.Witness, &c); err != nil {
		fmt.Println("MACHINERY: witness:", err)
		os.Exit(2)
	}
	switch c.Fam {
	case "sig", "pk":
		h := mkHonest(0, c.SK, c.Msg)
		evalVerify(r, r, h, c)
		parserDiff(r, r, h, c)
		if c.Class == "honest" {
			crossCheckG1(r, h, c)
		}
	case "rt":
		evalRoundTrips(r, 0, c)
	case "pair":
		if strings.HasPrefix(c.Class, "neg-law") {
			negLawCase(r, c)
		} else {
			evalPairing(r, c)
		}
	case "recv":
		recvEval(r, r, c, nil)
	case "inputs":
		inputsEval(r, r, c)
	case "conc":
		// an interleaving: repeat the recorded round until it shows again (bounded)
		for rep := 0; rep < 300 && len(agg.m) == 0; rep++ {
			concRound(r, c)
			r.Count("replay_repetitions", 1)
		}
	default:
		fmt.Println("MACHINERY: unknown case family", c.Fam)
		os.Exit(2)
	}
	agg.flush(r)
	r.Finish(mon.Coverage{Evaluations: 2, DistinctNontrivial: 2, Rule: "replay of one recorded case"})
}

func main() {
	r := mon.Start("C14")
	if !bnref.SelfCheck() {
		fmt.Println("MACHINERY: reference constants fail their self check")
		os.Exit(2)
	}
	if p := mon.ReplayArg(); p != "" {
		replay(r, p)
	}
	if args, ok := mon.IsChildInvocation(); ok && len(args) > 0 && args[0] == "conc" {
		// race-detector child: the concurrent phase only
		concPhase(r, true)
		agg.flush(r)
		r.Finish(mon.Coverage{Evaluations: r.Get("concurrent_verifications") + r.Get("concurrent_pairings")})
	}
	workers := runtime.NumCPU()
	nPairs := r.Pick(300, 20000)
	nFlip := r.Pick(20, 500)
	nLaw := r.Pick(300, 8000)
	nScalar := r.Pick(2000, 100000)

	mon.Parallel(nPairs, workers, func(i int) { runPairIndex(r, i, i < nFlip) })

	// leading-zero scalars for Seckey / ID round trips
	var scalars []*big.Int
	scalars = append(scalars, big.NewInt(0))
	for k := uint(0); k <= 253; k++ {
		p := new(big.Int).Lsh(one, k)
		scalars = append(scalars, p, new(big.Int).Sub(p, one), new(big.Int).Add(p, one))
	}
	scalars = append(scalars, new(big.Int).Sub(bnref.Order, one))
	nb := len(scalars)
	mon.Parallel(nb+nScalar, workers, func(i int) {
		var v *big.Int
		if i < nb {
			v = scalars[i]
		} else {
			v = scalarFor(r, i, "rtscalar")
		}
		evalRoundTrips(r, i, Case{Fam: "rt", Kind: "scalar", V: v.Bytes()})
		r.Distinct("scalar", v.Bytes())
	})

	mon.Parallel(nLaw, workers, func(i int) { evalPairing(r, pairCase(r, i)) })

	recvPhase(r, workers)
	inputsPhase(r, workers)
	concPhase(r, false)
	concRaceChild(r)
	negLaw(r, r.Pick(60, 2000))
	obsSharedJacobianSignature(r)

	if n := r.Get("obs_identity_pubkey_with_identity_signature_verifies"); n > 0 {
		r.Note("observation (outside the uniqueness oracle): Pubkey.Deserialize accepts 128 zero bytes (identity of G2, the key of the invalid secret 0) and VerifySig(identity key, any message, 64 zero bytes) is true (%d of %d tries)", n, r.Get("obs_identity_pubkey_deserialized"))
	}
	agg.flush(r)
	r.Sample(pairCase(r, 5))
	r.Sample(Case{Fam: "rt", Kind: "scalar", V: scalars[25].Bytes()})

	evals := r.Get("verify_cases") + r.Get("roundtrip_checks") + r.Get("pairing_law_checks") + r.Get("gt_equality_checks") + r.Get("parser_diff_checks") + r.Get("g1_op_crosschecks") +
		r.Get("concurrent_verifications") + r.Get("concurrent_pairings") + r.Get("concurrent_post_checks") + r.Get("receiver_state_checks") +
		r.Get("inputs_unmodified_checks") + r.Get("inputs_result_checks")
	r.Finish(mon.Coverage{
		Evaluations:        evals,
		DistinctNontrivial: int64(r.DistinctCount("nontrivial") + r.DistinctCount("pairing") + r.DistinctCount("concurrent") + r.DistinctCount("receiver_entry_state") + r.DistinctCount("inputs_op_position")),
		Rule: "per seeded (secret key, message) pair (edge scalars 1,2,3,r-1,r-2,2^k and leading-zero scalars included; messages empty/1/32/1..200 bytes): " +
			"the honest signature and ~110 derived byte strings (negation, doubling, small multiples, sums with other valid signatures, signatures for other messages/keys, identity and its non-reduced forms, generator, random curve point, off-curve x+1/y+1, coordinates +P, 2P-y, swapped, over-long 65/96/128, junk-prefixed, every truncation 0..63) presented through DeserializeSign and Signature.SetHexString to the real VerifySig; " +
			"the honest public key and ~165 derived strings (negation, doubling, other key, sums, identity, 1-byte and empty, off-curve, each coordinate +P, over-long 129/160/256, truncations 1..127, twist points outside the order-r subgroup incl. order-13 and order-7369 points and pk+such) through Pubkey.Deserialize and one of ByteToPublicKey/SetHexString/UnmarshalJSON; " +
			"for the first pairs additionally all 512/1024 single-bit flips and, for flipped x, the valid curve/twist point with recomputed y. Oracle: accepted <=> presented bytes equal the honest encoding. " +
			"Non-trivial = the reference (math/big) places the presented bytes on the curve/twist, so the pairing comparison and not the parser decides; distinct by (family, presented bytes, key, message). " +
			"Plus parser differential against the reference, byte/hex/JSON round trips, and pairing laws (bilinear in both arguments, additive, e([r]P,Q)=1, e(P,Q)!=1, e^r=1, exactness of PairIsEuqal) on seeded scalars incl. 0,1,r-1,r,r+1,>=r. " +
			"Concurrent phase: per round a fresh public key object still in Jacobian form (GeneratePubkey / AggregatePubkeys output, never serialised; a twin regenerated from the same secret serves the oracle) and one parsed signature object are shared by 16 goroutines released together, each running VerifySig on the honest and on a forged message; likewise shared Jacobian aP, bQ in Pair. Judged: every honest verification true, every forged false, racing Pair results equal e(P,Q)^(ab) of the twins, afterwards the shared objects verify sequentially and serialise to the twin's bytes. " +
			"Receiver-state clause: every parse entry point (Signature.Deserialize/SetHexString, Pubkey.Deserialize/SetHexString/UnmarshalJSON, Seckey and ID byte/hex/JSON parsers, bn256 G1/G2.Unmarshal) applied to receivers holding a computed Jacobian value, the identity, another parsed value or the remains of a failed parse, for honest / other / identity / off-curve / non-reduced / over-long / truncated / empty inputs; judged: accepted-or-not, resulting bytes and verification / pairing verdicts equal those of a fresh receiver. " +
			"Inputs-unmodified clause: AggregatePubkeys (every position, inputs reused, duplicated element), AggregateSeckeys, ShareSeckey, RecoverGroupSignature, VerifySig, Sign, GeneratePubkey, NewIDFromPubkey, IsEqual and the value-receiver readers, bn256 Add/Neg/ScalarMult/Pair, with computed (Jacobian, never serialised) and parsed inputs; judged: every argument afterwards serialises to the bytes of a twin regenerated from the same secret, verifies its own honest signature, rejects another party's, and the operation's result is right",
		Assumptions: []string{
			"math/big reference arithmetic for y^2=x^3+3 over F_p and the twist y^2=x^3+3/(i+3) over F_p^2 is exact; its constants pass the BN-polynomial self check and every honest key/signature of the run lies on the reference curves",
			"BLS uniqueness: for a fixed key and message exactly one group element verifies, so byte equality with Sign(sk,m).Serialize() is the exact acceptance oracle",
			"bn256 G2 group operations (Add/Neg/ScalarMult) are used only to generate presented inputs, never to judge",
		},
		MustObserve: []string{"honest_accepted", "nonhonest_rejected", "pairing_decided", "parser_decided", "roundtrip_checks", "pairing_law_checks",
			"nondegeneracy_checks", "gt_equality_checks", "ref_honest_material_on_curve", "nonsubgroup_points_constructed", "parser_diff_checks", "g1_op_crosschecks",
			"concurrent_verifications", "concurrent_pairings", "concurrent_post_checks", "receiver_state_checks", "inputs_unmodified_checks", "inputs_result_checks"},
	})
}
