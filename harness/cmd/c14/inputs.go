package main

// "Inputs are not modified" clause of C14: keys, signatures and ids are passed
// by value but hide pointers. After any groupsig operation every argument must
// still be the same group element / scalar: it serialises to the bytes of a twin
// regenerated from the same secret (the input itself is NOT serialised before
// the call, so Jacobian inputs stay Jacobian), still verifies its own honest
// signature and still rejects another party's; the operation's result is right.
// Representation changes (in-place normalisation) are not judged: only bytes
// and verdicts are.

import (
	"bytes"
	"encoding/json"
	"fmt"
	"math/big"

	"golang.org/x/crypto/sha3"

	"com.tuntun.rangers/node/src/consensus/groupsig"
	bn "com.tuntun.rangers/node/src/consensus/groupsig/bn256"

	"verifharness/mon"
	"verifharness/ref/bnref"
)

type party struct {
	k    *big.Int
	skB  []byte
	msg  []byte
	pkB  []byte // twin bytes
	sigB []byte
}

func (p *party) sk() groupsig.Seckey { var s groupsig.Seckey; s.Deserialize(p.skB); return s }

func mkParties(c Case) []*party {
	out := make([]*party, len(c.SKs))
	for j, skb := range c.SKs {
		p := &party{k: new(big.Int).SetBytes(skb), skB: skb, msg: append(append([]byte{}, c.Msg...), byte(j))}
		p.pkB = groupsig.GeneratePubkey(p.sk()).Serialize()
		p.sigB = groupsig.Sign(p.sk(), p.msg).Serialize()
		out[j] = p
	}
	return out
}

// pkIn / sigIn build an input in the requested form: 'j' computed (Jacobian, never
// serialised), 'p' parsed from the twin's bytes.
func (p *party) pkIn(form byte) *groupsig.Pubkey {
	if form == 'j' {
		return groupsig.GeneratePubkey(p.sk())
	}
	k := new(groupsig.Pubkey)
	k.Deserialize(p.pkB)
	return k
}

func (p *party) sigIn(form byte) *groupsig.Signature {
	if form == 'j' {
		s := groupsig.Sign(p.sk(), p.msg)
		return &s
	}
	return groupsig.DeserializeSign(p.sigB)
}

type inCtx struct {
	r  *mon.Run
	cn counter
	c  Case
}

func (x *inCtx) modified(pos, what string) {
	agg.add("C14:inputs:modified-by:"+x.c.Kind+":"+pos, x.c.Kind+" ("+x.c.Class+"): "+what, x.c, x.c.Round)
}
func (x *inCtx) wrong(what string) {
	agg.add("C14:inputs:wrong-result:"+x.c.Kind, x.c.Kind+" ("+x.c.Class+"): "+what, x.c, x.c.Round)
}
func (x *inCtx) result(ok bool, what string) {
	x.cn.Count("inputs_result_checks", 1)
	if !ok {
		x.wrong(what)
	}
}

func (x *inCtx) checkPK(pos string, k *groupsig.Pubkey, p, other *party) {
	x.cn.Count("inputs_unmodified_checks", 1)
	x.r.Distinct("inputs_op_position", []byte(x.c.Kind), []byte(pos))
	own := groupsig.VerifySig(*k, p.msg, *groupsig.DeserializeSign(p.sigB))
	oth := groupsig.VerifySig(*k, other.msg, *groupsig.DeserializeSign(other.sigB))
	ser := k.Serialize()
	switch {
	case !bytes.Equal(ser, p.pkB):
		x.modified(pos, fmt.Sprintf("the public key passed as %s serialises to %x… afterwards, its twin from the same secret to %x… (verifies own signature: %v, another party's: %v)", pos, ser[:minInt(12, len(ser))], p.pkB[:12], own, oth))
	case !own:
		x.modified(pos, "the public key passed as "+pos+" rejects its own honest signature afterwards")
	case oth:
		x.modified(pos, "the public key passed as "+pos+" accepts another party's signature afterwards")
	}
}

func (x *inCtx) checkSig(pos string, s *groupsig.Signature, p, other *party) {
	x.cn.Count("inputs_unmodified_checks", 1)
	x.r.Distinct("inputs_op_position", []byte(x.c.Kind), []byte(pos))
	pk, opk := p.pkIn('p'), other.pkIn('p')
	own := groupsig.VerifySig(*pk, p.msg, *s)
	oth := groupsig.VerifySig(*opk, other.msg, *s)
	ser := s.Serialize()
	switch {
	case !bytes.Equal(ser, p.sigB):
		x.modified(pos, fmt.Sprintf("the signature passed as %s serialises to %x… afterwards, its twin to %x…", pos, ser[:minInt(12, len(ser))], p.sigB[:12]))
	case !own:
		x.modified(pos, "the signature passed as "+pos+" no longer verifies under its key")
	case oth:
		x.modified(pos, "the signature passed as "+pos+" verifies under another party's key and message afterwards")
	}
}

func (x *inCtx) checkSK(pos string, s *groupsig.Seckey, k *big.Int) {
	x.cn.Count("inputs_unmodified_checks", 1)
	x.r.Distinct("inputs_op_position", []byte(x.c.Kind), []byte(pos))
	if s.GetBigInt().Cmp(k) != 0 || !bytes.Equal(s.Serialize(), k.Bytes()) {
		x.modified(pos, fmt.Sprintf("the secret key passed as %s is %s afterwards, was %s", pos, s.GetHexString(), k.Text(16)))
	}
}

func (x *inCtx) checkID(pos string, id *groupsig.ID, v *big.Int) {
	x.cn.Count("inputs_unmodified_checks", 1)
	x.r.Distinct("inputs_op_position", []byte(x.c.Kind), []byte(pos))
	if id.GetBigInt().Cmp(v) != 0 || !bytes.Equal(id.Serialize(), bnref.Pad32(v)) {
		x.modified(pos, fmt.Sprintf("the id passed as %s is %s afterwards, was %s", pos, id.GetHexString(), v.Text(16)))
	}
}

func minInt(a, b int) int {
	if a < b {
		return a
	}
	return b
}

func posName(i, n int) string {
	switch {
	case i == 0:
		return "first"
	case i == n-1:
		return "last"
	}
	return "middle"
}

func sumMod(ps []*party) *big.Int {
	s := new(big.Int)
	for _, p := range ps {
		s.Add(s, p.k)
	}
	return s.Mod(s, bnref.Order)
}

func formAt(forms string, i int) byte {
	if i < len(forms) {
		return forms[i]
	}
	return 'j'
}

// inputsEval runs one operation (c.Kind) with inputs in the forms c.Class over the
// parties derived from c.SKs / c.Msg.
func inputsEval(r *mon.Run, cn counter, c Case) {
	x := &inCtx{r, cn, c}
	ps := mkParties(c)
	n := len(ps)
	if n < 3 {
		return
	}
	other := func(i int) *party { return ps[(i+1)%n] }
	r.Guard("C14:inputs", c, func() {
		switch c.Kind {
		case "AggregatePubkeys", "AggregatePubkeys-twice":
			pubs := make([]groupsig.Pubkey, n)
			for i := range ps {
				pubs[i] = *ps[i].pkIn(formAt(c.Class, i))
			}
			agg1 := groupsig.AggregatePubkeys(pubs)
			if c.Kind == "AggregatePubkeys-twice" { // the inputs are used again
				agg1 = groupsig.AggregatePubkeys(pubs)
			}
			var sum groupsig.Seckey
			sum.Deserialize(sumMod(ps).Bytes())
			x.result(agg1 != nil && sum.IsValid() && bytes.Equal(agg1.Serialize(), groupsig.GeneratePubkey(sum).Serialize()), "the aggregate is not the public key of the sum of the secrets")
			for i := range pubs {
				x.checkPK(posName(i, n), &pubs[i], ps[i], other(i))
			}
		case "AggregatePubkeys-duplicate":
			k := ps[0].pkIn(formAt(c.Class, 0))
			a := groupsig.AggregatePubkeys([]groupsig.Pubkey{*k, *k, *ps[1].pkIn(formAt(c.Class, 1))})
			var s groupsig.Seckey
			s.Deserialize(new(big.Int).Mod(new(big.Int).Add(new(big.Int).Lsh(ps[0].k, 1), ps[1].k), bnref.Order).Bytes())
			x.result(a != nil && bytes.Equal(a.Serialize(), groupsig.GeneratePubkey(s).Serialize()), "aggregate of [k,k,k2] is not [2sk+sk2]G2")
			x.checkPK("first+middle", k, ps[0], ps[1])
		case "AggregateSeckeys":
			secs := make([]groupsig.Seckey, n)
			for i := range ps {
				secs[i] = ps[i].sk()
			}
			a := groupsig.AggregateSeckeys(secs)
			x.result(a != nil && a.GetBigInt().Cmp(sumMod(ps)) == 0, "aggregate secret is not the sum mod r")
			for i := range secs {
				x.checkSK(posName(i, n), &secs[i], ps[i].k)
			}
		case "ShareSeckey", "RecoverGroupSignature":
			// polynomial with coefficients ps[0..2], members with ids from ps[j].k+7
			msec := []groupsig.Seckey{ps[0].sk(), ps[1].sk(), ps[2].sk()}
			eval := func(xv *big.Int) *big.Int {
				acc := new(big.Int).Set(ps[2].k)
				for j := 1; j >= 0; j-- {
					acc.Mul(acc, xv)
					acc.Add(acc, ps[j].k)
					acc.Mod(acc, bnref.Order)
				}
				return acc
			}
			nm := 4
			ids := make([]*groupsig.ID, nm)
			idv := make([]*big.Int, nm)
			shares := make([]*groupsig.Seckey, nm)
			for m := 0; m < nm; m++ {
				idv[m] = new(big.Int).Add(ps[m%n].k, big.NewInt(int64(7+m)))
				idv[m].Mod(idv[m], bnref.Order)
				ids[m] = new(groupsig.ID)
				ids[m].SetBigInt(idv[m])
				shares[m] = groupsig.ShareSeckey(msec, *ids[m])
				if c.Kind == "ShareSeckey" {
					x.result(shares[m] != nil && shares[m].GetBigInt().Cmp(eval(idv[m])) == 0, "share is not the polynomial value at the id")
					for i := range msec {
						x.checkSK("coefficient-"+posName(i, 3), &msec[i], ps[i].k)
					}
					x.checkID("id", ids[m], idv[m])
				}
			}
			if c.Kind == "ShareSeckey" {
				return
			}
			msg := ps[0].msg
			members := make([]*party, nm)
			m := map[string]groupsig.Signature{}
			held := make([]*groupsig.Signature, nm)
			for i := 0; i < nm; i++ {
				members[i] = &party{k: shares[i].GetBigInt(), skB: shares[i].Serialize(), msg: msg}
				members[i].pkB = groupsig.GeneratePubkey(*shares[i]).Serialize()
				members[i].sigB = groupsig.Sign(*shares[i], msg).Serialize()
				held[i] = members[i].sigIn(formAt(c.Class, i))
				m[ids[i].GetHexString()] = *held[i]
			}
			thr := 3 // a random 3-subset of the 4 members
			if len(c.Class) > 4 && c.Class[4] == 'a' {
				thr = 4 // all four points; they still interpolate the degree-2 polynomial exactly
			}
			rec := groupsig.RecoverGroupSignature(m, thr)
			x.result(rec != nil && bytes.Equal(rec.Serialize(), groupsig.Sign(msec[0], msg).Serialize()), "recovered group signature is not the signature of the group secret")
			foreign := &party{msg: ps[1].msg, pkB: ps[1].pkB, sigB: ps[1].sigB, skB: ps[1].skB, k: ps[1].k}
			for i := 0; i < nm; i++ {
				x.checkSig("member", held[i], members[i], foreign)
				x.checkID("map-key-id", ids[i], idv[i])
			}
		case "VerifySig":
			k, s := ps[0].pkIn(formAt(c.Class, 0)), ps[0].sigIn(formAt(c.Class, 1))
			ok := groupsig.VerifySig(*k, ps[0].msg, *s)
			bad := groupsig.VerifySig(*k, ps[1].msg, *s)
			msgCopy := append([]byte{}, ps[0].msg...)
			x.result(ok && !bad, fmt.Sprintf("honest verdict %v, forged verdict %v", ok, bad))
			x.checkPK("pub", k, ps[0], ps[1])
			x.checkSig("sig", s, ps[0], ps[1])
			x.result(bytes.Equal(msgCopy, ps[0].msg), "message changed")
		case "Sign", "GeneratePubkey":
			sk := ps[0].sk()
			msg := append([]byte{}, ps[0].msg...)
			if c.Kind == "Sign" {
				s := groupsig.Sign(sk, msg)
				x.result(bytes.Equal(s.Serialize(), ps[0].sigB) && bytes.Equal(msg, ps[0].msg), "Sign is not deterministic or changed the message")
			} else {
				k := groupsig.GeneratePubkey(sk)
				x.result(bytes.Equal(k.Serialize(), ps[0].pkB), "GeneratePubkey differs from the twin")
			}
			x.checkSK("sec", &sk, ps[0].k)
		case "NewIDFromPubkey", "Pubkey.readers":
			k := ps[0].pkIn(formAt(c.Class, 0))
			if c.Kind == "NewIDFromPubkey" {
				id := groupsig.NewIDFromPubkey(*k)
				h := sha3.Sum256(ps[0].pkB)
				x.result(id != nil && bytes.Equal(id.Serialize(), h[:]), "id is not sha3-256 of the key's encoding")
			} else {
				hs := k.GetHexString()
				jb, _ := json.Marshal(*k)
				k.GetAddress()
				k.ShortS()
				x.result(hs == "0x"+hx(ps[0].pkB) && string(jb) == `"`+hs+`"` && k.IsValid() && !k.IsEmpty(), "hex / JSON form differs from the twin's encoding")
			}
			x.checkPK("pub", k, ps[0], ps[1])
		case "Pubkey.IsEqual":
			a, b, d := ps[0].pkIn(formAt(c.Class, 0)), ps[0].pkIn(formAt(c.Class, 1)), ps[1].pkIn(formAt(c.Class, 2))
			x.result(a.IsEqual(*b) && !a.IsEqual(*d) && !d.IsEqual(*b), "IsEqual verdicts wrong")
			x.checkPK("receiver", a, ps[0], ps[1])
			x.checkPK("argument", b, ps[0], ps[1])
			x.checkPK("argument-unequal", d, ps[1], ps[0])
		case "Signature.IsEqual+readers":
			a, b, d := ps[0].sigIn(formAt(c.Class, 0)), ps[0].sigIn(formAt(c.Class, 1)), ps[1].sigIn(formAt(c.Class, 2))
			x.result(a.IsEqual(*b) && !a.IsEqual(*d) && a.GetHexString() == "0x"+hx(ps[0].sigB) && a.IsValid() && !a.IsNil(), "IsEqual / hex verdicts wrong")
			a.ShortS()
			x.checkSig("receiver", a, ps[0], ps[1])
			x.checkSig("argument", b, ps[0], ps[1])
			x.checkSig("argument-unequal", d, ps[1], ps[0])
		case "Seckey+ID.readers":
			a, b := ps[0].sk(), ps[1].sk()
			var id, id2 groupsig.ID
			id.SetBigInt(ps[0].k)
			id2.SetBigInt(ps[1].k)
			jb, _ := json.Marshal(id)
			x.result(!a.IsEqual(b) && a.IsValid() && a.GetHexString() == "0x"+ps[0].k.Text(16) && !id.IsEqual(id2) && string(jb) == `"`+id.GetHexString()+`"`, "reader verdicts wrong")
			id.ToAddress()
			x.checkSK("receiver", &a, ps[0].k)
			x.checkSK("argument", &b, ps[1].k)
			x.checkID("receiver", &id, ps[0].k)
			x.checkID("argument", &id2, ps[1].k)
		case "bn256.G2":
			mk := func(p *party, f byte) *bn.G2 {
				if f == 'j' {
					return new(bn.G2).ScalarBaseMult(p.k)
				}
				return g2FromBytes(p.pkB)
			}
			a, b := mk(ps[0], formAt(c.Class, 0)), mk(ps[1], formAt(c.Class, 1))
			sum := new(bn.G2).Add(a, b)
			neg := new(bn.G2).Neg(a)
			mul := new(bn.G2).ScalarMult(b, ps[2].k)
			e := bn.Pair(new(bn.G1).ScalarBaseMult(ps[2].k), a)
			ab := new(big.Int).Mod(new(big.Int).Add(ps[0].k, ps[1].k), bnref.Order)
			x.result(bytes.Equal(sum.Marshal(), new(bn.G2).ScalarBaseMult(ab).Marshal()) &&
				bytes.Equal(new(bn.G2).Add(neg, a).Marshal(), []byte{0}) &&
				bytes.Equal(mul.Marshal(), new(bn.G2).ScalarBaseMult(new(big.Int).Mod(new(big.Int).Mul(ps[1].k, ps[2].k), bnref.Order)).Marshal()) &&
				bytes.Equal(e.Marshal(), new(bn.GT).ScalarMult(bn.Pair(new(bn.G1).ScalarBaseMult(big.NewInt(1)), new(bn.G2).ScalarBaseMult(big.NewInt(1))), new(big.Int).Mod(new(big.Int).Mul(ps[0].k, ps[2].k), bnref.Order)).Marshal()),
				"G2 Add / Neg / ScalarMult / Pair result wrong")
			for i, g := range []*bn.G2{a, b} {
				cn.Count("inputs_unmodified_checks", 1)
				r.Distinct("inputs_op_position", []byte(c.Kind), []byte{byte(i)})
				if !bytes.Equal(g.Marshal(), ps[i].pkB) {
					x.modified([]string{"a", "b"}[i], "the G2 point marshals differently after Add/Neg/ScalarMult/Pair took it as an argument")
				}
			}
		case "bn256.G1":
			mk := func(p *party, f byte) *bn.G1 {
				if f == 'j' {
					return new(bn.G1).ScalarBaseMult(p.k)
				}
				g := new(bn.G1)
				g.Unmarshal(bnref.G1Bytes(bnref.G1Mul(bnref.G1Gen(), p.k)))
				return g
			}
			a, b := mk(ps[0], formAt(c.Class, 0)), mk(ps[1], formAt(c.Class, 1))
			ra, rb := bnref.G1Mul(bnref.G1Gen(), ps[0].k), bnref.G1Mul(bnref.G1Gen(), ps[1].k)
			sum := new(bn.G1).Add(a, b)
			neg := new(bn.G1).Neg(a)
			mul := new(bn.G1).ScalarMult(b, ps[2].k)
			bn.Pair(a, new(bn.G2).ScalarBaseMult(ps[2].k))
			x.result(bytes.Equal(sum.Marshal(), bnref.G1Bytes(bnref.G1Add(ra, rb))) && bytes.Equal(neg.Marshal(), bnref.G1Bytes(bnref.G1Neg(ra))) &&
				bytes.Equal(mul.Marshal(), bnref.G1Bytes(bnref.G1Mul(rb, ps[2].k))), "G1 Add / Neg / ScalarMult result differs from the reference")
			for i, g := range []*bn.G1{a, b} {
				cn.Count("inputs_unmodified_checks", 1)
				r.Distinct("inputs_op_position", []byte(c.Kind), []byte{byte(i)})
				if !bytes.Equal(g.Marshal(), bnref.G1Bytes([]*bnref.G1{ra, rb}[i])) {
					x.modified([]string{"a", "b"}[i], "the G1 point marshals differently after Add/Neg/ScalarMult/Pair took it as an argument")
				}
			}
		}
	})
}

var inputOps = []struct {
	op    string
	forms []string
}{
	{"AggregatePubkeys", []string{"jjj", "ppp", "jpj", "pjp", "jjp", "pjj"}},
	{"AggregatePubkeys-twice", []string{"jjj", "pjp"}},
	{"AggregatePubkeys-duplicate", []string{"jj", "pj", "jp"}},
	{"AggregateSeckeys", []string{"-"}},
	{"ShareSeckey", []string{"-"}},
	{"RecoverGroupSignature", []string{"jjjj", "pppp", "jpjp", "jjjja", "pjpja"}},
	{"VerifySig", []string{"jj", "jp", "pj", "pp"}},
	{"Sign", []string{"-"}},
	{"GeneratePubkey", []string{"-"}},
	{"NewIDFromPubkey", []string{"j", "p"}},
	{"Pubkey.readers", []string{"j", "p"}},
	{"Pubkey.IsEqual", []string{"jjj", "jpj", "pjp"}},
	{"Signature.IsEqual+readers", []string{"jjj", "jpj", "pjp"}},
	{"Seckey+ID.readers", []string{"-"}},
	{"bn256.G2", []string{"jj", "jp", "pj"}},
	{"bn256.G1", []string{"jj", "jp", "pj"}},
}

func inputsSample(r *mon.Run, i int) {
	cn := ctr{}
	defer cn.flush(r)
	c := Case{Fam: "inputs", Round: i, Msg: msgFor(r, i+1, "inputs-msg")}
	for j := 0; j < 3; j++ {
		for t := 0; ; t++ {
			k := scalarFor(r, i*16+j*4+t, "inputs-sk")
			dup := false
			for _, o := range c.SKs {
				dup = dup || bytes.Equal(o, k.Bytes())
			}
			if !dup {
				c.SKs = append(c.SKs, k.Bytes())
				break
			}
		}
	}
	if sumMod(mkPartyScalars(c)).Sign() == 0 {
		return
	}
	for _, o := range inputOps {
		for _, f := range o.forms {
			cc := c
			cc.Kind, cc.Class = o.op, f
			inputsEval(r, cn, cc)
		}
	}
	if i == 0 {
		cc := c
		cc.Kind, cc.Class = "AggregatePubkeys", "jpj"
		r.Sample(cc)
	}
}

func mkPartyScalars(c Case) []*party {
	out := make([]*party, len(c.SKs))
	for j, b := range c.SKs {
		out[j] = &party{k: new(big.Int).SetBytes(b)}
	}
	return out
}

func inputsPhase(r *mon.Run, workers int) {
	mon.Parallel(r.Pick(24, 800), workers, func(i int) { inputsSample(r, i) })
}
