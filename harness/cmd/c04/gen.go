package main

import "math/rand"

// genCase builds one history: optional base phase (mutators, then Reopen = Commit +
// fresh AccountDB on the committed root), then 1-2 "blocks" of "transactions" with
// nested Snapshot/Revert (depth <= 6), optional Finalise/Commit/Reopen between them.
// Addresses are biased to 3 hot ones so that life cycles interact.
func genCase(rng *rand.Rand, mode string, idx int) Case {
	var h []Op
	label := 0
	hot := []int{rng.Intn(nPlain), rng.Intn(nPlain), rng.Intn(nPlain)}
	addr := func() int {
		switch x := rng.Intn(40); {
		case x < 28:
			return hot[rng.Intn(3)]
		case x == 39:
			return idxHolder
		default:
			return rng.Intn(nPlain)
		}
	}
	hotKey := rng.Intn(6)
	key := func() int {
		if rng.Intn(2) == 0 {
			return hotKey
		}
		return rng.Intn(6)
	}
	mutator := func() Op {
		a := addr()
		switch x := rng.Intn(100); {
		case x < 12:
			return Op{K: "SetData", A: a, S: key(), V: rng.Intn(5)}
		case x < 16:
			return Op{K: "RemoveData", A: a, S: key()}
		case x < 21:
			return Op{K: "SetState", A: a, S: key(), V: rng.Intn(5)}
		case x < 24:
			return Op{K: "AddFT", A: a, S: rng.Intn(2), V: rng.Intn(6)}
		case x < 25:
			return Op{K: "SubFT", A: a, S: rng.Intn(2), V: rng.Intn(7)}
		case x < 26:
			return Op{K: "SetFT", A: a, S: rng.Intn(2), V: rng.Intn(7)}
		case x < 30:
			switch rng.Intn(10) { // touch-only operations (zero amounts)
			case 0:
				return Op{K: "AddBalance0", A: a}
			case 1:
				return Op{K: "SubBalance0", A: a}
			case 2:
				return Op{K: "SubFT0", A: a, S: rng.Intn(2)}
			case 3:
				return Op{K: "Transfer0", A: a, B: addr()}
			}
			return Op{K: "TouchFT", A: a, S: rng.Intn(2)}
		case x < 37:
			v := rng.Intn(4)
			if rng.Intn(3) == 0 {
				v = 0
			}
			return Op{K: "SetNonce", A: a, V: v}
		case x < 42:
			return Op{K: "IncreaseNonce", A: a}
		case x < 48:
			return Op{K: "AddBalance", A: a, V: rng.Intn(7)}
		case x < 51:
			return Op{K: "SubBalance", A: a, V: rng.Intn(7)}
		case x < 53:
			return Op{K: "SetBalance", A: a, V: rng.Intn(7)}
		case x < 57:
			return Op{K: "Transfer", A: a, B: addr(), V: rng.Intn(7)}
		case x < 65: // repeated SetCode, mostly on one account per history, every blob fresh
			if rng.Intn(10) < 6 {
				a = hot[0]
			}
			return Op{K: "SetCode", A: a, V: freshCode(rng)}
		case x < 70:
			return Op{K: "CreateAccount", A: a}
		case x < 75:
			return Op{K: "Suicide", A: a}
		case x < 78:
			return Op{K: "AddRefund", V: rng.Intn(4)}
		case x < 80:
			return Op{K: "SubRefund", V: rng.Intn(4)}
		case x < 85:
			return Op{K: "AddLog", A: a, V: rng.Intn(3)}
		case x < 88:
			return Op{K: "AddAddressToAccessList", A: a}
		case x < 92:
			return Op{K: "AddSlotToAccessList", A: a, S: rng.Intn(3)}
		case x < 99:
			return Op{K: "SetTransientState", A: a, S: rng.Intn(3), V: rng.Intn(3)}
		default:
			return Op{K: "BindTokB"}
		}
	}
	readKinds := []string{"Exist", "Empty", "GetNonce", "GetData", "GetData", "GetData", "GetState", "GetCommittedState", "GetCode",
		"GetCodeSize", "GetCodeHash", "HasSuicided", "IsContract", "GetBalance", "GetBalance", "CanTransfer", "GetFT", "GetRefund", "GetLogs",
		"AddressInAccessList", "SlotInAccessList", "GetTransientState"}
	read := func() Op {
		k := readKinds[rng.Intn(len(readKinds))]
		o := Op{K: k, A: addr()}
		switch k {
		case "GetData":
			o.S = key()
		case "GetState", "GetCommittedState", "SlotInAccessList", "GetTransientState":
			o.S = rng.Intn(3)
		case "GetFT":
			o.S = rng.Intn(2)
		case "CanTransfer", "GetLogs":
			o.V = rng.Intn(3)
		}
		return o
	}

	if mode == "bound" {
		h = append(h, Op{K: "Bind"})
	}
	if rng.Intn(10) < 7 { // committed random base state
		n := 4 + rng.Intn(24)
		for i := 0; i < n; i++ {
			if rng.Intn(8) == 0 {
				h = append(h, read())
			} else {
				h = append(h, mutator())
			}
		}
		h = append(h, Op{K: "Reopen", D: rng.Intn(8) != 0})
	} else if mode == "bound" && rng.Intn(2) == 0 {
		h = append(h, Op{K: "Reopen", D: true})
	}
	blocks := 1 + rng.Intn(2)
	for b := 0; b < blocks; b++ {
		ntx := 1 + rng.Intn(4)
		for t := 0; t < ntx; t++ {
			if rng.Intn(3) > 0 {
				h = append(h, Op{K: "Prepare", V: rng.Intn(3)})
			}
			if rng.Intn(5) < 2 { // code set in the still uncommitted state, before the outer snapshot
				h = append(h, Op{K: "SetCode", A: hot[0], V: freshCode(rng)})
			}
			var open []int
			steps := 6 + rng.Intn(20)
			for i := 0; i < steps; i++ {
				switch x := rng.Intn(100); {
				case x < 13 && len(open) < 6:
					label++
					h = append(h, Op{K: "Snapshot", ID: label})
					open = append(open, label)
					if rng.Intn(4) == 0 { // replaced below this snapshot, at whatever depth it is
						h = append(h, Op{K: "SetCode", A: hot[0], V: freshCode(rng)})
					}
				case x < 24 && len(open) > 0:
					j := len(open) - 1
					if rng.Intn(10) < 3 {
						j = rng.Intn(len(open))
					}
					h = append(h, Op{K: "Revert", ID: open[j]})
					open = open[:j]
					if rng.Intn(5) == 0 { // between snapshots / in the kept region after a revert
						h = append(h, Op{K: "SetCode", A: hot[0], V: freshCode(rng)})
					}
				case x < 27 && len(open) > 0:
					open = open[:len(open)-1] // frame returns successfully: snapshot never reverted
				case x < 78:
					h = append(h, mutator())
				default:
					h = append(h, read())
				}
			}
			if len(open) > 0 && rng.Intn(2) == 0 {
				j := rng.Intn(len(open))
				h = append(h, Op{K: "Revert", ID: open[j]})
			}
		}
		if b+1 < blocks {
			switch x := rng.Intn(20); {
			case x < 13:
				h = append(h, Op{K: "Reopen", D: true})
			case x < 15:
				h = append(h, Op{K: "Reopen", D: false})
			case x < 17:
				h = append(h, Op{K: "Commit", D: true})
			default:
				h = append(h, Op{K: "Finalise", D: x != 19})
			}
		}
	}
	fm := finalMode{D: true, IR: true}
	switch rng.Intn(10) {
	case 0:
		fm = finalMode{D: true, IR: false}
	case 1:
		fm = finalMode{D: false, IR: true}
	}
	return Case{Mode: mode, Hist: h, Final: fm, Index: idx}
}

// freshCode draws a code index that denotes a blob of its own (see codeBlob).
func freshCode(rng *rand.Rand) int { return 3 + rng.Intn(1<<40) }

// codeNestingCases: repeated SetCode on one account inside ONE uncommitted state, at every
// nesting depth up to 3, every revert/keep pattern, with the first code uncommitted,
// committed or absent, with and without further SetCode between the closings.
func codeNestingCases(mode string, idx *int) []Case {
	var out []Case
	pres := [][]Op{
		{{K: "SetNonce", A: 1, V: 1}, {K: "SetCode", A: 1, V: 101}},
		{{K: "SetNonce", A: 1, V: 1}, {K: "SetCode", A: 1, V: 101}, {K: "Reopen", D: true}},
		{{K: "SetNonce", A: 1, V: 1}},
		{{K: "SetNonce", A: 1, V: 1}, {K: "SetCode", A: 1, V: 100}, {K: "Reopen", D: true}, {K: "SetCode", A: 1, V: 101}},
	}
	for pi, pre := range pres {
		for depth := 1; depth <= 3; depth++ {
			for mask := 0; mask < 1<<uint(depth); mask++ {
				for between := 0; between < 2; between++ {
					for _, fm := range []finalMode{{D: true, IR: true}, {D: true, IR: false}} {
						var h []Op
						if mode == "bound" {
							h = append(h, Op{K: "Bind"})
						}
						h = append(h, pre...)
						h = append(h, Op{K: "Prepare", V: 1})
						for l := 1; l <= depth; l++ {
							h = append(h, Op{K: "Snapshot", ID: l}, Op{K: "SetCode", A: 1, V: 110 + 10*pi + l})
						}
						for l := depth; l >= 1; l-- {
							if mask&(1<<uint(l-1)) != 0 {
								h = append(h, Op{K: "Revert", ID: l})
							}
							if between == 1 && l > 1 {
								h = append(h, Op{K: "SetCode", A: 1, V: 150 + 10*pi + l})
							}
						}
						if mask == 0 {
							continue
						}
						out = append(out, Case{Mode: mode, Hist: h, Final: fm, Index: *idx})
						*idx++
					}
				}
			}
		}
	}
	return out
}

// directed histories: every mutator kind alone in a reverted region on each
// account life-cycle class (absent, created-empty, created, loaded storage-only,
// loaded with nonce, loaded contract, self-destructed), plus the nested variants.
func directedCases(mode string) []Case {
	var out []Case
	setups := [][]Op{
		nil, // absent
		{{K: "CreateAccount", A: 1}},
		{{K: "SetNonce", A: 1, V: 1}},
		{{K: "SetNonce", A: 1, V: 1}, {K: "SetCode", A: 1, V: 7}}, // code only in the uncommitted state
		{{K: "SetData", A: 1, S: 1, V: 1}, {K: "Reopen", D: true}},
		{{K: "CreateAccount", A: 1}, {K: "Reopen", D: false}},                                                       // plain empty committed account
		{{K: "BindTokB"}, {K: "AddFT", A: 1, S: 1, V: 2}, {K: "SetData", A: 1, S: 1, V: 1}, {K: "Reopen", D: true}}, // empty()-looking, owns storage, holds a bound token
		{{K: "SetData", A: 1, S: 1, V: 1}, {K: "SetNonce", A: 1, V: 2}, {K: "Reopen", D: true}},
		{{K: "SetCode", A: 1, V: 1}, {K: "SetState", A: 1, S: 0, V: 2}, {K: "AddBalance", A: 1, V: 4}, {K: "Reopen", D: true}},
		{{K: "AddFT", A: 1, S: 0, V: 2}, {K: "Reopen", D: true}},
		{{K: "SetNonce", A: 1, V: 1}, {K: "AddBalance", A: 1, V: 4}, {K: "Reopen", D: true}, {K: "Suicide", A: 1}},
		{{K: "SetNonce", A: 1, V: 1}, {K: "Reopen", D: true}, {K: "Suicide", A: 1}, {K: "Finalise", D: true}},
		{{K: "SetData", A: 1, S: 1, V: 1}, {K: "Reopen", D: true}, {K: "SetNonce", A: 1, V: 0}},
		{{K: "SetData", A: 1, S: 1, V: 1}, {K: "Reopen", D: true}, {K: "GetData", A: 1, S: 1}},
	}
	muts := []Op{
		{K: "SetData", A: 1, S: 1, V: 2}, {K: "SetData", A: 1, S: 2, V: 1}, {K: "RemoveData", A: 1, S: 1}, {K: "SetState", A: 1, S: 0, V: 1},
		{K: "AddFT", A: 1, S: 0, V: 1}, {K: "SubFT", A: 1, S: 0, V: 1}, {K: "SetFT", A: 1, S: 0, V: 3}, {K: "TouchFT", A: 1, S: 0},
		{K: "TouchFT", A: 1, S: 1}, {K: "AddBalance0", A: 1}, {K: "SubBalance0", A: 1}, {K: "SubFT0", A: 1, S: 0}, {K: "SubFT0", A: 1, S: 1}, {K: "Transfer0", A: 1, B: 2}, {K: "Transfer0", A: 2, B: 1},
		{K: "SetNonce", A: 1, V: 2}, {K: "SetNonce", A: 1, V: 0}, {K: "IncreaseNonce", A: 1},
		{K: "AddBalance", A: 1, V: 3}, {K: "SubBalance", A: 1, V: 1}, {K: "SetBalance", A: 1, V: 2}, {K: "Transfer", A: 1, B: 2, V: 1}, {K: "Transfer", A: 2, B: 1, V: 1},
		{K: "SetCode", A: 1, V: 2}, {K: "SetCode", A: 1, V: 0}, {K: "CreateAccount", A: 1}, {K: "Suicide", A: 1},
		{K: "AddRefund", V: 2}, {K: "AddLog", A: 1, V: 1}, {K: "AddAddressToAccessList", A: 1}, {K: "AddSlotToAccessList", A: 1, S: 1},
		{K: "SetTransientState", A: 1, S: 1, V: 1}, {K: "BindTokB"},
		{K: "GetData", A: 1, S: 1}, {K: "GetBalance", A: 1}, {K: "GetFT", A: 1, S: 0}, {K: "GetCode", A: 1},
	}
	posts := [][]Op{nil, {{K: "SetNonce", A: 1, V: 3}}, {{K: "SetData", A: 1, S: 2, V: 2}}, {{K: "AddFT", A: 1, S: 0, V: 1}},
		{{K: "Commit", D: true}, {K: "SetData", A: 1, S: 2, V: 2}}, {{K: "Finalise", D: true}, {K: "Suicide", A: 1}}}
	// surviving operations between the setup and the region: a pending write followed by reads of the same slot
	pres := [][]Op{nil, {{K: "SetData", A: 1, S: 3, V: 3}, {K: "GetCommittedState", A: 1, S: 0}}, {{K: "SetState", A: 1, S: 0, V: 3}, {K: "GetCommittedState", A: 1, S: 0}},
		{{K: "GetData", A: 1, S: 1}, {K: "GetBalance", A: 1}}}
	idx := 1000000
	out = append(out, codeNestingCases(mode, &idx)...)
	for _, su := range setups {
		for _, m := range muts {
			for pi, post := range posts {
				for nest := 0; nest < 2+len(pres)-1; nest++ {
					if nest >= 1 && pi != 0 {
						continue
					}
					var h []Op
					if mode == "bound" {
						h = append(h, Op{K: "Bind"})
					}
					h = append(h, su...)
					if nest >= 2 {
						h = append(h, pres[nest-1]...)
					}
					h = append(h, Op{K: "Prepare", V: 1}, Op{K: "Snapshot", ID: 1})
					if nest == 1 {
						h = append(h, Op{K: "Snapshot", ID: 2}, m, Op{K: "Revert", ID: 2}, m)
					} else {
						h = append(h, m)
					}
					h = append(h, Op{K: "Revert", ID: 1})
					h = append(h, post...)
					out = append(out, Case{Mode: mode, Hist: h, Final: finalMode{D: true, IR: true}, Index: idx})
					idx++
				}
			}
		}
	}
	return out
}
