package main

// The two oracles of DESIGN.md §C04, both over executions of the real AccountDB:
//  (1) accessor oracle: the answers of every accessor over the closed universe at
//      Snapshot() time (a deep copy of all answers, taken on a replica so that the
//      observation's own read side effects cannot disturb anything) must be the
//      answers after RevertToSnapshot();
//  (2) twin oracle: the history and the history without its reverted regions are
//      executed on two AccountDBs over the same base; IntermediateRoot / Commit
//      roots must agree, otherwise the two committed tries are diffed leaf by leaf.
// Replicas: executions are deterministic, so "the state at point p" is obtained
// by re-executing the prefix on a fresh AccountDB.

import (
	"fmt"
	"sort"
	"strings"

	"com.tuntun.rangers/node/src/common"
	crypto "com.tuntun.rangers/node/src/eth_crypto"
	"com.tuntun.rangers/node/src/storage/account"
	"com.tuntun.rangers/node/src/storage/rlp"
	"com.tuntun.rangers/node/src/storage/trie"
	"golang.org/x/crypto/sha3"
)

type finalMode struct {
	D  bool `json:"delete_empty"`
	IR bool `json:"intermediate_root_first"`
}

type Case struct {
	Mode  string    `json:"mode"` // "unbound" | "bound" (native balance contract binding)
	Hist  []Op      `json:"hist"`
	Final finalMode `json:"final"`
	Index int       `json:"index"`
}

// ---------------------------------------------------------------------------
// committed-state dump and diff

var emptyCodeHash = sha3.Sum256(nil)

type leaf struct {
	Nonce uint64            `json:"nonce"`
	Root  string            `json:"storage_root"`
	Code  string            `json:"code_hash"`
	Slots map[string]string `json:"slots,omitempty"`
	NoCode,
	NoStorage bool
}

func dumpState(d account.AccountDatabase, root common.Hash) (map[common.Address]*leaf, error) {
	tr, err := trie.NewTrie(root, d.TrieDB())
	if err != nil {
		return nil, err
	}
	out := map[common.Address]*leaf{}
	it := trie.NewIterator(tr.NodeIterator(nil))
	for it.Next() {
		var acc account.Account
		if err := rlp.DecodeBytes(it.Value, &acc); err != nil {
			return nil, fmt.Errorf("leaf %x: %v", it.Key, err)
		}
		l := &leaf{Nonce: acc.Nonce, Root: fmt.Sprintf("%x", acc.Root[:]), Code: fmt.Sprintf("%x", acc.NFTSetDefinitionHash), Slots: map[string]string{}}
		l.NoCode = len(acc.NFTSetDefinitionHash) == 0 || string(acc.NFTSetDefinitionHash) == string(emptyCodeHash[:])
		st, err := trie.NewTrie(acc.Root, d.TrieDB())
		if err != nil {
			l.Slots["<unreadable>"] = err.Error()
		} else {
			sit := trie.NewIterator(st.NodeIterator(nil))
			for sit.Next() {
				l.Slots[fmt.Sprintf("%x", sit.Key)] = fmt.Sprintf("%x", sit.Value)
			}
		}
		l.NoStorage = len(l.Slots) == 0
		out[common.BytesToAddress(it.Key)] = l
	}
	return out, it.Err
}

type slotDiff struct {
	Key  string `json:"key"`
	Orig string `json:"original"`
	Twin string `json:"twin"`
}

type leafDiff struct {
	Addr   common.Address `json:"-"`
	Name   string         `json:"account"`
	Kind   string         `json:"kind"`
	Fields string         `json:"differing_fields,omitempty"`
	Orig   *leaf          `json:"original"`
	Twin   *leaf          `json:"twin"`
	Slots  []slotDiff     `json:"slots,omitempty"`
}

func accName(a common.Address) string {
	if n, ok := nameOf[a]; ok {
		return n
	}
	return a.GetHexString()
}

func slotName(k string) string {
	for i, dk := range dataKeys {
		if fmt.Sprintf("%x", dk) == k {
			return fmt.Sprintf("k%d", i)
		}
	}
	for i, fk := range ftKeys {
		if fmt.Sprintf("%x", fk) == k {
			return "ft:" + ftNames[i]
		}
	}
	for i := 0; i < nUniverse; i++ {
		if fmt.Sprintf("%x", slotRPG[i]) == k {
			return fmt.Sprintf("balance-slot-of-%s", accName(uAddr[i]))
		}
		if fmt.Sprintf("%x", slotTokB[i]) == k {
			return fmt.Sprintf("tokB-slot-of-%s", accName(uAddr[i]))
		}
	}
	for _, bk := range bindKeys {
		if fmt.Sprintf("%x", bk) == k {
			return "bind:" + string(bk)
		}
	}
	return k
}

func diffStates(o, t map[common.Address]*leaf) []leafDiff {
	var out []leafDiff
	seen := map[common.Address]bool{}
	var addrs []common.Address
	for a := range o {
		seen[a] = true
		addrs = append(addrs, a)
	}
	for a := range t {
		if !seen[a] {
			addrs = append(addrs, a)
		}
	}
	sort.Slice(addrs, func(i, j int) bool { return string(addrs[i][:]) < string(addrs[j][:]) })
	for _, a := range addrs {
		lo, lt := o[a], t[a]
		d := leafDiff{Addr: a, Name: accName(a), Orig: lo, Twin: lt}
		switch {
		case lo != nil && lt == nil:
			d.Kind = "only-in-original"
		case lo == nil && lt != nil:
			d.Kind = "only-in-twin"
		default:
			var parts []string
			if lo.Nonce != lt.Nonce {
				parts = append(parts, "nonce")
			}
			if lo.Code != lt.Code {
				parts = append(parts, "code")
			}
			if lo.Root != lt.Root {
				parts = append(parts, "storage")
				keys := map[string]bool{}
				for k := range lo.Slots {
					keys[k] = true
				}
				for k := range lt.Slots {
					keys[k] = true
				}
				ks := make([]string, 0, len(keys))
				for k := range keys {
					ks = append(ks, k)
				}
				sort.Strings(ks)
				for _, k := range ks {
					if lo.Slots[k] != lt.Slots[k] {
						d.Slots = append(d.Slots, slotDiff{slotName(k), lo.Slots[k], lt.Slots[k]})
					}
				}
			}
			if len(parts) == 0 {
				continue
			}
			d.Fields = strings.Join(parts, "+")
			d.Kind = "leaf-differs"
		}
		out = append(out, d)
	}
	return out
}

// ---------------------------------------------------------------------------
// twin oracle

type twinResult struct {
	irO, irT, crO, crT common.Hash
	diffs              []leafDiff
	dumpErr            string
	twinPanic          string
	commitErr          string   // Commit of the original fails, Commit of the twin succeeds
	bothCommitErr      string   // both fail: not attributable to the reverted region
	view               []string // Exist after the root computation / accessors of the reopened root: original vs twin
	codeMissing        []string // accounts whose committed code hash has no (matching) blob in the original but has in the twin
}

func (t *twinResult) mismatch() bool {
	if t.bothCommitErr != "" {
		return false
	}
	return t.twinPanic != "" || t.commitErr != "" || t.irO != t.irT || t.crO != t.crT
}

func finish(rn *runner, fm finalMode) (ir, cr common.Hash) {
	ir, cr, err := finishErr(rn, fm)
	if err != nil {
		panic(fmt.Sprintf("harness: final commit: %v", err))
	}
	return
}

func finishErr(rn *runner, fm finalMode) (ir, cr common.Hash, err error) {
	if fm.IR {
		ir = rn.adb.IntermediateRoot(fm.D)
	}
	cr, err = rn.adb.Commit(fm.D)
	return
}

// codeOf reopens the committed root on the execution's own database and returns, per
// observed account with a non-empty code hash, whether the blob is there and hashes to it.
func codeOf(rn *runner, root common.Hash) (missing []string, codes map[string]string, err error) {
	adb, err := account.NewAccountDB(root, rn.db)
	if err != nil {
		return nil, nil, err
	}
	codes = map[string]string{}
	for i, a := range obsAddr {
		if !adb.Exist(a) {
			continue
		}
		h := adb.GetCodeHash(a)
		if h == (common.Hash{}) || h == common.Hash(emptyCodeHash) {
			continue
		}
		code := adb.GetCode(a)
		codes[obsName[i]] = hx(code)
		if len(code) == 0 || crypto.Keccak256Hash(code) != h || adb.GetCodeSize(a) != len(code) {
			missing = append(missing, obsName[i])
		}
	}
	return
}

// existAfterRoot: Exist() of every observed account on the live AccountDB right after the
// root computation (Finalise marks deleted objects).
func existAfterRoot(rn *runner) map[string]string {
	out := map[string]string{}
	for i, a := range obsAddr {
		a := a
		v := "<panic>"
		func() {
			defer func() { recover() }()
			v = fmt.Sprint(rn.adb.Exist(a))
		}()
		out["Exist("+obsName[i]+") after the root computation"] = v
	}
	return out
}

// reopenedView: existence, nonce and every observed storage slot, read through the accessors
// of a fresh AccountDB opened on the committed root (the execution's own database).
func reopenedView(rn *runner, root common.Hash) map[string]string {
	out := map[string]string{}
	adb, err := account.NewAccountDB(root, rn.db)
	if err != nil {
		out["reopen"] = err.Error()
		return out
	}
	for i, a := range obsAddr {
		ex := adb.Exist(a)
		out["Exist("+obsName[i]+") after reopening the committed root"] = fmt.Sprint(ex)
		if !ex {
			continue
		}
		out["GetNonce("+obsName[i]+") after reopening"] = fmt.Sprint(adb.GetNonce(a))
		names, keys := observedKeys(i)
		for j, k := range keys {
			if v := adb.GetData(a, k); len(v) > 0 {
				out["GetData("+obsName[i]+","+names[j]+") after reopening"] = hx(v)
			}
		}
	}
	return out
}

func viewDiff(o, t map[string]string) []string {
	var out []string
	for k, v := range t {
		if o[k] != v {
			out = append(out, fmt.Sprintf("%s: original %q, twin %q", k, o[k], v))
		}
	}
	for k, v := range o {
		if _, ok := t[k]; !ok {
			out = append(out, fmt.Sprintf("%s: original %q, twin %q", k, v, ""))
		}
	}
	sort.Strings(out)
	return out
}

// regionBounds returns the indices of Snapshot(label) and of the Revert(label) that
// reverts to it.
func regionBounds(h []Op, label int) (s, e int, ok bool) {
	s, e = -1, -1
	for i, o := range h {
		if o.K == "Snapshot" && o.ID == label {
			s = i
		}
		if o.K == "Revert" && o.ID == label && s >= 0 {
			e = i
			break
		}
	}
	return s, e, s >= 0 && e > s
}

// twinOf is the history "had the reverted operations never been executed":
// label != 0: without the region reverted by Revert(label) (the property applied to
// that one revert; every other operation, reverted or not, is in both executions);
// label == 0: without every reverted region.
func twinOf(h []Op, label int) ([]Op, bool) {
	rev, ok := marks(h)
	if !ok {
		return nil, false
	}
	if label == 0 {
		return survivors(h, rev), true
	}
	s, e, ok := regionBounds(h, label)
	if !ok || !rev[s] {
		return nil, false
	}
	t := append([]Op(nil), h[:s]...)
	return append(t, h[e+1:]...), true
}

func twinCheck(d account.AccountDatabase, h, th []Op, fm finalMode) *twinResult {
	o := newRunner(d)
	o.run(h)
	res := &twinResult{}
	var errO error
	res.irO, res.crO, errO = finishErr(o, fm)
	t := newRunner(d) // own database: nothing the original committed is visible to the twin and vice versa
	var errT error
	func() { // the twin may run into one of the unrelated panics only because the states already diverged
		defer func() {
			if e := recover(); e != nil {
				res.twinPanic = fmt.Sprint(e)
			}
		}()
		t.run(th)
		res.irT, res.crT, errT = finishErr(t, fm)
	}()
	if res.twinPanic != "" {
		return res
	}
	// clause "Commit succeeds": judged against the twin, which never executed the region
	if errO != nil || errT != nil {
		if errO != nil && errT == nil {
			res.commitErr = errO.Error()
		} else {
			res.bothCommitErr = fmt.Sprint(errO, " / ", errT)
		}
		return res
	}
	if res.crO != res.crT {
		so, e1 := dumpState(o.db, res.crO)
		st, e2 := dumpState(t.db, res.crT)
		if e1 != nil || e2 != nil {
			res.dumpErr = fmt.Sprint(e1, e2)
		} else {
			res.diffs = diffStates(so, st)
		}
	}
	// clause "existence / storage reads after the root computation and after reopening":
	// always recorded for the witness; a finding of its own only when the roots agree (when
	// they differ the leaf diff above already names the account, under the twin-root classes)
	res.view = viewDiff(existAfterRoot(o), existAfterRoot(t))
	res.view = append(res.view, viewDiff(reopenedView(o, res.crO), reopenedView(t, res.crT))...)
	// clause "the state reopened from the committed root has the code": every code hash in
	// the original's committed state must come with its blob, as it does in the twin's
	missO, codesO, e1 := codeOf(o, res.crO)
	missT, codesT, e2 := codeOf(t, res.crT)
	if e1 == nil && e2 == nil {
		inT := map[string]bool{}
		for _, n := range missT {
			inT[n] = true
		}
		for _, n := range missO {
			if !inT[n] {
				res.codeMissing = append(res.codeMissing, n)
			}
		}
		if len(res.codeMissing) == 0 && res.crO == res.crT {
			for n, c := range codesT {
				if codesO[n] != c {
					res.codeMissing = append(res.codeMissing, n)
				}
			}
		}
	}
	return res
}

// ---------------------------------------------------------------------------
// accessor oracle

type accMismatch struct {
	Item     obsItem
	Was, Now string
}

func snapshotIndex(h []Op) int { // h ends with a Revert; index of the Snapshot it reverts to
	last := h[len(h)-1]
	for i := len(h) - 2; i >= 0; i-- {
		if h[i].K == "Snapshot" && h[i].ID == last.ID {
			return i
		}
	}
	return -1
}

func accessorCheck(d account.AccountDatabase, h []Op) (mm []accMismatch, compared int) {
	s := snapshotIndex(h)
	if s < 0 {
		return nil, 0
	}
	S := newRunner(d)
	S.run(h[:s]) // the state Snapshot() was called on
	O := newRunner(d)
	O.run(h)
	was := observe(S, true) // deep copy of every answer at snapshot time
	now := observe(O, true)
	if len(was) != len(now) {
		panic("harness: observation shape differs")
	}
	for i := range was {
		if was[i].Val != now[i].Val {
			mm = append(mm, accMismatch{was[i], was[i].Val, now[i].Val})
		}
	}
	return mm, len(was)
}

// staleAccepted: revision ids handed out inside the region just reverted must be
// dead (RevertToSnapshot rejects them by panicking — that is its contract here and
// upstream). Returns how many were probed and whether one was accepted.
func staleAccepted(d account.AccountDatabase, h []Op) (probed int, accepted bool) {
	O := newRunner(d)
	O.run(h)
	ids := append([]int(nil), O.stale...)
	for _, id := range ids {
		probed++
		func() {
			defer func() {
				if recover() == nil {
					accepted = true
				}
			}()
			O.adb.RevertToSnapshot(id)
		}()
		if accepted {
			return
		}
	}
	return
}

// ---------------------------------------------------------------------------
// minimisation (delta debugging on the op list; candidates that are not well
// formed are rejected by the predicate)

func minimize(h []Op, pred func([]Op) bool, budget int) []Op {
	evals := 0
	try := func(c []Op) bool {
		if evals >= budget {
			return false
		}
		evals++
		return pred(c)
	}
	without := func(h []Op, from, to int) []Op {
		c := make([]Op, 0, len(h)-(to-from))
		c = append(c, h[:from]...)
		return append(c, h[to:]...)
	}
	n := 2
	for len(h) >= 2 && evals < budget {
		chunk := (len(h) + n - 1) / n
		reduced := false
		for start := 0; start < len(h); start += chunk {
			end := start + chunk
			if end > len(h) {
				end = len(h)
			}
			if c := without(h, start, end); try(c) {
				h = c
				if n > 2 {
					n--
				}
				reduced = true
				break
			}
		}
		if !reduced {
			if n >= len(h) {
				break
			}
			n *= 2
			if n > len(h) {
				n = len(h)
			}
		}
	}
	for changed := true; changed && evals < budget; {
		changed = false
		// snapshot/revert pairs
		for i := 0; i < len(h); i++ {
			if h[i].K != "Snapshot" {
				continue
			}
			for j := i + 1; j < len(h); j++ {
				if h[j].K == "Revert" && h[j].ID == h[i].ID {
					c := without(without(h, j, j+1), i, i+1)
					if try(c) {
						h = c
						changed = true
					}
					break
				}
			}
		}
		for i := len(h) - 1; i >= 0; i-- {
			if c := without(h, i, i+1); try(c) {
				h = c
				changed = true
			}
		}
		// canonical form: a surviving mutator that is only needed because it creates
		// the account is replaced by CreateAccount
		rev, ok := marks(h)
		if !ok {
			break
		}
		for i := range h {
			f := family[h[i].K]
			if h[i].K == "CreateAccount" || h[i].K == "ReadAll" || !(f == "nonce-write" || f == "code-write" || f == "storage-write" || f == "balance-write" || f == "touch" || f == "balance-read") {
				continue
			}
			if rev[i] && !(f == "nonce-write" || f == "code-write") {
				continue // inside a reverted region only the plain field writes are candidates
			}
			for _, a := range []int{h[i].A, idxHolder} {
				c := append([]Op(nil), h...)
				c[i] = Op{K: "CreateAccount", A: a}
				if try(c) {
					h = c
					changed = true
					break
				}
			}
		}
	}
	return h
}

// ---------------------------------------------------------------------------
// classification of a (minimal) witness: which kind of account, which kinds of
// reverted operations, which kinds of operations before / after

func lookupLeaf(d account.AccountDatabase, root common.Hash, a common.Address) *leaf {
	m, err := dumpState(d, root)
	if err != nil {
		return nil
	}
	return m[a]
}

func classify(d account.AccountDatabase, h []Op, x common.Address, global bool, accessorClass bool, label int) (sig string, detail string, trigger string) {
	rev, ok := marks(h)
	if !ok {
		return "malformed", "", ""
	}
	first, last := -1, len(h)
	if label != 0 {
		if s, e, ok := regionBounds(h, label); ok {
			first, last = s, e
		}
	} else {
		for i := range h {
			if rev[i] {
				first = i
				break
			}
		}
	}
	if first < 0 {
		return "no-reverted-operation", "", ""
	}
	P := newRunner(d)
	P.run(h[:first])
	subject := "global"
	lastReopen := -1
	if !global {
		for i := 0; i < first; i++ {
			if h[i].K == "Reopen" {
				lastReopen = i
			}
		}
		var lf *leaf
		if P.reopened {
			lf = lookupLeaf(P.db, P.lastReopen, x)
		}
		// "empty-looking" is what the real Empty() answers at the point just before the
		// first reverted operation (it depends on the storage cache in this code base)
		exists, empty := P.adb.Exist(x), P.adb.Empty(x)
		switch {
		case !exists && lf != nil:
			subject = "deleted-account"
		case !exists:
			subject = "absent-account"
		case lf != nil && empty:
			subject = "loaded-empty-looking-account"
		case lf != nil:
			subject = "loaded-nonempty-account"
		case empty:
			subject = "created-empty-account"
		default:
			subject = "created-nonempty-account"
		}
		if lf == nil {
			lastReopen = -1
		}
	}
	pre, rv, post := map[string]bool{}, map[string]bool{}, map[string]bool{}
	for i, o := range h {
		f := family[o.K]
		if f == "" {
			continue
		}
		switch {
		case rev[i] && i >= first && i <= last:
			rv[f] = true
		case i < first:
			if i > lastReopen && isRead(o.K) {
				pre[f] = true
			}
		default:
			post[f] = true
		}
	}
	// The signature names the class of the leak: what kind of account, which kinds of
	// operations were reverted, and whether the difference needs a later surviving
	// write (or read) to show. Families of surviving operations before the region
	// only go into the explanation (they are already reflected in the account kind).
	s := ""
	if !accessorClass {
		s = subject + "-"
	}
	if len(pre) > 0 { // surviving reads before the region that the leak needs (reads cache / overwrite the cache here)
		s += "after-" + groupList(pre) + "-"
	}
	s += "reverted-" + groupList(rv)
	if len(post) > 0 {
		w, fin := false, post["finalise"] || post["commit"]
		for f := range post {
			if !(f == "read" || f == "balance-read" || f == "committed-read" || f == "prepare" || f == "finalise" || f == "commit" || f == "reopen") {
				w = true
			}
		}
		switch {
		case w && fin:
			s += "-then-finalise+write" // the same AccountDB is used on after Finalise/Commit
		case w:
			s += "-then-write"
		case fin:
			s += "-then-finalise"
		default:
			s += "-then-read"
		}
	}
	trigger = "reverted-write" // some mutator was reverted
	if g := groupList(rv); g == "read" || g == "committed-read" || g == "read+committed-read" {
		trigger = "reverted-" + g // only reads were "reverted"
		if !accessorClass {
			trigger = "reverted-read"
		}
	} else if g == "scratch" {
		trigger = "reverted-scratch"
	}
	return s, subject, trigger
}

func describe(h []Op) []string {
	rev, _ := marks(h)
	out := make([]string, len(h))
	for i, o := range h {
		s := o.K
		switch family[o.K] {
		case "":
			s = fmt.Sprintf("%s #%d", o.K, o.ID)
		case "finalise", "commit", "reopen":
			s = fmt.Sprintf("%s(deleteEmpty=%v)", o.K, o.D)
		case "refund":
			s = fmt.Sprintf("%s(%d)", o.K, gases[o.V%len(gases)])
		case "prepare":
			s = fmt.Sprintf("Prepare(tx%d)", o.V%3)
		case "bind":
		default:
			s = fmt.Sprintf("%s(%s", o.K, accName(uAddr[o.A%nUniverse]))
			switch o.K {
			case "SetData", "RemoveData", "GetData":
				s += fmt.Sprintf(",k%d", o.S%len(dataKeys))
			case "SetState", "GetState", "GetCommittedState":
				s += fmt.Sprintf(",k%d", 3+o.S%3)
			case "AddFT", "SubFT", "SetFT", "GetFT", "TouchFT", "SubFT0":
				s += "," + ftNames[o.S%2]
			case "Transfer":
				s += "," + accName(uAddr[o.B%nUniverse])
			case "AddSlotToAccessList", "SlotInAccessList":
				s += fmt.Sprintf(",slot%d", o.S%3)
			case "SetTransientState", "GetTransientState":
				s += fmt.Sprintf(",t%d", o.S%3)
			}
			switch o.K {
			case "SetData", "SetState":
				s += fmt.Sprintf(",0x%x", val(o.V))
			case "SetNonce":
				s += fmt.Sprintf(",%d", nonces[o.V%len(nonces)])
			case "SetCode":
				s += fmt.Sprintf(",code%d", o.V)
			case "AddBalance", "SubBalance", "SetBalance", "Transfer", "SubFT", "SetFT", "CanTransfer":
				s += "," + amts[o.V%len(amts)].String()
			case "AddFT":
				s += "," + amts[1+o.V%(len(amts)-1)].String()
			case "TouchFT", "AddBalance0", "SubBalance0", "SubFT0":
				s += ",0"
			case "Transfer0":
				s += "," + accName(uAddr[o.B%nUniverse]) + ",0"
			case "SetTransientState":
				s += "," + tVals[o.V%len(tVals)].Hex()
			}
			s += ")"
		}
		if rev != nil && rev[i] {
			s = "    [reverted] " + s
		}
		out[i] = s
	}
	return out
}

// ---------------------------------------------------------------------------
// Class of a root leak = which independent quirk of this code base the leak needs.
// Each probe removes one ingredient from BOTH executions of the minimal witness;
// the leak "needs" the smallest set of ingredients whose removal makes the judged
// difference vanish. A leak that needs none of them (e.g. a mutator that forgot its
// journal entry) is reported with its full feature description instead.

type ingredient struct {
	name  string
	apply func(h []Op, fm finalMode) ([]Op, finalMode, bool)
}

var ingredients = []ingredient{
	{"empty-account-deletion", func(h []Op, fm finalMode) ([]Op, finalMode, bool) {
		// deleteEmptyObjects=false everywhere: no account is dropped for looking empty
		out, ch := append([]Op(nil), h...), fm.D
		for i := range out {
			if out[i].D {
				out[i].D, ch = false, true
			}
		}
		fm.D = false
		return out, fm, ch
	}},
	{"committed-state-read", func(h []Op, fm finalMode) ([]Op, finalMode, bool) {
		var out []Op
		for _, o := range h {
			if o.K != "GetCommittedState" {
				out = append(out, o)
			}
		}
		return out, fm, len(out) != len(h)
	}},
	{"zero-amount-touch", func(h []Op, fm finalMode) ([]Op, finalMode, bool) {
		var out []Op
		for _, o := range h {
			if o.K != "TouchFT" {
				out = append(out, o)
			}
		}
		return out, fm, len(out) != len(h)
	}},
	{"accountdb-reuse-after-finalise", func(h []Op, fm finalMode) ([]Op, finalMode, bool) {
		// every Finalise/Commit in mid-history also re-opens a fresh AccountDB on the committed root
		out, ch := append([]Op(nil), h...), false
		for i := range out {
			if out[i].K == "Finalise" || out[i].K == "Commit" {
				out[i].K, ch = "Reopen", true
			}
		}
		return out, fm, ch
	}},
}

// needs returns the smallest set of ingredients (first in subset order) whose removal
// makes differs() false; ok=false if no subset does.
func needs(h []Op, fm finalMode, differs func([]Op, finalMode) bool) (string, bool) {
	n := len(ingredients)
	best, bestBits := "", n+1
	for mask := 1; mask < 1<<uint(n); mask++ {
		bits := 0
		for i := 0; i < n; i++ {
			if mask&(1<<uint(i)) != 0 {
				bits++
			}
		}
		if bits >= bestBits {
			continue
		}
		hh, ff, all, name := h, fm, true, ""
		for i := 0; i < n; i++ {
			if mask&(1<<uint(i)) == 0 {
				continue
			}
			var ch bool
			hh, ff, ch = ingredients[i].apply(hh, ff)
			if !ch {
				all = false
				break
			}
			if name != "" {
				name += "+"
			}
			name += ingredients[i].name
		}
		if !all {
			continue
		}
		if !differs(hh, ff) {
			best, bestBits = name, bits
		}
	}
	return best, best != ""
}
