package main

// Closed universe, operation encoding and the executor that drives the REAL
// account.AccountDB. Nothing in this file judges anything.

import (
	"encoding/binary"
	"errors"
	"fmt"
	"math/big"
	"sort"

	"com.tuntun.rangers/node/src/common"
	"com.tuntun.rangers/node/src/middleware/db"
	"com.tuntun.rangers/node/src/middleware/types"
	"com.tuntun.rangers/node/src/storage/account"
	"golang.org/x/crypto/sha3"
)

// Op is one step of a history. Every field is an index into the closed
// universe below, so a history is replayable from its JSON alone.
type Op struct {
	K  string `json:"k"`
	A  int    `json:"a,omitempty"`  // address index (0..7 plain, 8 = balance holder contract)
	B  int    `json:"b,omitempty"`  // second address (Transfer)
	S  int    `json:"s,omitempty"`  // key / slot index
	V  int    `json:"v,omitempty"`  // value / amount / nonce / gas / code / tx index
	D  bool   `json:"d,omitempty"`  // deleteEmptyObjects for Finalise / Commit / Reopen
	ID int    `json:"id,omitempty"` // snapshot label (Snapshot, Revert)
}

func (o Op) String() string {
	switch o.K {
	case "Snapshot", "Revert":
		return fmt.Sprintf("%s#%d", o.K, o.ID)
	case "Finalise", "Commit", "Reopen":
		return fmt.Sprintf("%s(%v)", o.K, o.D)
	}
	return fmt.Sprintf("%s(a%d,b%d,s%d,v%d)", o.K, o.A, o.B, o.S, o.V)
}

const (
	nPlain    = 8 // plain universe addresses A0..A7
	idxHolder = 8 // the account whose storage holds native balances
	nUniverse = 9
)

var (
	boundMode bool // process-global, mirrors account.rpgContractAddress (set once per process)

	uAddr         [nUniverse]common.Address
	tokenContract = common.HexToAddress("0x7000000000000000000000000000000000000c04")
	tokBContract  = common.HexToAddress("0x7100000000000000000000000000000000000c04")
	bindRPG       = common.GenerateERC20Binding(common.BLANCE_NAME)
	bindTokB      = common.GenerateERC20Binding("tokB")

	// observed addresses (closed): universe + binding accounts + tokB contract + zero address
	obsAddr  []common.Address
	obsName  []string
	nameOf   = map[common.Address]string{}
	dataKeys [][]byte // 0..2 short byte keys, 3..5 32-byte (SetState) keys
	ftNames  = []string{"tokA", "tokB"}
	ftKeys   [][]byte
	bindKeys = [][]byte{[]byte("c"), []byte("p"), []byte("d")}
	slotRPG  [nUniverse][]byte // balance slot of universe address i in the holder (position 3)
	slotTokB [nUniverse][]byte // slot of universe address i in tokBContract (position 1)

	values = [][]byte{nil, {0x01}, {0xaa, 0xbb}, nil /*32 bytes, filled in init*/, {0x00}}
	// SetCode(addr, empty) is kept out: it stores keccak(empty) as code hash, which differs from the
	// package's emptyCodeHash (sha3-256), and the next Commit after a reload fails with "not found".
	codes  = [][]byte{{0x60, 0x00}, {0x60, 0x01, 0x60, 0x02, 0x01, 0x00}, {0xfe}}
	nonces = []uint64{0, 1, 2, 9}
	gases  = []uint64{0, 1, 100, 4800}
	amts   = []*big.Int{big.NewInt(0), big.NewInt(1), big.NewInt(7), big.NewInt(1000),
		new(big.Int).Exp(big.NewInt(10), big.NewInt(18), nil),
		new(big.Int).Mul(big.NewInt(3), new(big.Int).Exp(big.NewInt(10), big.NewInt(18), nil)),
		new(big.Int).Exp(big.NewInt(10), big.NewInt(13), nil)}
	txHashes  [3]common.Hash
	blockHash = common.HexToHash("0xb10cb10cb10cb10cb10cb10cb10cb10cb10cb10cb10cb10cb10cb10cb10cb10c")
	alSlots   [3]common.Hash
	tKeys     [3]common.Hash
	tVals     = []common.Hash{{}, common.HexToHash("0x01"), common.HexToHash("0xfeed")}
)

// setupUniverse must run after the services are booted and the mode is known.
func setupUniverse(bound bool) {
	boundMode = bound
	for i := 0; i < nPlain; i++ {
		var a common.Address
		a[0] = 0xa0 + byte(i)
		a[10] = 0xc4
		a[19] = 0x10 + byte(i) // never 0x..03 (the journal's ripemd exception)
		uAddr[i] = a
	}
	if bound {
		uAddr[idxHolder] = tokenContract
	} else {
		uAddr[idxHolder] = common.Address{} // unbound: the zero address holds the balances
	}
	obsAddr, obsName = nil, nil
	addObs := func(a common.Address, n string) {
		if _, dup := nameOf[a]; dup {
			return
		}
		nameOf[a] = n
		obsAddr = append(obsAddr, a)
		obsName = append(obsName, n)
	}
	for i := 0; i < nPlain; i++ {
		addObs(uAddr[i], fmt.Sprintf("A%d", i))
	}
	addObs(uAddr[idxHolder], "HOLDER")
	addObs(bindRPG, "BIND_RPG")
	addObs(bindTokB, "BIND_TOKB")
	addObs(tokBContract, "TOKB_CONTRACT")
	addObs(common.Address{}, "ZERO")
	addObs(tokenContract, "TOKEN_CONTRACT")

	dataKeys = [][]byte{{0x6b}, []byte("k1"), []byte("key-two"),
		common.HexToHash("0x01").Bytes(), common.HexToHash("0x02").Bytes(),
		common.HexToHash("0xc04c04c04c04c04c04c04c04c04c04c04c04c04c04c04c04c04c04c04c04c04c0").Bytes()}
	v32 := make([]byte, 32)
	for i := range v32 {
		v32[i] = 0x11
	}
	values[3] = v32
	ftKeys = nil
	for _, n := range ftNames {
		ftKeys = append(ftKeys, []byte(common.GenerateFTKey(n)))
	}
	for i := 0; i < nUniverse; i++ {
		slotRPG[i] = erc20Slot(uAddr[i], 3)
		slotTokB[i] = erc20Slot(uAddr[i], 1)
	}
	for i := range txHashes {
		txHashes[i] = common.BytesToHash([]byte{0x7a, byte(i + 1)})
		alSlots[i] = common.BytesToHash([]byte{0x51, byte(i)})
		tKeys[i] = common.BytesToHash([]byte{0x7e, byte(i)})
	}
}

// erc20Slot is the harness' own derivation of the Solidity mapping slot keccak256(pad32(addr) ++ pad32(position))
// that AccountDB.GetERC20Key computes. It is derived here (fresh array per call, no go-rangers code) so that the
// universe does not depend on how the code under test manages its key buffers; sanity() checks that the two agree.
func erc20Slot(a common.Address, position uint64) []byte {
	var data [64]byte
	copy(data[12:], a.Bytes())
	binary.BigEndian.PutUint64(data[56:], position)
	h := sha3.NewLegacyKeccak256()
	h.Write(data[:])
	return h.Sum(nil)
}

// ---------------------------------------------------------------------------
// op kinds and families

var family = map[string]string{
	"SetData": "storage-write", "RemoveData": "storage-write", "SetState": "storage-write",
	"SetFT": "storage-write", "AddFT": "storage-write", "SubFT": "storage-write",
	"TouchFT": "touch", // AddFT with amount 0 on a non-balance token: reaches accountObject.touch() on an empty-looking account
	// the other zero-amount entry points (they go through the ERC20 path / return early, but are the same "touch only" shape)
	"AddBalance0": "touch", "SubBalance0": "touch", "Transfer0": "touch", "SubFT0": "touch",
	"SetNonce": "nonce-write", "IncreaseNonce": "nonce-write",
	"SetCode":    "code-write",
	"AddBalance": "balance-write", "SubBalance": "balance-write", "SetBalance": "balance-write", "Transfer": "balance-write",
	"CreateAccount": "create", "Suicide": "suicide",
	"AddRefund": "refund", "SubRefund": "refund", "AddLog": "log",
	"AddAddressToAccessList": "access-list", "AddSlotToAccessList": "access-list",
	"SetTransientState": "transient",
	"Bind":              "bind", "BindTokB": "bind",
	// reads
	"Exist": "read", "Empty": "read", "GetNonce": "read", "GetData": "read", "GetState": "read",
	"GetCommittedState": "committed-read", "GetCode": "read", "GetCodeSize": "read", "GetCodeHash": "read",
	"HasSuicided": "read", "IsContract": "read", "GetRefund": "read", "GetLogs": "read",
	"AddressInAccessList": "read", "SlotInAccessList": "read", "GetTransientState": "read", "ReadAll": "read",
	"GetBalance": "balance-read", "CanTransfer": "balance-read", "GetFT": "balance-read",
	// control
	"Snapshot": "", "Revert": "",
	"Prepare": "prepare", "Finalise": "finalise", "Commit": "commit", "Reopen": "reopen",
}

var familyOrder = []string{"create", "nonce-write", "code-write", "storage-write", "balance-write", "touch", "suicide",
	"bind", "refund", "log", "access-list", "transient", "read", "committed-read", "balance-read", "prepare", "finalise", "commit", "reopen"}

func isControl(k string) bool {
	switch k {
	case "Snapshot", "Revert", "Prepare", "Finalise", "Commit", "Reopen":
		return true
	}
	return false
}

func isRead(k string) bool {
	f := family[k]
	return f == "read" || f == "balance-read" || f == "committed-read"
}

func isMutator(k string) bool {
	f := family[k]
	return f != "" && !isRead(k) && !isControl(k)
}

// sigGroup coarsens op families for signatures so that the set of leak classes is
// small and closed under the choice of seed: write (nonce / code / creation / own
// storage / native balance = storage of the balance holder / suicide / bindings),
// touch (zero-amount AddFT on an empty-looking account: the only user of the journal's
// touchChange), read (caching reads, incl. the balance reads that create objects),
// committed-read (GetCommittedState), scratch (refund, logs, access list, transient).
// The exact operations are in the witness and in the "what" text.
var sigGroup = map[string]string{
	"create": "write", "nonce-write": "write", "code-write": "write",
	"storage-write": "write", "balance-write": "write", "bind": "write", "suicide": "write",
	"touch": "touch",
	"read":  "read", "balance-read": "read", "committed-read": "committed-read",
	"refund": "scratch", "log": "scratch", "access-list": "scratch", "transient": "scratch",
	"prepare": "prepare", "finalise": "finalise", "commit": "finalise", "reopen": "reopen",
}

var groupOrder = []string{"write", "touch", "read", "committed-read", "scratch", "prepare", "finalise", "reopen"}

func groupList(set map[string]bool) string {
	g := map[string]bool{}
	for f := range set {
		g[sigGroup[f]] = true
	}
	out := ""
	for _, f := range groupOrder {
		if g[f] {
			if out != "" {
				out += "+"
			}
			out += f
		}
	}
	return out
}

func famList(set map[string]bool) string {
	out := ""
	for _, f := range familyOrder {
		if set[f] {
			if out != "" {
				out += "+"
			}
			out += f
		}
	}
	return out
}

// marks computes which ops lie inside a reverted region (the Snapshot, everything
// up to and including the Revert). ok=false when the history is not well formed:
// a Revert to a label that is not open, or a control op (Prepare/Finalise/Commit/
// Reopen) inside a region that is later reverted (those are not journaled by design).
func marks(h []Op) (rev []bool, ok bool) {
	rev = make([]bool, len(h))
	type open struct{ label, at int }
	var st []open
	for i, o := range h {
		switch o.K {
		case "Snapshot":
			for _, e := range st {
				if e.label == o.ID {
					return nil, false
				}
			}
			st = append(st, open{o.ID, i})
		case "Revert":
			j := -1
			for k := len(st) - 1; k >= 0; k-- {
				if st[k].label == o.ID {
					j = k
					break
				}
			}
			if j < 0 {
				return nil, false
			}
			for k := st[j].at; k <= i; k++ {
				rev[k] = true
			}
			st = st[:j]
		case "Finalise", "Commit", "Reopen":
			st = st[:0] // the journal is cleared: open snapshots are gone
		}
	}
	for i, o := range h {
		if rev[i] && (o.K == "Prepare" || o.K == "Finalise" || o.K == "Commit" || o.K == "Reopen") {
			return nil, false
		}
	}
	return rev, true
}

func survivors(h []Op, rev []bool) []Op {
	out := make([]Op, 0, len(h))
	for i, o := range h {
		if !rev[i] {
			out = append(out, o)
		}
	}
	return out
}

// ---------------------------------------------------------------------------
// executor

type runner struct {
	db         account.AccountDatabase
	adb        *account.AccountDB
	snap       map[int]int // label -> revision id handed out by the real Snapshot()
	stale      []int       // revision ids invalidated by the most recent Revert
	openLabels []int
	reopened   bool
	lastReopen common.Hash
}

// isoDB is the real account.NewDatabase over its own in-memory store, with the two code
// lookups answered straight from that store's node database instead of the adapter's
// process-lifetime code caches. Every execution (original, twin, replica) gets its own
// isoDB: code blobs are content addressed, so a blob committed by another execution on a
// shared database would make "reload the code by hash" succeed where the execution under
// test never stored it.
type isoDB struct{ account.AccountDatabase }

func (d isoDB) ContractCode(addrHash, codeHash common.Hash) ([]byte, error) {
	code, _ := d.TrieDB().Node(codeHash)
	if len(code) > 0 {
		return code, nil
	}
	return nil, errors.New("not found")
}

func (d isoDB) ContractCodeSize(addrHash, codeHash common.Hash) (int, error) {
	code, err := d.ContractCode(addrHash, codeHash)
	return len(code), err
}

func newDB() account.AccountDatabase {
	mem, _ := db.NewMemDatabase()
	return isoDB{account.NewDatabase(mem)}
}

// newRunner: the argument is ignored (kept for call-site symmetry); every runner owns a
// fresh database.
func newRunner(_ account.AccountDatabase) *runner {
	d := newDB()
	adb, err := account.NewAccountDB(common.Hash{}, d)
	if err != nil {
		panic(err)
	}
	return &runner{db: d, adb: adb, snap: map[int]int{}}
}

// codeBlob: V < 3 are three fixed blobs; any other V is a blob unique to that V (the
// generator draws V at random per SetCode, so blobs are fresh per operation and history).
func codeBlob(v int) []byte {
	if v >= 0 && v < len(codes) {
		return codes[v]
	}
	b := []byte{0x7f, 0, 0, 0, 0, 0, 0, 0, 0, 0x50, 0x00}
	for i := 0; i < 8; i++ {
		b[1+i] = byte(uint64(v) >> (8 * uint(i)))
	}
	return b
}

func (rn *runner) run(h []Op) {
	for _, o := range h {
		rn.exec(o)
	}
}

// firstOutOfScopePanic executes h and returns the index of the first operation
// other than RevertToSnapshot that panics (-1 if none). Such panics exist in this
// code base independently of snapshots (every FT / balance entry point dereferences
// the nil object that getOrNewAccountObject returns for an account already deleted
// by Finalise in the same AccountDB); a history is only judged up to that point.
// A panic inside RevertToSnapshot is never out of scope.
func firstOutOfScopePanic(d account.AccountDatabase, h []Op) (idx int, msg string) {
	rn := newRunner(d)
	idx = -1
	for i, o := range h {
		if o.K == "Revert" {
			rn.exec(o)
			continue
		}
		func() {
			defer func() {
				if e := recover(); e != nil {
					idx, msg = i, fmt.Sprint(e)
				}
			}()
			rn.exec(o)
		}()
		if idx >= 0 {
			return
		}
	}
	return
}

func val(i int) []byte { return values[i%len(values)] }

func (rn *runner) exec(o Op) {
	adb := rn.adb
	a := uAddr[o.A%nUniverse]
	switch o.K {
	// ---- control
	case "Snapshot":
		rn.snap[o.ID] = adb.Snapshot()
		rn.openLabels = append(rn.openLabels, o.ID)
	case "Revert":
		id, ok := rn.snap[o.ID]
		if !ok {
			panic(fmt.Sprintf("harness: revert to unknown label %d", o.ID))
		}
		adb.RevertToSnapshot(id)
		rn.stale = rn.stale[:0]
		for k := len(rn.openLabels) - 1; k >= 0; k-- {
			l := rn.openLabels[k]
			rn.openLabels = rn.openLabels[:k]
			if l == o.ID {
				break
			}
			rn.stale = append(rn.stale, rn.snap[l])
		}
	case "Prepare":
		adb.Prepare(txHashes[o.V%3], blockHash, o.V%3)
	case "Finalise":
		adb.IntermediateRoot(o.D)
		rn.openLabels = rn.openLabels[:0]
	case "Commit":
		if _, err := adb.Commit(o.D); err != nil {
			panic(fmt.Sprintf("harness: commit: %v", err))
		}
		rn.openLabels = rn.openLabels[:0]
	case "Reopen":
		root, err := adb.Commit(o.D)
		if err != nil {
			panic(fmt.Sprintf("harness: commit: %v", err))
		}
		n, err := account.NewAccountDB(root, rn.db)
		if err != nil {
			panic(fmt.Sprintf("harness: reopen %x: %v", root, err))
		}
		rn.adb = n
		rn.snap = map[int]int{}
		rn.openLabels = rn.openLabels[:0]
		rn.reopened, rn.lastReopen = true, root
	case "Bind":
		adb.AddERC20Binding(common.BLANCE_NAME, tokenContract, 3, 18)
		adb.SetCode(tokenContract, codes[2])
		adb.SetNonce(tokenContract, 1)
	case "BindTokB":
		adb.AddERC20Binding("tokB", tokBContract, 1, 6)

	// ---- mutators
	case "SetNonce":
		adb.SetNonce(a, nonces[o.V%len(nonces)])
	case "IncreaseNonce":
		adb.IncreaseNonce(a)
	case "SetData":
		adb.SetData(a, dataKeys[o.S%len(dataKeys)], val(o.V))
	case "RemoveData":
		adb.RemoveData(a, dataKeys[o.S%len(dataKeys)])
	case "SetState":
		adb.SetState(a, common.BytesToHash(dataKeys[3+o.S%3]), common.BytesToHash(val(o.V)))
	case "SetCode":
		adb.SetCode(a, codeBlob(o.V))
	case "AddBalance":
		adb.AddBalance(a, amts[o.V%len(amts)])
	case "SubBalance":
		adb.SubBalance(a, amts[o.V%len(amts)])
	case "SetBalance":
		adb.SetBalance(a, amts[o.V%len(amts)])
	case "Transfer":
		adb.Transfer(a, uAddr[o.B%nUniverse], amts[o.V%len(amts)])
	case "CreateAccount":
		adb.CreateAccount(a)
	case "Suicide":
		adb.Suicide(a)
	case "AddRefund":
		adb.AddRefund(gases[o.V%len(gases)])
	case "SubRefund":
		if g := gases[o.V%len(gases)]; g <= adb.GetRefund() { // SubRefund panics by contract below zero
			adb.SubRefund(g)
		}
	case "AddLog":
		adb.AddLog(&types.Log{Address: a, Topics: []common.Hash{tKeys[o.V%3]}, Data: []byte{byte(o.V)}, BlockNumber: 10})
	case "AddAddressToAccessList":
		adb.AddAddressToAccessList(a)
	case "AddSlotToAccessList":
		adb.AddSlotToAccessList(a, alSlots[o.S%3])
	case "SetTransientState":
		adb.SetTransientState(a, tKeys[o.S%3], tVals[o.V%len(tVals)])
	case "AddFT":
		adb.AddFT(a, ftNames[o.S%2], amts[1+o.V%(len(amts)-1)])
	case "TouchFT":
		adb.AddFT(a, ftNames[o.S%2], amts[0])
	case "AddBalance0":
		adb.AddBalance(a, amts[0])
	case "SubBalance0":
		adb.SubBalance(a, amts[0])
	case "Transfer0":
		adb.Transfer(a, uAddr[o.B%nUniverse], amts[0])
	case "SubFT0":
		adb.SubFT(a, ftNames[o.S%2], amts[0])
	case "SubFT":
		adb.SubFT(a, ftNames[o.S%2], amts[o.V%len(amts)])
	case "SetFT":
		adb.SetFT(a, ftNames[o.S%2], amts[o.V%len(amts)])

	// ---- reads (side-effecting in this code base: object creation, storage caching)
	case "Exist":
		adb.Exist(a)
	case "Empty":
		adb.Empty(a)
	case "GetNonce":
		adb.GetNonce(a)
	case "GetData":
		adb.GetData(a, dataKeys[o.S%len(dataKeys)])
	case "GetState":
		adb.GetState(a, common.BytesToHash(dataKeys[3+o.S%3]))
	case "GetCommittedState":
		adb.GetCommittedState(a, common.BytesToHash(dataKeys[3+o.S%3]))
	case "GetCode":
		adb.GetCode(a)
	case "GetCodeSize":
		adb.GetCodeSize(a)
	case "GetCodeHash":
		adb.GetCodeHash(a)
	case "HasSuicided":
		adb.HasSuicided(a)
	case "IsContract":
		adb.IsContract(a)
	case "GetBalance":
		adb.GetBalance(a)
	case "CanTransfer":
		adb.CanTransfer(a, amts[o.V%len(amts)])
	case "GetFT":
		adb.GetFT(a, ftNames[o.S%2])
	case "GetRefund":
		adb.GetRefund()
	case "GetLogs":
		adb.GetLogs(txHashes[o.V%3])
	case "AddressInAccessList":
		adb.AddressInAccessList(a)
	case "SlotInAccessList":
		adb.SlotInAccessList(a, alSlots[o.S%3])
	case "GetTransientState":
		adb.GetTransientState(a, tKeys[o.S%3])
	case "ReadAll":
		observe(rn, false)
	default:
		panic("harness: unknown op kind " + o.K)
	}
}

// ---------------------------------------------------------------------------
// observation: every accessor of the property statement over the closed universe,
// in a fixed order. full=true adds the probes that mutate (only ever used on a
// replica that is thrown away afterwards).

type obsItem struct {
	Acc  string // accessor name
	Addr int    // index into obsAddr, -1 for global accessors
	Arg  string
	Val  string
}

func (it obsItem) label() string {
	if it.Addr < 0 {
		return fmt.Sprintf("%s(%s)", it.Acc, it.Arg)
	}
	if it.Arg == "" {
		return fmt.Sprintf("%s(%s)", it.Acc, obsName[it.Addr])
	}
	return fmt.Sprintf("%s(%s,%s)", it.Acc, obsName[it.Addr], it.Arg)
}

func hx(b []byte) string { // nil and empty are the same answer
	if len(b) == 0 {
		return "-"
	}
	return fmt.Sprintf("%x", b)
}

func observedKeys(ai int) (names []string, keys [][]byte) {
	for i, k := range dataKeys {
		names, keys = append(names, fmt.Sprintf("k%d", i)), append(keys, k)
	}
	for i, k := range ftKeys {
		names, keys = append(names, "ft:"+ftNames[i]), append(keys, k)
	}
	switch obsName[ai] {
	case "HOLDER", "ZERO", "TOKEN_CONTRACT":
		for i := 0; i < nUniverse; i++ {
			names, keys = append(names, fmt.Sprintf("balslot:%d", i)), append(keys, slotRPG[i])
		}
	case "TOKB_CONTRACT":
		for i := 0; i < nUniverse; i++ {
			names, keys = append(names, fmt.Sprintf("tokBslot:%d", i)), append(keys, slotTokB[i])
		}
	case "BIND_RPG", "BIND_TOKB":
		for _, k := range bindKeys {
			names, keys = append(names, "bind:"+string(k)), append(keys, k)
		}
	}
	return
}

func observe(rn *runner, full bool) []obsItem {
	adb := rn.adb
	out := make([]obsItem, 0, 700)
	// every accessor call is guarded: the FT / balance accessors dereference nil for an
	// account deleted by Finalise in the same AccountDB (not a snapshot matter); the
	// answer is then the string "<panic>", the same in every replica of the same state
	add := func(acc string, ai int, arg string, f func() string) {
		v := "<panic>"
		func() {
			defer func() { recover() }()
			v = f()
		}()
		out = append(out, obsItem{acc, ai, arg, v})
	}
	for ai := range obsAddr {
		ai, a := ai, obsAddr[ai]
		add("Exist", ai, "", func() string { return fmt.Sprint(adb.Exist(a)) })
		add("Empty", ai, "", func() string { return fmt.Sprint(adb.Empty(a)) })
		add("GetNonce", ai, "", func() string { return fmt.Sprint(adb.GetNonce(a)) })
		add("GetCodeHash", ai, "", func() string { return adb.GetCodeHash(a).Hex() })
		add("GetCode", ai, "", func() string { return hx(adb.GetCode(a)) })
		add("GetCodeSize", ai, "", func() string { return fmt.Sprint(adb.GetCodeSize(a)) })
		add("HasSuicided", ai, "", func() string { return fmt.Sprint(adb.HasSuicided(a)) })
		names, keys := observedKeys(ai)
		for i := range keys {
			k := keys[i]
			add("GetData", ai, names[i], func() string { return hx(adb.GetData(a, k)) })
			if len(k) == 32 {
				add("GetState", ai, names[i], func() string { return adb.GetState(a, common.BytesToHash(k)).Hex() })
			}
		}
	}
	for i := 0; i < nUniverse; i++ {
		i := i
		add("GetBalance", i, "", func() string { return adb.GetBalance(uAddr[i]).String() })
	}
	if full { // GetFT creates the queried account object when absent; keep it out of the in-line ReadAll
		for i := 0; i < nUniverse; i++ {
			for _, n := range ftNames {
				i, n := i, n
				add("GetFT", i, n, func() string { return adb.GetFT(uAddr[i], n).String() })
			}
		}
	}
	add("GetRefund", -1, "", func() string { return fmt.Sprint(adb.GetRefund()) })
	for i := range txHashes {
		h := txHashes[i]
		add("GetLogs", -1, fmt.Sprintf("tx%d", i), func() string {
			s := ""
			for _, l := range adb.GetLogs(h) {
				s += fmt.Sprintf("[%s %x %x tx=%x ti=%d bh=%x idx=%d]", nameOf[l.Address], l.Topics, l.Data, l.TxHash[:2], l.TxIndex, l.BlockHash[:2], l.Index)
			}
			return s
		})
	}
	for i := 0; i < nUniverse; i++ {
		i := i
		add("AddressInAccessList", i, "", func() string { return fmt.Sprint(adb.AddressInAccessList(uAddr[i])) })
		for j := range alSlots {
			s := alSlots[j]
			add("SlotInAccessList", i, fmt.Sprintf("slot%d", j), func() string {
				ap, sp := adb.SlotInAccessList(uAddr[i], s)
				return fmt.Sprint(ap, sp)
			})
		}
		for j := range tKeys {
			k := tKeys[j]
			add("GetTransientState", i, fmt.Sprintf("t%d", j), func() string { return adb.GetTransientState(uAddr[i], k).Hex() })
		}
	}
	// GetCommittedState last: in this code base it overwrites the cached pending value of the
	// slot, so asking it earlier would blunt every later storage / balance observation
	for ai := range obsAddr {
		ai, a := ai, obsAddr[ai]
		names, keys := observedKeys(ai)
		for i := range keys {
			if k := keys[i]; len(k) == 32 {
				add("GetCommittedState", ai, names[i], func() string { return adb.GetCommittedState(a, common.BytesToHash(k)).Hex() })
			}
		}
	}
	if full {
		for i := 0; i < nUniverse; i++ { // enumerating accessor of the refund manager: cached ∪ committed slots
			i := i
			add("GetAllRefund", i, "", func() string {
				m := adb.GetAllRefund(uAddr[i])
				ks := make([]string, 0, len(m))
				for k, v := range m {
					ks = append(ks, fmt.Sprintf("%x=%s", k[:], v.String()))
				}
				sort.Strings(ks)
				return fmt.Sprint(ks)
			})
		}
		// the log counter is only visible through the index the next log gets
		add("NextLogIndex", -1, "", func() string {
			probe := &types.Log{Address: uAddr[0]}
			adb.AddLog(probe)
			return fmt.Sprint(probe.Index)
		})
	}
	return out
}
