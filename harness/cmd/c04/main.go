// C04 — reverting to a snapshot restores the account state exactly; the root
// afterwards equals the root had the reverted operations never been executed.
//
// Monitor over the REAL account.AccountDB (Proposal002 active). Two oracles
// (oracle.go), applied at every RevertToSnapshot of a generated history:
//  1. accessor oracle — every accessor over a closed universe, answers recorded
//     when Snapshot() was called vs answers after the revert;
//  2. twin oracle — the history vs the same history without the reverted region
//     (and, at the end, without any reverted region): IntermediateRoot / Commit
//     roots must agree; otherwise the two committed tries are diffed leaf by leaf.
//
// States "at a point" are obtained by re-executing the prefix on a fresh AccountDB
// (replicas), so the observation's own read side effects never disturb a judged run,
// and the twin performs exactly the surviving operations (reads included).
//
// Every mismatch is reduced by delta debugging to a minimal history and classified;
// the class is the signature:
//
//	C04:accessor:<Accessor>:reverted-<write|read|committed-read|scratch>
//	C04:twin-root:needs-<ingredient(s)>[:reverted-<write|read>:<only-in-original|only-in-twin|later-divergence>]
//	C04:twin-root:unexplained:<account kind>-reverted-<groups>[-then-…]:<leaf kind>
//	C04:revert:stale-revision-accepted, C04:run:panic:<site>
//
// "needs-X": the root difference disappears when quirk X of the code base is taken
// out of BOTH executions (oracle.go: ingredients); a leak that needs none of them —
// e.g. a mutator that forgot its journal entry — is "unexplained" and carries its
// full feature description.
//
// Process model: the native-balance binding is a process-global cache inside the
// account package, so the "unbound" configuration (balances live in the storage
// of the zero address) and the "bound" one (balances live in the storage of the
// bound token contract) run in two child processes.
package main

import (
	"bytes"
	"encoding/json"
	"fmt"
	"os"
	"runtime"
	"sort"
	"strconv"
	"strings"
	"sync"
	"time"

	"com.tuntun.rangers/node/src/common"
	"com.tuntun.rangers/node/src/storage/account"
	"com.tuntun.rangers/node/src/storage/trie"

	"verifharness/env"
	"verifharness/mon"
)

// ---------------------------------------------------------------------------

type rawFinding struct {
	caseIdx int
	hist    []Op // the (prefix of the) history the finding was made on
	histLen int
	label   int    // snapshot label of the judged region (0: all reverted regions)
	oracle  string // twin | twin-nodiff | accessor | stale
	addr    common.Address
	global  bool
	kind    string // leaf-diff kind, or accessor name
	item    obsItem
	raw     string
	fm      *finalMode // final mode other than the case's (a failing Commit inside the history)
}

type Witness struct {
	Case        Case              `json:"case"`
	Oracle      string            `json:"oracle"`
	Features    string            `json:"class_features,omitempty"`
	Needs       string            `json:"leak_needs,omitempty"`
	Region      int               `json:"region_label"`
	History     []string          `json:"history"`
	Diff        *leafDiff         `json:"leaf_diff,omitempty"`
	AllDiffs    []leafDiff        `json:"all_leaf_diffs,omitempty"`
	Accessor    string            `json:"accessor,omitempty"`
	Was         string            `json:"answer_at_snapshot,omitempty"`
	Now         string            `json:"answer_after_revert,omitempty"`
	Roots       map[string]string `json:"roots,omitempty"`
	CommitError string            `json:"commit_error,omitempty"`
	View        []string          `json:"reads_after_root_and_reopen,omitempty"`
	CodeMissing []string          `json:"code_missing_for,omitempty"`
	FromCase    int               `json:"from_case_index"`
	FromLen     int               `json:"from_history_length"`
}

// focus keeps the control operations and the operations that can touch account x
// (a cheap first reduction step before delta debugging).
func focus(h []Op, x common.Address) []Op {
	xi := -1
	for i := range uAddr {
		if uAddr[i] == x {
			xi = i
		}
	}
	out := make([]Op, 0, len(h))
	for _, o := range h {
		f := family[o.K]
		keep := isControl(o.K) || f == "bind"
		if !keep && xi >= 0 && f != "refund" && f != "log" && f != "access-list" && f != "transient" && o.K != "GetRefund" && o.K != "GetLogs" {
			keep = o.A%nUniverse == xi || (o.K == "Transfer" && o.B%nUniverse == xi)
			if xi == idxHolder && (f == "balance-write" || f == "balance-read" || f == "suicide") {
				keep = true
			}
		}
		if xi < 0 { // binding accounts / tokB contract: FT operations and binds
			keep = keep || f == "storage-write" || f == "touch" || f == "balance-read"
		}
		if keep {
			out = append(out, o)
		}
	}
	return out
}

// resFindings turns one twin comparison into raw findings (hist / label filled in by the caller).
func resFindings(res *twinResult) []rawFinding {
	var out []rawFinding
	switch {
	case res.twinPanic != "":
		out = append(out, rawFinding{oracle: "twin-panic", kind: "twin-execution-panics", global: true})
	case res.commitErr != "":
		out = append(out, rawFinding{oracle: "commit", kind: "commit-error", global: true})
	case res.mismatch() && len(res.diffs) == 0:
		out = append(out, rawFinding{oracle: "twin-nodiff", kind: "no-leaf-diff", global: true})
	}
	for i := range res.diffs {
		out = append(out, rawFinding{oracle: "twin", kind: res.diffs[i].Kind, addr: res.diffs[i].Addr})
	}
	if len(res.codeMissing) > 0 {
		out = append(out, rawFinding{oracle: "code", kind: "code-hash-without-blob", global: true})
	}
	if len(res.view) > 0 && !res.mismatch() && res.bothCommitErr == "" {
		out = append(out, rawFinding{oracle: "view", kind: "state-after-root-differs", global: true})
	}
	return out
}

func nesting(h []Op) int {
	max, depth := 0, 0
	var st []int
	for _, o := range h {
		switch o.K {
		case "Snapshot":
			st = append(st, o.ID)
		case "Revert":
			for k := len(st) - 1; k >= 0; k-- {
				if st[k] == o.ID {
					st = st[:k]
					break
				}
			}
		case "Finalise", "Commit", "Reopen":
			st = st[:0]
		}
		depth = len(st)
		if depth > max {
			max = depth
		}
	}
	return max
}

func lifecycle(S *runner, a common.Address) string {
	l := "fresh"
	if S.reopened {
		if tr, err := trie.NewTrie(S.lastReopen, S.db.TrieDB()); err == nil {
			if v, _ := tr.TryGet(a[:]); len(v) > 0 {
				l = "loaded"
			}
		}
	}
	adb := S.adb
	switch {
	case adb.HasSuicided(a):
		return l + "-self-destructed"
	case !adb.Exist(a):
		if l == "loaded" {
			return "loaded-then-deleted"
		}
		return "absent"
	case adb.GetCodeSize(a) > 0:
		return l + "-has-code"
	case adb.Empty(a):
		return l + "-empty-looking"
	}
	return l + "-nonempty"
}

// evalCase runs, at every revert of the history: the accessor oracle, the
// stale-revision probe and the twin oracle for that revert alone (immediately after
// the revert, and — if that agrees — at the end of the history, which is where a
// leak that needs later surviving operations shows). Finally the twin without any
// reverted region at the end of the history.
func evalCase(r *mon.Run, d account.AccountDatabase, c Case, ci int, stats bool) []rawFinding {
	h := c.Hist
	var failedCommit *finalMode // a Commit/Reopen operation of the history itself returned an error
	if p, msg := firstOutOfScopePanic(d, h); p >= 0 {
		// judged only up to an operation that panics by itself (see firstOutOfScopePanic)
		if stats {
			r.Count("histories_cut_at_out_of_scope_panic", 1)
			r.Count("out_of_scope_panic_in_"+h[p].K, 1)
			r.Note("out-of-scope panic in %s: %s", h[p].K, msg)
		}
		if (h[p].K == "Commit" || h[p].K == "Reopen") && strings.HasPrefix(msg, "harness: commit") {
			failedCommit = &finalMode{D: h[p].D, IR: false}
		}
		h = h[:p]
	}
	rev, ok := marks(h)
	if !ok {
		panic("harness: generator produced a malformed history")
	}
	if stats {
		r.Count("histories", 1)
		r.Count("ops_total", int64(len(h)))
		kinds := map[string]int64{}
		undone := 0
		for i, o := range h {
			kinds[o.K]++
			if rev[i] && isMutator(o.K) {
				undone++
			}
		}
		for k, n := range kinds {
			r.Count("op_"+k, n)
		}
		r.Count("reverted_mutators", int64(undone))
		r.Max("max_nesting", int64(nesting(h)))
		if undone > 0 {
			b, _ := json.Marshal(h)
			r.Distinct("history", []byte(c.Mode), b)
			r.Count("nontrivial_histories", 1)
		}
	}
	var out []rawFinding
	seen := map[string]bool{}
	emit := func(f rawFinding) {
		k := fmt.Sprint(f.oracle, "|", f.kind, "|", string(f.addr[:]), "|", f.item.Arg, "|", f.label)
		if seen[k] {
			return
		}
		seen[k] = true
		f.caseIdx = ci
		out = append(out, f)
	}
	twinFM := func(p []Op, label int, where string, fm finalMode, custom bool) bool {
		th, ok := twinOf(p, label)
		if !ok {
			panic("harness: no twin for a well-formed history")
		}
		res := twinCheck(d, p, th, fm)
		r.Count("twin_root_comparisons", 1)
		r.Count("twin_root_comparisons_"+where, 1)
		if res.bothCommitErr != "" {
			r.Count("commit_fails_in_original_and_twin", 1)
			r.Note("Commit fails in the original and in the twin: %s", res.bothCommitErr)
			return false
		}
		r.Count("commit_and_reopen_code_checks", 1)
		fs := resFindings(res)
		for _, f := range fs {
			f.hist, f.label = p, label
			if custom {
				m := fm
				f.fm = &m
			}
			emit(f)
		}
		return len(fs) > 0
	}
	twin := func(p []Op, label int, where string) bool { return twinFM(p, label, where, c.Final, false) }
	local := false
	for j := range h {
		if h[j].K != "Revert" {
			continue
		}
		p := h[:j+1]
		label := h[j].ID
		mm, n := accessorCheck(d, p)
		r.Count("accessor_comparisons", int64(n))
		r.Count("reverts_checked", 1)
		for _, m := range mm {
			f := rawFinding{hist: p, label: label, oracle: "accessor", kind: m.Item.Acc, item: m.Item, global: m.Item.Addr < 0}
			if m.Item.Addr >= 0 {
				f.addr = obsAddr[m.Item.Addr]
			}
			emit(f)
		}
		s := snapshotIndex(p)
		if stats { // life-cycle classes of the accounts whose mutations this revert undoes
			S := newRunner(d)
			S.run(p[:s])
			done := map[int]bool{}
			for i := s; i <= j; i++ {
				if isMutator(p[i].K) && family[p[i].K] != "refund" && family[p[i].K] != "bind" && !done[p[i].A] {
					done[p[i].A] = true
					r.Count("lifecycle_"+lifecycle(S, uAddr[p[i].A%nUniverse]), 1)
				}
			}
		}
		nested := false
		for i := s + 1; i < j; i++ {
			if p[i].K == "Snapshot" {
				nested = true
			}
		}
		if nested {
			probed, acc := staleAccepted(d, p)
			r.Count("stale_revision_probes", int64(probed))
			if acc {
				emit(rawFinding{hist: p, label: label, oracle: "stale", kind: "stale-revision-accepted", global: true})
			}
		}
		if twin(p, label, "after_revert") {
			local = true
		} else if j+1 < len(h) && twin(h, label, "end_of_history") {
			local = true
		}
	}
	if !local && len(h) > 0 { // all reverted regions removed at once; only new information if no single region already differs
		twin(h, 0, "all_regions")
	}
	if len(h) > 0 && rev != nil { // end-of-history root also under the other deleteEmptyObjects value
		any := false
		for _, b := range rev {
			any = any || b
		}
		if any {
			other := c.Final
			other.D = !other.D
			twinFM(h, 0, "end_other_delete_empty", other, true)
		}
	}
	if failedCommit != nil { // the failing Commit of the history, against the twin without reverted regions
		twinFM(h, 0, "failed_commit_in_history", *failedCommit, true)
	}
	for i := range out {
		f := &out[i]
		_, cls, _ := classify(d, f.hist, f.addr, f.global, false, f.label) // cls: kind of account before the region
		// families of the reverted operations aimed at the account (coarse, pre-minimisation)
		fams := map[string]bool{}
		if s, e, ok := regionBounds(f.hist, f.label); ok {
			for _, o := range f.hist[s : e+1] {
				if family[o.K] != "" && (f.global || uAddr[o.A%nUniverse] == f.addr) {
					fams[family[o.K]] = true
				}
			}
		}
		f.raw = f.oracle + "|" + f.kind + "|" + cls + "|" + groupList(fams)
		if f.oracle == "commit" || f.oracle == "code" || f.oracle == "view" {
			f.raw = "ingredient-free|" + f.raw
		}
		if f.oracle == "twin" || f.oracle == "twin-nodiff" || f.oracle == "twin-panic" {
			// Triage (one more twin execution): does the difference survive when every known
			// ingredient (see oracle.go) is removed from both executions? Those findings form
			// their own raw classes, so that they are never crowded out of the reduction
			// budget by the frequent ingredient-dependent ones.
			hh, ff := f.hist, c.Final
			for _, ing := range ingredients {
				hh, ff, _ = ing.apply(hh, ff)
			}
			persists := true
			func() {
				defer func() { recover() }()
				th, valid := twinOf(hh, f.label)
				if p, _ := firstOutOfScopePanic(d, hh); !valid || p >= 0 {
					return
				}
				res := twinCheck(d, hh, th, ff)
				persists = res.mismatch()
				if f.oracle == "twin" && res.twinPanic == "" {
					persists = false
					for _, df := range res.diffs {
						if df.Addr == f.addr {
							persists = true
						}
					}
				}
			}()
			r.Count("twin_triage_executions", 1)
			if persists {
				f.raw = "ingredient-free|" + f.raw
				r.Count("twin_findings_persisting_without_known_ingredients", 1)
			}
		}
		f.histLen, f.hist = len(f.hist), nil // phase 2 regenerates the case (memory)
	}
	return out
}

// reduce minimises one raw finding and reports it under its class signature.
func reduce(r *mon.Run, d account.AccountDatabase, c Case, f rawFinding, budget int) {
	reduceDepth(r, d, c, f, budget, 0)
}

func reduceDepth(r *mon.Run, d account.AccountDatabase, c Case, f rawFinding, budget int, depth int) {
	if f.hist == nil {
		f.hist = c.Hist[:f.histLen]
	}
	h := append([]Op(nil), f.hist...)
	fm := c.Final
	if f.fm != nil {
		fm = *f.fm
	}
	safe := func(p func() bool) (ok bool) {
		defer func() {
			if recover() != nil {
				ok = false
			}
		}()
		return p()
	}
	twinPred := func(fm finalMode, want func(*twinResult) bool) func([]Op) bool {
		return func(c []Op) bool {
			return safe(func() bool {
				if len(c) == 0 {
					return false
				}
				th, ok := twinOf(c, f.label)
				if !ok {
					return false
				}
				if p, _ := firstOutOfScopePanic(d, c); p >= 0 {
					return false
				}
				return want(twinCheck(d, c, th, fm))
			})
		}
	}
	endsWithRegion := func(c []Op) bool {
		if _, ok := marks(c); !ok || len(c) == 0 || c[len(c)-1].K != "Revert" || c[len(c)-1].ID != f.label {
			return false
		}
		p, _ := firstOutOfScopePanic(d, c)
		return p < 0
	}
	var pred func(fm finalMode) func([]Op) bool
	switch f.oracle {
	case "twin":
		pred = func(fm finalMode) func([]Op) bool {
			return twinPred(fm, func(res *twinResult) bool {
				for _, df := range res.diffs {
					if df.Addr == f.addr && df.Kind == f.kind {
						return true
					}
				}
				return false
			})
		}
	case "twin-nodiff":
		pred = func(fm finalMode) func([]Op) bool {
			return twinPred(fm, func(res *twinResult) bool {
				return res.twinPanic == "" && res.mismatch() && len(res.diffs) == 0
			})
		}
	case "twin-panic":
		pred = func(fm finalMode) func([]Op) bool {
			return twinPred(fm, func(res *twinResult) bool { return res.twinPanic != "" })
		}
	case "commit":
		pred = func(fm finalMode) func([]Op) bool {
			return twinPred(fm, func(res *twinResult) bool { return res.commitErr != "" })
		}
	case "view":
		pred = func(fm finalMode) func([]Op) bool {
			return twinPred(fm, func(res *twinResult) bool { return len(res.view) > 0 && !res.mismatch() })
		}
	case "code":
		pred = func(fm finalMode) func([]Op) bool {
			return twinPred(fm, func(res *twinResult) bool {
				return res.twinPanic == "" && res.commitErr == "" && res.bothCommitErr == "" && len(res.codeMissing) > 0
			})
		}
	case "accessor":
		pred = func(finalMode) func([]Op) bool {
			return func(c []Op) bool {
				return safe(func() bool {
					if !endsWithRegion(c) {
						return false
					}
					mm, _ := accessorCheck(d, c)
					for _, m := range mm {
						if m.Item.Acc == f.item.Acc && m.Item.Addr == f.item.Addr && m.Item.Arg == f.item.Arg {
							return true
						}
					}
					return false
				})
			}
		}
	case "stale":
		pred = func(finalMode) func([]Op) bool {
			return func(c []Op) bool {
				return safe(func() bool {
					if !endsWithRegion(c) {
						return false
					}
					_, acc := staleAccepted(d, c)
					return acc
				})
			}
		}
	}
	if !pred(fm)(h) {
		r.Count("findings_not_reproduced_in_reduction", 1)
		r.Note("finding %s in case %d did not reproduce on re-execution", f.raw, c.Index)
		return
	}
	canon := finalMode{D: true, IR: true}
	if fm != canon && pred(canon)(h) {
		fm = canon
	}
	if !f.global {
		if fh := focus(h, f.addr); len(fh) < len(h) && pred(fm)(fh) {
			h = fh
			r.Count("reductions_started_from_account_focus", 1)
		}
	}
	m := minimize(h, pred(fm), budget)
	if fm != canon && pred(canon)(m) {
		fm = canon
	}
	// normal form: if the minimal witness of a difference that showed late already
	// differs right after a revert, report that earlier leak instead (the later
	// difference is its consequence)
	if depth < 3 && f.oracle != "accessor" && f.oracle != "stale" {
		for j := range m {
			if m[j].K != "Revert" || (f.label != 0 && m[j].ID != f.label) || (j == len(m)-1 && f.label != 0) {
				continue
			}
			p := m[:j+1]
			th, ok := twinOf(p, m[j].ID)
			if !ok {
				continue
			}
			var res *twinResult
			if !safe(func() bool { res = twinCheck(d, p, th, fm); return true }) {
				continue
			}
			fs := resFindings(res)
			if len(fs) == 0 {
				continue
			}
			f2 := fs[0]
			f2.caseIdx, f2.hist, f2.label, f2.raw = f.caseIdx, append([]Op(nil), p...), m[j].ID, f.raw
			r.Count("findings_normalised_to_earlier_leak", 1)
			c2 := c
			c2.Final = fm
			reduceDepth(r, d, c2, f2, budget, depth+1)
			return
		}
	}
	r.Count("findings_minimised", 1)
	w := Witness{Case: Case{Mode: c.Mode, Hist: m, Final: fm, Index: c.Index}, Oracle: f.oracle, Region: f.label, History: describe(m),
		FromCase: c.Index, FromLen: len(c.Hist)}
	suffix := ""
	if !fm.D {
		suffix += ":keep-empty"
	}
	if !fm.IR {
		suffix += ":commit-only"
	}
	cls, detail, trigger := classify(d, m, f.addr, f.global, f.oracle == "accessor", f.label)
	w.Features = cls
	hist := strings.Join(trim(w.History), "; ")
	switch f.oracle {
	case "twin", "twin-nodiff", "twin-panic":
		th, _ := twinOf(m, f.label)
		res := twinCheck(d, m, th, fm)
		w.Roots = map[string]string{"intermediate_original": res.irO.Hex(), "intermediate_twin": res.irT.Hex(),
			"commit_original": res.crO.Hex(), "commit_twin": res.crT.Hex()}
		w.AllDiffs = res.diffs
		what := "IntermediateRoot differs, but the committed tries have no differing leaf (Commit roots equal)"
		kind := f.kind
		if res.twinPanic != "" {
			what = "the twin execution panics: " + res.twinPanic
		}
		for i := range res.diffs {
			if res.diffs[i].Addr == f.addr && res.diffs[i].Kind == f.kind {
				w.Diff = &res.diffs[i]
				what = fmt.Sprintf("account %s %s %s", w.Diff.Name, w.Diff.Kind, w.Diff.Fields)
				if len(w.Diff.Slots) > 0 {
					what += fmt.Sprintf(" (slot %s: original %q, twin %q)", w.Diff.Slots[0].Key, w.Diff.Slots[0].Orig, w.Diff.Slots[0].Twin)
				}
			}
		}
		without := fmt.Sprintf("without the region reverted by Revert #%d", f.label)
		if f.label == 0 {
			without = "without its reverted regions"
		}
		// class = which quirk(s) of the code base the leak depends on
		differs := func(hh []Op, ff finalMode) bool {
			ok := true // a probe that cannot be evaluated does not explain anything
			safe(func() bool {
				th, valid := twinOf(hh, f.label)
				if !valid {
					return false
				}
				if p, _ := firstOutOfScopePanic(d, hh); p >= 0 {
					return false
				}
				res := twinCheck(d, hh, th, ff)
				if f.oracle == "twin" {
					ok = false
					for _, df := range res.diffs {
						if df.Addr == f.addr {
							ok = true
						}
					}
					if res.twinPanic != "" {
						ok = true
					}
				} else {
					ok = res.mismatch()
				}
				return true
			})
			return ok
		}
		w.View = res.view
		sig := "C04:twin-root:unexplained:" + cls + ":" + kind + suffix
		touchOnly := false
		if s, e, ok := regionBounds(m, f.label); ok && f.label != 0 {
			touchOnly = true
			for _, o := range m[s : e+1] {
				if fam := family[o.K]; fam != "" && fam != "touch" {
					touchOnly = false
				}
			}
		}
		if f.oracle == "twin" && kind == "only-in-twin" && touchOnly {
			// The history without the region keeps the account, the history with the region loses
			// it, and the region only "touched" it (zero-amount operations): a class of its own,
			// never folded into the ingredient classes of the known empty-account deviations.
			sig = "C04:twin-root:touched-empty-account-lost-after-revert" + suffix
			what += fmt.Sprintf("; reads: %v", res.view)
		} else if ing, ok := needs(m, fm, differs); ok {
			// Existence disagreements caused by empty-account deletion are split by what was
			// reverted (reads only / mutators) and by which side keeps the account; the other
			// classes are named by the ingredient alone.
			sig = "C04:twin-root:needs-" + ing
			if ing == "empty-account-deletion" {
				k := kind // which side keeps the account; everything else is a later consequence
				if k != "only-in-original" && k != "only-in-twin" {
					k = "later-divergence"
				}
				sig += ":" + trigger + ":" + k
			}
			w.Needs = ing
		}
		r.Violation(sig,
			fmt.Sprintf("[%s] root after the history %v differs from the root of the same history %s: %s (account kind before the region: %s; features: %s)", c.Mode, hist, without, what, detail, cls+suffix), w)
	case "accessor":
		w.Accessor = f.item.label()
		mm, _ := accessorCheck(d, m)
		for _, x := range mm {
			if x.Item.Acc == f.item.Acc && x.Item.Addr == f.item.Addr && x.Item.Arg == f.item.Arg {
				w.Was, w.Now = x.Was, x.Now
			}
		}
		r.Violation("C04:accessor:"+f.item.Acc+":"+trigger,
			fmt.Sprintf("[%s] %s answered %q when the snapshot was taken and %q after reverting to it; history %v (account kind before the region: %s)", c.Mode, w.Accessor, w.Was, w.Now, hist, detail), w)
	case "view":
		// roots agree, but Exist after the root computation / the reopened state differ from the
		// twin. Classified exactly like a root leak: which side lost the account, touch-only
		// region or not, which ingredient it needs.
		th, _ := twinOf(m, f.label)
		res := twinCheck(d, m, th, fm)
		w.View = res.view
		k := "later-divergence"
		for _, v := range res.view {
			if strings.HasPrefix(v, "Exist(") && strings.HasSuffix(v, `original "false", twin "true"`) {
				k = "only-in-twin"
				break
			}
			if strings.HasPrefix(v, "Exist(") && strings.HasSuffix(v, `original "true", twin "false"`) {
				k = "only-in-original"
			}
		}
		touchOnly := false
		if s, e, ok := regionBounds(m, f.label); ok && f.label != 0 {
			touchOnly = true
			for _, o := range m[s : e+1] {
				if fam := family[o.K]; fam != "" && fam != "touch" {
					touchOnly = false
				}
			}
		}
		differs := func(hh []Op, ff finalMode) bool {
			ok := true
			safe(func() bool {
				th, valid := twinOf(hh, f.label)
				if p, _ := firstOutOfScopePanic(d, hh); !valid || p >= 0 {
					return false
				}
				res := twinCheck(d, hh, th, ff)
				ok = res.mismatch() || len(res.view) > 0
				return true
			})
			return ok
		}
		sig := "C04:exist:unexplained:" + cls + ":" + k + suffix
		if k == "only-in-twin" && touchOnly {
			sig = "C04:exist:touched-empty-account-lost-after-revert" + suffix
		} else if ing, ok := needs(m, fm, differs); ok {
			sig = "C04:twin-root:needs-" + ing
			if ing == "empty-account-deletion" {
				sig += ":" + trigger + ":" + k
			}
			w.Needs = ing
		}
		r.Violation(sig,
			fmt.Sprintf("[%s] roots agree, but after the history %v the state answers differently from the twin without the reverted region: %v (account kind before the region: %s; features: %s)", c.Mode, hist, res.view, detail, cls+suffix), w)
	case "commit", "code":
		th, _ := twinOf(m, f.label)
		res := twinCheck(d, m, th, fm)
		w.Roots = map[string]string{"commit_original": res.crO.Hex(), "commit_twin": res.crT.Hex()}
		without := fmt.Sprintf("without the region reverted by Revert #%d", f.label)
		if f.label == 0 {
			without = "without its reverted regions"
		}
		if f.oracle == "commit" {
			w.CommitError = res.commitErr
			r.Violation("C04:commit:error-after-revert"+suffix,
				fmt.Sprintf("[%s] Commit after the history %v returns %q; the same history %s commits fine", c.Mode, hist, res.commitErr, without), w)
		} else {
			w.CodeMissing = res.codeMissing
			r.Violation("C04:reopen:code-hash-without-blob"+suffix,
				fmt.Sprintf("[%s] after the history %v is committed and the root reopened, %v carry a code hash whose blob is missing or wrong (GetCode/GetCodeSize disagree with GetCodeHash); in the same history %s the code is there", c.Mode, hist, res.codeMissing, without), w)
		}
	case "stale":
		r.Violation("C04:revert:stale-revision-accepted",
			fmt.Sprintf("[%s] a revision id taken inside a region that was reverted is still accepted by RevertToSnapshot; history %v", c.Mode, hist), w)
	}
}

func trim(s []string) []string {
	out := make([]string, len(s))
	for i := range s {
		out[i] = strings.TrimSpace(s[i])
	}
	return out
}

// ---------------------------------------------------------------------------

func bootMode(mode string) {
	env.ScratchDir("verif-c04-")
	env.BootServices(env.Forks{})
	account.Init() // the package logger (IncreaseNonce logs through it); the node's main does the same
	common.LocalChainConfig.Proposal002Block = 0
	common.SetBlockHeight(10)
	if !common.IsProposal002() {
		fmt.Println("MACHINERY: Proposal002 not active")
		os.Exit(2)
	}
	setupUniverse(mode == "bound")
	d := newDB()
	rn := newRunner(d)
	if mode == "bound" { // fill the process-global binding cache once, single-threaded
		rn.exec(Op{K: "Bind"})
	}
	for i := 0; i < nUniverse; i++ { // the harness' own slot derivation must agree with the code under test
		if !bytes.Equal(rn.adb.GetERC20Key(uAddr[i], 3), slotRPG[i]) || !bytes.Equal(rn.adb.GetERC20Key(uAddr[i], 1), slotTokB[i]) {
			fmt.Printf("MACHINERY: erc20Slot disagrees with AccountDB.GetERC20Key for universe address %d\n", i)
			os.Exit(2)
		}
	}
	rn.adb.AddBalance(uAddr[0], amts[1])
	if len(rn.adb.GetData(uAddr[idxHolder], slotRPG[0])) == 0 || rn.adb.GetBalance(uAddr[0]).Cmp(amts[1]) != 0 {
		fmt.Printf("MACHINERY: balance of A0 is not stored at the expected slot of %s in mode %s\n", accName(uAddr[idxHolder]), mode)
		os.Exit(2)
	}
}

func cleanupScratch() {
	d, _ := os.Getwd()
	if strings.Contains(d, "verif-c04-") {
		os.Chdir("/")
		os.RemoveAll(d)
	}
}

// runCases: phase 1 evaluates every case (parallel, one AccountDatabase per worker,
// recycled), phase 2 minimises the first few findings of every raw class in
// case-index order (so the selection does not depend on scheduling).
func runCases(r *mon.Run, n int, get func(i int) Case, workers int, perClass int, budget int) {
	findings := make([][]rawFinding, n)
	var wg sync.WaitGroup
	ch := make(chan int, workers)
	for w := 0; w < workers; w++ {
		wg.Add(1)
		go func() {
			defer wg.Done()
			d, used := newDB(), 0
			for i := range ch {
				if used++; used%200 == 0 {
					d = newDB()
				}
				c := get(i)
				r.Guard("C04:run", c, func() { findings[i] = evalCase(r, d, c, i, true) })
			}
		}()
	}
	for i := 0; i < n; i++ {
		ch <- i
	}
	close(ch)
	wg.Wait()

	if os.Getenv("VERIF_C04_TIMING") != "" {
		fmt.Fprintf(os.Stderr, "phase1 done %v\n", time.Now())
	}
	var all []rawFinding
	for _, fs := range findings {
		all = append(all, fs...)
	}
	r.Count("raw_findings", int64(len(all)))
	sort.SliceStable(all, func(i, j int) bool {
		if all[i].caseIdx != all[j].caseIdx {
			return all[i].caseIdx < all[j].caseIdx
		}
		return all[i].histLen < all[j].histLen
	})
	taken := map[string]int{}
	var todo []rawFinding
	for _, f := range all {
		lim := perClass
		if strings.HasPrefix(f.raw, "ingredient-free|") {
			lim = 4 * perClass
		}
		if taken[f.raw] < lim {
			taken[f.raw]++
			todo = append(todo, f)
		}
	}
	r.Count("raw_finding_classes", int64(len(taken)))
	ch2 := make(chan int, workers)
	for w := 0; w < workers; w++ {
		wg.Add(1)
		go func() {
			defer wg.Done()
			d, used := newDB(), 0
			for i := range ch2 {
				if used++; used%100 == 0 {
					d = newDB()
				}
				f := todo[i]
				c := get(f.caseIdx)
				if p, _ := firstOutOfScopePanic(d, c.Hist); p >= 0 {
					c.Hist = c.Hist[:p] // as judged in phase 1
				}
				r.Guard("C04:reduce", c, func() { reduce(r, d, c, f, budget) })
			}
		}()
	}
	for i := range todo {
		ch2 <- i
	}
	close(ch2)
	wg.Wait()
}

func childMain(args []string) {
	r := mon.Start("C04")
	mode := args[0]
	n, _ := strconv.Atoi(args[1])
	workers, _ := strconv.Atoi(args[2])
	bootMode(mode)
	directed := directedCases(mode)
	r.Count("directed_histories", int64(len(directed)))
	total := len(directed) + n
	get := func(i int) Case {
		if i < len(directed) {
			return directed[i]
		}
		return genCase(r.Rand("hist", mode, i-len(directed)), mode, i-len(directed))
	}
	for _, i := range []int{total - 1, total - 2, 0} {
		if i >= 0 {
			c := get(i)
			r.Sample(map[string]interface{}{"mode": mode, "index": c.Index, "final": c.Final, "history": trim(describe(c.Hist))})
		}
	}
	runCases(r, total, get, workers, r.Pick(2, 8), 800)
	r.Count("mode_"+mode+"_histories", int64(total))
	cleanupScratch()
	r.Finish(mon.Coverage{Evaluations: int64(total)})
}

func main() {
	if args, ok := mon.IsChildInvocation(); ok {
		childMain(args)
		return
	}
	r := mon.Start("C04")
	if p := mon.ReplayArg(); p != "" {
		v, err := mon.LoadReplay(p)
		if err != nil {
			fmt.Println("MACHINERY:", err)
			os.Exit(2)
		}
		var w struct {
			Case Case `json:"case"`
		}
		if err := json.Unmarshal(v.Witness, &w); err != nil || len(w.Case.Hist) == 0 {
			fmt.Println("MACHINERY: replay file has no case:", err)
			os.Exit(2)
		}
		bootMode(w.Case.Mode)
		fmt.Printf("replaying %s history (%s):\n  %s\n", w.Case.Mode, v.Signature, strings.Join(describe(w.Case.Hist), "\n  "))
		runCases(r, 1, func(int) Case { return w.Case }, 1, 1000, 800)
		cleanupScratch()
		r.Finish(mon.Coverage{Evaluations: 2, DistinctNontrivial: 2, Rule: "replay of one recorded history"})
	}

	n := r.Pick(2000, 75000) // random histories per mode (plus the directed set)
	cpus := runtime.NumCPU()
	if cpus > 16 {
		cpus = 16
	}
	per := cpus / 2
	if per < 1 {
		per = 1
	}
	var specs []mon.ChildSpec
	for _, mode := range []string{"unbound", "bound"} {
		specs = append(specs, mon.ChildSpec{Label: mode, Args: []string{mode, strconv.Itoa(n), strconv.Itoa(per)},
			Timeout: time.Duration(r.Pick(15, 90)) * time.Minute})
	}
	for _, res := range r.RunChildren(specs, 2) {
		r.Absorb(res, "C04:child")
	}
	mon.CleanWork()
	r.Finish(mon.Coverage{
		Evaluations:        r.Get("histories"),
		DistinctNontrivial: int64(r.DistinctCount("history")),
		Rule: "histories over a closed universe (8 plain addresses + the balance-holding account, 6 storage keys + 2 token keys, 3 tx hashes / access-list slots / transient keys) on the real AccountDB with Proposal002 active: " +
			"directed set (every mutator kind alone and nested in a reverted region x 11 account life-cycle setups x 4 continuations) plus seeded random histories (optional committed base state, 1-2 blocks of transactions with nested Snapshot/Revert up to depth 6, " +
			"reads interleaved, Finalise/Commit/Reopen between blocks), in two process configurations (native balance unbound -> zero address storage, bound -> token contract storage). " +
			"At every revert: all accessors at Snapshot() vs after RevertToSnapshot() (replicas), stale-revision probe, and twin roots (IntermediateRoot+Commit) vs the history without reverted regions; twin roots again at the end. " +
			"Non-trivial: >= 1 revert that undoes >= 1 mutator; distinct by history hash",
		Assumptions: []string{
			"executions of AccountDB are deterministic, so a prefix re-executed on a fresh AccountDB is the state at that point (replicas are used so the observation's own read side effects never disturb the judged run)",
			"the twin performs every surviving operation including reads; operations inside reverted regions (reads included) are absent from the twin, as the statement says",
			"nil and empty byte strings are the same accessor answer",
			"address 0x..03 (journal ripemd exception) is outside the universe; StorageTrie/DataIterator are not observed (StorageTrie copies by root hash and cannot be used between Finalise and Commit)",
			"a revision id taken inside an already reverted region must be rejected (RevertToSnapshot panics: its contract in this code and upstream)",
		},
		MustObserve: []string{"histories", "reverts_checked", "accessor_comparisons", "twin_root_comparisons", "reverted_mutators", "stale_revision_probes",
			"mode_unbound_histories", "mode_bound_histories", "commit_and_reopen_code_checks", "op_SetCode"},
	})
}
